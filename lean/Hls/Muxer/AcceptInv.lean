import Hls.Muxer.AcceptWrite
/-!
# C01 helper lemmas, part 4: the per-track invariant `TInv` (ghost history ++ open part ++ look-ahead
against the scan of the specification) and its preservation by the abstract steps.
-/
namespace Hls.Muxer.Accept
open Hls.Muxer

/-- every unit's duration is the distance to its successor (as a `uint32`) -/
def Chain : List Sample → Prop
  | a :: b :: rest => a.dur = (b.dts - a.dts) % 4294967296 ∧ Chain (b :: rest)
  | _ => True

theorem chain_snoc2 (l : List Sample) (old old' new : Sample) (h : Chain (l ++ [old]))
    (e1 : old'.dts = old.dts) (e2 : old'.dur = (new.dts - old.dts) % 4294967296) :
    Chain (l ++ [old'] ++ [new]) := by
  induction l with
  | nil => simp [Chain, e1, e2]
  | cons a l ih =>
    cases l with
    | nil =>
      simp only [List.cons_append, List.nil_append, Chain] at h ⊢
      exact ⟨by rw [e1]; exact h.1, by rw [e1]; exact e2, trivial⟩
    | cons b l' =>
      simp only [List.cons_append, Chain] at h ⊢
      exact ⟨h.1, by simpa using ih h.2⟩

/-- the fragments of a track: finished segments, finalized parts of the open segment, the open part -/
def histA (lp : List PartTrack) (a : Abs) : List PartTrack := lp ++ a.stored ++ cur a.samples a.startDTS

def WF (pt : PartTrack) : Prop := pt.id = 1 ∧ ∃ s rest, pt.samples = s :: rest ∧ pt.baseTime = s.dts

/-- ghost observation on the abstraction -/
def obsA (a a' : Abs) (lp : List PartTrack) : List PartTrack := if a'.segId ≠ a.segId then lp ++ a'.last else lp

theorem cur_nil (d : Int) : cur [] d = [] := rfl

theorem histA_rotP (lp : List PartTrack) (a : Abs) (c : Bool) (h : a.hasSeg = a.hasPart) :
    histA lp (absRotP c a) = histA lp a := by
  unfold absRotP histA
  cases hs : a.hasSeg <;> simp [hs, ← h, cur_nil]

theorem segId_rotP (a : Abs) (c : Bool) : (absRotP c a).segId = a.segId := by
  unfold absRotP; split <;> rfl

theorem histA_rotS (lp : List PartTrack) (a : Abs) (h : a.hasSeg = a.hasPart) :
    histA (obsA a (absRotS a) lp) (absRotS a) = histA lp a := by
  unfold absRotS absRotP obsA histA
  cases hs : a.hasSeg <;> simp [hs, ← h, cur_nil]

theorem histA_samples_push (lp : List PartTrack) (a : Abs) (s : Sample) :
    (histA lp (absPush s a)).flatMap (·.samples) = (histA lp a).flatMap (·.samples) ++ [s] := by
  unfold histA absPush cur
  cases hs : a.samples <;> simp

theorem wf_push (lp : List PartTrack) (a : Abs) (s : Sample) (h : ∀ pt ∈ histA lp a, WF pt) :
    ∀ pt ∈ histA lp (absPush s a), WF pt := by
  unfold histA absPush cur at *
  cases hs : a.samples with
  | nil =>
    simp only [hs, List.append_nil, List.nil_append] at h ⊢
    intro pt hpt
    rw [List.mem_append] at hpt
    rcases hpt with hpt | hpt
    · exact h pt hpt
    · simp only [List.mem_singleton] at hpt
      subst hpt
      exact ⟨rfl, s, [], rfl, rfl⟩
  | cons x xs =>
    simp only [hs, List.cons_append] at h ⊢
    intro pt hpt
    rw [List.mem_append] at hpt
    rcases hpt with hpt | hpt
    · exact h pt (List.mem_append.mpr (Or.inl hpt))
    · simp only [List.mem_singleton] at hpt
      have := h { id := 1, baseTime := a.startDTS, samples := x :: xs } (by simp)
      obtain ⟨_, s0, r0, e0, b0⟩ := this
      subst hpt
      simp only [List.cons.injEq] at e0
      exact ⟨rfl, x, xs ++ [s], rfl, by rw [b0, e0.1]⟩

/-- what the ghost history, the open part and the look-ahead of one track say, against the scan of the spec -/
structure TInv (lp : List PartTrack) (a : Abs) (sp : Scan) (off : Int) : Prop where
  out   : ((histA lp a).flatMap (·.samples)).map AU.ofSample = sp.out.map (shiftAU off)
  pend  : a.next.map AU.ofSample = sp.pend.map (shiftAU off)
  chain : Chain ((histA lp a).flatMap (·.samples) ++ a.next.toList)
  wf    : ∀ pt ∈ histA lp a, WF pt
  empty : a.next = none ∨ a.hasSeg = false → histA lp a = []

theorem Rot.app_next (r : Rot) (a : Abs) : (r.app a).next = a.next := by
  cases r <;> simp only [Rot.app, absRotS, absRotP] <;> (repeat' split) <;> rfl

theorem Rot.app_hasSeg (r : Rot) (a : Abs) : (r.app a).hasSeg = a.hasSeg := by
  cases r <;> simp only [Rot.app, absRotS, absRotP] <;> (repeat' split) <;> rfl

theorem Rot.app_firstRA (r : Rot) (a : Abs) : (r.app a).firstRA = a.firstRA := by
  cases r <;> simp only [Rot.app, absRotS, absRotP] <;> (repeat' split) <;> rfl

theorem Rot.app_hasPart (r : Rot) (a : Abs) (h : a.hasSeg = a.hasPart) : (r.app a).hasPart = a.hasPart := by
  obtain ⟨fr, nx, sm, sd, hsg, hpt, stor, sid, lst⟩ := a
  simp only at h
  subst h
  cases hsg <;> cases r <;> rfl

theorem Rot.app_hist (r : Rot) (lp : List PartTrack) (a : Abs) (h : a.hasSeg = a.hasPart) :
    histA (obsA a (r.app a) lp) (r.app a) = histA lp a := by
  cases r with
  | none => simp [Rot.app, obsA]
  | part => simp [Rot.app, obsA, segId_rotP, histA_rotP lp a true h]
  | seg => exact histA_rotS lp a h

theorem TInv.rot {lp : List PartTrack} {a : Abs} {sp : Scan} {off : Int} (r : Rot) (t : TInv lp a sp off)
    (h : a.hasSeg = a.hasPart) : TInv (obsA a (r.app a) lp) (r.app a) sp off := by
  have e := r.app_hist lp a h
  constructor
  · rw [e]; exact t.out
  · rw [r.app_next]; exact t.pend
  · rw [e, r.app_next]; exact t.chain
  · rw [e]; exact t.wf
  · rw [e, r.app_next, r.app_hasSeg]; exact t.empty

theorem stored_nil_of_hist {lp : List PartTrack} {a : Abs} (h : histA lp a = []) : a.stored = [] ∧ lp = [] := by
  unfold histA at h
  simp only [List.append_eq_nil_iff] at h
  exact ⟨h.1.2, h.1.1⟩

theorem histA_open (lp : List PartTrack) (a : Abs) (h : a.stored = []) : histA lp (absOpen a) = histA lp a := by
  simp [histA, absOpen, h]

theorem TInv.opn {lp : List PartTrack} {a : Abs} {sp : Scan} {off : Int} (t : TInv lp a sp off)
    (h : a.hasSeg = false) : TInv lp (absOpen a) sp off := by
  have hh := t.empty (Or.inr h)
  have e := histA_open lp a (stored_nil_of_hist hh).1
  constructor
  · rw [e]; exact t.out
  · exact t.pend
  · rw [e]; exact t.chain
  · rw [e]; exact t.wf
  · intro _; rw [e]; exact hh

theorem TInv.setNext {lp : List PartTrack} {a : Abs} {sp : Scan} {off : Int} (t : TInv lp a sp off)
    (h : a.next = none ∨ a.hasSeg = false) (smp : Sample) (u : AU) (hu : AU.ofSample smp = shiftAU off u) :
    TInv lp { a with next := some smp } { sp with pend := some u } off := by
  have hh := t.empty h
  have e : histA lp { a with next := some smp } = histA lp a := rfl
  constructor
  · rw [e]; exact t.out
  · simp [hu]
  · rw [e, hh]; simp [Chain]
  · rw [e]; exact t.wf
  · intro _; rw [e]; exact hh

theorem TInv.emit {lp : List PartTrack} {a : Abs} {sp : Scan} {off : Int} (t : TInv lp a sp off)
    (old old' smp : Sample) (p u : AU) (hn : a.next = some old) (hp : sp.pend = some p)
    (e1 : old'.dts = old.dts) (e2 : old'.dur = (smp.dts - old.dts) % 4294967296) (e3 : AU.ofSample old' = AU.ofSample old)
    (hu : AU.ofSample smp = shiftAU off u) (c : Bool) (hc : c = !a.hasSeg) :
    TInv lp ((if c then absOpen else id) (absPush old' { a with next := some smp }))
      { sp with out := sp.out ++ [p], pend := some u } off := by
  have hpend := t.pend
  rw [hn, hp] at hpend
  simp only [Option.map_some, Option.some.injEq] at hpend
  have hs : (histA lp (absPush old' { a with next := some smp })).flatMap (·.samples)
      = (histA lp a).flatMap (·.samples) ++ [old'] := histA_samples_push lp { a with next := some smp } old'
  have hwf := wf_push lp { a with next := some smp } old' t.wf
  have hch : Chain ((histA lp a).flatMap (·.samples) ++ [old'] ++ [smp]) := by
    have := t.chain
    rw [hn] at this
    exact chain_snoc2 _ old old' smp this e1 e2
  have hstored : c = true → (absPush old' { a with next := some smp }).stored = [] := by
    intro hct
    have : a.hasSeg = false := by
      cases h : a.hasSeg
      · rfl
      · rw [h, hct] at hc; exact absurd hc (by decide)
    exact (stored_nil_of_hist (t.empty (Or.inr this))).1
  have e : histA lp ((if c then absOpen else id) (absPush old' { a with next := some smp }))
      = histA lp (absPush old' { a with next := some smp }) := by
    cases c
    · rfl
    · exact histA_open _ _ (hstored rfl)
  have hnext : ((if c then absOpen else id) (absPush old' { a with next := some smp })).next = some smp := by
    cases c <;> rfl
  have hseg : ((if c then absOpen else id) (absPush old' { a with next := some smp })).hasSeg = true := by
    cases c
    · have : a.hasSeg = true := by
        cases h : a.hasSeg
        · rw [h] at hc; exact absurd hc (by decide)
        · rfl
      exact this
    · rfl
  constructor
  · rw [e, hs]; simp [t.out, e3, hpend]
  · rw [hnext]; simp [hu]
  · rw [e, hs, hnext]; exact hch
  · rw [e]; exact hwf
  · rw [hnext, hseg]; simp

end Hls.Muxer.Accept
