import Hls.Muxer.ReqSpec
/-!
# C06 — a concrete Low-Latency run used by the non-vacuity examples and the F7 witness
One H264 track at 90 kHz, 5 frames per second, a key frame every second, `SegmentCount = 7`,
`SegmentMinDuration = 1 s`, `PartMinDuration = 200 ms` ⇒ one part per frame, five parts per segment.
-/
namespace Hls.Muxer.Ex
open Hls.Muxer

def cfg : Cfg :=
  { variant := .ll, segmentCount := 7, segmentMinDur := 1000000000, partMinDur := 200000000, segmentMaxSize := 50000000, tracks := [{ codec := .h264, clockRate := 90000 }] }

/-- frame `i` -/
def op (i : Nat) : WriteOp :=
  { track := 0, pts := 18000 * i, dts := 18000 * i, ntp := 1600000000000000000 + 200000000 * i,
    ra := i % 5 == 0, pic := true, par := if i % 5 == 0 then 1 else 0, pays := [i + 1], sizes := [100] }

def ops (n : Nat) : List WriteOp := (List.range n).map op

def st0 : State :=
  match start cfg with
  | .ok st => st
  | .error _ => { cfg := cfg, tracks := [], streams := [], paths := [] }

/-- the state after `n` frames -/
def st (n : Nat) : State := run st0 (ops n)

theorem start_ok : start cfg = .ok st0 := rfl

theorem reachable (n : Nat) : Reachable (st n) := ⟨cfg, st0, ops n, rfl, start_ok, rfl⟩

end Hls.Muxer.Ex
