import Hls.Muxer.TimeTs
import Hls.Muxer.AcceptTs
/-!
# MPEG-TS: once a video track has passed its first random-access unit a segment is open (helper file for C02)

Along runs whose writes all succeed (the property's quantifier) the C01 slice's invariant `Accept.TsInv` ties the
model state to a scan of the op list: `firstRA k = seenRA.contains k`, `nextSegment.isSome = started`.  The scan sets
`started` whenever it adds to `seenRA`; hence `firstRA → a segment is open`.  (Without "all writes succeed" this is
false: an IDR without SPS fails after the gate was opened.)
-/
namespace Hls.Muxer
open Hls.Gen Hls.Muxer.Accept

theorem scanTs_seen_started (cfg : Cfg) : ∀ (ops : List WriteOp) (s : ScanTs),
    (s.seenRA ≠ [] → s.started = true) →
    ((ops.foldl (scanTsOp cfg) s).seenRA ≠ [] → (ops.foldl (scanTsOp cfg) s).started = true) := by
  intro ops
  induction ops with
  | nil => intro s h; exact h
  | cons op r ih =>
    intro s h
    simp only [List.foldl_cons]
    apply ih
    unfold scanTsOp
    simp only
    split
    · split
      · exact h
      · split
        · exact h
        · intro _; rfl
    · split
      · exact h
      · intro hs; simp [h hs]

/-- reachable MPEG-TS states under "every write succeeds, every write names a track of the muxer" -/
theorem reach_TsInv {cfg0 : Cfg} {st0 : State} (hstart : start cfg0 = .ok st0) (hv : cfg0.variant = .mpegts)
    (ops : List WriteOp) (hin : InRange cfg0 ops = true) (hok : AllOk st0 ops = true) :
    ∃ lu, TsInv (run st0 ops) cfg0.tracks.length lu (ops.foldl (scanTsOp cfg0.withDefaults) {}) := by
  obtain ⟨hcfg, hne, hcnt, htr, hstr, hts⟩ := start_form_ts cfg0 st0 hstart hv
  have hcod : ∀ k, k < cfg0.tracks.length →
      (trackCfg cfg0.withDefaults k).codec = .h264 ∨ (trackCfg cfg0.withDefaults k).codec = .aac := by
    intro k hk
    have : trackCfg cfg0.withDefaults k = cfg0.tracks[k] := by
      simp [trackCfg, Cfg.withDefaults, List.getD_eq_getElem?_getD, hk]
    rw [this]
    exact tsCheck_codecs _ _ _ hts _ (List.getElem_mem hk)
  have hs0 : st0.stream 0 = { tracks := List.range cfg0.tracks.length, isLeading := true, nextSegmentID := 0 } := by
    simp [State.stream, hstr]
  have g0 : TsInv st0 cfg0.tracks.length (luOf []) {} := by
    refine ⟨⟨by rw [hcfg]; exact hv, by rw [htr]; simp, by rw [hcfg]; rfl, by rw [hstr]; rfl, by rw [hs0], by omega⟩,
      by simp [absT, hs0], ?_, by simp [luOf, absT, tsOpen, hs0]⟩
    intro k _ _
    simp only [State.track, htr, List.getD_eq_getElem?_getD]
    by_cases hj : k < cfg0.tracks.length
    · simp [hj]
    · simp [Nat.le_of_not_lt hj]
  have hr : ∀ op ∈ ops, op.track < cfg0.tracks.length := by
    intro op hop
    have := List.all_eq_true.mp hin op hop
    simpa using this
  obtain ⟨_, g1⟩ := run_ts cfg0.withDefaults hcod ops st0 [] {} hcfg g0 hr hok
  exact ⟨_, g1⟩

/-- **MPEG-TS: `firstRA` of a video track implies an open segment** (all writes succeed) -/
theorem ts_firstRA_open {cfg0 : Cfg} {st0 : State} (hstart : start cfg0 = .ok st0) (hv : cfg0.variant = .mpegts)
    (ops : List WriteOp) (hin : InRange cfg0 ops = true) (hok : AllOk st0 ops = true)
    (k : Nat) (hk : k < cfg0.tracks.length) (hvid : ((run st0 ops).tcfg k).codec.isVideo = true)
    (hfr : ((run st0 ops).track k).firstRA = true) : ((run st0 ops).stream 0).nextSegment.isSome = true := by
  obtain ⟨lu, g⟩ := reach_TsInv hstart hv ops hin hok
  have h1 := g.ra k hk hvid
  rw [hfr] at h1
  have hne : (ops.foldl (scanTsOp cfg0.withDefaults) {}).seenRA ≠ [] := by
    intro he; rw [he] at h1; simp at h1
  have h2 := scanTs_seen_started cfg0.withDefaults ops {} (fun h => absurd rfl h) hne
  have h3 := g.seg
  rw [h2] at h3
  exact h3

end Hls.Muxer
