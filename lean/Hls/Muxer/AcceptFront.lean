import Hls.Muxer.AcceptMicro
/-!
# C01 helper lemmas, part 6: one `Write*` call against `scanOp` of the specification (`write_sim`)
-/
namespace Hls.Muxer.Accept
open Hls.Muxer

theorem TInv.congr_abs {lp : List PartTrack} {a a' : Abs} {sp : Scan} {off : Int} (t : TInv lp a sp off)
    (e1 : a'.stored = a.stored) (e2 : a'.samples = a.samples) (e3 : a'.startDTS = a.startDTS)
    (e4 : a'.next = a.next) (e5 : a'.hasSeg = a.hasSeg) : TInv lp a' sp off := by
  have e : histA lp a' = histA lp a := by simp [histA, e1, e2, e3]
  exact ⟨by rw [e]; exact t.out, by rw [e4]; exact t.pend, by rw [e, e4]; exact t.chain, by rw [e]; exact t.wf,
    by rw [e, e4, e5]; exact t.empty⟩

/-- a step that only (re)sets `firstRA` of track `ti` -/
def raStep (ti : Nat) (b : Option Bool) : Nat → Abs → Abs :=
  fun j a => if j = ti then { a with firstRA := b.getD a.firstRA } else a

theorem GInv.cosmetic {st st1 : State} {n L : Nat} {sp : Scan} (g : GInv st n L sp)
    (s : AbsStep n st st1 (fun _ a => a)) : GInv st1 n L sp :=
  ⟨g.shape.of_same s.same, fun j hj => by rw [s.eq j hj]; exact g.seg j hj,
   fun j hj => by rw [s.eq j hj]; exact g.part j hj, by rw [s.eq L g.shape.lead]; exact g.lead,
   fun k hk hv => by rw [s.eq k hk]; rw [s.same.cfg] at hv; exact g.ra k hk hv⟩

theorem GInv.markRA {st st1 : State} {n L : Nat} {sp : Scan} (g : GInv st n L sp) (ti : Nat)
    (s : AbsStep n st st1 (fun j a => if j = ti then { a with firstRA := true } else a)) :
    GInv st1 n L { sp with seenRA := ti :: sp.seenRA } := by
  refine ⟨g.shape.of_same s.same, fun j hj => ?_, fun j hj => ?_, ?_, fun k hk hv => ?_⟩
  · rw [s.eq j hj]; by_cases e : j = ti <;> simp [e, g.seg j hj]
    · subst e; exact g.seg j hj
  · rw [s.eq j hj]; by_cases e : j = ti <;> simp [e, g.part j hj]
    · subst e; exact g.part j hj
  · rw [s.eq L g.shape.lead]; by_cases e : L = ti <;> simp [e]
    · subst e; exact g.lead
    · exact g.lead
  · rw [s.eq k hk]; rw [s.same.cfg] at hv
    by_cases e : k = ti
    · simp [e]
    · have := g.ra k hk hv
      simp [e, this]

theorem setTrack_ra_step {st : State} {n L : Nat} (h : Shape st n L) (ti : Nat) (hti : ti < n) (x : TrackSt)
    (e1 : x.next = (st.track ti).next) (e2 : x.samples = (st.track ti).samples) (e3 : x.startDTS = (st.track ti).startDTS) :
    AbsStep n st (st.setTrack ti x) (fun j a => if j = ti then { a with firstRA := x.firstRA } else a) := by
  have h1 : ti < st.tracks.length := by rw [h.ntr]; exact hti
  refine ⟨⟨rfl, by simp, rfl, fun j => ⟨rfl, rfl⟩⟩, fun j hj => ?_⟩
  by_cases e : j = ti
  · subst e; simp [abs, openStored, h1, e1, e2, e3]
  · simp [abs, openStored, Ne.symm e, e]

theorem pending_step (n : Nat) (st : State) (b : Bool) : AbsStep n st { st with pending := b } (fun _ a => a) :=
  ⟨⟨rfl, rfl, rfl, fun _ => ⟨rfl, rfl⟩⟩, fun _ _ => rfl⟩

theorem AbsStep.id_of {n : Nat} {a b : State} {G : Nat → Abs → Abs} (h : AbsStep n a b G)
    (e : ∀ j, j < n → G j (abs a j) = abs a j) : AbsStep n a b (fun _ x => x) :=
  h.congr e

/-- storing new parameter sets is invisible for C01 -/
theorem params_step {st : State} {n L : Nat} (h : Shape st n L) (ti : Nat) (hti : ti < n) (par : Nat) :
    AbsStep n st
      (if par ≠ 0 ∧ par ≠ (st.track ti).params then
        { (st.setTrack ti { (st.track ti) with params := par }) with pending := true } else st)
      (fun _ a => a) := by
  split
  · have s1 := setTrack_ra_step h ti hti { (st.track ti) with params := par } rfl rfl rfl
    have s2 := pending_step n (st.setTrack ti { (st.track ti) with params := par }) true
    refine (s1.trans s2).congr fun j hj => ?_
    by_cases e : j = ti
    · subst e; simp [abs]
    · simp [e]
  · exact AbsStep.refl n st

theorem paramsStep_step {st : State} {n L : Nat} (h : Shape st n L) (ti : Nat) (hti : ti < n) (par : Nat) (ra : Bool) :
    AbsStep n st (paramsStep st ti par ra).1 (fun _ a => a) := by
  unfold paramsStep
  have s1 := params_step h ti hti par
  simp only []
  generalize (if par ≠ 0 ∧ par ≠ (st.track ti).params then
        { (st.setTrack ti { (st.track ti) with params := par }) with pending := true } else st) = st1 at s1 ⊢
  by_cases c : (ra && st1.pending) = true
  · rw [if_pos c]
    exact (s1.trans (pending_step n _ false)).congr fun _ _ => rfl
  · rw [if_neg c]
    exact s1

/-- a video unit that is dropped by the random-access gate -/
theorem video_drop {st st2 : State} {n L : Nat} {sp : Scan} {lp : List PartTrack} (t ti : Nat) (ht : t < n) (hti : ti < n)
    (g : GInv st n L sp) (off : Int) (tv : TInv lp (abs st t) sp off)
    (s : AbsStep n st st2 (fun _ a => a)) (hv : (trackCfg st.cfg ti).codec.isVideo = true)
    (u : AU) (hgate : (abs st ti).firstRA = false ∧ u.sync = false) :
    GInv st2 n L (scanUnit st.cfg t ti sp u) ∧ st2.cfg = st.cfg ∧
    TInv (obsA (abs st t) (abs st2 t) lp) (abs st2 t) (scanUnit st.cfg t ti sp u) off := by
  have hseen : sp.seenRA.contains ti = false := by rw [← g.ra ti hti hv]; exact hgate.1
  have : scanUnit st.cfg t ti sp u = sp := by
    rw [scanUnit_eq, if_pos (by rw [hv, hgate.2, hseen]; rfl)]
  rw [this, obsA_same _ _ _ (by rw [s.eq t ht])]
  exact ⟨g.cosmetic s, s.same.cfg, by rw [s.eq t ht]; exact tv⟩

/-- a video unit that passes the random-access gate and goes through `fmp4WriteSample` -/
theorem video_pass {st st4 st' : State} {n L : Nat} {sp : Scan} {lp : List PartTrack} (t ti : Nat) (ht : t < n) (hti : ti < n)
    (g : GInv st n L sp) (tv : TInv lp (abs st t) sp (10 * (trackCfg st.cfg t).clockRate))
    (s : AbsStep n st st4 (fun j a => if j = ti then { a with firstRA := true } else a))
    (hv : (trackCfg st.cfg ti).codec.isVideo = true) (ra ch : Bool) (smp : Sample)
    (hgate : ¬ ((abs st ti).firstRA = false ∧ smp.sync = false))
    (hr : fmp4Write st4 ti ra ch smp = (st', .ok)) :
    GInv st' n L (scanUnit st.cfg t ti sp (AU.ofSample smp)) ∧ st'.cfg = st.cfg ∧
    TInv (obsA (abs st t) (abs st' t) lp) (abs st' t) (scanUnit st.cfg t ti sp (AU.ofSample smp))
      (10 * (trackCfg st.cfg t).clockRate) := by
  have hc : ¬ ((trackCfg st.cfg ti).codec.isVideo && !(AU.ofSample smp).sync && !sp.seenRA.contains ti) = true := by
    rw [← g.ra ti hti hv]
    intro h
    simp only [Bool.and_eq_true, Bool.not_eq_true'] at h
    exact hgate ⟨h.2, h.1.2⟩
  rw [scanUnit_eq, if_neg hc, hv, if_pos rfl]
  have g4 := g.markRA ti s
  have tv4 : TInv lp (abs st4 t) { sp with seenRA := ti :: sp.seenRA } (10 * (trackCfg st4.cfg t).clockRate) := by
    rw [s.same.cfg]
    refine (tv.congr_sp (sp' := { sp with seenRA := ti :: sp.seenRA }) rfl rfl).congr_abs ?_ ?_ ?_ ?_ ?_ <;>
      (rw [s.eq t ht]; by_cases e : t = ti <;> simp [e])
  obtain ⟨g', hcfg, tv'⟩ := micro t ht ti hti g4 tv4 ra ch smp hr
  rw [s.same.cfg] at g' tv' hcfg
  refine ⟨g', hcfg, ?_⟩
  rw [obsA_congr (abs st t) (abs st4 t) _ _ (by rw [s.eq t ht]; by_cases e : t = ti <;> simp [e])]
  exact tv'

theorem scanUnit_audio (cfg : Cfg) (t k : Nat) (s : Scan) (u : AU) (ha : (trackCfg cfg k).codec.isVideo = false) :
    scanUnit cfg t k s u = scanCore cfg t k s u := by
  rw [scanUnit_eq, ha]; rfl

/-- a multi-unit audio call, unit by unit -/
theorem many_sim {n L : Nat} (cfg : Cfg) (t ti : Nat) (ht : t < n) (hti : ti < n)
    (ha : (trackCfg cfg ti).codec.isVideo = false) :
    ∀ (l : List Sample) (st st' : State) (log : List Seg) (sp : Scan), st.cfg = cfg → GInv st n L sp →
      TInv (lpOf log) (abs st t) sp (10 * (trackCfg cfg t).clockRate) →
      fmp4WriteMany st ti l = (st', .ok) →
      (fmp4WriteManyLog t st log ti l).1 = st' ∧
      GInv st' n L ((l.map AU.ofSample).foldl (scanUnit cfg t ti) sp) ∧ st'.cfg = cfg ∧
      TInv (lpOf (fmp4WriteManyLog t st log ti l).2.1) (abs st' t) ((l.map AU.ofSample).foldl (scanUnit cfg t ti) sp)
        (10 * (trackCfg cfg t).clockRate) := by
  intro l
  induction l with
  | nil =>
    intro st st' log sp hc g tv hr
    simp only [fmp4WriteMany, Prod.mk.injEq, and_true] at hr
    subst hr
    exact ⟨rfl, g, hc, tv⟩
  | cons x rest ih =>
    intro st st' log sp hc g tv hr
    simp only [fmp4WriteMany] at hr
    cases hw : fmp4Write st ti true false x with
    | mk st1 res =>
      rw [hw] at hr
      cases res with
      | err => simp at hr
      | ok =>
        simp only [] at hr
        subst hc
        obtain ⟨g1, hc1, tv1⟩ := micro t ht ti hti g tv true false x hw
        rw [← lpOf_obs, ← scanUnit_audio _ _ _ _ _ ha] at tv1
        rw [← scanUnit_audio _ _ _ _ _ ha] at g1
        have := ih st1 st' (obs t st st1 log) _ hc1 g1 tv1 hr
        simp only [fmp4WriteManyLog, hw, List.map_cons, List.foldl_cons]
        exact this

/-- what `write_sim` concludes -/
def SimOK (n L t : Nat) (st : State) (log : List Seg) (sp : Scan) (op : WriteOp) : Prop :=
  (writeLog t st log op).1 = (write st op).1 ∧
  GInv (write st op).1 n L (scanOp st.cfg t sp op) ∧ (write st op).1.cfg = st.cfg ∧
  TInv (lpOf (writeLog t st log op).2.1) (abs (write st op).1 t) (scanOp st.cfg t sp op)
    (10 * (trackCfg st.cfg t).clockRate)

/-- a step that C01 does not see -/
theorem cosmetic_sim {st st2 : State} {n L : Nat} {sp : Scan} {lp : List PartTrack} (t : Nat) (ht : t < n)
    (g : GInv st n L sp) (off : Int) (tv : TInv lp (abs st t) sp off) (s : AbsStep n st st2 (fun _ a => a)) :
    GInv st2 n L sp ∧ st2.cfg = st.cfg ∧ TInv (obsA (abs st t) (abs st2 t) lp) (abs st2 t) sp off := by
  rw [obsA_same _ _ _ (by rw [s.eq t ht])]
  exact ⟨g.cosmetic s, s.same.cfg, by rw [s.eq t ht]; exact tv⟩

/-- the common shape of the four video front ends: parameter bookkeeping (`st2`), the random-access gate, then
(`E`) some more invisible bookkeeping and `fmp4WriteSample` -/
theorem video_frontend {n L : Nat} (t : Nat) (ht : t < n) (st : State) (log : List Seg) (sp : Scan) (op : WriteOp)
    (hop : op.track < n) (g : GInv st n L sp)
    (tv : TInv (lpOf log) (abs st t) sp (10 * (trackCfg st.cfg t).clockRate))
    (smp : Sample) (hsync : smp.sync = op.ra)
    (hv : (trackCfg st.cfg op.track).codec.isVideo = true)
    (hunits : unitsOf (trackCfg st.cfg op.track) op = [AU.ofSample smp])
    (hwl : writeLog t st log op = ((write st op).1, obs t st (write st op).1 log, (write st op).2))
    (st2 : State) (s2 : AbsStep n st st2 (fun _ a => a)) (E : State × WriteRes)
    (hw : write st op = (if !(st2.track op.track).firstRA && !op.ra then (st2, .ok) else E))
    (hpass : ∀ st', E = (st', .ok) → ∃ st4 ch,
      AbsStep n st st4 (fun j a => if j = op.track then { a with firstRA := true } else a) ∧
      fmp4Write st4 op.track op.ra ch smp = (st', .ok))
    (hok : (write st op).2 = .ok) : SimOK n L t st log sp op := by
  unfold SimOK
  rw [hwl, lpOf_obs]
  simp only [scanOp, hunits, List.foldl_cons, List.foldl_nil]
  rw [hw] at hok ⊢
  have hfr : (st2.track op.track).firstRA = (abs st op.track).firstRA := by
    have := s2.eq op.track hop
    simp only [abs] at this ⊢
    exact congrArg Abs.firstRA this
  by_cases hgate : (abs st op.track).firstRA = false ∧ smp.sync = false
  · rw [if_pos (by rw [hfr, hgate.1, ← hsync, hgate.2]; rfl)]
    exact ⟨trivial, video_drop t op.track ht hop g _ tv s2 hv _ hgate⟩
  · have hng : ¬ ((!(st2.track op.track).firstRA && !op.ra) = true) := by
      rw [hfr, ← hsync]; intro h
      simp only [Bool.and_eq_true, Bool.not_eq_true'] at h
      exact hgate h
    rw [if_neg hng] at hok ⊢
    obtain ⟨st', rr⟩ := E
    simp only at hok
    subst hok
    obtain ⟨st4, ch, s4, hres⟩ := hpass st' rfl
    exact ⟨trivial, video_pass t op.track ht hop g tv s4 hv op.ra ch _ hgate hres⟩

/-- the bookkeeping of `write{H265,VP9,AV1}` between the gate and `fmp4WriteSample` -/
theorem pass_simple {st : State} {n L : Nat} (h : Shape st n L) (op : WriteOp) (hop : op.track < n) (smp : Sample) :
    ∀ st', fmp4Write ((paramsStep st op.track op.par op.ra).1.setTrack op.track
              { ((paramsStep st op.track op.par op.ra).1.track op.track) with firstRA := true })
            op.track op.ra (paramsStep st op.track op.par op.ra).2 smp = (st', .ok) → ∃ st4 ch,
      AbsStep n st st4 (fun j a => if j = op.track then { a with firstRA := true } else a) ∧
      fmp4Write st4 op.track op.ra ch smp = (st', .ok) := by
  intro st' hres
  have s2 := paramsStep_step h op.track hop op.par op.ra
  have s3 := setTrack_ra_step (h.of_same s2.same) op.track hop
    { ((paramsStep st op.track op.par op.ra).1.track op.track) with firstRA := true } rfl rfl rfl
  exact ⟨_, _, (s2.trans s3).congr (fun j hj => by by_cases e : j = op.track <;> simp [e]), hres⟩

theorem write_sim_h265 {n L : Nat} (t : Nat) (ht : t < n) (st : State) (log : List Seg) (sp : Scan) (op : WriteOp)
    (hop : op.track < n) (g : GInv st n L sp)
    (tv : TInv (lpOf log) (abs st t) sp (10 * (trackCfg st.cfg t).clockRate))
    (hc : (st.tcfg op.track).codec = .h265 ∨ (st.tcfg op.track).codec = .vp9)
    (hok : (write st op).2 = .ok) : SimOK n L t st log sp op := by
  have htc : trackCfg st.cfg op.track = st.tcfg op.track := rfl
  refine video_frontend t ht st log sp op hop g tv
    { dts := op.dts, ptsOff := op.pts - op.dts, sync := op.ra, pay := op.pays.headD 0,
      size := op.sizes.headD 0, ntp := op.ntp } rfl ?_ ?_ ?_ _ (paramsStep_step g.shape op.track hop op.par op.ra) _ ?_
    (pass_simple g.shape op hop _) hok
  · rw [htc]; rcases hc with h | h <;> rw [h] <;> rfl
  · rw [htc]; unfold unitsOf; rcases hc with h | h <;> rw [h] <;> rfl
  · unfold writeLog; rcases hc with h | h <;> simp only [h]
  · unfold write; rcases hc with h | h <;> simp only [h] <;> rfl

theorem write_sim_av1 {n L : Nat} (t : Nat) (ht : t < n) (st : State) (log : List Seg) (sp : Scan) (op : WriteOp)
    (hop : op.track < n) (g : GInv st n L sp)
    (tv : TInv (lpOf log) (abs st t) sp (10 * (trackCfg st.cfg t).clockRate))
    (hc : (st.tcfg op.track).codec = .av1)
    (hok : (write st op).2 = .ok) : SimOK n L t st log sp op := by
  have htc : trackCfg st.cfg op.track = st.tcfg op.track := rfl
  refine video_frontend t ht st log sp op hop g tv
    { dts := op.pts, ptsOff := 0, sync := op.ra, pay := op.pays.headD 0,
      size := op.sizes.headD 0, ntp := op.ntp } rfl ?_ ?_ ?_ _ (paramsStep_step g.shape op.track hop op.par op.ra) _ ?_
    (pass_simple g.shape op hop _) hok
  · rw [htc, hc]; rfl
  · rw [htc]; unfold unitsOf; rw [hc]; rfl
  · unfold writeLog; simp only [hc]
  · unfold write; simp only [hc]

theorem write_h264_form (st : State) (op : WriteOp) (hc : (st.tcfg op.track).codec = .h264)
    (hpic : ¬ (!op.ra && !op.pic) = true) :
    write st op =
      (if !((paramsStep st op.track op.par op.ra).1.track op.track).firstRA && !op.ra then
        ((paramsStep st op.track op.par op.ra).1, .ok)
       else
        let st2 := (paramsStep st op.track op.par op.ra).1
        let sps : Bool := (st2.track op.track).extrSPS || decide (op.par ≠ 0)
        let t' : TrackSt := { (st2.track op.track) with firstRA := true, extrSPS := sps }
        let st3 := st2.setTrack op.track t'
        if !t'.extrSPS then (st3, .err) else
        if (match t'.extrPrev with | some p => decide (op.dts < p) | none => false) then (st3, .err) else
        let st4 := st3.setTrack op.track { t' with extrPrev := some op.dts }
        if st4.cfg.variant = .mpegts then
          (let nd := toDur op.dts (st.tcfg op.track).clockRate
           let s := st4.stream 0
           let st5 :=
             match s.nextSegment with
             | none => createFirstSegment st4 nd op.ntp
             | some seg =>
               if op.ra && (decide (nd - seg.startDTS ≥ st4.cfg.segmentMinDur) || (paramsStep st op.track op.par op.ra).2)
               then rotateSegments st4 nd op.ntp false else st4
           tsWrite st5 { track := op.track, pts := mulDiv op.pts 90000 (st.tcfg op.track).clockRate,
                         dts := mulDiv op.dts 90000 (st.tcfg op.track).clockRate, pays := [op.pays.headD 0] }
             (op.sizes.headD 0) (some nd) false)
        else
          fmp4Write st4 op.track op.ra (paramsStep st op.track op.par op.ra).2
            { dts := op.dts, ptsOff := op.pts - op.dts, sync := op.ra, pay := op.pays.headD 0,
              size := op.sizes.headD 0, ntp := op.ntp }) := by
  unfold write
  simp only [hc, hpic]
  rfl

theorem cfg_paramsStep (st : State) (ti par : Nat) (ra : Bool) : (paramsStep st ti par ra).1.cfg = st.cfg := by
  unfold paramsStep
  simp only []
  split <;> split <;> rfl

theorem write_sim_h264 {n L : Nat} (t : Nat) (ht : t < n) (st : State) (log : List Seg) (sp : Scan) (op : WriteOp)
    (hop : op.track < n) (g : GInv st n L sp)
    (tv : TInv (lpOf log) (abs st t) sp (10 * (trackCfg st.cfg t).clockRate))
    (hc : (st.tcfg op.track).codec = .h264)
    (hok : (write st op).2 = .ok) : SimOK n L t st log sp op := by
  have htc : trackCfg st.cfg op.track = st.tcfg op.track := rfl
  have hwl : writeLog t st log op = ((write st op).1, obs t st (write st op).1 log, (write st op).2) := by
    unfold writeLog; simp only [hc]
  by_cases hpic : (!op.ra && !op.pic) = true
  · -- parameter sets / SEI only: not a picture
    have hw : write st op =
        ((if op.par ≠ 0 ∧ op.par ≠ (st.track op.track).params then
            { (st.setTrack op.track { (st.track op.track) with params := op.par }) with pending := true } else st), .ok) := by
      unfold write; simp only [hc, hpic, if_true]
    have hunits : unitsOf (trackCfg st.cfg op.track) op = [] := by
      rw [htc]; unfold unitsOf; simp only [hc, hpic, if_true]
    unfold SimOK
    rw [hwl, lpOf_obs, hw]
    simp only [scanOp, hunits, List.foldl_nil]
    exact ⟨trivial, cosmetic_sim t ht g _ tv (params_step g.shape op.track hop op.par)⟩
  · refine video_frontend t ht st log sp op hop g tv
      { dts := op.dts, ptsOff := op.pts - op.dts, sync := op.ra, pay := op.pays.headD 0,
        size := op.sizes.headD 0, ntp := op.ntp } rfl ?_ ?_ hwl _ (paramsStep_step g.shape op.track hop op.par op.ra) _
      (write_h264_form st op hc hpic) ?_ hok
    · rw [htc, hc]; rfl
    · rw [htc]; unfold unitsOf; simp only [hc, hpic]; rfl
    · intro st' hE
      have s2 := paramsStep_step g.shape op.track hop op.par op.ra
      have hs2 := g.shape.of_same s2.same
      simp only [] at hE
      generalize (paramsStep st op.track op.par op.ra).2 = changed at hE
      generalize (paramsStep st op.track op.par op.ra).1 = st2 at hE s2 hs2
      generalize hsps : ((st2.track op.track).extrSPS || decide (op.par ≠ 0)) = sps at hE
      have h1 : op.track < st2.tracks.length := by rw [hs2.ntr]; exact hop
      have s3 := setTrack_ra_step hs2 op.track hop
        { (st2.track op.track) with firstRA := true, extrSPS := sps } rfl rfl rfl
      have hs3 := hs2.of_same s3.same
      have s4 := setTrack_ra_step hs3 op.track hop
        { (st2.track op.track) with firstRA := true, extrSPS := sps, extrPrev := some op.dts }
        (by simp [h1]) (by simp [h1]) (by simp [h1])
      have hvar : ¬ ((st2.setTrack op.track { (st2.track op.track) with firstRA := true, extrSPS := sps }).setTrack op.track
          { (st2.track op.track) with firstRA := true, extrSPS := sps, extrPrev := some op.dts }).cfg.variant = .mpegts := by
        simp only [cfg_setTrack]; exact hs2.var
      generalize (match (st2.track op.track).extrPrev with | some p => decide (op.dts < p) | none => false) = bad at hE
      cases sps
      · simp at hE
      · cases bad
        · simp only [Bool.not_true, Bool.false_eq_true, if_false] at hE
          rw [if_neg hvar] at hE
          refine ⟨_, _, ?_, hE⟩
          refine ((s2.trans s3).trans s4).congr fun j hj => ?_
          by_cases e : j = op.track <;> simp [e]
        · simp at hE

theorem write_sim_audio {n L : Nat} (t : Nat) (ht : t < n) (st : State) (log : List Seg) (sp : Scan) (op : WriteOp)
    (hop : op.track < n) (g : GInv st n L sp)
    (tv : TInv (lpOf log) (abs st t) sp (10 * (trackCfg st.cfg t).clockRate))
    (hc : (st.tcfg op.track).codec = .opus ∨ (st.tcfg op.track).codec = .aac)
    (hok : (write st op).2 = .ok) : SimOK n L t st log sp op := by
  have htc : trackCfg st.cfg op.track = st.tcfg op.track := rfl
  have hvar := g.shape.var
  have ha : (trackCfg st.cfg op.track).codec.isVideo = false := by
    rw [htc]; rcases hc with h | h <;> rw [h] <;> rfl
  obtain ⟨l, hw, hwl, hunits⟩ : ∃ l : List Sample, write st op = fmp4WriteMany st op.track l ∧
      writeLog t st log op = fmp4WriteManyLog t st log op.track l ∧
      unitsOf (trackCfg st.cfg op.track) op = l.map AU.ofSample := by
    rcases hc with h | h
    · refine ⟨buildOpus op.pays op.sizes op.durs op.pts op.ntp, ?_, ?_, ?_⟩
      · unfold write; simp only [h]
      · unfold writeLog; simp only [h]
      · rw [htc]; unfold unitsOf; simp only [h]
    · refine ⟨buildAac op.pts op.ntp (st.tcfg op.track).clockRate (st.tcfg op.track).sampleRate 0 op.pays op.sizes, ?_, ?_, ?_⟩
      · unfold write; simp only [h, hvar, if_false]
      · unfold writeLog; simp only [h, hvar, if_false]
      · rw [htc]; unfold unitsOf; simp only [h]
  unfold SimOK
  rw [hw] at hok ⊢
  rw [hwl]
  simp only [scanOp, hunits]
  cases hr : fmp4WriteMany st op.track l with
  | mk st' res =>
    rw [hr] at hok
    simp only at hok
    subst hok
    obtain ⟨e1, g', hc', tv'⟩ := many_sim st.cfg t op.track ht hop ha l st st' log sp rfl g tv hr
    exact ⟨e1, g', hc', tv'⟩

theorem write_sim {n L : Nat} (t : Nat) (ht : t < n) (st : State) (log : List Seg) (sp : Scan) (op : WriteOp)
    (hop : op.track < n) (g : GInv st n L sp)
    (tv : TInv (lpOf log) (abs st t) sp (10 * (trackCfg st.cfg t).clockRate))
    (hok : (write st op).2 = .ok) : SimOK n L t st log sp op := by
  cases hc : (st.tcfg op.track).codec with
  | h264 => exact write_sim_h264 t ht st log sp op hop g tv hc hok
  | h265 => exact write_sim_h265 t ht st log sp op hop g tv (Or.inl hc) hok
  | vp9 => exact write_sim_h265 t ht st log sp op hop g tv (Or.inr hc) hok
  | av1 => exact write_sim_av1 t ht st log sp op hop g tv hc hok
  | aac => exact write_sim_audio t ht st log sp op hop g tv (Or.inr hc) hok
  | opus => exact write_sim_audio t ht st log sp op hop g tv (Or.inl hc) hok

end Hls.Muxer.Accept
