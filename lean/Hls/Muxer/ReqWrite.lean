import Hls.Muxer.ReqInv
/-!
# C06 (sequential half) — every `write` / `run` of a Low-Latency muxer is a sequence of primitive steps

`write_steps`, `run_steps`, `run_inv`.  The case analysis of `write` (codec front ends,
`fmp4WriteSample`, the rotations over all streams) is done here, once.  Helper lemmas only.
-/
namespace Hls.Muxer
open Hls.Gen


theorem createFirstSegment_steps (st : State) (d n : Int) (hg : ∀ i, (st.stream i).nextSegment = none) :
    Steps st (createFirstSegment st d n) := .createAll d n (.refl st) hg

theorem rotateParts_steps (st : State) (d : Int) : Steps st (rotateParts st d) := by
  unfold rotateParts
  apply foldl_pres (Steps st)
  · exact .rotP _ d (.refl st)
  · intro b a hb
    simp only
    split
    · exact hb
    · refine .same (.rotP a d hb) (same_setStream _ _ _ rfl)

theorem rotateSegments_steps (st : State) (d n : Int) (f : Bool) : Steps st (rotateSegments st d n f) := by
  unfold rotateSegments
  apply foldl_pres (Steps st)
  · exact .rotS _ d n f (.refl st)
  · intro b a hb
    simp only
    split
    · exact hb
    · refine .same (.rotS a d n f hb) (same_setStream _ _ _ rfl)

theorem adjustPartDuration_same (st : State) (x : Int) : Same st (adjustPartDuration st x) := by
  unfold adjustPartDuration
  split
  · exact .refl _
  · split
    · exact .refl _
    · split
      · exact .refl _
      · exact ⟨rfl, rfl, rfl, fun _ => rfl⟩

theorem partWriteSample_same (st : State) (ti : Nat) (smp : Sample) : Same st (partWriteSample st ti smp).1 := by
  unfold partWriteSample
  simp only
  split
  · rename_i seg part h1 h2
    split
    · exact .refl _
    · simp only
      refine (same_setTrack st ti _).trans (same_setStream _ _ _ ?_)
      show _ = (st.stream (st.streamOf ti)).view
      simp only [StreamSt.view, h1, h2]
      split <;> rfl
  · exact .refl _

theorem steps_ite {a x y : State} (c : Prop) [Decidable c] (hx : Steps a x) (hy : Steps a y) :
    Steps a (if c then x else y) := by
  split <;> assumption

/-- the part of `fmp4WriteSample` after the sample has been appended to the open part (leading track) -/
def fwTail0 (st : State) (ra changed : Bool) (smp : Sample) (rate segStart partStart : Int) : State × WriteRes :=
  let nd := toDur smp.dts rate
  if ra && (changed || decide (nd - segStart ≥ st.cfg.segmentMinDur)) then
    let st := rotateSegments st nd smp.ntp changed
    let st := if changed then { st with freeze := false, durs := [] } else { st with freeze := true }
    (st, .ok)
  else if st.cfg.variant = .ll ∧ nd - partStart ≥ st.adjusted then
    (rotateParts st nd, .ok)
  else (st, .ok)

def fwTail (st : State) (si : Nat) (ra changed : Bool) (smp : Sample) (rate : Int) : State × WriteRes :=
  let s := st.stream si
  fwTail0 st ra changed smp rate (match s.nextSegment with | some g => g.startDTS | none => 0)
    (match s.nextPart with | some p => p.startDTS | none => 0)

def fwMid (st : State) (ti si : Nat) (lead ra changed : Bool) (smp old : Sample) (rate : Int) : State × WriteRes :=
  match partWriteSample st ti old with
  | (st, .err) => (st, .err)
  | (st, .ok) => if !lead then (st, .ok) else fwTail st si ra changed smp rate

def fwPre (st : State) (lead hasSeg : Bool) (old : Sample) (duration rate : Int) : State :=
  let st := if lead && !hasSeg then createFirstSegment st (toDur old.dts rate) old.ntp else st
  if lead then adjustPartDuration st (toDur duration rate) else st

theorem fmp4Write_eq (st : State) (ti : Nat) (ra changed : Bool) (smp0 : Sample) :
    fmp4Write st ti ra changed smp0 =
      (let rate := (st.tcfg ti).clockRate
       let smp := { smp0 with dts := smp0.dts + toTs fmp4StartDTS rate }
       if smp.dts < 0 then (st, .ok) else
       let t := st.track ti
       let st := st.setTrack ti { t with next := some smp }
       match t.next with
       | none => (st, .ok)
       | some old =>
         let duration := smp.dts - old.dts
         let old := { old with dur := duration % 4294967296 }
         let si := st.streamOf ti
         let lead := st.isLeadingTrack ti
         let hasSeg := (st.stream si).nextSegment.isSome
         if !lead && !hasSeg then (st, .ok) else
         fwMid (fwPre st lead hasSeg old duration rate) ti si lead ra changed smp old rate) := rfl

theorem fwTail_steps (st : State) (si : Nat) (ra changed : Bool) (smp : Sample) (rate : Int) :
    Steps st (fwTail st si ra changed smp rate).1 := by
  unfold fwTail
  simp only
  generalize (match (st.stream si).nextSegment with | some g => g.startDTS | none => 0) = a
  generalize (match (st.stream si).nextPart with | some p => p.startDTS | none => 0) = b
  unfold fwTail0
  simp only
  split
  · cases changed
    · exact .same (rotateSegments_steps _ _ _ _) ⟨rfl, rfl, rfl, fun _ => rfl⟩
    · exact .same (rotateSegments_steps _ _ _ _) ⟨rfl, rfl, rfl, fun _ => rfl⟩
  · split
    · exact rotateParts_steps _ _
    · exact .refl _

theorem fwMid_steps (st : State) (ti si : Nat) (lead ra changed : Bool) (smp old : Sample) (rate : Int) :
    Steps st (fwMid st ti si lead ra changed smp old rate).1 := by
  unfold fwMid
  have h := partWriteSample_same st ti old
  split
  · rename_i st2 heq
    rw [heq] at h; exact .of_same h
  · rename_i st2 heq
    rw [heq] at h
    split
    · exact .of_same h
    · exact (Steps.of_same h).trans (fwTail_steps _ _ _ _ _ _)

theorem fwPre_steps (st : State) (lead hasSeg : Bool) (old : Sample) (duration rate : Int)
    (hg : (lead && !hasSeg) = true → ∀ i, (st.stream i).nextSegment = none) :
    Steps st (fwPre st lead hasSeg old duration rate) := by
  unfold fwPre
  simp only
  have h1 : Steps st (if (lead && !hasSeg) = true then createFirstSegment st (toDur old.dts rate) old.ntp else st) := by
    split
    · rename_i hc; exact createFirstSegment_steps _ _ _ (hg hc)
    · exact .refl _
  split
  · exact .same h1 (adjustPartDuration_same _ _)
  · exact h1

/-- no stream has an open segment when the leading track's stream has none -/
theorem allNone_of_lead (st : State) (hinv : InvU st) (ti : Nat)
    (h : (st.isLeadingTrack ti && !((st.stream (st.streamOf ti)).nextSegment.isSome)) = true) :
    ∀ i, (st.stream i).nextSegment = none := by
  intro i
  have hso : st.streamOf ti = ti := by unfold State.streamOf; rw [hinv.inv.ll]
  rw [hso] at h
  simp only [State.isLeadingTrack, Bool.and_eq_true, decide_eq_true_eq, Bool.not_eq_true'] at h
  obtain ⟨hlead, hnone⟩ := h
  cases hi : (st.stream i).nextSegment with
  | none => rfl
  | some g =>
    have := hinv.uni i (by rw [hi]; rfl)
    rw [← hlead, hnone] at this
    cases this

theorem fmp4Write_steps (st : State) (hinv : InvU st) (ti : Nat) (ra changed : Bool) (smp : Sample) :
    Steps st (fmp4Write st ti ra changed smp).1 := by
  rw [fmp4Write_eq]
  simp only
  split
  · exact .refl _
  · split
    · exact .of_same (same_setTrack _ _ _)
    · split
      · exact .of_same (same_setTrack _ _ _)
      · have h0 := Steps.of_same (same_setTrack st ti
          { st.track ti with next := some { smp with dts := smp.dts + toTs fmp4StartDTS (st.tcfg ti).clockRate } })
        have hinv' := steps_invU h0 hinv
        exact (h0.trans (fwPre_steps _ _ _ _ _ _ (allNone_of_lead _ hinv' ti))).trans (fwMid_steps _ _ _ _ _ _ _ _ _)

theorem fmp4WriteMany_steps (st : State) (hinv : InvU st) (ti : Nat) (l : List Sample) :
    Steps st (fmp4WriteMany st ti l).1 := by
  induction l generalizing st with
  | nil => exact .refl _
  | cons s rest ih =>
    unfold fmp4WriteMany
    have h := fmp4Write_steps st hinv ti true false s
    split
    · rename_i st2 heq; rw [heq] at h; exact h
    · rename_i st2 heq; rw [heq] at h; exact h.trans (ih st2 (steps_invU h hinv))

theorem tsWrite_same (st : State) (u : TsUnit) (size : Nat) (e : Option Int) (c : Bool) :
    Same st (tsWrite st u size e c).1 := by
  unfold tsWrite
  simp only
  split
  · exact .refl _
  · rename_i seg hseg
    split
    · exact .refl _
    · refine same_setStream _ _ _ ?_
      simp only [StreamSt.view, hseg]
      cases e <;> cases c <;> rfl

theorem paramsStep_same (st : State) (ti par : Nat) (ra : Bool) : Same st (paramsStep st ti par ra).1 := by
  unfold paramsStep
  simp only
  split <;> split <;> exact ⟨rfl, rfl, rfl, fun _ => rfl⟩

theorem write_steps (st : State) (hinv : InvU st) (op : WriteOp) : Steps st (write st op).1 := by
  have hll := hinv.inv.ll
  unfold write
  simp only
  split
  · -- h264
    split
    · split <;> first | exact .refl _ | exact .of_same ⟨rfl, rfl, rfl, fun _ => rfl⟩
    · have hp := paramsStep_same st op.track op.par op.ra
      generalize paramsStep st op.track op.par op.ra = pr at hp
      obtain ⟨st1, changed⟩ := pr
      simp only at hp ⊢
      split
      · exact .of_same hp
      · have h2 := Steps.of_same (hp.trans (same_setTrack st1 op.track
            { st1.track op.track with firstRA := true,
                                       extrSPS := (st1.track op.track).extrSPS || decide (op.par ≠ 0) }))
        have hcfg : st1.cfg.variant = .ll := by rw [hp.cfg]; exact hll
        split
        · exact h2
        · split
          · split
            · exact h2
            · have h3 := fun i t => Steps.trans h2 (Steps.of_same (same_setTrack _ i t))
              split
              · rename_i hv; exact absurd (hcfg.symm.trans hv) (by decide)
              · exact Steps.trans (h3 _ _) (fmp4Write_steps _ (steps_invU (h3 _ _) hinv) _ _ _ _)
          · split
            · exact h2
            · have h3 := fun i t => Steps.trans h2 (Steps.of_same (same_setTrack _ i t))
              split
              · rename_i hv; exact absurd (hcfg.symm.trans hv) (by decide)
              · exact Steps.trans (h3 _ _) (fmp4Write_steps _ (steps_invU (h3 _ _) hinv) _ _ _ _)
  · -- h265 / vp9
    have hp := paramsStep_same st op.track op.par op.ra
    generalize paramsStep st op.track op.par op.ra = pr at hp
    obtain ⟨st1, changed⟩ := pr
    simp only at hp ⊢
    split
    · exact .of_same hp
    · have h2 := fun t => Steps.of_same (hp.trans (same_setTrack st1 op.track t))
      exact (h2 _).trans (fmp4Write_steps _ (steps_invU (h2 _) hinv) _ _ _ _)
  · have hp := paramsStep_same st op.track op.par op.ra
    generalize paramsStep st op.track op.par op.ra = pr at hp
    obtain ⟨st1, changed⟩ := pr
    simp only at hp ⊢
    split
    · exact .of_same hp
    · have h2 := fun t => Steps.of_same (hp.trans (same_setTrack st1 op.track t))
      exact (h2 _).trans (fmp4Write_steps _ (steps_invU (h2 _) hinv) _ _ _ _)
  · -- av1
    have hp := paramsStep_same st op.track op.par op.ra
    generalize paramsStep st op.track op.par op.ra = pr at hp
    obtain ⟨st1, changed⟩ := pr
    simp only at hp ⊢
    split
    · exact .of_same hp
    · have h2 := fun t => Steps.of_same (hp.trans (same_setTrack st1 op.track t))
      exact (h2 _).trans (fmp4Write_steps _ (steps_invU (h2 _) hinv) _ _ _ _)
  · exact fmp4WriteMany_steps _ hinv _ _
  · -- aac
    split
    · rename_i hv; exact absurd (hll.symm.trans hv) (by decide)
    · exact fmp4WriteMany_steps _ hinv _ _

theorem run_steps (st : State) (hinv : InvU st) (ops : List WriteOp) : Steps st (run st ops) := by
  induction ops generalizing st with
  | nil => exact .refl _
  | cons op ops ih =>
    have h := write_steps st hinv op
    exact h.trans (ih _ (steps_invU h hinv))

/-- every state reachable by `run` from a started Low-Latency muxer satisfies the invariant -/
theorem run_invU (cfg0 : Cfg) (st0 : State) (ops : List WriteOp) (hll : cfg0.variant = .ll)
    (h : start cfg0 = .ok st0) : InvU (run st0 ops) :=
  steps_invU (run_steps st0 (start_invU cfg0 st0 hll h) ops) (start_invU cfg0 st0 hll h)

theorem run_inv (cfg0 : Cfg) (st0 : State) (ops : List WriteOp) (hll : cfg0.variant = .ll)
    (h : start cfg0 = .ok st0) : Inv (run st0 ops) := (run_invU cfg0 st0 ops hll h).inv

end Hls.Muxer
