import Hls.Muxer.ReqObs
/-!
# C06 (sequential half) — the window / path invariant of a Low-Latency muxer

`WinFrom k segs`: the entry at position `i` is listed under media sequence number `k + i`; a real
segment's id equals its media sequence number and is `≥ 7`; gap entries sit below 7.
`VInv`: per-stream invariant over the `View` and the path table.  `Inv`: all streams + LL.
`start_inv`, `steps_inv`, `run_inv`.  Helper lemmas only.
-/
namespace Hls.Muxer
open Hls.Gen

def WinFrom : Nat → List Entry → Prop
  | _, [] => True
  | k, .gap _ :: r => k < llGapCount ∧ WinFrom (k + 1) r
  | k, .seg g :: r => g.id = k ∧ llGapCount ≤ k ∧ WinFrom (k + 1) r

theorem WinFrom_append_seg (k : Nat) (l : List Entry) (g : Seg) :
    WinFrom k (l ++ [.seg g]) ↔ WinFrom k l ∧ g.id = k + l.length ∧ llGapCount ≤ k + l.length := by
  induction l generalizing k with
  | nil => simp [WinFrom]
  | cons e r ih =>
    cases e with
    | gap d =>
      simp only [List.cons_append, WinFrom, ih, List.length_cons]
      constructor
      · rintro ⟨h1, h2, h3, h4⟩; exact ⟨⟨h1, h2⟩, by omega, by omega⟩
      · rintro ⟨⟨h1, h2⟩, h3, h4⟩; exact ⟨h1, h2, by omega, by omega⟩
    | seg s =>
      simp only [List.cons_append, WinFrom, ih, List.length_cons]
      constructor
      · rintro ⟨h0, h1, h2, h3, h4⟩; exact ⟨⟨h0, h1, h2⟩, by omega, by omega⟩
      · rintro ⟨⟨h0, h1, h2⟩, h3, h4⟩; exact ⟨h0, h1, h2, by omega, by omega⟩

theorem WinFrom_tail (k : Nat) (l : List Entry) (h : WinFrom k l) : WinFrom (k + 1) l.tail := by
  cases l with
  | nil => trivial
  | cons e r =>
    cases e with
    | gap d => exact h.2
    | seg s => exact h.2.2

theorem WinFrom_gaps (d : Int) (g : Seg) (hg : g.id = 7) : WinFrom 0 (gaps d ++ [.seg g]) := by
  simp [gaps, llGapCount, List.replicate, WinFrom, hg]

/-- per-stream invariant -/
structure VInv (si : Nat) (ps : List (PathKey × Handler)) (v : View) : Prop where
  win : WinFrom v.deleteCount v.segments
  len : v.segments ≠ [] → v.deleteCount + v.segments.length = v.nextSegmentID
  fresh : v.segments = [] → v.nextSegmentID = 7 ∧ v.deleteCount = 0
  ge7 : 7 ≤ v.nextSegmentID
  openId : ∀ g, v.openSeg = some g → g.1 = v.nextSegmentID
  partId : ∀ p, v.openPart = some p → p = v.nextPartID
  partsLt : ∀ g, .seg g ∈ v.segments → ∀ p ∈ g.parts, p.id < v.nextPartID
  openLt : ∀ g, v.openSeg = some g → ∀ p ∈ g.2, p.id < v.nextPartID
  reg : ∀ id h, lookupPath ps (.part si id) = some h →
    (id < v.nextPartID ∧ ∃ p, h = .part p ∧ p.id = id) ∨ (id = v.nextPartID ∧ h = .hint si id)
  hint : 0 < v.nextPartID → lookupPath ps (.part si v.nextPartID) = some (.hint si v.nextPartID)
  started : v.segments ≠ [] → 0 < v.nextPartID

structure Inv (st : State) : Prop where
  ll : st.cfg.variant = .ll
  cnt : 7 ≤ st.cfg.segmentCount
  streams : ∀ si, si < st.streams.length → VInv si st.paths (st.stream si).view
  both : ∀ si, si < st.streams.length → (st.stream si).nextSegment.isSome → (st.stream si).nextPart.isSome

theorem view_openSeg_isSome (s : StreamSt) : s.view.openSeg.isSome = s.nextSegment.isSome := by
  simp [StreamSt.view]

theorem view_openPart_isSome (s : StreamSt) : s.view.openPart.isSome = s.nextPart.isSome := by
  simp [StreamSt.view]

theorem Inv.of_same {a b : State} (h : Same a b) (ha : Inv a) : Inv b := by
  refine ⟨by rw [h.cfg]; exact ha.ll, by rw [h.cfg]; exact ha.cnt, fun si hsi => ?_, fun si hsi => ?_⟩
  · rw [h.paths, h.view]
    exact ha.streams si (by rw [← h.len]; exact hsi)
  · rw [← view_openSeg_isSome, ← view_openPart_isSome, h.view, view_openSeg_isSome, view_openPart_isSome]
    exact ha.both si (by rw [← h.len]; exact hsi)

theorem VInv.of_lookup_eq {sj : Nat} {ps ps' : List (PathKey × Handler)} {v : View}
    (h : ∀ id, lookupPath ps' (.part sj id) = lookupPath ps (.part sj id)) (hv : VInv sj ps v) : VInv sj ps' v :=
  { hv with reg := fun id hh => by rw [h]; exact hv.reg id hh, hint := fun h0 => by rw [h]; exact hv.hint h0 }

/-! ## the three primitive steps preserve the per-stream invariant -/

theorem rotP_vinv (st : State) (si : Nat) (d : Int) (b : Bool) (part : Part) (seg : Seg)
    (hv : st.cfg.variant = .ll) (hsi : si < st.streams.length)
    (h1 : (st.stream si).nextPart = some part) (h2 : (st.stream si).nextSegment = some seg)
    (hinv : VInv si st.paths (st.stream si).view) :
    let st1 := rotatePartsStream st si d b
    st1.cfg = st.cfg ∧ st1.streams.length = st.streams.length ∧
    (∀ j, j ≠ si → st1.stream j = st.stream j) ∧
    (∀ sj id, sj ≠ si → lookupPath st1.paths (.part sj id) = lookupPath st.paths (.part sj id)) ∧
    VInv si st1.paths (st1.stream si).view ∧ 0 < (st1.stream si).nextPartID ∧
    (st1.stream si).nextSegment.isSome ∧ (b = true → (st1.stream si).nextPart.isSome) := by
  intro st1
  obtain ⟨part', hid, hc, hl, hoth, hview, hpaths⟩ := rotatePartsStream_obs st si d b part seg hv hsi h1 h2
  have hpid : part.id = (st.stream si).nextPartID := hinv.partId part.id (by simp [StreamSt.view, h1])
  have hos : (st.stream si).view.openSeg = some (seg.id, seg.parts) := by simp [StreamSt.view, h2]
  have hN : ((rotatePartsStream st si d b).stream si).nextPartID = (st.stream si).nextPartID + 1 := by
    have := congrArg View.nextPartID hview; exact this
  refine ⟨hc, hl, hoth, ?_, ?_, ?_, ?_, ?_⟩
  · intro sj id hsj
    show lookupPath (rotatePartsStream st si d b).paths _ = _
    rw [hpaths, lookup_regPath_ne _ _ _ _ (by simp [hsj]), lookup_regPath_ne _ _ _ _ (by simp [hsj])]
  · show VInv si (rotatePartsStream st si d b).paths ((rotatePartsStream st si d b).stream si).view
    rw [hview, hpaths]
    refine ⟨hinv.win, hinv.len, hinv.fresh, hinv.ge7, ?_, ?_, ?_, ?_, ?_, ?_, ?_⟩
    · intro g hg
      simp only [Option.some.injEq] at hg
      subst hg
      exact hinv.openId (seg.id, seg.parts) hos
    · intro p hp
      cases b <;> simp at hp
      exact hp.symm
    · intro g hg q hq
      exact Nat.lt_succ_of_lt (hinv.partsLt g hg q hq)
    · intro g hg q hq
      simp only [Option.some.injEq] at hg
      subst hg
      rcases List.mem_append.mp hq with hq | hq
      · exact Nat.lt_succ_of_lt (hinv.openLt _ hos q hq)
      · simp only [List.mem_singleton] at hq
        show q.id < (st.stream si).nextPartID + 1
        rw [hq]; omega
    · intro id h hlook
      show (id < (st.stream si).nextPartID + 1 ∧ _) ∨ (id = (st.stream si).nextPartID + 1 ∧ _)
      by_cases e1 : id = (st.stream si).nextPartID + 1
      · subst e1
        rw [lookup_regPath_same] at hlook
        exact .inr ⟨rfl, (Option.some.inj hlook).symm⟩
      · rw [lookup_regPath_ne _ _ _ _ (by simp [e1])] at hlook
        by_cases e2 : id = part.id
        · subst e2
          rw [lookup_regPath_same] at hlook
          exact .inl ⟨by omega, part', (Option.some.inj hlook).symm, hid⟩
        · rw [lookup_regPath_ne _ _ _ _ (by simp [e2])] at hlook
          rcases hinv.reg id h hlook with ⟨hlt, hp⟩ | ⟨he, _⟩
          · exact .inl ⟨Nat.lt_succ_of_lt hlt, hp⟩
          · exact absurd (he.trans hpid.symm) e2
    · intro _
      exact lookup_regPath_same _ _ _
    · intro _
      exact Nat.succ_pos _
  · show 0 < ((rotatePartsStream st si d b).stream si).nextPartID
    rw [hN]; exact Nat.succ_pos _
  · rw [← view_openSeg_isSome]
    show ((rotatePartsStream st si d b).stream si).view.openSeg.isSome = true
    rw [hview]; rfl
  · intro hb
    rw [← view_openPart_isSome]
    show ((rotatePartsStream st si d b).stream si).view.openPart.isSome = true
    rw [hview, hb]; rfl


theorem mem_winAppend {segs : List Entry} {g g' : Seg} (h : Entry.seg g ∈ winAppend True segs g') :
    Entry.seg g ∈ segs ∨ g = g' := by
  unfold winAppend at h
  rcases List.mem_append.mp h with h | h
  · split at h
    · simp [gaps, List.mem_replicate] at h
    · exact .inl h
  · simp at h; exact .inr h

/-- window after appending the finished segment -/
theorem winAppend_win (v : View) (si : Nat) (ps : List (PathKey × Handler)) (hinv : VInv si ps v) (g : Seg)
    (hg : g.id = v.nextSegmentID) :
    WinFrom v.deleteCount (winAppend True v.segments g) ∧
    v.deleteCount + (winAppend True v.segments g).length = v.nextSegmentID + 1 := by
  unfold winAppend
  cases hs : v.segments with
  | nil =>
    obtain ⟨h7, h0⟩ := hinv.fresh hs
    simp only [List.isEmpty_nil, and_self, if_true]
    rw [h0]
    exact ⟨WinFrom_gaps _ _ (by omega), by simp [gaps, llGapCount]; omega⟩
  | cons e r =>
    have hlen := hinv.len (by rw [hs]; simp)
    have hwin := hinv.win
    rw [hs] at hlen hwin
    simp only [List.isEmpty_cons, and_false, if_false, Bool.false_eq_true]
    refine ⟨(WinFrom_append_seg _ _ _).mpr ⟨hwin, by omega, ?_⟩, by simp at hlen ⊢; omega⟩
    have := hinv.ge7
    simp [llGapCount] at hlen ⊢; omega

theorem rotSegRest_vinv (st : State) (si : Nat) (d n : Int) (f : Bool) (seg : Seg)
    (hv : st.cfg.variant = .ll) (hcnt : 7 ≤ st.cfg.segmentCount) (hsi : si < st.streams.length)
    (h2 : (st.stream si).nextSegment = some seg) (hN : 0 < (st.stream si).nextPartID)
    (hinv : VInv si st.paths (st.stream si).view) :
    let st' := rotSegRest st si d n f
    st'.cfg = st.cfg ∧ st'.streams.length = st.streams.length ∧
    (∀ j, j ≠ si → st'.stream j = st.stream j) ∧
    (∀ sj id, sj ≠ si → lookupPath st'.paths (.part sj id) = lookupPath st.paths (.part sj id)) ∧
    VInv si st'.paths (st'.stream si).view ∧
    (st'.stream si).nextPart.isSome ∧ (st'.stream si).nextSegment.isSome := by
  intro st'
  obtain ⟨hc, hl, hoth, hview, hlook⟩ := rotSegRest_obs st si d n f seg _ hv hsi h2 rfl
  have hos : (st.stream si).view.openSeg = some (seg.id, seg.parts) := by simp [StreamSt.view, h2]
  have hsid : seg.id = (st.stream si).nextSegmentID := hinv.openId _ hos
  obtain ⟨hw1, hlen1⟩ := winAppend_win _ si st.paths hinv { seg with endDTS := d } hsid
  generalize hsegs : winAppend True (st.stream si).view.segments { seg with endDTS := d } = segs1 at hw1 hlen1
  have hsegs' : winAppend True (st.stream si).segments { seg with endDTS := d } = segs1 := hsegs
  rw [hsegs'] at hview hlook
  -- parts of every real entry of segs1 are older than the next part id
  have hparts : ∀ g, Entry.seg g ∈ segs1 → ∀ p ∈ g.parts, p.id < (st.stream si).nextPartID := by
    intro g hg p hp
    rw [← hsegs'] at hg
    rcases mem_winAppend hg with hg | hg
    · exact hinv.partsLt g hg p hp
    · subst hg; exact hinv.openLt _ hos p hp
  have hdrop : ∀ p ∈ droppedParts st.cfg.segmentCount segs1, p.id < (st.stream si).nextPartID := by
    intro p hp
    obtain ⟨old, ho, hpo⟩ := droppedParts_mem _ _ _ hp
    exact hparts old ho p hpo
  have hne : segs1 ≠ [] := by rw [← hsegs']; simp [winAppend]
  refine ⟨hc, hl, hoth, ?_, ?_, ?_, ?_⟩
  · intro sj id hsj
    show lookupPath (rotSegRest st si d n f).paths _ = _
    rw [hlook]; simp [hsj]
  · show VInv si (rotSegRest st si d n f).paths ((rotSegRest st si d n f).stream si).view
    rw [hview]
    have hD : (st.stream si).view.deleteCount = (st.stream si).deleteCount := rfl
    have hX : (st.stream si).view.nextSegmentID = (st.stream si).nextSegmentID := rfl
    rw [hD, hX] at hlen1
    rw [hD] at hw1
    refine ⟨?_, ?_, ?_, ?_, ?_, ?_, ?_, ?_, ?_, ?_, ?_⟩
    · show WinFrom (if _ then _ else _) (if _ then _ else _)
      split
      · exact WinFrom_tail _ _ hw1
      · exact hw1
    · intro _
      have hpos : 0 < segs1.length := List.length_pos_iff.mpr hne
      have hlenW : (if segs1.length > st.cfg.segmentCount then (st.stream si).deleteCount + 1 else (st.stream si).deleteCount) +
          (if segs1.length > st.cfg.segmentCount then segs1.tail else segs1).length = (st.stream si).nextSegmentID + 1 := by
        split
        · rw [List.length_tail]; omega
        · exact hlen1
      exact hlenW
    · intro he
      exfalso
      have he' : (if segs1.length > st.cfg.segmentCount then segs1.tail else segs1) = [] := he
      split at he'
      · rename_i hgt
        have h3 := congrArg List.length he'
        rw [List.length_tail, List.length_nil] at h3
        omega
      · exact hne he'
    · show 7 ≤ (st.stream si).nextSegmentID + 1
      have := hinv.ge7
      have h' : (st.stream si).view.nextSegmentID = (st.stream si).nextSegmentID := rfl
      omega
    · intro g hg
      simp only [Option.some.injEq] at hg
      subst hg; rfl
    · intro p hp
      simp only [Option.some.injEq] at hp
      exact hp.symm
    · intro g hg p hp
      have hg' : Entry.seg g ∈ (if segs1.length > st.cfg.segmentCount then segs1.tail else segs1) := hg
      have : Entry.seg g ∈ segs1 := by
        split at hg'
        · exact List.mem_of_mem_tail hg'
        · exact hg'
      exact hparts g this p hp
    · intro g hg p hp
      simp only [Option.some.injEq] at hg
      subst hg
      cases hp
    · intro id h hl'
      rw [hlook] at hl'
      split at hl'
      · cases hl'
      · exact hinv.reg id h hl'
    · intro h0
      show lookupPath _ (PathKey.part si (st.stream si).nextPartID) = _
      rw [hlook]
      have : ¬ (si = si ∧ ∃ p ∈ droppedParts st.cfg.segmentCount segs1, p.id = (st.stream si).nextPartID) := by
        rintro ⟨_, p, hp, e⟩
        have := hdrop p hp
        omega
      rw [if_neg this]
      exact hinv.hint hN
    · intro _
      exact hN
  · rw [← view_openPart_isSome]
    show ((rotSegRest st si d n f).stream si).view.openPart.isSome = true
    rw [hview]; rfl
  · rw [← view_openSeg_isSome]
    show ((rotSegRest st si d n f).stream si).view.openSeg.isSome = true
    rw [hview]; rfl

/-- Frame rule: a step that touches only stream `si` (and only `.part si _` look-ups) preserves `Inv`
    once the invariant is re-established for `si`. -/
theorem Inv.frame {st st' : State} (si : Nat) (hinv : Inv st)
    (hc : st'.cfg = st.cfg) (hl : st'.streams.length = st.streams.length)
    (hoth : ∀ j, j ≠ si → st'.stream j = st.stream j)
    (hlook : ∀ sj id, sj ≠ si → lookupPath st'.paths (.part sj id) = lookupPath st.paths (.part sj id))
    (hsi : si < st.streams.length → VInv si st'.paths (st'.stream si).view ∧
      ((st'.stream si).nextSegment.isSome → (st'.stream si).nextPart.isSome)) : Inv st' := by
  refine ⟨by rw [hc]; exact hinv.ll, by rw [hc]; exact hinv.cnt, fun sj hsj => ?_, fun sj hsj => ?_⟩
  · by_cases e : sj = si
    · subst e; exact (hsi (by rw [← hl]; exact hsj)).1
    · rw [hoth sj e]
      exact VInv.of_lookup_eq (fun id => hlook sj id e) (hinv.streams sj (by rw [← hl]; exact hsj))
  · by_cases e : sj = si
    · subst e; exact (hsi (by rw [← hl]; exact hsj)).2
    · rw [hoth sj e]
      exact hinv.both sj (by rw [← hl]; exact hsj)

theorem stream_oob_default (st : State) (si : Nat) (h : st.streams.length ≤ si) :
    st.stream si = { tracks := [], isLeading := false, nextSegmentID := 0 } := by
  simp [State.stream, List.getD_eq_getElem?_getD, List.getElem?_eq_none h]

theorem create_inv (st : State) (si : Nat) (d n : Int) (hinv : Inv st) : Inv (createFirstSegmentStream st si d n) := by
  obtain ⟨hc, hp, hl, hoth, hview⟩ := createFirstSegmentStream_obs st si d n hinv.ll
  refine Inv.frame si hinv hc hl hoth (fun sj id _ => by rw [hp]) (fun hsi => ?_)
  have hv := hinv.streams si hsi
  have hvw := hview hsi
  refine ⟨?_, ?_⟩
  · rw [hp, hvw]
    refine { hv with openId := ?_, partId := ?_, openLt := ?_ }
    · intro g hg
      simp only [Option.some.injEq] at hg
      subst hg; rfl
    · intro p hp'
      simp only [Option.some.injEq] at hp'
      exact hp'.symm
    · intro g hg p hp'
      simp only [Option.some.injEq] at hg
      subst hg; cases hp'
  · intro _
    rw [← view_openPart_isSome, hvw]; rfl

/-- what a single-stream step keeps besides `Inv` -/
structure Keeps (st st' : State) : Prop where
  inv : Inv st'
  cfg : st'.cfg = st.cfg
  len : st'.streams.length = st.streams.length
  pres : ∀ j, (st'.stream j).nextSegment.isSome = (st.stream j).nextSegment.isSome

theorem Keeps.rfl' {st : State} (h : Inv st) : Keeps st st := ⟨h, rfl, rfl, fun _ => rfl⟩

theorem rotP_keeps (st : State) (si : Nat) (d : Int) (b : Bool) (hb : b = true) (hinv : Inv st) :
    Keeps st (rotatePartsStream st si d b) := by
  by_cases hsi : si < st.streams.length
  · cases h1 : (st.stream si).nextPart with
    | none => rw [rotatePartsStream_noop _ _ _ _ (.inl h1)]; exact .rfl' hinv
    | some part =>
      cases h2 : (st.stream si).nextSegment with
      | none => rw [rotatePartsStream_noop _ _ _ _ (.inr h2)]; exact .rfl' hinv
      | some seg =>
        obtain ⟨hc, hl, hoth, hlook, hv, _, hs, hb'⟩ :=
          rotP_vinv st si d b part seg hinv.ll hsi h1 h2 (hinv.streams si hsi)
        refine ⟨Inv.frame si hinv hc hl hoth hlook (fun _ => ⟨hv, fun _ => hb' hb⟩), hc, hl, fun j => ?_⟩
        by_cases e : j = si
        · subst e; rw [hs, h2]; rfl
        · rw [hoth j e]
  · have := stream_oob_default st si (Nat.le_of_not_lt hsi)
    rw [rotatePartsStream_noop _ _ _ _ (.inl (by rw [this]))]; exact .rfl' hinv

theorem rotS_keeps (st : State) (si : Nat) (d n : Int) (f : Bool) (hinv : Inv st) :
    Keeps st (rotateSegmentsStream st si d n f) := by
  rw [rotateSegmentsStream_eq]
  have hne : st.cfg.variant ≠ .mpegts := by rw [hinv.ll]; decide
  rw [if_pos hne]
  by_cases hsi : si < st.streams.length
  · cases h2 : (st.stream si).nextSegment with
    | none =>
      rw [rotatePartsStream_noop _ _ _ _ (.inr h2), rotSegRest_noop _ _ _ _ _ h2]; exact .rfl' hinv
    | some seg =>
      have hps := hinv.both si hsi (by rw [h2]; rfl)
      obtain ⟨part, h1⟩ := Option.isSome_iff_exists.mp hps
      obtain ⟨hc, hl, hoth, hlook, hv, hN, hseg1, _⟩ :=
        rotP_vinv st si d false part seg hinv.ll hsi h1 h2 (hinv.streams si hsi)
      obtain ⟨seg1, hs1⟩ := Option.isSome_iff_exists.mp hseg1
      obtain ⟨hc2, hl2, hoth2, hlook2, hv2, hb2, hs2⟩ :=
        rotSegRest_vinv (rotatePartsStream st si d false) si d n f seg1 (by rw [hc]; exact hinv.ll)
          (by rw [hc]; exact hinv.cnt) (by rw [hl]; exact hsi) hs1 hN hv
      refine ⟨Inv.frame si hinv (hc2.trans hc) (hl2.trans hl)
        (fun j hj => (hoth2 j hj).trans (hoth j hj))
        (fun sj id hsj => (hlook2 sj id hsj).trans (hlook sj id hsj))
        (fun _ => ⟨hv2, fun _ => hb2⟩), hc2.trans hc, hl2.trans hl, fun j => ?_⟩
      by_cases e : j = si
      · subst e; rw [hs2, h2]; rfl
      · rw [hoth2 j e, hoth j e]
  · have hd := stream_oob_default st si (Nat.le_of_not_lt hsi)
    have h2 : (st.stream si).nextSegment = none := by rw [hd]
    rw [rotatePartsStream_noop _ _ _ _ (.inr h2), rotSegRest_noop _ _ _ _ _ h2]; exact .rfl' hinv

/-- `createFirstSegment` (all streams) -/
theorem createAll_keeps (st : State) (d n : Int) (hinv : Inv st) :
    Inv (createFirstSegment st d n) ∧ (createFirstSegment st d n).cfg = st.cfg ∧
    (createFirstSegment st d n).streams.length = st.streams.length ∧
    (∀ j, j < st.streams.length → ((createFirstSegment st d n).stream j).nextSegment.isSome) ∧
    (createFirstSegment st d n).paths = st.paths := by
  unfold createFirstSegment
  have key : ∀ (l : List Nat) (st1 : State), Inv st1 → st1.cfg = st.cfg → st1.streams.length = st.streams.length →
      st1.paths = st.paths →
      let r := l.foldl (fun st si => createFirstSegmentStream st si d n) st1
      Inv r ∧ r.cfg = st.cfg ∧ r.streams.length = st.streams.length ∧ r.paths = st.paths ∧
      (∀ j, j < st.streams.length → (j ∈ l ∨ (st1.stream j).nextSegment.isSome) → (r.stream j).nextSegment.isSome) := by
    intro l
    induction l with
    | nil =>
      intro st1 h1 h2 h3 h4
      exact ⟨h1, h2, h3, h4, fun j _ hj => by rcases hj with hj | hj; cases hj; exact hj⟩
    | cons a l ih =>
      intro st1 h1 h2 h3 h4
      obtain ⟨hc, hp, hl, hoth, hview⟩ := createFirstSegmentStream_obs st1 a d n h1.ll
      have := ih (createFirstSegmentStream st1 a d n) (create_inv st1 a d n h1) (hc.trans h2) (hl.trans h3) (hp.trans h4)
      obtain ⟨r1, r2, r3, r4, r5⟩ := this
      refine ⟨r1, r2, r3, r4, fun j hj hm => ?_⟩
      apply r5 j hj
      by_cases e : j = a
      · subst e
        right
        rw [← view_openSeg_isSome, hview (by rw [h3]; exact hj)]; rfl
      · rcases hm with hm | hm
        · rcases List.mem_cons.mp hm with rfl | hm
          · exact absurd rfl e
          · exact .inl hm
        · right; rw [hoth j e]; exact hm
  obtain ⟨r1, r2, r3, r4, r5⟩ := key (List.range st.streams.length) st hinv rfl rfl rfl
  exact ⟨r1, r2, r3, fun j hj => r5 j hj (.inl (List.mem_range.mpr hj)), r4⟩

/-- `Inv` plus: the leading track's stream exists, and no stream has an open segment unless the
    leading one has (so that `createFirstSegment` only ever runs when no stream has one). -/
structure InvU (st : State) : Prop where
  inv : Inv st
  lead : leadingIdx st.cfg.tracks < st.streams.length
  uni : ∀ i, (st.stream i).nextSegment.isSome → (st.stream (leadingIdx st.cfg.tracks)).nextSegment.isSome

theorem InvU.of_keeps {st st' : State} (h : InvU st) (k : Keeps st st') : InvU st' := by
  refine ⟨k.inv, by rw [k.cfg, k.len]; exact h.lead, fun i hi => ?_⟩
  rw [k.cfg, k.pres]
  rw [k.pres] at hi
  exact h.uni i hi

theorem steps_invU {a b : State} (h : Steps a b) (ha : InvU a) : InvU b := by
  induction h with
  | refl => exact ha
  | same _ hs ih =>
    refine ⟨Inv.of_same hs ih.inv, by rw [hs.cfg, hs.len]; exact ih.lead, fun i hi => ?_⟩
    rw [hs.cfg, ← view_openSeg_isSome, hs.view, view_openSeg_isSome]
    rw [← view_openSeg_isSome, hs.view, view_openSeg_isSome] at hi
    exact ih.uni i hi
  | createAll d n _ _ ih =>
    obtain ⟨h1, h2, h3, h4, _⟩ := createAll_keeps _ d n ih.inv
    refine ⟨h1, by rw [h2, h3]; exact ih.lead, fun i _ => ?_⟩
    rw [h2]
    exact h4 _ ih.lead
  | rotP si d _ ih => exact ih.of_keeps (rotP_keeps _ si d true rfl ih.inv)
  | rotS si d n f _ ih => exact ih.of_keeps (rotS_keeps _ si d n f ih.inv)

theorem steps_inv {a b : State} (h : Steps a b) (ha : InvU a) : Inv b := (steps_invU h ha).inv

theorem steps_len {a b : State} (h : Steps a b) (ha : InvU a) :
    b.streams.length = a.streams.length ∧ b.cfg = a.cfg := by
  induction h with
  | refl => exact ⟨rfl, rfl⟩
  | same _ hs ih => exact ⟨hs.len.trans ih.1, hs.cfg.trans ih.2⟩
  | createAll d n hab _ ih =>
    obtain ⟨_, h2, h3, _, _⟩ := createAll_keeps _ d n (steps_inv hab ha)
    exact ⟨h3.trans ih.1, h2.trans ih.2⟩
  | rotP si d hab ih =>
    have k := rotP_keeps _ si d true rfl (steps_inv hab ha)
    exact ⟨k.len.trans ih.1, k.cfg.trans ih.2⟩
  | rotS si d n f hab ih =>
    have k := rotS_keeps _ si d n f (steps_inv hab ha)
    exact ⟨k.len.trans ih.1, k.cfg.trans ih.2⟩

/-! ## the initial state -/

theorem start_shape (cfg0 : Cfg) (st0 : State) (hll : cfg0.variant = .ll) (h : start cfg0 = .ok st0) :
    st0.cfg = cfg0.withDefaults ∧ 7 ≤ st0.cfg.segmentCount ∧
    st0.streams = (List.range cfg0.withDefaults.tracks.length).map (fun i =>
      ({ tracks := [i], isLeading := (i = leadingIdx cfg0.withDefaults.tracks), nextSegmentID := 7 } : StreamSt)) ∧
    ∀ sj id, lookupPath st0.paths (.part sj id) = none := by
  have hv : cfg0.withDefaults.variant = .ll := hll
  unfold start at h
  simp only [hv, ↓reduceIte] at h
  split at h
  · cases h
  · split at h
    · cases h
    · split at h
      · cases h
      · rename_i hc
        simp only [Except.ok.injEq] at h
        subst h
        refine ⟨rfl, by simp only at hc ⊢; omega, rfl, ?_⟩
        intro sj id
        simp only
        apply foldl_pres (fun ps => lookupPath ps (PathKey.part sj id) = none)
        · rw [lookup_regPath_ne _ _ _ _ (by simp)]; rfl
        · intro ps i hps
          rw [lookup_regPath_ne _ _ _ _ (by simp)]; exact hps

theorem start_inv (cfg0 : Cfg) (st0 : State) (hll : cfg0.variant = .ll) (h : start cfg0 = .ok st0) : Inv st0 := by
  obtain ⟨hc, hcnt, hs, hp⟩ := start_shape cfg0 st0 hll h
  have hstream : ∀ si, si < st0.streams.length →
      (st0.stream si).view = { segments := [], nextSegmentID := 7, nextPartID := 0, deleteCount := 0,
                               openSeg := none, openPart := none } := by
    intro si hsi
    have : si < cfg0.withDefaults.tracks.length := by rw [hs] at hsi; simpa using hsi
    simp [State.stream, hs, List.getD_eq_getElem?_getD, this, StreamSt.view]
  refine ⟨by rw [hc]; exact hll, hcnt, fun si hsi => ?_, fun si hsi => ?_⟩
  · rw [hstream si hsi]
    refine ⟨trivial, fun h => absurd rfl h, fun _ => ⟨rfl, rfl⟩, Nat.le_refl _, ?_, ?_, ?_, ?_, ?_, ?_, ?_⟩
    · intro g hg; cases hg
    · intro p hp'; cases hp'
    · intro g hg; cases hg
    · intro g hg; cases hg
    · intro id h hl; rw [hp] at hl; cases hl
    · intro h0; exact absurd h0 (Nat.lt_irrefl _)
    · intro h0; exact absurd rfl h0
  · have := hstream si hsi
    rw [← view_openSeg_isSome, this]
    intro h0; cases h0

theorem leadingIdx_lt (ts : List TrackCfg) (h : ts ≠ []) : leadingIdx ts < ts.length := by
  unfold leadingIdx
  split
  · rename_i i hi
    exact (List.findIdx?_eq_some_iff_findIdx_eq.mp hi).1
  · exact List.length_pos_iff.mpr h

theorem start_invU (cfg0 : Cfg) (st0 : State) (hll : cfg0.variant = .ll) (h : start cfg0 = .ok st0) : InvU st0 := by
  have hinv := start_inv cfg0 st0 hll h
  obtain ⟨hc, hcnt, hs, hp⟩ := start_shape cfg0 st0 hll h
  have hne : cfg0.withDefaults.tracks ≠ [] := by
    intro he
    unfold start at h
    simp [he] at h
  refine ⟨hinv, ?_, ?_⟩
  · rw [hc, hs]; simp only [List.length_map, List.length_range]; exact leadingIdx_lt _ hne
  · intro i hi
    exfalso
    by_cases hil : i < st0.streams.length
    · have : i < cfg0.withDefaults.tracks.length := by rw [hs] at hil; simpa using hil
      simp [State.stream, hs, List.getD_eq_getElem?_getD, this] at hi
    · rw [stream_oob_default _ _ (Nat.le_of_not_lt hil)] at hi; cases hi

end Hls.Muxer
