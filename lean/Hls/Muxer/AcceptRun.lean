import Hls.Muxer.AcceptFront
/-!
# C01 helper lemmas, part 7: the initial state and the run-level simulation (`run_sim`)
-/
namespace Hls.Muxer.Accept
open Hls.Muxer

theorem leadingIdx_lt (ts : List TrackCfg) (h : ts ≠ []) : leadingIdx ts < ts.length := by
  unfold leadingIdx
  cases hf : ts.findIdx? (·.codec.isVideo) with
  | none => simp only []; exact List.length_pos_iff.mpr h
  | some i =>
    simp only []
    rw [List.findIdx?_eq_some_iff_getElem] at hf
    exact hf.1

/-- the state `start` returns, for the fMP4 variants -/
theorem start_form (cfg0 : Cfg) (st0 : State) (h : start cfg0 = .ok st0) (hv : cfg0.variant ≠ .mpegts) :
    st0.cfg = cfg0.withDefaults ∧ cfg0.tracks ≠ [] ∧ 3 ≤ st0.cfg.segmentCount ∧
    st0.tracks = cfg0.tracks.map (fun _ => ({ params := 1 } : TrackSt)) ∧
    st0.streams = (List.range cfg0.tracks.length).map fun i =>
      ({ tracks := [i], isLeading := (i = leadingIdx cfg0.tracks),
         nextSegmentID := if cfg0.variant = .ll then 7 else 0 } : StreamSt) := by
  unfold start at h
  simp only [] at h
  have ht : cfg0.withDefaults.tracks = cfg0.tracks := rfl
  have hvv : cfg0.withDefaults.variant = cfg0.variant := rfl
  rw [ht, hvv] at h
  by_cases hemp : cfg0.tracks.isEmpty = true
  · rw [if_pos hemp] at h; cases h
  rw [if_neg hemp] at h
  have hne : cfg0.tracks ≠ [] := by simpa using hemp
  cases hvar : cfg0.variant with
  | mpegts => exact absurd hvar hv
  | fmp4 =>
    simp only [hvar, reduceCtorEq, if_false] at h
    by_cases hcv : countVideo cfg0.tracks > 1
    · simp only [hcv, if_true] at h; cases h
    simp only [hcv, if_false] at h
    by_cases hcnt : cfg0.withDefaults.segmentCount < 3
    · simp only [hcnt, if_true] at h; cases h
    simp only [hcnt, if_false, Except.ok.injEq] at h
    subst h
    exact ⟨rfl, hne, by show 3 ≤ cfg0.withDefaults.segmentCount; omega, rfl, by simp⟩
  | ll =>
    simp only [hvar, if_true] at h
    by_cases hcv : countVideo cfg0.tracks > 1
    · simp only [hcv, if_true] at h; cases h
    simp only [hcv, if_false] at h
    by_cases hcnt : cfg0.withDefaults.segmentCount < 7
    · simp only [hcnt, if_true] at h; cases h
    simp only [hcnt, if_false, Except.ok.injEq] at h
    subst h
    exact ⟨rfl, hne, by show 3 ≤ cfg0.withDefaults.segmentCount; omega, rfl, by simp⟩

theorem start_inv (cfg0 : Cfg) (st0 : State) (h : start cfg0 = .ok st0) (hv : cfg0.variant ≠ .mpegts) (t : Nat) (off : Int) :
    st0.cfg = cfg0.withDefaults ∧
    GInv st0 cfg0.tracks.length (leadingIdx cfg0.tracks) {} ∧ TInv [] (abs st0 t) {} off := by
  obtain ⟨hcfg, hne, hcnt, htr, hstr⟩ := start_form cfg0 st0 h hv
  have htrack : ∀ j, (st0.track j).firstRA = false ∧ (st0.track j).next = none ∧ (st0.track j).samples = [] := by
    intro j
    simp only [State.track, htr, List.getD_eq_getElem?_getD]
    by_cases hj : j < cfg0.tracks.length
    · simp [hj]
    · simp [Nat.le_of_not_lt hj]
  have hstream : ∀ j, (st0.stream j).nextSegment = none ∧ (st0.stream j).nextPart = none ∧ (st0.stream j).segments = [] := by
    intro j
    simp only [State.stream, hstr, List.getD_eq_getElem?_getD]
    by_cases hj : j < cfg0.tracks.length
    · simp [hj]
    · simp [Nat.le_of_not_lt hj]
  have hshape : Shape st0 cfg0.tracks.length (leadingIdx cfg0.tracks) := by
    refine ⟨?_, ?_, ?_, ?_, ?_, leadingIdx_lt _ hne, ?_, ?_⟩
    · rw [hcfg]; exact hv
    · rw [htr]; simp
    · rw [hstr]; simp
    · rw [hcfg]; rfl
    · intro i hi
      simp only [State.stream, hstr, List.getD_eq_getElem?_getD]
      simp [hi]
    · rw [hcfg]; rfl
    · omega
  refine ⟨hcfg, ⟨hshape, ?_, ?_, ?_, ?_⟩, ?_⟩
  · intro j _; simp [abs, (hstream j).1]
  · intro j _; simp [abs, (hstream j).2.1]
  · simp [abs, (htrack _).2.1]
  · intro k _ _; simp [abs, (htrack k).1]
  · have hh : histA [] (abs st0 t) = [] := by
      simp [histA, abs, openStored, (hstream t).1, (htrack t).2.2, partTracks, cur]
    refine ⟨by rw [hh]; rfl, by simp [abs, (htrack t).2.1], by rw [hh]; simp [abs, (htrack t).2.1, Chain], by rw [hh]; simp, fun _ => hh⟩

theorem run_sim {n L : Nat} (cfg : Cfg) (t : Nat) (ht : t < n) :
    ∀ (ops : List WriteOp) (st : State) (log : List Seg) (sp : Scan), st.cfg = cfg → GInv st n L sp →
      TInv (lpOf log) (abs st t) sp (10 * (trackCfg cfg t).clockRate) →
      (∀ op ∈ ops, op.track < n) → AllOk st ops = true →
      (runLog t st log ops).1 = run st ops ∧
      GInv (run st ops) n L (scan cfg t sp ops) ∧
      TInv (lpOf (runLog t st log ops).2) (abs (run st ops) t) (scan cfg t sp ops) (10 * (trackCfg cfg t).clockRate) := by
  intro ops
  induction ops with
  | nil => intro st log sp _ g tv _ _; exact ⟨rfl, g, tv⟩
  | cons op rest ih =>
    intro st log sp hc g tv hr hok
    simp only [AllOk, Bool.and_eq_true, decide_eq_true_eq] at hok
    subst hc
    obtain ⟨e1, g1, c1, tv1⟩ := write_sim t ht st log sp op (hr op (by simp)) g tv hok.1
    have := ih (write st op).1 (writeLog t st log op).2.1 (scanOp st.cfg t sp op) c1 g1 tv1
      (fun o ho => hr o (by simp [ho])) hok.2
    simp only [runLog, run, scan, List.foldl_cons]
    rw [e1]
    exact this

end Hls.Muxer.Accept
