import Hls.Muxer.TimeFirstRun
/-!
# When a segment is cut (helper file for C02)

`fmp4Write` on the leading track, traced: the sample that leaves the look-ahead is written into the open part, then
the switch decision `fwDue` is taken against the open segment's start.  A rotation is visible as
`nextSegmentID + 1`; nothing else changes `nextSegmentID`.
-/
namespace Hls.Muxer
open Hls.Gen

/-- start of the segment the switch decision is taken against: the open one, or the one about to be created -/
def decisionStart (st : State) (L : Nat) (old : Sample) : Int :=
  match (st.stream L).nextSegment with
  | some g => g.startDTS
  | none => toDur old.dts (st.tcfg L).clockRate

/-- trace of a successful, non-dropped `fmp4Write` on the leading track with a filled look-ahead -/
theorem fmp4Write_lead_trace {st : State} {L : Nat} (hg : GI st L) (hv : st.cfg.variant ≠ .mpegts)
    (hlead : st.isLeadingTrack L = true) (hso : st.streamOf L = L) (ra ch : Bool) (smp old : Sample)
    (hnn : ¬ (fwSmp st L smp).dts < 0) (hnx : (st.track L).next = some old)
    (hok : (fmp4Write st L ra ch smp).2 = .ok) :
    ∃ st3 o3 p3, fmp4Write st L ra ch smp = fwTail st L ra ch smp st3 ∧ GI st3 L ∧ st3.cfg = st.cfg ∧
      (st3.stream L).nextSegment = some o3 ∧ (st3.stream L).nextPart = some p3 ∧
      o3.startDTS = decisionStart st L old ∧ (st3.stream L).nextSegmentID = (st.stream L).nextSegmentID ∧
      st3.pending = st.pending := by
  rw [fmp4Write_eq] at hok ⊢
  have hl1 : (fwSt1 st L smp).isLeadingTrack L = true := hlead
  have hs1 : (fwSt1 st L smp).streamOf L = L := hso
  simp only [hnn, if_false, hnx, hl1, hs1, Bool.not_true, Bool.false_and, Bool.false_eq_true] at hok ⊢
  obtain ⟨c2, t2, len2, s2⟩ := fwSt2_lead hg hlead hso smp old
  have hst2 := Step_fwSt2 hg L smp old
  have hg2 : GI (fwSt2 st L smp old) L := hst2.gi
  have hv2 : (fwSt2 st L smp old).cfg.variant ≠ .mpegts := by rw [c2]; exact hv
  have hpend2 : (fwSt2 st L smp old).pending = st.pending := by
    unfold fwSt2
    simp only [hl1, hs1, Bool.true_and, if_true]
    rw [(adjust_frame _ _).2.2.2]
    split
    · exact (createFirstSegment_spec _ _ _).1.1.2.1
    · rfl
  -- the open segment of fwSt2
  have hmid : ∃ o p, ((fwSt2 st L smp old).stream L).nextSegment = some o ∧
      ((fwSt2 st L smp old).stream L).nextPart = some p ∧ o.startDTS = decisionStart st L old ∧
      ((fwSt2 st L smp old).stream L).nextSegmentID = (st.stream L).nextSegmentID := by
    have hp : ∀ o, ((fwSt2 st L smp old).stream L).nextSegment = some o →
        ∃ p, ((fwSt2 st L smp old).stream L).nextPart = some p := by
      intro o ho
      exact Option.isSome_iff_exists.1 (((hg2.sinv L hg2.lt).partIff hv2).1 (by rw [ho]; rfl))
    unfold decisionStart
    cases hx : (st.stream L).nextSegment with
    | some o =>
      rw [hx] at s2
      simp only [Option.isSome_some, if_true] at s2
      obtain ⟨p, hp'⟩ := hp o (by rw [s2]; exact hx)
      exact ⟨o, p, by rw [s2]; exact hx, hp', rfl, by rw [s2]⟩
    | none =>
      rw [hx] at s2
      simp only [Option.isSome_none, Bool.false_eq_true, if_false] at s2
      have f := cfS_fields st.cfg.variant (st.stream L) (toDur old.dts (st.tcfg L).clockRate) old.ntp
      have e2 : (cfS st.cfg.variant (st.stream L) (toDur old.dts (st.tcfg L).clockRate) old.ntp).nextSegment =
          some { id := (st.stream L).nextSegmentID, startDTS := toDur old.dts (st.tcfg L).clockRate, startNTP := old.ntp } := by
        unfold cfS; cases st.cfg.variant <;> rfl
      obtain ⟨p, hp'⟩ := hp _ (by rw [s2]; exact e2)
      exact ⟨_, p, by rw [s2]; exact e2, hp', rfl, by rw [s2]; exact f.2.2.2.2.2.1⟩
  obtain ⟨o, p, ho2, hp2, hstart, hsid2⟩ := hmid
  cases hw : partWriteSample (fwSt2 st L smp old) L (fwOld st L smp old) with
  | mk st3 r =>
    rw [hw] at hok
    cases r with
    | err => cases hok
    | ok =>
      simp only
      have hg3 : GI st3 L := GI_partWriteSample hg2 L _ .ok hw
      obtain ⟨indep, e3, _, _, _⟩ := pws_ok _ _ _ _ hw
      have hso2 : (fwSt2 st L smp old).streamOf L = L := by rw [streamOf_congr c2]; exact hso
      rw [hso2] at e3
      have hs3 : st3.streams = (fwSt2 st L smp old).streams.set L (pwS ((fwSt2 st L smp old).stream L) (fwOld st L smp old).size indep) := by
        rw [e3]; rfl
      have hL2 : L < (fwSt2 st L smp old).streams.length := by rw [len2]; exact hg.lt
      have hst3 : st3.stream L = pwS ((fwSt2 st L smp old).stream L) (fwOld st L smp old).size indep :=
        stream_of_set_same hs3 hL2
      have hpw : ∃ o3 p3, (st3.stream L).nextSegment = some o3 ∧ (st3.stream L).nextPart = some p3 ∧
          o3.startDTS = o.startDTS := by
        rw [hst3]; unfold pwS; simp only [ho2, hp2]
        exact ⟨_, _, rfl, rfl, rfl⟩
      obtain ⟨o3, p3, ho3, hp3, k2⟩ := hpw
      refine ⟨st3, o3, p3, rfl, hg3, by rw [e3]; exact c2, ho3, hp3, by rw [k2]; exact hstart, ?_, by rw [e3]; exact hpend2⟩
      rw [hst3, (pwS_fields ..).2.2.2.2.2.1]; exact hsid2


theorem fwRotate_stream (st0 : State) (ti : Nat) (ch : Bool) (smp : Sample) (st : State) (j : Nat) :
    (fwRotate st0 ti ch smp st).stream j =
      (rotateSegments st (toDur (fwSmp st0 ti smp).dts (st0.tcfg ti).clockRate) (fwSmp st0 ti smp).ntp ch).stream j := by
  unfold fwRotate; cases ch <;> rfl

/-- the segment counter of the leading stream after the switch decision -/
theorem fwTail_sid {st0 st3 : State} {L : Nat} (hg3 : GI st3 L) (hv : st3.cfg.variant ≠ .mpegts)
    {o3 : Seg} {p3 : Part} (ho3 : (st3.stream L).nextSegment = some o3) (hp3 : (st3.stream L).nextPart = some p3)
    (ra ch : Bool) (smp : Sample) :
    ((fwTail st0 L ra ch smp st3).1.stream L).nextSegmentID =
      if fwDue st0 L ra ch smp st3 then (st3.stream L).nextSegmentID + 1 else (st3.stream L).nextSegmentID := by
  unfold fwTail
  by_cases h1 : fwDue st0 L ra ch smp st3 = true
  · simp only [h1, if_true]
    rw [fwRotate_stream]
    obtain ⟨_, _, _, hL4, _⟩ := GI_rotateSegments hg3 (toDur (fwSmp st0 L smp).dts (st0.tcfg L).clockRate) (fwSmp st0 L smp).ntp ch
    obtain ⟨r4, _⟩ := rsS_fmp4 (n := st3.cfg.segmentCount) (fpContent st3 L) (toDur (fwSmp st0 L smp).dts (st0.tcfg L).clockRate) (fwSmp st0 L smp).ntp ch hv ho3 hp3
    rw [hL4, r4.nextSegmentID]
  · simp only [h1, if_false, Bool.false_eq_true]
    by_cases h2 : fwPartDue st0 L smp st3
    · simp only [h2, if_true]
      obtain ⟨_, _, _, hL4, _⟩ := GI_rotateParts hg3 hv (toDur (fwSmp st0 L smp).dts (st0.tcfg L).clockRate)
      rw [hL4, (rpS_some _ _ true ho3 hp3).nextSegmentID]
    · simp only [h2, if_false]

/-- **cut iff due**, at the level of `fmp4WriteSample`: a successful, non-dropped write of a leading-track sample
with a filled look-ahead rotates the segments iff the new sample is random access and either carries changed
parameters or lies at least `segmentMinDur` after the start of the open segment. -/
theorem fmp4Write_cut_iff {st : State} {L : Nat} (hg : GI st L) (hv : st.cfg.variant ≠ .mpegts)
    (hlead : st.isLeadingTrack L = true) (hso : st.streamOf L = L) (ra ch : Bool) (smp old : Sample)
    (hnn : ¬ (fwSmp st L smp).dts < 0) (hnx : (st.track L).next = some old)
    (hok : (fmp4Write st L ra ch smp).2 = .ok) :
    (((fmp4Write st L ra ch smp).1.stream L).nextSegmentID = (st.stream L).nextSegmentID + 1 ↔
      (ra = true ∧ (ch = true ∨
        toDur (fwSmp st L smp).dts (st.tcfg L).clockRate - decisionStart st L old ≥ st.cfg.segmentMinDur))) ∧
    (((fmp4Write st L ra ch smp).1.stream L).nextSegmentID = (st.stream L).nextSegmentID ∨
     ((fmp4Write st L ra ch smp).1.stream L).nextSegmentID = (st.stream L).nextSegmentID + 1) := by
  obtain ⟨st3, o3, p3, e, hg3, c3, ho3, hp3, hstart, hsid, _⟩ :=
    fmp4Write_lead_trace hg hv hlead hso ra ch smp old hnn hnx hok
  have hv3 : st3.cfg.variant ≠ .mpegts := by rw [c3]; exact hv
  rw [e, fwTail_sid hg3 hv3 ho3 hp3, hsid]
  have hs1 : (fwSt1 st L smp).streamOf L = L := hso
  have hdue : fwDue st L ra ch smp st3 = true ↔
      (ra = true ∧ (ch = true ∨
        toDur (fwSmp st L smp).dts (st.tcfg L).clockRate - decisionStart st L old ≥ st.cfg.segmentMinDur)) := by
    unfold fwDue openSegStart
    rw [hs1, ho3, c3]
    simp only [hstart, Bool.and_eq_true, Bool.or_eq_true, decide_eq_true_eq]
  by_cases hd : fwDue st L ra ch smp st3 = true
  · simp only [hd, if_true]
    exact ⟨⟨fun _ => hdue.1 hd, fun _ => trivial⟩, Or.inr trivial⟩
  · simp only [hd, if_false, Bool.false_eq_true]
    refine ⟨⟨fun h => ?_, fun h => absurd (hdue.2 h) hd⟩, Or.inl trivial⟩
    omega

/-- the first sample of the leading track only fills the look-ahead; a dropped sample changes nothing -/
theorem fmp4Write_first_no_cut {st : State} {L : Nat} (ra ch : Bool) (smp : Sample)
    (h : (fwSmp st L smp).dts < 0 ∨ (st.track L).next = none) :
    ((fmp4Write st L ra ch smp).1.stream L).nextSegmentID = (st.stream L).nextSegmentID := by
  rw [fmp4Write_eq]
  by_cases hn : (fwSmp st L smp).dts < 0
  · simp only [hn, if_true]
  · simp only [hn, if_false]
    rcases h with h | h
    · exact absurd h hn
    · simp only [h]; rfl


/-! ## the `write` level, video on the leading track (fMP4 variants) -/

/-- the `paramsChanged` flag the front end computes for this call -/
def changedOf (st : State) (op : WriteOp) : Bool := (paramsStep st op.track op.par op.ra).2

/-- the DTS handed to `fmp4WriteSample` (AV1 units carry no separate DTS) -/
def unitDts (st : State) (op : WriteOp) : Int :=
  match (st.tcfg op.track).codec with
  | .av1 => op.pts
  | _ => op.dts

/-- the unit reaches `fmp4WriteSample`: it is not a parameter-set-only H264 unit and it passes the
"skip until the first random-access unit" gate -/
def Accepted (st : State) (op : WriteOp) : Prop :=
  ((st.track op.track).firstRA = true ∨ op.ra = true) ∧
  ((st.tcfg op.track).codec = .h264 → (op.ra = true ∨ op.pic = true))

instance (st : State) (op : WriteOp) : Decidable (Accepted st op) := by unfold Accepted; exact inferInstance

theorem cut_iff_on {st st2 : State} {L : Nat} (hg : GI st L) (hv : st.cfg.variant ≠ .mpegts)
    (hL : leadingIdx st.cfg.tracks = L) (hc : st2.cfg = st.cfg) (hs : st2.streams = st.streams)
    (hn : (st2.track L).next = (st.track L).next) (ra ch : Bool) (smp old : Sample)
    (hnn : 0 ≤ smp.dts + toTs fmp4StartDTS (st.tcfg L).clockRate) (hnx : (st.track L).next = some old)
    (hok : (fmp4Write st2 L ra ch smp).2 = .ok) :
    ((fmp4Write st2 L ra ch smp).1.stream L).nextSegmentID = (st.stream L).nextSegmentID + 1 ↔
      (ra = true ∧ (ch = true ∨
        toDur (smp.dts + toTs fmp4StartDTS (st.tcfg L).clockRate) (st.tcfg L).clockRate - decisionStart st L old
          ≥ st.cfg.segmentMinDur)) := by
  have hg2 : GI st2 L := GI_congr hg hc hs
  have hv2 : st2.cfg.variant ≠ .mpegts := by rw [hc]; exact hv
  have ht : st2.tcfg L = st.tcfg L := tcfg_congr hc L
  have hsL : st2.stream L = st.stream L := stream_eq_of_streams hs L
  have := (fmp4Write_cut_iff hg2 hv2 (by unfold State.isLeadingTrack; rw [hc, hL]; simp) (streamOf_fmp4 hv2 L) ra ch smp old
    (by unfold fwSmp; simp only; rw [ht]; omega) (by rw [hn]; exact hnx) hok).1
  have hd : decisionStart st2 L old = decisionStart st L old := by unfold decisionStart; rw [hsL, ht]
  have e : (fwSmp st2 L smp).dts = smp.dts + toTs fmp4StartDTS (st.tcfg L).clockRate := by unfold fwSmp; rw [ht]
  rw [hsL, hd, ht, hc, e] at this
  exact this

/-- **cut iff due** for one `write` of a video unit on the leading track of an fMP4-variant muxer -/
theorem write_video_cut_iff {st : State} {L : Nat} (hg : GI st L) (hv : st.cfg.variant ≠ .mpegts)
    (hL : leadingIdx st.cfg.tracks = L) (op : WriteOp) (hop : op.track = L)
    (hvid : (st.tcfg op.track).codec.isVideo = true) (hacc : Accepted st op) (old : Sample)
    (hnx : (st.track L).next = some old)
    (hnn : 0 ≤ unitDts st op + toTs fmp4StartDTS (st.tcfg L).clockRate) (hok : (write st op).2 = .ok) :
    ((write st op).1.stream L).nextSegmentID = (st.stream L).nextSegmentID + 1 ↔
      (op.ra = true ∧ (changedOf st op = true ∨
        toDur (unitDts st op + toTs fmp4StartDTS (st.tcfg L).clockRate) (st.tcfg L).clockRate - decisionStart st L old
          ≥ st.cfg.segmentMinDur)) := by
  subst hop
  have hps := paramsStep_fields st op.track op.par op.ra
  have hgate : ¬ ((((paramsStep st op.track op.par op.ra).1.track op.track).firstRA = false) ∧ op.ra = false) := by
    rw [hps.firstRA]
    rintro ⟨h1, h2⟩
    rcases hacc.1 with h | h
    · rw [h1] at h; cases h
    · rw [h2] at h; cases h
  have gate : ∀ (smp : Sample), smp.dts = unitDts st op →
      (wVidGate (paramsStep st op.track op.par op.ra).1 op (changedOf st op) smp).2 = .ok →
      (((wVidGate (paramsStep st op.track op.par op.ra).1 op (changedOf st op) smp).1.stream op.track).nextSegmentID =
          (st.stream op.track).nextSegmentID + 1 ↔
        (op.ra = true ∧ (changedOf st op = true ∨
          toDur (unitDts st op + toTs fmp4StartDTS (st.tcfg op.track).clockRate) (st.tcfg op.track).clockRate - decisionStart st op.track old
            ≥ st.cfg.segmentMinDur))) := by
    intro smp hd hk
    unfold wVidGate at hk ⊢
    simp only at hk ⊢
    have hc : ¬ (!((paramsStep st op.track op.par op.ra).1.track op.track).firstRA && !op.ra) = true := by
      simpa [Bool.and_eq_true, Bool.not_eq_true'] using hgate
    simp only [hc, if_false, Bool.false_eq_true] at hk ⊢
    rw [← hd]
    refine cut_iff_on (st2 := (paramsStep st op.track op.par op.ra).1.setTrack op.track _) hg hv hL hps.cfg hps.streams
      ?_ op.ra _ smp old (by rw [hd]; exact hnn) hnx hk
    rw [track_setTrack]
    split
    · exact hps.next op.track
    · exact hps.next op.track
  rw [write_eq] at hok ⊢
  unfold unitDts at hnn gate ⊢
  cases hcd : (st.tcfg op.track).codec with
  | h264 =>
    simp only [hcd] at hok hnn gate ⊢
    unfold wH264 at hok ⊢
    have hc : ¬ (!op.ra && !op.pic) = true := by
      have := hacc.2 hcd
      rcases this with h | h <;> simp [h]
    simp only [hc, if_false, Bool.false_eq_true] at hok ⊢
    rcases wH264Gate_cases st (paramsStep st op.track op.par op.ra).1 op (paramsStep st op.track op.par op.ra).2
      with ⟨hcl, _⟩ | ⟨_, e⟩ | ⟨_, _, _, e⟩
    · exact absurd hcl hgate
    · rw [e] at hok; cases hok
    · rw [e] at hok ⊢
      rw [setTrack_setTrack] at hok ⊢
      unfold wH264Emit at hok ⊢
      have hv3 : ¬ ((paramsStep st op.track op.par op.ra).1.setTrack op.track
          (h264T2 ((paramsStep st op.track op.par op.ra).1.track op.track) op)).cfg.variant = .mpegts := by
        show ¬ (paramsStep st op.track op.par op.ra).1.cfg.variant = .mpegts
        rw [hps.cfg]; exact hv
      rw [if_neg hv3] at hok ⊢
      refine cut_iff_on (st2 := (paramsStep st op.track op.par op.ra).1.setTrack op.track _) hg hv hL hps.cfg hps.streams
        ?_ op.ra _ (vidSample op) old hnn hnx hok
      rw [track_setTrack]
      split
      · exact hps.next op.track
      · exact hps.next op.track
  | h265 => simp only [hcd] at hok hnn gate ⊢; exact gate _ rfl hok
  | vp9 => simp only [hcd] at hok hnn gate ⊢; exact gate _ rfl hok
  | av1 => simp only [hcd] at hok hnn gate ⊢; exact gate _ rfl hok
  | opus => rw [hcd] at hvid; cases hvid
  | aac => rw [hcd] at hvid; cases hvid

end Hls.Muxer
