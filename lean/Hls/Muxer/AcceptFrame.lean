import Hls.Muxer.Accept
/-!
# C01 helper lemmas, part 1: what the stream operations do to one track

In the fMP4 variants stream `i` carries exactly track `i`. `abs st i` is the part of the state that decides
what comes out of track `i`; every stream operation is characterised by what it does to `abs st i` for each `i`
(`AbsStep`). Everything else in the state (paths, files, target durations, part-duration bookkeeping, codec
parameters, the DTS extractor) is irrelevant for C01.
-/
namespace Hls.Muxer.Accept
open Hls.Muxer

/-! ## accessors -/

@[simp] theorem track_setTrack_self (st : State) (i : Nat) (x : TrackSt) (h : i < st.tracks.length) :
    (st.setTrack i x).track i = x := by
  simp [State.setTrack, State.track, List.getD_eq_getElem?_getD, h]

@[simp] theorem track_setTrack_ne (st : State) (i j : Nat) (x : TrackSt) (h : i ≠ j) :
    (st.setTrack i x).track j = st.track j := by
  simp [State.setTrack, State.track, List.getD_eq_getElem?_getD, List.getElem?_set_ne h]

@[simp] theorem stream_setStream_self (st : State) (i : Nat) (x : StreamSt) (h : i < st.streams.length) :
    (st.setStream i x).stream i = x := by
  simp [State.setStream, State.stream, List.getD_eq_getElem?_getD, h]

@[simp] theorem stream_setStream_ne (st : State) (i j : Nat) (x : StreamSt) (h : i ≠ j) :
    (st.setStream i x).stream j = st.stream j := by
  simp [State.setStream, State.stream, List.getD_eq_getElem?_getD, List.getElem?_set_ne h]

@[simp] theorem stream_setTrack (st : State) (i j : Nat) (x : TrackSt) : (st.setTrack i x).stream j = st.stream j := rfl
@[simp] theorem track_setStream (st : State) (i j : Nat) (x : StreamSt) : (st.setStream i x).track j = st.track j := rfl
@[simp] theorem cfg_setTrack (st : State) (i : Nat) (x : TrackSt) : (st.setTrack i x).cfg = st.cfg := rfl
@[simp] theorem cfg_setStream (st : State) (i : Nat) (x : StreamSt) : (st.setStream i x).cfg = st.cfg := rfl
@[simp] theorem tracks_len_setTrack (st : State) (i : Nat) (x : TrackSt) :
    (st.setTrack i x).tracks.length = st.tracks.length := by simp [State.setTrack]
@[simp] theorem streams_len_setStream (st : State) (i : Nat) (x : StreamSt) :
    (st.setStream i x).streams.length = st.streams.length := by simp [State.setStream]
@[simp] theorem streams_setTrack (st : State) (i : Nat) (x : TrackSt) : (st.setTrack i x).streams = st.streams := rfl
@[simp] theorem tracks_setStream (st : State) (i : Nat) (x : StreamSt) : (st.setStream i x).tracks = st.tracks := rfl

/-! ## the per-track abstraction -/

/-- the open part of track `t` seen as a fragment that is not finalized yet -/
def cur (samples : List Sample) (startDTS : Int) : List PartTrack :=
  match samples with
  | [] => []
  | smp => [{ id := 1, baseTime := startDTS, samples := smp }]

structure Abs where
  firstRA  : Bool
  next     : Option Sample
  samples  : List Sample
  startDTS : Int
  hasSeg   : Bool
  hasPart  : Bool
  stored   : List PartTrack     -- fragments of the open segment
  segId    : Nat
  last     : List PartTrack     -- fragments of the segment at the tail of the window

def abs (st : State) (j : Nat) : Abs :=
  { firstRA := (st.track j).firstRA, next := (st.track j).next, samples := (st.track j).samples,
    startDTS := (st.track j).startDTS,
    hasSeg := (st.stream j).nextSegment.isSome, hasPart := (st.stream j).nextPart.isSome,
    stored := partTracks (openStored st j), segId := (st.stream j).nextSegmentID,
    last := partTracks ((lastSeg (st.stream j).segments).flatMap (·.stored)) }

/-- `rotateParts` on one track -/
def absRotP (c : Bool) (a : Abs) : Abs :=
  if a.hasSeg && a.hasPart then { a with samples := [], stored := a.stored ++ cur a.samples a.startDTS, hasPart := c }
  else a

/-- `rotateSegments` on one track -/
def absRotS (a : Abs) : Abs :=
  let a := absRotP false a
  if a.hasSeg then { a with segId := a.segId + 1, last := a.stored, stored := [], hasPart := true } else a

/-- shape of an fMP4-variant muxer state with `n` tracks and leading track `L` -/
structure Shape (st : State) (n L : Nat) : Prop where
  var  : st.cfg.variant ≠ .mpegts
  ntr  : st.tracks.length = n
  nst  : st.streams.length = n
  ncf  : st.cfg.tracks.length = n
  str  : ∀ i, i < n → (st.stream i).tracks = [i] ∧ (st.stream i).isLeading = decide (i = L)
  lead : L < n
  leq  : leadingIdx st.cfg.tracks = L
  cnt  : 1 ≤ st.cfg.segmentCount

/-- `st'` has the configuration and shape of `st` -/
structure Same (st st' : State) : Prop where
  cfg : st'.cfg = st.cfg
  ntr : st'.tracks.length = st.tracks.length
  nst : st'.streams.length = st.streams.length
  str : ∀ j, (st'.stream j).tracks = (st.stream j).tracks ∧ (st'.stream j).isLeading = (st.stream j).isLeading

theorem Same.refl (st : State) : Same st st := ⟨rfl, rfl, rfl, fun _ => ⟨rfl, rfl⟩⟩

theorem Same.trans {a b c : State} (h1 : Same a b) (h2 : Same b c) : Same a c :=
  ⟨h2.cfg.trans h1.cfg, h2.ntr.trans h1.ntr, h2.nst.trans h1.nst,
   fun j => ⟨(h2.str j).1.trans (h1.str j).1, (h2.str j).2.trans (h1.str j).2⟩⟩

theorem Shape.of_same {st st' : State} {n L : Nat} (h : Shape st n L) (s : Same st st') : Shape st' n L where
  var := by rw [s.cfg]; exact h.var
  ntr := by rw [s.ntr]; exact h.ntr
  nst := by rw [s.nst]; exact h.nst
  ncf := by rw [s.cfg]; exact h.ncf
  str := fun i hi => by rw [(s.str i).1, (s.str i).2]; exact h.str i hi
  lead := h.lead
  leq := by rw [s.cfg]; exact h.leq
  cnt := by rw [s.cfg]; exact h.cnt

/-- `st'` arises from `st` by applying `G j` to the abstraction of every track `j < n` -/
structure AbsStep (n : Nat) (st st' : State) (G : Nat → Abs → Abs) : Prop where
  same : Same st st'
  eq   : ∀ j, j < n → abs st' j = G j (abs st j)

theorem AbsStep.refl (n : Nat) (st : State) : AbsStep n st st (fun _ a => a) := ⟨Same.refl st, fun _ _ => rfl⟩

theorem AbsStep.trans {n : Nat} {a b c : State} {G G' : Nat → Abs → Abs}
    (h1 : AbsStep n a b G) (h2 : AbsStep n b c G') : AbsStep n a c (fun j x => G' j (G j x)) :=
  ⟨h1.same.trans h2.same, fun j hj => by rw [h2.eq j hj, h1.eq j hj]⟩

theorem AbsStep.congr {n : Nat} {a b : State} {G G' : Nat → Abs → Abs}
    (h : AbsStep n a b G) (e : ∀ j, j < n → G j (abs a j) = G' j (abs a j)) : AbsStep n a b G' :=
  ⟨h.same, fun j hj => by rw [h.eq j hj, e j hj]⟩

/-! ## the stream operations, one stream at a time -/

def withPE (st : State) (P : List (PathKey × Handler)) (F : List PathKey) (E : Nat) : State :=
  { st with paths := P, files := F, encErrs := E }

@[simp] theorem track_withPE (st : State) (P F E j) : (withPE st P F E).track j = st.track j := rfl
@[simp] theorem stream_withPE (st : State) (P F E j) : (withPE st P F E).stream j = st.stream j := rfl
@[simp] theorem cfg_withPE (st : State) (P F E) : (withPE st P F E).cfg = st.cfg := rfl
@[simp] theorem tracks_withPE (st : State) (P F E) : (withPE st P F E).tracks = st.tracks := rfl
@[simp] theorem streams_withPE (st : State) (P F E) : (withPE st P F E).streams = st.streams := rfl

theorem finalizePart_single (st : State) (si : Nat) (p : Part) (d : Int)
    (htr : (st.stream si).tracks = [si]) :
    finalizePart st si p d =
      (match (st.track si).samples with
       | [] => (st, { p with content := [], endDTS := d })
       | smp => (st.setTrack si { (st.track si) with samples := [] },
                 { p with content := [{ id := 1, baseTime := (st.track si).startDTS, samples := smp }], endDTS := d })) := by
  unfold finalizePart
  simp only [htr, List.zipIdx_cons, List.zipIdx_nil, List.foldl_cons, List.foldl_nil]
  cases h : (st.track si).samples <;> simp

/-- the part-target bookkeeping at the end of `rotateParts` (cosmetic for C01) -/
def ptdUpdate (s : StreamSt) (parts : List Part) : StreamSt × Nat :=
  if s.isLeading then
    let pt := partTargetDuration s.segments parts
    if s.partTargetDur = 0 then ({ s with partTargetDur := pt }, 0)
    else if pt ≠ s.partTargetDur then ({ s with partTargetDur := pt }, 1)
    else (s, 0)
  else (s, 0)

theorem ptdUpdate_fields (s : StreamSt) (parts : List Part) :
    (ptdUpdate s parts).1.tracks = s.tracks ∧ (ptdUpdate s parts).1.isLeading = s.isLeading ∧
    (ptdUpdate s parts).1.segments = s.segments ∧ (ptdUpdate s parts).1.nextSegment = s.nextSegment ∧
    (ptdUpdate s parts).1.nextPart = s.nextPart ∧ (ptdUpdate s parts).1.nextSegmentID = s.nextSegmentID := by
  unfold ptdUpdate
  by_cases h1 : s.isLeading = true <;> by_cases h2 : s.partTargetDur = 0 <;>
    by_cases h3 : partTargetDuration s.segments parts = s.partTargetDur <;> simp [h1, h2, h3]

def llReg (st : State) (si : Nat) (seg : Seg) (part : Part) (nextPartID : Nat) : Seg × List (PathKey × Handler) :=
  if st.cfg.variant = .ll then
    let seg := { seg with parts := seg.parts ++ [part] }
    let paths := regPath st.paths (.part si part.id) (.part part)
    let paths := regPath paths (.part si nextPartID) (.hint si nextPartID)
    (seg, paths)
  else (seg, st.paths)

theorem llReg_stored (st : State) (si : Nat) (seg : Seg) (part : Part) (n : Nat) :
    (llReg st si seg part n).1.stored = seg.stored := by
  unfold llReg; split <;> rfl

theorem rotatePartsStream_eq (st : State) (si : Nat) (d : Int) (c : Bool) :
    rotatePartsStream st si d c =
      match (st.stream si).nextPart, (st.stream si).nextSegment with
      | some part, some seg =>
        let fp := finalizePart st si part d
        let nid := (st.stream si).nextPartID + 1
        let sp := llReg fp.1 si { seg with stored := seg.stored ++ [fp.2] } fp.2 nid
        let np : Option Part := if c then some { id := nid, startDTS := d } else none
        let s0 : StreamSt := { (fp.1.stream si) with nextPartID := nid, nextSegment := some sp.1, nextPart := np }
        let se := ptdUpdate s0 sp.1.parts
        withPE (fp.1.setStream si se.1) sp.2 fp.1.files (fp.1.encErrs + se.2)
      | _, _ => st := by
  rfl


theorem finalizePart_facts (st : State) (si : Nat) (p : Part) (d : Int)
    (htr : (st.stream si).tracks = [si]) (h1 : si < st.tracks.length) :
    (finalizePart st si p d).1.cfg = st.cfg ∧ (finalizePart st si p d).1.streams = st.streams ∧
    (finalizePart st si p d).1.tracks.length = st.tracks.length ∧
    (∀ j, (finalizePart st si p d).1.track j = if j = si then { (st.track si) with samples := [] } else st.track j) ∧
    (finalizePart st si p d).2.content = cur (st.track si).samples (st.track si).startDTS := by
  rw [finalizePart_single st si p d htr]
  cases hs : (st.track si).samples with
  | nil =>
    refine ⟨rfl, rfl, rfl, fun j => ?_, rfl⟩
    by_cases e : j = si
    · subst e; simp only [if_true]; rw [← hs]
    · simp [e]
  | cons x xs =>
    refine ⟨rfl, rfl, by simp, fun j => ?_, rfl⟩
    by_cases e : j = si
    · subst e; simp [h1]
    · simp [e, Ne.symm e]

theorem stream_eq_of_streams {a b : State} (h : a.streams = b.streams) (j : Nat) : a.stream j = b.stream j := by
  simp [State.stream, h]

theorem rotatePartsStream_step {st : State} {n L : Nat} (h : Shape st n L) (si : Nat) (hsi : si < n) (d : Int) (c : Bool) :
    AbsStep n st (rotatePartsStream st si d c) (fun j a => if j = si then absRotP c a else a) := by
  have htr := (h.str si hsi).1
  have h1 : si < st.tracks.length := by rw [h.ntr]; exact hsi
  have h2 : si < st.streams.length := by rw [h.nst]; exact hsi
  rw [rotatePartsStream_eq]
  cases hp : (st.stream si).nextPart with
  | none =>
    refine ⟨Same.refl _, fun j hj => ?_⟩
    by_cases e : j = si
    · subst e; simp [absRotP, abs, hp]
    · simp [e]
  | some part =>
    cases hg : (st.stream si).nextSegment with
    | none =>
      refine ⟨Same.refl _, fun j hj => ?_⟩
      by_cases e : j = si
      · subst e; simp [absRotP, abs, hg]
      · simp [e]
    | some seg =>
      obtain ⟨f1, f2, f3, f4, f5⟩ := finalizePart_facts st si part d htr h1
      have f2' := stream_eq_of_streams f2
      simp only []
      generalize finalizePart st si part d = fp at *
      generalize hnp : (if c = true then some ({ id := (st.stream si).nextPartID + 1, startDTS := d } : Part) else none) = np
      have hnps : np.isSome = c := by subst hnp; cases c <;> rfl
      generalize hsp : llReg fp.1 si { seg with stored := seg.stored ++ [fp.2] } fp.2 ((st.stream si).nextPartID + 1) = sp
      have hst : sp.1.stored = seg.stored ++ [fp.2] := by rw [← hsp, llReg_stored]
      generalize hs0 : ({ (fp.1.stream si) with nextPartID := (st.stream si).nextPartID + 1, nextSegment := some sp.1, nextPart := np } : StreamSt) = s0
      obtain ⟨p1, p2, p3, p4, p5, p6⟩ := ptdUpdate_fields s0 sp.1.parts
      generalize ptdUpdate s0 sp.1.parts = se at *
      have h2' : si < fp.1.streams.length := by rw [f2]; exact h2
      subst hs0
      simp only [f2'] at p1 p2 p3 p4 p5 p6
      refine ⟨⟨by simp [f1], by simp [f3], by simp [f2], fun j => ?_⟩, fun j hj => ?_⟩
      · by_cases e : j = si
        · subst e; simp [h2', p1, p2]
        · simp [Ne.symm e, f2']
      · by_cases e : j = si
        · subst e
          simp [abs, openStored, absRotP, h2', f4, p3, p4, p5, p6, hp, hg, hnps, hst, partTracks, f5]
        · simp [abs, openStored, Ne.symm e, e, f2', f4]


/-- the delete-one-from-head rule of `rotateSegments` -/
def trimWindow (count si : Nat) (segments : List Entry) (paths : List (PathKey × Handler)) (files : List PathKey) (dc : Nat) :
    List Entry × List (PathKey × Handler) × List PathKey × Nat :=
  if segments.length > count then
    match segments with
    | .seg old :: rest =>
      let paths := old.parts.foldl (fun ps p => unregPath ps (.part si p.id)) paths
      let paths := unregPath paths (.seg si old.id)
      (rest, paths, files.filter (· ≠ .seg si old.id), dc + 1)
    | .gap _ :: rest => (rest, paths, files, dc + 1)
    | [] => (segments, paths, files, dc)
  else (segments, paths, files, dc)

/-- the target-duration bookkeeping at the end of `rotateSegments` (cosmetic for C01) -/
def tdUpdate (s : StreamSt) : StreamSt × Nat :=
  if s.isLeading then
    let td := targetDuration s.segments
    if s.targetDur = 0 then ({ s with targetDur := td }, 0)
    else if td > s.targetDur then ({ s with targetDur := td }, 1)
    else (s, 0)
  else (s, 0)

/-- `rotateSegments` on one stream after its open part was finalized -/
def rotSegTail (st : State) (si : Nat) (d ntp : Int) (force : Bool) : State :=
  match (st.stream si).nextSegment with
  | none => st
  | some seg0 =>
    let s := st.stream si
    let seg : Seg := { seg0 with endDTS := d }
    let segments := (if st.cfg.variant = .ll ∧ s.segments.isEmpty then gaps seg.duration else s.segments) ++ [.seg seg]
    let h : Handler := if st.cfg.variant = .mpegts then .segTS seg.tsUnits else .segFMP4 seg.stored
    let tw := trimWindow st.cfg.segmentCount si segments (regPath st.paths (.seg si seg.id) h) st.files s.deleteCount
    let pi : List (PathKey × Handler) × Bool :=
      if st.cfg.variant ≠ .mpegts ∧ (!s.initPresent || seg.forced) then
        (regPath tw.2.1 (.init si) (.init (s.tracks.map fun t => (st.track t).params)), true)
      else (tw.2.1, s.initPresent)
    let newSeg : Seg := { id := s.nextSegmentID + 1, startDTS := d, startNTP := ntp,
                          forced := if st.cfg.variant = .mpegts then false else force }
    let np : Option Part := if st.cfg.variant = .mpegts then none else some { id := s.nextPartID, startDTS := d }
    let s1 : StreamSt := { s with nextSegmentID := s.nextSegmentID + 1, segments := tw.1, deleteCount := tw.2.2.2,
                                  initPresent := pi.2, nextSegment := some newSeg, nextPart := np }
    let se := tdUpdate s1
    withPE (st.setStream si se.1) pi.1 (tw.2.2.1 ++ [.seg si newSeg.id]) (st.encErrs + se.2)

theorem rotateSegmentsStream_eq (st0 : State) (si : Nat) (d ntp : Int) (force : Bool) :
    rotateSegmentsStream st0 si d ntp force =
      rotSegTail (if st0.cfg.variant ≠ .mpegts then rotatePartsStream st0 si d false else st0) si d ntp force := by
  rfl


theorem lastSeg_append_seg (xs : List Entry) (g : Seg) : lastSeg (xs ++ [.seg g]) = [g] := by
  induction xs with
  | nil => rfl
  | cons e rest ih =>
    cases rest with
    | nil => simp [lastSeg]
    | cons e' rest' =>
      simp only [List.cons_append] at ih ⊢
      rw [lastSeg]; exact ih

theorem lastSeg_trim (count si : Nat) (xs : List Entry) (g : Seg) (P : List (PathKey × Handler)) (F : List PathKey) (dc : Nat)
    (hc : 1 ≤ count) : lastSeg (trimWindow count si (xs ++ [.seg g]) P F dc).1 = [g] := by
  unfold trimWindow
  split
  next hlen =>
    cases xs with
    | nil => simp at hlen; omega
    | cons e rest =>
      cases e <;> simp [lastSeg_append_seg]
  next => exact lastSeg_append_seg xs g

theorem tdUpdate_fields (s : StreamSt) :
    (tdUpdate s).1.tracks = s.tracks ∧ (tdUpdate s).1.isLeading = s.isLeading ∧
    (tdUpdate s).1.segments = s.segments ∧ (tdUpdate s).1.nextSegment = s.nextSegment ∧
    (tdUpdate s).1.nextPart = s.nextPart ∧ (tdUpdate s).1.nextSegmentID = s.nextSegmentID := by
  unfold tdUpdate
  by_cases h1 : s.isLeading = true <;> by_cases h2 : s.targetDur = 0 <;>
    by_cases h3 : targetDuration s.segments > s.targetDur <;> simp [h1, h2, h3]


def absSegTail (a : Abs) : Abs :=
  if a.hasSeg then { a with segId := a.segId + 1, last := a.stored, stored := [], hasPart := true } else a

theorem absRotS_eq (a : Abs) : absRotS a = absSegTail (absRotP false a) := rfl

@[simp] theorem tdUpdate_tracks (s : StreamSt) : (tdUpdate s).1.tracks = s.tracks := (tdUpdate_fields s).1
@[simp] theorem tdUpdate_isLeading (s : StreamSt) : (tdUpdate s).1.isLeading = s.isLeading := (tdUpdate_fields s).2.1
@[simp] theorem tdUpdate_segments (s : StreamSt) : (tdUpdate s).1.segments = s.segments := (tdUpdate_fields s).2.2.1
@[simp] theorem tdUpdate_nextSegment (s : StreamSt) : (tdUpdate s).1.nextSegment = s.nextSegment := (tdUpdate_fields s).2.2.2.1
@[simp] theorem tdUpdate_nextPart (s : StreamSt) : (tdUpdate s).1.nextPart = s.nextPart := (tdUpdate_fields s).2.2.2.2.1
@[simp] theorem tdUpdate_nextSegmentID (s : StreamSt) : (tdUpdate s).1.nextSegmentID = s.nextSegmentID := (tdUpdate_fields s).2.2.2.2.2

theorem rotSegTail_step {st : State} {n L : Nat} (h : Shape st n L) (si : Nat) (hsi : si < n) (d ntp : Int) (force : Bool) :
    AbsStep n st (rotSegTail st si d ntp force) (fun j a => if j = si then absSegTail a else a) := by
  have h2 : si < st.streams.length := by rw [h.nst]; exact hsi
  unfold rotSegTail
  cases hg : (st.stream si).nextSegment with
  | none =>
    refine ⟨Same.refl _, fun j hj => ?_⟩
    by_cases e : j = si
    · subst e; simp [absSegTail, abs, hg]
    · simp [e]
  | some seg0 =>
    simp only []
    refine ⟨⟨by simp, by simp, by simp, fun j => ?_⟩, fun j hj => ?_⟩
    · by_cases e : j = si
      · subst e; simp [h2]
      · simp [Ne.symm e]
    · by_cases e : j = si
      · subst e
        simp [abs, openStored, absSegTail, h2, hg, lastSeg_trim, h.cnt, h.var, partTracks]
      · simp [abs, openStored, Ne.symm e, e]

end Hls.Muxer.Accept
