import Hls.Muxer.PathsSteps
/-!
  The C05 invariant holds in every reachable state (`inv_run`), and the frame relation `Mono` holds
  between a reachable state and every later one (`mono_run`).
-/
namespace Hls.Muxer.Paths
open Hls.Muxer

/-! ### `createFirstSegment` (all streams) -/

theorem cfs_length (st : State) (si : Nat) (d n : Int) :
    (createFirstSegmentStream st si d n).streams.length = st.streams.length := by
  rw [cfs_eq]; exact setStream_length st si _

theorem cfs_fold {st : State} (d n : Int) (l : List Nat) (hI : InvAt none st) (hnd : l.Nodup)
    (hnone : ∀ x ∈ l, (st.stream x).nextSegment = none) :
    let st' := l.foldl (fun st si => createFirstSegmentStream st si d n) st
    InvAt none st' ∧ Mono st st' ∧ st'.streams.length = st.streams.length ∧
    (∀ sj, sj ∉ l → st'.stream sj = st.stream sj) ∧
    (∀ sj, sj ∈ l → sj < st.streams.length → (st'.stream sj).nextSegment.isSome = true) := by
  induction l generalizing st with
  | nil => exact ⟨hI, Mono.refl st, rfl, fun _ _ => rfl, fun _ h => by simp at h⟩
  | cons x l ih =>
    simp only [List.foldl_cons]
    have hx := hnone x (by simp)
    have hI1 := cfs_inv x d n hI hx
    have hnd' := (List.nodup_cons.1 hnd)
    have hnone1 : ∀ y ∈ l, ((createFirstSegmentStream st x d n).stream y).nextSegment = none := by
      intro y hy
      have : y ≠ x := fun e => hnd'.1 (e ▸ hy)
      rw [cfs_stream_other st x y d n this]; exact hnone y (by simp [hy])
    obtain ⟨a1, a2, a3, a4, a5⟩ := ih hI1 hnd'.2 hnone1
    refine ⟨a1, (cfs_mono st x d n).trans a2, by rw [a3, cfs_length], ?_, ?_⟩
    · intro sj hsj
      simp only [List.mem_cons, not_or] at hsj
      rw [a4 sj hsj.2, cfs_stream_other st x sj d n hsj.1]
    · intro sj hsj hlt
      by_cases hm : sj ∈ l
      · exact a5 sj hm (by rw [cfs_length]; exact hlt)
      · have : sj = x := by simpa [hm] using hsj
        subst this
        rw [a4 sj hm, cfs_stream_same st sj d n hlt]; exact cfsStream_isSome _ _ _ _

theorem leadingIdx_lt (ts : List TrackCfg) (h : ts ≠ []) : leadingIdx ts < ts.length := by
  unfold leadingIdx
  split
  · rename_i i hi
    exact (List.findIdx?_eq_some_iff_getElem.1 hi).1
  · exact List.length_pos_iff.2 h

theorem cfsAll_ok {st : State} (si : Nat) (d n : Int) (hI : Inv st)
    (hnone : (st.stream si).nextSegment = none)
    (hsi : st.cfg.variant = .mpegts ∧ si = 0 ∨ st.cfg.variant ≠ .mpegts ∧ si = leadingIdx st.cfg.tracks) :
    Inv (createFirstSegment st d n) ∧ Mono st (createFirstSegment st d n) := by
  have hlt : si < st.streams.length := by
    rw [hI.inv.wf_len]
    rcases hsi with ⟨hv, rfl⟩ | ⟨hv, rfl⟩
    · simp [hv]
    · simp only [hv, if_false]; exact leadingIdx_lt _ hI.inv.wf_tracks
  have hall : ∀ x ∈ List.range st.streams.length, (st.stream x).nextSegment = none := by
    intro x hx
    have := hI.sync x si (List.mem_range.1 hx) hlt
    rw [hnone] at this
    cases h : (st.stream x).nextSegment with
    | none => rfl
    | some g => rw [h] at this; simp at this
  obtain ⟨a1, a2, a3, _, a5⟩ := cfs_fold d n _ hI.inv List.nodup_range hall
  unfold createFirstSegment
  refine ⟨⟨a1, ?_⟩, a2⟩
  intro x y hx hy
  rw [a3] at hx hy
  rw [a5 x (List.mem_range.2 hx) hx, a5 y (List.mem_range.2 hy) hy]

theorem Sync.of_someEq {st st' : State} (h : SomeEq st st') (hlen : st'.streams.length = st.streams.length)
    (hS : Sync st) : Sync st' := by
  intro x y hx hy
  rw [hlen] at hx hy
  rw [h x, h y]; exact hS x y hx hy

theorem InvAt.length_eq {m m' : Option Nat} {st st' : State} (h : InvAt m st) (h' : InvAt m' st')
    (hcfg : st'.cfg = st.cfg) : st'.streams.length = st.streams.length := by
  rw [h.wf_len, h'.wf_len, hcfg]

theorem Prim.ok {a b : State} (h : Prim a b) (hI : Inv a) : Inv b ∧ Mono a b := by
  cases h with
  | core h => exact ⟨hI.of_coreEq h, Mono.of_coreEq h⟩
  | upd si s' hl =>
    have h1 := hI.inv.setStream_localEq si s' hl
    exact ⟨⟨h1, hI.sync.of_someEq (someEq_setStream_localEq a si s' hl) (setStream_length a si s')⟩,
      mono_setStream_localEq a si s' hl⟩
  | cfsAll si d n hnone hsi => exact cfsAll_ok si d n hI hnone hsi
  | rps si d hll =>
    have h1 : InvAt none (rotatePartsStream a si d true) := by
      have := rps_inv si d true hI.inv (fun _ => hll)
      simpa using this
    refine ⟨⟨h1, hI.sync.of_someEq (rps_someEq a si d true) (rps_length a si d true)⟩, ?_⟩
    by_cases hsi : si < a.streams.length
    · have hSI : SInv a.cfg.variant false (a.stream si) := by simpa using hI.inv.sinv si hsi
      exact rps_mono a si d true hSI.open_part_id
    · rw [rps_noop a si d true (Or.inl (by rw [stream_oob a si (Nat.le_of_not_lt hsi)]))]
      exact Mono.refl a
  | rss si d n f =>
    have h1 := rss_inv si d n f hI.inv
    exact ⟨⟨h1, hI.sync.of_someEq (rss_someEq a si d n f) (hI.inv.length_eq h1 (rss_cfg a si d n f))⟩,
      rss_mono si d n f hI.inv⟩

theorem Steps.ok {a b : State} (h : Steps a b) (hI : Inv a) : Inv b ∧ Mono a b := by
  induction h with
  | refl => exact ⟨hI, Mono.refl _⟩
  | tail _ hp ih =>
    obtain ⟨h1, h2⟩ := ih
    obtain ⟨h3, h4⟩ := hp.ok h1
    exact ⟨h3, h2.trans h4⟩

theorem inv_write {st : State} (op : WriteOp) (hI : Inv st) : Inv (write st op).1 :=
  ((steps_write st op).ok hI).1

theorem mono_write {st : State} (op : WriteOp) (hI : Inv st) : Mono st (write st op).1 :=
  ((steps_write st op).ok hI).2

theorem inv_run {st : State} (ops : List WriteOp) (hI : Inv st) : Inv (run st ops) := by
  induction ops generalizing st with
  | nil => exact hI
  | cons op ops ih => exact ih (inv_write op hI)

theorem mono_run {st : State} (ops : List WriteOp) (hI : Inv st) : Mono st (run st ops) := by
  induction ops generalizing st with
  | nil => exact Mono.refl st
  | cons op ops ih => exact (mono_write op hI).trans (ih (inv_write op hI))

/-! ### `start` establishes the invariant -/

theorem playlists_fold (n : Nat) (ps0 : PL) :
    let ps := (List.range n).foldl (fun ps i => regPath ps (.playlist i) (.mediaPlaylist i)) ps0
    (∀ k, (∀ i, k ≠ .playlist i) → lookupPath ps k = lookupPath ps0 k) ∧
    (∀ i, lookupPath ps (.playlist i) = if i < n then some (.mediaPlaylist i) else lookupPath ps0 (.playlist i)) ∧
    ((keys ps0).Nodup → (keys ps).Nodup) := by
  induction n with
  | zero => simp
  | succ n ih =>
    simp only [List.range_succ, List.foldl_append, List.foldl_cons, List.foldl_nil]
    obtain ⟨h1, h2, h3⟩ := ih
    refine ⟨?_, ?_, ?_⟩
    · intro k hk; rw [lookup_reg_other _ _ _ _ (hk n)]; exact h1 k hk
    · intro i
      rw [lookup_reg]
      by_cases e : i = n
      · subst e; simp
      · have : ¬ PathKey.playlist i = PathKey.playlist n := by simpa using e
        rw [if_neg this, h2 i]
        by_cases hlt : i < n
        · simp [hlt, Nat.lt_succ_of_lt hlt]
        · have : ¬ i < n + 1 := by omega
          simp [hlt, this]
    · intro hnd; exact nodup_reg _ _ _ (h3 hnd)

/-- a stream as `Start` creates it -/
def InitStream (v : Variant) (s : StreamSt) : Prop :=
  s.segments = [] ∧ s.nextSegment = none ∧ s.nextPart = none ∧ s.nextSegmentID = startSegID v ∧
  s.nextPartID = 0 ∧ s.deleteCount = 0 ∧ s.initPresent = false

theorem InitStream.sinv {v : Variant} {s : StreamSt} (h : InitStream v s) : SInv v false s := by
  obtain ⟨h1, h2, h3, h4, h5, h6, h7⟩ := h
  have hw : winStored s = [] := by unfold winStored openStored realSegs; simp [h1, h2]
  constructor
  · intro g hg; rw [h2] at hg; cases hg
  · intro p hp; rw [h3] at hp; cases hp
  · intro _; exact h3
  · intro _; exact h5
  · intro _ _ hs; rw [h2] at hs; cases hs
  · intro hm; cases hm
  · intro i g hg; rw [h1] at hg; simp at hg
  · intro hne; exact absurd h1 hne
  · intro _; exact ⟨h6, h4⟩
  · exact ⟨0, by rw [hw, h5]; rfl, by omega, by omega⟩
  · intro g hg; rw [h1] at hg; simp at hg
  · intro g hg; rw [h2] at hg; cases hg
  · intro _ g hg; rw [h1] at hg; simp at hg
  · intro _ g hg; rw [h2] at hg; cases hg
  · intro _ hne; exact absurd h1 hne
  · intro _ hne; exact absurd h1 hne

theorem start_shape {cfg : Cfg} {st0 : State} (h0 : start cfg = .ok st0) :
    st0.cfg = cfg.withDefaults ∧ st0.cfg.tracks ≠ [] ∧ 3 ≤ st0.cfg.segmentCount ∧
    (st0.cfg.variant = .ll → 7 ≤ st0.cfg.segmentCount) ∧
    st0.streams.length = (if st0.cfg.variant = .mpegts then 1 else st0.cfg.tracks.length) ∧
    (∀ s ∈ st0.streams, InitStream st0.cfg.variant s) ∧
    st0.paths = (List.range st0.streams.length).foldl
      (fun ps i => regPath ps (.playlist i) (.mediaPlaylist i)) (regPath [] .index .multivariant) := by
  unfold start at h0
  simp only at h0
  by_cases he : cfg.withDefaults.tracks.isEmpty = true
  · rw [if_pos he] at h0; cases h0
  rw [if_neg he] at h0
  have hne : cfg.withDefaults.tracks ≠ [] := by intro e; rw [e] at he; simp at he
  cases hv : cfg.withDefaults.variant
  all_goals
    simp only [hv, reduceCtorEq, if_false, if_true] at h0
    split at h0
    · cases h0
    · split at h0
      · cases h0
      · rename_i hcnt
        simp only [Except.ok.injEq] at h0
        subst h0
        simp only [hv, reduceCtorEq, if_false, if_true]
        refine ⟨trivial, hne, by omega, ?_, by simp, ?_, trivial⟩
        · first
            | (intro _; omega)
            | (intro h; cases h)
        · intro s hs
          first
            | (simp only [List.mem_singleton] at hs; subst hs
               exact ⟨rfl, rfl, rfl, by simp [startSegID], rfl, rfl, rfl⟩)
            | (simp only [List.mem_map] at hs; obtain ⟨i, _, rfl⟩ := hs
               exact ⟨rfl, rfl, rfl, by simp [startSegID], rfl, rfl, rfl⟩)

theorem stream_mem (st : State) (si : Nat) (h : si < st.streams.length) : st.stream si ∈ st.streams := by
  simp only [State.stream, List.getD_eq_getElem?_getD, List.getElem?_eq_getElem h, Option.getD_some]
  exact List.getElem_mem h

theorem inv_start {cfg : Cfg} {st0 : State} (h0 : start cfg = .ok st0) : Inv st0 := by
  obtain ⟨_, h2, h3, _, h5, h6, h7⟩ := start_shape h0
  obtain ⟨p1, p2, p3⟩ := playlists_fold st0.streams.length (regPath [] .index .multivariant)
  rw [← h7] at p1 p2 p3
  have hweak : ∀ si, (st0.stream si).segments = [] ∧ (st0.stream si).nextSegment = none ∧
      (st0.stream si).nextPartID = 0 ∧ (st0.stream si).initPresent = false := by
    intro si
    by_cases hsi : si < st0.streams.length
    · obtain ⟨a1, a2, _, _, a5, _, a7⟩ := h6 _ (stream_mem st0 si hsi)
      exact ⟨a1, a2, a5, a7⟩
    · rw [stream_oob st0 si (Nat.le_of_not_lt hsi)]
      exact ⟨rfl, rfl, rfl, rfl⟩
  have hl0 : ∀ k, k ≠ .index → lookupPath (regPath [] .index .multivariant) k = none := by
    intro k hk; rw [lookup_reg_other _ _ _ _ hk]; rfl
  refine ⟨⟨h2, h5, by omega, ?_, ?_, ?_, ?_, ?_, ?_, ?_, ?_⟩, ?_⟩
  · intro si hsi
    simpa using (h6 _ (stream_mem st0 si hsi)).sinv
  · exact p3 (nodup_reg _ _ _ (by simp [keys]))
  · rw [p1 _ (by simp), lookup_reg_same]
  · intro si; rw [p2 si, hl0 _ (by simp)]
  · intro si h hh
    rw [p1 _ (by simp), hl0 _ (by simp)] at hh; cases hh
  · intro si hp; rw [(hweak si).2.2.2] at hp; cases hp
  · intro si id h
    rw [p1 _ (by simp), hl0 _ (by simp)]
    unfold RegSeg; rw [(hweak si).1]; simp
  · intro si id h
    rw [p1 _ (by simp), hl0 _ (by simp)]
    unfold RegPart winParts openParts realSegs
    rw [(hweak si).1, (hweak si).2.1, (hweak si).2.2.1]
    simp
    intro _ e; omega
  · intro x y _ _
    rw [(hweak x).2.1, (hweak y).2.1]

end Hls.Muxer.Paths
