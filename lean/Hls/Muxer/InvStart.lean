import Hls.Muxer.InvWrite
/-! `Start`: the state it returns satisfies `Inv`; hence `Inv` holds in every reachable state. -/
namespace Hls.Muxer

def initNext (cfg : Cfg) : Nat := if cfg.variant = .ll then 7 else 0

def initStreams (cfg : Cfg) : List StreamSt :=
  match cfg.variant with
  | .mpegts => [{ tracks := List.range cfg.tracks.length, isLeading := true, nextSegmentID := initNext cfg }]
  | _ => (List.range cfg.tracks.length).map fun i =>
      { tracks := [i], isLeading := (i = leadingIdx cfg.tracks), nextSegmentID := initNext cfg }

def initPaths' (n : Nat) : List (PathKey × Handler) :=
  (List.range n).foldl (fun ps i => regPath ps (.playlist i) (.mediaPlaylist i)) (regPath [] .index .multivariant)

/-- the state `Start` returns -/
def initState (cfg : Cfg) : State :=
  { cfg := cfg, tracks := cfg.tracks.map (fun _ => { params := 1 }), streams := initStreams cfg,
    paths := initPaths' (initStreams cfg).length }

theorem start_ok {cfg0 : Cfg} {st0 : State} (h : start cfg0 = .ok st0) :
    st0 = initState cfg0.withDefaults ∧ cfg0.withDefaults.tracks ≠ [] ∧ CfgOK cfg0.withDefaults := by
  unfold start at h
  simp only [] at h
  split at h
  · cases h
  · rename_i hne
    split at h
    · cases h
    · split at h
      · -- Low-Latency
        rename_i hll
        split at h
        · cases h
        · injection h with h
          refine ⟨?_, by simpa [List.isEmpty_iff] using hne, ?_⟩
          · rw [← h]; simp [initState, initStreams, initPaths', initNext, hll]
          · unfold CfgOK; simp only [hll, if_true]; omega
      · rename_i hll
        split at h
        · cases h
        · injection h with h
          refine ⟨?_, by simpa [List.isEmpty_iff] using hne, ?_⟩
          · rw [← h]; simp only [initState, initStreams, initPaths', initNext, hll, if_false]
            cases cfg0.withDefaults.variant <;> rfl
          · unfold CfgOK; simp only [hll, if_false]; omega


theorem initStreams_length (cfg : Cfg) :
    (initStreams cfg).length = if cfg.variant = .mpegts then 1 else cfg.tracks.length := by
  unfold initStreams
  cases cfg.variant <;> simp

theorem initState_stream (cfg : Cfg) (i : Nat) (hi : i < (initStreams cfg).length) :
    ∃ trk, (initState cfg).stream i =
      { tracks := trk, isLeading := decide (i = leadIdx cfg), nextSegmentID := initNext cfg } := by
  have key : ∃ trk, (initStreams cfg)[i]? = some
      { tracks := trk, isLeading := decide (i = leadIdx cfg), nextSegmentID := initNext cfg } := by
    unfold initStreams leadIdx at *
    cases hv : cfg.variant <;> simp only [hv] at hi ⊢
    · have : i = 0 := by simpa using hi
      subst this
      exact ⟨List.range cfg.tracks.length, by simp⟩
    · simp at hi
      exact ⟨[i], by simp [hi]⟩
    · simp at hi
      exact ⟨[i], by simp [hi]⟩
  obtain ⟨trk, hk⟩ := key
  exact ⟨trk, by simp [State.stream, initState, hk]⟩

theorem initPaths'_keys (n : Nat) :
    (keys (initPaths' n)).Nodup ∧ ∀ k ∈ keys (initPaths' n), k = .index ∨ ∃ i, i < n ∧ k = .playlist i := by
  induction n with
  | zero =>
    simp [initPaths', regPath, keys]
  | succ n ih =>
    have : initPaths' (n + 1) = regPath (initPaths' n) (.playlist n) (.mediaPlaylist n) := by
      simp [initPaths', List.range_succ, List.foldl_append]
    rw [this]
    refine ⟨nodup_keys_regPath ih.1, fun k hk => ?_⟩
    rcases mem_keys_regPath.mp hk with rfl | hk
    · exact Or.inr ⟨n, Nat.lt_succ_self n, rfl⟩
    · rcases ih.2 k hk with h | ⟨i, hi, h⟩
      · exact Or.inl h
      · exact Or.inr ⟨i, Nat.lt_succ_of_lt hi, h⟩

theorem streamInv_init (cfg : Cfg) (trk : List Nat) (b : Bool) :
    StreamInv cfg { tracks := trk, isLeading := b, nextSegmentID := initNext cfg } := by
  constructor <;> simp [allParts, openParts, initNext, GapsThenReals, MsnFrom, Consec, Tiled]
  · intro h; simp [h]

theorem initState_inv (cfg : Cfg) (hne : cfg.tracks ≠ []) (hc : CfgOK cfg) : Inv (initState cfg) := by
  have hlen : (initState cfg).streams.length = (initStreams cfg).length := rfl
  refine ⟨⟨hc, fun si hsi => ?_, ?_, ?_⟩, fun si hsi => ?_, ⟨hne, ?_, fun i hi => ?_⟩, ⟨fun i hi => ?_, fun i hi => ?_, fun i hi => ?_⟩⟩
  · obtain ⟨trk, h⟩ := initState_stream cfg si hsi
    rw [h]; exact streamInv_init cfg trk _
  · obtain ⟨h1, h2⟩ := initPaths'_keys (initStreams cfg).length
    refine ⟨h1, fun k hk => ?_⟩
    rcases h2 k hk with rfl | ⟨i, hi, rfl⟩
    · trivial
    · exact ⟨hi, trivial⟩
  · refine ⟨List.nodup_nil, fun k => ?_⟩
    constructor
    · intro h; cases h
    · rintro ⟨si, id, _, hsi, hin⟩
      obtain ⟨trk, h⟩ := initState_stream cfg si hsi
      rw [h] at hin
      rcases hin with ⟨g, hg, _⟩ | ⟨g, hg, _⟩
      · cases hg
      · cases hg
  · obtain ⟨trk, h⟩ := initState_stream cfg si hsi
    rw [h]; unfold PartSync; split <;> rfl
  · exact initStreams_length cfg
  · obtain ⟨trk, h⟩ := initState_stream cfg i hi
    rw [h]; rfl
  all_goals
    have hli : leadIdx cfg < (initStreams cfg).length := by
      rw [initStreams_length]; unfold leadIdx
      split
      · exact Nat.one_pos
      · exact leadingIdx_lt hne
    obtain ⟨trk, h⟩ := initState_stream cfg i hi
    obtain ⟨trk', h'⟩ := initState_stream cfg (leadIdx cfg) hli
    show _ = _
    simp only [initState] at h h' ⊢
    rw [h, h']
    try rfl

theorem start_inv {cfg0 : Cfg} {st0 : State} (h : start cfg0 = .ok st0) : Inv st0 := by
  obtain ⟨rfl, hne, hc⟩ := start_ok h
  exact initState_inv _ hne hc


/-- every state reachable from an accepted configuration satisfies the invariant -/
theorem reachable_inv {cfg0 : Cfg} {st0 : State} (h : start cfg0 = .ok st0) (ops : List WriteOp) :
    Inv (run st0 ops) ∧ Evolves st0 (run st0 ops) := (start_inv h).run ops

end Hls.Muxer
