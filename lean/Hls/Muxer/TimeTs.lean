import Hls.Muxer.TimePending
/-!
# MPEG-TS: when a segment is cut and what opens it (helper file for C02 / C03)
-/
namespace Hls.Muxer
open Hls.Gen

/-- what `tsVideoPre` / `tsAudioPre` leave behind, given the decision `due` -/
theorem tsPre_result {st : State} (hg : GI st 0) (hv : st.cfg.variant = .mpegts) (nd ntp : Int) :
    (∀ (_ : (st.stream 0).nextSegment = none),
      ((createFirstSegment st nd ntp).stream 0).nextSegment =
        some { id := (st.stream 0).nextSegmentID, startDTS := nd, startNTP := ntp } ∧
      ((createFirstSegment st nd ntp).stream 0).nextSegmentID = (st.stream 0).nextSegmentID) ∧
    (∀ seg, (st.stream 0).nextSegment = some seg →
      ((rotateSegments st nd ntp false).stream 0).nextSegment =
        some { id := (st.stream 0).nextSegmentID + 1, startDTS := nd, startNTP := ntp } ∧
      ((rotateSegments st nd ntp false).stream 0).nextSegmentID = (st.stream 0).nextSegmentID + 1) := by
  refine ⟨fun _ => ?_, fun seg hs => ?_⟩
  · obtain ⟨_, _, hs⟩ := createFirstSegment_spec st nd ntp
    rw [hs 0 hg.lt, hv]
    exact ⟨rfl, rfl⟩
  · obtain ⟨_, _, _, hL, _⟩ := GI_rotateSegments hg nd ntp false
    rw [hL, hv]
    obtain ⟨r, _⟩ := rsS_ts (n := st.cfg.segmentCount) (fpContent st 0) nd ntp false hs
    rw [r.nextSegment, r.nextSegmentID]
    exact ⟨rfl, rfl⟩

/-- after a successful `tsWrite` the open segment has the unit appended and keeps its start -/
theorem tsw_result {st st' : State} (u : TsUnit) (size : Nat) (e : Option Int) (c : Bool) (o : Seg)
    (ho : (st.stream 0).nextSegment = some o) (hl : 0 < st.streams.length)
    (hw : tsWrite st u size e c = (st', .ok)) :
    ∃ o', (st'.stream 0).nextSegment = some o' ∧ o'.startDTS = o.startDTS ∧ o'.startNTP = o.startNTP ∧
      o'.tsUnits = o.tsUnits ++ [u] ∧ o'.id = o.id ∧ (st'.stream 0).nextSegmentID = (st.stream 0).nextSegmentID ∧
      (∀ d, e = some d → o'.endDTS = d) ∧ st'.cfg = st.cfg := by
  obtain ⟨e', _⟩ := tsw_ok st u size e c st' hw
  have hs : st'.streams = st.streams.set 0 (twS (st.stream 0) u size e c) := by rw [e']; rfl
  rw [stream_of_set_same hs hl]
  have hcfg : st'.cfg = st.cfg := by rw [e']; rfl
  cases c <;> cases e <;> simp [twS, ho, hcfg]

/-- **MPEG-TS, H264 leading**: trace of one successful write of an accepted video unit -/
theorem ts_video_write {st : State} (hg : GI st 0) (hv : st.cfg.variant = .mpegts) (op : WriteOp)
    (hcd : (st.tcfg op.track).codec = .h264) (hacc : Accepted st op) (hok : (write st op).2 = .ok) :
    let nd := toDur op.dts (st.tcfg op.track).clockRate
    let sid := (st.stream 0).nextSegmentID
    ∃ o', ((write st op).1.stream 0).nextSegment = some o' ∧ o'.endDTS = nd ∧
      (match (st.stream 0).nextSegment with
       | none => ((write st op).1.stream 0).nextSegmentID = sid ∧
           o'.startDTS = nd ∧ o'.startNTP = op.ntp ∧ o'.tsUnits = [h264Unit st op] ∧ o'.id = sid
       | some seg =>
         if op.ra = true ∧ (nd - seg.startDTS ≥ st.cfg.segmentMinDur ∨ changedOf st op = true) then
           ((write st op).1.stream 0).nextSegmentID = sid + 1 ∧
           o'.startDTS = nd ∧ o'.startNTP = op.ntp ∧ o'.tsUnits = [h264Unit st op] ∧ o'.id = sid + 1
         else
           ((write st op).1.stream 0).nextSegmentID = sid ∧
           o'.startDTS = seg.startDTS ∧ o'.startNTP = seg.startNTP ∧ o'.tsUnits = seg.tsUnits ++ [h264Unit st op]) := by
  intro nd sid
  have hps := paramsStep_fields st op.track op.par op.ra
  rw [write_eq] at hok ⊢
  simp only [hcd] at hok ⊢
  unfold wH264 at hok ⊢
  have hc : ¬ (!op.ra && !op.pic) = true := by
    rcases hacc.2 hcd with h | h <;> simp [h]
  simp only [hc, if_false, Bool.false_eq_true] at hok ⊢
  have hgate : ¬ ((((paramsStep st op.track op.par op.ra).1.track op.track).firstRA = false) ∧ op.ra = false) := by
    rw [hps.firstRA]
    rintro ⟨h1, h2⟩
    rcases hacc.1 with h | h
    · rw [h1] at h; cases h
    · rw [h2] at h; cases h
  rcases wH264Gate_cases st (paramsStep st op.track op.par op.ra).1 op (paramsStep st op.track op.par op.ra).2
    with ⟨hcl, _⟩ | ⟨_, e⟩ | ⟨_, _, _, e⟩
  · exact absurd hcl hgate
  · rw [e] at hok; cases hok
  · rw [e] at hok ⊢
    rw [setTrack_setTrack] at hok ⊢
    -- the state the emit step works on: same configuration and streams as `st`
    generalize hst2 : (paramsStep st op.track op.par op.ra).1.setTrack op.track
      (h264T2 ((paramsStep st op.track op.par op.ra).1.track op.track) op) = st2 at hok ⊢
    have hc2 : st2.cfg = st.cfg := by rw [← hst2]; exact hps.cfg
    have hs2 : st2.streams = st.streams := by rw [← hst2]; exact hps.streams
    have hg2 : GI st2 0 := GI_congr hg hc2 hs2
    have hv2 : st2.cfg.variant = .mpegts := by rw [hc2]; exact hv
    have e0 : st2.stream 0 = st.stream 0 := stream_eq_of_streams hs2 0
    unfold wH264Emit at hok ⊢
    rw [if_pos hv2] at hok ⊢
    simp only at hok ⊢
    obtain ⟨hfirst, hrot⟩ := tsPre_result hg2 hv2 nd op.ntp
    cases hw : tsWrite (tsVideoPre st2 op (paramsStep st op.track op.par op.ra).2 nd) (h264Unit st op)
        (op.sizes.headD 0) (some nd) false with
    | mk st' r =>
      rw [hw] at hok
      simp only at hok
      subst hok
      have hlen : 0 < (tsVideoPre st2 op (paramsStep st op.track op.par op.ra).2 nd).streams.length := by
        have := (Step_tsVideoPre hg2 hv2 op (paramsStep st op.track op.par op.ra).2 nd).len
        rw [this]; exact hg2.lt
      unfold tsVideoPre at hw hlen
      rw [e0] at hw hlen hfirst hrot
      cases hseg : (st.stream 0).nextSegment with
      | none =>
        simp only [hseg] at hw hlen ⊢
        obtain ⟨h1, h2⟩ := hfirst hseg
        obtain ⟨o', a1, a2, a3, a4, a5, a6, a7, _⟩ := tsw_result _ _ _ _ _ h1 hlen hw
        exact ⟨o', a1, a7 nd rfl, by rw [a6, h2], a2, a3, a4, a5⟩
      | some seg =>
        simp only [hseg] at hw hlen ⊢
        have hcond : (op.ra && (decide (nd - seg.startDTS ≥ st2.cfg.segmentMinDur) || (paramsStep st op.track op.par op.ra).2)) = true ↔
            (op.ra = true ∧ (nd - seg.startDTS ≥ st.cfg.segmentMinDur ∨ changedOf st op = true)) := by
          rw [hc2]; unfold changedOf
          simp only [Bool.and_eq_true, Bool.or_eq_true, decide_eq_true_eq]
        by_cases hd : (op.ra && (decide (nd - seg.startDTS ≥ st2.cfg.segmentMinDur) || (paramsStep st op.track op.par op.ra).2)) = true
        · simp only [hd, if_true] at hw hlen
          simp only [if_pos (hcond.1 hd)]
          obtain ⟨h1, h2⟩ := hrot seg hseg
          obtain ⟨o', a1, a2, a3, a4, a5, a6, a7, _⟩ := tsw_result _ _ _ _ _ h1 hlen hw
          exact ⟨o', a1, a7 nd rfl, by rw [a6, h2], a2, a3, a4, a5⟩
        · simp only [hd, if_false, Bool.false_eq_true] at hw hlen
          simp only [if_neg (fun h => hd (hcond.2 h))]
          have h1 : (st2.stream 0).nextSegment = some seg := by rw [e0]; exact hseg
          obtain ⟨o', a1, a2, a3, a4, a5, a6, a7, _⟩ := tsw_result _ _ _ _ _ h1 hlen hw
          exact ⟨o', a1, a7 nd rfl, by rw [a6, e0], a2, a3, a4⟩


/-- **MPEG-TS, audio-only (AAC leading)**: trace of one successful write -/
theorem ts_audio_write {st : State} (hg : GI st 0) (hv : st.cfg.variant = .mpegts) (op : WriteOp)
    (hcd : (st.tcfg op.track).codec = .aac) (hlead : st.isLeadingTrack op.track = true)
    (hok : (write st op).2 = .ok) :
    let nd := toDur op.pts (st.tcfg op.track).clockRate
    let sid := (st.stream 0).nextSegmentID
    ∃ o', ((write st op).1.stream 0).nextSegment = some o' ∧ o'.endDTS = nd ∧
      (match (st.stream 0).nextSegment with
       | none => ((write st op).1.stream 0).nextSegmentID = sid ∧
           o'.startDTS = nd ∧ o'.startNTP = op.ntp ∧ o'.tsUnits = [aacUnit st op] ∧ o'.id = sid
       | some seg =>
         if seg.audioAUCount ≥ mpegtsSegmentMinAUCount ∧ nd - seg.startDTS ≥ st.cfg.segmentMinDur then
           ((write st op).1.stream 0).nextSegmentID = sid + 1 ∧
           o'.startDTS = nd ∧ o'.startNTP = op.ntp ∧ o'.tsUnits = [aacUnit st op] ∧ o'.id = sid + 1
         else
           ((write st op).1.stream 0).nextSegmentID = sid ∧
           o'.startDTS = seg.startDTS ∧ o'.startNTP = seg.startNTP ∧ o'.tsUnits = seg.tsUnits ++ [aacUnit st op]) := by
  intro nd sid
  rw [write_eq] at hok ⊢
  simp only [hcd] at hok ⊢
  unfold wAac at hok ⊢
  simp only [hv, if_true, hlead, Bool.not_true, Bool.false_and, Bool.false_eq_true, if_false] at hok ⊢
  obtain ⟨hfirst, hrot⟩ := tsPre_result hg hv nd op.ntp
  cases hw : tsWrite (tsAudioPre st op nd) (aacUnit st op) (sumSizes op.sizes) (some nd) true with
  | mk st' r =>
    rw [hw] at hok
    simp only at hok
    subst hok
    have hlen : 0 < (tsAudioPre st op nd).streams.length := by
      rw [(Step_tsAudioPre hg hv op nd).len]; exact hg.lt
    unfold tsAudioPre at hw hlen
    simp only [hlead, if_true] at hw hlen
    cases hseg : (st.stream 0).nextSegment with
    | none =>
      simp only [hseg] at hw hlen ⊢
      obtain ⟨h1, h2⟩ := hfirst hseg
      obtain ⟨o', a1, a2, a3, a4, a5, a6, a7, _⟩ := tsw_result _ _ _ _ _ h1 hlen hw
      exact ⟨o', a1, a7 nd rfl, by rw [a6, h2], a2, a3, a4, a5⟩
    | some seg =>
      simp only [hseg] at hw hlen ⊢
      by_cases hd : seg.audioAUCount ≥ mpegtsSegmentMinAUCount ∧ nd - seg.startDTS ≥ st.cfg.segmentMinDur
      · simp only [hd, and_self, if_true] at hw hlen
        simp only [if_pos hd]
        obtain ⟨h1, h2⟩ := hrot seg hseg
        obtain ⟨o', a1, a2, a3, a4, a5, a6, a7, _⟩ := tsw_result _ _ _ _ _ h1 hlen hw
        exact ⟨o', a1, a7 nd rfl, by rw [a6, h2], a2, a3, a4, a5⟩
      · simp only [hd, if_false] at hw hlen
        simp only [if_neg hd]
        obtain ⟨o', a1, a2, a3, a4, a5, a6, a7, _⟩ := tsw_result _ _ _ _ _ hseg hlen hw
        exact ⟨o', a1, a7 nd rfl, a6, a2, a3, a4⟩

end Hls.Muxer
