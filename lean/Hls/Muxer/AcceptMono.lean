import Hls.Muxer.AcceptLead
/-!
# C01 helper lemmas, part 12 (specification level): `accepted` is a subsequence of the written units;
per-track non-decreasing DTS inside a 2^32-tick window make the accepted decode times well spaced.
-/
namespace Hls.Muxer.Accept
open Hls.Muxer

/-- all decode times of track `t` lie within a window of less than 2^32 ticks -/
def Spread (cfg : Cfg) (ops : List WriteOp) (t : Nat) : Bool :=
  let ds := (unitsOn cfg ops t).map (·.dts)
  ds.all fun x => ds.all fun y => decide (y - x < 4294967296)

theorem sub_core (cfg : Cfg) (t k : Nat) (s : Scan) (u : AU) (U : List AU) (h : (s.out ++ s.pend.toList).Sublist U) :
    ((scanCore cfg t k s u).out ++ (scanCore cfg t k s u).pend.toList).Sublist (U ++ if k = t then [u] else []) := by
  have hweak : (s.out ++ s.pend.toList).Sublist (U ++ if k = t then [u] else []) :=
    h.trans (List.sublist_append_left _ _)
  unfold scanCore
  split
  · exact hweak
  · simp only []
    have e1 : (if k = leadOf cfg then { s with leadN := s.leadN + 1 } else s).out = s.out := by split <;> rfl
    have e2 : (if k = leadOf cfg then { s with leadN := s.leadN + 1 } else s).pend = s.pend := by split <;> rfl
    generalize (if k = leadOf cfg then { s with leadN := s.leadN + 1 } else s) = s1 at e1 e2 ⊢
    by_cases hk : k = t
    · subst hk
      simp only [ne_eq, not_true_eq_false, if_false, if_true]
      have hout : s.out.Sublist U := (List.sublist_append_left _ _).trans h
      cases hp : s.pend with
      | none =>
        rw [hp] at h e2
        simp only [e2, e1]
        simpa using List.Sublist.append h (List.Sublist.refl [u])
      | some p =>
        rw [hp] at h e2
        simp only [e2, e1]
        by_cases c : k = leadOf cfg ∨ s1.leadN ≥ 2
        · rw [if_pos c]
          simpa using List.Sublist.append h (List.Sublist.refl [u])
        · rw [if_neg c]
          simpa using List.Sublist.append hout (List.Sublist.refl [u])
    · simp only [hk, ne_eq, not_false_eq_true, if_true, if_false, List.append_nil, e1, e2]
      exact h

theorem sub_unit (cfg : Cfg) (t k : Nat) (s : Scan) (u : AU) (U : List AU) (h : (s.out ++ s.pend.toList).Sublist U) :
    ((scanUnit cfg t k s u).out ++ (scanUnit cfg t k s u).pend.toList).Sublist (U ++ if k = t then [u] else []) := by
  rw [scanUnit_eq]
  split
  · exact h.trans (List.sublist_append_left _ _)
  · apply sub_core
    split <;> exact h

theorem sub_units (cfg : Cfg) (t k : Nat) : ∀ (us : List AU) (s : Scan) (U : List AU),
    (s.out ++ s.pend.toList).Sublist U →
    ((us.foldl (scanUnit cfg t k) s).out ++ (us.foldl (scanUnit cfg t k) s).pend.toList).Sublist
      (U ++ if k = t then us else []) := by
  intro us
  induction us with
  | nil => intro s U h; simpa using h
  | cons u us ih =>
    intro s U h
    have := ih _ _ (sub_unit cfg t k s u U h)
    simp only [List.foldl_cons]
    by_cases hk : k = t
    · simpa [hk] using this
    · simpa [hk] using this

theorem sub_ops (cfg : Cfg) (t : Nat) : ∀ (ops : List WriteOp) (s : Scan) (U : List AU),
    (s.out ++ s.pend.toList).Sublist U →
    ((scan cfg t s ops).out ++ (scan cfg t s ops).pend.toList).Sublist (U ++ unitsOn cfg ops t) := by
  intro ops
  induction ops with
  | nil => intro s U h; simpa [scan, unitsOn] using h
  | cons op ops ih =>
    intro s U h
    have h1 := sub_units cfg t op.track (unitsOf (trackCfg cfg op.track) op) s U h
    have h2 := ih _ _ h1
    simp only [scan, List.foldl_cons, unitsOn, List.flatMap_cons] at h2 ⊢
    rw [← List.append_assoc]
    by_cases hk : op.track = t
    · simpa [hk, scanOp] using h2
    · simpa [hk, scanOp] using h2

/-- the accepted units are a subsequence of the written units -/
theorem accepted_sublist (cfg : Cfg) (ops : List WriteOp) (t : Nat) : (accepted cfg ops t).Sublist (unitsOn cfg ops t) := by
  have := sub_ops cfg t ops {} [] (by simp)
  simpa [accepted] using this

theorem pairwise_of_nondecreasing : ∀ l : List Int, nondecreasing l = true → l.Pairwise (· ≤ ·)
  | [], _ => List.Pairwise.nil
  | [a], _ => List.pairwise_singleton _ a
  | a :: b :: rest, h => by
    simp only [nondecreasing, Bool.and_eq_true, decide_eq_true_eq] at h
    have ih := pairwise_of_nondecreasing (b :: rest) h.2
    refine List.Pairwise.cons ?_ ih
    intro x hx
    rcases List.mem_cons.mp hx with e | e
    · rw [e]; exact h.1
    · have := List.rel_of_pairwise_cons ih e
      omega

theorem gapsOk_of_pairwise : ∀ l : List Int, l.Pairwise (· ≤ ·) →
    (∀ x ∈ l, ∀ y ∈ l, y - x < 4294967296) → gapsOk l = true
  | [], _, _ => rfl
  | [_], _, _ => rfl
  | a :: b :: rest, hp, hb => by
    have hab : a ≤ b := List.rel_of_pairwise_cons hp (by simp)
    have hd : b - a < 4294967296 := hb a (by simp) b (by simp)
    have ih := gapsOk_of_pairwise (b :: rest) (List.Pairwise.of_cons hp)
      (fun x hx y hy => hb x (List.mem_cons_of_mem _ hx) y (List.mem_cons_of_mem _ hy))
    simp [gapsOk, hab, hd, ih]

/-- Non-decreasing written decode times inside a 2^32-tick window give well-spaced accepted decode times. -/
theorem gapsOk_accepted (cfg : Cfg) (ops : List WriteOp) (t : Nat)
    (hm : nondecreasing ((unitsOn cfg ops t).map (·.dts)) = true) (hs : Spread cfg ops t = true) :
    gapsOk ((accepted cfg ops t).map (·.dts)) = true := by
  have hsub : ((accepted cfg ops t).map (·.dts)).Sublist ((unitsOn cfg ops t).map (·.dts)) :=
    (accepted_sublist cfg ops t).map _
  refine gapsOk_of_pairwise _ ((pairwise_of_nondecreasing _ hm).sublist hsub) ?_
  intro x hx y hy
  have hx' := hsub.subset hx
  have hy' := hsub.subset hy
  unfold Spread at hs
  simp only [List.all_eq_true, decide_eq_true_eq] at hs
  exact hs x hx' y hy'

theorem monotone_track (cfg : Cfg) (ops : List WriteOp) (t : Nat) (h : Monotone cfg ops = true) (ht : t < cfg.tracks.length) :
    nondecreasing ((unitsOn cfg ops t).map (·.dts)) = true := by
  unfold Monotone at h
  simp only [List.all_eq_true, List.mem_range] at h
  exact h t ht

theorem dropWhile_head {α} (p : α → Bool) : ∀ (l : List α) (u : α) (us : List α), l.dropWhile p = u :: us → p u = false
  | [], _, _, h => by cases h
  | a :: l, u, us, h => by
    by_cases hp : p a = true
    · rw [List.dropWhile_cons, if_pos hp] at h
      exact dropWhile_head p l u us h
    · rw [List.dropWhile_cons, if_neg hp] at h
      simp only [List.cons.injEq] at h
      rw [← h.1]; simpa using hp

end Hls.Muxer.Accept
