import Hls.Muxer.ReqBase
/-!
# C06 (sequential half) — closed-form observations of the primitive steps in the Low-Latency variant

`createFirstSegmentStream`, `rotatePartsStream`, `rotateSegmentsStream` expressed through `View`s and
path look-ups.  Helper lemmas only.
-/
namespace Hls.Muxer
open Hls.Gen

/-! ## createFirstSegmentStream -/

theorem createFirstSegmentStream_obs (st : State) (si : Nat) (d n : Int) (hv : st.cfg.variant = .ll) :
    let st' := createFirstSegmentStream st si d n
    st'.cfg = st.cfg ∧ st'.paths = st.paths ∧ st'.streams.length = st.streams.length ∧
    (∀ j, j ≠ si → st'.stream j = st.stream j) ∧
    (si < st.streams.length →
      (st'.stream si).view = { (st.stream si).view with
        openSeg := some ((st.stream si).nextSegmentID, []), openPart := some (st.stream si).nextPartID }) := by
  unfold createFirstSegmentStream
  simp only [hv]
  refine ⟨rfl, rfl, by simp [State.setStream], ?_, ?_⟩
  · intro j hj
    exact stream_setStream_ne _ _ _ _ (fun h => hj h.symm)
  · intro hsi
    show ((st.setStream si _).stream si).view = _
    rw [stream_setStream_same _ _ _ hsi]
    rfl

/-! ## rotatePartsStream -/

theorem finalizePart_frame (st : State) (si : Nat) (p : Part) (d : Int) :
    (finalizePart st si p d).1.cfg = st.cfg ∧ (finalizePart st si p d).1.streams = st.streams ∧
    (finalizePart st si p d).1.paths = st.paths ∧ (finalizePart st si p d).2.id = p.id := by
  unfold finalizePart
  simp only
  have := foldl_pres (fun (acc : State × List PartTrack) => acc.1.cfg = st.cfg ∧ acc.1.streams = st.streams ∧ acc.1.paths = st.paths)
    (fun (acc : State × List PartTrack) (ti : Nat × Nat) =>
      let (st, c) := acc
      let t := st.track ti.1
      match t.samples with
      | [] => (st, c)
      | smp => (st.setTrack ti.1 { t with samples := [] }, c ++ [{ id := 1 + ti.2, baseTime := t.startDTS, samples := smp }]))
    ((st.stream si).tracks.zipIdx) (st, []) ⟨rfl, rfl, rfl⟩ (by
      intro b a hb
      obtain ⟨b1, b2⟩ := b
      simp only at hb ⊢
      split <;> simp_all [State.setTrack])
  exact ⟨this.1, this.2.1, this.2.2, trivial⟩

theorem rotatePartsStream_noop (st : State) (si : Nat) (d : Int) (b : Bool)
    (h : (st.stream si).nextPart = none ∨ (st.stream si).nextSegment = none) :
    rotatePartsStream st si d b = st := by
  unfold rotatePartsStream
  simp only
  split
  · rename_i h1 h2
    rcases h with h | h
    · rw [h] at h1; cases h1
    · rw [h] at h2; cases h2
  · rfl

theorem rotatePartsStream_obs (st : State) (si : Nat) (d : Int) (b : Bool) (part : Part) (seg : Seg)
    (hv : st.cfg.variant = .ll) (hsi : si < st.streams.length)
    (h1 : (st.stream si).nextPart = some part) (h2 : (st.stream si).nextSegment = some seg) :
    ∃ part' : Part, part'.id = part.id ∧
      (rotatePartsStream st si d b).cfg = st.cfg ∧
      (rotatePartsStream st si d b).streams.length = st.streams.length ∧
      (∀ j, j ≠ si → (rotatePartsStream st si d b).stream j = st.stream j) ∧
      ((rotatePartsStream st si d b).stream si).view =
        { segments := (st.stream si).segments, nextSegmentID := (st.stream si).nextSegmentID,
          nextPartID := (st.stream si).nextPartID + 1, deleteCount := (st.stream si).deleteCount,
          openSeg := some (seg.id, seg.parts ++ [part']),
          openPart := if b then some ((st.stream si).nextPartID + 1) else none } ∧
      (rotatePartsStream st si d b).paths =
        regPath (regPath st.paths (.part si part.id) (.part part')) (.part si ((st.stream si).nextPartID + 1))
          (.hint si ((st.stream si).nextPartID + 1)) := by
  obtain ⟨hc, hs, hp, hid⟩ := finalizePart_frame st si part d
  have hst : ∀ i, (finalizePart st si part d).1.stream i = st.stream i := stream_congr hs
  have hsi' : si < (finalizePart st si part d).1.streams.length := by rw [hs]; exact hsi
  refine ⟨(finalizePart st si part d).2, hid, ?_⟩
  unfold rotatePartsStream
  simp only [h1, h2, hc, hv, hst, hp, if_true]
  refine ⟨?_, ?_, ?_, ?_, ?_⟩
  · split <;> (try split) <;> (try split) <;> simp [State.setStream, hc]
  · split <;> (try split) <;> (try split) <;> simp [State.setStream, hs]
  · intro j hj
    split <;> (try split) <;> (try split) <;> simp [State.stream, State.setStream, List.getD_eq_getElem?_getD, hj.symm, hs]
  · split <;> (try split) <;> (try split) <;> simp [State.stream, State.setStream, List.getD_eq_getElem?_getD, hsi', StreamSt.view] <;> cases b <;> simp
  · rw [hid]

/-! ## rotateSegmentsStream, decomposed -/

def winAppend (ll : Prop) [Decidable ll] (segs : List Entry) (g : Seg) : List Entry :=
  (if ll ∧ segs.isEmpty then gaps g.duration else segs) ++ [.seg g]

def delStep (cnt si : Nat) (segments : List Entry) (paths : List (PathKey × Handler)) (files : List PathKey) (del : Nat) :
    List Entry × List (PathKey × Handler) × List PathKey × Nat :=
  if segments.length > cnt then
    match segments with
    | .seg old :: rest =>
      let paths := old.parts.foldl (fun ps p => unregPath ps (.part si p.id)) paths
      let paths := unregPath paths (.seg si old.id)
      (rest, paths, files.filter (· ≠ .seg si old.id), del + 1)
    | .gap _ :: rest => (rest, paths, files, del + 1)
    | [] => (segments, paths, files, del)
  else (segments, paths, files, del)

def initStep (st : State) (si : Nat) (s : StreamSt) (seg : Seg) (paths : List (PathKey × Handler)) : List (PathKey × Handler) × Bool :=
  if st.cfg.variant ≠ .mpegts ∧ (!s.initPresent || seg.forced) then
    (regPath paths (.init si) (.init (s.tracks.map fun t => (st.track t).params)), true)
  else (paths, s.initPresent)

def tdStep (s : StreamSt) : StreamSt × Nat :=
  if s.isLeading then
    let td := targetDuration s.segments
    if s.targetDur = 0 then ({ s with targetDur := td }, 0)
    else if td > s.targetDur then ({ s with targetDur := td }, 1)
    else (s, 0)
  else (s, 0)

def rotSegRest (st : State) (si : Nat) (nextDTS nextNTP : Int) (force : Bool) : State :=
  let s := st.stream si
  match s.nextSegment with
  | none => st
  | some seg =>
    let seg := { seg with endDTS := nextDTS }
    let segments := winAppend (st.cfg.variant = .ll) s.segments seg
    let h : Handler := if st.cfg.variant = .mpegts then .segTS seg.tsUnits else .segFMP4 seg.stored
    let r := delStep st.cfg.segmentCount si segments (regPath st.paths (.seg si seg.id) h) st.files s.deleteCount
    let pi := initStep st si s seg r.2.1
    let newSeg : Seg := { id := s.nextSegmentID + 1, startDTS := nextDTS, startNTP := nextNTP,
                          forced := if st.cfg.variant = .mpegts then false else force }
    let nextPart : Option Part :=
      if st.cfg.variant = .mpegts then none else some { id := s.nextPartID, startDTS := nextDTS }
    let s := { s with nextSegmentID := s.nextSegmentID + 1, segments := r.1, deleteCount := r.2.2.2,
                      initPresent := pi.2, nextSegment := some newSeg, nextPart := nextPart }
    let se := tdStep s
    { (st.setStream si se.1) with paths := pi.1, files := r.2.2.1 ++ [.seg si newSeg.id], encErrs := st.encErrs + se.2 }

theorem rotateSegmentsStream_eq (st : State) (si : Nat) (d n : Int) (f : Bool) :
    rotateSegmentsStream st si d n f =
      rotSegRest (if st.cfg.variant ≠ .mpegts then rotatePartsStream st si d false else st) si d n f := rfl

theorem tdStep_view (s : StreamSt) : (tdStep s).1.view = s.view := by
  unfold tdStep
  split
  · simp only
    split
    · rfl
    · split <;> rfl
  · rfl

/-- the window after the delete step -/
theorem delStep_window (cnt si : Nat) (segs : List Entry) (paths : List (PathKey × Handler)) (files : List PathKey) (del : Nat)
    (hne : segs ≠ []) :
    (delStep cnt si segs paths files del).1 = (if segs.length > cnt then segs.tail else segs) ∧
    (delStep cnt si segs paths files del).2.2.2 = (if segs.length > cnt then del + 1 else del) := by
  unfold delStep
  split
  · split
    · exact ⟨rfl, rfl⟩
    · exact ⟨rfl, rfl⟩
    · exact absurd rfl hne
  · exact ⟨rfl, rfl⟩

/-- the parts whose paths the delete step unregisters -/
def droppedParts (cnt : Nat) (segs : List Entry) : List Part :=
  if segs.length > cnt then
    match segs with
    | .seg old :: _ => old.parts
    | _ => []
  else []

theorem droppedParts_mem (cnt : Nat) (segs : List Entry) (p : Part) (h : p ∈ droppedParts cnt segs) :
    ∃ old, .seg old ∈ segs ∧ p ∈ old.parts := by
  unfold droppedParts at h
  split at h
  · split at h
    · rename_i old rest _
      exact ⟨old, List.mem_cons_self, h⟩
    · cases h
  · cases h

theorem delStep_lookup (cnt si : Nat) (segs : List Entry) (paths : List (PathKey × Handler)) (files : List PathKey) (del : Nat)
    (sj id : Nat) :
    lookupPath (delStep cnt si segs paths files del).2.1 (.part sj id) =
      if sj = si ∧ ∃ p ∈ droppedParts cnt segs, p.id = id then none else lookupPath paths (.part sj id) := by
  unfold delStep droppedParts
  split
  · split
    · rename_i old rest _
      simp only
      rw [lookup_unregPath_ne _ _ _ (by simp), lookup_unregParts]
      by_cases h : sj = si ∧ ∃ p ∈ old.parts, p.id = id
      · obtain ⟨rfl, p, hp, rfl⟩ := h
        have : ∃ q ∈ old.parts, PathKey.part sj q.id = PathKey.part sj p.id := ⟨p, hp, rfl⟩
        have h2 : sj = sj ∧ ∃ q ∈ old.parts, q.id = p.id := ⟨rfl, p, hp, rfl⟩
        rw [if_pos this, if_pos h2]
      · have : ¬ ∃ q ∈ old.parts, PathKey.part si q.id = PathKey.part sj id := by
          rintro ⟨q, hq, e⟩
          injection e with e1 e2
          exact h ⟨e1.symm, q, hq, e2⟩
        simp only [this, if_false, h]
    · simp
    · simp
  · simp

theorem rotSegRest_noop (st : State) (si : Nat) (d n : Int) (f : Bool) (h : (st.stream si).nextSegment = none) :
    rotSegRest st si d n f = st := by
  unfold rotSegRest
  simp only [h]

theorem initStep_lookup (st : State) (si : Nat) (s : StreamSt) (seg : Seg) (paths : List (PathKey × Handler)) (sj id : Nat) :
    lookupPath (initStep st si s seg paths).1 (.part sj id) = lookupPath paths (.part sj id) := by
  unfold initStep
  split
  · exact lookup_regPath_ne _ _ _ _ (by simp)
  · rfl

/-- closed form of the second half of `rotateSegmentsStream` (Low-Latency) -/
theorem rotSegRest_obs (st : State) (si : Nat) (d n : Int) (f : Bool) (seg : Seg) (segs1 : List Entry)
    (hv : st.cfg.variant = .ll) (hsi : si < st.streams.length)
    (h2 : (st.stream si).nextSegment = some seg)
    (hsegs : segs1 = winAppend True (st.stream si).segments { seg with endDTS := d }) :
    (rotSegRest st si d n f).cfg = st.cfg ∧ (rotSegRest st si d n f).streams.length = st.streams.length ∧
    (∀ j, j ≠ si → (rotSegRest st si d n f).stream j = st.stream j) ∧
    ((rotSegRest st si d n f).stream si).view =
      { segments := if segs1.length > st.cfg.segmentCount then segs1.tail else segs1,
        nextSegmentID := (st.stream si).nextSegmentID + 1, nextPartID := (st.stream si).nextPartID,
        deleteCount := if segs1.length > st.cfg.segmentCount then (st.stream si).deleteCount + 1 else (st.stream si).deleteCount,
        openSeg := some ((st.stream si).nextSegmentID + 1, []), openPart := some (st.stream si).nextPartID } ∧
    (∀ sj id, lookupPath (rotSegRest st si d n f).paths (.part sj id) =
      if sj = si ∧ ∃ p ∈ droppedParts st.cfg.segmentCount segs1, p.id = id then none
      else lookupPath st.paths (.part sj id)) := by
  have hne : segs1 ≠ [] := by simp [hsegs, winAppend]
  have hst' : ∃ st', st' = rotSegRest st si d n f ∧ rotSegRest st si d n f = st' := ⟨_, rfl, rfl⟩
  obtain ⟨st', hst', hg⟩ := hst'
  rw [hg]
  clear hg
  unfold rotSegRest at hst'
  simp only [h2, hv] at hst'
  rw [← hsegs] at hst'
  obtain ⟨hd1, hd2⟩ := delStep_window st.cfg.segmentCount si segs1
    (regPath st.paths (.seg si seg.id) (if Variant.ll = Variant.mpegts then Handler.segTS seg.tsUnits else Handler.segFMP4 seg.stored))
    st.files (st.stream si).deleteCount hne
  refine ⟨by rw [hst']; rfl, by rw [hst']; simp [State.setStream], ?_, ?_, ?_⟩
  · intro j hj
    rw [hst']
    exact stream_setStream_ne _ _ _ _ (fun h => hj h.symm)
  · rw [hst']
    show ((st.setStream si _).stream si).view = _
    rw [stream_setStream_same _ _ _ hsi, tdStep_view]
    simp only [StreamSt.view, Option.map]
    rw [hd1, hd2]
    simp
  · intro sj id
    rw [hst']
    show lookupPath (initStep _ _ _ _ _).1 _ = _
    rw [initStep_lookup, delStep_lookup, lookup_regPath_ne _ _ _ _ (by simp)]

end Hls.Muxer
