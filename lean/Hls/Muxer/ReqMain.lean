import Hls.Muxer.ReqMono
import Hls.Muxer.ReqPlaylist
/-!
# C06 (sequential half) — the main lemmas behind `Hls/Props/C06.lean`, at the level of the invariant
Helper lemmas only.
-/
namespace Hls.Muxer

theorem WinFrom_get (k : Nat) (l : List Entry) (h : WinFrom k l) (j : Nat) (e : Entry) (he : l[j]? = some e) :
    (∀ d, e = .gap d → k + j < llGapCount) ∧ (∀ g, e = .seg g → g.id = k + j ∧ llGapCount ≤ k + j) := by
  induction l generalizing k j with
  | nil => simp at he
  | cons x r ih =>
    cases j with
    | zero =>
      simp only [List.getElem?_cons_zero, Option.some.injEq] at he
      subst he
      cases x with
      | gap d => exact ⟨fun _ _ => h.1, fun g hg => (by cases hg)⟩
      | seg g => exact ⟨fun d hd => (by cases hd), fun g' hg => (by cases hg; exact ⟨h.1, h.2.1⟩)⟩
    | succ j =>
      simp only [List.getElem?_cons_succ] at he
      have ht := WinFrom_tail k (x :: r) h
      simp only [List.tail_cons] at ht
      have := ih (k + 1) ht j he
      rw [show k + 1 + j = k + (j + 1) by omega] at this
      exact this

theorem entryAt_seg_id (s : StreamSt) (si : Nat) (ps : List (PathKey × Handler)) (hinv : VInv si ps s.view)
    (M : Nat) (g : Seg) (h : s.entryAt M = some (.seg g)) : g.id = M := by
  obtain ⟨hge, _, _⟩ := entryAt_lt_next s si ps hinv M _ h
  unfold StreamSt.entryAt at h
  rw [if_neg (by omega)] at h
  have := ((WinFrom_get _ _ hinv.win _ _ h).2 g rfl).1
  have h1 : s.view.deleteCount = s.deleteCount := rfl
  omega

/-- the decision for a request that names a segment, Low-Latency variant -/
theorem reqDecision_msn (st : State) (si : Nat) (hv : st.cfg.variant = .ll) (m : Nat) (p : Option Nat) (skip : Bool) :
    reqDecision st si (some m) p skip =
      if m > (st.stream si).nextSegmentID + 1 ∨ m < (st.stream si).lowerBound then .bad400
      else if (st.stream si).hasContent .ll &&
          ((p.isSome && (st.stream si).hasPart m (p.getD 0)) || (p.isNone && decide (m < (st.stream si).nextSegmentID)))
        then .respond skip
      else .wait := by
  unfold reqDecision StreamSt.lowerBound
  simp only [hv, true_and, if_true]
  cases skip <;> simp

theorem hasContent_ll (s : StreamSt) : s.hasContent .ll = true ↔ s.segments ≠ [] := by
  unfold StreamSt.hasContent
  simp only [show (Variant.ll = Variant.fmp4) = False by simp, if_false, decide_eq_true_eq]
  constructor
  · intro h he; rw [he] at h; simp at h
  · intro h; exact List.length_pos_iff.mpr h

/-- what a `respond` decision means -/
theorem respond_inv (st : State) (si : Nat) (hv : st.cfg.variant = .ll) (m : Nat) (p : Option Nat) (skip d : Bool)
    (h : reqDecision st si (some m) p skip = .respond d) :
    d = skip ∧ m ≤ (st.stream si).nextSegmentID + 1 ∧ (st.stream si).lowerBound ≤ m ∧ (st.stream si).segments ≠ [] ∧
    ((∃ P, p = some P ∧ (st.stream si).hasPart m P = true) ∨ (p = none ∧ m < (st.stream si).nextSegmentID)) := by
  rw [reqDecision_msn st si hv] at h
  split at h
  · cases h
  · rename_i hr
    split at h
    · rename_i hc
      simp only [ReqDecision.respond.injEq] at h
      simp only [Bool.and_eq_true, Bool.or_eq_true, decide_eq_true_eq] at hc
      refine ⟨h.symm, by omega, by omega, (hasContent_ll _).mp hc.1, ?_⟩
      rcases hc.2 with ⟨h1, h2⟩ | ⟨h1, h2⟩
      · cases p with
        | none => simp at h1
        | some P => exact .inl ⟨P, rfl, h2⟩
      · cases p with
        | none => exact .inr ⟨rfl, h2⟩
        | some P => simp at h1
    · cases h

/-- `MEDIA-SEQUENCE`, `SKIPPED-SEGMENTS` and the number of itemised entries of the served playlist -/
theorem ll_cover (st : State) (si : Nat) (delta : Bool) (hv : st.cfg.variant = .ll) :
    (mediaPlaylist st si delta).mediaSeq = (st.stream si).deleteCount ∧
    (mediaPlaylist st si delta).skipped.getD 0 = (if delta then skipCount (st.stream si) else 0) ∧
    (mediaPlaylist st si delta).skipped.getD 0 + (mediaPlaylist st si delta).segments.length = (st.stream si).segments.length := by
  have hk := skipCount_le (st.stream si)
  refine ⟨by rw [mediaPlaylist_ll st si delta hv], ?_, ?_⟩
  · rw [mediaPlaylist_ll st si delta hv]; cases delta <;> rfl
  · rw [ll_segments_length st si delta hv, mediaPlaylist_ll st si delta hv]
    cases delta <;> simp <;> omega

theorem entryAt_get (s : StreamSt) (M : Nat) (h : s.deleteCount ≤ M) : s.entryAt M = s.segments[M - s.deleteCount]? := by
  unfold StreamSt.entryAt; rw [if_neg (by omega)]

/-- a `respond` decision without `_HLS_part`: the served playlist covers the complete segment -/
theorem respond_containsSeg (st : State) (si : Nat) (hinv : Inv st) (hsi : si < st.streams.length)
    (h64 : (st.stream si).nextSegmentID < two64) (M : Nat) (skip d : Bool)
    (h : reqDecision st si (some M) none skip = .respond d) :
    d = skip ∧ containsSeg si (st.stream si) (mediaPlaylist st si d) M := by
  have hv := hinv.ll
  have hvi := hinv.streams si hsi
  obtain ⟨hd, _, hlow, hne, hp⟩ := respond_inv st si hv M none skip d h
  rcases hp with ⟨P, hP, _⟩ | ⟨_, hlt⟩
  · cases hP
  rw [lowerBound_eq _ si st.paths hvi hne h64] at hlow
  have hlen : (st.stream si).deleteCount + (st.stream si).segments.length = (st.stream si).nextSegmentID := hvi.len hne
  obtain ⟨c1, c2, c3⟩ := ll_cover st si d hv
  have hget := entryAt_get (st.stream si) M (by omega)
  have hidx : M - (st.stream si).deleteCount < (st.stream si).segments.length := by omega
  refine ⟨hd, (st.stream si).segments[M - (st.stream si).deleteCount], ?_, by omega, by omega, ?_⟩
  · rw [hget, List.getElem?_eq_getElem hidx]
  · intro j q hj hq
    rw [ll_segments_get st si d hv j, ← c2] at hq
    have hjj : (mediaPlaylist st si d).skipped.getD 0 + j = M - (st.stream si).deleteCount := by omega
    rw [hjj, List.getElem?_eq_getElem hidx] at hq
    simp only [Option.map_some, Option.some.injEq] at hq
    cases he : (st.stream si).segments[M - (st.stream si).deleteCount] with
    | gap g0 =>
      rw [he] at hq; subst hq; exact ⟨rfl, rfl⟩
    | seg g =>
      rw [he] at hq; subst hq
      have : (st.stream si).entryAt M = some (.seg g) := by rw [hget, List.getElem?_eq_getElem hidx, he]
      have hid := entryAt_seg_id _ si st.paths hvi M g this
      exact ⟨rfl, by simp only [plSegLL]; rw [hid]⟩

/-- a published (normalised) part is in the served playlist -/
theorem published_containsPart (st : State) (si : Nat) (hinv : Inv st) (hsi : si < st.streams.length)
    (d : Bool) (M P : Nat) (h : (st.stream si).published M P) :
    containsPart si (st.stream si) (mediaPlaylist st si d) M P := by
  have hv := hinv.ll
  have hvi := hinv.streams si hsi
  rcases h with ⟨hM, hP⟩ | ⟨e, he, hP⟩
  · left
    refine ⟨hM, ?_⟩
    unfold StreamSt.openPartCount at hP
    cases hg : (st.stream si).nextSegment with
    | none => rw [hg] at hP; simp at hP
    | some g =>
      rw [hg] at hP
      simp only at hP
      refine ⟨g, g.parts[P], rfl, List.getElem?_eq_getElem hP, ?_⟩
      rw [mediaPlaylist_ll st si d hv]
      simp only [hg, List.getElem?_map, List.getElem?_eq_getElem hP, Option.map_some]
  · right
    cases e with
    | gap g0 => simp [Entry.partCount] at hP
    | seg g =>
      simp only [Entry.partCount] at hP
      obtain ⟨hge, hlt, hne⟩ := entryAt_lt_next _ si st.paths hvi M _ he
      have hlen : (st.stream si).deleteCount + (st.stream si).segments.length = (st.stream si).nextSegmentID := hvi.len hne
      obtain ⟨c1, c2, c3⟩ := ll_cover st si d hv
      have hget := entryAt_get (st.stream si) M hge
      have hid := entryAt_seg_id _ si st.paths hvi M g he
      refine ⟨g, g.parts[P], he, List.getElem?_eq_getElem hP, by omega, by omega, ?_⟩
      intro j q hj hq
      rw [ll_segments_get st si d hv j, ← c2] at hq
      have hjj : (mediaPlaylist st si d).skipped.getD 0 + j = M - (st.stream si).deleteCount := by omega
      rw [hjj, ← hget, he] at hq
      simp only [Option.map_some, Option.some.injEq] at hq
      subst hq
      refine ⟨by simp only [plSegLL]; rw [hid], ?_⟩
      simp only [plSegLL]
      by_cases h2 : (st.stream si).nextSegmentID ≤ M + 2
      · have : (st.stream si).segments.length - (M - (st.stream si).deleteCount) ≤ 2 := by omega
        rw [if_pos h2, if_pos this]
        simp only [List.getElem?_map, List.getElem?_eq_getElem hP, Option.map_some]
      · have : ¬ (st.stream si).segments.length - (M - (st.stream si).deleteCount) ≤ 2 := by omega
        rw [if_neg h2, if_neg this]

/-- a `respond` decision with `_HLS_part`: the normalised part is published and in the served playlist -/
theorem respond_containsPart (st : State) (si : Nat) (hinv : Inv st) (hsi : si < st.streams.length)
    (h64 : (st.stream si).nextSegmentID < two64) (M P : Nat) (skip d : Bool)
    (h : reqDecision st si (some M) (some P) skip = .respond d) :
    d = skip ∧ (st.stream si).published ((st.stream si).normalise M P).1 ((st.stream si).normalise M P).2 ∧
    containsPart si (st.stream si) (mediaPlaylist st si d) ((st.stream si).normalise M P).1 ((st.stream si).normalise M P).2 := by
  have hv := hinv.ll
  have hvi := hinv.streams si hsi
  obtain ⟨hd, _, hlow, hne, hp⟩ := respond_inv st si hv M (some P) skip d h
  rcases hp with ⟨P', hP', hhp⟩ | ⟨hn, _⟩
  · cases hP'
    rw [lowerBound_eq _ si st.paths hvi hne h64] at hlow
    have hpub := (hasPart_iff _ si st.paths hvi hne M P (by omega)).mp hhp
    exact ⟨hd, hpub, published_containsPart st si hinv hsi d _ _ hpub⟩
  · cases hn

/-! ## 400 -/

theorem bad400_iff (st : State) (si : Nat) (hv : st.cfg.variant = .ll) (msn part : Option Nat) (skip : Bool) :
    reqDecision st si msn part skip = .bad400 ↔
      (msn = none ∧ part.isSome) ∨
      (∃ M, msn = some M ∧ (M > (st.stream si).nextSegmentID + 1 ∨ M < (st.stream si).lowerBound)) := by
  cases msn with
  | none =>
    cases part with
    | none =>
      unfold reqDecision
      simp only [hv, if_true]
      constructor
      · intro h; split at h <;> cases h
      · rintro (⟨_, h⟩ | ⟨M, h, _⟩)
        · cases h
        · cases h
    | some P =>
      unfold reqDecision
      simp [hv]
  | some M =>
    rw [reqDecision_msn st si hv]
    constructor
    · intro h
      split at h
      · rename_i hc; exact .inr ⟨M, rfl, hc⟩
      · split at h <;> cases h
    · rintro (⟨h, _⟩ | ⟨M', hM, hc⟩)
      · cases h
      · cases hM; rw [if_pos hc]

theorem not_bad400_open (st : State) (si : Nat) (hinv : Inv st) (hsi : si < st.streams.length)
    (h64 : (st.stream si).nextSegmentID < two64) (hc : (st.stream si).segments ≠ []) (M : Nat)
    (hM : M = (st.stream si).nextSegmentID ∨ M = (st.stream si).nextSegmentID + 1) (part : Option Nat) (skip : Bool) :
    reqDecision st si (some M) part skip ≠ .bad400 := by
  intro h
  have hvi := hinv.streams si hsi
  rcases (bad400_iff st si hinv.ll (some M) part skip).mp h with ⟨h0, _⟩ | ⟨M', hM', hr⟩
  · cases h0
  · cases hM'
    rw [lowerBound_eq _ si st.paths hvi hc h64] at hr
    have hlen : (st.stream si).deleteCount + (st.stream si).segments.length = (st.stream si).nextSegmentID := hvi.len hc
    have : 0 < (st.stream si).segments.length := List.length_pos_iff.mpr hc
    omega

/-! ## wait -/

theorem wait_inv (st : State) (si : Nat) (hv : st.cfg.variant = .ll) (m : Nat) (p : Option Nat) (skip : Bool)
    (hc : (st.stream si).segments ≠ [])
    (h : reqDecision st si (some m) p skip = .wait) :
    m ≤ (st.stream si).nextSegmentID + 1 ∧ (st.stream si).lowerBound ≤ m ∧
    (∀ P, p = some P → (st.stream si).hasPart m P = false) ∧ (p = none → (st.stream si).nextSegmentID ≤ m) := by
  rw [reqDecision_msn st si hv] at h
  split at h
  · cases h
  · rename_i hr
    split at h
    · cases h
    · rename_i hcnd
      have hcont := (hasContent_ll _).mpr hc
      simp only [hcont, Bool.true_and, Bool.or_eq_true, Bool.and_eq_true, decide_eq_true_eq, not_or, not_and] at hcnd
      refine ⟨by omega, by omega, ?_, ?_⟩
      · intro P hP; subst hP
        have := hcnd.1 rfl
        simpa using this
      · intro hn; subst hn
        have := hcnd.2 rfl
        omega

theorem wait_unpublished (st : State) (si : Nat) (hinv : Inv st) (hsi : si < st.streams.length)
    (h64 : (st.stream si).nextSegmentID < two64) (hc : (st.stream si).segments ≠ [])
    (M : Nat) (part : Option Nat) (skip : Bool)
    (h : reqDecision st si (some M) part skip = .wait) :
    match part with
    | none => ¬ (st.stream si).listed M
    | some P => ¬ (st.stream si).published ((st.stream si).normalise M P).1 ((st.stream si).normalise M P).2 := by
  have hvi := hinv.streams si hsi
  obtain ⟨_, hlow, hP, hN⟩ := wait_inv st si hinv.ll M part skip hc h
  rw [lowerBound_eq _ si st.paths hvi hc h64] at hlow
  cases part with
  | none =>
    simp only
    intro hl
    unfold StreamSt.listed at hl
    rw [entryAt_next_none _ si st.paths hvi M (hN rfl)] at hl
    cases hl
  | some P =>
    simp only
    intro hpub
    have := (hasPart_iff _ si st.paths hvi hc M P (by omega)).mpr hpub
    rw [hP P rfl] at this
    cases this

/-! ## monotone -/

theorem reqDecision_of_view (a b : State) (si : Nat) (hv : a.cfg.variant = b.cfg.variant)
    (hview : (a.stream si).view = (b.stream si).view) (msn part : Option Nat) (skip : Bool) :
    reqDecision a si msn part skip = reqDecision b si msn part skip := by
  have hseg : (a.stream si).segments = (b.stream si).segments := congrArg View.segments hview
  have hn : (a.stream si).nextSegmentID = (b.stream si).nextSegmentID := congrArg View.nextSegmentID hview
  have hhp : ∀ m p, (a.stream si).hasPart m p = (b.stream si).hasPart m p := hasPart_of_view hview
  unfold reqDecision StreamSt.hasContent
  simp only [hv, hseg, hn, hhp]

theorem respond_stays (a b : State) (hab : Steps a b) (ha : InvU a) (si : Nat) (hsi : si < a.streams.length)
    (h64 : (b.stream si).nextSegmentID < two64) (M : Nat) (part : Option Nat) (skip d : Bool)
    (h : reqDecision a si (some M) part skip = .respond d) :
    reqDecision b si (some M) part skip = .respond d ∨ reqDecision b si (some M) part skip = .bad400 := by
  have hb := steps_inv hab ha
  have hlen := (steps_len hab ha).1
  have hsib : si < b.streams.length := by rw [hlen]; exact hsi
  have hva := ha.inv.streams si hsi
  have hvb := hb.streams si hsib
  have mono := steps_mono hab ha si hsi
  obtain ⟨hd, hup, hlow, hne, hp⟩ := respond_inv a si ha.inv.ll M part skip d h
  have hneb : (b.stream si).segments ≠ [] := mono.content hne
  have hnext : (a.stream si).nextSegmentID ≤ (b.stream si).nextSegmentID := mono.next
  rw [reqDecision_msn b si hb.ll]
  by_cases hr : M > (b.stream si).nextSegmentID + 1 ∨ M < (b.stream si).lowerBound
  · right; rw [if_pos hr]
  · left
    rw [if_neg hr, hd]
    rw [lowerBound_eq _ si b.paths hvb hneb h64] at hr
    have hcont := (hasContent_ll _).mpr hneb
    rcases hp with ⟨P, hP, hhp⟩ | ⟨hn, hlt⟩
    · subst hP
      rw [hasPart_eq_view] at hhp
      rcases mono.hp M P hhp with hexp | hhb
      · have : (b.stream si).view.deleteCount = (b.stream si).deleteCount := rfl
        omega
      · rw [← hasPart_eq_view] at hhb
        simp [hcont, hhb]
    · subst hn
      have : M < (b.stream si).nextSegmentID := by omega
      simp [hcont, this]

/-! ## preload hint -/

theorem get_part_cases (st : State) (si : Nat) (hinv : Inv st) (hsi : si < st.streams.length) (id : Nat) :
    (get st (.part si id) = .none ∧ lookupPath st.paths (.part si id) = none) ∨
    (∃ p, p.id = id ∧ id < (st.stream si).nextPartID ∧ get st (.part si id) = .part p ∧
      lookupPath st.paths (.part si id) = some (.part p)) ∨
    (id = (st.stream si).nextPartID ∧ get st (.part si id) = .hintWait ∧
      lookupPath st.paths (.part si id) = some (.hint si id)) := by
  have hvi := hinv.streams si hsi
  cases hl : lookupPath st.paths (.part si id) with
  | none => left; exact ⟨by unfold get; rw [hl], rfl⟩
  | some h =>
    right
    rcases hvi.reg id h hl with ⟨hlt, p, hp, hpid⟩ | ⟨he, hh⟩
    · left; subst hp
      exact ⟨p, hpid, hlt, by unfold get; rw [hl], rfl⟩
    · right; subst hh
      refine ⟨he, ?_, rfl⟩
      unfold get; rw [hl]
      simp only
      have : ¬ (st.stream si).nextPartID > id := by
        have : (st.stream si).view.nextPartID = (st.stream si).nextPartID := rfl
        omega
      rw [if_neg this]

theorem hint_waits (st : State) (si : Nat) (hinv : Inv st) (hsi : si < st.streams.length)
    (hc : (st.stream si).segments ≠ []) :
    get st (.part si (st.stream si).nextPartID) = .hintWait := by
  have hvi := hinv.streams si hsi
  have hN := hvi.started hc
  have hl := hvi.hint hN
  unfold get
  have : lookupPath st.paths (PathKey.part si (st.stream si).nextPartID) = some (.hint si (st.stream si).nextPartID) := hl
  rw [this]
  simp

/-! ## delta updates -/

theorem cumDur_cons (e : Entry) (l : List Entry) : cumDur (e :: l) = e.duration + cumDur l := by
  simp [cumDur]

/-- `shownCount` is the length of the longest prefix all of whose non-empty prefixes stay below the boundary -/
theorem shownCount_spec (l : List Entry) (cur b : Int) :
    (∀ j, 1 ≤ j → j ≤ shownCount l cur b → cur + cumDur (l.take j) < b) ∧
    (shownCount l cur b < l.length → b ≤ cur + cumDur (l.take (shownCount l cur b + 1))) := by
  induction l generalizing cur with
  | nil => exact ⟨fun j h1 h2 => by simp [shownCount] at h2; omega, fun h => by simp [shownCount] at h⟩
  | cons e r ih =>
    unfold shownCount
    simp only
    split
    · rename_i hge
      refine ⟨fun j h1 h2 => by omega, fun _ => ?_⟩
      simp only [Nat.zero_add, List.take_succ_cons, List.take_zero, cumDur_cons]
      simp only [cumDur, List.map_nil, List.sum_nil]
      omega
    · rename_i hlt
      obtain ⟨ih1, ih2⟩ := ih (cur + e.duration)
      refine ⟨fun j h1 h2 => ?_, fun h => ?_⟩
      · cases j with
        | zero => omega
        | succ j =>
          simp only [List.take_succ_cons, cumDur_cons]
          cases j with
          | zero => simp only [List.take_zero, cumDur, List.map_nil, List.sum_nil]; omega
          | succ j =>
            have := ih1 (j + 1) (by omega) (by omega)
            omega
      · simp only [List.length_cons] at h
        have := ih2 (by omega)
        rw [show 1 + shownCount r (cur + e.duration) b + 1 = (shownCount r (cur + e.duration) b + 1) + 1 by omega]
        simp only [List.take_succ_cons, cumDur_cons]
        omega

/-- a delta update against the full playlist of the same state -/
theorem delta_vs_full (st : State) (si : Nat) (hv : st.cfg.variant = .ll) :
    let s := st.stream si
    let full := mediaPlaylist st si false
    let dl := mediaPlaylist st si true
    let k := skipCount s
    dl.skipped = some k ∧ full.skipped = none ∧ dl.map = none ∧ full.map = some (.init si) ∧
    k + dl.segments.length = full.segments.length ∧ dl.segments = full.segments.drop k ∧
    dl.version = full.version ∧ dl.allowCacheNo = full.allowCacheNo ∧ dl.targetDur = full.targetDur ∧
    dl.mediaSeq = full.mediaSeq ∧ dl.serverControl = full.serverControl ∧ dl.partInf = full.partInf ∧
    dl.parts = full.parts ∧ dl.hint = full.hint := by
  intro s full dl k
  have hk := skipCount_le (st.stream si)
  have hf : full = _ := mediaPlaylist_ll st si false hv
  have hd : dl = _ := mediaPlaylist_ll st si true hv
  rw [hf, hd]
  simp only [if_true, if_false, Bool.false_eq_true, List.drop_zero, List.length_map, List.length_drop,
    List.length_zipIdx, List.map_drop, true_and, and_true]
  refine ⟨rfl, ?_, rfl⟩
  show skipCount (st.stream si) + ((st.stream si).segments.length - skipCount (st.stream si)) = (st.stream si).segments.length
  omega

end Hls.Muxer
