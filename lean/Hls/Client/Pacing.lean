import Hls.Gen.TimeConv
/-!
# Real-time pacing of `clientTrack.handleData` (client_track.go)

Hand-written model of the pacing block over the REGENERATED conditions `handleDataPaceWaits`,
`handleDataPaceDiff`, `handleDataPaceTooBig` (`Hls/Gen/TimeConv.lean`); the statement-level shape of the block
(diff; cap test returning an error; a `select` that sleeps exactly `diff` or returns on cancellation) is pinned by
`handleDataPaceSleepsDiff`, `handleDataPaceCancelArm` and by the source hash of `clientTrack.handleData`.

The wall clock is a parameter: a call of `handleData` for the k-th unit of a track observes
`elapsed = time.Since(startRTC)`; between two calls of the same track the clock advances by an arbitrary
non-negative amount (`gap`), and a sleep of `diff` lasts `diff + over` with an arbitrary `over ≥ 0`
(timers never fire early). All quantities in nanoseconds.
-/
namespace Hls.Client.Pacing
open Hls.Gen.TimeConv

/-- outcome of the pacing block for one unit -/
inductive Pace where
  | now                 -- `dtsDuration ≤ elapsed`: delivered at once
  | sleep (ns : Int)    -- `select { case <-time.After(ns): … }`
  | tooBig              -- `return fmt.Errorf("difference between DTS and RTC is too big")`
  deriving DecidableEq, Repr

/-- the pacing block of `clientTrack.handleData` -/
def pace (dtsDuration elapsed : Int) : Pace :=
  if handleDataPaceWaits dtsDuration elapsed then
    let diff := handleDataPaceDiff dtsDuration elapsed
    if handleDataPaceTooBig diff then .tooBig else .sleep diff
  else .now

/-- one unit as the wall clock sees it: its DTS as a duration, the time that passed since the previous call of the
    same track returned (`gap`), and by how much a timer overshoots (`over`) -/
structure Arrival where
  dur  : Int
  gap  : Int
  over : Int

/-- delivery instants (relative to `startRTC`) of the units handed to `handleData` one after the other, starting
    with the clock at `t`; `none` = the cap fired (the client ends with an error) -/
def run (t : Int) : List Arrival → Option (List Int)
  | [] => some []
  | a :: rest =>
    let e := t + a.gap
    match pace a.dur e with
    | .tooBig => none
    | .now => (run e rest).map (e :: ·)
    | .sleep d => (run (e + d + a.over) rest).map ((e + d + a.over) :: ·)

/-- the clock is monotone and timers never fire early -/
def Clocked (as : List Arrival) : Prop := ∀ a ∈ as, 0 ≤ a.gap ∧ 0 ≤ a.over

/-- consecutive units of the track are at most `clientMaxDTSRTCDiff` of media time apart, the first one at most
    that far from `d0` -/
def GapsBelowCap : Int → List Arrival → Prop
  | _, [] => True
  | d0, a :: rest => a.dur - d0 ≤ clientMaxDTSRTCDiff ∧ GapsBelowCap a.dur rest

end Hls.Client.Pacing
