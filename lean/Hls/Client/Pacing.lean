import Hls.Gen.TimeConv
/-!
# Real-time pacing of `clientTrack.handleData` (client_track.go)

Hand-written model of the pacing block over the REGENERATED conditions `handleDataPaceWaits`,
`handleDataPaceDiff`, `handleDataPaceTooBig` (`Hls/Gen/TimeConv.lean`); the statement-level shape of the block
(diff; cap test returning an error; a `select` that sleeps exactly `diff` or returns on cancellation) is pinned by
`handleDataPaceSleepsDiff`, `handleDataPaceCancelArm` and by the source hash of `clientTrack.handleData`.

The wall clock is a parameter: a call of `handleData` for the k-th unit of a track observes
`elapsed = time.Since(startRTC)`; between two calls of the same track the clock advances by an arbitrary
non-negative amount (`gap`), and a sleep of `diff` lasts `diff + over` with an arbitrary `over ≥ 0`
(timers never fire early). All quantities in nanoseconds.
-/
namespace Hls.Client.Pacing
open Hls.Gen.TimeConv

/-- outcome of the pacing block for one unit -/
inductive Pace where
  | now                 -- `dtsDuration ≤ elapsed`: delivered at once
  | sleep (ns : Int)    -- `select { case <-time.After(ns): … }`
  | tooBig              -- `return fmt.Errorf("difference between DTS and RTC is too big")`
  deriving DecidableEq, Repr

/-- the pacing block of `clientTrack.handleData` -/
def pace (dtsDuration elapsed : Int) : Pace :=
  if handleDataPaceWaits dtsDuration elapsed then
    let diff := handleDataPaceDiff dtsDuration elapsed
    if handleDataPaceTooBig diff then .tooBig else .sleep diff
  else .now

/-- one unit as the wall clock sees it: its DTS as a duration, the time that passed since the previous call of the
    same track returned (`gap`), and by how much a timer overshoots (`over`) -/
structure Arrival where
  dur  : Int
  gap  : Int
  over : Int

/-- delivery instants (relative to `startRTC`) of the units handed to `handleData` one after the other, starting
    with the clock at `t`; `none` = the cap fired (the client ends with an error) -/
def run (t : Int) : List Arrival → Option (List Int)
  | [] => some []
  | a :: rest =>
    let e := t + a.gap
    match pace a.dur e with
    | .tooBig => none
    | .now => (run e rest).map (e :: ·)
    | .sleep d => (run (e + d + a.over) rest).map ((e + d + a.over) :: ·)

/-- the clock is monotone and timers never fire early -/
def Clocked (as : List Arrival) : Prop := ∀ a ∈ as, 0 ≤ a.gap ∧ 0 ≤ a.over

/-- consecutive units of the track are at most `clientMaxDTSRTCDiff` of media time apart, the first one at most
    that far from `d0` -/
def GapsBelowCap : Int → List Arrival → Prop
  | _, [] => True
  | d0, a :: rest => a.dur - d0 ≤ clientMaxDTSRTCDiff ∧ GapsBelowCap a.dur rest

theorem pace_now {d e : Int} (h : d ≤ e) : pace d e = .now := by
  unfold pace handleDataPaceWaits
  simp only [gt_iff_lt, decide_eq_true_eq]
  rw [if_neg (by omega)]

theorem pace_sleep {d e : Int} (h : e < d) (hc : d - e ≤ clientMaxDTSRTCDiff) : pace d e = .sleep (d - e) := by
  unfold pace handleDataPaceWaits handleDataPaceDiff handleDataPaceTooBig
  unfold clientMaxDTSRTCDiff at hc
  simp only [gt_iff_lt, decide_eq_true_eq]
  rw [if_pos h, if_neg (by omega)]

theorem pace_tooBig {d e : Int} (hc : clientMaxDTSRTCDiff < d - e) : pace d e = .tooBig := by
  unfold pace handleDataPaceWaits handleDataPaceDiff handleDataPaceTooBig
  unfold clientMaxDTSRTCDiff at hc
  simp only [gt_iff_lt, decide_eq_true_eq]
  rw [if_pos (by omega), if_pos (by omega)]

/-- the cap fires exactly when the unit is more than 10 s ahead of the clock -/
theorem pace_tooBig_iff (d e : Int) : pace d e = .tooBig ↔ clientMaxDTSRTCDiff < d - e := by
  constructor
  · intro h
    by_cases h1 : d ≤ e
    · rw [pace_now h1] at h; cases h
    · by_cases h2 : d - e ≤ clientMaxDTSRTCDiff
      · rw [pace_sleep (by omega) h2] at h; cases h
      · omega
  · exact pace_tooBig

/-- main invariant: started at a clock `t` that is not behind the previous unit's DTS (`d0 ≤ t`), a track whose
    consecutive DTS are at most the cap apart is never stopped by the cap, whatever the scheduling delays and timer
    overshoots; every unit is delivered at or after its DTS, deliveries are in order, and a unit that arrives early
    is delivered exactly `over` after its DTS. -/
theorem run_spec (as : List Arrival) : ∀ (t d0 : Int), d0 ≤ t → Clocked as → GapsBelowCap d0 as →
    ∃ ts, run t as = some ts ∧ ts.length = as.length ∧
      (∀ i (h : i < as.length) (h' : i < ts.length), as[i].dur ≤ ts[i]) ∧
      (∀ x ∈ ts, t ≤ x) ∧ ts.Pairwise (· ≤ ·) := by
  induction as with
  | nil => intro t d0 _ _ _; exact ⟨[], rfl, rfl, by simp, by simp, List.Pairwise.nil⟩
  | cons a rest ih =>
    intro t d0 ht hc hg
    have ha := hc a (List.mem_cons_self)
    have hcr : Clocked rest := fun x hx => hc x (List.mem_cons_of_mem _ hx)
    obtain ⟨hg1, hg2⟩ := hg
    by_cases h1 : a.dur ≤ t + a.gap
    · obtain ⟨ts, hr, hl, hd, hlo, hp⟩ := ih (t + a.gap) a.dur h1 hcr hg2
      refine ⟨(t + a.gap) :: ts, ?_, by simp [hl], ?_, ?_, ?_⟩
      · simp only [run, pace_now h1, hr, Option.map_some]
      · intro i h h'
        cases i with
        | zero => simpa using h1
        | succ j => simpa using hd j (by simpa using h) (by simpa using h')
      · intro x hx
        rcases List.mem_cons.mp hx with rfl | hx
        · omega
        · have := hlo x hx; omega
      · exact List.Pairwise.cons (fun x hx => hlo x hx) hp
    · have h2 : a.dur - (t + a.gap) ≤ clientMaxDTSRTCDiff := by omega
      have h3 : a.dur ≤ t + a.gap + (a.dur - (t + a.gap)) + a.over := by omega
      obtain ⟨ts, hr, hl, hd, hlo, hp⟩ := ih (t + a.gap + (a.dur - (t + a.gap)) + a.over) a.dur h3 hcr hg2
      refine ⟨(t + a.gap + (a.dur - (t + a.gap)) + a.over) :: ts, ?_, by simp [hl], ?_, ?_, ?_⟩
      · simp only [run, pace_sleep (by omega : t + a.gap < a.dur) h2, hr, Option.map_some]
      · intro i h h'
        cases i with
        | zero => simpa using h3
        | succ j => simpa using hd j (by simpa using h) (by simpa using h')
      · intro x hx
        rcases List.mem_cons.mp hx with rfl | hx
        · omega
        · have := hlo x hx; omega
      · exact List.Pairwise.cons (fun x hx => hlo x hx) hp

/-- conversely: a unit that is more than the cap ahead of the clock when it arrives ends the run, however regular
    everything before was (this is why the T2 cases keep media time short) -/
theorem run_cap_fires (t : Int) (a : Arrival) (rest : List Arrival)
    (h : clientMaxDTSRTCDiff < a.dur - (t + a.gap)) : run t (a :: rest) = none := by
  simp only [run, pace_tooBig h]

/-- an ideal clock (no scheduling delay beyond the media itself, exact timers) delivers every unit that is ahead of
    the clock exactly at its DTS -/
theorem run_exact (t : Int) (a : Arrival) (h : t + a.gap < a.dur) (hc : a.dur - (t + a.gap) ≤ clientMaxDTSRTCDiff)
    (ho : a.over = 0) : run t [a] = some [a.dur] := by
  simp only [run, pace_sleep h hc, ho, Option.map_some]
  congr 2; omega

end Hls.Client.Pacing
