import Hls.Gen.Arith
import Hls.Gen.TimeConv
/-!
# Client time conversion (property C10; divide-by-zero outcome of candidate F9)

Model of `client_time_conv_fmp4.go`, `client_time_conv_mpegts.go` and of
mediacommon's `mpegts.TimeDecoder`. All arithmetic is the **regenerated**
`Hls.Gen.TimeConv` / `Hls.Gen.Arith` code; this file only adds what the Go
methods do around it (state of the NTP anchor, the `ntpAvailable` test) and makes
Go's run-time panics explicit:

* `time.Time` is an `Int` number of nanoseconds since the Unix epoch, `Add d = + d`;
* a Go integer division by zero is the outcome `Panic.divByZero`
  (decided by the regenerated `*_defined` predicates);
* the blocking of `getNTP` on `chLeadingNTPReceived` and the mutexes are not modelled
  (pacing / scheduling are outside C10; see C12, C20).
-/
namespace Hls.Client.TimeConv
open Hls.Gen Hls.Gen.TimeConv

/-- Run-time panics of the Go code that the model makes explicit. -/
inductive Panic where
  | divByZero          -- integer divide by zero
  | nilDeref           -- call of a nil func value / nil pointer dereference
  | indexOutOfRange
  deriving DecidableEq, Repr

/-! ## fMP4 : `clientTimeConvFMP4` -/

structure FMP4Conv where
  leadingTimeScale : Int
  leadingBaseTime  : Int
  ntpAvailable : Bool := false
  ntpValue     : Int := 0
  ntpTimestamp : Int := 0
  ntpClockRate : Int := 0
  deriving Repr, DecidableEq

/-- `clientTimeConvFMP4.convert` -/
def FMP4Conv.convert (c : FMP4Conv) (v clockRate : Int) : Except Panic Int :=
  if fmp4Convert_defined c.leadingTimeScale c.leadingBaseTime v clockRate then
    .ok (fmp4Convert c.leadingTimeScale c.leadingBaseTime v clockRate)
  else .error .divByZero

/-- `clientTimeConvFMP4.setNTP` -/
def FMP4Conv.setNTP (c : FMP4Conv) (value timestamp clockRate : Int) : FMP4Conv :=
  { c with ntpAvailable := true, ntpValue := value, ntpTimestamp := timestamp, ntpClockRate := clockRate }

/-- `clientTimeConvFMP4.getNTP` (after `chLeadingNTPReceived`): `none` = Go `nil`. -/
def FMP4Conv.getNTP (c : FMP4Conv) (timestamp clockRate : Int) : Except Panic (Option Int) :=
  if !c.ntpAvailable then .ok none
  else if fmp4NtpOffset_defined c.ntpTimestamp c.ntpClockRate timestamp clockRate then
    .ok (some (c.ntpValue + fmp4NtpOffset c.ntpTimestamp c.ntpClockRate timestamp clockRate))
  else .error .divByZero

/-! ## mediacommon `mpegts.TimeDecoder` -/

structure TimeDecoder where
  initialized : Bool := false
  prev    : Int := 0
  overall : Int := 0
  deriving Repr, DecidableEq

/-- `TimeDecoder.Decode` — the regenerated state-passing translation, repackaged. -/
def TimeDecoder.decode (d : TimeDecoder) (ts : Int) : Int × TimeDecoder :=
  let r := timeDecoderDecode d.initialized d.prev d.overall ts
  (r.1, { initialized := r.2.1, prev := r.2.2.1, overall := r.2.2.2 })

/-- successive `Decode` calls on one decoder -/
def TimeDecoder.decodeAll : TimeDecoder → List Int → List Int × TimeDecoder
  | d, [] => ([], d)
  | d, t :: ts =>
    let (v, d1) := d.decode t
    let (vs, d2) := TimeDecoder.decodeAll d1 ts
    (v :: vs, d2)

/-! ## MPEG-TS : `clientTimeConvMPEGTS` -/

structure TSConv where
  startDTS : Int
  td : TimeDecoder := {}
  ntpAvailable : Bool := false
  ntpValue     : Int := 0
  ntpTimestamp : Int := 0
  deriving Repr, DecidableEq

/-- `clientTimeConvMPEGTS.initialize`: fresh decoder, `td.Decode(startDTS)` -/
def TSConv.init (startDTS : Int) : TSConv :=
  { startDTS := startDTS, td := (({} : TimeDecoder).decode startDTS).2 }

/-- `clientTimeConvMPEGTS.convert` -/
def TSConv.convert (c : TSConv) (v : Int) : Int × TSConv :=
  let (r, td) := c.td.decode v
  (r, { c with td := td })

/-- `clientTimeConvMPEGTS.setNTP` -/
def TSConv.setNTP (c : TSConv) (value timestamp : Int) : TSConv :=
  { c with ntpAvailable := true, ntpValue := value, ntpTimestamp := timestamp }

/-- `clientTimeConvMPEGTS.getNTP` (after `chLeadingNTPReceived`) -/
def TSConv.getNTP (c : TSConv) (timestamp : Int) : Except Panic (Option Int) :=
  if !c.ntpAvailable then .ok none
  else if mpegtsNtpOffset_defined c.ntpTimestamp timestamp then
    .ok (some (c.ntpValue + mpegtsNtpOffset c.ntpTimestamp timestamp))
  else .error .divByZero

end Hls.Client.TimeConv
