import Hls.Gen.Select
/-!
# Client segment selection and download loops (property C11)

Executable model of `client_stream_downloader.go`, written statement by statement:

* `selectNextF` / `selectNext`  — `fillSegmentQueue` up to (and excluding) the download,
  using the index arithmetic REGENERATED from the Go source (`Hls.Gen.Select`);
* `segRange` / `hintRange`      — the `Range` header of `downloadSegment` / `downloadPreloadHint`;
* `runTraditional`, `runLowLatency`, `runStream` — the download loops as folds over a playlist
  HISTORY: the list of playlist views the server returns at successive polls of one stream.
  The result is the ordered request log of the stream and how the loop ends.

What is abstracted (DESIGN §2): URIs are opaque strings (resolution against the playlist URL is
`net/url`, trusted, exercised by T2); payloads and the segment queue / processors are not part of
this model (`waitUntilSizeIsBelow` is a pacing step that only delays the next poll); a failing
HTTP exchange is represented by the history running out (the scripted server answers 404).
Every Go slice indexing / pointer dereference that could panic is an explicit `panic` outcome.
-/
namespace Hls.Client.Select
open Hls.Gen.Select

/-- EXT-X-PLAYLIST-TYPE -/
inductive PlType | none | event | vod
  deriving DecidableEq, Repr, Inhabited

/-- a media segment as far as the downloader looks at it -/
structure Seg where
  uri     : String
  brStart : Option Int := none   -- EXT-X-BYTERANGE  n@START
  brLen   : Option Int := none   -- EXT-X-BYTERANGE  LENGTH
  deriving DecidableEq, Repr, Inhabited

/-- EXT-X-MAP -/
structure MapTag where
  uri     : String
  brStart : Option Int := none
  brLen   : Option Int := none
  deriving DecidableEq, Repr, Inhabited

/-- EXT-X-PRELOAD-HINT (`ByteRangeStart` is not a pointer in the Go struct) -/
structure Hint where
  uri     : String
  brStart : Int := 0
  brLen   : Option Int := none
  deriving DecidableEq, Repr, Inhabited

/-- EXT-X-SERVER-CONTROL -/
structure ServerControl where
  canBlockReload : Bool := false
  canSkipUntil   : Bool := false     -- `CanSkipUntil != nil`
  deriving DecidableEq, Repr, Inhabited

/-- one playlist as returned by the server at one poll -/
structure PlaylistView where
  msn     : Int                        -- EXT-X-MEDIA-SEQUENCE
  segs    : List Seg
  endlist : Bool := false
  ptype   : PlType := .none
  map     : Option MapTag := none
  serverControl : Option ServerControl := none
  hint    : Option Hint := none
  deriving Repr, Inhabited

/-- errors of `fillSegmentQueue` before the download (the `fmt.Errorf` texts), plus explicit panics -/
inductive SelErr
  | noSegments      -- "no segments found"
  | notEnough       -- "there aren't enough segments to fill the buffer"
  | nextNotFound    -- "next segment not found or not ready yet"
  | tooLate         -- "playback is too late"
  | panic           -- index out of range
  deriving DecidableEq, Repr, Inhabited

/-- what `fillSegmentQueue` decided to download -/
structure Selection where
  id   : Int        -- new `*d.curSegmentID`
  idx  : Int        -- index of `seg` in `pl.Segments`
  seg  : Seg
  last : Bool       -- `pl.Endlist && pl.Segments[len-1] == seg` ⇒ nil sentinel is pushed afterwards
  deriving DecidableEq, Repr, Inhabited

/-- Go `s[i]` with `i : int`: a panic when out of range -/
def segAt (segs : List Seg) (i : Int) : Except SelErr Seg :=
  if i < 0 then .error .panic
  else match segs[i.toNat]? with
    | some s => .ok s
    | none => .error .panic

/-- `fillSegmentQueue` (client_stream_downloader.go) up to the download.
    `first` = `d.firstPlaylist`, `cur` = `d.curSegmentID`, `pl` = the playlist just fetched. -/
def selectNextF (first : PlaylistView) (cur : Option Int) (pl : PlaylistView) : Except SelErr Selection := do
  let n : Int := pl.segs.length
  -- (index of seg in pl.Segments, seg, segPos)
  let (idx, seg, segPos) ←
    (match cur with
    | none =>
      if first.ptype = .vod then
        -- VOD stream: start from the beginning
        if n = 0 then .error .noSegments
        else do
          let s ← segAt pl.segs 0
          pure ((0 : Int), s, (0 : Int))
      else
        -- live stream: start from clientLiveInitialDistance
        match findSegmentWithInvPosition n startInvPos with
        | none => .error .notEnough
        | some (i, pos) => do
          let s ← segAt pl.segs i
          pure (i, s, pos)
    | some c =>
      match findSegmentWithID pl.msn n (wantedID c) with
      | none => .error .nextNotFound
      | some (i, pos, invPos) => do
        let s ← segAt pl.segs i
        if tooLate pl.endlist invPos then .error .tooLate
        else pure (i, s, pos)
      : Except SelErr (Int × Seg × Int))
  let id := newCurID pl.msn segPos
  -- pl.Endlist && pl.Segments[len(pl.Segments)-1] == seg   (pointer comparison = index comparison)
  if pl.endlist then do
    let _ ← segAt pl.segs (lastIndex n)
    pure { id := id, idx := idx, seg := seg, last := decide (lastIndex n = idx) }
  else
    pure { id := id, idx := idx, seg := seg, last := false }

/-- `fillSegmentQueue` when the playlist being looked at is the first one (the only situation in
    which `cur = none` occurs, see `runTraditional`) — and in general for `cur = some _`, where
    `d.firstPlaylist` is not consulted (`selectNextF_some`). -/
def selectNext (cur : Option Int) (pl : PlaylistView) : Except SelErr Selection :=
  selectNextF pl cur pl

/-! ### request builder -/

def u64 (x : Int) : Int := x % 18446744073709551616

/-- `Range: bytes=first-last` as the pair (first, last); `none` = no header.
    `downloadSegment(uri, start, length)` -/
def segRange (start length : Option Int) : Option (Int × Int) :=
  match length with
  | none => none
  | some l =>
    let s := match start with
      | some s => s
      | none => segRangeDefaultStart
    some (u64 (segRangeFirst s l), u64 (segRangeLast s l))

/-- `downloadPreloadHint` -/
def hintRange (h : Hint) : Option (Int × Int) :=
  match h.brLen with
  | none => none
  | some l => some (u64 (hintRangeFirst h.brStart l), u64 (hintRangeLast h.brStart l))

def rangeText (pre sep : String) : Option (Int × Int) → String
  | none => "-"
  | some (a, b) => pre ++ toString a ++ sep ++ toString b

inductive ReqKind | playlist | init | segment | hint
  deriving DecidableEq, Repr, Inhabited

/-- one HTTP request of a stream downloader -/
structure Req where
  kind  : ReqKind
  uri   : String := ""                  -- as written in the playlist ("" = the playlist URL itself)
  range : Option (Int × Int) := none    -- Range header
  skip  : Bool := false                 -- `_HLS_skip=YES` appended to the query
  id    : Option Int := none            -- media sequence number (segment fetches)
  deriving DecidableEq, Repr, Inhabited

def plReq (skip : Bool) : Req := { kind := .playlist, skip := skip }
def segReq (s : Selection) : Req :=
  { kind := .segment, uri := s.seg.uri, range := segRange s.seg.brStart s.seg.brLen, id := some s.id }
def initReq (m : MapTag) : Req := { kind := .init, uri := m.uri, range := segRange m.brStart m.brLen }
def hintReq (h : Hint) : Req := { kind := .hint, uri := h.uri, range := hintRange h }

/-- how a stream downloader ends -/
inductive Outcome
  | eos                      -- nil sentinel pushed; downloader parks on the context
  | sel (e : SelErr)         -- `fillSegmentQueue` error
  | playlistFetch            -- `downloadPlaylist` failed (history exhausted: the server answers 404)
  | hintDisappeared          -- "preload hint disappeared"
  | panic                    -- nil dereference
  deriving DecidableEq, Repr, Inhabited

/-- `runTraditional`: `pl` is the playlist in hand, `rest` what later polls will return.
    One iteration = fillSegmentQueue (selection, segment download, push, maybe sentinel);
    waitUntilSizeIsBelow (pacing only); downloadPlaylist(false). -/
def tradLoop (first : PlaylistView) : Option Int → PlaylistView → List PlaylistView → List Req × Outcome
  | cur, pl, rest =>
    match selectNextF first cur pl with
    | .error e => ([], .sel e)
    | .ok s =>
      if s.last then ([segReq s], .eos)
      else
        match rest with
        | [] => ([segReq s, plReq false], .playlistFetch)
        | pl' :: rest' =>
          let (log, out) := tradLoop first (some s.id) pl' rest'
          (segReq s :: plReq false :: log, out)

def runTraditional (first : PlaylistView) (rest : List PlaylistView) : List Req × Outcome :=
  tradLoop first none first rest

/-- `runLowLatency`; `skip` = `d.firstPlaylist.ServerControl.CanSkipUntil != nil` -/
def llLoop (skip : Bool) : PlaylistView → List PlaylistView → List Req × Outcome
  | pl, rest =>
    match pl.hint with
    | none => ([], .panic)          -- `preloadHint.URI` on a nil hint
    | some h =>
      match rest with
      | [] => ([hintReq h, plReq skip], .playlistFetch)
      | pl' :: rest' =>
        match pl'.hint with
        | none =>
          -- `if pl.PreloadHint == nil { if <llEndOfStream> { push(nil); <-ctx.Done() }; return "preload hint disappeared" }`
          -- (fix-F28: the regenerated condition is `pl.Endlist`; upstream it was `false`)
          ([hintReq h, plReq skip], if llEndOfStream pl'.endlist then .eos else .hintDisappeared)
        | some _ =>
          let (log, out) := llLoop skip pl' rest'
          (hintReq h :: plReq skip :: log, out)

def runLowLatency (first : PlaylistView) (rest : List PlaylistView) : List Req × Outcome :=
  match first.serverControl with
  | none => ([], .panic)            -- `d.firstPlaylist.ServerControl.CanSkipUntil` on nil
  | some sc => llLoop sc.canSkipUntil first rest

/-- the condition under which `run` chooses the Low-Latency loop -/
def isLowLatency (first : PlaylistView) : Bool :=
  match first.serverControl with
  | none => false
  | some sc => sc.canBlockReload && first.hint.isSome

/-- `clientStreamDownloader.run`: first playlist (fetched by the primary downloader when the
    client URI is a media playlist, by the stream itself otherwise — the same request either way),
    init file when EXT-X-MAP is present, then one of the two loops. -/
def runStream (hist : List PlaylistView) : List Req × Outcome :=
  match hist with
  | [] => ([plReq false], .playlistFetch)
  | first :: rest =>
    let initReqs := match first.map with
      | some m => if m.uri ≠ "" then [initReq m] else []
      | none => []
    let (log, out) := if isLowLatency first then runLowLatency first rest else runTraditional first rest
    (plReq false :: initReqs ++ log, out)

/-- `clientPrimaryDownloader.run` after the streams started: `ErrClientEOS` once EVERY stream ended;
    an error of any stream ends the client with that error (first in stream order, for definiteness). -/
inductive ClientOutcome | eos | err (o : Outcome)
  deriving DecidableEq, Repr, Inhabited

def clientOutcome (outs : List Outcome) : ClientOutcome :=
  match outs.find? (· ≠ .eos) with
  | none => .eos
  | some o => .err o


/-! ### several streams of one client under the scripted test origin

The T2 origin (go/cmd/corr/select_server.go) serves every stream freely up to its second playlist
request, holds that request at a gate, and then lets the streams run to completion one at a time,
highest index first. `held = true` marks a stream whose exhausted history makes the origin never
answer (instead of answering 404): its last playlist request stays pending. -/

/-- prefix of a log up to and including the `n`-th playlist request -/
def uptoPlaylist : Nat → List Req → List Req
  | _, [] => []
  | n, r :: rs =>
    if r.kind = .playlist then
      match n with
      | 0 => [r]
      | n + 1 => r :: uptoPlaylist n rs
    else r :: uptoPlaylist n rs

/-- does this stream end the client with an error? (`playlistFetch` on a held stream = pending) -/
def endsClient (held : Bool) (o : Outcome) : Bool :=
  match o with
  | .eos => false
  | .playlistFetch => !held
  | _ => true

/-- logs and final outcome of a multi-stream client under the origin's schedule.
    Input: per stream (held, full log, outcome), in stream order. `none` = no result (pending). -/
def schedule (streams : List (Bool × List Req × Outcome)) : List (List Req) × Option ClientOutcome :=
  -- streams complete in the order last … first; the first one (in that order) that errs ends the client
  let rec go : List (Bool × List Req × Outcome) → List (List Req) × Option Outcome × Bool
    -- returns logs (stream order), the ending error if any, and whether all streams ended with eos
    | [] => ([], none, true)
    | (held, log, out) :: rest =>
      let (logs, err, allEos) := go rest
      match err with
      | some e => (uptoPlaylist 1 log :: logs, some e, false)
      | none =>
        if endsClient held out then (log :: logs, some out, false)
        else (log :: logs, none, allEos && decide (out = .eos))
  let (logs, err, allEos) := go streams
  match err with
  | some e => (logs, some (.err e))
  | none => (logs, if allEos then some .eos else none)

/-- ids of the segment fetches of a log, in order -/
def segIds (log : List Req) : List Int := log.filterMap fun r => if r.kind = .segment then r.id else none

end Hls.Client.Select
