import Hls.Client.TimeConv
import Hls.Gen.Robust
/-!
# Client sample processing (property C10; explicit panic outcomes for candidates F8 / F9 of C13)

Model of what the client does with *decoded* container values:

* `clientTrack.handleData`                        → `handleData`   (the `pts < 0` filter; pacing abstracted)
* `clientTrackProcessorFMP4.process`              → `processLoop` / `processEntry`
* `clientStreamProcessorFMP4.run` (prefix)        → `FStream.start`
* `clientStreamProcessorFMP4.processSegment`      → `FStream.processSegment`
* the `processSample` closure of
  `clientStreamProcessorMPEGTS.initializeReader`  → `tsProcessSample`
* `clientStreamProcessorMPEGTS.processSegment`    → `tsProcessSegment`

Payload bytes are opaque ids (`Nat`). Container decoding (mediacommon) is outside
the model: an fMP4 segment is a list of parts, a part a list of part-tracks
`(id, baseTime, samples)`; an MPEG-TS segment is the list of `(track, rawPTS,
rawDTS, payload)` in the order in which mediacommon's reader calls back.

Every Go operation of this code that can panic is an explicit outcome:
nil `decodePayload` (F8), integer division by a zero time scale (F9),
`init.Tracks[0]` on an empty init.
The control flow mirrored here is pinned by `Hls.Gen.TimeConv.pins`.
-/
namespace Hls.Client.Process
open Hls.Gen.TimeConv Hls.Client.TimeConv

inductive Err where
  | panic (p : Panic)
  | noLeadingData          -- "could not find data of leading track"
  | renditionMultiTrack    -- "rendition playlists with multiple tracks are not supported"
  | tooManyTracks          -- "too many tracks per stream"
  | noSupportedTracks      -- "no supported tracks found"
  | zeroTimeScale          -- (only with the repair of F9)
  | waitLeading            -- would block in waitLeadingTimeConv (leading stream has produced no origin yet)
  deriving DecidableEq, Repr

structure Sample where
  payload   : Nat
  duration  : Int
  ptsOffset : Int
  deriving Repr, DecidableEq

/-- one `onData` call (+ the `AbsoluteTime` visible during it) -/
structure Delivery where
  track   : Nat
  payload : Nat
  pts     : Int
  dts     : Int
  ntp     : Option Int
  deriving Repr, DecidableEq

/-- `clientTrack` as far as processing needs it -/
structure TrackInfo where
  idx       : Nat          -- position in the list handed to OnTracks
  clockRate : Int
  decodable : Bool := true -- false: `decodePayload == nil`
  deriving Repr, DecidableEq

def liftP {α} : Except Panic α → Except Err α
  | .ok a => .ok a
  | .error p => .error (.panic p)

/-! ## `clientTrack.handleData` (pacing abstracted) -/

def handleData (tr : TrackInfo) (pts dts : Int) (ntp : Option Int) (payload : Nat) : Except Panic (List Delivery) :=
  if handleDataDiscard pts dts then .ok []
  else if handleDataDtsDuration_defined pts dts tr.clockRate then
    .ok [{ track := tr.idx, payload := payload, pts := pts, dts := dts, ntp := ntp }]
  else .error .divByZero

/-! ## `clientTrackProcessorFMP4.process` -/

/-- per-sample NTP: `entry.ntp.Add(timestampToDuration(dts-entry.dts, ClockRate))` when `entry.ntp != nil` -/
def sampleNtp (tr : TrackInfo) (entryDts : Int) (entryNtp : Option Int) (dts : Int) (s : Sample) : Except Panic (Option Int) :=
  match entryNtp with
  | none => .ok none
  | some n =>
    if fmp4SampleNtpOffset_defined dts entryDts s.ptsOffset s.duration tr.clockRate then
      .ok (some (n + fmp4SampleNtpOffset dts entryDts s.ptsOffset s.duration tr.clockRate))
    else .error .divByZero

/-- the `for _, sample := range entry.partTrack.Samples` loop; `dts` is the running value -/
def processLoop (tr : TrackInfo) (entryDts : Int) (entryNtp : Option Int) : Int → List Sample → Except Panic (List Delivery)
  | _, [] => .ok []
  | dts, s :: rest =>
    if !tr.decodable then .error .nilDeref
    else
      let pts := fmp4SamplePts dts entryDts s.ptsOffset s.duration tr.clockRate
      match sampleNtp tr entryDts entryNtp dts s with
      | .error p => .error p
      | .ok ntp =>
        match handleData tr pts dts ntp s.payload with
        | .error p => .error p
        | .ok d =>
          match processLoop tr entryDts entryNtp (fmp4NextDts dts entryDts s.ptsOffset s.duration tr.clockRate) rest with
          | .error p => .error p
          | .ok ds => .ok (d ++ ds)

def processEntry (tr : TrackInfo) (entryDts : Int) (entryNtp : Option Int) (samples : List Sample) : Except Panic (List Delivery) :=
  processLoop tr entryDts entryNtp (fmp4ProcessInitialDts entryDts) samples

/-! ## fMP4 stream processor -/

structure InitTrack where
  id        : Int
  timeScale : Int
  kind      : String      -- name of the mediacommon `fmp4.Codec*` type without the prefix, e.g. "H264", "MPEG1Audio"
  isVideo   : Bool
  deriving Repr, DecidableEq

structure PartTrack where
  id       : Int
  baseTime : Int
  samples  : List Sample
  deriving Repr, DecidableEq

structure Segment where
  dateTime : Option Int            -- EXT-X-PROGRAM-DATE-TIME, ns since the epoch
  parts    : List (List PartTrack)
  deriving Repr

/-- `codecs.FromFMP4(track.Codec) != nil` -/
def kindKnown (k : String) : Bool := fromFMP4Kinds.contains k
/-- `decodePayload != nil` after `clientTrackProcessorFMP4.initialize` -/
def kindDecodable (k : String) : Bool := fromFMP4Kinds.contains k && fmp4DecodableKinds.contains k

structure FStream where
  isLeading : Bool
  firstIdx  : Nat                  -- position of the stream's first track in the OnTracks list
  init      : List InitTrack       -- p.init.Tracks
  leadingTrackID : Int
  procs : Option (List (Int × TrackInfo)) := none   -- p.trackProcessors (nil before the first segment)
  deriving Repr, DecidableEq

/-- `fmp4PickLeadingTrack` -/
def pickLeading (init : List InitTrack) : Except Err Int :=
  match init.find? (·.isVideo) with
  | some t => .ok t.id
  | none =>
    match init with
    | t :: _ => .ok t.id
    | [] => .error (.panic .indexOutOfRange)

/-- `p.init.Tracks` as used by the rest of `run`: all init tracks, or (repair of F8) those with a known codec -/
def effInit (init0 : List InitTrack) : List InitTrack :=
  if fmp4SkipsUnsupportedTracks then init0.filter (fun t => kindKnown t.kind) else init0

/-- the rest of `run` up to `setTracks`, on the effective track list: (repair of F8) no supported track left,
    `fmp4PickLeadingTrack`, the `clientMaxTracksPerStream` bound -/
def FStream.startChecks (isLeading : Bool) (firstIdx : Nat) (init : List InitTrack) : Except Err FStream :=
  if (fmp4SkipsUnsupportedTracks && init.isEmpty) = true then .error .noSupportedTracks
  else
    match pickLeading init with
    | .error e => .error e
    | .ok lid =>
      if (init.length : Int) > clientMaxTracksPerStream then .error .tooManyTracks
      else .ok { isLeading := isLeading, firstIdx := firstIdx, init := init, leadingTrackID := lid }

/-- prefix of `clientStreamProcessorFMP4.run` up to `setTracks`, in source order: (repair of F9) zero time scale,
    the one-track rule for renditions, (repair of F8) the filter, then `startChecks` -/
def FStream.start (isLeading : Bool) (firstIdx : Nat) (init0 : List InitTrack) : Except Err FStream :=
  if (fmp4RejectsZeroTimeScale && init0.any (·.timeScale == 0)) = true then .error .zeroTimeScale
  else if (!isLeading && init0.length != 1) = true then .error .renditionMultiTrack
  else FStream.startChecks isLeading firstIdx (effInit init0)

/-- the tracks the stream hands to `setTracks` / `OnTracks`, in order -/
def trackInfos (firstIdx : Nat) : List InitTrack → List TrackInfo
  | [] => []
  | t :: rest => { idx := firstIdx, clockRate := t.timeScale, decodable := kindDecodable t.kind } :: trackInfos (firstIdx + 1) rest

def FStream.tracks (s : FStream) : List TrackInfo := trackInfos s.firstIdx s.init

/-- `p.trackProcessors[p.init.Tracks[i].ID] = trackProc` for i = 0…: a later equal id overrides an earlier one,
    so the association list is built in reverse and read with `List.lookup` (first match). -/
def buildProcs (firstIdx : Nat) (init : List InitTrack) : List (Int × TrackInfo) :=
  ((init.map (·.id)).zip (trackInfos firstIdx init)).reverse

/-- `findFirstPartTrackOfLeadingTrack` -/
def findFirstPT (parts : List (List PartTrack)) (id : Int) : Option PartTrack :=
  parts.flatten.find? (·.id = id)

/-- `findTimeScaleOfLeadingTrack` -/
def findTimeScale (init : List InitTrack) (id : Int) : Int :=
  match init.find? (·.id = id) with
  | some t => t.timeScale
  | none => 0

/-- inner double loop of `processSegment`, part-tracks in container order -/
def processPartTracks (procs : List (Int × TrackInfo)) (conv : FMP4Conv) : List PartTrack → Except Err (List Delivery)
  | [] => .ok []
  | pt :: rest =>
    match procs.lookup pt.id with
    | none => processPartTracks procs conv rest
    | some tr =>
      match conv.convert pt.baseTime tr.clockRate with
      | .error p => .error (.panic p)
      | .ok dts =>
        match conv.getNTP dts tr.clockRate with
        | .error p => .error (.panic p)
        | .ok ntp =>
          match processEntry tr dts ntp pt.samples with
          | .error p => .error (.panic p)
          | .ok ds =>
            match processPartTracks procs conv rest with
            | .error e => .error e
            | .ok ds' => .ok (ds ++ ds')

/-- the NTP anchor update of the leading stream:
    `if seg.dateTime != nil { dts := convert(leadingPartTrack.BaseTime, rate); setNTP(*seg.dateTime, dts, rate) }` -/
def anchor (procs : List (Int × TrackInfo)) (conv : FMP4Conv) (dateTime : Option Int) (leadingPT : PartTrack) :
    Except Err FMP4Conv :=
  match dateTime with
  | none => .ok conv
  | some t =>
    match procs.lookup leadingPT.id with
    | none => .error (.panic .nilDeref)   -- `p.trackProcessors[leadingPartTrack.ID]` absent (cannot happen: the id comes from the init)
    | some tr =>
      match conv.convert leadingPT.baseTime tr.clockRate with
      | .error p => .error (.panic p)
      | .ok dts => .ok (conv.setNTP t dts tr.clockRate)

/-- `initializeTrackProcessors` (first segment only) followed by nothing else: returns the processors map and the
    client's leading time converter as seen by this stream afterwards. -/
def FStream.ensureProcs (s : FStream) (conv : Option FMP4Conv) (leadingPT : PartTrack) :
    Except Err (List (Int × TrackInfo) × FMP4Conv) :=
  match s.procs with
  | some procs =>
    match conv with
    | some c => .ok (procs, c)
    | none => .error .waitLeading
  | none =>
    if s.isLeading then
      .ok (buildProcs s.firstIdx s.init,
           { leadingTimeScale := findTimeScale s.init s.leadingTrackID, leadingBaseTime := leadingPT.baseTime })
    else
      match conv with
      | some c => .ok (buildProcs s.firstIdx s.init, c)
      | none => .error .waitLeading

/-- `clientStreamProcessorFMP4.processSegment` for a non-nil segment. `conv` is `Client.leadingTimeConv`. -/
def FStream.processSegment (s : FStream) (conv : Option FMP4Conv) (seg : Segment) :
    Except Err (FStream × Option FMP4Conv × List Delivery) :=
  match findFirstPT seg.parts s.leadingTrackID with
  | none =>
    -- repair of F15 (when the source has it: regenerated flags of `Hls.Gen.Robust`): a segment in which no part-track has a
    -- sample is skipped, nothing is touched. Outside `WF` streams (every segment carries leading-track data); property C13.
    if (Hls.Gen.Robust.fmp4SkipsEmptySegments && (Hls.Gen.Robust.fmp4SkipsEmptyLeadingToo || !s.isLeading) &&
        (!Hls.Gen.Robust.fmp4SkipNeedsFragment || !seg.parts.isEmpty) &&
        seg.parts.flatten.all (fun pt => pt.samples.isEmpty)) = true then .ok (s, conv, [])
    else .error .noLeadingData
  | some lpt =>
    match s.ensureProcs conv lpt with
    | .error e => .error e
    | .ok (procs, c0) =>
      match (if s.isLeading then anchor procs c0 seg.dateTime lpt else .ok c0) with
      | .error e => .error e
      | .ok c1 =>
        match processPartTracks procs c1 seg.parts.flatten with
        | .error e => .error e
        | .ok ds => .ok ({ s with procs := some procs }, some c1, ds)

/-- all segments of one stream, in order -/
def FStream.processSegments (s : FStream) (conv : Option FMP4Conv) :
    List Segment → Except Err (FStream × Option FMP4Conv × List Delivery)
  | [] => .ok (s, conv, [])
  | seg :: rest =>
    match s.processSegment conv seg with
    | .error e => .error e
    | .ok (s1, c1, ds) =>
      match FStream.processSegments s1 c1 rest with
      | .error e => .error e
      | .ok (s2, c2, ds') => .ok (s2, c2, ds ++ ds')

/-! ## MPEG-TS stream processor -/

structure TSSample where
  track   : Nat      -- index among the stream's supported tracks
  pts     : Int      -- raw 33-bit value
  dts     : Int      -- raw 33-bit value (= pts for audio)
  payload : Nat
  deriving Repr, DecidableEq

structure TSSegment where
  dateTime : Option Int
  samples  : List TSSample     -- in reader call-back order
  deriving Repr

/-- fields of `clientStreamProcessorMPEGTS` that `processSample` reads and writes (plus the client's converter) -/
structure TSState where
  conv : Option TSConv                 -- Client.leadingTimeConv
  procsReady : Bool := false           -- p.trackProcessors != nil
  leadingTrackFound : Bool := false
  dateTimeProcessed : Bool := false
  deriving Repr

structure TStream where
  isLeading  : Bool
  firstIdx   : Nat
  leadingIdx : Nat        -- mpegtsPickLeadingTrack: first H264 among the supported tracks, else 0
  deriving Repr

def tsTrack (s : TStream) (i : Nat) : TrackInfo :=
  { idx := s.firstIdx + i, clockRate := mpegtsTrackClockRate }

/-- the `processSample` closure -/
def tsProcessSample (s : TStream) (dateTime : Option Int) (st : TSState) (x : TSSample) :
    Except Err (TSState × List Delivery) :=
  let isLeadingTrack := x.track == s.leadingIdx
  -- if isLeadingTrack { leadingTrackFound = true; if trackProcessors == nil { initializeTrackProcessors(rawDTS) } }
  let st1 : Except Err TSState :=
    if isLeadingTrack then
      let st := { st with leadingTrackFound := true }
      if st.procsReady then .ok st
      else if s.isLeading then .ok { st with conv := some (TSConv.init x.dts), procsReady := true }
      else match st.conv with
        | some _ => .ok { st with procsReady := true }
        | none => .error .waitLeading
    else .ok st
  match st1 with
  | .error e => .error e
  | .ok st =>
    -- trackProc = p.trackProcessors[track.track]; if trackProc == nil { return nil }
    if !st.procsReady then .ok (st, [])
    else
      match st.conv with
      | none => .error .waitLeading
      | some c =>
        let (pts, c) := c.convert x.pts
        let (dts, c) := c.convert x.dts
        let (c, dtp) :=
          if !st.dateTimeProcessed && s.isLeading && isLeadingTrack then
            ((match dateTime with | some t => c.setNTP t dts | none => c), true)
          else (c, st.dateTimeProcessed)
        match c.getNTP dts with
        | .error p => .error (.panic p)
        | .ok ntp =>
          match handleData (tsTrack s x.track) pts dts ntp x.payload with
          | .error p => .error (.panic p)
          | .ok ds => .ok ({ st with conv := some c, dateTimeProcessed := dtp }, ds)

def tsProcessSamples (s : TStream) (dateTime : Option Int) : TSState → List TSSample → Except Err (TSState × List Delivery)
  | st, [] => .ok (st, [])
  | st, x :: rest =>
    match tsProcessSample s dateTime st x with
    | .error e => .error e
    | .ok (st1, ds) =>
      match tsProcessSamples s dateTime st1 rest with
      | .error e => .error e
      | .ok (st2, ds') => .ok (st2, ds ++ ds')

/-- `clientStreamProcessorMPEGTS.processSegment` for a non-nil segment (reader already initialised) -/
def tsProcessSegment (s : TStream) (st : TSState) (seg : TSSegment) : Except Err (TSState × List Delivery) :=
  match tsProcessSamples s seg.dateTime { st with leadingTrackFound := false, dateTimeProcessed := false } seg.samples with
  | .error e => .error e
  | .ok (st1, ds) => if st1.leadingTrackFound then .ok (st1, ds) else .error .noLeadingData

def tsProcessSegments (s : TStream) : TSState → List TSSegment → Except Err (TSState × List Delivery)
  | st, [] => .ok (st, [])
  | st, seg :: rest =>
    match tsProcessSegment s st seg with
    | .error e => .error e
    | .ok (st1, ds) =>
      match tsProcessSegments s st1 rest with
      | .error e => .error e
      | .ok (st2, ds') => .ok (st2, ds ++ ds')

end Hls.Client.Process
