import Hls.Client.Pacing
/-!
# Lemmas about the pacing model (`Hls/Client/Pacing.lean`); kept apart from the model so that the model driver still
builds when a regenerated condition changes and a proof below stops checking (the T2 run and its direct oracle then
look for a concrete failing input).
-/
namespace Hls.Client.Pacing
open Hls.Gen.TimeConv

theorem pace_now {d e : Int} (h : d ≤ e) : pace d e = .now := by
  unfold pace handleDataPaceWaits
  simp only [gt_iff_lt, decide_eq_true_eq]
  rw [if_neg (by omega)]

theorem pace_sleep {d e : Int} (h : e < d) (hc : d - e ≤ clientMaxDTSRTCDiff) : pace d e = .sleep (d - e) := by
  unfold pace handleDataPaceWaits handleDataPaceDiff handleDataPaceTooBig
  unfold clientMaxDTSRTCDiff at hc
  simp only [gt_iff_lt, decide_eq_true_eq]
  rw [if_pos h, if_neg (by omega)]

theorem pace_tooBig {d e : Int} (hc : clientMaxDTSRTCDiff < d - e) : pace d e = .tooBig := by
  unfold pace handleDataPaceWaits handleDataPaceDiff handleDataPaceTooBig
  unfold clientMaxDTSRTCDiff at hc
  simp only [gt_iff_lt, decide_eq_true_eq]
  rw [if_pos (by omega), if_pos (by omega)]

/-- the cap fires exactly when the unit is more than 10 s ahead of the clock -/
theorem pace_tooBig_iff (d e : Int) : pace d e = .tooBig ↔ clientMaxDTSRTCDiff < d - e := by
  constructor
  · intro h
    by_cases h1 : d ≤ e
    · rw [pace_now h1] at h; cases h
    · by_cases h2 : d - e ≤ clientMaxDTSRTCDiff
      · rw [pace_sleep (by omega) h2] at h; cases h
      · omega
  · exact pace_tooBig

/-- main invariant: started at a clock `t` that is not behind the previous unit's DTS (`d0 ≤ t`), a track whose
    consecutive DTS are at most the cap apart is never stopped by the cap, whatever the scheduling delays and timer
    overshoots; every unit is delivered at or after its DTS, deliveries are in order, and a unit that arrives early
    is delivered exactly `over` after its DTS. -/
theorem run_spec (as : List Arrival) : ∀ (t d0 : Int), d0 ≤ t → Clocked as → GapsBelowCap d0 as →
    ∃ ts, run t as = some ts ∧ ts.length = as.length ∧
      (∀ i (h : i < as.length) (h' : i < ts.length), as[i].dur ≤ ts[i]) ∧
      (∀ x ∈ ts, t ≤ x) ∧ ts.Pairwise (· ≤ ·) := by
  induction as with
  | nil => intro t d0 _ _ _; exact ⟨[], rfl, rfl, by simp, by simp, List.Pairwise.nil⟩
  | cons a rest ih =>
    intro t d0 ht hc hg
    have ha := hc a (List.mem_cons_self)
    have hcr : Clocked rest := fun x hx => hc x (List.mem_cons_of_mem _ hx)
    obtain ⟨hg1, hg2⟩ := hg
    by_cases h1 : a.dur ≤ t + a.gap
    · obtain ⟨ts, hr, hl, hd, hlo, hp⟩ := ih (t + a.gap) a.dur h1 hcr hg2
      refine ⟨(t + a.gap) :: ts, ?_, by simp [hl], ?_, ?_, ?_⟩
      · simp only [run, pace_now h1, hr, Option.map_some]
      · intro i h h'
        cases i with
        | zero => simpa using h1
        | succ j => simpa using hd j (by simpa using h) (by simpa using h')
      · intro x hx
        rcases List.mem_cons.mp hx with rfl | hx
        · omega
        · have := hlo x hx; omega
      · exact List.Pairwise.cons (fun x hx => hlo x hx) hp
    · have h2 : a.dur - (t + a.gap) ≤ clientMaxDTSRTCDiff := by omega
      have h3 : a.dur ≤ t + a.gap + (a.dur - (t + a.gap)) + a.over := by omega
      obtain ⟨ts, hr, hl, hd, hlo, hp⟩ := ih (t + a.gap + (a.dur - (t + a.gap)) + a.over) a.dur h3 hcr hg2
      refine ⟨(t + a.gap + (a.dur - (t + a.gap)) + a.over) :: ts, ?_, by simp [hl], ?_, ?_, ?_⟩
      · simp only [run, pace_sleep (by omega : t + a.gap < a.dur) h2, hr, Option.map_some]
      · intro i h h'
        cases i with
        | zero => simpa using h3
        | succ j => simpa using hd j (by simpa using h) (by simpa using h')
      · intro x hx
        rcases List.mem_cons.mp hx with rfl | hx
        · omega
        · have := hlo x hx; omega
      · exact List.Pairwise.cons (fun x hx => hlo x hx) hp

/-- conversely: a unit that is more than the cap ahead of the clock when it arrives ends the run, however regular
    everything before was (this is why the T2 cases keep media time short) -/
theorem run_cap_fires (t : Int) (a : Arrival) (rest : List Arrival)
    (h : clientMaxDTSRTCDiff < a.dur - (t + a.gap)) : run t (a :: rest) = none := by
  simp only [run, pace_tooBig h]

/-- an ideal clock (no scheduling delay beyond the media itself, exact timers) delivers every unit that is ahead of
    the clock exactly at its DTS -/
theorem run_exact (t : Int) (a : Arrival) (h : t + a.gap < a.dur) (hc : a.dur - (t + a.gap) ≤ clientMaxDTSRTCDiff)
    (ho : a.over = 0) : run t [a] = some [a.dur] := by
  simp only [run, pace_sleep h hc, ho, Option.map_some]
  congr 2; omega

/-- closed form of one step for exact timers: the unit is delivered at the later of its DTS and its arrival, and the
    rest of the track continues from there (lateness is never carried over: a unit that arrives late delays nothing
    beyond its own arrival) -/
theorem run_cons_exact (t : Int) (a : Arrival) (rest : List Arrival) (ho : a.over = 0)
    (hc : a.dur - (t + a.gap) ≤ clientMaxDTSRTCDiff) :
    run t (a :: rest) = (run (max a.dur (t + a.gap)) rest).map (max a.dur (t + a.gap) :: ·) := by
  by_cases h1 : a.dur ≤ t + a.gap
  · have hm : max a.dur (t + a.gap) = t + a.gap := by omega
    simp only [run, pace_now h1, hm]
  · have hm : max a.dur (t + a.gap) = t + a.gap + (a.dur - (t + a.gap)) + a.over := by omega
    simp only [run, pace_sleep (by omega : t + a.gap < a.dur) hc, hm]

end Hls.Client.Pacing
