import Hls.Client.Process
/-!
# Helper lemmas for property C10 (core Lean only)

Arithmetic of the regenerated `multiplyAndDivide` / `timestampToDuration`, the
33-bit `TimeDecoder`, and functional characterisations (`spec` functions) of the
processing loops of `Hls.Client.Process`. The property theorems are in
`Hls/Props/C10.lean`.
-/
namespace Hls.Client.TimeConvLemmas
open Hls.Gen Hls.Gen.TimeConv Hls.Client.TimeConv Hls.Client.Process

/-! ## `multiplyAndDivide`, `timestampToDuration` -/

theorem mulDiv_self (b ts : Int) (h : ts ≠ 0) : multiplyAndDivide b ts ts = b := by
  unfold multiplyAndDivide
  simp only []
  rw [Int.mul_tdiv_cancel _ h]
  have := Int.tmod_add_tdiv_mul b ts
  omega

/-- for a non-negative base, `multiplyAndDivide b r ts = ⌊b·r / ts⌋` -/
theorem mulDiv_floor (b r ts : Int) (hb : 0 ≤ b) (hts : 0 < ts) (hr : 0 ≤ r) :
    multiplyAndDivide b r ts * ts ≤ b * r ∧ b * r < (multiplyAndDivide b r ts + 1) * ts := by
  unfold multiplyAndDivide
  simp only []
  rw [Int.tdiv_eq_ediv_of_nonneg hb, Int.tmod_eq_emod_of_nonneg hb]
  have hd0 : 0 ≤ b % ts := Int.emod_nonneg b (by omega)
  have hdr : 0 ≤ b % ts * r := Int.mul_nonneg hd0 hr
  rw [Int.tdiv_eq_ediv_of_nonneg hdr]
  have h1 := Int.ediv_mul_le (b % ts * r) (b := ts) (by omega)
  have h2 := Int.lt_ediv_add_one_mul_self (b % ts * r) hts
  have h3 := Int.emod_add_ediv_mul b ts
  generalize b / ts = q at *
  generalize b % ts = d at *
  generalize d * r / ts = e at *
  subst h3
  have e1 : (q * r + e) * ts = q * ts * r + e * ts := by grind
  have e2 : (d + q * ts) * r = q * ts * r + d * r := by grind
  have e3 : (q * r + e + 1) * ts = q * ts * r + (e + 1) * ts := by grind
  rw [e1, e2, e3]
  omega

/-- closed form of `timestampToDuration` for non-negative arguments: `⌊x·10⁹ / r⌋` -/
theorem toDur_floor (x r : Int) (hx : 0 ≤ x) (hr : 0 < r) :
    timestampToDuration x r = x * 1000000000 / r := by
  unfold timestampToDuration multiplyAndDivide2
  simp only []
  rw [Int.tdiv_eq_ediv_of_nonneg hx, Int.tmod_eq_emod_of_nonneg hx]
  have hd0 : 0 ≤ x % r := Int.emod_nonneg x (by omega)
  rw [Int.tdiv_eq_ediv_of_nonneg (Int.mul_nonneg hd0 (by omega))]
  have h3 := Int.emod_add_ediv_mul x r
  generalize x / r = q at *
  generalize x % r = d at *
  subst h3
  have : (d + q * r) * 1000000000 = d * 1000000000 + (q * 1000000000) * r := by grind
  rw [this, Int.add_mul_ediv_right _ _ (by omega)]
  omega

theorem floor_add_bounds (a b r : Int) (hr : 0 < r) :
    a / r + b / r ≤ (a + b) / r ∧ (a + b) / r ≤ a / r + b / r + 1 := by
  have ha0 := Int.emod_nonneg a (b := r) (by omega)
  have hb0 := Int.emod_nonneg b (b := r) (by omega)
  have ha1 := Int.emod_lt_of_pos a hr
  have hb1 := Int.emod_lt_of_pos b hr
  have e : a + b = (a % r + b % r) + (a / r + b / r) * r := by
    have ha := Int.emod_add_ediv_mul a r
    have hb := Int.emod_add_ediv_mul b r
    grind
  rw [e, Int.add_mul_ediv_right _ _ (by omega)]
  have l0 : 0 ≤ (a % r + b % r) / r := Int.ediv_nonneg (by omega) (by omega)
  have l1 : (a % r + b % r) / r < 2 := Int.ediv_lt_of_lt_mul hr (by omega)
  generalize (a % r + b % r) / r = k at *
  omega

/-- `timestampToDuration` is additive up to one nanosecond on non-negative offsets -/
theorem toDur_add_bounds (a b r : Int) (ha : 0 ≤ a) (hb : 0 ≤ b) (hr : 0 < r) :
    timestampToDuration a r + timestampToDuration b r ≤ timestampToDuration (a + b) r ∧
    timestampToDuration (a + b) r ≤ timestampToDuration a r + timestampToDuration b r + 1 := by
  rw [toDur_floor a r ha hr, toDur_floor b r hb hr, toDur_floor (a + b) r (by omega) hr]
  have : (a + b) * 1000000000 = a * 1000000000 + b * 1000000000 := by grind
  rw [this]
  exact floor_add_bounds _ _ r hr

theorem toDur_zero (r : Int) : timestampToDuration 0 r = 0 := by
  unfold timestampToDuration multiplyAndDivide2
  simp

theorem toDur_defined (x r : Int) (hr : r ≠ 0) : timestampToDuration_defined x r = true := by
  simp [timestampToDuration_defined, multiplyAndDivide2_defined, hr]

theorem mulDiv_defined (v m d : Int) (hd : d ≠ 0) : multiplyAndDivide_defined v m d = true := by
  simp [multiplyAndDivide_defined, hd]

/-! ## `mpegts.TimeDecoder` -/

theorem emod_eq (a b : Int) : Int.emod a b = a % b := rfl

/-- the decoder has seen true time `t`, and its origin is true time `t0` -/
structure Tracks (d : TimeDecoder) (t t0 : Int) : Prop where
  init : d.initialized = true
  prev : d.prev = t % 8589934592
  overall : d.overall = t - t0

/-- one `Decode` step: a jump of less than 2^32 ticks in either direction is followed exactly -/
theorem decode_step (d : TimeDecoder) (t t' t0 : Int) (h : Tracks d t t0)
    (h1 : -4294967296 ≤ t' - t) (h2 : t' - t < 4294967296) :
    (d.decode (t' % 8589934592)).1 = t' - t0 ∧ Tracks (d.decode (t' % 8589934592)).2 t' t0 := by
  obtain ⟨hi, hp, ho⟩ := h
  have : d.decode (t' % 8589934592) =
      (t' - t0, { initialized := true, prev := t' % 8589934592, overall := t' - t0 }) := by
    unfold TimeDecoder.decode timeDecoderDecode
    simp only [hi, hp, ho, emod_eq, Bool.not_true, Bool.false_eq_true, if_false, decide_eq_true_eq]
    split <;> simp <;> omega
  rw [this]
  exact ⟨rfl, ⟨rfl, rfl, rfl⟩⟩

/-- the first `Decode` of a fresh decoder fixes the origin -/
theorem decode_first (t : Int) :
    (({} : TimeDecoder).decode (t % 8589934592)).1 = 0 ∧ Tracks (({} : TimeDecoder).decode (t % 8589934592)).2 t t := by
  have : ({} : TimeDecoder).decode (t % 8589934592) =
      (0, { initialized := true, prev := t % 8589934592, overall := 0 }) := by
    unfold TimeDecoder.decode timeDecoderDecode
    simp [emod_eq]
  rw [this]
  exact ⟨rfl, ⟨rfl, rfl, by simp⟩⟩

/-- consecutive true timestamps differ by less than 2^32 ticks -/
def Close : Int → List Int → Prop
  | _, [] => True
  | t, t' :: rest => (-4294967296 < t' - t ∧ t' - t < 4294967296) ∧ Close t' rest

/-- last element of `t :: ts` -/
def lastD : Int → List Int → Int
  | t, [] => t
  | _, t' :: rest => lastD t' rest

theorem decodeAll_tracks (ts : List Int) : ∀ (d : TimeDecoder) (t t0 : Int), Tracks d t t0 → Close t ts →
    (d.decodeAll (ts.map (· % 8589934592))).1 = ts.map (· - t0) ∧
    Tracks (d.decodeAll (ts.map (· % 8589934592))).2 (lastD t ts) t0 := by
  induction ts with
  | nil => intro d t t0 h _; exact ⟨rfl, h⟩
  | cons t' rest ih =>
    intro d t t0 h hc
    obtain ⟨⟨c1, c2⟩, hc'⟩ := hc
    obtain ⟨v, h'⟩ := decode_step d t t' t0 h (by omega) c2
    obtain ⟨r1, r2⟩ := ih (d.decode (t' % 8589934592)).2 t' t0 h' hc'
    simp only [List.map_cons, TimeDecoder.decodeAll]
    refine ⟨?_, ?_⟩
    · simp only [v, r1]
    · exact r2

/-! ## `clientTrackProcessorFMP4.process` -/

/-- what `clientTrackProcessorFMP4.process` delivers for one part-track when nothing panics (reference function) -/
def expected (tr : TrackInfo) (entryDts : Int) (entryNtp : Option Int) : Int → List Sample → List Delivery
  | _, [] => []
  | dts, s :: rest =>
    (if dts + s.ptsOffset < 0 then [] else
      [{ track := tr.idx, payload := s.payload, pts := dts + s.ptsOffset, dts := dts,
         ntp := entryNtp.map (· + timestampToDuration (dts - entryDts) tr.clockRate) }])
    ++ expected tr entryDts entryNtp (dts + s.duration) rest

theorem handleData_ok (tr : TrackInfo) (hr : tr.clockRate ≠ 0) (pts dts : Int) (ntp : Option Int) (p : Nat) :
    handleData tr pts dts ntp p =
      .ok (if pts < 0 then [] else [{ track := tr.idx, payload := p, pts := pts, dts := dts, ntp := ntp }]) := by
  unfold handleData
  simp only [handleDataDiscard, handleDataDtsDuration_defined, toDur_defined _ _ hr, decide_eq_true_eq]
  split <;> simp

theorem processLoop_ok (tr : TrackInfo) (hd : tr.decodable = true) (hr : tr.clockRate ≠ 0)
    (e : Int) (ntp : Option Int) :
    ∀ (ss : List Sample) (dts : Int), processLoop tr e ntp dts ss = .ok (expected tr e ntp dts ss) := by
  intro ss
  induction ss with
  | nil => intro dts; rfl
  | cons s rest ih =>
    intro dts
    unfold processLoop
    simp only [hd, Bool.not_true, Bool.false_eq_true, if_false]
    have hn : sampleNtp tr e ntp dts s = .ok (ntp.map (· + timestampToDuration (dts - e) tr.clockRate)) := by
      unfold sampleNtp
      cases ntp with
      | none => rfl
      | some n => simp [fmp4SampleNtpOffset_defined, fmp4SampleNtpOffset, toDur_defined _ _ hr]
    simp only [hn, handleData_ok tr hr, fmp4SamplePts, fmp4NextDts, ih, expected]

/-- the samples of a part-track paired with their running DTS -/
def withDts : Int → List Sample → List (Sample × Int)
  | _, [] => []
  | dts, s :: rest => (s, dts) :: withDts (dts + s.duration) rest

def deliveryOf (tr : TrackInfo) (entryDts : Int) (entryNtp : Option Int) (x : Sample × Int) : Option Delivery :=
  if x.2 + x.1.ptsOffset < 0 then none else
    some { track := tr.idx, payload := x.1.payload, pts := x.2 + x.1.ptsOffset, dts := x.2,
           ntp := entryNtp.map (· + timestampToDuration (x.2 - entryDts) tr.clockRate) }

theorem expected_eq (tr : TrackInfo) (e : Int) (ntp : Option Int) :
    ∀ (ss : List Sample) (dts : Int), expected tr e ntp dts ss = (withDts dts ss).filterMap (deliveryOf tr e ntp) := by
  intro ss
  induction ss with
  | nil => intro _; rfl
  | cons s rest ih =>
    intro dts
    simp only [expected, withDts, List.filterMap_cons, deliveryOf, ih]
    split <;> simp

theorem withDts_map_fst : ∀ (ss : List Sample) (dts : Int), (withDts dts ss).map (·.1) = ss := by
  intro ss; induction ss with
  | nil => intro _; rfl
  | cons s rest ih => intro dts; simp [withDts, ih]

/-- running DTS of the k-th sample = entry DTS + Σ_{j<k} duration_j -/
theorem withDts_getElem : ∀ (ss : List Sample) (dts : Int) (k : Nat) (h : k < (withDts dts ss).length),
    ((withDts dts ss)[k]).2 = dts + ((ss.take k).map (·.duration)).sum := by
  intro ss
  induction ss with
  | nil => intro dts k h; simp [withDts] at h
  | cons s rest ih =>
    intro dts k h
    cases k with
    | zero => simp [withDts]
    | succ k =>
      simp only [withDts, List.getElem_cons_succ, List.take_succ_cons, List.map_cons, List.sum_cons]
      rw [ih]; omega

theorem deliveryOf_props (tr : TrackInfo) (e : Int) (ntp : Option Int) (x : Sample × Int) (d : Delivery)
    (h : deliveryOf tr e ntp x = some d) :
    d.track = tr.idx ∧ d.payload = x.1.payload ∧ d.dts = x.2 ∧ d.pts = x.2 + x.1.ptsOffset ∧ 0 ≤ d.pts ∧
    d.ntp = ntp.map (· + timestampToDuration (x.2 - e) tr.clockRate) := by
  unfold deliveryOf at h
  split at h
  · cases h
  · cases h; simp; omega

/-! ## fMP4 segment level -/

/-- value of `getNTP` when nothing panics -/
def ntpOf (c : FMP4Conv) (timestamp clockRate : Int) : Option Int :=
  if c.ntpAvailable then some (c.ntpValue + fmp4NtpOffset c.ntpTimestamp c.ntpClockRate timestamp clockRate) else none

/-- what one part-track contributes to the deliveries of a segment (reference function) -/
def entrySpec (procs : List (Int × TrackInfo)) (c : FMP4Conv) (pt : PartTrack) : List Delivery :=
  match procs.lookup pt.id with
  | none => []
  | some tr =>
    let dts := fmp4Convert c.leadingTimeScale c.leadingBaseTime pt.baseTime tr.clockRate
    expected tr dts (ntpOf c dts tr.clockRate) dts pt.samples

/-- processors are usable: payload decoder present, clock rate non-zero -/
def ProcsOK (procs : List (Int × TrackInfo)) : Prop :=
  ∀ id tr, procs.lookup id = some tr → tr.decodable = true ∧ tr.clockRate ≠ 0

/-- converter is usable: leading time scale non-zero, anchor clock rate non-zero once set -/
def ConvOK (c : FMP4Conv) : Prop :=
  c.leadingTimeScale ≠ 0 ∧ (c.ntpAvailable = true → c.ntpClockRate ≠ 0)

theorem convert_ok (c : FMP4Conv) (h : c.leadingTimeScale ≠ 0) (v r : Int) :
    c.convert v r = .ok (fmp4Convert c.leadingTimeScale c.leadingBaseTime v r) := by
  simp [FMP4Conv.convert, fmp4Convert_defined, mulDiv_defined _ _ _ h]

theorem getNTP_ok (c : FMP4Conv) (h : ConvOK c) (t r : Int) (hr : r ≠ 0) :
    c.getNTP t r = .ok (ntpOf c t r) := by
  unfold FMP4Conv.getNTP ntpOf
  cases ha : c.ntpAvailable with
  | false => simp
  | true => simp [fmp4NtpOffset_defined, mulDiv_defined _ _ _ (h.2 ha), toDur_defined _ _ hr]

theorem processPartTracks_ok (procs : List (Int × TrackInfo)) (c : FMP4Conv) (hp : ProcsOK procs) (hc : ConvOK c) :
    ∀ pts : List PartTrack, processPartTracks procs c pts = .ok (pts.flatMap (entrySpec procs c)) := by
  intro pts
  induction pts with
  | nil => rfl
  | cons pt rest ih =>
    unfold processPartTracks
    cases hl : procs.lookup pt.id with
    | none => simp [ih, entrySpec, hl]
    | some tr =>
      obtain ⟨hd, hr⟩ := hp _ _ hl
      simp only [convert_ok c hc.1, getNTP_ok c hc _ _ hr, processEntry, fmp4ProcessInitialDts,
        processLoop_ok tr hd hr, ih, List.flatMap_cons, entrySpec, hl]

theorem lookup_mem {α β} [BEq α] [LawfulBEq α] : ∀ (l : List (α × β)) (k : α) (v : β), l.lookup k = some v → (k, v) ∈ l := by
  intro l
  induction l with
  | nil => intro k v h; simp [List.lookup] at h
  | cons x rest ih =>
    intro k v h
    obtain ⟨a, b⟩ := x
    simp only [List.lookup] at h
    split at h
    · rename_i heq
      cases h
      have : k = a := by simpa using heq
      subst this; simp
    · exact List.mem_cons_of_mem _ (ih k v h)

theorem lookup_of_mem_nodup {α β} [BEq α] [LawfulBEq α] : ∀ (l : List (α × β)) (k : α) (v : β),
    (l.map Prod.fst).Nodup → (k, v) ∈ l → l.lookup k = some v := by
  intro l
  induction l with
  | nil => intro k v _ h; cases h
  | cons x rest ih =>
    intro k v hn hm
    obtain ⟨a, b⟩ := x
    simp only [List.map_cons, List.nodup_cons] at hn
    simp only [List.lookup]
    cases hm with
    | head => simp
    | tail _ hm' =>
      have hne : (k == a) = false := by
        apply beq_false_of_ne
        intro hka
        subst hka
        exact hn.1 (List.mem_map_of_mem (f := Prod.fst) hm')
      simp only [hne]
      exact ih k v hn.2 hm'

theorem trackInfos_length : ∀ (init : List InitTrack) (f : Nat), (trackInfos f init).length = init.length := by
  intro init; induction init with
  | nil => intro _; rfl
  | cons t rest ih => intro f; simp [trackInfos, ih]

/-- every pair of the processors map comes from an init track at some position -/
theorem mem_zip_trackInfos : ∀ (init : List InitTrack) (f : Nat) (id : Int) (tr : TrackInfo),
    (id, tr) ∈ (init.map (·.id)).zip (trackInfos f init) →
    ∃ t ∈ init, id = t.id ∧ tr.clockRate = t.timeScale ∧ tr.decodable = kindDecodable t.kind := by
  intro init
  induction init with
  | nil => intro f id tr h; simp [trackInfos] at h
  | cons t rest ih =>
    intro f id tr h
    simp only [List.map_cons, trackInfos, List.zip_cons_cons, List.mem_cons] at h
    cases h with
    | inl h => cases h; exact ⟨t, by simp, rfl, rfl, rfl⟩
    | inr h =>
      obtain ⟨t', ht', r⟩ := ih _ _ _ h
      exact ⟨t', List.mem_cons_of_mem _ ht', r⟩

/-- static well-formedness of an fMP4 stream: decodable codecs, non-zero time scales, distinct track ids -/
structure WF (s : FStream) : Prop where
  tracks : ∀ t ∈ s.init, kindDecodable t.kind = true ∧ t.timeScale ≠ 0
  nodup : (s.init.map (·.id)).Nodup
  lead : ∃ t ∈ s.init, t.id = s.leadingTrackID

theorem buildProcs_ok (s : FStream) (h : WF s) : ProcsOK (buildProcs s.firstIdx s.init) := by
  intro id tr hl
  have hm := lookup_mem _ _ _ hl
  simp only [buildProcs, List.mem_reverse] at hm
  obtain ⟨t, ht, _, h2, h3⟩ := mem_zip_trackInfos _ _ _ _ hm
  obtain ⟨a, b⟩ := h.tracks t ht
  exact ⟨by rw [h3]; exact a, by rw [h2]; exact b⟩

theorem zip_keys (init : List InitTrack) (f : Nat) :
    ((init.map (·.id)).zip (trackInfos f init)).map Prod.fst = init.map (·.id) := by
  rw [List.map_fst_zip]
  simp [trackInfos_length]

theorem mem_zip_of_mem : ∀ (init : List InitTrack) (f : Nat) (t : InitTrack), t ∈ init →
    ∃ tr, (t.id, tr) ∈ (init.map (·.id)).zip (trackInfos f init) ∧ tr.clockRate = t.timeScale := by
  intro init
  induction init with
  | nil => intro f t h; cases h
  | cons t0 rest ih =>
    intro f t h
    simp only [List.map_cons, trackInfos, List.zip_cons_cons]
    cases h with
    | head => exact ⟨_, List.mem_cons_self, rfl⟩
    | tail _ h' =>
      obtain ⟨tr, h1, h2⟩ := ih (f + 1) t h'
      exact ⟨tr, List.mem_cons_of_mem _ h1, h2⟩

theorem findTimeScale_of_mem : ∀ (init : List InitTrack) (t : InitTrack), (init.map (·.id)).Nodup → t ∈ init →
    findTimeScale init t.id = t.timeScale := by
  intro init
  induction init with
  | nil => intro t _ h; cases h
  | cons t0 rest ih =>
    intro t hn h
    simp only [List.map_cons, List.nodup_cons] at hn
    unfold findTimeScale
    simp only [List.find?_cons]
    cases h with
    | head => simp
    | tail _ h' =>
      have : t0.id ≠ t.id := by
        intro e; exact hn.1 (by rw [e]; exact List.mem_map_of_mem (f := (·.id)) h')
      simp only [this, decide_false]
      have := ih t hn.2 h'
      unfold findTimeScale at this
      exact this

/-- the processor found for the leading track id runs at the leading time scale -/
theorem lookup_leading (s : FStream) (h : WF s) :
    ∃ tr, (buildProcs s.firstIdx s.init).lookup s.leadingTrackID = some tr ∧
      tr.clockRate = findTimeScale s.init s.leadingTrackID ∧ findTimeScale s.init s.leadingTrackID ≠ 0 := by
  obtain ⟨t, ht, hid⟩ := h.lead
  obtain ⟨tr, hm, hr⟩ := mem_zip_of_mem s.init s.firstIdx t ht
  have hn : ((buildProcs s.firstIdx s.init).map Prod.fst).Nodup := by
    simp only [buildProcs, List.map_reverse, zip_keys]
    exact (List.reverse_perm _).nodup_iff.mpr h.nodup
  have hl := lookup_of_mem_nodup (buildProcs s.firstIdx s.init) t.id tr hn (by simp [buildProcs, hm])
  have hf := findTimeScale_of_mem s.init t h.nodup ht
  rw [← hid]
  exact ⟨tr, hl, by rw [hr, hf], by rw [hf]; exact (h.tracks t ht).2⟩

/-- clock rate of the leading track = leading time scale -/
def leadRate (s : FStream) : Int := findTimeScale s.init s.leadingTrackID

/-- the converter after the NTP anchor update of `processSegment` -/
def anchored (s : FStream) (c0 : FMP4Conv) (dateTime : Option Int) (lpt : PartTrack) : FMP4Conv :=
  if s.isLeading then
    match dateTime with
    | none => c0
    | some t => c0.setNTP t (fmp4Convert c0.leadingTimeScale c0.leadingBaseTime lpt.baseTime (leadRate s)) (leadRate s)
  else c0

theorem findFirstPT_id (parts : List (List PartTrack)) (id : Int) (lpt : PartTrack)
    (h : findFirstPT parts id = some lpt) : lpt.id = id := by
  unfold findFirstPT at h
  have := List.find?_some h
  simpa using this

theorem anchored_ok (s : FStream) (h : WF s) (c0 : FMP4Conv) (hc : ConvOK c0) (dt : Option Int) (lpt : PartTrack) :
    ConvOK (anchored s c0 dt lpt) := by
  obtain ⟨_, _, _, hne⟩ := lookup_leading s h
  unfold anchored
  split
  · cases dt with
    | none => exact hc
    | some t => exact ⟨hc.1, fun _ => hne⟩
  · exact hc

theorem anchor_eq (s : FStream) (h : WF s) (c0 : FMP4Conv) (hc : ConvOK c0) (dt : Option Int) (lpt : PartTrack)
    (hid : lpt.id = s.leadingTrackID) :
    (if s.isLeading then anchor (buildProcs s.firstIdx s.init) c0 dt lpt else .ok c0) = .ok (anchored s c0 dt lpt) := by
  obtain ⟨tr, hl, hr, _⟩ := lookup_leading s h
  unfold anchored anchor
  cases s.isLeading with
  | false => simp
  | true =>
    cases dt with
    | none => simp
    | some t => simp [hid, hl, convert_ok c0 hc.1, hr, leadRate]

/-- later segments (and the first segment of a rendition, once the leading stream has fixed the origin) -/
theorem processSegment_ready (s : FStream) (h : WF s) (c : FMP4Conv) (hc : ConvOK c) (seg : Segment) (lpt : PartTrack)
    (hs : s.procs = some (buildProcs s.firstIdx s.init) ∨ (s.procs = none ∧ s.isLeading = false))
    (hl : findFirstPT seg.parts s.leadingTrackID = some lpt) :
    s.processSegment (some c) seg =
      .ok ({ s with procs := some (buildProcs s.firstIdx s.init) }, some (anchored s c seg.dateTime lpt),
           seg.parts.flatten.flatMap (entrySpec (buildProcs s.firstIdx s.init) (anchored s c seg.dateTime lpt))) := by
  have hid := findFirstPT_id _ _ _ hl
  have he : s.ensureProcs (some c) lpt = .ok (buildProcs s.firstIdx s.init, c) := by
    unfold FStream.ensureProcs
    cases hs with
    | inl hs => simp [hs]
    | inr hs => simp [hs.1, hs.2]
  unfold FStream.processSegment
  simp only [hl, he, anchor_eq s h c hc seg.dateTime lpt hid,
    processPartTracks_ok _ _ (buildProcs_ok s h) (anchored_ok s h c hc seg.dateTime lpt)]

/-- first segment of the leading stream: the origin is the base time of the first part-track of the leading track -/
theorem processSegment_first (s : FStream) (h : WF s) (conv : Option FMP4Conv) (seg : Segment) (lpt : PartTrack)
    (hs : s.procs = none) (hlead : s.isLeading = true)
    (hl : findFirstPT seg.parts s.leadingTrackID = some lpt) :
    let c0 : FMP4Conv := { leadingTimeScale := leadRate s, leadingBaseTime := lpt.baseTime }
    s.processSegment conv seg =
      .ok ({ s with procs := some (buildProcs s.firstIdx s.init) }, some (anchored s c0 seg.dateTime lpt),
           seg.parts.flatten.flatMap (entrySpec (buildProcs s.firstIdx s.init) (anchored s c0 seg.dateTime lpt))) := by
  intro c0
  have hid := findFirstPT_id _ _ _ hl
  obtain ⟨_, _, _, hne⟩ := lookup_leading s h
  have hc : ConvOK c0 := ⟨hne, by simp [c0]⟩
  have he : s.ensureProcs conv lpt = .ok (buildProcs s.firstIdx s.init, c0) := by
    unfold FStream.ensureProcs
    simp [hs, hlead, c0, leadRate]
  unfold FStream.processSegment
  simp only [hl, he, anchor_eq s h c0 hc seg.dateTime lpt hid,
    processPartTracks_ok _ _ (buildProcs_ok s h) (anchored_ok s h c0 hc seg.dateTime lpt)]

/-! ## MPEG-TS -/

/-- a sample with its *true* (unwrapped, unbounded) timestamps -/
structure TrueSample where
  track   : Nat
  pts     : Int
  dts     : Int
  payload : Nat

/-- what the container carries: the timestamps modulo 2^33 -/
def raw (x : TrueSample) : TSSample :=
  { track := x.track, pts := x.pts % 8589934592, dts := x.dts % 8589934592, payload := x.payload }

/-- the arguments of the successive `Decode` calls -/
def chain : List TrueSample → List Int
  | [] => []
  | x :: rest => x.pts :: x.dts :: chain rest

structure Anchor where
  avail : Bool := false
  value : Int := 0
  ts    : Int := 0

/-- reference state: last true time seen by the decoder, NTP anchor, the two per-segment flags -/
structure Ref where
  t      : Int
  anchor : Anchor := {}
  found  : Bool := false
  dtp    : Bool := false

def Anchor.ntp (a : Anchor) (dts : Int) : Option Int :=
  if a.avail then some (a.value + timestampToDuration (dts - a.ts) 90000) else none

/-- reference semantics of `processSample` once the processors exist, over true timestamps, origin `t0` -/
def refStep (s : TStream) (dateTime : Option Int) (t0 : Int) (r : Ref) (x : TrueSample) : Ref × List Delivery :=
  let isLead := x.track == s.leadingIdx
  let upd := !r.dtp && s.isLeading && isLead
  let a : Anchor := if upd then (match dateTime with | some T => { avail := true, value := T, ts := x.dts - t0 } | none => r.anchor) else r.anchor
  ({ t := x.dts, anchor := a, found := r.found || isLead, dtp := r.dtp || upd },
   if x.pts - t0 < 0 then [] else
     [{ track := s.firstIdx + x.track, payload := x.payload, pts := x.pts - t0, dts := x.dts - t0, ntp := a.ntp (x.dts - t0) }])

def refSteps (s : TStream) (dateTime : Option Int) (t0 : Int) : Ref → List TrueSample → Ref × List Delivery
  | r, [] => (r, [])
  | r, x :: rest =>
    let (r1, ds) := refStep s dateTime t0 r x
    let (r2, ds') := refSteps s dateTime t0 r1 rest
    (r2, ds ++ ds')

/-- the model state `st` is represented by the reference state `r` (origin `t0`) -/
structure Rel (st : TSState) (r : Ref) (t0 : Int) : Prop where
  ready : st.procsReady = true
  conv : ∃ c, st.conv = some c ∧ Tracks c.td r.t t0 ∧ c.ntpAvailable = r.anchor.avail ∧
           c.ntpValue = r.anchor.value ∧ c.ntpTimestamp = r.anchor.ts
  found : st.leadingTrackFound = r.found
  dtp : st.dateTimeProcessed = r.dtp

theorem tsGetNTP (c : TSConv) (dts : Int) :
    c.getNTP dts = .ok (if c.ntpAvailable then some (c.ntpValue + timestampToDuration (dts - c.ntpTimestamp) 90000) else none) := by
  unfold TSConv.getNTP
  cases c.ntpAvailable <;> simp [mpegtsNtpOffset_defined, mpegtsNtpOffset, toDur_defined]

theorem tsStep_ready (s : TStream) (dt : Option Int) (t0 : Int) (st : TSState) (r : Ref) (x : TrueSample)
    (h : Rel st r t0) (hc : Close r.t [x.pts, x.dts]) :
    ∃ st', tsProcessSample s dt st (raw x) = .ok (st', (refStep s dt t0 r x).2) ∧ Rel st' (refStep s dt t0 r x).1 t0 := by
  obtain ⟨hready, ⟨c, hconv, htr, ha, hv, hts⟩, hfound, hdtp⟩ := h
  obtain ⟨⟨c1, c2⟩, ⟨c3, c4⟩, _⟩ := hc
  obtain ⟨p1, p2⟩ := decode_step c.td r.t x.pts t0 htr (by omega) c2
  obtain ⟨q1, q2⟩ := decode_step (c.td.decode (x.pts % 8589934592)).2 x.pts x.dts t0 p2 (by omega) c4
  have hd : ∀ (i : Nat) (pts dts : Int) (ntp : Option Int) (p : Nat),
      handleData { idx := i, clockRate := mpegtsTrackClockRate } pts dts ntp p =
        .ok (if pts < 0 then [] else [{ track := i, payload := p, pts := pts, dts := dts, ntp := ntp }]) := by
    intro i pts dts ntp p
    exact handleData_ok { idx := i, clockRate := mpegtsTrackClockRate } (by simp [mpegtsTrackClockRate]) pts dts ntp p
  unfold tsProcessSample
  cases hL : (x.track == s.leadingIdx) <;> cases hD : st.dateTimeProcessed <;> cases hI : s.isLeading <;> cases dt <;>
    simp [raw, hL, hready, hconv, TSConv.convert, p1, q1, tsGetNTP, hd, refStep, hD, hI, ← hdtp,
      TSConv.setNTP, Anchor.ntp, ha, hv, hts, tsTrack] <;>
    exact ⟨rfl, ⟨_, rfl, q2, rfl, rfl, rfl⟩, by simp [hfound], by simp⟩


theorem close_append : ∀ (a : List Int) (t : Int) (b : List Int), Close t (a ++ b) ↔ Close t a ∧ Close (lastD t a) b := by
  intro a
  induction a with
  | nil => intro t b; simp [Close, lastD]
  | cons x rest ih => intro t b; simp [Close, lastD, ih, and_assoc]

theorem tsSteps_ready (s : TStream) (dt : Option Int) (t0 : Int) :
    ∀ (xs : List TrueSample) (st : TSState) (r : Ref), Rel st r t0 → Close r.t (chain xs) →
    ∃ st', tsProcessSamples s dt st (xs.map raw) = .ok (st', (refSteps s dt t0 r xs).2) ∧
      Rel st' (refSteps s dt t0 r xs).1 t0 := by
  intro xs
  induction xs with
  | nil => intro st r h _; exact ⟨st, rfl, h⟩
  | cons x rest ih =>
    intro st r h hc
    have hc' : Close r.t [x.pts, x.dts] ∧ Close x.dts (chain rest) := by
      simp only [chain, Close] at hc ⊢
      exact ⟨⟨hc.1, hc.2.1, trivial⟩, hc.2.2⟩
    obtain ⟨st1, e1, r1⟩ := tsStep_ready s dt t0 st r x h hc'.1
    have ht : (refStep s dt t0 r x).1.t = x.dts := rfl
    obtain ⟨st2, e2, r2⟩ := ih st1 (refStep s dt t0 r x).1 r1 (by rw [ht]; exact hc'.2)
    refine ⟨st2, ?_, ?_⟩
    · simp only [List.map_cons, tsProcessSamples, e1, e2, refSteps]
    · simpa only [refSteps] using r2

/-- gating: before the processors exist, a sample of a non-leading track changes nothing and is not delivered -/
theorem tsStep_gated (s : TStream) (dt : Option Int) (st : TSState) (x : TSSample)
    (hr : st.procsReady = false) (hx : (x.track == s.leadingIdx) = false) :
    tsProcessSample s dt st x = .ok (st, []) := by
  unfold tsProcessSample
  simp [hx, hr]

theorem tsSteps_gated (s : TStream) (dt : Option Int) (st : TSState) (hr : st.procsReady = false) :
    ∀ (pre rest : List TSSample), (∀ x ∈ pre, (x.track == s.leadingIdx) = false) →
    tsProcessSamples s dt st (pre ++ rest) = tsProcessSamples s dt st rest := by
  intro pre
  induction pre with
  | nil => intro rest _; rfl
  | cons x pre ih =>
    intro rest h
    simp only [List.cons_append, tsProcessSamples, tsStep_gated s dt st x hr (h x (by simp))]
    rw [ih rest (fun y hy => h y (by simp [hy]))]
    cases tsProcessSamples s dt st rest with
    | error e => rfl
    | ok v => obtain ⟨a, b⟩ := v; simp


/-- the first sample of the leading track in the leading stream creates the converter with origin = its DTS,
    and is then processed like every later sample -/
theorem tsStep_first (s : TStream) (dt : Option Int) (st : TSState) (x : TSSample)
    (hr : st.procsReady = false) (hx : (x.track == s.leadingIdx) = true) (hl : s.isLeading = true) :
    tsProcessSample s dt st x =
      tsProcessSample s dt { st with leadingTrackFound := true, conv := some (TSConv.init x.dts), procsReady := true } x := by
  unfold tsProcessSample
  simp [hx, hr, hl]

theorem rel_first (st : TSState) (t : Int) :
    Rel { st with leadingTrackFound := true, conv := some (TSConv.init (t % 8589934592)), procsReady := true }
      { t := t, found := true, dtp := st.dateTimeProcessed } t :=
  ⟨rfl, ⟨_, rfl, (decode_first t).2, rfl, rfl, rfl⟩, rfl, rfl⟩

theorem refSteps_found (s : TStream) (dt : Option Int) (t0 : Int) :
    ∀ (xs : List TrueSample) (r : Ref),
      (refSteps s dt t0 r xs).1.found = (r.found || xs.any (fun x => x.track == s.leadingIdx)) := by
  intro xs
  induction xs with
  | nil => intro r; simp [refSteps]
  | cons x rest ih => intro r; simp [refSteps, ih, refStep, Bool.or_assoc]

/-- first segment of the leading stream: everything the reader hands over before the first leading-track
    sample `x0` is dropped; the origin is `x0.dts`; from `x0` on, the reference semantics applies. -/
theorem tsSegment_first (s : TStream) (hl : s.isLeading = true) (st : TSState) (hr : st.procsReady = false)
    (dt : Option Int) (pre post : List TrueSample) (x0 : TrueSample)
    (hpre : ∀ x ∈ pre, (x.track == s.leadingIdx) = false) (hx0 : (x0.track == s.leadingIdx) = true)
    (hc : Close x0.dts (chain (x0 :: post))) :
    ∃ st', tsProcessSegment s st { dateTime := dt, samples := (pre ++ x0 :: post).map raw } =
        .ok (st', (refSteps s dt x0.dts { t := x0.dts, found := true } (x0 :: post)).2) ∧
      Rel st' (refSteps s dt x0.dts { t := x0.dts, found := true } (x0 :: post)).1 x0.dts := by
  unfold tsProcessSegment
  simp only []
  generalize hst0 : ({ st with leadingTrackFound := false, dateTimeProcessed := false } : TSState) = st0
  have hr0 : st0.procsReady = false := by rw [← hst0]; exact hr
  have hpre' : ∀ y ∈ pre.map raw, (y.track == s.leadingIdx) = false := by
    intro y hy
    obtain ⟨x, hx, rfl⟩ := List.mem_map.mp hy
    exact hpre x hx
  have e1 : tsProcessSamples s dt st0 ((pre ++ x0 :: post).map raw) =
      tsProcessSamples s dt st0 ((x0 :: post).map raw) := by
    rw [List.map_append]; exact tsSteps_gated s dt st0 hr0 _ _ hpre'
  have e2 : tsProcessSamples s dt st0 ((x0 :: post).map raw) =
      tsProcessSamples s dt { st0 with leadingTrackFound := true, conv := some (TSConv.init (raw x0).dts), procsReady := true }
        ((x0 :: post).map raw) := by
    simp only [List.map_cons, tsProcessSamples]
    rw [tsStep_first s dt st0 (raw x0) hr0 hx0 hl]
  have hdt : st0.dateTimeProcessed = false := by rw [← hst0]
  have hrel := rel_first st0 x0.dts
  rw [hdt] at hrel
  obtain ⟨st', e3, r3⟩ := tsSteps_ready s dt x0.dts (x0 :: post) _ _ hrel hc
  have hf : st'.leadingTrackFound = true := by
    rw [r3.found, refSteps_found]; rfl
  refine ⟨st', ?_, r3⟩
  rw [e1, e2, hdt]
  have e3' : tsProcessSamples s dt
      { conv := some (TSConv.init (raw x0).dts), procsReady := true, leadingTrackFound := true, dateTimeProcessed := false }
      ((x0 :: post).map raw) = _ := e3
  rw [e3']
  simp only [hf, if_true]

/-- a later segment of any stream (and every segment of a rendition once the origin exists) -/
theorem tsSegment_ready (s : TStream) (st : TSState) (r : Ref) (t0 : Int) (h : Rel st r t0)
    (dt : Option Int) (xs : List TrueSample) (hc : Close r.t (chain xs))
    (hlead : xs.any (fun x => x.track == s.leadingIdx) = true) :
    ∃ st', tsProcessSegment s st { dateTime := dt, samples := xs.map raw } =
        .ok (st', (refSteps s dt t0 { r with found := false, dtp := false } xs).2) ∧
      Rel st' (refSteps s dt t0 { r with found := false, dtp := false } xs).1 t0 := by
  have hrel : Rel { st with leadingTrackFound := false, dateTimeProcessed := false } { r with found := false, dtp := false } t0 :=
    ⟨h.ready, h.conv, rfl, rfl⟩
  obtain ⟨st', e3, r3⟩ := tsSteps_ready s dt t0 xs _ _ hrel hc
  have hf : st'.leadingTrackFound = true := by
    rw [r3.found, refSteps_found, hlead]; rfl
  refine ⟨st', ?_, r3⟩
  unfold tsProcessSegment
  simp only [e3, hf, if_true]

/-! ## nothing is ever delivered with a negative PTS (unconditional: holds for every outcome of the model) -/

theorem handleData_nonneg (tr : TrackInfo) (pts dts : Int) (ntp : Option Int) (p : Nat) (ds : List Delivery)
    (h : handleData tr pts dts ntp p = .ok ds) : ∀ d ∈ ds, 0 ≤ d.pts := by
  unfold handleData at h
  simp only [handleDataDiscard, decide_eq_true_eq] at h
  split at h
  · cases h; intro d hd; cases hd
  · split at h
    · cases h
      intro d hd
      simp only [List.mem_singleton] at hd
      subst hd
      simp only
      omega
    · cases h

theorem processLoop_nonneg (tr : TrackInfo) (e : Int) (ntp : Option Int) :
    ∀ (ss : List Sample) (dts : Int) (ds : List Delivery), processLoop tr e ntp dts ss = .ok ds → ∀ d ∈ ds, 0 ≤ d.pts := by
  intro ss
  induction ss with
  | nil => intro dts ds h; simp [processLoop] at h; subst h; intro d hd; cases hd
  | cons s rest ih =>
    intro dts ds h
    unfold processLoop at h
    cases hdec : tr.decodable with
    | false => simp [hdec] at h
    | true =>
      simp only [hdec, Bool.not_true, Bool.false_eq_true, if_false] at h
      cases h1 : sampleNtp tr e ntp dts s with
      | error p => simp [h1] at h
      | ok n =>
        simp only [h1] at h
        cases h2 : handleData tr (fmp4SamplePts dts e s.ptsOffset s.duration tr.clockRate) dts n s.payload with
        | error p => simp [h2] at h
        | ok d0 =>
          simp only [h2] at h
          cases h3 : processLoop tr e ntp (fmp4NextDts dts e s.ptsOffset s.duration tr.clockRate) rest with
          | error p => simp [h3] at h
          | ok ds1 =>
            simp only [h3, Except.ok.injEq] at h
            subst h
            intro d hd
            rcases List.mem_append.mp hd with hd | hd
            · exact handleData_nonneg _ _ _ _ _ _ h2 d hd
            · exact ih _ _ h3 d hd

theorem processPartTracks_nonneg (procs : List (Int × TrackInfo)) (c : FMP4Conv) :
    ∀ (pts : List PartTrack) (ds : List Delivery), processPartTracks procs c pts = .ok ds → ∀ d ∈ ds, 0 ≤ d.pts := by
  intro pts
  induction pts with
  | nil => intro ds h; simp [processPartTracks] at h; subst h; intro d hd; cases hd
  | cons pt rest ih =>
    intro ds h
    unfold processPartTracks at h
    split at h
    · exact ih ds h
    · split at h
      · cases h
      · split at h
        · cases h
        · split at h
          · cases h
          · rename_i ds0 hds0
            split at h
            · cases h
            · rename_i ds1 hds1
              cases h
              intro d hd
              rcases List.mem_append.mp hd with hd | hd
              · exact processLoop_nonneg _ _ _ _ _ _ hds0 d hd
              · exact ih _ hds1 d hd

theorem processSegment_nonneg (s : FStream) (conv : Option FMP4Conv) (seg : Segment) (s' : FStream)
    (c' : Option FMP4Conv) (ds : List Delivery) (h : s.processSegment conv seg = .ok (s', c', ds)) :
    ∀ d ∈ ds, 0 ≤ d.pts := by
  unfold FStream.processSegment at h
  split at h
  · split at h
    · cases h; intro d hd; cases hd
    · cases h
  · split at h
    · cases h
    · split at h
      · cases h
      · split at h
        · cases h
        · rename_i ds0 hds0
          cases h
          exact processPartTracks_nonneg _ _ _ _ hds0

theorem tsProcessSample_nonneg (s : TStream) (dt : Option Int) (st st' : TSState) (x : TSSample) (ds : List Delivery)
    (h : tsProcessSample s dt st x = .ok (st', ds)) : ∀ d ∈ ds, 0 ≤ d.pts := by
  unfold tsProcessSample at h
  simp only [] at h
  split at h
  · cases h
  · split at h
    · cases h; intro d hd; cases hd
    · split at h
      · cases h
      · split at h
        · cases h
        · split at h
          · cases h
          · rename_i ds0 hds0
            cases h
            exact handleData_nonneg _ _ _ _ _ _ hds0

theorem tsProcessSamples_nonneg (s : TStream) (dt : Option Int) :
    ∀ (xs : List TSSample) (st st' : TSState) (ds : List Delivery),
      tsProcessSamples s dt st xs = .ok (st', ds) → ∀ d ∈ ds, 0 ≤ d.pts := by
  intro xs
  induction xs with
  | nil => intro st st' ds h; simp [tsProcessSamples] at h; rw [h.2]; intro d hd; cases hd
  | cons x rest ih =>
    intro st st' ds h
    unfold tsProcessSamples at h
    split at h
    · cases h
    · rename_i st1 ds1 h1
      split at h
      · cases h
      · rename_i st2 ds2 h2
        cases h
        intro d hd
        rcases List.mem_append.mp hd with hd | hd
        · exact tsProcessSample_nonneg _ _ _ _ _ _ h1 d hd
        · exact ih _ _ _ h2 d hd

theorem tsProcessSegment_nonneg (s : TStream) (st st' : TSState) (seg : TSSegment) (ds : List Delivery)
    (h : tsProcessSegment s st seg = .ok (st', ds)) : ∀ d ∈ ds, 0 ≤ d.pts := by
  unfold tsProcessSegment at h
  split at h
  · cases h
  · rename_i st1 ds1 h1
    split at h
    · cases h; exact tsProcessSamples_nonneg _ _ _ _ _ _ h1
    · cases h

/-! ## consequences of the reference functions -/

theorem pickLeading_mem (init : List InitTrack) (lid : Int) (h : pickLeading init = .ok lid) :
    ∃ t ∈ init, t.id = lid := by
  unfold pickLeading at h
  cases hf : init.find? (·.isVideo) with
  | some t =>
    simp only [hf] at h
    cases h
    exact ⟨t, List.mem_of_find?_eq_some hf, rfl⟩
  | none =>
    simp only [hf] at h
    cases init with
    | nil => simp at h
    | cons t rest =>
      simp only [Except.ok.injEq] at h
      exact ⟨t, by simp, h⟩

theorem startChecks_lead (isLeading : Bool) (firstIdx : Nat) (init : List InitTrack) (s : FStream)
    (h : FStream.startChecks isLeading firstIdx init = .ok s) :
    s.init = init ∧ s.isLeading = isLeading ∧ s.firstIdx = firstIdx ∧ s.procs = none ∧ ∃ t ∈ init, t.id = s.leadingTrackID := by
  unfold FStream.startChecks at h
  split at h
  · cases h
  · cases hp : pickLeading init with
    | error e => simp [hp] at h
    | ok lid =>
      simp only [hp] at h
      split at h
      · cases h
      · cases h
        exact ⟨rfl, rfl, rfl, rfl, pickLeading_mem _ _ hp⟩

/-- a stream accepted by `run` whose (effective) tracks are decodable, with non-zero time scales and distinct ids,
    is well-formed -/
theorem start_wf (isLeading : Bool) (firstIdx : Nat) (init0 : List InitTrack) (s : FStream)
    (h : FStream.start isLeading firstIdx init0 = .ok s)
    (ht : ∀ t ∈ s.init, kindDecodable t.kind = true ∧ t.timeScale ≠ 0)
    (hn : (s.init.map (·.id)).Nodup) : WF s ∧ s.procs = none ∧ s.isLeading = isLeading := by
  unfold FStream.start at h
  split at h
  · cases h
  · split at h
    · cases h
    · obtain ⟨e1, e2, _, e4, t, htm, hid⟩ := startChecks_lead _ _ _ _ h
      exact ⟨⟨ht, hn, ⟨t, by rw [e1]; exact htm, hid⟩⟩, e4, e2⟩

theorem refSteps_payloads (s : TStream) (dt : Option Int) (t0 : Int) :
    ∀ (xs : List TrueSample) (r : Ref),
      ((refSteps s dt t0 r xs).2).map (·.payload) = (xs.filter (fun x => decide (0 ≤ x.pts - t0))).map (·.payload) := by
  intro xs
  induction xs with
  | nil => intro r; rfl
  | cons x rest ih =>
    intro r
    simp only [refSteps, List.map_append, ih, List.filter_cons]
    by_cases hx : x.pts - t0 < 0
    · have : ¬ (t0 ≤ x.pts) := by omega
      simp [refStep, hx, this]
    · have : t0 ≤ x.pts := by omega
      simp [refStep, hx, this]

theorem refSteps_mem (s : TStream) (dt : Option Int) (t0 : Int) :
    ∀ (xs : List TrueSample) (r : Ref) (d : Delivery), d ∈ (refSteps s dt t0 r xs).2 →
      ∃ x ∈ xs, d.track = s.firstIdx + x.track ∧ d.payload = x.payload ∧ d.pts = x.pts - t0 ∧ d.dts = x.dts - t0 := by
  intro xs
  induction xs with
  | nil => intro r d h; cases h
  | cons x rest ih =>
    intro r d h
    simp only [refSteps] at h
    rcases List.mem_append.mp h with h | h
    · simp only [refStep] at h
      split at h
      · cases h
      · simp only [List.mem_singleton] at h
        subst h
        exact ⟨x, by simp, rfl, rfl, rfl, rfl⟩
    · obtain ⟨y, hy, r'⟩ := ih _ d h
      exact ⟨y, List.mem_cons_of_mem _ hy, r'⟩

/-- once the segment's date-time has been consumed the anchor no longer changes -/
theorem refSteps_anchor_const (s : TStream) (dt : Option Int) (t0 : Int) :
    ∀ (xs : List TrueSample) (r : Ref), r.dtp = true → ∀ d ∈ (refSteps s dt t0 r xs).2, d.ntp = r.anchor.ntp d.dts := by
  intro xs
  induction xs with
  | nil => intro r _ d h; cases h
  | cons x rest ih =>
    intro r hr d h
    simp only [refSteps] at h
    rcases List.mem_append.mp h with h | h
    · simp only [refStep, hr, Bool.not_true, Bool.false_and] at h
      split at h
      · cases h
      · simp only [List.mem_singleton] at h
        subst h
        simp
    · have h1 : (refStep s dt t0 r x).1.dtp = true := by simp [refStep, hr]
      have h2 : (refStep s dt t0 r x).1.anchor = r.anchor := by simp [refStep, hr]
      have := ih _ h1 d h
      rw [h2] at this
      exact this

/-- MPEG-TS AbsoluteTime rule on the reference semantics -/
theorem refSteps_ntp (s : TStream) (hl : s.isLeading = true) (T t0 : Int) (r : Ref) (hr : r.dtp = false)
    (xl : TrueSample) (hx : (xl.track == s.leadingIdx) = true) (post : List TrueSample) :
    ∀ d ∈ (refSteps s (some T) t0 r (xl :: post)).2,
      d.ntp = some (T + timestampToDuration (d.dts - (xl.dts - t0)) 90000) := by
  intro d h
  simp only [refSteps] at h
  have ha : (refStep s (some T) t0 r xl).1.anchor = { avail := true, value := T, ts := xl.dts - t0 } := by
    simp [refStep, hr, hl, hx]
  rcases List.mem_append.mp h with h | h
  · simp only [refStep, hr, hl, hx] at h
    split at h
    · cases h
    · simp only [List.mem_singleton] at h
      subst h
      simp [Anchor.ntp]
  · have h1 : (refStep s (some T) t0 r xl).1.dtp = true := by simp [refStep, hr, hl, hx]
    have := refSteps_anchor_const s (some T) t0 post _ h1 d h
    rw [ha] at this
    simpa [Anchor.ntp] using this

end Hls.Client.TimeConvLemmas
