import Hls.Client.Select
/-!
Helper lemmas for property C11 (`Hls/Props/C11.lean`): closed forms of `selectNext`
and inductions over the playlist history for the two download loops.
-/
namespace Hls.Client.Select
open Hls.Gen.Select


theorem selectNextF_some (first pl : PlaylistView) (c : Int) :
    selectNextF first (some c) pl = selectNext (some c) pl := by
  rfl

theorem segAt_ok {segs : List Seg} {i : Int} {s : Seg} (h : segAt segs i = .ok s) :
    0 ≤ i ∧ i < segs.length ∧ segs[i.toNat]? = some s := by
  unfold segAt at h
  split at h
  · cases h
  · split at h
    · rename_i s' hs
      cases h
      have := (List.getElem?_eq_some_iff.mp hs).1
      refine ⟨by omega, by omega, hs⟩
    · cases h

theorem selectNext_some_ok {c : Int} {pl : PlaylistView} {s : Selection}
    (h : selectNext (some c) pl = .ok s) :
    0 ≤ c + 1 - pl.msn ∧ c + 1 - pl.msn < pl.segs.length ∧ s.id = c + 1 ∧ s.idx = c + 1 - pl.msn
      ∧ pl.segs[(c + 1 - pl.msn).toNat]? = some s.seg
      ∧ (pl.endlist = false → (pl.segs.length : Int) - (c + 1 - pl.msn) ≤ clientLiveMaxDistanceFromEnd)
      ∧ s.last = (pl.endlist && decide (c + 1 - pl.msn = pl.segs.length - 1)) := by
  simp only [selectNext, selectNextF, findSegmentWithID, wantedID, tooLate, newCurID, lastIndex, bind, Except.bind, pure, Except.pure] at h
  by_cases h1 : c + 1 - pl.msn < 0
  · simp [h1] at h
  by_cases h2 : c + 1 - pl.msn ≥ pl.segs.length
  · simp [h1, h2] at h
  simp only [h1, h2, decide_false, Bool.or_false, Bool.false_eq_true, if_false] at h
  cases hs : segAt pl.segs (c + 1 - pl.msn) with
  | error e => simp [hs] at h
  | ok v =>
    have hv := segAt_ok hs
    simp only [hs] at h
    cases he : pl.endlist with
    | false =>
      simp only [he, Bool.not_false, Bool.true_and, decide_eq_true_eq] at h
      by_cases h3 : (pl.segs.length : Int) - (c + 1 - pl.msn) > 5
      · simp [h3] at h
      · simp [h3] at h
        subst h
        simp [clientLiveMaxDistanceFromEnd, hv.2.2]
        omega
    | true =>
      simp only [he, Bool.not_true, Bool.false_and, Bool.false_eq_true, if_false, if_true] at h
      cases hl : segAt pl.segs ((pl.segs.length : Int) - 1) with
      | error e => simp [hl] at h
      | ok w =>
        simp [hl] at h
        subst h
        simp [hv.2.2]
        refine ⟨by omega, by omega, by omega, ?_⟩
        exact decide_eq_decide.mpr ⟨fun h => by omega, fun h => by omega⟩


theorem segAt_of_lt {segs : List Seg} {i : Int} (h0 : 0 ≤ i) (h1 : i < segs.length) :
    ∃ s, segAt segs i = .ok s ∧ segs[i.toNat]? = some s := by
  have hlt : i.toNat < segs.length := by omega
  refine ⟨segs[i.toNat], ?_, List.getElem?_eq_getElem hlt⟩
  unfold segAt
  have : ¬ i < 0 := by omega
  simp [this, List.getElem?_eq_getElem hlt]

/-- closed form of `selectNext (some c)` -/
theorem selectNext_some_eq (c : Int) (pl : PlaylistView) :
    selectNext (some c) pl =
      if c + 1 - pl.msn < 0 ∨ c + 1 - pl.msn ≥ pl.segs.length then .error .nextNotFound
      else if pl.endlist = false ∧ (pl.segs.length : Int) - (c + 1 - pl.msn) > clientLiveMaxDistanceFromEnd then .error .tooLate
      else match pl.segs[(c + 1 - pl.msn).toNat]? with
        | some sg => .ok { id := c + 1, idx := c + 1 - pl.msn, seg := sg,
                           last := pl.endlist && decide (c + 1 - pl.msn = pl.segs.length - 1) }
        | none => .error .panic := by
  simp only [selectNext, selectNextF, findSegmentWithID, wantedID, tooLate, newCurID, lastIndex, bind, Except.bind, pure, Except.pure, clientLiveMaxDistanceFromEnd]
  by_cases h1 : c + 1 - pl.msn < 0
  · simp [h1]
  by_cases h2 : c + 1 - pl.msn ≥ pl.segs.length
  · simp [h2]
  obtain ⟨v, hs, hv⟩ := segAt_of_lt (segs := pl.segs) (i := c + 1 - pl.msn) (by omega) (by omega)
  have hlen : (0:Int) ≤ (pl.segs.length : Int) - 1 ∧ (pl.segs.length : Int) - 1 < pl.segs.length := by omega
  obtain ⟨w, hw, _⟩ := segAt_of_lt (segs := pl.segs) hlen.1 hlen.2
  simp only [h1, h2, decide_false, Bool.or_false, Bool.false_eq_true, if_false, or_self, hs, hv]
  cases he : pl.endlist with
  | false =>
    by_cases h3 : (pl.segs.length : Int) - (c + 1 - pl.msn) > 5
    · simp [h3]
    · simp [h3]; omega
  | true =>
    simp [hw]
    constructor
    · omega
    · exact decide_eq_decide.mpr ⟨fun h => by omega, fun h => by omega⟩
/-- closed form of the VOD start -/
theorem selectNextF_none_vod (first pl : PlaylistView) (hv : first.ptype = .vod) :
    selectNextF first none pl =
      match pl.segs[0]? with
      | none => .error .noSegments
      | some sg => .ok { id := pl.msn, idx := 0, seg := sg,
                         last := pl.endlist && decide ((pl.segs.length : Int) = 1) } := by
  simp only [selectNextF, newCurID, lastIndex, bind, Except.bind, pure, Except.pure, hv, if_true]
  cases hsegs : pl.segs with
  | nil => simp
  | cons sg tl =>
    have hne : ¬ ((List.length (sg :: tl) : Nat) : Int) = 0 := by simp only [List.length_cons]; omega
    obtain ⟨v, hs, hv'⟩ := segAt_of_lt (segs := sg :: tl) (i := 0) (by omega) (by simp only [List.length_cons]; omega)
    have hlen : (0:Int) ≤ ((sg :: tl).length : Int) - 1 ∧ ((sg :: tl).length : Int) - 1 < (sg :: tl).length := by
      simp; omega
    obtain ⟨w, hw, _⟩ := segAt_of_lt (segs := sg :: tl) hlen.1 hlen.2
    simp at hv'
    subst hv'
    simp only [hne, if_false, hs, hw]
    cases he : pl.endlist with
    | false => simp
    | true =>
      simp
      cases tl with
      | nil => simp
      | cons a b => simp; omega

/-- closed form of the live start -/
theorem selectNextF_none_live (first pl : PlaylistView) (hv : first.ptype ≠ .vod) :
    selectNextF first none pl =
      if (pl.segs.length : Int) < 3 then .error .notEnough
      else match pl.segs[((pl.segs.length : Int) - 3).toNat]? with
        | some sg => .ok { id := pl.msn + pl.segs.length - 3, idx := pl.segs.length - 3, seg := sg, last := false }
        | none => .error .panic := by
  simp only [selectNextF, findSegmentWithInvPosition, startInvPos, newCurID, lastIndex, bind, Except.bind, pure, Except.pure, hv, if_false]
  by_cases h1 : (pl.segs.length : Int) < 3
  · have : (pl.segs.length : Int) - 3 < 0 := by omega
    simp [h1, this]
  have h1' : ¬ (pl.segs.length : Int) - 3 < 0 := by omega
  obtain ⟨v, hs, hv'⟩ := segAt_of_lt (segs := pl.segs) (i := (pl.segs.length : Int) - 3) (by omega) (by omega)
  have hlen : (0:Int) ≤ (pl.segs.length : Int) - 1 ∧ (pl.segs.length : Int) - 1 < pl.segs.length := by omega
  obtain ⟨w, hw, _⟩ := segAt_of_lt (segs := pl.segs) hlen.1 hlen.2
  simp only [h1, h1', decide_false, Bool.false_eq_true, if_false, hs, hv', hw]
  cases he : pl.endlist with
  | false => simp; omega
  | true => simp; omega
/-- `l = [a, a+1, a+2, …]` -/
def consec : Int → List Int → Prop
  | _, [] => True
  | a, x :: xs => x = a ∧ consec (a + 1) xs

theorem consec_iff (a : Int) (l : List Int) :
    consec a l ↔ l = (List.range l.length).map (fun (j : Nat) => a + (j : Int)) := by
  induction l generalizing a with
  | nil => simp [consec]
  | cons x xs ih =>
    simp only [consec, List.length_cons, List.range_succ_eq_map, List.map_cons, List.map_map, List.cons.injEq, ih]
    constructor
    · rintro ⟨rfl, h⟩
      refine ⟨by simp, ?_⟩
      rw [h]; simp
      intro j _; omega
    · rintro ⟨h1, h2⟩
      refine ⟨by simpa using h1, ?_⟩
      rw [h2]; simp
      intro j _; omega

/-- kinds alternate `a, b, a, b, …` -/
def altKinds (a b : ReqKind) : List Req → Prop
  | [] => True
  | r :: rs => r.kind = a ∧ altKinds b a rs

theorem altKinds_get {a b : ReqKind} {l : List Req} (h : altKinds a b l) :
    ∀ (i : Nat) (hi : i < l.length), l[i].kind = if i % 2 = 0 then a else b := by
  induction l generalizing a b with
  | nil => intro i hi; simp at hi
  | cons r rs ih =>
    intro i hi
    cases i with
    | zero => simpa using h.1
    | succ j =>
      have := ih h.2 j (by simpa using hi)
      simp only [List.getElem_cons_succ, this]
      by_cases hj : j % 2 = 0
      · have : (j + 1) % 2 ≠ 0 := by omega
        simp [hj, this]
      · have : (j + 1) % 2 = 0 := by omega
        simp [hj, this]

theorem tradLoop_error {first : PlaylistView} {cur pl rest e}
    (h : selectNextF first cur pl = .error e) : tradLoop first cur pl rest = ([], .sel e) := by
  cases rest <;> (rw [tradLoop]; simp [h])

theorem tradLoop_ids (first : PlaylistView) : ∀ (rest : List PlaylistView) (cur : Option Int) (pl : PlaylistView)
    (s : Selection), selectNextF first cur pl = .ok s →
    consec s.id (segIds (tradLoop first cur pl rest).1) := by
  intro rest
  induction rest with
  | nil =>
    intro cur pl s h
    rw [tradLoop]; by_cases hl : s.last <;> simp [h, hl, segIds, segReq, plReq, consec]
  | cons pl' rest' ih =>
    intro cur pl s h
    by_cases hl : s.last
    · rw [tradLoop]; simp [h, hl, segIds, segReq, consec]
    · rw [tradLoop]; simp only [h, hl]
      cases h' : selectNextF first (some s.id) pl' with
      | error e =>
        simp [tradLoop_error h', segIds, segReq, plReq, consec]
      | ok s' =>
        have := ih (some s.id) pl' s' h'
        have hid : s'.id = s.id + 1 := (selectNext_some_ok (by rw [← selectNextF_some first]; exact h')).2.2.1
        rw [hid] at this
        simpa [segIds, segReq, plReq, consec] using this

theorem tradLoop_alt (first : PlaylistView) : ∀ (rest : List PlaylistView) (cur : Option Int) (pl : PlaylistView),
    altKinds .segment .playlist (tradLoop first cur pl rest).1 := by
  intro rest
  induction rest with
  | nil =>
    intro cur pl
    cases h : selectNextF first cur pl with
    | error e => rw [tradLoop]; simp [h, altKinds]
    | ok s => rw [tradLoop]; by_cases hl : s.last <;> simp [h, hl, altKinds, segReq, plReq]
  | cons pl' rest' ih =>
    intro cur pl
    cases h : selectNextF first cur pl with
    | error e => rw [tradLoop]; simp [h, altKinds]
    | ok s =>
      by_cases hl : s.last
      · rw [tradLoop]; simp [h, hl, altKinds, segReq]
      · rw [tradLoop]; simp only [h, hl]
        exact ⟨rfl, rfl, ih (some s.id) pl'⟩


theorem tradLoop_nil_of_log_nil {first : PlaylistView} {cur pl rest}
    (h : (tradLoop first cur pl rest).1 = []) : ∃ e, selectNextF first cur pl = .error e := by
  cases hs : selectNextF first cur pl with
  | error e => exact ⟨e, rfl⟩
  | ok s =>
    rw [tradLoop] at h
    cases rest <;> by_cases hl : s.last <;> simp [hs, hl] at h

/-- every segment request of the traditional loop is the selection made on the playlist returned
    by the poll with the same index, with `cur` = the previous id -/
theorem tradLoop_steps (first : PlaylistView) : ∀ (rest : List PlaylistView) (cur : Option Int) (pl : PlaylistView)
    (s : Selection), selectNextF first cur pl = .ok s →
    ∀ k : Nat, 2 * k < (tradLoop first cur pl rest).1.length →
      ∃ plk sk, (pl :: rest)[k]? = some plk ∧
        selectNextF first (if k = 0 then cur else some (s.id + (k : Int) - 1)) plk = .ok sk ∧
        (tradLoop first cur pl rest).1[2 * k]? = some (segReq sk) := by
  intro rest
  induction rest with
  | nil =>
    intro cur pl s h k hk
    have hk0 : k = 0 := by
      rw [tradLoop] at hk
      by_cases hl : s.last <;> simp [h, hl] at hk <;> omega
    subst hk0
    refine ⟨pl, s, rfl, by simpa using h, ?_⟩
    rw [tradLoop]
    by_cases hl : s.last <;> simp [h, hl]
  | cons pl' rest' ih =>
    intro cur pl s h k hk
    cases k with
    | zero =>
      refine ⟨pl, s, rfl, by simpa using h, ?_⟩
      rw [tradLoop]
      by_cases hl : s.last <;> simp [h, hl]
    | succ k' =>
      rw [tradLoop] at hk ⊢
      by_cases hl : s.last
      · simp [h, hl] at hk
      · simp only [h, hl, Bool.false_eq_true, if_false, List.length_cons] at hk ⊢
        have hk' : 2 * k' < (tradLoop first (some s.id) pl' rest').1.length := by omega
        cases h' : selectNextF first (some s.id) pl' with
        | error e =>
          rw [tradLoop_error h'] at hk'
          simp at hk'
        | ok s' =>
          have hid : s'.id = s.id + 1 := (selectNext_some_ok (by rw [← selectNextF_some first]; exact h')).2.2.1
          obtain ⟨plk, sk, h1, h2, h3⟩ := ih (some s.id) pl' s' h' k' hk'
          refine ⟨plk, sk, by simpa using h1, ?_, ?_⟩
          · have : (if k' + 1 = 0 then cur else some (s.id + ((k' + 1 : Nat) : Int) - 1))
                 = (if k' = 0 then some s.id else some (s'.id + (k' : Int) - 1)) := by
              by_cases hz : k' = 0
              · subst hz; simp
              · simp [hz, hid]; omega
            rw [this]; exact h2
          · have : 2 * (k' + 1) = 2 * k' + 1 + 1 := by omega
            rw [this]
            simpa using h3

/-- the last flag of any successful selection -/
theorem selectNextF_last {first : PlaylistView} {cur pl s} (h : selectNextF first cur pl = .ok s) :
    s.last = (pl.endlist && decide (s.idx = (pl.segs.length : Int) - 1)) ∧ s.id = pl.msn + s.idx
      ∧ 0 ≤ s.idx ∧ s.idx < pl.segs.length ∧ pl.segs[s.idx.toNat]? = some s.seg := by
  cases cur with
  | some c =>
    have := selectNext_some_ok (by rw [← selectNextF_some first]; exact h)
    obtain ⟨a, b, c1, d, e, _, g⟩ := this
    rw [d]
    exact ⟨g, by omega, a, b, e⟩
  | none =>
    by_cases hv : first.ptype = .vod
    · rw [selectNextF_none_vod first pl hv] at h
      cases hs : pl.segs[0]? with
      | none => simp [hs] at h
      | some sg =>
        simp [hs] at h
        subst h
        have hlen : 0 < pl.segs.length := by
          cases hp : pl.segs with
          | nil => simp [hp] at hs
          | cons a b => simp
        simp [hs]
        refine ⟨?_, by omega⟩
        congr 1
        exact decide_eq_decide.mpr ⟨fun h => by omega, fun h => by omega⟩
    · rw [selectNextF_none_live first pl hv] at h
      by_cases h3 : (pl.segs.length : Int) < 3
      · simp [h3] at h
      · simp only [h3, if_false] at h
        cases hs : pl.segs[((pl.segs.length : Int) - 3).toNat]? with
        | none => simp [hs] at h
        | some sg =>
          simp [hs] at h
          subst h
          simp [hs]
          refine ⟨by omega, by omega⟩

theorem selectNextF_ne_panic (first : PlaylistView) (cur pl) : selectNextF first cur pl ≠ .error .panic := by
  cases cur with
  | some c =>
    rw [selectNextF_some, selectNext_some_eq]
    by_cases h1 : c + 1 - pl.msn < 0 ∨ c + 1 - pl.msn ≥ pl.segs.length
    · simp [h1]
    · simp only [h1, if_false]
      split
      · simp
      · have hlt : (c + 1 - pl.msn).toNat < pl.segs.length := by omega
        simp [List.getElem?_eq_getElem hlt]
  | none =>
    by_cases hv : first.ptype = .vod
    · rw [selectNextF_none_vod first pl hv]
      split <;> simp
    · rw [selectNextF_none_live first pl hv]
      split
      · simp
      · have hlt : ((pl.segs.length : Int) - 3).toNat < pl.segs.length := by omega
        simp [List.getElem?_eq_getElem hlt]

/-- end of stream is reached only right after the request for the last segment of an ENDLIST playlist -/
theorem tradLoop_eos (first : PlaylistView) : ∀ (rest : List PlaylistView) (cur : Option Int) (pl : PlaylistView),
    (tradLoop first cur pl rest).2 = .eos →
    ∃ plk sk, plk ∈ pl :: rest ∧ plk.endlist = true ∧ sk.id = plk.msn + plk.segs.length - 1 ∧
      plk.segs.getLast? = some sk.seg ∧
      (tradLoop first cur pl rest).1.getLast? = some (segReq sk) := by
  intro rest
  induction rest with
  | nil =>
    intro cur pl h
    rw [tradLoop] at h ⊢
    cases hs : selectNextF first cur pl with
    | error e => simp [hs] at h
    | ok s =>
      by_cases hl : s.last
      · have := selectNextF_last hs
        rw [hl] at this
        simp at this
        refine ⟨pl, s, by simp, this.1.1, by omega, ?_, by simp [hl]⟩
        rw [List.getLast?_eq_getElem?, ← this.2.2.2.2]
        congr 1; omega
      · simp [hs, hl] at h
  | cons pl' rest' ih =>
    intro cur pl h
    rw [tradLoop] at h ⊢
    cases hs : selectNextF first cur pl with
    | error e => simp [hs] at h
    | ok s =>
      by_cases hl : s.last
      · have := selectNextF_last hs
        rw [hl] at this
        simp at this
        refine ⟨pl, s, by simp, this.1.1, by omega, ?_, by simp [hl]⟩
        rw [List.getLast?_eq_getElem?, ← this.2.2.2.2]
        congr 1; omega
      · simp only [hs, hl] at h ⊢
        obtain ⟨plk, sk, h1, h2, h3, h4, h5⟩ := ih (some s.id) pl' h
        refine ⟨plk, sk, List.mem_cons_of_mem _ h1, h2, h3, h4, ?_⟩
        have hne : (tradLoop first (some s.id) pl' rest').1 ≠ [] := by
          intro hnil; rw [hnil] at h5; simp at h5
        simp only [Bool.false_eq_true, if_false]
        rw [List.getLast?_cons_cons, List.getLast?_cons_of_ne_nil hne] <;> exact h5


theorem llLoop_alt (skip : Bool) : ∀ (rest : List PlaylistView) (pl : PlaylistView),
    altKinds .hint .playlist (llLoop skip pl rest).1 := by
  intro rest
  induction rest with
  | nil =>
    intro pl
    rw [llLoop]
    cases pl.hint <;> simp [altKinds, hintReq, plReq]
  | cons pl' rest' ih =>
    intro pl
    rw [llLoop]
    cases pl.hint with
    | none => simp [altKinds]
    | some h =>
      cases h' : pl'.hint with
      | none => simp [h', altKinds, hintReq, plReq]
      | some h2 =>
        simp only [h']
        exact ⟨rfl, rfl, ih pl'⟩

theorem llLoop_skip (skip : Bool) : ∀ (rest : List PlaylistView) (pl : PlaylistView),
    ∀ r ∈ (llLoop skip pl rest).1, r.kind = .playlist → r.skip = skip := by
  intro rest
  induction rest with
  | nil =>
    intro pl r hr hk
    rw [llLoop] at hr
    cases hh : pl.hint <;> simp [hh] at hr
    rcases hr with rfl | rfl
    · simp [hintReq] at hk
    · rfl
  | cons pl' rest' ih =>
    intro pl r hr hk
    rw [llLoop] at hr
    cases hh : pl.hint with
    | none => simp [hh] at hr
    | some h =>
      cases h' : pl'.hint with
      | none =>
        simp [hh, h'] at hr
        rcases hr with rfl | rfl
        · simp [hintReq] at hk
        · rfl
      | some h2 =>
        simp [hh, h'] at hr
        rcases hr with rfl | rfl | hr
        · simp [hintReq] at hk
        · rfl
        · exact ih pl' r hr hk

theorem llLoop_steps (skip : Bool) : ∀ (rest : List PlaylistView) (pl : PlaylistView),
    ∀ k : Nat, 2 * k < (llLoop skip pl rest).1.length →
      ∃ plk h, (pl :: rest)[k]? = some plk ∧ plk.hint = some h ∧
        (llLoop skip pl rest).1[2 * k]? = some (hintReq h) := by
  intro rest
  induction rest with
  | nil =>
    intro pl k hk
    rw [llLoop] at hk ⊢
    cases hh : pl.hint with
    | none => simp [hh] at hk
    | some h =>
      simp [hh] at hk ⊢
      have : k = 0 := by omega
      subst this
      simp [hh]
  | cons pl' rest' ih =>
    intro pl k hk
    rw [llLoop] at hk ⊢
    cases hh : pl.hint with
    | none => simp [hh] at hk
    | some h =>
      cases h' : pl'.hint with
      | none =>
        simp [hh, h'] at hk ⊢
        have : k = 0 := by omega
        subst this
        simp [hh]
      | some h2 =>
        simp only [hh, h', List.length_cons] at hk ⊢
        cases k with
        | zero => exact ⟨pl, h, rfl, hh, rfl⟩
        | succ k' =>
          obtain ⟨plk, hk2, a, b, c⟩ := ih pl' k' (by omega)
          refine ⟨plk, hk2, by simpa using a, b, ?_⟩
          have : 2 * (k' + 1) = 2 * k' + 1 + 1 := by omega
          rw [this]
          simpa using c

/-- closed form of how the Low-Latency loop ends: it runs until the first reloaded playlist
    without a preload hint (or until the origin stops answering) -/
theorem llLoop_outcome (skip : Bool) : ∀ (rest : List PlaylistView) (pl : PlaylistView),
    pl.hint.isSome = true →
    (llLoop skip pl rest).2 =
      (match rest.find? (fun p => p.hint.isNone) with
       | none => .playlistFetch
       | some p => if llEndOfStream p.endlist then .eos else .hintDisappeared) ∧
    (llLoop skip pl rest).1.length =
      2 * ((match rest.findIdx? (fun p => p.hint.isNone) with | none => rest.length | some k => k) + 1) := by
  intro rest
  induction rest with
  | nil =>
    intro pl hh
    rw [llLoop]
    cases h : pl.hint with
    | none => simp [h] at hh
    | some x => simp
  | cons pl' rest' ih =>
    intro pl hh
    rw [llLoop]
    cases h : pl.hint with
    | none => simp [h] at hh
    | some x =>
      cases h' : pl'.hint with
      | none =>
        simp [List.find?_cons, List.findIdx?_cons, h']
      | some h2 =>
        have := ih pl' (by simp [h'])
        simp only [List.find?_cons, List.findIdx?_cons, h', Option.isNone_some]
        refine ⟨by simpa using this.1, ?_⟩
        have h2 := this.2
        cases hf : rest'.findIdx? (fun p => p.hint.isNone) <;>
          simp only [hf] at h2 ⊢ <;> simp [h2] <;> simp +arith

theorem tradLoop_noskip (first : PlaylistView) : ∀ (rest : List PlaylistView) (cur : Option Int) (pl : PlaylistView),
    ∀ r ∈ (tradLoop first cur pl rest).1, r.skip = false := by
  intro rest
  induction rest with
  | nil =>
    intro cur pl r hr
    rw [tradLoop] at hr
    cases hs : selectNextF first cur pl with
    | error e => simp [hs] at hr
    | ok s =>
      by_cases hl : s.last <;> simp [hs, hl] at hr
      · subst hr; rfl
      · rcases hr with rfl | rfl <;> rfl
  | cons pl' rest' ih =>
    intro cur pl r hr
    rw [tradLoop] at hr
    cases hs : selectNextF first cur pl with
    | error e => simp [hs] at hr
    | ok s =>
      by_cases hl : s.last <;> simp [hs, hl] at hr
      · subst hr; rfl
      · rcases hr with rfl | rfl | hr
        · rfl
        · rfl
        · exact ih _ _ r hr

theorem llLoop_ne_panic (skip : Bool) : ∀ (rest : List PlaylistView) (pl : PlaylistView),
    pl.hint.isSome = true → (llLoop skip pl rest).2 ≠ .panic := by
  intro rest
  induction rest with
  | nil =>
    intro pl hh
    rw [llLoop]
    cases h : pl.hint with
    | none => simp [h] at hh
    | some x => simp
  | cons pl' rest' ih =>
    intro pl hh
    rw [llLoop]
    cases h : pl.hint with
    | none => simp [h] at hh
    | some x =>
      cases h' : pl'.hint with
      | none => by_cases he : llEndOfStream pl'.endlist = true <;> simp [h', he]
      | some h2 => simpa [h'] using ih pl' (by simp [h'])
end Hls.Client.Select
