import Hls.Playlist.MediaFold
/-!
# Every line of a marshaled well-formed playlist is clean (no LF inside, no CR at the end)
-/
namespace Hls.Playlist.MP

def noCRLF (s : Str) : Bool := s.all fun c => c != '\n' && c != '\r'

theorem clean_of_noCRLF {s : Str} (h : noCRLF s = true) : Clean s := by
  constructor
  · exact not_mem_of_all h (by decide)
  · exact getLast_ne_of_all h (by decide)

theorem noCRLF_append (a b : Str) : noCRLF (a ++ b) = (noCRLF a && noCRLF b) := by
  simp [noCRLF, List.all_append]

theorem noCRLF_cons (c : Char) (s : Str) : noCRLF (c :: s) = ((c != '\n' && c != '\r') && noCRLF s) := by
  simp [noCRLF]

theorem noCRLF_of_all {P : Char → Bool} {s : Str} (h : s.all P = true) (h1 : P '\n' = false) (h2 : P '\r' = false) :
    noCRLF s = true := by
  apply List.all_eq_true.mpr
  intro c hc
  have := List.all_eq_true.mp h c hc
  have hn : c ≠ '\n' := fun e => by subst e; simp [h1] at this
  have hr : c ≠ '\r' := fun e => by subst e; simp [h2] at this
  simp [hn, hr]

theorem noCRLF_of_quotedOK {s : Str} (h : quotedOK s = true) : noCRLF s = true := by
  apply List.all_eq_true.mpr
  intro c hc
  have := List.all_eq_true.mp h c hc
  simp only [Bool.and_eq_true] at this ⊢
  exact ⟨this.1.2, this.2⟩

theorem noCRLF_of_lineOK {s : Str} (h : lineOK s = true) : noCRLF s = true := h

theorem noCRLF_formatNat (n : Nat) : noCRLF (formatNat n) = true :=
  noCRLF_of_all (formatNat_spec n).2.1 (by decide) (by decide)

theorem noCRLF_byteRange (r : ByteRange) : noCRLF (ByteRange.marshal r) = true :=
  noCRLF_of_all (byteRange_marshal_chars r) (by decide) (by decide)

/-- attribute lists whose names and values are free of CR / LF -/
def AttrsNoCRLF (as : List (Str × AV)) : Prop := ∀ a ∈ as, noCRLF a.1 = true ∧ noCRLF a.2.val = true

theorem noCRLF_renderAttr {a : Str × AV} (h : noCRLF a.1 = true ∧ noCRLF a.2.val = true) : noCRLF (renderAttr a) = true := by
  obtain ⟨k, v⟩ := a
  cases v <;> simp_all [renderAttr, noCRLF_append, noCRLF_cons, AV.val]
  simp [noCRLF]

theorem noCRLF_renderAttrs : ∀ (as : List (Str × AV)), AttrsNoCRLF as → noCRLF (renderAttrs as) = true
  | [], _ => rfl
  | [a], h => by
    simp only [renderAttrs]
    exact noCRLF_renderAttr (h a (by simp))
  | a :: b :: rest, h => by
    simp only [renderAttrs, noCRLF_append, noCRLF_cons, Bool.and_eq_true]
    refine ⟨noCRLF_renderAttr (h a (by simp)), by decide, ?_⟩
    exact noCRLF_renderAttrs (b :: rest) (fun x hx => h x (by simp [hx]))

theorem attrsNoCRLF_append {a b : List (Str × AV)} (ha : AttrsNoCRLF a) (hb : AttrsNoCRLF b) : AttrsNoCRLF (a ++ b) := by
  intro x hx
  rcases List.mem_append.mp hx with h | h
  · exact ha x h
  · exact hb x h

theorem attrsNoCRLF_nil : AttrsNoCRLF [] := fun _ h => by simp at h

theorem attrsNoCRLF_single {k : Str} {v : AV} (hk : noCRLF k = true) (hv : noCRLF v.val = true) : AttrsNoCRLF [(k, v)] := by
  intro x hx
  simp at hx
  subst hx
  exact ⟨hk, hv⟩

theorem attrsNoCRLF_optBr (len start : Option Nat) : AttrsNoCRLF (optBr len start) := by
  cases len with
  | none => exact attrsNoCRLF_nil
  | some l => exact attrsNoCRLF_single (by decide) (noCRLF_byteRange _)

theorem attrsNoCRLF_ite {b : Bool} {k : Str} {v : AV} (hk : noCRLF k = true) (hv : noCRLF v.val = true) :
    AttrsNoCRLF (if b then [(k, v)] else []) := by
  cases b
  · exact attrsNoCRLF_nil
  · exact attrsNoCRLF_single hk hv

theorem attrsNoCRLF_iteP {p : Prop} [Decidable p] {k : Str} {v : AV} (hk : noCRLF k = true) (hv : noCRLF v.val = true) :
    AttrsNoCRLF (if p then [(k, v)] else []) := by
  split
  · exact attrsNoCRLF_single hk hv
  · exact attrsNoCRLF_nil

section
variable {C : Codec} (hC : C.Valid)
include hC

theorem noCRLF_fmtDur {d : Int} (hd : DurDom d) : noCRLF (C.fmtDur d) = true :=
  noCRLF_of_all (fmtDur_chars hC hd) (by decide) (by decide)

theorem noCRLF_fmtTime {t : Time} (hw : wfTime t = true) : noCRLF (C.fmtTime t) = true :=
  noCRLF_of_all (hC.time_chars t hw) (by decide) (by decide)

theorem noCRLF_partLine {p : Part} (hw : wfPart p = true) : noCRLF (Part.line C p) = true := by
  simp only [wfPart, Bool.and_eq_true] at hw
  obtain ⟨⟨⟨hd, hu⟩, hq⟩, hb⟩ := hw
  simp only [Part.line, noCRLF_append, Bool.and_eq_true]
  refine ⟨by decide, noCRLF_renderAttrs _ ?_⟩
  unfold Part.attrs
  refine attrsNoCRLF_append (attrsNoCRLF_append (attrsNoCRLF_append ?_ ?_) (attrsNoCRLF_optBr _ _)) ?_
  · intro x hx
    simp at hx
    rcases hx with rfl | rfl
    · exact ⟨by show noCRLF cs!"DURATION" = true; decide, noCRLF_fmtDur hC (natAbs_lt_of_posDur hd).1⟩
    · exact ⟨by show noCRLF cs!"URI" = true; decide, noCRLF_of_quotedOK hq⟩
  · exact attrsNoCRLF_ite (by decide) (by decide)
  · exact attrsNoCRLF_ite (by decide) (by decide)

theorem noCRLF_partLines {ps : List Part} (hw : ps.all wfPart = true) : ∀ l ∈ partLines C ps, noCRLF l = true := by
  intro l hl
  simp only [partLines, List.mem_map] at hl
  obtain ⟨p, hp, rfl⟩ := hl
  exact noCRLF_partLine hC (List.all_eq_true.mp hw p hp)

end

theorem noCRLF_keyLine {k : Key} (hw : wfKey k = true) : noCRLF (keyLine k) = true := by
  simp only [keyLine, noCRLF_append, Bool.and_eq_true]
  refine ⟨by decide, noCRLF_renderAttrs _ ?_⟩
  unfold wfKey at hw
  unfold Key.attrs
  by_cases hm : k.method = methodNone
  · simp only [hm, ne_eq, not_true_eq_false, ↓reduceIte, List.append_nil]
    exact attrsNoCRLF_single (by decide) (by decide)
  · simp only [hm, ↓reduceIte, Bool.and_eq_true, Bool.or_eq_true, decide_eq_true_eq] at hw
    obtain ⟨⟨⟨⟨⟨hmm, hu⟩, hq⟩, hiv⟩, hkf⟩, hkfv⟩ := hw
    simp only [hm, ne_eq, not_false_eq_true, ↓reduceIte]
    refine attrsNoCRLF_append ?_ (attrsNoCRLF_append (attrsNoCRLF_append (attrsNoCRLF_append ?_ ?_) ?_) ?_)
    · rcases hmm with h | h <;> rw [h] <;> exact attrsNoCRLF_single (by decide) (by decide)
    · exact attrsNoCRLF_single (by decide) (noCRLF_of_quotedOK hq)
    · split
      · rename_i hne
        rcases hiv with h | h
        · exact absurd h hne
        · exact attrsNoCRLF_single (by decide) (noCRLF_of_all (isHexSeq_chars h) (by decide) (by decide))
      · exact attrsNoCRLF_nil
    · exact attrsNoCRLF_iteP (by decide) (noCRLF_of_quotedOK hkf)
    · exact attrsNoCRLF_iteP (by decide) (noCRLF_of_quotedOK hkfv)

theorem mem_flagLine {b : Bool} {l x : Str} (h : x ∈ flagLine b l) : x = l := by
  cases b <;> simp [flagLine] at h
  exact h

theorem mem_optLine {α} {o : Option α} {f : α → Str} {x : Str} (h : x ∈ optLine o f) : ∃ a, o = some a ∧ x = f a := by
  cases o with
  | none => simp [optLine] at h
  | some a => simp [optLine] at h; exact ⟨a, rfl, h⟩

section
variable {C : Codec} (hC : C.Valid)
include hC

theorem noCRLF_segmentLines {s : Segment} (hw : wfSegment s = true) : ∀ l ∈ Segment.lines C s, noCRLF l = true := by
  simp only [wfSegment, Bool.and_eq_true, decide_eq_true_eq] at hw
  obtain ⟨⟨⟨⟨⟨⟨⟨⟨⟨⟨hd, hu⟩, hh⟩, hl⟩, ht⟩, htl⟩, hbr⟩, hb⟩, hdt⟩, hk⟩, hp⟩ := hw
  intro l hmem
  simp only [Segment.lines, List.mem_append, List.mem_cons, List.mem_nil_iff, or_false] at hmem
  rcases hmem with ((((((h | h) | h) | h) | h) | h) | h) | h
  · rw [mem_flagLine h]; exact (by decide)
  · rw [mem_flagLine h]; exact (by decide)
  · obtain ⟨t, ht', rfl⟩ := mem_optLine h
    rw [ht'] at hdt
    simp only [pdtLine, noCRLF_append, Bool.and_eq_true]
    exact ⟨by decide, noCRLF_fmtTime hC (by simpa using hdt)⟩
  · obtain ⟨v, hv, rfl⟩ := mem_optLine h
    rw [hv] at hbr
    obtain ⟨h0, _⟩ := int31_bounds (by simpa using hbr)
    simp only [bitrateLine, noCRLF_append, Bool.and_eq_true, formatInt_nonneg h0]
    exact ⟨by decide, noCRLF_formatNat _⟩
  · exact noCRLF_partLines hC hp l h
  · subst h
    simp only [extinfLine, noCRLF_append, noCRLF_cons, Bool.and_eq_true]
    exact ⟨⟨by decide, noCRLF_fmtDur hC (natAbs_lt_of_posDur hd).1⟩, by decide, noCRLF_of_lineOK htl⟩
  · obtain ⟨v, _, rfl⟩ := mem_optLine h
    simp only [byteRangeLine, noCRLF_append, Bool.and_eq_true]
    exact ⟨by decide, noCRLF_byteRange _⟩
  · subst h
    exact noCRLF_of_lineOK hl

theorem noCRLF_segmentsLines : ∀ (segs : List Segment) (prev : Option Key), segs.all wfSegment = true →
    ∀ l ∈ segmentsLines C prev segs, noCRLF l = true
  | [], _, _, l, h => by simp [segmentsLines] at h
  | s :: rest, prev, hw, l, h => by
    simp only [List.all_cons, Bool.and_eq_true] at hw
    obtain ⟨hws, hwr⟩ := hw
    simp only [segmentsLines] at h
    cases hkey : s.key with
    | none =>
      simp only [hkey, List.mem_append] at h
      rcases h with h | h
      · exact noCRLF_segmentLines hC hws l h
      · exact noCRLF_segmentsLines rest prev hwr l h
    | some k =>
      have hwk : wfKey k = true := by
        simp only [wfSegment, Bool.and_eq_true, hkey, Option.all_some] at hws
        exact hws.1.2
      simp only [hkey] at h
      split at h
      · simp only [List.mem_cons, List.mem_append] at h
        rcases h with rfl | h | h
        · exact noCRLF_keyLine hwk
        · exact noCRLF_segmentLines hC hws l h
        · exact noCRLF_segmentsLines rest (some k) hwr l h
      · simp only [List.mem_append] at h
        rcases h with h | h
        · exact noCRLF_segmentLines hC hws l h
        · exact noCRLF_segmentsLines rest prev hwr l h

theorem noCRLF_lines (p : Media) (hw : WFMedia p) : ∀ l ∈ Media.lines C p, noCRLF l = true := by
  simp only [WFMedia, wfMedia, Bool.and_eq_true, decide_eq_true_eq] at hw
  obtain ⟨⟨⟨⟨⟨⟨⟨⟨⟨⟨⟨⟨⟨⟨⟨⟨hv0, hv1⟩, htd⟩, htd0⟩, hms⟩, hds⟩, hsk⟩, hst⟩, hsc⟩, hpi⟩, hpt⟩, hmap⟩, hne⟩, hsegs⟩, hkp⟩, hparts⟩, hhint⟩ := hw
  have hnat : ∀ (lit : Str) (v : Int), noCRLF lit = true → int31 v = true → noCRLF (lit ++ formatInt v) = true := by
    intro lit v hl hv
    obtain ⟨h0, _⟩ := int31_bounds hv
    simp only [noCRLF_append, Bool.and_eq_true, formatInt_nonneg h0]
    exact ⟨hl, noCRLF_formatNat _⟩
  intro l hmem
  simp only [Media.lines, Media.headerLines, Media.tailLines, List.mem_append, List.mem_cons, List.mem_nil_iff,
    or_false] at hmem
  rcases hmem with ((((((((((((h | h) | h) | h) | h) | h) | h) | h) | h) | h) | h) | h) | h) | ((h | h) | h)
  · subst h
    exact hnat _ _ (by decide) (by
      have : maxSupportedVersion = 10 := rfl
      simp [int31]; omega)
  · rw [mem_flagLine h]; exact (by decide)
  · obtain ⟨t, ht, rfl⟩ := mem_optLine h
    rw [ht] at hst
    simp only [startLine, noCRLF_append, Bool.and_eq_true]
    exact ⟨by decide, noCRLF_renderAttrs _ (attrsNoCRLF_single (by decide)
      (noCRLF_fmtDur hC (natAbs_lt_of_signedDur (by simpa using hst)).1))⟩
  · obtain ⟨v, _, rfl⟩ := mem_optLine h
    cases v <;> decide
  · subst h; exact hnat _ _ (by decide) htd
  · obtain ⟨t, ht, rfl⟩ := mem_optLine h
    rw [ht] at hsc
    simp only [Option.all_some, Bool.and_eq_true] at hsc
    simp only [serverControlLine, noCRLF_append, Bool.and_eq_true]
    refine ⟨by decide, noCRLF_renderAttrs _ ?_⟩
    unfold ServerControl.attrs
    refine attrsNoCRLF_append (attrsNoCRLF_append (attrsNoCRLF_ite (by decide) (by decide)) ?_) ?_
    · cases hphb : t.partHoldBack with
      | none => exact attrsNoCRLF_nil
      | some d =>
        rw [hphb] at hsc
        exact attrsNoCRLF_single (by decide) (noCRLF_fmtDur hC (natAbs_lt_of_nnDur (by simpa using hsc.1)))
    · cases hcsu : t.canSkipUntil with
      | none => exact attrsNoCRLF_nil
      | some d =>
        rw [hcsu] at hsc
        exact attrsNoCRLF_single (by decide) (noCRLF_fmtDur hC (natAbs_lt_of_nnDur (by simpa using hsc.2)))
  · obtain ⟨t, ht, rfl⟩ := mem_optLine h
    rw [ht] at hpi
    simp only [partInfLine, noCRLF_append, Bool.and_eq_true]
    exact ⟨by decide, noCRLF_renderAttrs _ (attrsNoCRLF_single (by decide)
      (noCRLF_fmtDur hC (natAbs_lt_of_posDur (by simpa using hpi)).1))⟩
  · subst h; exact hnat _ _ (by decide) hms
  · obtain ⟨v, hv, rfl⟩ := mem_optLine h
    rw [hv] at hds
    exact hnat _ _ (by decide) (by simpa using hds)
  · obtain ⟨v, hv, rfl⟩ := mem_optLine h
    rw [hv] at hpt
    simp only [Option.all_some, Bool.or_eq_true, decide_eq_true_eq] at hpt
    rcases hpt with rfl | rfl <;> decide
  · obtain ⟨t, ht, rfl⟩ := mem_optLine h
    rw [ht] at hmap
    simp only [Option.all_some, Bool.and_eq_true] at hmap
    simp only [mapLine, noCRLF_append, Bool.and_eq_true]
    refine ⟨by decide, noCRLF_renderAttrs _ ?_⟩
    exact attrsNoCRLF_append (attrsNoCRLF_single (by decide) (noCRLF_of_quotedOK hmap.1.2)) (attrsNoCRLF_optBr _ _)
  · obtain ⟨v, hv, rfl⟩ := mem_optLine h
    rw [hv] at hsk
    obtain ⟨h0, _⟩ := int31_bounds (by simpa using hsk)
    simp only [skipLine, noCRLF_append, Bool.and_eq_true]
    refine ⟨by decide, noCRLF_renderAttrs _ (attrsNoCRLF_single (by decide) ?_)⟩
    simp only [AV.val, formatInt_nonneg h0]
    exact noCRLF_formatNat _
  · exact noCRLF_segmentsLines hC _ _ hsegs l h
  · exact noCRLF_partLines hC hparts l h
  · obtain ⟨t, ht, rfl⟩ := mem_optLine h
    rw [ht] at hhint
    simp only [Option.all_some, Bool.and_eq_true] at hhint
    simp only [hintLine, noCRLF_append, Bool.and_eq_true]
    refine ⟨by decide, noCRLF_renderAttrs _ ?_⟩
    unfold PreloadHint.attrs
    refine attrsNoCRLF_append (attrsNoCRLF_append ?_ (attrsNoCRLF_iteP (by decide) (noCRLF_formatNat _))) ?_
    · intro x hx
      simp at hx
      rcases hx with rfl | rfl
      · exact ⟨by decide, by decide⟩
      · exact ⟨by show noCRLF cs!"URI" = true; decide, noCRLF_of_quotedOK hhint.1.1.2⟩
    · cases t.brLen with
      | none => exact attrsNoCRLF_nil
      | some l => exact attrsNoCRLF_single (by decide) (noCRLF_formatNat _)
  · rw [mem_flagLine h]; exact (by decide)

theorem clean_lines (p : Media) (hw : WFMedia p) : ∀ l ∈ Media.lines C p, Clean l :=
  fun l hl => clean_of_noCRLF (noCRLF_lines hC p hw l hl)

/-- C14, first clause, for the media playlist -/
theorem Media.roundtrip (p : Media) (hw : WFMedia p) :
    Media.unmarshal C (Media.marshal C p) = .ok (Media.quantise C p) := by
  rw [Media.marshal_eq, Media.unmarshal_unlines C _ (clean_lines hC p hw), fold_lines hC p hw]

end
end Hls.Playlist.MP
