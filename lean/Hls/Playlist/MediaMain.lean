import Hls.Playlist.MediaDispatch
/-!
# `Media.marshal` as a list of lines, and the decoder run over them
-/
namespace Hls.Playlist.MP

/-! ## line lists -/

def optLine {α} (o : Option α) (f : α → Str) : List Str :=
  match o with
  | some a => [f a]
  | none => []

def flagLine (b : Bool) (l : Str) : List Str := if b then [l] else []

theorem unlines_append (a b : List Str) : unlines (a ++ b) = unlines a ++ unlines b := by
  induction a with
  | nil => simp [unlines]
  | cons x xs ih => simp [unlines, ih]

theorem unlines_single (l : Str) : unlines [l] = l ++ ['\n'] := by simp [unlines]

theorem unlines_optLine {α} (o : Option α) (f : α → Str) :
    unlines (optLine o f) = optList o (fun a => f a ++ ['\n']) := by
  cases o <;> simp [optLine, optList, unlines]

theorem unlines_flagLine (b : Bool) (l : Str) : unlines (flagLine b l) = if b = true then l ++ ['\n'] else [] := by
  cases b <;> simp [flagLine, unlines]

section
variable (C : Codec)

def Part.line (p : Part) : Str := cs!"#EXT-X-PART:" ++ renderAttrs (Part.attrs C p)

def partLines (ps : List Part) : List Str := ps.map (Part.line C)

theorem marshalParts_eq (ps : List Part) : marshalParts C ps = unlines (partLines C ps) := by
  induction ps with
  | nil => simp [marshalParts, partLines, unlines]
  | cons p rest ih =>
    simp only [marshalParts, partLines, List.map_cons, unlines, Part.marshal_shape, Part.line] at ih ⊢
    rw [ih]
    simp

def startLine (t : Int) : Str := cs!"#EXT-X-START:" ++ renderAttrs [(cs!"TIME-OFFSET", AV.u (C.fmtDur t))]
def partInfLine (t : Int) : Str := cs!"#EXT-X-PART-INF:" ++ renderAttrs [(cs!"PART-TARGET", AV.u (C.fmtDur t))]
def serverControlLine (t : ServerControl) : Str := cs!"#EXT-X-SERVER-CONTROL:" ++ renderAttrs (ServerControl.attrs C t)
def mapLine (t : MapTag) : Str := cs!"#EXT-X-MAP:" ++ renderAttrs (MapTag.attrs t)
def skipLine (t : Int) : Str := cs!"#EXT-X-SKIP:" ++ renderAttrs [(cs!"SKIPPED-SEGMENTS", AV.u (formatInt t))]
def hintLine (t : PreloadHint) : Str := cs!"#EXT-X-PRELOAD-HINT:" ++ renderAttrs (PreloadHint.attrs t)
def keyLine (k : Key) : Str := cs!"#EXT-X-KEY:" ++ renderAttrs (Key.attrs k)
def pdtLine (t : Time) : Str := cs!"#EXT-X-PROGRAM-DATE-TIME:" ++ C.fmtTime t
def bitrateLine (v : Int) : Str := cs!"#EXT-X-BITRATE:" ++ formatInt v
def byteRangeLine (start : Option Nat) (l : Nat) : Str :=
  cs!"#EXT-X-BYTERANGE:" ++ ByteRange.marshal { length := l, start := start }
def extinfLine (s : Segment) : Str := cs!"#EXTINF:" ++ C.fmtDur s.duration ++ ',' :: s.title

def Segment.lines (s : Segment) : List Str :=
  flagLine s.discontinuity cs!"#EXT-X-DISCONTINUITY" ++
  flagLine s.gap cs!"#EXT-X-GAP" ++
  optLine s.dateTime (pdtLine C) ++
  optLine s.bitrate bitrateLine ++
  partLines C s.parts ++
  [extinfLine C s] ++
  optLine s.brLen (byteRangeLine s.brStart) ++
  [s.uri]

theorem Segment.marshal_eq (s : Segment) : Segment.marshal C s = unlines (Segment.lines C s) := by
  obtain ⟨d, title, uri, disc, gap, dt, br, key, brl, brs, parts⟩ := s
  simp only [Segment.marshal, Segment.lines, unlines_append, marshalParts_eq, unlines_single]
  cases disc <;> cases gap <;> cases dt <;> cases br <;> cases brl <;>
    simp [flagLine, optLine, optList, unlines, pdtLine, bitrateLine, byteRangeLine, extinfLine]

/-- the segment loop of `Marshal` as lines -/
def segmentsLines : Option Key → List Segment → List Str
  | _, [] => []
  | prevKey, seg :: rest =>
    match seg.key with
    | some k =>
      if prevKey = none ∨ ¬ (some k = prevKey) then
        keyLine k :: (Segment.lines C seg ++ segmentsLines (some k) rest)
      else Segment.lines C seg ++ segmentsLines prevKey rest
    | none => Segment.lines C seg ++ segmentsLines prevKey rest

theorem marshalSegments_eq : ∀ (prev : Option Key) (segs : List Segment),
    marshalSegments C prev segs = unlines (segmentsLines C prev segs)
  | _, [] => by simp [marshalSegments, segmentsLines, unlines]
  | prev, seg :: rest => by
    simp only [marshalSegments, segmentsLines]
    cases hk : seg.key with
    | none =>
      simp only [unlines_append, Segment.marshal_eq, marshalSegments_eq prev rest]
    | some k =>
      simp only
      split
      · simp only [unlines, unlines_append, Segment.marshal_eq, marshalSegments_eq (some k) rest,
          Key.marshal_shape, keyLine]
        simp
      · simp only [unlines_append, Segment.marshal_eq, marshalSegments_eq prev rest]

def Media.headerLines (m : Media) : List Str :=
  [cs!"#EXT-X-VERSION:" ++ formatInt m.version] ++
  flagLine m.independentSegments cs!"#EXT-X-INDEPENDENT-SEGMENTS" ++
  optLine m.start (startLine C) ++
  optLine m.allowCache (fun v => cs!"#EXT-X-ALLOW-CACHE:" ++ (if v then cs!"YES" else cs!"NO")) ++
  [cs!"#EXT-X-TARGETDURATION:" ++ formatInt m.targetDuration] ++
  optLine m.serverControl (serverControlLine C) ++
  optLine m.partInf (partInfLine C) ++
  [cs!"#EXT-X-MEDIA-SEQUENCE:" ++ formatInt m.mediaSequence] ++
  optLine m.discontinuitySequence (fun v => cs!"#EXT-X-DISCONTINUITY-SEQUENCE:" ++ formatInt v) ++
  optLine m.playlistType (fun v => cs!"#EXT-X-PLAYLIST-TYPE:" ++ v) ++
  optLine m.map mapLine ++
  optLine m.skip skipLine

def Media.tailLines (m : Media) : List Str :=
  partLines C m.parts ++ optLine m.preloadHint hintLine ++ flagLine m.endlist cs!"#EXT-X-ENDLIST"

/-- the lines after `#EXTM3U` -/
def Media.lines (m : Media) : List Str :=
  Media.headerLines C m ++ segmentsLines C none m.segments ++ Media.tailLines C m


theorem Media.marshal_eq (m : Media) : Media.marshal C m = unlines (cs!"#EXTM3U" :: Media.lines C m) := by
  unfold Media.marshal Media.marshalGen Media.lines Media.headerLines Media.tailLines
  simp only [unlines, unlines_append, unlines_optLine, unlines_flagLine, marshalParts_eq, marshalSegments_eq,
    Start.marshal_shape, ServerControl.marshal_shape, PartInf.marshal_shape, MapTag.marshal_shape, Skip.marshal_shape,
    PreloadHint.marshal_shape, startLine, serverControlLine, partInfLine, mapLine, skipLine, hintLine]
  simp only [List.append_assoc, List.cons_append, List.nil_append, Bool.false_eq_true, ↓reduceIte]

end
end Hls.Playlist.MP
