import Hls.Playlist.MediaExact
/-!
# The Go time layout model satisfies the time clauses of `Codec.Valid`

`goFormatTime` / `goParseTime` (`MediaPrim.lean`) are the executable model of
`Time.Format("2006-01-02T15:04:05.999Z07:00")` / `parseTime` of `media.go`, validated against the
real package by tie T2.  Here: the civil-calendar round trip, and that a well-formed time (`wfTime`)
formatted and parsed again is the same instant at 1 ms with the same zone.
-/
namespace Hls.Playlist.MP

/-- the intermediate quantities of `civilFromDays` with everything the proofs need -/
structure CivilSplit (z : Int) where
  era : Int
  n100 : Int
  n4 : Int
  n1 : Int
  doy : Int
  mp : Int
  hz : z + 719468 = era * 146097 + n100 * 36524 + n4 * 1461 + n1 * 365 + doy
  h100 : 0 ≤ n100 ∧ n100 ≤ 3
  h4 : 0 ≤ n4 ∧ n4 ≤ 24
  h1 : 0 ≤ n1 ∧ n1 ≤ 3
  hdoy : 0 ≤ doy ∧ doy ≤ 365
  hleap : doy = 365 → n1 = 3 ∧ (n4 = 24 → n100 = 3)
  hmp : 0 ≤ mp ∧ mp ≤ 11 ∧ mp = (5 * doy + 2) / 153
  heq : civilFromDays z =
    (if (if mp < 10 then mp + 3 else mp - 9) ≤ 2 then n100 * 100 + n4 * 4 + n1 + era * 400 + 1 else n100 * 100 + n4 * 4 + n1 + era * 400,
     if mp < 10 then mp + 3 else mp - 9, doy - (153 * mp + 2) / 5 + 1)

theorem civilSplit (z : Int) : Nonempty (CivilSplit z) := by
  -- name the steps
  obtain ⟨era, hera⟩ : ∃ era, era = (z + 719468) / 146097 := ⟨_, rfl⟩
  obtain ⟨r, hr⟩ : ∃ r, r = z + 719468 - era * 146097 := ⟨_, rfl⟩
  have hr0 : 0 ≤ r ∧ r ≤ 146096 := by omega
  obtain ⟨n100, hn100⟩ : ∃ n, n = min (r / 36524) 3 := ⟨_, rfl⟩
  have hn100b : 0 ≤ n100 ∧ n100 ≤ 3 ∧ (n100 < 3 → n100 = r / 36524) ∧ (n100 = 3 → 3 ≤ r / 36524) := by omega
  obtain ⟨r1, hr1⟩ : ∃ r1, r1 = r - n100 * 36524 := ⟨_, rfl⟩
  have hr1b : 0 ≤ r1 ∧ r1 ≤ 36524 ∧ (n100 < 3 → r1 ≤ 36523) := by omega
  obtain ⟨n4, hn4⟩ : ∃ n, n = r1 / 1461 := ⟨_, rfl⟩
  obtain ⟨r2, hr2⟩ : ∃ r2, r2 = r1 - n4 * 1461 := ⟨_, rfl⟩
  have hn4b : 0 ≤ n4 ∧ n4 ≤ 24 ∧ 0 ≤ r2 ∧ r2 ≤ 1460 := by omega
  obtain ⟨n1, hn1⟩ : ∃ n, n = min (r2 / 365) 3 := ⟨_, rfl⟩
  obtain ⟨doy, hdoy⟩ : ∃ d, d = r2 - n1 * 365 := ⟨_, rfl⟩
  have hn1b : 0 ≤ n1 ∧ n1 ≤ 3 ∧ 0 ≤ doy ∧ doy ≤ 365 ∧ (doy = 365 → n1 = 3 ∧ r2 = 1460) := by omega
  obtain ⟨mp, hmp⟩ : ∃ m, m = (5 * doy + 2) / 153 := ⟨_, rfl⟩
  have hmpb : 0 ≤ mp ∧ mp ≤ 11 := by omega
  refine ⟨⟨era, n100, n4, n1, doy, mp, by omega, ⟨hn100b.1, hn100b.2.1⟩, ⟨hn4b.1, hn4b.2.1⟩, ⟨hn1b.1, hn1b.2.1⟩,
    ⟨hn1b.2.2.1, hn1b.2.2.2.1⟩, ?_, ⟨hmpb.1, hmpb.2, hmp⟩, ?_⟩⟩
  · intro h
    have := hn1b.2.2.2.2 h
    refine ⟨this.1, ?_⟩
    intro h24
    omega
  · simp only [civilFromDays]
    rw [← hera, ← hr, ← hn100, ← hr1, ← hn4, ← hr2, ← hn1, ← hdoy, ← hmp]


theorem civil_roundtrip (z : Int) :
    daysFromCivil (civilFromDays z).1 (civilFromDays z).2.1 (civilFromDays z).2.2 = z := by
  obtain ⟨s⟩ := civilSplit z
  rw [s.heq]
  have h100 := s.h100; have h4 := s.h4; have h1 := s.h1; have hd := s.hdoy; have hm := s.hmp; have hz := s.hz
  obtain ⟨yoe, hyoe⟩ : ∃ y, y = s.n100 * 100 + s.n4 * 4 + s.n1 := ⟨_, rfl⟩
  have hy : 0 ≤ yoe ∧ yoe ≤ 399 := by omega
  have hera : (yoe + s.era * 400) / 400 = s.era := by omega
  have hq4 : yoe / 4 = 25 * s.n100 + s.n4 := by omega
  have hq100 : yoe / 100 = s.n100 := by omega
  simp only [daysFromCivil, ← hyoe]
  by_cases hmp : s.mp < 10
  · simp only [hmp, ↓reduceIte]
    have h1' : ¬ (s.mp + 3 ≤ 2) := by omega
    have h2' : s.mp + 3 > 2 := by omega
    have h3' : s.mp + 3 - 3 = s.mp := by omega
    simp only [h1', h2', ↓reduceIte, h3', hera]
    have e : yoe + s.era * 400 - s.era * 400 = yoe := by omega
    rw [e, hq4, hq100]
    omega
  · simp only [hmp, ↓reduceIte]
    have h1' : s.mp - 9 ≤ 2 := by omega
    have h2' : ¬ (s.mp - 9 > 2) := by omega
    have h3' : s.mp - 9 + 9 = s.mp := by omega
    have h4' : yoe + s.era * 400 + 1 - 1 = yoe + s.era * 400 := by omega
    simp only [h1', h2', ↓reduceIte, h3', h4', hera]
    have e : yoe + s.era * 400 - s.era * 400 = yoe := by omega
    rw [e, hq4, hq100]
    omega


theorem civil_valid (z : Int) (h0 : -719528 ≤ z) (h1 : z ≤ 2932896) :
    0 ≤ (civilFromDays z).1 ∧ (civilFromDays z).1 ≤ 9999 ∧ 1 ≤ (civilFromDays z).2.1 ∧ (civilFromDays z).2.1 ≤ 12 ∧
    1 ≤ (civilFromDays z).2.2 ∧ (civilFromDays z).2.2 ≤ daysIn (civilFromDays z).2.1 (civilFromDays z).1 := by
  obtain ⟨s⟩ := civilSplit z
  rw [s.heq]
  have h100 := s.h100; have h4 := s.h4; have hn1 := s.h1; have hd := s.hdoy; have hm := s.hmp; have hz := s.hz
  have hleap := s.hleap
  have hera : -1 ≤ s.era ∧ s.era ≤ 24 := by omega
  have hmp : s.mp = 0 ∨ s.mp = 1 ∨ s.mp = 2 ∨ s.mp = 3 ∨ s.mp = 4 ∨ s.mp = 5 ∨ s.mp = 6 ∨ s.mp = 7 ∨ s.mp = 8 ∨
      s.mp = 9 ∨ s.mp = 10 ∨ s.mp = 11 := by omega
  rcases hmp with e | e | e | e | e | e | e | e | e | e | e | e <;> rw [e] at hm ⊢ <;>
    simp only [daysIn, isLeap] <;> simp <;> omega


/-! ## fixed-width decimal fields -/

theorem pad2_cases {n : Nat} (h : n < 100) :
    ∃ a c, padNat 2 n = [a, c] ∧ isDigit a = true ∧ isDigit c = true ∧ digitVal a * 10 + digitVal c = n := by
  obtain ⟨hl, hd, hv⟩ := padNat_spec (w := 2) (n := n) (by decide) (by omega)
  match hp : padNat 2 n, hl with
  | [a, c], _ =>
    rw [hp] at hd hv
    simp only [List.all_cons, List.all_nil, Bool.and_true, Bool.and_eq_true] at hd
    refine ⟨a, c, rfl, hd.1, hd.2, ?_⟩
    simpa [digitsValue] using hv

theorem pad4_cases {n : Nat} (h : n < 10000) :
    ∃ a b c d, padNat 4 n = [a, b, c, d] ∧ isDigit a = true ∧ isDigit b = true ∧ isDigit c = true ∧ isDigit d = true ∧
      digitsValue [a, b, c, d] = n := by
  obtain ⟨hl, hd, hv⟩ := padNat_spec (w := 4) (n := n) (by decide) (by omega)
  match hp : padNat 4 n, hl with
  | [a, b, c, d], _ =>
    rw [hp] at hd hv
    simp only [List.all_cons, List.all_nil, Bool.and_true, Bool.and_eq_true] at hd
    exact ⟨a, b, c, d, rfl, hd.1, hd.2.1, hd.2.2.1, hd.2.2.2, hv⟩

theorem getnum_pad2 (fixed : Bool) {n : Nat} (h : n < 100) (rest : Str) :
    getnum fixed (padNat 2 n ++ rest) = some (n, rest) := by
  obtain ⟨a, c, e, da, dc, v⟩ := pad2_cases h
  rw [e]
  simp [getnum, da, dc, v]

theorem parseDate_fmt {y mo d : Nat} (hy : y < 10000) (hmo : 1 ≤ mo ∧ mo ≤ 12) (hd : d < 100) (rest : Str) :
    parseDate (padNat 4 y ++ '-' :: (padNat 2 mo ++ '-' :: (padNat 2 d ++ rest))) = some ((y, mo, d), rest) := by
  obtain ⟨y1, y2, y3, y4, ey, d1, d2, d3, d4, vy⟩ := pad4_cases hy
  have hmo' : ¬ (mo = 0 ∨ 12 < mo) := by omega
  rw [ey]
  simp [parseDate, d1, d2, d3, d4, vy, skipChar, getnum_pad2 true (show mo < 100 by omega), getnum_pad2 true hd, hmo']

theorem parseClock_fmt {hh mi ss : Nat} (h1 : hh < 24) (h2 : mi < 60) (h3 : ss < 60) (rest : Str) :
    parseClock (padNat 2 hh ++ ':' :: (padNat 2 mi ++ ':' :: (padNat 2 ss ++ rest))) = some ((hh, mi, ss), rest) := by
  have a1 : ¬ (24 ≤ hh) := by omega
  have a2 : ¬ (60 ≤ mi) := by omega
  have a3 : ¬ (60 ≤ ss) := by omega
  simp [parseClock, skipChar, getnum_pad2 false (show hh < 100 by omega), getnum_pad2 true (show mi < 100 by omega),
    getnum_pad2 true (show ss < 100 by omega), a1, a2, a3]

/-! ## fraction and zone -/

set_option maxRecDepth 1000000 in
/-- the `.999` fraction of every millisecond value (finite table: 0 … 999) -/
theorem frac_table : ∀ ms, ms < 1000 →
    (trimTrailingZeros (padNat 3 ms)).all isDigit = true ∧
    digitsValue (trimTrailingZeros (padNat 3 ms)) * 10 ^ (9 - (trimTrailingZeros (padNat 3 ms)).length) = ms * 1000000 ∧
    (trimTrailingZeros (padNat 3 ms) = [] ↔ ms = 0) ∧ (trimTrailingZeros (padNat 3 ms)).length ≤ 3 := by
  decide

/-- the fraction text of `goFormatTime` -/
def fracText (nsec : Nat) : Str :=
  if nsec = 0 then []
  else
    let digits := trimTrailingZeros (padNat 3 (nsec / 1000000))
    if digits = [] then [] else '.' :: digits

theorem parseFrac_fmt {nsec : Nat} (hn : nsec < 1000000000) (z : Char) (zs : Str) (hz : isDigit z = false)
    (hz1 : z ≠ '.') (hz2 : z ≠ ',') :
    parseFrac (fracText nsec ++ z :: zs) = (nsec / 1000000 * 1000000, z :: zs) := by
  obtain ⟨hdig, hval, hnil, hlen⟩ := frac_table (nsec / 1000000) (by omega)
  have hnofrac : parseFrac (z :: zs) = (0, z :: zs) := by
    cases zs with
    | nil => simp [parseFrac]
    | cons d rest => simp [parseFrac, hz1, hz2]
  unfold fracText
  by_cases h0 : nsec = 0
  · simp [h0, hnofrac]
  · simp only [h0, ↓reduceIte]
    by_cases hd : trimTrailingZeros (padNat 3 (nsec / 1000000)) = []
    · have hms : nsec / 1000000 = 0 := hnil.mp hd
      simp only [hd, ↓reduceIte, List.nil_append, hnofrac]
      rw [hms]
    · simp only [hd, ↓reduceIte, List.cons_append]
      generalize hds : trimTrailingZeros (padNat 3 (nsec / 1000000)) = ds at hdig hval hlen hd
      cases ds with
      | nil => exact absurd rfl hd
      | cons d rest =>
        have hd0 : isDigit d = true := by simpa using (List.all_eq_true.mp hdig d (by simp))
        have htw : List.takeWhile isDigit (d :: rest ++ z :: zs) = d :: rest := by
          have := List.takeWhile_append_of_pos (p := isDigit) (l₁ := d :: rest) (l₂ := z :: zs)
            (fun a ha => List.all_eq_true.mp hdig a ha)
          rw [this]
          simp [List.takeWhile, hz]
        simp only [parseFrac, List.cons_append, true_or, hd0, and_self, ↓reduceIte]
        have htw' : List.takeWhile isDigit (d :: (rest ++ z :: zs)) = d :: rest := by simpa using htw
        rw [htw']
        have hl9 : List.take 9 (d :: rest) = d :: rest := List.take_of_length_le (by simp at hlen ⊢; omega)
        simp only [hl9, hval]
        simp

/-- the zone text of `goFormatTime` -/
def zoneText (off : Int) : Str :=
  if off = 0 then ['Z']
  else
    let z := off.tdiv 60
    let sz : Char × Int := if z < 0 then ('-', -z) else ('+', z)
    sz.1 :: (appendInt (sz.2 / 60) 2 ++ ':' :: appendInt (sz.2 % 60) 2)

theorem appendInt_nonneg {x : Int} (h : 0 ≤ x) (w : Nat) : appendInt x w = padNat w x.toNat := by
  simp [appendInt, Int.not_lt.mpr h]

theorem parseZone_nat (sg : Char) (n : Nat) (hn : n < 1440) (hZ : sg ≠ 'Z') :
    parseZone true (sg :: (padNat 2 (n / 60) ++ ':' :: padNat 2 (n % 60))) =
      (if sg = '+' then some (((n * 60 : Nat) : Int), []) else if sg = '-' then some (-((n * 60 : Nat) : Int), []) else none) := by
  obtain ⟨a, c, ea, da, dc, va⟩ := pad2_cases (n := n / 60) (by omega)
  obtain ⟨a', c', ea', da', dc', va'⟩ := pad2_cases (n := n % 60) (by omega)
  rw [ea, ea']
  have hr1 : ¬ (n / 60 > 24 ∨ n % 60 > 60) := by omega
  have hv : ((n : Int) / 60 * 60 + (n : Int) % 60) * 60 = (n : Int) * 60 := by omega
  simp [parseZone, hZ, getnum, da, dc, da', dc', va, va', hr1, hv]

theorem parseZone_fmt {off : Int} (h60 : off % 60 = 0) (hlo : -86400 < off) (hhi : off < 86400) :
    parseZone true (zoneText off) = some (off, []) := by
  unfold zoneText
  by_cases h0 : off = 0
  · simp [h0, parseZone]
  · simp only [h0, ↓reduceIte]
    obtain ⟨k, hk⟩ : ∃ k, off = 60 * k := ⟨off / 60, by omega⟩
    have htd : off.tdiv 60 = k := by
      rw [hk]
      exact Int.mul_tdiv_cancel_left k (by decide)
    rw [htd]
    by_cases hneg : k < 0
    · obtain ⟨n, hn⟩ : ∃ n : Nat, (n : Int) = -k := ⟨(-k).toNat, by omega⟩
      have hnb : n < 1440 := by omega
      have hk' : k = -(n : Int) := by omega
      subst hk'
      have hlt : -(n : Int) < 0 := hneg
      simp only [hlt, ↓reduceIte, Int.neg_neg]
      have e1 : ((n : Int) / 60) = ((n / 60 : Nat) : Int) := by omega
      have e2 : ((n : Int) % 60) = ((n % 60 : Nat) : Int) := by omega
      rw [e1, e2, appendInt_nonneg (by omega), appendInt_nonneg (by omega)]
      simp only [Int.toNat_natCast]
      rw [parseZone_nat '-' n hnb (by decide)]
      simp
      omega
    · obtain ⟨n, hn⟩ : ∃ n : Nat, (n : Int) = k := ⟨k.toNat, by omega⟩
      have hnb : n < 1440 := by omega
      subst hn
      simp only [hneg, ↓reduceIte]
      have e1 : ((n : Int) / 60) = ((n / 60 : Nat) : Int) := by omega
      have e2 : ((n : Int) % 60) = ((n % 60 : Nat) : Int) := by omega
      rw [e1, e2, appendInt_nonneg (by omega), appendInt_nonneg (by omega)]
      simp only [Int.toNat_natCast]
      rw [parseZone_nat '+' n hnb (by decide)]
      simp
      omega


/-! ## the whole layout -/

theorem zoneText_head (off : Int) : ∃ z zs, zoneText off = z :: zs ∧ isDigit z = false ∧ z ≠ '.' ∧ z ≠ ',' := by
  unfold zoneText
  by_cases h0 : off = 0
  · exact ⟨'Z', [], by simp [h0], by decide, by decide, by decide⟩
  · simp only [h0, ↓reduceIte]
    by_cases hneg : off.tdiv 60 < 0
    · exact ⟨'-', appendInt (-(off.tdiv 60) / 60) 2 ++ ':' :: appendInt (-(off.tdiv 60) % 60) 2, by simp [hneg],
        by decide, by decide, by decide⟩
    · exact ⟨'+', appendInt (off.tdiv 60 / 60) 2 ++ ':' :: appendInt (off.tdiv 60 % 60) 2, by simp [hneg],
        by decide, by decide, by decide⟩

theorem goFormatTime_eq (t : Time) :
    goFormatTime t =
      appendInt (civilFromDays ((t.sec + t.off) / 86400)).1 4 ++ '-' ::
        (appendInt (civilFromDays ((t.sec + t.off) / 86400)).2.1 2 ++ '-' ::
          (appendInt (civilFromDays ((t.sec + t.off) / 86400)).2.2 2 ++ 'T' ::
            (appendInt ((t.sec + t.off) % 86400 / 3600) 2 ++ ':' ::
              (appendInt ((t.sec + t.off) % 86400 % 3600 / 60) 2 ++ ':' ::
                (appendInt ((t.sec + t.off) % 86400 % 60) 2 ++ (fracText t.nsec ++ zoneText t.off)))))) := by
  unfold goFormatTime fracText zoneText
  simp only [List.append_assoc, List.cons_append]

/-- **the Go layout round trip**: a well-formed time, formatted and parsed, is the same instant at
1 ms with the same zone -/
theorem goParse_format (t : Time) (hw : wfTime t = true) : goParseTime (goFormatTime t) = some (truncMs t) := by
  simp only [wfTime, Bool.and_eq_true, decide_eq_true_eq] at hw
  obtain ⟨⟨⟨⟨⟨h60, hlo⟩, hhi⟩, hy0⟩, hy1⟩, hns⟩ := hw
  obtain ⟨days, hdays⟩ : ∃ d, d = (t.sec + t.off) / 86400 := ⟨_, rfl⟩
  obtain ⟨rem, hrem⟩ : ∃ r, r = (t.sec + t.off) % 86400 := ⟨_, rfl⟩
  have hremb : 0 ≤ rem ∧ rem < 86400 := by omega
  have hloc : t.sec + t.off = days * 86400 + rem := by omega
  have hdb : -719528 ≤ days ∧ days ≤ 2932896 := by omega
  obtain ⟨cy0, cy1, cm0, cm1, cd0, cd1⟩ := civil_valid days hdb.1 hdb.2
  have hrt := civil_roundtrip days
  rw [goFormatTime_eq, ← hdays, ← hrem]
  generalize hc : civilFromDays days = c at cy0 cy1 cm0 cm1 cd0 cd1 hrt
  obtain ⟨y, m, d⟩ := c
  simp only at cy0 cy1 cm0 cm1 cd0 cd1 hrt
  -- natural-number views of the fields
  obtain ⟨yn, rfl⟩ : ∃ n : Nat, y = n := ⟨y.toNat, by omega⟩
  obtain ⟨mn, rfl⟩ : ∃ n : Nat, m = n := ⟨m.toNat, by omega⟩
  obtain ⟨dn, rfl⟩ : ∃ n : Nat, d = n := ⟨d.toNat, by omega⟩
  obtain ⟨hh, hhh⟩ : ∃ n : Nat, rem / 3600 = n := ⟨(rem / 3600).toNat, by omega⟩
  obtain ⟨mi, hmi⟩ : ∃ n : Nat, rem % 3600 / 60 = n := ⟨(rem % 3600 / 60).toNat, by omega⟩
  obtain ⟨ss, hss⟩ : ∃ n : Nat, rem % 60 = n := ⟨(rem % 60).toNat, by omega⟩
  have hd31 : (dn : Int) ≤ 31 := by
    have : daysIn (mn : Int) (yn : Int) ≤ 31 := by
      unfold daysIn
      split
      · split <;> decide
      · split <;> decide
    omega
  simp only [hhh, hmi, hss, appendInt_nonneg (Int.natCast_nonneg _), Int.toNat_natCast]
  obtain ⟨z, zs, hzt, hz0, hz1, hz2⟩ := zoneText_head t.off
  have hzone := parseZone_fmt h60 hlo hhi
  unfold goParseTime goParseLayout
  rw [parseDate_fmt (by omega) (by omega) (by omega)]
  simp only [Option.bind_eq_bind, Option.bind_some, skipChar, ↓reduceIte]
  rw [parseClock_fmt (by omega) (by omega) (by omega)]
  simp only [Option.bind_some]
  rw [hzt, parseFrac_fmt hns z zs hz0 hz1 hz2, ← hzt, hzone]
  have hday : ¬ (dn < 1 ∨ (dn : Int) > daysIn (mn : Int) (yn : Int)) := by omega
  simp only [Option.bind_some, ne_eq, not_true_eq_false, ↓reduceIte, hday]
  simp only [truncMs]
  congr 1
  congr 1
  omega


theorem fracText_trunc (nsec : Nat) (hn : nsec < 1000000000) : fracText (nsec / 1000000 * 1000000) = fracText nsec := by
  obtain ⟨_, _, hnil, _⟩ := frac_table (nsec / 1000000) (by omega)
  unfold fracText
  have e : nsec / 1000000 * 1000000 / 1000000 = nsec / 1000000 := by omega
  by_cases hms : nsec / 1000000 = 0
  · have hd := hnil.mpr hms
    have h0 : nsec / 1000000 * 1000000 = 0 := by omega
    simp only [h0, ↓reduceIte]
    by_cases hn0 : nsec = 0
    · simp [hn0]
    · simp only [hn0, ↓reduceIte, hd]
  · have h1 : nsec / 1000000 * 1000000 ≠ 0 := by omega
    have h2 : nsec ≠ 0 := by omega
    simp only [h1, h2, ↓reduceIte, e]

theorem goFormat_trunc (t : Time) (hw : wfTime t = true) : goFormatTime (truncMs t) = goFormatTime t := by
  simp only [wfTime, Bool.and_eq_true, decide_eq_true_eq] at hw
  rw [goFormatTime_eq, goFormatTime_eq]
  simp only [truncMs, fracText_trunc t.nsec hw.2]

theorem padNat_timeChars (w n : Nat) : (padNat w n).all timeChar = true :=
  List.all_eq_true.mpr fun c hc => by
    have := List.all_eq_true.mp (padNat_all_digits w n) c hc
    simp [timeChar, this]

theorem fracText_timeChars (nsec : Nat) (hn : nsec < 1000000000) : (fracText nsec).all timeChar = true := by
  obtain ⟨hdig, _, _, _⟩ := frac_table (nsec / 1000000) (by omega)
  unfold fracText
  split
  · rfl
  · simp only
    split
    · rfl
    · simp only [List.all_cons, Bool.and_eq_true]
      refine ⟨by decide, List.all_eq_true.mpr fun c hc => ?_⟩
      have := List.all_eq_true.mp hdig c hc
      simp [timeChar, this]

theorem zoneText_timeChars (off : Int) (h60 : off % 60 = 0) (hlo : -86400 < off) (hhi : off < 86400) :
    (zoneText off).all timeChar = true := by
  unfold zoneText
  by_cases h0 : off = 0
  · simp [h0]; decide
  · simp only [h0, ↓reduceIte]
    obtain ⟨k, hk⟩ : ∃ k, off = 60 * k := ⟨off / 60, by omega⟩
    have htd : off.tdiv 60 = k := by
      rw [hk]
      exact Int.mul_tdiv_cancel_left k (by decide)
    rw [htd]
    by_cases hneg : k < 0
    · simp only [hneg, ↓reduceIte]
      rw [appendInt_nonneg (by omega), appendInt_nonneg (by omega)]
      simp only [List.all_cons, List.all_append, padNat_timeChars, Bool.and_true, Bool.and_eq_true]
      exact ⟨by decide, by decide⟩
    · simp only [hneg, ↓reduceIte]
      rw [appendInt_nonneg (by omega), appendInt_nonneg (by omega)]
      simp only [List.all_cons, List.all_append, padNat_timeChars, Bool.and_true, Bool.and_eq_true]
      exact ⟨by decide, by decide⟩

theorem goFormat_chars (t : Time) (hw : wfTime t = true) : (goFormatTime t).all timeChar = true := by
  simp only [wfTime, Bool.and_eq_true, decide_eq_true_eq] at hw
  obtain ⟨⟨⟨⟨⟨h60, hlo⟩, hhi⟩, hy0⟩, hy1⟩, hns⟩ := hw
  have hdb : -719528 ≤ (t.sec + t.off) / 86400 ∧ (t.sec + t.off) / 86400 ≤ 2932896 := by omega
  obtain ⟨cy0, cy1, cm0, cm1, cd0, cd1⟩ := civil_valid _ hdb.1 hdb.2
  rw [goFormatTime_eq]
  rw [appendInt_nonneg cy0, appendInt_nonneg (by omega), appendInt_nonneg (by omega), appendInt_nonneg (by omega),
    appendInt_nonneg (by omega), appendInt_nonneg (by omega)]
  simp only [List.all_append, List.all_cons, padNat_timeChars, fracText_timeChars _ hns,
    zoneText_timeChars _ h60 hlo hhi, Bool.and_true, Bool.true_and]
  decide

/-- a codec with the Go time layout -/
def Codec.withGoTime (D : Codec) : Codec := { D with fmtTime := goFormatTime, parseTime := goParseTime }

theorem Codec.go_withGoTime : Codec.go.withGoTime = Codec.go := rfl

/-- the duration half of `Codec.Valid` -/
structure Codec.DurValid (C : Codec) : Prop where
  fmt_dur : ∀ d : Int, DurDom d →
    ∃ q : Nat, C.fmtDur d = decText (decide (d < 0)) q ∧ q * 10000 ≤ d.natAbs + 5000 ∧ d.natAbs ≤ q * 10000 + 5000
  parse_dur : ∀ (neg : Bool) (q : Nat), q ≤ 100000000000 → (neg = true → 0 < q) →
    ∃ n : Nat, C.parseDur (decText neg q) = some (if neg then -(n : Int) else n) ∧ n ≤ q * 10000 + 1 ∧ q * 10000 ≤ n + 1

/-- with the Go time layout only the float envelope remains to be assumed -/
theorem Codec.withGoTime_valid {D : Codec} (h : D.DurValid) : D.withGoTime.Valid where
  fmt_dur := h.fmt_dur
  parse_dur := h.parse_dur
  time_rt := goParse_format
  time_trunc := goFormat_trunc
  time_chars := goFormat_chars

theorem Codec.exact_durValid : Codec.exact.DurValid := ⟨Codec.exact_valid.fmt_dur, Codec.exact_valid.parse_dur⟩

/-- exact decimal durations + the Go time layout -/
def Codec.exactGo : Codec := Codec.exact.withGoTime

theorem Codec.exactGo_valid : Codec.exactGo.Valid := Codec.withGoTime_valid Codec.exact_durValid


/-- **The one assumption about the real library behaviour that is not proved**: the exact IEEE-754
model of `FormatFloat(d.Seconds(),'f',5,64)` and `time.Duration(ParseFloat(s)*1e9)` stays inside
the error envelope (nearest 10 µs with ties either way for |d| ≤ 10^15 ns; parse exact or 1 ns toward
zero).  Validated by tie T2 (model = real code on every generated duration) and by the direct
oracle; `decide`d on samples in `Hls/Props/C14.lean`. -/
def IeeeEnvelope : Prop := Codec.go.DurValid

/-- the driver's codec is valid as soon as the float envelope holds (its time half is proved) -/
theorem Codec.go_valid (h : IeeeEnvelope) : Codec.go.Valid := Codec.withGoTime_valid (D := Codec.go) h

end Hls.Playlist.MP
