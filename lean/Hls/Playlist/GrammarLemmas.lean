import Hls.Playlist.MultiLemmas
import Hls.Playlist.Grammar
/-!
  The independent grammar (`Hls/Playlist/Grammar.lean`) accepts what `Multivariant.Marshal`
  writes for well-formed values (C15 `c15_grammar_multi`).
-/
set_option linter.unusedVariables false
set_option linter.unusedSimpArgs false
namespace Hls.Playlist
open Grammar

/-! ## The grammar's line splitter on `unlines` -/

theorem splitLF_line {l : Str} (rest : Str) (h : '\n' ∉ l) : splitLF (l ++ '\n' :: rest) = l :: splitLF rest := by
  induction l with
  | nil => simp [splitLF]
  | cons x xs ih =>
    have hx : x ≠ '\n' := by intro e; apply h; simp [e]
    have hxs : '\n' ∉ xs := by intro e; apply h; simp [e]
    simp [splitLF, hx, ih hxs]

theorem splitLF_unlines {ls : List Str} (h : AllClean ls) : splitLF (unlines ls) = ls ++ [[]] := by
  induction ls with
  | nil => rfl
  | cons l r ih =>
    rw [unlines_cons, splitLF_line _ (h l (by simp)).1, ih (fun x hx => h x (by simp [hx]))]
    rfl

theorem stripCR_clean {l : Str} (h : CleanLine l) : stripCR l = l := by
  unfold stripCR
  have : l.getLast? ≠ some '\r' := h.getLast
  simp [this]

theorem linesOf_unlines {ls : List Str} (h : AllClean ls) : linesOf (unlines ls) = ls := by
  unfold linesOf
  rw [splitLF_unlines h]
  simp only [List.getLast?_append, List.getLast?_singleton, Option.some_or, if_true, List.dropLast_concat]
  have : ∀ (xs : List Str), AllClean xs → xs.map stripCR = xs := by
    intro xs hx
    induction xs with
    | nil => rfl
    | cons a r ih =>
      simp only [List.map_cons]
      rw [stripCR_clean (hx a (by simp)), ih (fun x h' => hx x (by simp [h']))]
  exact this ls h

/-! ## The grammar's attribute lexer on `renderAttrs` -/

theorem spanP_append_stop {p : Char → Bool} {a : Str} {x : Char} (b : Str) (ha : ∀ c ∈ a, p c = true) (hx : p x = false) :
    spanP p (a ++ x :: b) = (a, x :: b) := by
  induction a with
  | nil => simp [spanP, hx]
  | cons c cs ih =>
    have hc : p c = true := ha c (by simp)
    have := ih (fun d hd => ha d (by simp [hd]))
    simp [spanP, hc, this]

theorem spanP_all {p : Char → Bool} {a : Str} (ha : ∀ c ∈ a, p c = true) : spanP p a = (a, []) := by
  induction a with
  | nil => rfl
  | cons c cs ih =>
    have hc : p c = true := ha c (by simp)
    have := ih (fun d hd => ha d (by simp [hd]))
    simp [spanP, hc, this]

def toPair (a : Attr) : Pair :=
  match a.2 with
  | .quoted s => { name := a.1, value := s, quoted := true }
  | .unquoted s => { name := a.1, value := s, quoted := false }

/-- what the RFC asks of one attribute, lexically -/
def GWFAttr (a : Attr) : Prop :=
  a.1 ≠ [] ∧ (∀ c ∈ a.1, isNameChar c = true) ∧
  match a.2 with
  | .quoted s => ∀ c ∈ s, c ≠ '"' ∧ isLineBreak c = false
  | .unquoted s => s ≠ [] ∧ ∀ c ∈ s, c ≠ ',' ∧ badUnquoted c = false

theorem lexOne_render {a : Attr} (h : GWFAttr a) (rest : Str) (hrest : rest = [] ∨ ∃ r, rest = ',' :: r) :
    lexOne (renderAttr a ++ rest) = some (toPair a, rest) := by
  obtain ⟨k, v⟩ := a
  obtain ⟨hk0, hk, hv⟩ := h
  simp only at hk0 hk hv
  have hke : k.isEmpty = false := by cases k with | nil => exact absurd rfl hk0 | cons _ _ => rfl
  unfold lexOne
  cases v with
  | quoted s =>
    simp only at hv
    have hsp : spanP isNameChar (renderAttr (k, .quoted s) ++ rest) = (k, '=' :: ('"' :: s ++ ['"']) ++ rest) := by
      have := spanP_append_stop (p := isNameChar) (a := k) (x := '=') (('"' :: s ++ ['"']) ++ rest) hk (by decide)
      simpa [renderAttr, AttrVal.render] using this
    rw [hsp]
    simp only [hke, Bool.false_eq_true, if_false, List.cons_append, if_true, lexValue, lexQuoted]
    have hs2 : spanP (fun c => decide (c ≠ '"')) (s ++ '"' :: rest) = (s, '"' :: rest) :=
      spanP_append_stop _ (fun c hc => by simpa using (hv c hc).1) (by simp)
    have hnb : s.any isLineBreak = false := by
      rw [List.any_eq_false]; intro c hc; simpa using (hv c hc).2
    have e : s ++ ['"'] ++ rest = s ++ '"' :: rest := by simp
    rw [e, hs2]
    simp [hnb, toPair]
  | unquoted s =>
    simp only at hv
    obtain ⟨hs0, hs⟩ := hv
    have hsp : spanP isNameChar (renderAttr (k, .unquoted s) ++ rest) = (k, '=' :: s ++ rest) := by
      have := spanP_append_stop (p := isNameChar) (a := k) (x := '=') (s ++ rest) hk (by decide)
      simpa [renderAttr, AttrVal.render] using this
    rw [hsp]
    cases s with
    | nil => exact absurd rfl hs0
    | cons q s' =>
      have hq : q ≠ '"' := by
        have := (hs q (by simp)).2
        intro e; subst e; simp [badUnquoted] at this
      have hnb : (q :: s').any badUnquoted = false := by
        rw [List.any_eq_false]; intro c hc; simpa using (hs c hc).2
      have hs2 : spanP (fun c => decide (c ≠ ',')) (q :: (s' ++ rest)) = (q :: s', rest) := by
        rcases hrest with e | ⟨r, e⟩
        · subst e
          rw [List.append_nil]
          exact spanP_all (fun c hc => by simpa using (hs c hc).1)
        · subst e
          have := spanP_append_stop (p := fun c => decide (c ≠ ',')) (a := q :: s') (x := ',') r
            (fun c hc => by simpa using (hs c hc).1) (by simp)
          simpa using this
      simp only [hke, Bool.false_eq_true, if_false, List.cons_append, if_true, lexValue, hq, lexUnquoted, hs2]
      simp [hnb, toPair]


theorem renderAttr_length_pos (a : Attr) : 1 ≤ (renderAttr a).length := by
  simp [renderAttr]; omega

theorem renderAttrs_length (as : List Attr) : as.length ≤ (renderAttrs as).length := by
  induction as with
  | nil => simp
  | cons a r ih =>
    cases r with
    | nil => simpa [renderAttrs] using renderAttr_length_pos a
    | cons b r' =>
      rw [renderAttrs_cons_cons]
      have := renderAttr_length_pos a
      simp only [List.length_append, List.length_cons] at ih ⊢
      omega

theorem lexAttrs_render (as : List Attr) (hne : as ≠ []) (h : ∀ a ∈ as, GWFAttr a) (fuel : Nat) (hf : as.length ≤ fuel) :
    lexAttrs fuel (renderAttrs as) = some (as.map toPair) := by
  induction as generalizing fuel with
  | nil => exact absurd rfl hne
  | cons a r ih =>
    cases fuel with
    | zero => simp at hf
    | succ f =>
      have ha := h a (by simp)
      cases r with
      | nil =>
        have := lexOne_render ha [] (Or.inl rfl)
        simp only [List.append_nil] at this
        simp [renderAttrs, lexAttrs, this]
      | cons b r' =>
        rw [renderAttrs_cons_cons]
        have := lexOne_render ha (',' :: renderAttrs (b :: r')) (Or.inr ⟨_, rfl⟩)
        simp only [lexAttrs, this]
        rw [ih (by simp) (fun x hx => h x (by simp [hx])) f (by simp at hf ⊢; omega)]
        simp

theorem attrsOK_render {specs : List AttrSpec} (as : List Attr) (hne : as ≠ []) (h : ∀ a ∈ as, GWFAttr a)
    (hp : ∀ a ∈ as, pairOK specs (toPair a) = true) (hn : (as.map (·.1)).Nodup)
    (hr : ∀ sp ∈ specs, sp.required = true → sp.name ∈ as.map (·.1)) :
    attrsOK specs (renderAttrs as) = true := by
  unfold attrsOK
  rw [lexAttrs_render as hne h _ (by have := renderAttrs_length as; omega)]
  have hnames : (as.map toPair).map (·.name) = as.map (·.1) := by
    rw [List.map_map]
    apply List.map_congr_left
    intro a _
    obtain ⟨k, v⟩ := a
    cases v <;> rfl
  simp only [hnames, Bool.and_eq_true, List.all_eq_true, decide_eq_true_eq]
  refine ⟨⟨?_, hn⟩, ?_⟩
  · intro p hp'
    obtain ⟨a, ha, rfl⟩ := List.mem_map.mp hp'
    exact hp a ha
  · intro sp hsp
    cases hreq : sp.required with
    | false => simp
    | true => simpa using hr sp hsp hreq


/-- the grammar's verdict on one emitted attribute -/
def GOk (specs : List AttrSpec) (a : Attr) : Prop := GWFAttr a ∧ pairOK specs (toPair a) = true

theorem quoted_chars {s : Str} (h : QuotedOK s) : ∀ c ∈ s, c ≠ '"' ∧ isLineBreak c = false := by
  intro c hc
  refine ⟨fun e => h.1 (e ▸ hc), ?_⟩
  have h1 : c ≠ '\n' := fun e => h.2.1 (e ▸ hc)
  have h2 : c ≠ '\r' := fun e => h.2.2 (e ▸ hc)
  simp [isLineBreak, h1, h2]

/-- a quoted attribute whose name the tag defines with class quoted-string -/
theorem GOk_quoted {specs : List AttrSpec} {k s : Str} (hk : k ≠ [] ∧ ∀ c ∈ k, isNameChar c = true)
    (hspec : pairOK specs { name := k, value := [], quoted := true } = true) (hs : QuotedOK s) :
    GOk specs (k, .quoted s) := by
  refine ⟨⟨hk.1, hk.2, quoted_chars hs⟩, ?_⟩
  show pairOK specs { name := k, value := s, quoted := true } = true
  unfold pairOK at hspec ⊢
  simp only at hspec ⊢
  cases hf : specs.find? (fun sp => sp.name = k) with
  | none => rw [hf] at hspec; cases hspec
  | some sp =>
    rw [hf] at hspec
    simp only [List.any_eq_true] at hspec ⊢
    obtain ⟨cl, hcl, hh⟩ := hspec
    refine ⟨cl, hcl, ?_⟩
    cases cl <;> simp_all [hasClass]

theorem keyOK_of_decide (k : Str) (h : (!k.isEmpty && k.all isNameChar) = true) : k ≠ [] ∧ ∀ c ∈ k, isNameChar c = true := by
  simp only [Bool.and_eq_true, Bool.not_eq_true', List.all_eq_true] at h
  exact ⟨by intro e; rw [e] at h; simp at h, h.2⟩

theorem sublist_optAttr (b : Bool) (a : Attr) : ((optAttr b a).map (·.1)).Sublist [a.1] := by
  cases b <;> simp [optAttr]

theorem sublist_optAttrO {α} (o : Option α) (f : α → Attr) (k : Str) (hk : ∀ x, (f x).1 = k) :
    ((optAttrO o f).map (·.1)).Sublist [k] := by
  cases o with
  | none => simp [optAttrO]
  | some x => simp [optAttrO, hk x]

theorem renditionAttrs_keys_nodup (r : Rendition) : ((renditionAttrs r).map (·.1)).Nodup := by
  have hsub : ((renditionAttrs r).map (·.1)).Sublist
      ([kType, kGroupID] ++ [kLanguage] ++ [kName] ++ [kAutoselect] ++ [kDefault] ++ [kForced] ++ [kChannels] ++ [kURI] ++ [kInstreamID]) := by
    unfold renditionAttrs
    simp only [List.map_append]
    refine List.Sublist.append (List.Sublist.append (List.Sublist.append (List.Sublist.append (List.Sublist.append
      (List.Sublist.append (List.Sublist.append (List.Sublist.append ?_ ?_) ?_) ?_) ?_) ?_) ?_) ?_) ?_
    · simp
    · exact sublist_optAttr _ _
    · exact sublist_optAttr _ _
    · exact sublist_optAttr _ _
    · exact sublist_optAttr _ _
    · exact sublist_optAttr _ _
    · exact sublist_optAttrO _ _ _ (fun _ => rfl)
    · exact sublist_optAttrO _ _ _ (fun _ => rfl)
    · exact sublist_optAttrO _ _ _ (fun _ => rfl)
  exact List.Nodup.sublist hsub (by decide)

theorem GOk_type {t : Str} (h : t ∈ renditionTypes) : GOk mediaSpecs (kType, .unquoted t) := by
  rcases mem_renditionTypes h with e | e | e | e <;> subst e <;>
    exact ⟨⟨by decide, by decide, by decide, by decide⟩, by decide⟩

theorem GOk_yes (k : Str) (hk : k ≠ [] ∧ ∀ c ∈ k, isNameChar c = true)
    (hspec : pairOK mediaSpecs { name := k, value := yes, quoted := false } = true) :
    GOk mediaSpecs (k, .unquoted yes) :=
  ⟨⟨hk.1, hk.2, by decide, by decide⟩, hspec⟩

theorem rendition_attrs_ok {r : Rendition} (h : WFRendition r) :
    AllAttrs (GOk mediaSpecs) (renditionAttrs r) := by
  obtain ⟨ht, ⟨_, hg⟩, ⟨_, hn⟩, hl, hc, hu, hi, _⟩ := h
  unfold renditionAttrs
  refine AllAttrs_append (AllAttrs_append (AllAttrs_append (AllAttrs_append (AllAttrs_append (AllAttrs_append
    (AllAttrs_append (AllAttrs_append ?_ ?_) ?_) ?_) ?_) ?_) ?_) ?_) ?_
  · exact AllAttrs_cons (GOk_type ht)
      (AllAttrs_cons (GOk_quoted (keyOK_of_decide _ (by decide)) (by decide) hg) AllAttrs_nil)
  · exact AllAttrs_optAttr (fun _ => GOk_quoted (keyOK_of_decide _ (by decide)) (by decide) hl)
  · exact AllAttrs_optAttr (fun _ => GOk_quoted (keyOK_of_decide _ (by decide)) (by decide) hn)
  · exact AllAttrs_optAttr (fun _ => GOk_yes _ (keyOK_of_decide _ (by decide)) (by decide))
  · exact AllAttrs_optAttr (fun _ => GOk_yes _ (keyOK_of_decide _ (by decide)) (by decide))
  · exact AllAttrs_optAttr (fun _ => GOk_yes _ (keyOK_of_decide _ (by decide)) (by decide))
  · exact AllAttrs_optAttrO (OptAll_imp hc (fun x hx => GOk_quoted (keyOK_of_decide _ (by decide)) (by decide) hx))
  · exact AllAttrs_optAttrO (OptAll_imp hu (fun x hx => GOk_quoted (keyOK_of_decide _ (by decide)) (by decide) hx))
  · exact AllAttrs_optAttrO (OptAll_imp hi (fun x hx => GOk_quoted (keyOK_of_decide _ (by decide)) (by decide) hx))

/-- the grammar accepts the attribute list of every EXT-X-MEDIA line `Marshal` writes -/
theorem rendition_attrsOK {r : Rendition} (h : WFRendition r) :
    attrsOK mediaSpecs (renderAttrs (renditionAttrs r)) = true := by
  have hall := rendition_attrs_ok h
  have hname : r.name ≠ [] := h.2.2.1.1
  apply attrsOK_render _ (by simp [renditionAttrs]) (fun a ha => (hall a ha).1) (fun a ha => (hall a ha).2)
    (renditionAttrs_keys_nodup r)
  intro sp hsp hreq
  simp only [mediaSpecs, List.mem_cons, List.mem_nil_iff, or_false] at hsp
  rcases hsp with e | e | e | e | e | e | e | e | e | e | e | e <;> subst e <;> simp at hreq
  · simp [renditionAttrs, kType]
  · simp [renditionAttrs, kGroupID]
  · simp [renditionAttrs, optAttr, hname, kName]


/-! ## Numeric texts have the RFC's lexical classes -/

theorem isDig_eq (c : Char) : isDig c = isDigit c := rfl

theorem natToDigits_all_isDig (n : Nat) : (natToDigits n).all isDig = true := natToDigits_all_digit n

theorem digits_natToDigits {n : Nat} (h : n < 10 ^ 20) : digits (natToDigits n) 20 = true := by
  unfold digits
  have h1 : (natToDigits n).isEmpty = false := by
    cases hd : natToDigits n with
    | nil => exact absurd hd (natToDigits_ne_nil n)
    | cons _ _ => rfl
  have h2 := natToDigits_length 19 n h
  simp [h1, h2, natToDigits_all_isDig]

theorem digit_not_bad {c : Char} (h : isDigit c = true) : c ≠ ',' ∧ badUnquoted c = false := by
  refine ⟨digit_ne h (by decide), ?_⟩
  have h1 := digit_ne h (d := '"') (by decide)
  have h2 := digit_ne h (d := ' ') (by decide)
  have h3 := digit_ne h (d := '\t') (by decide)
  have h4 := digit_ne h (d := '\n') (by decide)
  have h5 := digit_ne h (d := '\r') (by decide)
  simp [badUnquoted, h1, h2, h3, h4, h5]

theorem GWF_unquoted_digits {k : Str} (hk : k ≠ [] ∧ ∀ c ∈ k, isNameChar c = true) (n : Nat) :
    GWFAttr (k, .unquoted (natToDigits n)) :=
  ⟨hk.1, hk.2, natToDigits_ne_nil n, fun c hc => digit_not_bad (natToDigits_isDigit hc)⟩

/-- a decimal-integer attribute -/
theorem GOk_decInt {specs : List AttrSpec} {k : Str} (hk : k ≠ [] ∧ ∀ c ∈ k, isNameChar c = true)
    (hspec : (specs.find? (fun sp => sp.name = k)).map (·.classes) = some [.decInt]) {i : Int}
    (h0 : 0 ≤ i) (h1 : i < 2 ^ 31) : GOk specs (k, .unquoted (formatInt i)) := by
  rw [formatInt_nonneg h0]
  refine ⟨GWF_unquoted_digits hk _, ?_⟩
  show pairOK specs { name := k, value := natToDigits i.toNat, quoted := false } = true
  unfold pairOK
  simp only
  cases hf : specs.find? (fun sp => sp.name = k) with
  | none => rw [hf] at hspec; cases hspec
  | some sp =>
    rw [hf] at hspec
    simp only [Option.map_some, Option.some.injEq] at hspec
    have : i.toNat < 10 ^ 20 := by omega
    simp [hspec, hasClass, digits_natToDigits this]

theorem spanP_fst_all (p : Char → Bool) (s : Str) : ∀ c ∈ (spanP p s).1, p c = true := by
  induction s with
  | nil => intro c hc; cases hc
  | cons x xs ih =>
    intro c hc
    simp only [spanP] at hc
    split at hc
    · rename_i hx
      rcases List.mem_cons.mp hc with e | e
      · rw [e]; exact hx
      · exact ih c e
    · cases hc

theorem spanP_append (p : Char → Bool) (s : Str) : (spanP p s).1 ++ (spanP p s).2 = s := by
  induction s with
  | nil => rfl
  | cons x xs ih =>
    simp only [spanP]
    split
    · simp [ih]
    · rfl

/-- the characters of a decimal-resolution -/
theorem isResolution_chars {s : Str} (h : isResolution s = true) : s ≠ [] ∧ ∀ c ∈ s, c ≠ ',' ∧ badUnquoted c = false := by
  unfold isResolution at h
  simp only [Bool.and_eq_true] at h
  obtain ⟨h1, h2⟩ := h
  have hs := spanP_append isDig s
  split at h2
  · rename_i x b hb
    simp only [Bool.and_eq_true, decide_eq_true_eq] at h2
    obtain ⟨hx, hbd⟩ := h2
    rw [hb] at hs
    constructor
    · intro e; rw [e] at hs; simp at hs
    · intro c hc
      rw [← hs] at hc
      rcases List.mem_append.mp hc with hc | hc
      · exact digit_not_bad (spanP_fst_all isDig s c hc)
      · rcases List.mem_cons.mp hc with e | e
        · subst e; subst hx; decide
        · unfold digits at hbd
          simp only [Bool.and_eq_true, List.all_eq_true] at hbd
          exact digit_not_bad (hbd.2 c e)
  · cases h2

theorem padLeft_all_isDig (p n : Nat) : (F64.padLeft p (natToDigits n)).all isDig = true := by
  unfold F64.padLeft
  simp only [List.all_append, Bool.and_eq_true, List.all_eq_true]
  exact ⟨fun c hc => by rw [(List.mem_replicate.mp hc).2]; decide, fun c hc => natToDigits_isDigit hc⟩

theorem padLeft_ne_nil (p n : Nat) : (F64.padLeft p (natToDigits n)).isEmpty = false := by
  unfold F64.padLeft
  cases hd : natToDigits n with
  | nil => exact absurd hd (natToDigits_ne_nil n)
  | cons c cs => cases List.replicate (p - (c :: cs).length) '0' <;> rfl

/-- `N · 10^-p` printed with `p` decimals is a decimal-floating-point -/
theorem isFloat_decFixed (p N : Nat) : isFloat (F64.decFixed p N) = true := by
  unfold isFloat F64.decFixed
  have hsp : spanP isDig (natToDigits (N / 10 ^ p) ++ '.' :: F64.padLeft p (natToDigits (N % 10 ^ p))) =
      (natToDigits (N / 10 ^ p), '.' :: F64.padLeft p (natToDigits (N % 10 ^ p))) :=
    spanP_append_stop _ (fun c hc => natToDigits_isDigit hc) (by decide)
  rw [hsp]
  have h1 : (natToDigits (N / 10 ^ p)).isEmpty = false := by
    cases hd : natToDigits (N / 10 ^ p) with
    | nil => exact absurd hd (natToDigits_ne_nil _)
    | cons _ _ => rfl
  simp [h1, digits1, padLeft_ne_nil, padLeft_all_isDig]

theorem decFixed_not_bad {p N : Nat} : F64.decFixed p N ≠ [] ∧ ∀ c ∈ F64.decFixed p N, c ≠ ',' ∧ badUnquoted c = false := by
  constructor
  · unfold F64.decFixed; simp
  · intro c hc
    rcases decFixed_chars hc with h | h
    · exact digit_not_bad h
    · subst h; decide

theorem isSignedFloat_decInt (p : Nat) (q : Int) : isSignedFloat (decInt p q) = true := by
  unfold decInt
  by_cases hq : q < 0
  · simp only [hq, if_true, List.cons_append, List.nil_append, isSignedFloat]
    exact isFloat_decFixed _ _
  · simp only [hq, if_false, List.nil_append]
    have hf := isFloat_decFixed p q.natAbs
    cases hd : F64.decFixed p q.natAbs with
    | nil => exact absurd hd decFixed_not_bad.1
    | cons c r =>
      have hc : c ≠ '-' := by
        intro e
        have : c ∈ F64.decFixed p q.natAbs := by rw [hd]; simp
        rcases decFixed_chars this with h | h
        · subst e; simp [isDigit] at h
        · subst e; cases h
      rw [hd] at hf
      simp [isSignedFloat, hc, hf]

theorem decInt_not_bad {p : Nat} {q : Int} : decInt p q ≠ [] ∧ ∀ c ∈ decInt p q, c ≠ ',' ∧ badUnquoted c = false := by
  constructor
  · unfold decInt
    intro e
    have := List.append_eq_nil_iff.mp e
    exact decFixed_not_bad.1 this.2
  · intro c hc
    rcases decInt_chars hc with h | h | h
    · exact digit_not_bad h
    · subst h; decide
    · subst h; decide


theorem GOk_unquoted {specs : List AttrSpec} {k s : Str} (hk : k ≠ [] ∧ ∀ c ∈ k, isNameChar c = true)
    (hchars : s ≠ [] ∧ ∀ c ∈ s, c ≠ ',' ∧ badUnquoted c = false)
    (hpair : pairOK specs { name := k, value := s, quoted := false } = true) : GOk specs (k, .unquoted s) :=
  ⟨⟨hk.1, hk.2, hchars.1, hchars.2⟩, hpair⟩

theorem WFFrameRate_fin {f : F64} (h : WFFrameRate f) : ∃ m e, f = .fin false m e := by
  unfold WFFrameRate at h
  cases f with
  | nan => simp [F64.toMilli] at h
  | inf n => simp [F64.toMilli] at h
  | fin n m e =>
    cases n with
    | false => exact ⟨m, e, rfl⟩
    | true => simp [F64.toMilli] at h

theorem fmtFixed_fin_pos (p m : Nat) (e : Int) : ∃ N, F64.fmtFixed p (.fin false m e) = F64.decFixed p N := by
  unfold F64.fmtFixed
  simp only [Bool.false_eq_true, if_false, List.nil_append]
  exact ⟨_, rfl⟩

theorem variantAttrs_keys_nodup (v : Variant) : ((variantAttrs v).map (·.1)).Nodup := by
  have hsub : ((variantAttrs v).map (·.1)).Sublist
      ([kBandwidth] ++ [kAverageBandwidth] ++ [kCodecs] ++ [kResolution] ++ [kFrameRate] ++ [kVideo] ++ [kAudio] ++ [kSubtitles] ++ [kClosedCaptions]) := by
    unfold variantAttrs
    simp only [List.map_append]
    refine List.Sublist.append (List.Sublist.append (List.Sublist.append (List.Sublist.append (List.Sublist.append
      (List.Sublist.append (List.Sublist.append (List.Sublist.append ?_ ?_) ?_) ?_) ?_) ?_) ?_) ?_) ?_
    · simp
    · exact sublist_optAttrO _ _ _ (fun _ => rfl)
    · simp
    · exact sublist_optAttr _ _
    · exact sublist_optAttrO _ _ _ (fun _ => rfl)
    · exact sublist_optAttr _ _
    · exact sublist_optAttr _ _
    · exact sublist_optAttr _ _
    · exact sublist_optAttr _ _
  exact List.Nodup.sublist hsub (by decide)

theorem codecs_quotedOK {cs : List Str} (h : ∀ c ∈ cs, QuotedOK c ∧ ',' ∉ c) : QuotedOK (joinByte ',' cs) :=
  ⟨joinByte_no_mem (by decide) (fun x hx => (h x hx).1.1), joinByte_no_mem (by decide) (fun x hx => (h x hx).1.2.1),
   joinByte_no_mem (by decide) (fun x hx => (h x hx).1.2.2)⟩

theorem variant_attrs_ok {v : Variant} (h : WFVariant v) (hres : v.resolution ≠ [] → isResolution v.resolution = true) :
    AllAttrs (GOk streamInfSpecs) (variantAttrs v) := by
  obtain ⟨⟨hb0, hb1⟩, hab, hcne, hcs, huri, hresu, hfr, hvi, hau, hsu, hcc⟩ := h
  unfold variantAttrs
  refine AllAttrs_append (AllAttrs_append (AllAttrs_append (AllAttrs_append (AllAttrs_append (AllAttrs_append
    (AllAttrs_append (AllAttrs_append ?_ ?_) ?_) ?_) ?_) ?_) ?_) ?_) ?_
  · exact AllAttrs_cons (GOk_decInt (keyOK_of_decide _ (by decide)) (by decide) hb0 hb1) AllAttrs_nil
  · exact AllAttrs_optAttrO (OptAll_imp hab (fun a ha => GOk_decInt (keyOK_of_decide _ (by decide)) (by decide) ha.1 ha.2))
  · exact AllAttrs_cons (GOk_quoted (keyOK_of_decide _ (by decide)) (by decide) (codecs_quotedOK hcs)) AllAttrs_nil
  · refine AllAttrs_optAttr (fun hb => ?_)
    have hne : v.resolution ≠ [] := by simpa using hb
    refine GOk_unquoted (keyOK_of_decide _ (by decide)) (isResolution_chars (hres hne)) ?_
    simp [pairOK, streamInfSpecs, kResolution, hasClass, hres hne]
  · refine AllAttrs_optAttrO (OptAll_imp hfr (fun f hf => ?_))
    obtain ⟨m, e, rfl⟩ := WFFrameRate_fin hf
    obtain ⟨N, hN⟩ := fmtFixed_fin_pos 3 m e
    rw [hN]
    refine GOk_unquoted (keyOK_of_decide _ (by decide)) decFixed_not_bad ?_
    simp [pairOK, streamInfSpecs, kFrameRate, hasClass, isFloat_decFixed]
  · exact AllAttrs_optAttr (fun _ => GOk_quoted (keyOK_of_decide _ (by decide)) (by decide) hvi)
  · exact AllAttrs_optAttr (fun _ => GOk_quoted (keyOK_of_decide _ (by decide)) (by decide) hau)
  · exact AllAttrs_optAttr (fun _ => GOk_quoted (keyOK_of_decide _ (by decide)) (by decide) hsu)
  · exact AllAttrs_optAttr (fun _ => GOk_quoted (keyOK_of_decide _ (by decide)) (by decide) hcc)

/-- the grammar accepts the attribute list of every EXT-X-STREAM-INF line `Marshal` writes -/
theorem variant_attrsOK {v : Variant} (h : WFVariant v) (hres : v.resolution ≠ [] → isResolution v.resolution = true) :
    attrsOK streamInfSpecs (renderAttrs (variantAttrs v)) = true := by
  have hall := variant_attrs_ok h hres
  apply attrsOK_render _ (by simp [variantAttrs]) (fun a ha => (hall a ha).1) (fun a ha => (hall a ha).2)
    (variantAttrs_keys_nodup v)
  intro sp hsp hreq
  simp only [streamInfSpecs, List.mem_cons, List.mem_nil_iff, or_false] at hsp
  rcases hsp with e | e | e | e | e | e | e | e | e | e <;> subst e <;> simp at hreq
  simp [variantAttrs, kBandwidth]

/-- the grammar accepts the attribute list of the EXT-X-START line `Marshal` writes -/
theorem start_attrsOK {t : Start} (hfl : DurFloatOK t.timeOffset) :
    attrsOK startSpecs (renderAttrs (startAttrs t)) = true := by
  obtain ⟨q, d', hfmt, _⟩ := DurFloatOK_elim hfl
  have hok : GOk startSpecs (kTimeOffset, .unquoted (durFmt5 t.timeOffset)) := by
    rw [hfmt]
    refine GOk_unquoted (keyOK_of_decide _ (by decide)) decInt_not_bad ?_
    simp [pairOK, startSpecs, kTimeOffset, hasClass, dec5, isSignedFloat_decInt]
  apply attrsOK_render _ (by simp [startAttrs]) (fun a ha => ?_) (fun a ha => ?_) (by simp [startAttrs])
  · intro sp hsp hreq
    simp only [startSpecs, List.mem_cons, List.mem_nil_iff, or_false] at hsp
    rcases hsp with e | e <;> subst e <;> simp at hreq
    simp [startAttrs, kTimeOffset]
  · simp only [startAttrs, List.mem_singleton] at ha; rw [ha]; exact hok.1
  · simp only [startAttrs, List.mem_singleton] at ha; rw [ha]; exact hok.2


/-! ## Line by line -/

theorem cutTag_colon {n : Str} (v : Str) (h : ∀ c ∈ n, c ≠ ':') : cutTag (n ++ ':' :: v) = (n, some v) := by
  unfold cutTag
  have := spanP_append_stop (p := fun c => decide (c ≠ ':')) (a := n) (x := ':') v (fun c hc => by simpa using h c hc) (by simp)
  rw [this]

theorem cutTag_plain {n : Str} (h : ∀ c ∈ n, c ≠ ':') : cutTag n = (n, none) := by
  unfold cutTag
  have := spanP_all (p := fun c => decide (c ≠ ':')) (a := n) (fun c hc => by simpa using h c hc)
  rw [this]

def nameVersion : Txt := g!"#EXT-X-VERSION"
def nameIndep : Txt := g!"#EXT-X-INDEPENDENT-SEGMENTS"
def nameStart : Txt := g!"#EXT-X-START"
def nameMedia : Txt := g!"#EXT-X-MEDIA"
def nameStreamInf : Txt := g!"#EXT-X-STREAM-INF"

/-- a tag line of the form `NAME:value` goes to `stepTag` -/
theorem stepLine_tag (st : St) (n v : Str) (hn : hasPre g!"#EXT" n = true) (hc : ∀ c ∈ n, c ≠ ':') (hp : st.pending = false) :
    stepLine baseTags .multivariant st (n ++ ':' :: v) = stepTag baseTags .multivariant st n (some v) := by
  cases n with
  | nil => simp [hasPre] at hn
  | cons c cs =>
    have hc0 : c = '#' := by
      simp only [hasPre, List.isPrefixOf, Bool.and_eq_true, beq_iff_eq] at hn
      exact hn.1.symm
    have hpre : hasPre g!"#EXT" (c :: cs ++ ':' :: v) = true := by
      unfold hasPre at hn ⊢
      exact List.isPrefixOf_iff_prefix.mpr ((List.isPrefixOf_iff_prefix.mp hn).trans (List.prefix_append _ _))
    have hcut := cutTag_colon (n := c :: cs) v hc
    simp only [List.cons_append] at hcut hpre
    simp only [stepLine, List.cons_append, hc0, ne_eq, not_true_eq_false, if_false, hpre, Bool.not_true,
      Bool.false_eq_true, hp, Bool.false_and]
    subst hc0
    rw [hcut]
    simp [hpre]

theorem stepLine_tag_plain (st : St) (n : Str) (hn : hasPre g!"#EXT" n = true) (hc : ∀ c ∈ n, c ≠ ':') (hp : st.pending = false) :
    stepLine baseTags .multivariant st n = stepTag baseTags .multivariant st n none := by
  cases n with
  | nil => simp [hasPre] at hn
  | cons c cs =>
    have hc0 : c = '#' := by
      simp only [hasPre, List.isPrefixOf, Bool.and_eq_true, beq_iff_eq] at hn
      exact hn.1.symm
    have hcut := cutTag_plain (n := c :: cs) hc
    simp only [stepLine, hc0, ne_eq, not_true_eq_false, if_false, hp, Bool.false_and, Bool.false_eq_true]
    subst hc0
    simp only [hn, Bool.not_true, Bool.false_eq_true, if_false]
    rw [hcut]

theorem stepTag_version (st : St) (x : Str) (hs : st.seen.contains nameVersion = false) (hx : digits x 20 = true) :
    stepTag baseTags .multivariant st nameVersion (some x) =
      some { seen := nameVersion :: st.seen, pending := st.pending } := by
  simp [stepTag, baseTags, nameVersion, kindOK, formOK, hx] at hs ⊢
  simp [hs]

theorem stepTag_indep (st : St) (hs : st.seen.contains nameIndep = false) :
    stepTag baseTags .multivariant st nameIndep none = some { seen := nameIndep :: st.seen, pending := st.pending } := by
  simp [stepTag, baseTags, nameIndep, kindOK, formOK] at hs ⊢
  simp [hs]

theorem stepTag_start (st : St) (x : Str) (hs : st.seen.contains nameStart = false) (hx : attrsOK startSpecs x = true) :
    stepTag baseTags .multivariant st nameStart (some x) = some { seen := nameStart :: st.seen, pending := st.pending } := by
  simp [stepTag, baseTags, nameStart, kindOK, formOK, hx] at hs ⊢
  simp [hs]

theorem stepTag_media (st : St) (x : Str) (hx : attrsOK mediaSpecs x = true) :
    stepTag baseTags .multivariant st nameMedia (some x) = some st := by
  simp [stepTag, baseTags, nameMedia, kindOK, formOK, hx]

theorem stepTag_streamInf (st : St) (x : Str) (hx : attrsOK streamInfSpecs x = true) :
    stepTag baseTags .multivariant st nameStreamInf (some x) = some { st with pending := true } := by
  simp [stepTag, baseTags, nameStreamInf, kindOK, formOK, hx]


local notation "runM" => run baseTags PKind.multivariant
local notation "stepM" => stepLine baseTags PKind.multivariant

theorem stepLine_blank (st : St) : stepM st [] = some st := rfl

theorem run_cons_some {st st' : St} {l : Str} (ls : List Str) (h : stepM st l = some st') :
    runM st (l :: ls) = runM st' ls := by
  simp only [run]
  rw [h]

theorem stepM_media {st : St} {r : Rendition} (hp : st.pending = false) (h : WFRendition r) :
    stepM st (tagMedia ++ renderAttrs (renditionAttrs r)) = some st := by
  have e : tagMedia ++ renderAttrs (renditionAttrs r) = nameMedia ++ ':' :: renderAttrs (renditionAttrs r) := by
    simp [tagMedia, nameMedia]
  rw [e, stepLine_tag st nameMedia _ (by decide) (by decide) hp, stepTag_media st _ (rendition_attrsOK h)]

theorem stepM_streamInf {st : St} {v : Variant} (hp : st.pending = false) (h : WFVariant v)
    (hres : v.resolution ≠ [] → isResolution v.resolution = true) :
    stepM st (tagStreamInf ++ renderAttrs (variantAttrs v)) = some { st with pending := true } := by
  have e : tagStreamInf ++ renderAttrs (variantAttrs v) = nameStreamInf ++ ':' :: renderAttrs (variantAttrs v) := by
    simp [tagStreamInf, nameStreamInf]
  rw [e, stepLine_tag st nameStreamInf _ (by decide) (by decide) hp, stepTag_streamInf st _ (variant_attrsOK h hres)]

theorem stepM_uri {st : St} {u : Str} (hp : st.pending = true) (h : WFUri u) :
    stepM st u = some { st with pending := false } := by
  obtain ⟨hne, hh, _, _⟩ := h
  cases u with
  | nil => exact absurd rfl hne
  | cons c cs =>
    have : c ≠ '#' := by intro e; apply hh; simp [e]
    simp [stepLine, this, hp]

theorem run_renditions {st : St} (hp : st.pending = false) (rs : List Rendition) (h : ∀ r ∈ rs, WFRendition r)
    (rest : List Str) :
    runM st (rs.map (fun r => tagMedia ++ renderAttrs (renditionAttrs r)) ++ rest) = runM st rest := by
  induction rs with
  | nil => rfl
  | cons r rs ih =>
    simp only [List.map_cons, List.cons_append]
    rw [run_cons_some _ (stepM_media hp (h r (by simp)))]
    exact ih (fun x hx => h x (by simp [hx]))

theorem run_variants {st : St} (hp : st.pending = false) (vs : List Variant) (h : ∀ v ∈ vs, WFVariant v)
    (hres : ∀ v ∈ vs, v.resolution ≠ [] → isResolution v.resolution = true) :
    runM st (vs.map (fun v => [tagStreamInf ++ renderAttrs (variantAttrs v), v.uri])).flatten = some st := by
  induction vs with
  | nil => rfl
  | cons v vs ih =>
    simp only [List.map_cons, List.flatten_cons, List.cons_append, List.nil_append]
    rw [run_cons_some _ (stepM_streamInf hp (h v (by simp)) (hres v (by simp))),
      run_cons_some _ (stepM_uri (st := { st with pending := true }) rfl (h v (by simp)).2.2.2.2.1)]
    have : ({ seen := st.seen, pending := false } : St) = st := by cases st; simp_all
    simp only [this]
    exact ih (fun x hx => h x (by simp [hx])) (fun x hx => hres x (by simp [hx]))


theorem stepM_version {st : St} {v : Int} (hp : st.pending = false) (hs : st.seen.contains nameVersion = false)
    (h0 : 0 ≤ v) (h1 : v ≤ 10) :
    stepM st (tagVersion ++ formatInt v) = some { seen := nameVersion :: st.seen, pending := false } := by
  have e : tagVersion ++ formatInt v = nameVersion ++ ':' :: formatInt v := by simp [tagVersion, nameVersion]
  have hd : digits (formatInt v) 20 = true := by
    rw [formatInt_nonneg h0]; exact digits_natToDigits (by omega)
  rw [e, stepLine_tag st nameVersion _ (by decide) (by decide) hp, stepTag_version st _ hs hd, hp]

theorem stepM_indep {st : St} (hp : st.pending = false) (hs : st.seen.contains nameIndep = false) :
    stepM st tagIndependentSegments = some { seen := nameIndep :: st.seen, pending := false } := by
  have e : tagIndependentSegments = nameIndep := rfl
  rw [e, stepLine_tag_plain st nameIndep (by decide) (by decide) hp, stepTag_indep st hs, hp]

theorem stepM_start {st : St} {t : Start} (hp : st.pending = false) (hs : st.seen.contains nameStart = false)
    (hfl : DurFloatOK t.timeOffset) :
    stepM st (tagStart ++ renderAttrs (startAttrs t)) = some { seen := nameStart :: st.seen, pending := false } := by
  have e : tagStart ++ renderAttrs (startAttrs t) = nameStart ++ ':' :: renderAttrs (startAttrs t) := by
    simp [tagStart, nameStart]
  rw [e, stepLine_tag st nameStart _ (by decide) (by decide) hp, stepTag_start st _ hs (start_attrsOK hfl), hp]

/-- everything after the EXT-X-START position: rendition block, blank line, variants -/
theorem run_block {st : St} (hp : st.pending = false) {p : Multivariant} (h : WFMultivariant p) (hl : LexicalOK p) :
    runM st ((if p.renditions.length ≠ 0 then
        [] :: p.renditions.map (fun r => tagMedia ++ renderAttrs (renditionAttrs r)) else []) ++
      ([] :: (p.variants.map (fun v => [tagStreamInf ++ renderAttrs (variantAttrs v), v.uri])).flatten)) = some st := by
  obtain ⟨_, _, _, hvs, hrs⟩ := h
  have hv := run_variants hp p.variants hvs hl
  split
  · simp only [List.cons_append]
    rw [run_cons_some _ (stepLine_blank st), run_renditions hp _ hrs, run_cons_some _ (stepLine_blank st)]
    exact hv
  · simp only [List.nil_append]
    rw [run_cons_some _ (stepLine_blank st)]
    exact hv

/-- C15 `grammar`: the independent strict RFC 8216 grammar accepts every playlist
    `Multivariant.Marshal` writes for a well-formed value. -/
theorem accepts_marshal_of_start {p : Multivariant} (h : WFMultivariant p) (hl : LexicalOK p)
    (hfl : OptAll p.start (fun t => DurFloatOK t.timeOffset)) :
    acceptsMultivariant p.marshal = true := by
  have hclean := clean_marshalLines h
  unfold acceptsMultivariant accepts
  rw [Multivariant.marshal_eq_unlines, linesOf_unlines hclean]
  have hhead : marshalLines p = headerLit :: (marshalLines p).tail := by simp [marshalLines]
  rw [hhead]
  simp only
  have hcr : ((marshalLines p).tail.all fun l => !l.contains '\r') = true := by
    rw [List.all_eq_true]
    intro l hl'
    have := (hclean l (List.mem_of_mem_tail hl')).2
    simp [this]
  -- the run
  have hfinal : ∃ st : St, run baseTags PKind.multivariant {} (marshalLines p).tail = some st ∧ st.pending = false := by
    have h' := h
    obtain ⟨⟨hv0, hv1⟩, hst, _⟩ := h'
    unfold marshalLines
    simp only [List.cons_append, List.nil_append, List.tail_cons, List.append_assoc]
    rw [run_cons_some _ (stepM_version (st := {}) rfl rfl hv0 hv1)]
    cases hi : p.independentSegments with
    | false =>
      simp only [Bool.false_eq_true, if_false, List.nil_append]
      cases hs : p.start with
      | none =>
        simp only [List.nil_append]
        exact ⟨_, run_block rfl h hl, rfl⟩
      | some t =>
        simp only [List.cons_append, List.nil_append]
        have hd : DurFloatOK t.timeOffset := by have := hfl; rw [hs] at this; exact this
        rw [run_cons_some _ (stepM_start (st := { seen := [nameVersion], pending := false }) rfl (by decide) hd)]
        exact ⟨_, run_block rfl h hl, rfl⟩
    | true =>
      simp only [if_true, List.cons_append, List.nil_append]
      rw [run_cons_some _ (stepM_indep (st := { seen := [nameVersion], pending := false }) rfl (by decide))]
      cases hs : p.start with
      | none =>
        simp only [List.nil_append]
        exact ⟨_, run_block rfl h hl, rfl⟩
      | some t =>
        simp only [List.cons_append, List.nil_append]
        have hd : DurFloatOK t.timeOffset := by have := hfl; rw [hs] at this; exact this
        rw [run_cons_some _ (stepM_start (st := { seen := [nameIndep, nameVersion], pending := false }) rfl (by decide) hd)]
        exact ⟨_, run_block rfl h hl, rfl⟩
  obtain ⟨st, hst, hp⟩ := hfinal
  rw [hst, hcr]
  simp [hp, headerLit]


theorem accepts_marshal {p : Multivariant} (h : WFMultivariant p) (hl : LexicalOK p) (hfl : FloatOK p) :
    acceptsMultivariant p.marshal = true := accepts_marshal_of_start h hl hfl.1

end Hls.Playlist
