import Hls.Playlist.MediaGrammarLex
/-!
# The strict grammar accepts what `Media.marshal` writes — attribute lists of every tag
-/
namespace Hls.Playlist.MG
open Hls.Playlist.MP

/-- required attributes present, and the EXT-X-KEY rule -/
def finalOK (tag : ATag) (seen : List (Str × Str)) : Bool :=
  (attrTable tag).all (fun a => !a.required || seen.any (fun p => p.1 == a.name)) &&
  (if tag = .key then
    (if seen.any (fun p => p.1 == cs!"METHOD" && p.2 == cs!"NONE") then seen.length = 1
     else seen.any (fun p => p.1 == cs!"URI"))
   else true)

theorem renderAttrs_length_pos : ∀ (as : List (Str × AV)), as ≠ [] → 0 < (renderAttrs as).length
  | [], h => absurd rfl h
  | [a], _ => by simpa [renderAttrs] using renderAttr_length_pos a
  | a :: b :: rest, _ => by
    have := renderAttr_length_pos a
    simp only [renderAttrs, List.length_append, List.length_cons]
    omega

theorem renderAttrs_ne_nil (as : List (Str × AV)) (h : as ≠ []) : renderAttrs as ≠ [] := by
  intro e
  have := renderAttrs_length_pos as h
  rw [e] at this
  exact absurd this (by decide)

def GOK (lenient : Bool) (spec : List AttrSpec) (a : Str × AV) : Prop := AttrG a ∧ ItemOK lenient spec a

theorem checkAttrs_render (lenient : Bool) (tag : ATag) (as : List (Str × AV)) (hne : as ≠ [])
    (hok : ∀ a ∈ as, GOK lenient (attrTable tag) a) (hnd : (keysOf as).Nodup) :
    checkAttrs lenient tag (renderAttrs as) = finalOK tag (as.map (fun a => (a.1, valText a.2))) := by
  unfold checkAttrs
  rw [if_neg (renderAttrs_ne_nil as hne), splitItems_renderAttrs as hne (fun a ha => (hok a ha).1)]
  simp only
  rw [checkItems_ok lenient (attrTable tag) as [] (fun a ha => (hok a ha).2) hnd (by simp)]
  rfl

/-- the facts about an attribute name under a table, all decidable on concrete names -/
def KeyOK (spec : List AttrSpec) (k : Str) (lex : Lex → Prop) : Prop :=
  '=' ∉ k ∧ '"' ∉ k ∧ ',' ∉ k ∧ isAttrName k = true ∧
    ∃ sp, spec.find? (fun x => x.name == k) = some sp ∧ lex sp.lex

theorem gok_u {lenient : Bool} {spec : List AttrSpec} {k v : Str} {P : Char → Bool}
    (hk : KeyOK spec k (fun l => lexOK lenient l v = true))
    (hv : v.all P = true) (h1 : P '"' = false) (h2 : P ',' = false) : GOK lenient spec (k, AV.u v) := by
  obtain ⟨e, q, c, n, sp, hf, hl⟩ := hk
  exact ⟨⟨q, c, not_mem_of_all hv h1, not_mem_of_all hv h2⟩, e, n, sp, hf, hl⟩

theorem gok_q {lenient : Bool} {spec : List AttrSpec} {k v : Str}
    (hk : KeyOK spec k (fun l => l = Lex.quoted)) (hv : quotedOK v = true) : GOK lenient spec (k, AV.q v) := by
  obtain ⟨e, q, c, n, sp, hf, hl⟩ := hk
  refine ⟨⟨q, c, quotedOK_not_mem hv⟩, e, n, sp, hf, ?_⟩
  have hl' : sp.lex = Lex.quoted := hl
  rw [hl']
  exact isQuoted_of_quotedOK hv

/-- table look-ups on concrete names -/
theorem find_spec (tag : ATag) (k : Str) (sp : AttrSpec) (h : (attrTable tag).find? (fun x => x.name == k) = some sp) :
    (attrTable tag).find? (fun x => x.name == k) = some sp := h

section
variable {C : Codec} (hC : C.Valid)
include hC

theorem isFloat_fmtDur {d : Int} (hd : DurDom d) (h0 : 0 ≤ d) : isFloat (C.fmtDur d) = true := by
  obtain ⟨q, n, h1, _⟩ := fmtDur_spec hC hd
  rw [h1]
  have : decide (d < 0) = false := by simp; omega
  rw [this]
  exact isFloat_decText q

theorem isSignedFloat_fmtDur {d : Int} (hd : DurDom d) : isSignedFloat (C.fmtDur d) = true := by
  obtain ⟨q, n, h1, _⟩ := fmtDur_spec hC hd
  rw [h1]
  exact isSignedFloat_decText _ q

theorem durChar_fmtDur {d : Int} (hd : DurDom d) : (C.fmtDur d).all durChar = true :=
  fmtDur_chars hC hd

end

theorem posDur_nonneg {d : Int} (h : posDur d = true) : 0 ≤ d := by
  simp [posDur] at h
  omega

theorem nnDur_nonneg {d : Int} (h : nnDur d = true) : 0 ≤ d := by
  simp [nnDur] at h
  omega

/-! ## per tag -/

theorem gok_optBr (L : Bool) (tag : ATag) (len start : Option Nat) (hb : brOK len start = true)
    (hL : L = true ∨ len = none)
    (hspec : (attrTable tag).find? (fun x => x.name == cs!"BYTERANGE") = some ⟨cs!"BYTERANGE", .quotedRange, false⟩) :
    ∀ a ∈ optBr len start, GOK L (attrTable tag) a := by
  intro a ha
  cases len with
  | none => simp [optBr] at ha
  | some l =>
    simp [optBr] at ha
    subst ha
    have hL' : L = true := by
      rcases hL with h | h
      · exact h
      · simp at h
    subst hL'
    refine gok_u (P := brChar) ⟨by decide, by decide, by decide, by decide, _, hspec, ?_⟩ (byteRange_marshal_chars _)
      (by decide) (by decide)
    simp only [lexOK, Bool.true_and, isRange_of_brOK hb, Bool.or_true]

section
variable {C : Codec} (hC : C.Valid) (L : Bool)
include hC

theorem Part.grammar {p : Part} (hw : wfPart p = true) (hL : L = true ∨ p.brLen = none) :
    checkAttrs L .part (renderAttrs (Part.attrs C p)) = true := by
  simp only [wfPart, Bool.and_eq_true] at hw
  obtain ⟨⟨⟨hd, hu⟩, hq⟩, hb⟩ := hw
  have hdb := natAbs_lt_of_posDur hd
  have hok : ∀ a ∈ Part.attrs C p, GOK L (attrTable .part) a := by
    intro a ha
    simp only [Part.attrs, List.mem_append, List.mem_cons, List.mem_nil_iff, or_false] at ha
    rcases ha with (((rfl | rfl) | ha) | ha) | ha
    · exact gok_u (P := durChar) ⟨by decide, by decide, by decide, by decide, ⟨cs!"DURATION", .float, true⟩, rfl,
        isFloat_fmtDur hC hdb.1 (posDur_nonneg hd)⟩ (durChar_fmtDur hC hdb.1) (by decide) (by decide)
    · exact gok_q ⟨by decide, by decide, by decide, by decide, ⟨cs!"URI", .quoted, true⟩, rfl, rfl⟩ hq
    · split at ha
      · simp at ha; subst ha
        exact gok_u (P := fun c => c = 'Y' || c = 'E' || c = 'S')
          ⟨by decide, by decide, by decide, by decide, ⟨cs!"INDEPENDENT", .enum [cs!"YES"], false⟩, rfl, by simp [lexOK]⟩
          (by decide) (by decide) (by decide)
      · simp at ha
    · exact gok_optBr L .part _ _ hb hL rfl a ha
    · split at ha
      · simp at ha; subst ha
        exact gok_u (P := fun c => c = 'Y' || c = 'E' || c = 'S')
          ⟨by decide, by decide, by decide, by decide, ⟨cs!"GAP", .enum [cs!"YES"], false⟩, rfl, by simp [lexOK]⟩
          (by decide) (by decide) (by decide)
      · simp at ha
  rw [checkAttrs_render L .part _ (by simp [Part.attrs]) hok]
  · obtain ⟨d, uri, ind, brl, brs, gap⟩ := p
    cases ind <;> cases brl <;> cases gap <;> simp [Part.attrs, optBr, finalOK, attrTable, valText]
  · obtain ⟨d, uri, ind, brl, brs, gap⟩ := p
    cases ind <;> cases brl <;> cases gap <;> simp [Part.attrs, optBr, keysOf]


theorem Start.grammar {t : Int} (hw : signedDur t = true) :
    checkAttrs L .start (renderAttrs [(cs!"TIME-OFFSET", AV.u (C.fmtDur t))]) = true := by
  have hd := natAbs_lt_of_signedDur hw
  rw [checkAttrs_render L .start _ (by simp)]
  · simp [finalOK, attrTable, valText]
  · intro a ha
    simp at ha; subst ha
    exact gok_u (P := durChar) ⟨by decide, by decide, by decide, by decide, ⟨cs!"TIME-OFFSET", .signedFloat, true⟩, rfl,
      isSignedFloat_fmtDur hC hd.1⟩ (durChar_fmtDur hC hd.1) (by decide) (by decide)
  · simp [keysOf]

theorem PartInf.grammar {t : Int} (hw : posDur t = true) :
    checkAttrs L .partInf (renderAttrs [(cs!"PART-TARGET", AV.u (C.fmtDur t))]) = true := by
  have hd := natAbs_lt_of_posDur hw
  rw [checkAttrs_render L .partInf _ (by simp)]
  · simp [finalOK, attrTable, valText]
  · intro a ha
    simp at ha; subst ha
    exact gok_u (P := durChar) ⟨by decide, by decide, by decide, by decide, ⟨cs!"PART-TARGET", .float, true⟩, rfl,
      isFloat_fmtDur hC hd.1 (posDur_nonneg hw)⟩ (durChar_fmtDur hC hd.1) (by decide) (by decide)
  · simp [keysOf]

theorem ServerControl.grammar {t : ServerControl}
    (hw : (t.partHoldBack.all nnDur && t.canSkipUntil.all nnDur) = true) :
    checkAttrs L .serverControl (renderAttrs (ServerControl.attrs C t)) = true := by
  obtain ⟨cbr, phb, csu⟩ := t
  simp only [Bool.and_eq_true] at hw
  by_cases hne : ServerControl.attrs C ⟨cbr, phb, csu⟩ = []
  · rw [hne]
    simp [renderAttrs, checkAttrs]
  · have hok : ∀ a ∈ ServerControl.attrs C ⟨cbr, phb, csu⟩, GOK L (attrTable .serverControl) a := by
      intro a ha
      simp only [ServerControl.attrs, List.mem_append] at ha
      rcases ha with (ha | ha) | ha
      · split at ha
        · simp at ha; subst ha
          exact gok_u (P := fun c => c = 'Y' || c = 'E' || c = 'S')
            ⟨by decide, by decide, by decide, by decide, ⟨cs!"CAN-BLOCK-RELOAD", .enum [cs!"YES"], false⟩, rfl, by simp [lexOK]⟩
            (by decide) (by decide) (by decide)
        · simp at ha
      · cases phb with
        | none => simp at ha
        | some d =>
          simp at ha; subst ha
          have hd : nnDur d = true := by simpa using hw.1
          exact gok_u (P := durChar) ⟨by decide, by decide, by decide, by decide, ⟨cs!"PART-HOLD-BACK", .float, false⟩, rfl,
            isFloat_fmtDur hC (natAbs_lt_of_nnDur hd) (nnDur_nonneg hd)⟩ (durChar_fmtDur hC (natAbs_lt_of_nnDur hd))
            (by decide) (by decide)
      · cases csu with
        | none => simp at ha
        | some d =>
          simp at ha; subst ha
          have hd : nnDur d = true := by simpa using hw.2
          exact gok_u (P := durChar) ⟨by decide, by decide, by decide, by decide, ⟨cs!"CAN-SKIP-UNTIL", .float, false⟩, rfl,
            isFloat_fmtDur hC (natAbs_lt_of_nnDur hd) (nnDur_nonneg hd)⟩ (durChar_fmtDur hC (natAbs_lt_of_nnDur hd))
            (by decide) (by decide)
    rw [checkAttrs_render L .serverControl _ hne hok]
    · simp [finalOK, attrTable]
    · cases cbr <;> cases phb <;> cases csu <;> simp [ServerControl.attrs, keysOf]

end

theorem MapTag.grammar (L : Bool) {t : MapTag} (hw : (t.uri != [] && quotedOK t.uri && brOK t.brLen t.brStart) = true)
    (hL : L = true ∨ t.brLen = none) :
    checkAttrs L .map (renderAttrs (MapTag.attrs t)) = true := by
  simp only [Bool.and_eq_true] at hw
  obtain ⟨⟨hu, hq⟩, hb⟩ := hw
  have hok : ∀ a ∈ MapTag.attrs t, GOK L (attrTable .map) a := by
    intro a ha
    simp only [MapTag.attrs, List.mem_append, List.mem_cons, List.mem_nil_iff, or_false] at ha
    rcases ha with rfl | ha
    · exact gok_q ⟨by decide, by decide, by decide, by decide, ⟨cs!"URI", .quoted, true⟩, rfl, rfl⟩ hq
    · exact gok_optBr L .map _ _ hb hL rfl a ha
  rw [checkAttrs_render L .map _ (by simp [MapTag.attrs]) hok]
  · obtain ⟨uri, brl, brs⟩ := t
    cases brl <;> simp [MapTag.attrs, optBr, finalOK, attrTable, valText]
  · obtain ⟨uri, brl, brs⟩ := t
    cases brl <;> simp [MapTag.attrs, optBr, keysOf]

theorem digits_all (n : Nat) : (formatNat n).all isDigit = true := (formatNat_spec n).2.1

theorem Skip.grammar (L : Bool) {t : Int} (hw : int31 t = true) :
    checkAttrs L .skip (renderAttrs [(cs!"SKIPPED-SEGMENTS", AV.u (formatInt t))]) = true := by
  obtain ⟨h0, h1⟩ := int31_bounds hw
  rw [checkAttrs_render L .skip _ (by simp)]
  · simp [finalOK, attrTable, valText]
  · intro a ha
    simp at ha; subst ha
    refine gok_u (P := isDigit) ⟨by decide, by decide, by decide, by decide, ⟨cs!"SKIPPED-SEGMENTS", .int, true⟩, rfl,
      isDecInt_formatInt hw⟩ ?_ (by decide) (by decide)
    rw [formatInt_nonneg h0]
    exact digits_all _
  · simp [keysOf]

theorem PreloadHint.grammar (L : Bool) {t : PreloadHint}
    (hw : (t.uri != [] && quotedOK t.uri && u64 t.brStart && t.brLen.all u64) = true) :
    checkAttrs L .preloadHint (renderAttrs (PreloadHint.attrs t)) = true := by
  simp only [Bool.and_eq_true] at hw
  obtain ⟨⟨⟨hu, hq⟩, hs⟩, hl⟩ := hw
  have hok : ∀ a ∈ PreloadHint.attrs t, GOK L (attrTable .preloadHint) a := by
    intro a ha
    simp only [PreloadHint.attrs, List.mem_append, List.mem_cons, List.mem_nil_iff, or_false] at ha
    rcases ha with ((rfl | rfl) | ha) | ha
    · exact gok_u (P := fun c => c = 'P' || c = 'A' || c = 'R' || c = 'T')
        ⟨by decide, by decide, by decide, by decide, ⟨cs!"TYPE", .enum [cs!"PART", cs!"MAP"], true⟩, rfl, by simp [lexOK]⟩
        (by decide) (by decide) (by decide)
    · exact gok_q ⟨by decide, by decide, by decide, by decide, ⟨cs!"URI", .quoted, true⟩, rfl, rfl⟩ hq
    · split at ha
      · simp at ha; subst ha
        exact gok_u (P := isDigit) ⟨by decide, by decide, by decide, by decide, ⟨cs!"BYTERANGE-START", .int, false⟩, rfl,
          isDecInt_formatNat (by simpa [u64] using hs)⟩ (digits_all _) (by decide) (by decide)
      · simp at ha
    · cases hbl : t.brLen with
      | none => simp [hbl] at ha
      | some l =>
        simp [hbl] at ha; subst ha
        rw [hbl] at hl
        exact gok_u (P := isDigit) ⟨by decide, by decide, by decide, by decide, ⟨cs!"BYTERANGE-LENGTH", .int, false⟩, rfl,
          isDecInt_formatNat (by simpa [u64] using hl)⟩ (digits_all _) (by decide) (by decide)
  rw [checkAttrs_render L .preloadHint _ (by simp [PreloadHint.attrs]) hok]
  · obtain ⟨uri, brs, brl⟩ := t
    by_cases h0 : brs = 0 <;> cases brl <;> simp [PreloadHint.attrs, finalOK, attrTable, valText, h0]
  · obtain ⟨uri, brs, brl⟩ := t
    by_cases h0 : brs = 0 <;> cases brl <;> simp [PreloadHint.attrs, keysOf, h0]

theorem Key.grammar (L : Bool) {k : Key} (hw : wfKey k = true) : checkAttrs L .key (renderAttrs (Key.attrs k)) = true := by
  obtain ⟨m, uri, iv, kf, kfv⟩ := k
  unfold wfKey at hw
  by_cases hm : m = methodNone
  · subst hm
    rw [checkAttrs_render L .key _ (by simp [Key.attrs])]
    · simp [Key.attrs, finalOK, attrTable, valText, methodNone]
    · intro a ha
      simp [Key.attrs] at ha
      subst ha
      exact gok_u (P := fun c => c = 'N' || c = 'O' || c = 'E')
        ⟨by decide, by decide, by decide, by decide, ⟨cs!"METHOD", .enum [cs!"NONE", cs!"AES-128", cs!"SAMPLE-AES"], true⟩,
          rfl, by simp [lexOK, methodNone, methodAES128, methodSampleAES]⟩ (by decide) (by decide) (by decide)
    · simp [Key.attrs, keysOf]
  · simp only [hm, ↓reduceIte, Bool.and_eq_true, Bool.or_eq_true, decide_eq_true_eq] at hw
    obtain ⟨⟨⟨⟨⟨hmm, hu⟩, hq⟩, hiv⟩, hkf⟩, hkfv⟩ := hw
    have hok : ∀ a ∈ Key.attrs ⟨m, uri, iv, kf, kfv⟩, GOK L (attrTable .key) a := by
      intro a ha
      simp only [Key.attrs, hm, ne_eq, not_false_eq_true, ↓reduceIte, List.mem_append, List.mem_cons,
        List.mem_nil_iff, or_false] at ha
      rcases ha with rfl | (((rfl | ha) | ha) | ha)
      · rcases hmm with rfl | rfl
        · exact gok_u (P := fun c => c = 'A' || c = 'E' || c = 'S' || c = '-' || c = '1' || c = '2' || c = '8')
            ⟨by decide, by decide, by decide, by decide, ⟨cs!"METHOD", .enum [cs!"NONE", cs!"AES-128", cs!"SAMPLE-AES"], true⟩,
              rfl, by simp [lexOK, methodNone, methodAES128, methodSampleAES]⟩ (by decide) (by decide) (by decide)
        · exact gok_u (P := fun c => c = 'A' || c = 'E' || c = 'S' || c = '-' || c = 'M' || c = 'P' || c = 'L')
            ⟨by decide, by decide, by decide, by decide, ⟨cs!"METHOD", .enum [cs!"NONE", cs!"AES-128", cs!"SAMPLE-AES"], true⟩,
              rfl, by simp [lexOK, methodNone, methodAES128, methodSampleAES]⟩ (by decide) (by decide) (by decide)
      · exact gok_q ⟨by decide, by decide, by decide, by decide, ⟨cs!"URI", .quoted, false⟩, rfl, rfl⟩ hq
      · split at ha
        · rename_i hne
          simp at ha; subst ha
          rcases hiv with h | h
          · exact absurd h hne
          · exact gok_u (P := hexChar) ⟨by decide, by decide, by decide, by decide, ⟨cs!"IV", .hex, false⟩, rfl,
              isHexSeq_of_wf h⟩ (isHexSeq_chars h) (by decide) (by decide)
        · simp at ha
      · split at ha
        · simp at ha; subst ha
          exact gok_q ⟨by decide, by decide, by decide, by decide, ⟨cs!"KEYFORMAT", .quoted, false⟩, rfl, rfl⟩ hkf
        · simp at ha
      · split at ha
        · simp at ha; subst ha
          exact gok_q ⟨by decide, by decide, by decide, by decide, ⟨cs!"KEYFORMATVERSIONS", .quoted, false⟩, rfl, rfl⟩ hkfv
        · simp at ha
    rw [checkAttrs_render L .key _ (by simp [Key.attrs]) hok]
    · rcases hmm with rfl | rfl <;> by_cases h1 : iv = [] <;> by_cases h2 : kf = [] <;> by_cases h3 : kfv = [] <;>
        simp [Key.attrs, finalOK, attrTable, valText, methodNone, methodAES128, methodSampleAES, h1, h2, h3]
    · rcases hmm with rfl | rfl <;> by_cases h1 : iv = [] <;> by_cases h2 : kf = [] <;> by_cases h3 : kfv = [] <;>
        simp [Key.attrs, keysOf, methodNone, methodAES128, methodSampleAES, h1, h2, h3]

end Hls.Playlist.MG
