import Hls.Playlist.MediaMain
/-!
# Running the decoder over the lines of a marshaled well-formed value
-/
namespace Hls.Playlist.MP

/-- `a` if present, else `b` -/
def optOr {α} (a b : Option α) : Option α :=
  match a with
  | some x => some x
  | none => b

@[simp] theorem optOr_none_right {α} (a : Option α) : optOr a none = a := by cases a <;> rfl
@[simp] theorem optOr_none_left {α} (b : Option α) : optOr none b = b := rfl
@[simp] theorem optOr_some {α} (x : α) (b : Option α) : optOr (some x) b = some x := rfl

section
variable (C : Codec)

theorem foldlM_optLine {α} (st : St) (o : Option α) (f : α → Str) :
    (optLine o f).foldlM (step C) st = (match o with | some a => step C st (f a) | none => .ok st) := by
  cases o <;> simp [optLine, List.foldlM_cons, List.foldlM_nil]
  cases step C st (f _) <;> rfl

theorem foldlM_flagLine (st : St) (b : Bool) (l : Str) :
    (flagLine b l).foldlM (step C) st = (if b then step C st l else .ok st) := by
  cases b <;> simp [flagLine, List.foldlM_cons, List.foldlM_nil]
  cases step C st l <;> rfl

end

/-! ## header chunks -/

section
variable {C : Codec} (hC : C.Valid)
include hC

theorem chunk_start (st : St) (o : Option Int) (hw : o.all signedDur = true) :
    (optLine o (startLine C)).foldlM (step C) st =
      .ok { st with m := { st.m with start := optOr (o.map C.requant) st.m.start } } := by
  rw [foldlM_optLine]
  cases o with
  | none => rfl
  | some t =>
    simp only [Option.all_some] at hw
    simp only [startLine, step_start, Start.roundtrip hC hw]
    rfl

theorem chunk_serverControl (st : St) (o : Option ServerControl)
    (hw : o.all (fun t => t.partHoldBack.all nnDur && t.canSkipUntil.all nnDur) = true) :
    (optLine o (serverControlLine C)).foldlM (step C) st =
      .ok { st with m := { st.m with serverControl := optOr (o.map (ServerControl.quantise C)) st.m.serverControl } } := by
  rw [foldlM_optLine]
  cases o with
  | none => rfl
  | some t =>
    simp only [Option.all_some] at hw
    simp only [serverControlLine, step_serverControl, ServerControl.roundtrip hC hw]
    rfl

theorem chunk_partInf (st : St) (o : Option Int) (hw : o.all posDur = true) :
    (optLine o (partInfLine C)).foldlM (step C) st =
      .ok { st with m := { st.m with partInf := optOr (o.map C.requant) st.m.partInf } } := by
  rw [foldlM_optLine]
  cases o with
  | none => rfl
  | some t =>
    simp only [Option.all_some] at hw
    simp only [partInfLine, step_partInf, PartInf.roundtrip hC hw]
    rfl

end

section
variable (C : Codec)

theorem chunk_version (st : St) (v : Int) (h0 : 0 ≤ v) (h1 : v ≤ maxSupportedVersion) :
    step C st (cs!"#EXT-X-VERSION:" ++ formatInt v) = .ok { st with m := { st.m with version := v } } := by
  have hv : v < 2 ^ 31 := by
    have : maxSupportedVersion = 10 := rfl
    omega
  rw [step_version, parseInt31_formatInt h0 hv]
  simp only [Res.ok_bind]
  rw [if_neg (by omega)]
  rfl

theorem chunk_independent (st : St) (b : Bool) :
    (flagLine b cs!"#EXT-X-INDEPENDENT-SEGMENTS").foldlM (step C) st =
      .ok { st with m := { st.m with independentSegments := b || st.m.independentSegments } } := by
  rw [foldlM_flagLine]
  cases b with
  | false => rfl
  | true => simp [step_independentSegments]

theorem chunk_allowCache (st : St) (o : Option Bool) :
    (optLine o (fun v => cs!"#EXT-X-ALLOW-CACHE:" ++ (if v then cs!"YES" else cs!"NO"))).foldlM (step C) st =
      .ok { st with m := { st.m with allowCache := optOr o st.m.allowCache } } := by
  rw [foldlM_optLine]
  cases o with
  | none => rfl
  | some v =>
    simp only [step_allowCache]
    cases v <;> simp [yes]

theorem dot_not_mem_formatNat (n : Nat) : '.' ∉ formatNat n := fun h => by
  have := formatNat_mem_isDigit h
  exact absurd this (by decide)

theorem chunk_targetDuration (st : St) (v : Int) (hw : int31 v = true) :
    step C st (cs!"#EXT-X-TARGETDURATION:" ++ formatInt v) = .ok { st with m := { st.m with targetDuration := v } } := by
  obtain ⟨h0, h1⟩ := int31_bounds hw
  rw [step_targetDuration _ _ _ (by rw [formatInt_nonneg h0]; exact dot_not_mem_formatNat _), parseInt31_formatInt h0 h1]
  rfl

theorem chunk_mediaSequence (st : St) (v : Int) (hw : int31 v = true) :
    step C st (cs!"#EXT-X-MEDIA-SEQUENCE:" ++ formatInt v) = .ok { st with m := { st.m with mediaSequence := v } } := by
  obtain ⟨h0, h1⟩ := int31_bounds hw
  rw [step_mediaSequence, parseInt31_formatInt h0 h1]
  rfl

theorem chunk_discontinuitySequence (st : St) (o : Option Int) (hw : o.all int31 = true) :
    (optLine o (fun v => cs!"#EXT-X-DISCONTINUITY-SEQUENCE:" ++ formatInt v)).foldlM (step C) st =
      .ok { st with m := { st.m with discontinuitySequence := optOr o st.m.discontinuitySequence } } := by
  rw [foldlM_optLine]
  cases o with
  | none => rfl
  | some v =>
    simp only [Option.all_some] at hw
    obtain ⟨h0, h1⟩ := int31_bounds hw
    simp only [step_discontinuitySequence, parseInt31_formatInt h0 h1]
    rfl

theorem chunk_playlistType (st : St) (o : Option Str)
    (hw : o.all (fun v => v = cs!"EVENT" || v = cs!"VOD") = true) :
    (optLine o (fun v => cs!"#EXT-X-PLAYLIST-TYPE:" ++ v)).foldlM (step C) st =
      .ok { st with m := { st.m with playlistType := optOr o st.m.playlistType } } := by
  rw [foldlM_optLine]
  cases o with
  | none => rfl
  | some v =>
    simp only [Option.all_some, Bool.or_eq_true, decide_eq_true_eq] at hw
    simp only [step_playlistType]
    rcases hw with rfl | rfl <;> simp

theorem chunk_map (st : St) (o : Option MapTag)
    (hw : o.all (fun t => t.uri != [] && quotedOK t.uri && brOK t.brLen t.brStart) = true) :
    (optLine o mapLine).foldlM (step C) st = .ok { st with m := { st.m with map := optOr o st.m.map } } := by
  rw [foldlM_optLine]
  cases o with
  | none => rfl
  | some t =>
    simp only [Option.all_some] at hw
    simp only [mapLine, step_map, MapTag.roundtrip hw]
    rfl

theorem chunk_skip (st : St) (o : Option Int) (hw : o.all int31 = true) :
    (optLine o skipLine).foldlM (step C) st = .ok { st with m := { st.m with skip := optOr o st.m.skip } } := by
  rw [foldlM_optLine]
  cases o with
  | none => rfl
  | some t =>
    simp only [Option.all_some] at hw
    simp only [skipLine, step_skip, Skip.roundtrip hw]
    rfl

theorem chunk_hint (st : St) (o : Option PreloadHint)
    (hw : o.all (fun t => t.uri != [] && quotedOK t.uri && u64 t.brStart && t.brLen.all u64) = true) :
    (optLine o hintLine).foldlM (step C) st =
      .ok { st with m := { st.m with preloadHint := optOr o st.m.preloadHint } } := by
  rw [foldlM_optLine]
  cases o with
  | none => rfl
  | some t =>
    simp only [Option.all_some] at hw
    simp only [hintLine, step_preloadHint, PreloadHint.roundtrip hw]
    rfl

theorem chunk_endlist (st : St) (b : Bool) :
    (flagLine b cs!"#EXT-X-ENDLIST").foldlM (step C) st =
      .ok { st with m := { st.m with endlist := b || st.m.endlist } } := by
  rw [foldlM_flagLine]
  cases b with
  | false => rfl
  | true => simp [step_endlist]

end

/-! ## segment chunks -/

section
variable (C : Codec)

theorem chunk_disc (st : St) (b : Bool) :
    (flagLine b cs!"#EXT-X-DISCONTINUITY").foldlM (step C) st =
      .ok { st with cur := { st.cur with discontinuity := b || st.cur.discontinuity } } := by
  rw [foldlM_flagLine]
  cases b with
  | false => rfl
  | true => simp [step_discontinuity]

theorem chunk_gap (st : St) (b : Bool) :
    (flagLine b cs!"#EXT-X-GAP").foldlM (step C) st =
      .ok { st with cur := { st.cur with gap := b || st.cur.gap } } := by
  rw [foldlM_flagLine]
  cases b with
  | false => rfl
  | true => simp [step_gap]

theorem chunk_bitrate (st : St) (o : Option Int) (hw : o.all int31 = true) :
    (optLine o bitrateLine).foldlM (step C) st =
      .ok { st with cur := { st.cur with bitrate := optOr o st.cur.bitrate } } := by
  rw [foldlM_optLine]
  cases o with
  | none => rfl
  | some v =>
    simp only [Option.all_some] at hw
    obtain ⟨h0, h1⟩ := int31_bounds hw
    simp only [bitrateLine, step_bitrate, parseInt31_formatInt h0 h1]
    rfl

theorem chunk_byteRange (st : St) (len start : Option Nat) (hw : brOK len start = true) :
    (optLine len (byteRangeLine start)).foldlM (step C) st =
      .ok { st with cur := { st.cur with brLen := optOr len st.cur.brLen,
                                         brStart := if len.isSome then start else st.cur.brStart } } := by
  rw [foldlM_optLine]
  cases len with
  | none => rfl
  | some l =>
    simp only [byteRangeLine, step_byteRange, byteRange_rt_of_brOK hw]
    rfl

end

section
variable {C : Codec} (hC : C.Valid)
include hC

theorem chunk_pdt (st : St) (o : Option Time) (hw : o.all wfTime = true) :
    (optLine o (pdtLine C)).foldlM (step C) st =
      .ok { st with cur := { st.cur with dateTime := optOr (o.map truncMs) st.cur.dateTime } } := by
  rw [foldlM_optLine]
  cases o with
  | none => rfl
  | some t =>
    simp only [Option.all_some] at hw
    simp only [pdtLine, step_programDateTime, hC.time_rt t hw]
    rfl

theorem fold_parts : ∀ (ps : List Part) (st : St), ps.all wfPart = true →
    (partLines C ps).foldlM (step C) st =
      .ok { st with cur := { st.cur with parts := st.cur.parts ++ ps.map (Part.quantise C) } }
  | [], st, _ => by simp [partLines]
  | p :: rest, st, hw => by
    simp only [List.all_cons, Bool.and_eq_true] at hw
    simp only [partLines, List.map_cons, List.foldlM_cons, Part.line, step_part, Part.roundtrip hC hw.1, Res.ok_bind,
      Res.pure_eq]
    have := fold_parts rest { st with cur := { st.cur with parts := st.cur.parts ++ [Part.quantise C p] } } hw.2
    simp only [partLines] at this
    rw [this]
    simp

theorem step_extinfLine (st : St) (s : Segment) (hd : posDur s.duration = true) (ht : s.title = trimSpace s.title) :
    step C st (extinfLine C s) =
      .ok { st with cur := { st.cur with duration := C.requant s.duration, title := s.title, key := st.curKey } } := by
  have hb := natAbs_lt_of_posDur hd
  have hcomma : ',' ∉ C.fmtDur s.duration := not_mem_of_all (fmtDur_chars hC hb.1) (by decide)
  unfold extinfLine
  rw [step_extinf C st _ _ hcomma, durUnmarshal_fmt hC hb.1, ← ht]
  rfl

theorem fold_segment (m : Media) (ck : Option Key) (s : Segment) (hw : wfSegment s = true) :
    (Segment.lines C s).foldlM (step C) { m := m, curKey := ck, cur := {} } =
      .ok { m := { m with segments := m.segments ++ [{ Segment.quantise C s with key := ck }] }, curKey := ck, cur := {} } := by
  simp only [wfSegment, Bool.and_eq_true, decide_eq_true_eq] at hw
  obtain ⟨⟨⟨⟨⟨⟨⟨⟨⟨⟨hd, hu⟩, hh⟩, hl⟩, ht⟩, htl⟩, hbr⟩, hb⟩, hdt⟩, hk⟩, hp⟩ := hw
  have hnz := requant_ne_zero hC (natAbs_lt_of_posDur hd).1 (natAbs_lt_of_posDur hd).2
  obtain ⟨c, rest, huri, hc⟩ : ∃ c rest, s.uri = c :: rest ∧ c ≠ '#' := by
    cases hs : s.uri with
    | nil => simp [hs] at hu
    | cons c rest =>
      refine ⟨c, rest, rfl, ?_⟩
      intro e
      subst e
      simp [hs] at hh
  simp only [Segment.lines, List.foldlM_append, List.foldlM_cons, List.foldlM_nil, chunk_disc, chunk_gap,
    chunk_pdt hC _ _ hdt, chunk_bitrate C _ _ hbr, fold_parts hC _ _ hp, step_extinfLine hC _ _ hd ht,
    chunk_byteRange C _ _ _ hb, Res.ok_bind, Res.pure_eq]
  rw [huri, step_uri C _ c rest hc]
  simp only [Segment.validate, hnz, ↓reduceIte, List.cons_ne_nil, Res.pure_eq, Res.ok_bind]
  have hst : s.brLen = none → s.brStart = none := fun h => by
    rw [h] at hb
    exact brOK_none hb
  obtain ⟨d, title, uri, disc, gap, dt, br, key, brl, brs, parts⟩ := s
  simp only at huri hst
  subst huri
  cases brl with
  | none =>
    have := hst rfl
    subst this
    simp [Segment.quantise]
  | some l => simp [Segment.quantise]

end

/-! ## all segments, whole playlist -/

/-- `curKey` after the segments -/
def lastKey : Option Key → List Segment → Option Key
  | prev, [] => prev
  | prev, s :: rest =>
    match s.key with
    | some k => lastKey (some k) rest
    | none => lastKey prev rest

section
variable {C : Codec} (hC : C.Valid)
include hC

theorem fold_segments : ∀ (segs : List Segment) (m : Media) (prev : Option Key),
    segs.all wfSegment = true → keyPersist prev.isSome segs = true →
    (segmentsLines C prev segs).foldlM (step C) { m := m, curKey := prev, cur := {} } =
      .ok { m := { m with segments := m.segments ++ segs.map (Segment.quantise C) },
            curKey := lastKey prev segs, cur := {} }
  | [], m, prev, _, _ => by simp [segmentsLines, lastKey]
  | s :: rest, m, prev, hw, hk => by
    simp only [List.all_cons, Bool.and_eq_true] at hw
    obtain ⟨hws, hwr⟩ := hw
    cases hkey : s.key with
    | none =>
      have hprev : prev = none := by
        simp only [keyPersist, hkey, Bool.and_eq_true, Bool.not_eq_true'] at hk
        cases prev with
        | none => rfl
        | some _ => simp at hk
      subst hprev
      have hk' : keyPersist (none : Option Key).isSome rest = true := by
        simp only [keyPersist, hkey, Bool.and_eq_true] at hk
        exact hk.2
      simp only [segmentsLines, hkey, lastKey, List.foldlM_append, fold_segment hC m none s hws, Res.ok_bind]
      rw [fold_segments rest _ none hwr hk']
      have : ({ Segment.quantise C s with key := none } : Segment) = Segment.quantise C s := by
        simp [Segment.quantise, hkey]
      simp [this]
    | some k =>
      have hk' : keyPersist (some k).isSome rest = true := by
        simpa [keyPersist, hkey] using hk
      have hwk : wfKey k = true := by
        simp only [wfSegment, Bool.and_eq_true, hkey, Option.all_some] at hws
        exact hws.1.2
      have hq : ({ Segment.quantise C s with key := some k } : Segment) = Segment.quantise C s := by
        simp [Segment.quantise, hkey]
      simp only [segmentsLines, hkey, lastKey]
      split
      · simp only [List.foldlM_cons, keyLine, step_key, Key.roundtrip hwk, Res.ok_bind, Res.pure_eq,
          List.foldlM_append, fold_segment hC m (some k) s hws]
        rw [fold_segments rest _ (some k) hwr hk']
        simp [hq]
      · rename_i hne
        have hprev : prev = some k := by
          cases prev with
          | none => simp at hne
          | some k' =>
            simp only [reduceCtorEq, Option.some.injEq, false_or, Decidable.not_not] at hne
            rw [hne]
        subst hprev
        simp only [List.foldlM_append, fold_segment hC m (some k) s hws, Res.ok_bind]
        rw [fold_segments rest _ (some k) hwr hk']
        simp [hq]

theorem fold_header (p : Media) (hw : WFMedia p) :
    (Media.headerLines C p).foldlM (step C) {} =
      .ok { m := { version := p.version, independentSegments := p.independentSegments,
                   start := p.start.map C.requant, allowCache := p.allowCache, targetDuration := p.targetDuration,
                   serverControl := p.serverControl.map (ServerControl.quantise C),
                   partInf := p.partInf.map C.requant, mediaSequence := p.mediaSequence,
                   discontinuitySequence := p.discontinuitySequence, playlistType := p.playlistType,
                   map := p.map, skip := p.skip },
            curKey := none, cur := {} } := by
  simp only [WFMedia, wfMedia, Bool.and_eq_true, decide_eq_true_eq] at hw
  obtain ⟨⟨⟨⟨⟨⟨⟨⟨⟨⟨⟨⟨⟨⟨⟨⟨hv0, hv1⟩, htd⟩, htd0⟩, hms⟩, hds⟩, hsk⟩, hst⟩, hsc⟩, hpi⟩, hpt⟩, hmap⟩, _⟩, _⟩, _⟩, _⟩, _⟩ := hw
  simp only [Media.headerLines, List.foldlM_append, List.foldlM_cons, List.foldlM_nil,
    chunk_version C _ _ hv0 hv1, chunk_independent, chunk_start hC _ _ hst, chunk_allowCache,
    chunk_targetDuration C _ _ htd, chunk_serverControl hC _ _ hsc, chunk_partInf hC _ _ hpi,
    chunk_mediaSequence C _ _ hms, chunk_discontinuitySequence C _ _ hds, chunk_playlistType C _ _ hpt,
    chunk_map C _ _ hmap, chunk_skip C _ _ hsk, Res.ok_bind, Res.pure_eq]
  simp

/-- the decoder run over all lines of `marshal p` -/
theorem fold_lines (p : Media) (hw : WFMedia p) :
    ((Media.lines C p).foldlM (step C) {} >>= finish) = .ok (Media.quantise C p) := by
  have hw' := hw
  simp only [WFMedia, wfMedia, Bool.and_eq_true, decide_eq_true_eq] at hw'
  obtain ⟨⟨⟨⟨⟨⟨⟨⟨⟨⟨⟨⟨⟨⟨⟨⟨_, _⟩, _⟩, htd0⟩, _⟩, _⟩, _⟩, _⟩, _⟩, _⟩, _⟩, _⟩, hne⟩, hsegs⟩, hkp⟩, hparts⟩, hhint⟩ := hw'
  simp only [Media.lines, Media.tailLines, List.foldlM_append, fold_header hC p hw, Res.ok_bind]
  rw [fold_segments hC p.segments _ none hsegs (by simpa using hkp)]
  simp only [Res.ok_bind, fold_parts hC _ _ hparts, chunk_hint C _ _ hhint, chunk_endlist]
  have hne' : p.segments ≠ [] := by simpa using hne
  simp only [finish]
  rw [if_neg htd0, if_neg (by simpa using hne')]
  obtain ⟨version, is, start, ac, td, sc, pi, ms, ds, pt, map, skip, segs, parts, ph, el⟩ := p
  simp [Media.quantise]

end
end Hls.Playlist.MP
