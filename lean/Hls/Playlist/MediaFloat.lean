import Hls.Playlist.FloatLemmas
import Hls.Playlist.MediaTime
/-!
# The float envelope is a theorem for the driver's codec

`Hls/Playlist/Prim.lean` + `FloatLemmas.lean` (slice `plmulti`, copied unchanged) contain a
soft-float model of `strconv.ParseFloat` / `FormatFloat` / float64 arithmetic and the PROOF that it
stays inside the error envelope of DESIGN §2 (`Hls.Playlist.floatEnvelope`).  This file plugs that
model into the media playlist model as `Codec.prim` (durations: `durFmt5` / `durUnmarshal` of
`Prim.lean`; times: the Go layout of `MediaPrim.lean`, proved in `MediaTime.lean`) and derives
`Codec.prim.Valid` — no assumption about floats or times is left.
-/
namespace Hls.Playlist.MP

theorem digitChar_eq {d : Nat} (h : d < 10) : Hls.Playlist.digitChar d = digitChar d := by
  have : d = 0 ∨ d = 1 ∨ d = 2 ∨ d = 3 ∨ d = 4 ∨ d = 5 ∨ d = 6 ∨ d = 7 ∨ d = 8 ∨ d = 9 := by omega
  rcases this with h | h | h | h | h | h | h | h | h | h <;> subst h <;> rfl

theorem natDigitsAux_eq : ∀ (f n : Nat) (acc : Str), Hls.Playlist.natDigitsAux f n acc = fmtNatAux f n acc
  | 0, _, _ => rfl
  | f + 1, n, acc => by
    unfold Hls.Playlist.natDigitsAux fmtNatAux
    split
    · rename_i h
      rw [digitChar_eq h]
    · rw [digitChar_eq (Nat.mod_lt n (by decide)), natDigitsAux_eq f]

theorem fmtNatAux_fuel : ∀ (f g n : Nat) (acc : Str), 0 < f → 0 < g → n < 10 ^ f → n < 10 ^ g →
    fmtNatAux f n acc = fmtNatAux g n acc
  | 0, _, _, _, h, _, _, _ => by omega
  | _, 0, _, _, _, h, _, _ => by omega
  | f + 1, g + 1, n, acc, _, _, hf, hg => by
    unfold fmtNatAux
    split
    · rfl
    · rename_i hn
      have h1 : n / 10 < 10 ^ f := by rw [Nat.pow_succ] at hf; omega
      have h2 : n / 10 < 10 ^ g := by rw [Nat.pow_succ] at hg; omega
      have hf0 : 0 < f := by
        cases f with
        | zero => simp at h1; omega
        | succ => omega
      have hg0 : 0 < g := by
        cases g with
        | zero => simp at h2; omega
        | succ => omega
      exact fmtNatAux_fuel f g (n / 10) _ hf0 hg0 h1 h2

theorem natToDigits_eq (n : Nat) : Hls.Playlist.natToDigits n = formatNat n := by
  unfold Hls.Playlist.natToDigits formatNat
  rw [natDigitsAux_eq]
  have h1 : n < 10 ^ (n + 1) := Nat.lt_of_lt_of_le (Nat.lt_pow_self (by decide : 1 < 10)) (Nat.pow_le_pow_right (by decide) (Nat.le_succ n))
  have h2 : n < 10 ^ (n.log2 + 1) := Nat.lt_of_lt_of_le Nat.lt_log2_self (Nat.pow_le_pow_left (by decide) _)
  exact fmtNatAux_fuel _ _ n [] (by omega) (by omega) h1 h2

theorem decFixed5_eq (N : Nat) :
    Hls.Playlist.F64.decFixed 5 N = formatNat (N / 100000) ++ '.' :: padNat 5 (N % 100000) := by
  have h : (10 : Nat) ^ 5 = 100000 := by decide
  simp only [Hls.Playlist.F64.decFixed, Hls.Playlist.F64.padLeft, natToDigits_eq, h, padNat]

theorem dec5_eq (neg : Bool) (q : Nat) (h : neg = true → 0 < q) :
    Hls.Playlist.dec5 (if neg then -(q : Int) else q) = decText neg q := by
  unfold Hls.Playlist.dec5 Hls.Playlist.decInt decText
  cases neg with
  | true =>
    have := h rfl
    have hlt : -(q : Int) < 0 := by omega
    simp only [↓reduceIte, hlt, Int.natAbs_neg, Int.natAbs_natCast, decFixed5_eq]
    rfl
  | false =>
    have hlt : ¬ ((q : Int) < 0) := by omega
    simp only [Bool.false_eq_true, ↓reduceIte, hlt, Int.natAbs_natCast, decFixed5_eq, List.nil_append]

/-- `primitives.Duration.Unmarshal` of the soft-float model, errors collapsed -/
def primParseDur (s : Str) : Option Int :=
  match Hls.Playlist.durUnmarshal s with
  | .ok d => some d
  | .error _ => none

/-- the codec the driver runs: soft-float durations (`Prim.lean`), Go time layout -/
def Codec.prim : Codec where
  fmtDur := Hls.Playlist.durFmt5
  parseDur := primParseDur
  fmtTime := goFormatTime
  parseTime := goParseTime

theorem primParseDur_zero : primParseDur (decText false 0) = some 0 := by
  set_option maxRecDepth 100000 in decide

theorem Codec.prim_durValid : Codec.prim.DurValid where
  fmt_dur := fun d hd => by
    have hmx : durMax.toNat = 1000000000000000 := by decide
    obtain ⟨q, hq1, hq2⟩ := Hls.Playlist.floatEnvelope.fmt d (by
        have := hd.1
        simp only [Hls.Playlist.durBound]
        omega) (by
        intro h
        by_cases hneg : d < 0
        · have := hd.2 hneg
          omega
        · omega)
    unfold Hls.Playlist.IsQuant5 at hq2
    refine ⟨q.natAbs, ?_, by omega, by omega⟩
    show Hls.Playlist.durFmt5 d = decText (decide (d < 0)) q.natAbs
    rw [hq1]
    by_cases hneg : d < 0
    · have := hd.2 hneg
      have hq : q = -(q.natAbs : Int) := by omega
      have hpos : 0 < q.natAbs := by omega
      have := dec5_eq true q.natAbs (fun _ => hpos)
      simp only [↓reduceIte] at this
      rw [← hq] at this
      simp [hneg, this]
    · have hq : q = (q.natAbs : Int) := by omega
      have := dec5_eq false q.natAbs (by simp)
      simp only [Bool.false_eq_true, ↓reduceIte] at this
      rw [← hq] at this
      simp [hneg, this]
  parse_dur := fun neg q hq hneg => by
    show ∃ n : Nat, primParseDur (decText neg q) = some (if neg then -(n : Int) else n) ∧ n ≤ q * 10000 + 1 ∧ q * 10000 ≤ n + 1
    by_cases hq0 : q = 0
    · subst hq0
      have hn : neg = false := by
        cases neg with
        | false => rfl
        | true => exact absurd (hneg rfl) (by decide)
      subst hn
      refine ⟨0, ?_, by omega, by omega⟩
      simpa using primParseDur_zero
    · rw [← dec5_eq neg q hneg]
      obtain ⟨d', hd1, hd2⟩ := Hls.Playlist.floatEnvelope.parse (if neg then -(q : Int) else q) (by
        simp only [Hls.Playlist.durBound]
        split <;> omega)
      unfold Hls.Playlist.IsDecoded5 at hd2
      unfold primParseDur
      rw [hd1]
      cases neg with
      | true =>
        simp only [↓reduceIte] at hd2 ⊢
        refine ⟨d'.natAbs, ?_, by omega, by omega⟩
        have : d' = -(d'.natAbs : Int) := by omega
        rw [← this]
      | false =>
        simp only [Bool.false_eq_true, ↓reduceIte] at hd2 ⊢
        refine ⟨d'.natAbs, ?_, by omega, by omega⟩
        have : d' = (d'.natAbs : Int) := by omega
        rw [← this]

/-- **no assumption left**: the driver's codec is inside the envelope -/
theorem Codec.prim_valid : Codec.prim.Valid := Codec.withGoTime_valid (D := Codec.prim) Codec.prim_durValid

end Hls.Playlist.MP
