import Hls.Playlist.MediaFix
/-!
# A codec that provably satisfies `Codec.Valid` (satisfiability witness of the hypothesis)

Durations: exact decimal arithmetic (what `strconv` would do without binary rounding error).
Times: a synthetic but injective text (`<sec+10^12>T<ms>T<off+10^6>`); the real RFC 3339 layout is
`Codec.go`, which tie T2 validates against package `time` (its calendar arithmetic is not proved).
-/
namespace Hls.Playlist.MP

/-! ## digit counts -/

theorem fmtNatAux_length : ∀ (f n k : Nat) (acc : Str), 0 < f → n < 10 ^ f → 0 < k → n < 10 ^ k →
    (fmtNatAux f n acc).length ≤ k + acc.length
  | 0, _, _, _, hf, _, _, _ => by omega
  | f + 1, n, k, acc, _, h, hk, hnk => by
    unfold fmtNatAux
    split
    · simp; omega
    · rename_i hn
      have hlt : n / 10 < 10 ^ f := by
        rw [Nat.pow_succ] at h
        omega
      have hf : 0 < f := by
        cases f with
        | zero => simp at hlt; omega
        | succ => omega
      obtain ⟨k', rfl⟩ : ∃ k', k = k' + 1 := ⟨k - 1, by omega⟩
      have hk' : 0 < k' := by
        cases k' with
        | zero => simp at hnk; omega
        | succ => omega
      have hlt' : n / 10 < 10 ^ k' := by
        rw [Nat.pow_succ] at hnk
        omega
      have := fmtNatAux_length f (n / 10) k' (digitChar (n % 10) :: acc) hf hlt hk' hlt'
      simp at this ⊢
      omega

theorem formatNat_length_le {n k : Nat} (hk : 0 < k) (h : n < 10 ^ k) : (formatNat n).length ≤ k := by
  have h' : n < 10 ^ (n.log2 + 1) :=
    Nat.lt_of_lt_of_le Nat.lt_log2_self (Nat.pow_le_pow_left (by decide) _)
  have := fmtNatAux_length (n.log2 + 1) n k [] (by omega) h' hk h
  simpa [formatNat] using this

theorem digitsValue_replicate_zero (k : Nat) (s : Str) : digitsValue (List.replicate k '0' ++ s) = digitsValue s := by
  induction k with
  | zero => simp
  | succ k ih =>
    simp only [List.replicate_succ, List.cons_append]
    unfold digitsValue at ih ⊢
    simp only [List.foldl_cons]
    have : (0 : Nat) * 10 + digitVal '0' = 0 := by decide
    rw [this]
    exact ih

theorem padNat_spec {w n : Nat} (hw : 0 < w) (h : n < 10 ^ w) :
    (padNat w n).length = w ∧ (padNat w n).all isDigit = true ∧ digitsValue (padNat w n) = n := by
  have hl := formatNat_length_le hw h
  refine ⟨?_, padNat_all_digits w n, ?_⟩
  · simp [padNat]; omega
  · unfold padNat
    rw [digitsValue_replicate_zero]
    exact (formatNat_spec n).2.2

/-! ## exact decimal durations -/

def exactFmtDur (d : Int) : Str := decText (decide (d < 0)) (roundHalfEven d.natAbs 10000)

def exactParseDur (s : Str) : Option Int :=
  let nt : Bool × Str := match s with
    | '-' :: t => (true, t)
    | _ => (false, s)
  match cutP '.' nt.2 with
  | some (ip, fp) =>
    if ip ≠ [] ∧ ip.all isDigit = true ∧ fp.length = 5 ∧ fp.all isDigit = true then
      let n : Nat := digitsValue ip * 1000000000 + digitsValue fp * 10000
      some (if nt.1 then -(n : Int) else n)
    else none
  | none => none

theorem exactParseDur_decText (neg : Bool) (q : Nat) :
    exactParseDur (decText neg q) = some (if neg then -((q * 10000 : Nat) : Int) else ((q * 10000 : Nat) : Int)) := by
  obtain ⟨h1, h2, h3⟩ := formatNat_spec (q / 100000)
  obtain ⟨p1, p2, p3⟩ := padNat_spec (w := 5) (n := q % 100000) (by decide) (by omega)
  have hdot : '.' ∉ formatNat (q / 100000) := dot_not_mem_formatNat _
  have hval : digitsValue (formatNat (q / 100000)) * 1000000000 + digitsValue (padNat 5 (q % 100000)) * 10000 = q * 10000 := by
    rw [h3, p3]; omega
  unfold exactParseDur decText
  cases neg with
  | true =>
    simp only [↓reduceIte, List.cons_append, List.nil_append]
    rw [cutP_append _ hdot]
    simp only [ne_eq, h1, not_false_eq_true, h2, p1, p2, and_self, ↓reduceIte, hval]
  | false =>
    simp only [Bool.false_eq_true, ↓reduceIte, List.nil_append]
    have hne : ∀ t, formatNat (q / 100000) ++ '.' :: padNat 5 (q % 100000) ≠ '-' :: t := by
      intro t e
      cases hf : formatNat (q / 100000) with
      | nil => exact h1 hf
      | cons c r =>
        rw [hf] at e
        simp at e
        have : isDigit c = true := formatNat_mem_isDigit (n := q / 100000) (by rw [hf]; simp)
        rw [e.1] at this
        exact absurd this (by decide)
    have hm : ∀ s : Str, (∀ t, s ≠ '-' :: t) →
        (match s with | '-' :: t => (true, t) | _ => (false, s) : Bool × Str) = (false, s) := by
      intro s h
      split
      · rename_i t
        exact absurd rfl (h t)
      · rfl
    rw [hm _ hne]
    simp only
    rw [cutP_append _ hdot]
    simp only [ne_eq, h1, not_false_eq_true, h2, p1, p2, and_self, ↓reduceIte, hval, Bool.false_eq_true]

theorem roundHalfEven_near (a : Nat) : roundHalfEven a 10000 * 10000 ≤ a + 5000 ∧ a ≤ roundHalfEven a 10000 * 10000 + 5000 := by
  unfold roundHalfEven
  simp only
  split
  · omega
  · split
    · omega
    · split <;> omega

/-! ## synthetic time text

`0000-01-01T00:00:00.<13 digits: sec+10^12><3 digits: ms><7 digits: off+10^6>Z` — an injective
encoding of (instant at 1 ms, zone) inside the FRACTION of a syntactically valid RFC 3339
date-time.  It only serves as the satisfiability witness of `Codec.Valid` (and of
`TimeGrammatical`); the real layout is `goFormatTime` / `goParseTime`. -/

def exactTimePrefix : Str := cs!"0000-01-01T00:00:00."

def exactFmtTime (t : Time) : Str :=
  exactTimePrefix ++ (padNat 13 (t.sec + 1000000000000).toNat ++ (padNat 3 (t.nsec / 1000000) ++
    (padNat 7 (t.off + 1000000).toNat ++ ['Z'])))

def exactParseTime (s : Str) : Option Time :=
  let body := s.drop 20
  if s.take 20 = exactTimePrefix ∧ body.length = 24 ∧ body.drop 23 = ['Z'] ∧ (body.take 23).all isDigit = true then
    some { sec := (digitsValue (body.take 13) : Int) - 1000000000000,
           nsec := digitsValue ((body.drop 13).take 3) * 1000000,
           off := (digitsValue ((body.drop 16).take 7) : Int) - 1000000 }
  else none

def Codec.exact : Codec where
  fmtDur := exactFmtDur
  parseDur := exactParseDur
  fmtTime := exactFmtTime
  parseTime := exactParseTime

theorem Codec.exact_valid : Codec.exact.Valid where
  fmt_dur := fun d _ => ⟨roundHalfEven d.natAbs 10000, rfl, (roundHalfEven_near _).1, (roundHalfEven_near _).2⟩
  parse_dur := fun neg q _ _ => ⟨q * 10000, exactParseDur_decText neg q, Nat.le_succ _, Nat.le_succ _⟩
  time_rt := fun t hw => by
    simp only [wfTime, Bool.and_eq_true, decide_eq_true_eq] at hw
    obtain ⟨⟨⟨⟨⟨h1, h2⟩, h3⟩, h4⟩, h5⟩, h6⟩ := hw
    obtain ⟨a1, a2, a3⟩ := padNat_spec (w := 13) (n := (t.sec + 1000000000000).toNat) (by decide) (by omega)
    obtain ⟨b1, b2, b3⟩ := padNat_spec (w := 3) (n := t.nsec / 1000000) (by decide) (by omega)
    obtain ⟨c1, c2, c3⟩ := padNat_spec (w := 7) (n := (t.off + 1000000).toNat) (by decide) (by omega)
    show exactParseTime (exactFmtTime t) = some (truncMs t)
    unfold exactParseTime exactFmtTime
    have hp : exactTimePrefix.length = 20 := by decide
    simp only [List.drop_left' hp, List.take_left' hp, true_and]
    have hlen : (padNat 13 (t.sec + 1000000000000).toNat ++ (padNat 3 (t.nsec / 1000000) ++
        (padNat 7 (t.off + 1000000).toNat ++ ['Z']))).length = 24 := by simp [a1, b1, c1]
    have hd23 : List.drop 23 (padNat 13 (t.sec + 1000000000000).toNat ++ (padNat 3 (t.nsec / 1000000) ++
        (padNat 7 (t.off + 1000000).toNat ++ ['Z']))) = ['Z'] := by
      rw [← List.append_assoc, ← List.append_assoc]
      exact List.drop_left' (by simp [a1, b1, c1])
    have ht23 : List.take 23 (padNat 13 (t.sec + 1000000000000).toNat ++ (padNat 3 (t.nsec / 1000000) ++
        (padNat 7 (t.off + 1000000).toNat ++ ['Z']))) =
        padNat 13 (t.sec + 1000000000000).toNat ++ padNat 3 (t.nsec / 1000000) ++ padNat 7 (t.off + 1000000).toNat := by
      rw [← List.append_assoc, ← List.append_assoc]
      exact List.take_left' (by simp [a1, b1, c1])
    have ht13 : List.take 13 (padNat 13 (t.sec + 1000000000000).toNat ++ (padNat 3 (t.nsec / 1000000) ++
        (padNat 7 (t.off + 1000000).toNat ++ ['Z']))) = padNat 13 (t.sec + 1000000000000).toNat :=
      List.take_left' a1
    have hd13 : List.drop 13 (padNat 13 (t.sec + 1000000000000).toNat ++ (padNat 3 (t.nsec / 1000000) ++
        (padNat 7 (t.off + 1000000).toNat ++ ['Z']))) = padNat 3 (t.nsec / 1000000) ++ (padNat 7 (t.off + 1000000).toNat ++ ['Z']) :=
      List.drop_left' a1
    have hd16 : List.drop 16 (padNat 13 (t.sec + 1000000000000).toNat ++ (padNat 3 (t.nsec / 1000000) ++
        (padNat 7 (t.off + 1000000).toNat ++ ['Z']))) = padNat 7 (t.off + 1000000).toNat ++ ['Z'] := by
      rw [← List.append_assoc]
      exact List.drop_left' (by simp [a1, b1])
    simp only [hlen, hd23, ht23, ht13, hd13, hd16, List.take_left' b1, List.take_left' c1, List.all_append, a2, b2, c2,
      Bool.and_self, and_self, ↓reduceIte, a3, b3, c3]
    have e1 : (((t.sec + 1000000000000).toNat : Nat) : Int) - 1000000000000 = t.sec := by
      rw [Int.toNat_of_nonneg (by omega)]; omega
    have e2 : (((t.off + 1000000).toNat : Nat) : Int) - 1000000 = t.off := by
      rw [Int.toNat_of_nonneg (by omega)]; omega
    simp only [truncMs, e1, e2]
  time_trunc := fun t _ => by
    show exactFmtTime (truncMs t) = exactFmtTime t
    simp only [exactFmtTime, truncMs]
    have : t.nsec / 1000000 * 1000000 / 1000000 = t.nsec / 1000000 := by omega
    rw [this]
  time_chars := fun t _ => by
    show (exactFmtTime t).all timeChar = true
    have hd : ∀ w n, (padNat w n).all timeChar = true := fun w n =>
      List.all_eq_true.mpr fun c hc => by
        have := List.all_eq_true.mp (padNat_all_digits w n) c hc
        simp [timeChar, this]
    simp only [exactFmtTime, List.all_append, hd, Bool.and_true, Bool.true_and]
    decide

end Hls.Playlist.MP
