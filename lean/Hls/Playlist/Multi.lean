import Hls.Playlist.Prim
/-
  Executable model of the MULTIVARIANT playlist of gohlslib/pkg/playlist and of the
  kind detection of playlist.go.  Core Lean only.

  Mirrors, statement by statement:
    multivariant.go             Multivariant.{Unmarshal,Marshal}
    multivariant_variant.go     MultivariantVariant.{unmarshal,marshal}      (EXT-X-STREAM-INF + URI line)
    multivariant_rendition.go   MultivariantRendition.{unmarshal,marshal}    (EXT-X-MEDIA)
    multivariant_start.go       MultivariantStart.{unmarshal,marshal}        (EXT-X-START)
    playlist.go                 findType, Unmarshal

  `for key, val := range attrs { switch key { case K: … } }` — Go iterates the map in
  an unspecified order; every case body only reads `val` and writes its own field, and
  within one tag all in-loop errors belong to one error class, so the loop is
  "for every case key K present in the map, run the body of K".  The model writes
  exactly that (`attrs.get K`), which makes the result independent of the iteration
  order by construction.

  The tag / attribute-key literals are tables (`dispatchTable`, `variantKeys`, …); the
  property files pin them against the tables regenerated from the Go source
  (`Hls.Gen.PlaylistMulti`).
-/
set_option linter.unusedVariables false

namespace Hls.Playlist

/-! ## Values -/

/-- `MultivariantStart` -/
structure Start where
  timeOffset : Int                     -- time.Duration, ns
  deriving DecidableEq, Repr

/-- `MultivariantVariant` -/
structure Variant where
  bandwidth : Int := 0
  codecs : List Str := []
  uri : Str := []
  averageBandwidth : Option Int := none
  resolution : Str := []
  frameRate : Option F64 := none
  video : Str := []
  audio : Str := []
  subtitles : Str := []
  closedCaptions : Str := []
  deriving DecidableEq, Repr

/-- `MultivariantRendition` -/
structure Rendition where
  type : Str := []
  groupID : Str := []
  name : Str := []
  language : Str := []
  autoselect : Bool := false
  default : Bool := false
  forced : Bool := false
  channels : Option Str := none
  uri : Option Str := none
  inStreamID : Option Str := none
  deriving DecidableEq, Repr

/-- `Multivariant` -/
structure Multivariant where
  version : Int := 0
  independentSegments : Bool := false
  start : Option Start := none
  variants : List Variant := []
  renditions : List Rendition := []
  deriving DecidableEq, Repr

/-! ## Literal tables (pinned against `Hls.Gen.PlaylistMulti`) -/

def maxSupportedVersion : Nat := 10

inductive Tag
  | version | independentSegments | start | streamInf | media
  deriving DecidableEq, Repr

def tagVersion : Str := c!"#EXT-X-VERSION:"
def tagIndependentSegments : Str := c!"#EXT-X-INDEPENDENT-SEGMENTS"
def tagStart : Str := c!"#EXT-X-START:"
def tagStreamInf : Str := c!"#EXT-X-STREAM-INF:"
def tagMedia : Str := c!"#EXT-X-MEDIA:"

/-- The `switch { case strings.HasPrefix(line, …): }` chain of `Multivariant.Unmarshal`, in source order. -/
def dispatchTable : List (Str × Tag) :=
  [(tagVersion, .version), (tagIndependentSegments, .independentSegments), (tagStart, .start),
   (tagStreamInf, .streamInf), (tagMedia, .media)]

/-- first matching case -/
def dispatch (line : Str) : Option (Str × Tag) :=
  dispatchTable.find? fun pt => hasPrefix pt.1 line

def kTimeOffset : Str := c!"TIME-OFFSET"

def kBandwidth : Str := c!"BANDWIDTH"
def kAverageBandwidth : Str := c!"AVERAGE-BANDWIDTH"
def kCodecs : Str := c!"CODECS"
def kResolution : Str := c!"RESOLUTION"
def kFrameRate : Str := c!"FRAME-RATE"
def kVideo : Str := c!"VIDEO"
def kAudio : Str := c!"AUDIO"
def kSubtitles : Str := c!"SUBTITLES"
def kClosedCaptions : Str := c!"CLOSED-CAPTIONS"

def kType : Str := c!"TYPE"
def kGroupID : Str := c!"GROUP-ID"
def kLanguage : Str := c!"LANGUAGE"
def kName : Str := c!"NAME"
def kDefault : Str := c!"DEFAULT"
def kAutoselect : Str := c!"AUTOSELECT"
def kForced : Str := c!"FORCED"
def kChannels : Str := c!"CHANNELS"
def kURI : Str := c!"URI"
def kInstreamID : Str := c!"INSTREAM-ID"

/-- `case` literals of the key switches, in source order -/
def startKeys : List Str := [kTimeOffset]
def variantKeys : List Str :=
  [kBandwidth, kAverageBandwidth, kCodecs, kResolution, kFrameRate, kVideo, kAudio, kSubtitles, kClosedCaptions]
def renditionKeys : List Str :=
  [kType, kGroupID, kLanguage, kName, kDefault, kAutoselect, kForced, kChannels, kURI, kInstreamID]

def typeAudio : Str := c!"AUDIO"
def typeVideo : Str := c!"VIDEO"
def typeSubtitles : Str := c!"SUBTITLES"
def typeClosedCaptions : Str := c!"CLOSED-CAPTIONS"
def renditionTypes : List Str := [typeAudio, typeVideo, typeSubtitles, typeClosedCaptions]

def yes : Str := c!"YES"

/-! ## EXT-X-START -/

/-- `MultivariantStart.unmarshal` -/
def Start.unmarshal (v : Str) : Res Start := do
  let attrs ← parseAttrs v
  let off ← (match attrs.get kTimeOffset with
    | some val => durUnmarshal val
    | none => pure 0)
  if off = 0 then .error (.cls "start-offset") else return { timeOffset := off }

/-- `MultivariantStart.marshal` -/
def Start.marshal (t : Start) : Str :=
  c!"#EXT-X-START:TIME-OFFSET=" ++ durFmt5 t.timeOffset ++ c!"\n"

/-! ## EXT-X-STREAM-INF -/

/-- `len(l) == 0 || l[0] == '#'` -/
def emptyOrComment (l : Str) : Res Bool :=
  if l.length = 0 then pure true else do return decide ((← byteAt l 0) = '#')

/-- `MultivariantVariant.unmarshal` -/
def Variant.unmarshal (va : Str) : Res Variant := do
  let lines := splitByte '\n' va
  let attrs ← parseAttrs (← idx lines 0)
  let bandwidth ← (match attrs.get kBandwidth with
    | some val => do return ((← parseUint 31 val) : Int)
    | none => pure 0)
  let averageBandwidth ← (match attrs.get kAverageBandwidth with
    | some val => do return some ((← parseUint 31 val) : Int)
    | none => pure none)
  let codecs := match attrs.get kCodecs with
    | some val => splitByte ',' val
    | none => []
  let resolution := (attrs.get kResolution).getD []
  let frameRate ← (match attrs.get kFrameRate with
    | some val => do return some (← parseFloat val)
    | none => pure none)
  let video := (attrs.get kVideo).getD []
  let audio := (attrs.get kAudio).getD []
  let subtitles := (attrs.get kSubtitles).getD []
  let closedCaptions := (attrs.get kClosedCaptions).getD []
  let l1 ← idx lines 1
  if ← emptyOrComment l1 then .error (.cls "uri")
  else return { bandwidth, codecs, uri := l1, averageBandwidth, resolution, frameRate,
                video, audio, subtitles, closedCaptions }

def quote (s : Str) : Str := '"' :: s ++ c!"\""

/-- `MultivariantVariant.marshal`.  Each `if c { ret += X }` of the Go code is written
    `ret ++ (if c then X else [])`. -/
def Variant.marshal (v : Variant) : Str :=
  c!"#EXT-X-STREAM-INF:BANDWIDTH=" ++ formatInt v.bandwidth
  ++ (match v.averageBandwidth with
      | some a => c!",AVERAGE-BANDWIDTH=" ++ formatInt a
      | none => [])
  ++ (c!",CODECS=\"" ++ joinByte ',' v.codecs ++ c!"\"")
  ++ (if v.resolution ≠ [] then c!",RESOLUTION=" ++ v.resolution else [])
  ++ (match v.frameRate with
      | some f => c!",FRAME-RATE=" ++ F64.fmtFixed 3 f
      | none => [])
  ++ (if v.video ≠ [] then c!",VIDEO=\"" ++ v.video ++ c!"\"" else [])
  ++ (if v.audio ≠ [] then c!",AUDIO=\"" ++ v.audio ++ c!"\"" else [])
  ++ (if v.subtitles ≠ [] then c!",SUBTITLES=\"" ++ v.subtitles ++ c!"\"" else [])
  ++ (if v.closedCaptions ≠ [] then c!",CLOSED-CAPTIONS=\"" ++ v.closedCaptions ++ c!"\"" else [])
  ++ (c!"\n" ++ v.uri ++ c!"\n")

/-! ## EXT-X-MEDIA -/

/-- `MultivariantRendition.unmarshal` -/
def Rendition.unmarshal (v : Str) : Res Rendition := do
  let attrs ← parseAttrs v
  let type ← (match attrs.get kType with
    | some val => if renditionTypes.contains val then pure val else .error (.cls "type")
    | none => pure [])
  let groupID := (attrs.get kGroupID).getD []
  let language := (attrs.get kLanguage).getD []
  let name := (attrs.get kName).getD []
  let default := match attrs.get kDefault with
    | some val => decide (val = yes)
    | none => false
  let autoselect := match attrs.get kAutoselect with
    | some val => decide (val = yes)
    | none => false
  let forced := match attrs.get kForced with
    | some val => decide (val = yes)
    | none => false
  let channels := attrs.get kChannels
  let uri := attrs.get kURI
  let inStreamID := attrs.get kInstreamID
  if type = [] then .error (.cls "notype")
  else if groupID = [] then .error (.cls "nogroup")
  else if type = typeClosedCaptions ∧ uri.isSome then .error (.cls "uri-forbidden")
  else if type = typeSubtitles ∧ uri.isNone then .error (.cls "uri-required")
  else if type = typeClosedCaptions ∧ inStreamID.isNone then .error (.cls "noinstream")
  else if type ≠ typeClosedCaptions ∧ inStreamID.isSome then .error (.cls "instream-forbidden")
  else if channels.isSome ∧ type ≠ typeAudio then .error (.cls "channels-forbidden")
  else return { type, groupID, name, language, autoselect, default, forced, channels, uri, inStreamID }

/-- `MultivariantRendition.marshal` -/
def Rendition.marshal (t : Rendition) : Str :=
  c!"#EXT-X-MEDIA:TYPE=" ++ t.type ++ c!",GROUP-ID=\"" ++ t.groupID ++ c!"\""
  ++ (if t.language ≠ [] then c!",LANGUAGE=\"" ++ t.language ++ c!"\"" else [])
  ++ (if t.name ≠ [] then c!",NAME=\"" ++ t.name ++ c!"\"" else [])
  ++ (if t.autoselect then c!",AUTOSELECT=YES" else [])
  ++ (if t.default then c!",DEFAULT=YES" else [])
  ++ (if t.forced then c!",FORCED=YES" else [])
  ++ (match t.channels with
      | some c => c!",CHANNELS=\"" ++ c ++ c!"\""
      | none => [])
  ++ (match t.uri with
      | some u => c!",URI=\"" ++ u ++ c!"\""
      | none => [])
  ++ (match t.inStreamID with
      | some i => c!",INSTREAM-ID=\"" ++ i ++ c!"\""
      | none => [])
  ++ c!"\n"

/-! ## Multivariant -/

/-- The body of the `switch` of `Multivariant.Unmarshal` for one line; `s` is the input
    after that line (EXT-X-STREAM-INF consumes one more line). -/
def lineStep (m : Multivariant) (line s : Str) : Res (Multivariant × Str) :=
  match dispatch line with
  | none => .ok (m, s)
  | some (p, .version) => do
    let line ← sliceFrom line p.length
    let tmp ← parseUint 31 line
    if tmp > maxSupportedVersion then .error (.cls "version")
    else return ({ m with version := tmp }, s)
  | some (_, .independentSegments) => .ok ({ m with independentSegments := true }, s)
  | some (p, .start) => do
    let line ← sliceFrom line p.length
    let st ← Start.unmarshal line
    return ({ m with start := some st }, s)
  | some (p, .streamInf) => do
    let line ← sliceFrom line p.length
    let (line2, s) ← readLine s
    let line := line ++ '\n' :: line2
    match Variant.unmarshal line with
    | .error e => .error (e.wrapIn "variant")
    | .ok v => return ({ m with variants := m.variants ++ [v] }, s)
  | some (p, .media) => do
    let line ← sliceFrom line p.length
    match Rendition.unmarshal line with
    | .error e => .error (e.wrapIn "rendition")
    | .ok r => return ({ m with renditions := m.renditions ++ [r] }, s)

theorem lineStep_le {m m' : Multivariant} {line s s' : Str}
    (h : lineStep m line s = .ok (m', s')) : s'.length ≤ s.length := by
  unfold lineStep at h
  split at h
  · cases h; exact Nat.le_refl _
  · simp only [bind, Except.bind] at h
    split at h
    · cases h
    · split at h
      · cases h
      · split at h
        · cases h
        · cases h; exact Nat.le_refl _
  · cases h; exact Nat.le_refl _
  · simp only [bind, Except.bind] at h
    split at h
    · cases h
    · split at h
      · cases h
      · cases h; exact Nat.le_refl _
  · simp only [bind, Except.bind, readLine_eq] at h
    split at h
    · cases h
    · split at h
      · cases h
      · cases h; exact readLineSpec_snd_le _
  · simp only [bind, Except.bind] at h
    split at h
    · cases h
    · split at h
      · cases h
      · cases h; exact Nat.le_refl _

/-- The `for` loop of `Multivariant.Unmarshal`; terminates because every iteration that
    does not `break` consumes at least one byte of input. -/
def unmarshalLoop (m : Multivariant) (s : Str) : Res Multivariant :=
  match hrl : readLine s with
  | .error e => .error e
  | .ok (line, s') =>
    if hbrk : line = [] ∧ s' = [] then .ok m            -- `if line == "" && s == "" { break }`
    else
      match hst : lineStep m line s' with
      | .error e => .error e
      | .ok (m', s'') => unmarshalLoop m' s''
termination_by s.length
decreasing_by
  rw [readLine_eq] at hrl
  have hh : readLineSpec s = (line, s') := Except.ok.inj hrl
  have h1 : s'.length < s.length := by
    have := @readLineSpec_shrinks s (by rw [hh]; exact hbrk)
    rw [hh] at this; exact this
  have h2 := lineStep_le hst
  omega

/-- `Multivariant.Unmarshal` on a zero-valued receiver (as `playlist.Unmarshal` calls it). -/
def Multivariant.unmarshal (buf : Str) : Res Multivariant := do
  let s ← skipHeader buf
  let m ← unmarshalLoop {} s
  if m.variants.length = 0 then .error (.cls "novariants") else return m

/-- `Multivariant.Marshal` -/
def Multivariant.marshal (m : Multivariant) : Str :=
  c!"#EXTM3U\n" ++ c!"#EXT-X-VERSION:" ++ formatInt m.version ++ c!"\n"
  ++ (if m.independentSegments then c!"#EXT-X-INDEPENDENT-SEGMENTS\n" else [])
  ++ (match m.start with
      | some st => st.marshal
      | none => [])
  ++ (if m.renditions.length ≠ 0 then c!"\n" ++ (m.renditions.map Rendition.marshal).flatten else [])
  ++ c!"\n"
  ++ (m.variants.map Variant.marshal).flatten

/-! ## playlist.go -/

inductive Kind
  | multivariant | media
  deriving DecidableEq, Repr

def tagExtinf : Str := c!"#EXTINF:"

/-- the `switch` of `findType`, in source order -/
def findTypeTable : List (Str × Kind) := [(tagStreamInf, .multivariant), (tagExtinf, .media)]

/-- `findType`: `bufio.Reader.ReadString('\n')` returns a line only when it is newline
    terminated — the unterminated tail yields `io.EOF` before being looked at. -/
def findType (s : Str) : Res Kind :=
  match _hi : indexByte '\n' s with
  | none => .error .eof
  | some i =>
    let line := s.take (i + 1)
    match findTypeTable.find? fun pk => hasPrefix pk.1 line with
    | some pk => .ok pk.2
    | none => findType (s.drop (i + 1))
termination_by s.length
decreasing_by
  have := indexByte_lt _hi
  simp; omega

/-- `playlist.Unmarshal`, parametric in the media decoder (modelled in the media slice). -/
def unmarshalPlaylist {μ : Type} (mediaUnmarshal : Str → Res μ) (s : Str) : Res (Sum Multivariant μ) := do
  match ← findType s with
  | .multivariant => return .inl (← Multivariant.unmarshal s)
  | .media => return .inr (← mediaUnmarshal s)

end Hls.Playlist
