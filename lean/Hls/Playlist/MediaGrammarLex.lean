import Hls.Playlist.MediaGrammar
import Hls.Playlist.MediaNear
/-!
# The strict grammar accepts what `Media.marshal` writes — lexical layer

Lexical classes of the encoder's value texts, attribute lists (`splitItems`, `checkItems`) on
rendered lists.
-/
namespace Hls.Playlist.MG
open Hls.Playlist.MP

/-! ## `cutAt`, `splitOn` -/

theorem cutAt_append {c : Char} : ∀ {a : Str} (r : Str), c ∉ a → cutAt c (a ++ c :: r) = some (a, r)
  | [], r, _ => by simp [cutAt]
  | x :: xs, r, h => by
    have hx : x ≠ c := fun e => h (by simp [e])
    have hxs : c ∉ xs := fun e => h (by simp [e])
    simp [cutAt, hx, cutAt_append r hxs]

theorem cutAt_none {c : Char} : ∀ {a : Str}, c ∉ a → cutAt c a = none
  | [], _ => rfl
  | x :: xs, h => by
    have hx : x ≠ c := fun e => h (by simp [e])
    have hxs : c ∉ xs := fun e => h (by simp [e])
    simp [cutAt, hx, cutAt_none hxs]

theorem splitOn_append {c : Char} : ∀ {l : Str} (rest : Str), c ∉ l → splitOn c (l ++ c :: rest) = l :: splitOn c rest
  | [], rest, _ => by simp [splitOn]
  | x :: xs, rest, h => by
    have hx : x ≠ c := fun e => h (by simp [e])
    have hxs : c ∉ xs := fun e => h (by simp [e])
    simp [splitOn, hx, splitOn_append rest hxs]

theorem splitOn_unlines : ∀ (ls : List Str), (∀ l ∈ ls, '\n' ∉ l) → splitOn '\n' (unlines ls) = ls ++ [[]]
  | [], _ => by simp [unlines, splitOn]
  | l :: ls, h => by
    simp only [unlines]
    rw [splitOn_append _ (h l (by simp)), splitOn_unlines ls (fun x hx => h x (by simp [hx]))]
    simp

/-! ## lexical classes of the encoder's texts -/

theorem allDigits_of {s : Str} (hne : s ≠ []) (h : s.all isDigit = true) : allDigits s = true := by
  simp [allDigits, hne, h]

theorem allDigits_formatNat (n : Nat) : allDigits (formatNat n) = true :=
  allDigits_of (formatNat_spec n).1 (formatNat_spec n).2.1

theorem isDecInt_formatNat {n : Nat} (h : n < 2 ^ 64) : isDecInt (formatNat n) = true := by
  have hl : (formatNat n).length ≤ 20 := formatNat_length_le (by decide) (by omega)
  simp [isDecInt, allDigits_formatNat, hl]

theorem isDecInt_formatInt {v : Int} (h : int31 v = true) : isDecInt (formatInt v) = true := by
  obtain ⟨h0, h1⟩ := int31_bounds h
  rw [formatInt_nonneg h0]
  exact isDecInt_formatNat (by omega)

theorem isFloat_decText (q : Nat) : isFloat (decText false q) = true := by
  have hp := padNat_spec (w := 5) (n := q % 100000) (by decide) (by omega)
  have hne : padNat 5 (q % 100000) ≠ [] := by
    intro e
    rw [e] at hp
    simp at hp
  simp only [decText, Bool.false_eq_true, ↓reduceIte, List.nil_append, isFloat]
  rw [cutAt_append _ (dot_not_mem_formatNat _)]
  simp [allDigits_formatNat, allDigits_of hne hp.2.1]

theorem isSignedFloat_decText (neg : Bool) (q : Nat) : isSignedFloat (decText neg q) = true := by
  cases neg with
  | true =>
    have := isFloat_decText q
    simp only [decText, Bool.false_eq_true, ↓reduceIte, List.nil_append] at this
    simp only [decText, ↓reduceIte, List.cons_append, List.nil_append, isSignedFloat, this]
  | false =>
    have hf := isFloat_decText q
    unfold isSignedFloat
    split
    · rename_i t heq
      -- a non-negative text starts with a digit
      simp only [decText, Bool.false_eq_true, ↓reduceIte, List.nil_append] at heq
      cases hfn : formatNat (q / 100000) with
      | nil => exact absurd hfn (formatNat_spec _).1
      | cons c r =>
        rw [hfn] at heq
        simp at heq
        have : isDigit c = true := formatNat_mem_isDigit (n := q / 100000) (by rw [hfn]; simp)
        rw [heq.1] at this
        exact absurd this (by decide)
    · exact hf

theorem isRange_byteRange (r : ByteRange) (hl : r.length < 2 ^ 64) (hs : ∀ s, r.start = some s → s < 2 ^ 64) :
    isRange (ByteRange.marshal r) = true := by
  obtain ⟨len, start⟩ := r
  unfold isRange ByteRange.marshal
  cases start with
  | none =>
    simp only [List.append_nil]
    rw [cutAt_none (at_not_mem_formatNat len)]
    exact isDecInt_formatNat hl
  | some st =>
    simp only
    rw [cutAt_append _ (at_not_mem_formatNat len)]
    simp [isDecInt_formatNat hl, isDecInt_formatNat (hs st rfl)]

theorem isRange_of_brOK {l : Nat} {brs : Option Nat} (hb : brOK (some l) brs = true) :
    isRange (ByteRange.marshal { length := l, start := brs }) = true := by
  apply isRange_byteRange
  · simp [brOK, u64] at hb
    exact hb.1
  · intro s hs
    simp at hs
    subst hs
    simp [brOK, u64] at hb
    exact hb.2

theorem isQuoted_of_quotedOK {v : Str} (h : quotedOK v = true) : isQuoted ('"' :: (v ++ ['"'])) = true := by
  unfold isQuoted quotedContent
  simp only [List.reverse_append, List.reverse_cons, List.reverse_nil, List.nil_append, List.singleton_append]
  have : noQuoteCRLF v.reverse = true := by
    apply List.all_eq_true.mpr
    intro c hc
    have := List.all_eq_true.mp h c (List.mem_reverse.mp hc)
    simp only [Bool.and_eq_true, bne_iff_ne, ne_eq] at this
    simp only [Bool.and_eq_true, decide_eq_true_eq, ne_eq]
    exact ⟨⟨this.1.1, this.2⟩, this.1.2⟩
  simp [this]

theorem isHexSeq_of_wf {s : Str} (h : MP.isHexSeq s = true) : isHexSeq s = true := by
  unfold MP.isHexSeq at h
  split at h
  · simpa [isHexSeq, isHexDigit, isHexDigitC] using h
  · simp at h

/-! ## attribute lists -/

/-- the text of a value as written -/
def valText : AV → Str
  | .q v => '"' :: (v ++ ['"'])
  | .u v => v

theorem renderAttr_eq (a : Str × AV) : renderAttr a = a.1 ++ '=' :: valText a.2 := by
  obtain ⟨k, v⟩ := a
  cases v <;> simp [renderAttr, valText]

/-- a piece of text free of `"` and `,` is copied to the current item -/
theorem splitItems_plain : ∀ (x rest cur : Str), '"' ∉ x → ',' ∉ x →
    splitItems (x ++ rest) false cur = splitItems rest false (x.reverse ++ cur)
  | [], _, _, _, _ => by simp
  | c :: t, rest, cur, hq, hc => by
    have h1 : c ≠ '"' := fun e => hq (by simp [e])
    have h2 : c ≠ ',' := fun e => hc (by simp [e])
    simp only [List.cons_append, splitItems, h1, h2, ↓reduceIte, decide_false, Bool.false_and, Bool.false_eq_true]
    rw [splitItems_plain t rest (c :: cur) (fun e => hq (by simp [e])) (fun e => hc (by simp [e]))]
    simp

/-- inside quotes everything but `"` is copied -/
theorem splitItems_quoted : ∀ (x rest cur : Str), '"' ∉ x →
    splitItems (x ++ rest) true cur = splitItems rest true (x.reverse ++ cur)
  | [], _, _, _ => by simp
  | c :: t, rest, cur, hq => by
    have h1 : c ≠ '"' := fun e => hq (by simp [e])
    simp only [List.cons_append, splitItems, h1, ↓reduceIte, Bool.not_true, Bool.and_false, Bool.false_eq_true]
    rw [splitItems_quoted t rest (c :: cur) (fun e => hq (by simp [e]))]
    simp

/-- what the grammar's item splitter needs from a rendered attribute -/
def AttrG (kv : Str × AV) : Prop :=
  '"' ∉ kv.1 ∧ ',' ∉ kv.1 ∧
    match kv.2 with
    | .q v => '"' ∉ v
    | .u v => '"' ∉ v ∧ ',' ∉ v

theorem splitItems_attr (a : Str × AV) (rest cur : Str) (h : AttrG a) :
    splitItems (renderAttr a ++ rest) false cur = splitItems rest false ((renderAttr a).reverse ++ cur) := by
  obtain ⟨k, v⟩ := a
  obtain ⟨hk1, hk2, hv⟩ := h
  cases v with
  | u v =>
    have : '"' ∉ renderAttr (k, AV.u v) ∧ ',' ∉ renderAttr (k, AV.u v) := by
      simp only [renderAttr, List.mem_append, List.mem_cons, not_or]
      exact ⟨⟨hk1, by decide, hv.1⟩, ⟨hk2, by decide, hv.2⟩⟩
    exact splitItems_plain _ _ _ this.1 this.2
  | q v =>
    simp only [renderAttr]
    have e1 : k ++ '=' :: '"' :: (v ++ ['"']) ++ rest = (k ++ ['=']) ++ ('"' :: (v ++ ('"' :: rest))) := by simp
    rw [e1, splitItems_plain (k ++ ['=']) _ _ (by simp [hk1]) (by simp [hk2])]
    simp only [splitItems, ↓reduceIte, Bool.not_false]
    rw [splitItems_quoted v _ _ hv]
    simp only [splitItems, ↓reduceIte, Bool.not_true]
    simp

theorem splitItems_render : ∀ (a : Str × AV) (rest : List (Str × AV)), (∀ x ∈ a :: rest, AttrG x) →
    ∀ cur, splitItems (renderAttrs (a :: rest)) false cur =
      some (((renderAttr a).reverse ++ cur).reverse :: rest.map renderAttr)
  | a, [], hg, cur => by
    have := splitItems_attr a [] cur (hg a (by simp))
    simp only [List.append_nil] at this
    simp [renderAttrs, this, splitItems]
  | a, b :: rest, hg, cur => by
    simp only [renderAttrs]
    rw [splitItems_attr a _ cur (hg a (by simp))]
    have hne : (',' : Char) ≠ '"' := by decide
    simp only [splitItems, hne, ↓reduceIte, Bool.not_false, Bool.and_true, decide_true]
    rw [splitItems_render b rest (fun x hx => hg x (by simp [hx])) []]
    simp

/-- item splitting recovers the rendered attributes -/
theorem splitItems_renderAttrs (as : List (Str × AV)) (hne : as ≠ []) (hg : ∀ a ∈ as, AttrG a) :
    splitItems (renderAttrs as) false [] = some (as.map renderAttr) := by
  cases as with
  | nil => exact absurd rfl hne
  | cons a rest =>
    rw [splitItems_render a rest hg []]
    simp

/-- what `checkItems` needs from one attribute under a tag's table -/
def ItemOK (lenient : Bool) (spec : List AttrSpec) (a : Str × AV) : Prop :=
  '=' ∉ a.1 ∧ isAttrName a.1 = true ∧
    ∃ sp, spec.find? (fun x => x.name == a.1) = some sp ∧ lexOK lenient sp.lex (valText a.2) = true

def keysOf (as : List (Str × AV)) : List Str := as.map (·.1)

theorem checkItems_ok (lenient : Bool) (spec : List AttrSpec) : ∀ (as : List (Str × AV)) (seen : List (Str × Str)),
    (∀ a ∈ as, ItemOK lenient spec a) → (keysOf as).Nodup → (∀ a ∈ as, ∀ p ∈ seen, p.1 ≠ a.1) →
    checkItems lenient spec (as.map renderAttr) seen = some (seen ++ as.map (fun a => (a.1, valText a.2)))
  | [], seen, _, _, _ => by simp [checkItems]
  | a :: rest, seen, hok, hnd, hseen => by
    obtain ⟨heq, hname, sp, hfind, hlex⟩ := hok a (by simp)
    simp only [keysOf, List.map_cons, List.nodup_cons] at hnd
    have hnotseen : seen.any (fun p => p.1 == a.1) = false := by
      apply Bool.eq_false_iff.mpr
      intro h
      obtain ⟨p, hp, he⟩ := List.any_eq_true.mp h
      exact hseen a (by simp) p hp (by simpa using he)
    simp only [List.map_cons, checkItems, renderAttr_eq, cutAt_append _ heq, hname, Bool.not_true, Bool.false_eq_true,
      ↓reduceIte, hfind, hnotseen, hlex]
    have := checkItems_ok lenient spec rest (seen ++ [(a.1, valText a.2)]) (fun x hx => hok x (by simp [hx])) hnd.2
      (by
        intro x hx p hp
        simp only [List.mem_append, List.mem_singleton] at hp
        rcases hp with hp | rfl
        · exact hseen x (by simp [hx]) p hp
        · intro e
          exact hnd.1 (by simp only [List.mem_map]; exact ⟨x, hx, e.symm⟩))
    rw [this]
    simp only [List.append_assoc, List.singleton_append]

end Hls.Playlist.MG
