import Hls.Playlist.MultiSpec
/-!
  Lemmas about the multivariant playlist model: the decoder loop is a loop over lines,
  each marshal emits `tag ++ renderAttrs …`, each tag's unmarshal inverts its marshal,
  panic freedom, structure of successfully decoded values, syntactic variants.
-/
set_option linter.unusedVariables false
set_option linter.unusedSimpArgs false

namespace Hls.Playlist

theorem unmarshalLoop_eq (m : Multivariant) (s : Str) :
    unmarshalLoop m s =
      if (readLineSpec s).1 = [] ∧ (readLineSpec s).2 = [] then .ok m
      else match lineStep m (readLineSpec s).1 (readLineSpec s).2 with
        | .error e => .error e
        | .ok (m', s'') => unmarshalLoop m' s'' := by
  rw [unmarshalLoop]
  split
  · rename_i e he; rw [readLine_eq] at he; cases he
  · rename_i line s' he
    rw [readLine_eq] at he
    have hh : readLineSpec s = (line, s') := Except.ok.inj he
    rw [hh]
    simp only
    split
    · rfl
    · split <;> rename_i h <;> simp [h]

theorem lineStep_not_streamInf {m : Multivariant} {l : Str} (s : Str) (h : isStreamInf l = false) :
    lineStep m l s = (tagStep m l).map (fun m' => (m', s)) := by
  unfold tagStep lineStep isStreamInf at *
  split at h
  · cases h
  · rename_i hd
    cases hdl : dispatch l with
    | none => simp [Except.map]
    | some pt =>
      obtain ⟨p, t⟩ := pt
      cases t with
      | streamInf => exact absurd hdl (by intro e; exact hd p e)
      | version =>
        simp only [bind, Except.bind, Except.map, pure, Except.pure]
        cases sliceFrom l p.length <;> simp
        rename_i a
        cases parseUint 31 a <;> simp
        split <;> simp
      | independentSegments => simp [Except.map]
      | start =>
        simp only [bind, Except.bind, Except.map, pure, Except.pure]
        cases sliceFrom l p.length <;> simp
        rename_i a
        cases Start.unmarshal a <;> simp
      | media =>
        simp only [bind, Except.bind, Except.map, pure, Except.pure]
        cases sliceFrom l p.length <;> simp
        rename_i a
        cases Rendition.unmarshal a <;> simp


theorem dispatch_some {l p : Str} {t : Tag} (h : dispatch l = some (p, t)) :
    (p, t) ∈ dispatchTable ∧ hasPrefix p l = true := by
  unfold dispatch at h
  exact ⟨List.mem_of_find?_eq_some h, by simpa using List.find?_some h⟩

theorem dispatch_streamInf_prefix {l p : Str} (h : dispatch l = some (p, .streamInf)) : p = tagStreamInf := by
  have := (dispatch_some h).1
  simp [dispatchTable] at this
  exact this

theorem hasPrefix_length {p l : Str} (h : hasPrefix p l = true) : p.length ≤ l.length := by
  unfold hasPrefix at h
  exact (List.isPrefixOf_iff_prefix.mp h).length_le

theorem lineStep_streamInf {m : Multivariant} {l : Str} (s : Str) (h : isStreamInf l = true) :
    lineStep m l s = (variantStep m l (readLineSpec s).1).map (fun m' => (m', (readLineSpec s).2)) := by
  unfold isStreamInf at h
  split at h
  · rename_i p hd
    have hp := dispatch_streamInf_prefix hd
    subst hp
    unfold lineStep variantStep
    rw [hd]
    simp only [bind, Except.bind, Except.map, pure, Except.pure, readLine_eq]
    cases sliceFrom l tagStreamInf.length <;> simp
    rename_i a
    cases Variant.unmarshal (a ++ '\n' :: (readLineSpec s).1) <;> simp
  · cases h

theorem textLines_nil : textLines [] = [] := by rw [textLines]

theorem textLines_cons (c : Char) (cs : Str) :
    textLines (c :: cs) = (readLineSpec (c :: cs)).1 :: textLines (readLineSpec (c :: cs)).2 := by
  rw [textLines]

theorem readLineSpec_nil : readLineSpec [] = ([], []) := by simp [readLineSpec, indexByte]

/-- The decoder loop is the line-level loop on the lines of the text. -/
theorem unmarshalLoop_eq_runLines (n : Nat) : ∀ (m : Multivariant) (s : Str), s.length ≤ n →
    unmarshalLoop m s = runLines m (textLines s) := by
  induction n with
  | zero =>
    intro m s hs
    have : s = [] := by cases s with | nil => rfl | cons _ _ => simp at hs
    subst this
    rw [unmarshalLoop_eq, readLineSpec_nil, textLines_nil]; simp [runLines]
  | succ n ih =>
    intro m s hs
    cases s with
    | nil => rw [unmarshalLoop_eq, readLineSpec_nil, textLines_nil]; simp [runLines]
    | cons c cs =>
      rw [unmarshalLoop_eq, textLines_cons]
      have hlt := @readLineSpec_snd_lt (c :: cs) (by simp)
      generalize hrl : readLineSpec (c :: cs) = pr at hlt ⊢
      obtain ⟨line, rest⟩ := pr
      simp only at hlt ⊢
      have hrest : rest.length ≤ n := by simp at hs hlt; omega
      by_cases hsi : isStreamInf line = true
      · -- EXT-X-STREAM-INF: one more line is read
        have hne : ¬ (line = [] ∧ rest = []) := by
          intro h; rw [h.1] at hsi; simp [isStreamInf, dispatch, dispatchTable, hasPrefix, tagVersion,
            tagIndependentSegments, tagStart, tagStreamInf, tagMedia] at hsi
        rw [if_neg hne, lineStep_streamInf _ hsi]
        cases rest with
        | nil =>
          rw [readLineSpec_nil, textLines_nil]
          simp only [runLines, hsi, if_true]
          cases variantStep m line [] with
          | error e => simp [Except.map]
          | ok m' =>
            simp only [Except.map]
            rw [unmarshalLoop_eq, readLineSpec_nil]; simp
        | cons d ds =>
          rw [textLines_cons]
          have hlt2 := @readLineSpec_snd_lt (d :: ds) (by simp)
          generalize readLineSpec (d :: ds) = pr2 at hlt2 ⊢
          obtain ⟨line2, rest2⟩ := pr2
          simp only at hlt2 ⊢
          simp only [runLines, hsi, if_true]
          cases variantStep m line line2 with
          | error e => simp [Except.map, Except.bind]
          | ok m' =>
            simp only [Except.map, Except.bind]
            exact ih m' rest2 (by omega)
      · have hsi' : isStreamInf line = false := by simpa using hsi
        rw [lineStep_not_streamInf _ hsi']
        by_cases hbrk : line = [] ∧ rest = []
        · rw [if_pos hbrk, hbrk.1, hbrk.2, textLines_nil]
          simp [runLines, isStreamInf, dispatch, dispatchTable, hasPrefix, tagVersion,
            tagIndependentSegments, tagStart, tagStreamInf, tagMedia, tagStep, lineStep, Except.map]
        · rw [if_neg hbrk]
          cases rest with
          | nil =>
            rw [textLines_nil]
            simp only [runLines, hsi', Bool.false_eq_true, if_false]
            cases tagStep m line with
            | error e => simp [Except.map]
            | ok m' =>
              simp only [Except.map]
              rw [unmarshalLoop_eq, readLineSpec_nil]; simp
          | cons d ds =>
            have := ih
            cases htl : textLines (d :: ds) with
            | nil => rw [textLines_cons] at htl; cases htl
            | cons l2 ls =>
              simp only [runLines, hsi', Bool.false_eq_true, if_false]
              cases tagStep m line with
              | error e => simp [Except.map, Except.bind]
              | ok m' =>
                simp only [Except.map, Except.bind]
                rw [← htl]
                exact ih m' (d :: ds) hrest


/-! ## Each marshal emits `tag ++ renderAttrs …` -/

theorem renderAttrs_snoc {as : List Attr} (a : Attr) (h : as ≠ []) :
    renderAttrs (as ++ [a]) = renderAttrs as ++ ',' :: renderAttr a := by
  induction as with
  | nil => exact absurd rfl h
  | cons x r ih =>
    cases r with
    | nil => simp [renderAttrs]
    | cons y r' =>
      have := ih (by simp)
      simp only [List.cons_append] at this ⊢
      rw [renderAttrs_cons_cons, this, renderAttrs_cons_cons]
      simp

theorem renderAttrs_snoc_opt {as : List Attr} (b : Bool) (a : Attr) (h : as ≠ []) :
    renderAttrs (as ++ optAttr b a) = renderAttrs as ++ (if b then ',' :: renderAttr a else []) := by
  cases b
  · simp [optAttr]
  · simp [optAttr, renderAttrs_snoc a h]

theorem renderAttrs_snoc_optO {α} {as : List Attr} (o : Option α) (f : α → Attr) (h : as ≠ []) :
    renderAttrs (as ++ optAttrO o f) =
      renderAttrs as ++ (match o with | some x => ',' :: renderAttr (f x) | none => []) := by
  cases o
  · simp [optAttrO]
  · simp [optAttrO, renderAttrs_snoc _ h]

theorem Start.marshal_eq (t : Start) :
    t.marshal = tagStart ++ renderAttrs (startAttrs t) ++ ['\n'] := by
  simp [Start.marshal, startAttrs, renderAttrs, renderAttr, AttrVal.render, tagStart, kTimeOffset]

theorem Rendition.marshal_eq (r : Rendition) :
    r.marshal = tagMedia ++ renderAttrs (renditionAttrs r) ++ ['\n'] := by
  unfold renditionAttrs Rendition.marshal
  rw [renderAttrs_snoc_optO _ _ (by simp), renderAttrs_snoc_optO _ _ (by simp), renderAttrs_snoc_optO _ _ (by simp),
    renderAttrs_snoc_opt _ _ (by simp), renderAttrs_snoc_opt _ _ (by simp), renderAttrs_snoc_opt _ _ (by simp),
    renderAttrs_snoc_opt _ _ (by simp), renderAttrs_snoc_opt _ _ (by simp)]
  cases r.channels <;> cases r.uri <;> cases r.inStreamID <;>
    simp [Rendition.marshal, renderAttrs, renderAttr, AttrVal.render, tagMedia, kType, kGroupID, kLanguage, kName,
      kAutoselect, kDefault, kForced, kChannels, kURI, kInstreamID, yes]

theorem Variant.marshal_eq (v : Variant) :
    v.marshal = tagStreamInf ++ renderAttrs (variantAttrs v) ++ '\n' :: v.uri ++ ['\n'] := by
  unfold variantAttrs Variant.marshal
  rw [renderAttrs_snoc_opt _ _ (by simp), renderAttrs_snoc_opt _ _ (by simp), renderAttrs_snoc_opt _ _ (by simp),
    renderAttrs_snoc_opt _ _ (by simp), renderAttrs_snoc_optO _ _ (by simp), renderAttrs_snoc_opt _ _ (by simp),
    renderAttrs_snoc _ (by simp), renderAttrs_snoc_optO _ _ (by simp)]
  cases v.averageBandwidth <;> cases v.frameRate <;>
    simp [Variant.marshal, renderAttrs, renderAttr, AttrVal.render, tagStreamInf, kBandwidth, kAverageBandwidth,
      kCodecs, kResolution, kFrameRate, kVideo, kAudio, kSubtitles, kClosedCaptions]


/-! ## Looking keys up in an emitted attribute list -/

theorem lastVal_nil (k : Str) : lastVal k [] = none := rfl

theorem lastVal_append (k : Str) (as bs : List Attr) :
    lastVal k (as ++ bs) = (lastVal k bs).or (lastVal k as) := by
  unfold lastVal
  rw [List.foldl_append]
  generalize List.foldl (fun acc a => if a.1 = k then some a.2.raw else acc) none as = acc0
  induction bs generalizing acc0 with
  | nil => simp
  | cons b r ih =>
    simp only [List.foldl]
    by_cases hb : b.1 = k
    · simp only [hb, if_true]
      rw [ih (some b.2.raw)]
      cases List.foldl (fun acc a => if a.1 = k then some a.2.raw else acc) none r <;> simp
    · simp only [hb, if_false]
      exact ih acc0

theorem lastVal_single (k : Str) (a : Attr) : lastVal k [a] = if a.1 = k then some a.2.raw else none := rfl

theorem lastVal_cons (k : Str) (a : Attr) (as : List Attr) :
    lastVal k (a :: as) = (lastVal k as).or (if a.1 = k then some a.2.raw else none) := by
  rw [show a :: as = [a] ++ as by rfl, lastVal_append, lastVal_single]

theorem lastVal_optAttr (k : Str) (b : Bool) (a : Attr) :
    lastVal k (optAttr b a) = if b = true ∧ a.1 = k then some a.2.raw else none := by
  cases b <;> simp [optAttr, lastVal_single, lastVal_nil]

theorem lastVal_optAttrO {α} (k : Str) (o : Option α) (f : α → Attr) :
    lastVal k (optAttrO o f) = match o with
      | some x => if (f x).1 = k then some (f x).2.raw else none
      | none => none := by
  cases o <;> simp [optAttrO, lastVal_single, lastVal_nil]

theorem WFAttrs_append {as bs : List Attr} (ha : WFAttrs as) (hb : WFAttrs bs) : WFAttrs (as ++ bs) := by
  intro a h
  rcases List.mem_append.mp h with h | h
  · exact ha a h
  · exact hb a h

theorem WFAttrs_nil : WFAttrs [] := by intro a h; cases h

theorem WFAttrs_cons {a : Attr} {as : List Attr} (ha : WFAttr a) (hb : WFAttrs as) : WFAttrs (a :: as) := by
  intro x h
  rcases List.mem_cons.mp h with h | h
  · subst h; exact ha
  · exact hb x h

theorem WFAttrs_optAttr {b : Bool} {a : Attr} (ha : b = true → WFAttr a) : WFAttrs (optAttr b a) := by
  cases b
  · exact WFAttrs_nil
  · exact WFAttrs_cons (ha rfl) WFAttrs_nil

theorem WFAttrs_optAttrO {α} {o : Option α} {f : α → Attr} (h : OptAll o (fun x => WFAttr (f x))) :
    WFAttrs (optAttrO o f) := by
  cases o
  · exact WFAttrs_nil
  · exact WFAttrs_cons h WFAttrs_nil

def KeyOK (k : Str) : Prop := '=' ∉ k ∧ k.head? ≠ some ' '

instance (k : Str) : Decidable (KeyOK k) := by unfold KeyOK; exact inferInstance

theorem WFAttr_quoted {k s : Str} (hk : KeyOK k) (hs : '"' ∉ s) : WFAttr (k, .quoted s) := ⟨hk.1, hk.2, hs⟩

theorem WFAttr_unquoted {k s : Str} (hk : KeyOK k) (h1 : ',' ∉ s) (h2 : s.head? ≠ some '"') :
    WFAttr (k, .unquoted s) := ⟨hk.1, hk.2, h1, h2⟩

theorem OptAll_imp {α} {o : Option α} {P Q : α → Prop} (h : OptAll o P) (hpq : ∀ x, P x → Q x) : OptAll o Q := by
  cases o
  · trivial
  · exact hpq _ h

theorem mem_renditionTypes {t : Str} (h : t ∈ renditionTypes) :
    t = typeAudio ∨ t = typeVideo ∨ t = typeSubtitles ∨ t = typeClosedCaptions := by
  simpa [renditionTypes] using h

theorem WFAttrs_renditionAttrs {r : Rendition} (h : WFRendition r) : WFAttrs (renditionAttrs r) := by
  obtain ⟨ht, ⟨_, hg⟩, ⟨_, hn⟩, hl, hc, hu, hi, _⟩ := h
  have htype : WFAttr (kType, .unquoted r.type) := by
    rcases mem_renditionTypes ht with e | e | e | e <;> rw [e] <;> decide
  unfold renditionAttrs
  refine WFAttrs_append (WFAttrs_append (WFAttrs_append (WFAttrs_append (WFAttrs_append (WFAttrs_append
    (WFAttrs_append (WFAttrs_append ?_ ?_) ?_) ?_) ?_) ?_) ?_) ?_) ?_
  · exact WFAttrs_cons htype (WFAttrs_cons (WFAttr_quoted (by decide) hg.1) WFAttrs_nil)
  · exact WFAttrs_optAttr (fun _ => WFAttr_quoted (by decide) hl.1)
  · exact WFAttrs_optAttr (fun _ => WFAttr_quoted (by decide) hn.1)
  · exact WFAttrs_optAttr (fun _ => by decide)
  · exact WFAttrs_optAttr (fun _ => by decide)
  · exact WFAttrs_optAttr (fun _ => by decide)
  · exact WFAttrs_optAttrO (OptAll_imp hc (fun x hx => WFAttr_quoted (by decide) hx.1))
  · exact WFAttrs_optAttrO (OptAll_imp hu (fun x hx => WFAttr_quoted (by decide) hx.1))
  · exact WFAttrs_optAttrO (OptAll_imp hi (fun x hx => WFAttr_quoted (by decide) hx.1))

theorem getD_ite_nil (s : Str) : (if s ≠ [] then some s else none).getD [] = s := by
  by_cases h : s = [] <;> simp [h]

theorem getD_ite_nil' (s : Str) : (if s = [] then none else some s).getD [] = s := by
  by_cases h : s = [] <;> simp [h]

theorem yes_flag (b : Bool) :
    (match (if b = true then some yes else none : Option Str) with
      | some val => decide (val = yes)
      | none => false) = b := by
  cases b <;> simp

theorem renditionType_ne_nil {t : Str} (h : t ∈ renditionTypes) : t ≠ [] := by
  rcases mem_renditionTypes h with e | e | e | e <;> rw [e] <;> decide

/-- EXT-X-MEDIA: `unmarshal` inverts `marshal` on every field. -/
theorem Rendition.unmarshal_render {r : Rendition} (h : WFRendition r) :
    Rendition.unmarshal (renderAttrs (renditionAttrs r)) = .ok r := by
  have hwf := WFAttrs_renditionAttrs h
  unfold Rendition.unmarshal
  rw [parseAttrs_render _ hwf]
  obtain ⟨type, groupID, name, language, autoselect, default, forced, channels, uri, inStreamID⟩ := r
  obtain ⟨ht, ⟨hg0, hg⟩, ⟨hn0, hn⟩, hl, hc, hu, hi, hcc, hsub, hins, hch⟩ := h
  simp only at ht hg0 hg hn0 hn hl hc hu hi hcc hsub hins hch
  have htne := renditionType_ne_nil ht
  simp only [bind, Except.bind, get_toMap]
  cases channels <;> cases uri <;> cases inStreamID <;>
      simp [renditionAttrs, lastVal_append, lastVal_cons, lastVal_nil, lastVal_optAttr, lastVal_optAttrO, AttrVal.raw,
        kType, kGroupID, kLanguage, kName, kAutoselect, kDefault, kForced, kChannels, kURI, kInstreamID] <;>
      simp at hcc hsub hins hch <;>
      simp [ht, htne, hg0, hcc, hsub, hins, hch, getD_ite_nil', yes_flag, pure, Except.pure]
  all_goals (first
    | (exfalso; exact absurd hins hcc)
    | (exfalso; rw [hins] at hch; exact absurd hch (by decide))
    | (exfalso; rw [hins] at hsub; exact absurd hsub (by decide))
    | (cases autoselect <;> cases default <;> cases forced <;>
        simp [yes, renditionTypes, typeClosedCaptions, typeSubtitles, typeAudio, typeVideo]))


/-! ## Characters that cannot occur in an emitted attribute list -/

/-- `c` occurs neither in the key nor in the value -/
def AttrFree (c : Char) (a : Attr) : Prop := c ∉ a.1 ∧ c ∉ a.2.raw

def AllAttrs (P : Attr → Prop) (as : List Attr) : Prop := ∀ a ∈ as, P a

theorem AllAttrs_append {P} {as bs : List Attr} (ha : AllAttrs P as) (hb : AllAttrs P bs) : AllAttrs P (as ++ bs) := by
  intro a h
  rcases List.mem_append.mp h with h | h
  · exact ha a h
  · exact hb a h

theorem AllAttrs_nil {P} : AllAttrs P [] := by intro a h; cases h

theorem AllAttrs_cons {P} {a : Attr} {as : List Attr} (ha : P a) (hb : AllAttrs P as) : AllAttrs P (a :: as) := by
  intro x h
  rcases List.mem_cons.mp h with h | h
  · subst h; exact ha
  · exact hb x h

theorem AllAttrs_optAttr {P} {b : Bool} {a : Attr} (ha : b = true → P a) : AllAttrs P (optAttr b a) := by
  cases b
  · exact AllAttrs_nil
  · exact AllAttrs_cons (ha rfl) AllAttrs_nil

theorem AllAttrs_optAttrO {P} {α} {o : Option α} {f : α → Attr} (h : OptAll o (fun x => P (f x))) :
    AllAttrs P (optAttrO o f) := by
  cases o
  · exact AllAttrs_nil
  · exact AllAttrs_cons h AllAttrs_nil

theorem not_mem_renderAttr {c : Char} {a : Attr} (h1 : c ≠ '=') (h3 : c ≠ '"') (h : AttrFree c a) : c ∉ renderAttr a := by
  obtain ⟨k, v⟩ := a
  obtain ⟨hk, hv⟩ := h
  cases v <;> simp_all [renderAttr, AttrVal.render, AttrVal.raw]

theorem not_mem_renderAttrs {c : Char} {as : List Attr} (h1 : c ≠ '=') (h2 : c ≠ ',') (h3 : c ≠ '"')
    (h : AllAttrs (AttrFree c) as) : c ∉ renderAttrs as := by
  induction as with
  | nil => simp [renderAttrs]
  | cons a r ih =>
    have ha := not_mem_renderAttr h1 h3 (h a (by simp))
    have hr := ih (fun x hx => h x (by simp [hx]))
    cases r with
    | nil => simpa [renderAttrs] using ha
    | cons b r' =>
      rw [renderAttrs_cons_cons]
      simp only [List.mem_append, List.mem_cons, not_or]
      exact ⟨ha, h2, hr⟩

/-- the last character of an attribute list is the last character of its last attribute -/
theorem renderAttrs_getLast_snoc (as : List Attr) (a : Attr) :
    (renderAttrs (as ++ [a])).getLast? = (renderAttr a).getLast? := by
  cases as with
  | nil => simp [renderAttrs]
  | cons x r =>
    rw [renderAttrs_snoc a (by simp)]
    rw [List.getLast?_append]
    have : (',' :: renderAttr a).getLast? = (renderAttr a).getLast? := by
      cases hra : renderAttr a with
      | nil => exact absurd hra (renderAttr_ne_nil a)
      | cons c cs => simp [List.getLast?_cons_cons]
    rw [this]
    cases hra : (renderAttr a).getLast? with
    | none =>
      have : renderAttr a = [] := by simpa using hra
      exact absurd this (renderAttr_ne_nil a)
    | some c => simp


/-- what the frame-rate requirement gives: the value is the binary64 nearest to `k/1000` -/
theorem WFFrameRate_elim {f : F64} (h : WFFrameRate f) : ∃ k : Nat, k ≤ 1000000000000 ∧ f = f64OfMilli k := by
  unfold WFFrameRate at h
  split at h
  · rename_i k hk; exact ⟨k, h.1, h.2⟩
  · exact absurd h id

theorem fmtFixed3_of_WF (env : FloatEnvelope3) {f : F64} (h : WFFrameRate f) :
    ∃ k : Nat, k ≤ 1000000000000 ∧ f = f64OfMilli k ∧ F64.fmtFixed 3 f = decInt 3 k := by
  obtain ⟨k, hk, hf⟩ := WFFrameRate_elim h
  exact ⟨k, hk, hf, by rw [hf]; exact env.fmt k hk⟩

/-- line breaks (and any other non-numeric, non-key character that the strings exclude) do
    not occur in the attribute list of a variant -/
theorem variantAttrs_free {v : Variant} (h : WFVariant v) {c : Char}
    (hd : isDigit c = false) (h2 : c ∉ floatTextChars) (hk : ∀ k ∈ variantKeys, c ∉ k)
    (hs : ∀ s : Str, QuotedOK s → c ∉ s) (hu : ∀ s : Str, UnquotedOK s → c ∉ s) (hcomma : c ≠ ',') :
    AllAttrs (AttrFree c) (variantAttrs v) := by
  obtain ⟨⟨hb0, hb1⟩, hab, hcne, hcs, huri, hres, hfr, hvi, hau, hsu, hcc⟩ := h
  have hkk : ∀ k, k ∈ variantKeys → c ∉ k := hk
  unfold variantAttrs
  refine AllAttrs_append (AllAttrs_append (AllAttrs_append (AllAttrs_append (AllAttrs_append (AllAttrs_append
    (AllAttrs_append (AllAttrs_append ?_ ?_) ?_) ?_) ?_) ?_) ?_) ?_) ?_
  · refine AllAttrs_cons ⟨hkk _ (by simp [variantKeys]), ?_⟩ AllAttrs_nil
    simp only [AttrVal.raw]; rw [formatInt_nonneg hb0]; exact not_mem_natToDigits hd
  · refine AllAttrs_optAttrO (OptAll_imp hab (fun a ha => ⟨hkk _ (by simp [variantKeys]), ?_⟩))
    simp only [AttrVal.raw]; rw [formatInt_nonneg ha.1]; exact not_mem_natToDigits hd
  · refine AllAttrs_cons ⟨hkk _ (by simp [variantKeys]), ?_⟩ AllAttrs_nil
    simp only [AttrVal.raw]
    exact joinByte_no_mem hcomma (fun x hx => hs x (hcs x hx).1)
  · exact AllAttrs_optAttr (fun _ => ⟨hkk _ (by simp [variantKeys]), hu _ hres⟩)
  · refine AllAttrs_optAttrO (OptAll_imp hfr (fun f hf => ⟨hkk _ (by simp [variantKeys]), ?_⟩))
    simp only [AttrVal.raw]; exact not_mem_fmtFixed hd h2
  · exact AllAttrs_optAttr (fun _ => ⟨hkk _ (by simp [variantKeys]), hs _ hvi⟩)
  · exact AllAttrs_optAttr (fun _ => ⟨hkk _ (by simp [variantKeys]), hs _ hau⟩)
  · exact AllAttrs_optAttr (fun _ => ⟨hkk _ (by simp [variantKeys]), hs _ hsu⟩)
  · exact AllAttrs_optAttr (fun _ => ⟨hkk _ (by simp [variantKeys]), hs _ hcc⟩)

theorem variantAttrs_no_nl {v : Variant} (h : WFVariant v) :
    '\n' ∉ renderAttrs (variantAttrs v) :=
  not_mem_renderAttrs (by decide) (by decide) (by decide)
    (variantAttrs_free h (by decide) (by decide) (by decide) (fun s hs => hs.2.1) (fun s hs => hs.2.1) (by decide))

theorem variantAttrs_no_cr {v : Variant} (h : WFVariant v) :
    '\r' ∉ renderAttrs (variantAttrs v) :=
  not_mem_renderAttrs (by decide) (by decide) (by decide)
    (variantAttrs_free h (by decide) (by decide) (by decide) (fun s hs => hs.2.2) (fun s hs => hs.2.2.1) (by decide))

theorem WFAttrs_variantAttrs {v : Variant} (h : WFVariant v) : WFAttrs (variantAttrs v) := by
  obtain ⟨⟨hb0, hb1⟩, hab, hcne, hcs, huri, hres, hfr, hvi, hau, hsu, hcc⟩ := h
  unfold variantAttrs
  refine WFAttrs_append (WFAttrs_append (WFAttrs_append (WFAttrs_append (WFAttrs_append (WFAttrs_append
    (WFAttrs_append (WFAttrs_append ?_ ?_) ?_) ?_) ?_) ?_) ?_) ?_) ?_
  · refine WFAttrs_cons (WFAttr_unquoted (by decide) ?_ ?_) WFAttrs_nil
    · rw [formatInt_nonneg hb0]; exact not_mem_natToDigits (by decide)
    · rw [formatInt_nonneg hb0]; exact natToDigits_head (by decide)
  · refine WFAttrs_optAttrO (OptAll_imp hab (fun a ha => WFAttr_unquoted (by decide) ?_ ?_))
    · rw [formatInt_nonneg ha.1]; exact not_mem_natToDigits (by decide)
    · rw [formatInt_nonneg ha.1]; exact natToDigits_head (by decide)
  · exact WFAttrs_cons (WFAttr_quoted (by decide) (joinByte_no_mem (by decide) (fun x hx => (hcs x hx).1.1))) WFAttrs_nil
  · exact WFAttrs_optAttr (fun _ => WFAttr_unquoted (by decide) hres.1 hres.2.2.2)
  · refine WFAttrs_optAttrO (OptAll_imp hfr (fun f hf => ?_))
    exact WFAttr_unquoted (by decide) (not_mem_fmtFixed (by decide) (by decide)) (fmtFixed_head (by decide) (by decide))
  · exact WFAttrs_optAttr (fun _ => WFAttr_quoted (by decide) hvi.1)
  · exact WFAttrs_optAttr (fun _ => WFAttr_quoted (by decide) hau.1)
  · exact WFAttrs_optAttr (fun _ => WFAttr_quoted (by decide) hsu.1)
  · exact WFAttrs_optAttr (fun _ => WFAttr_quoted (by decide) hcc.1)


theorem emptyOrComment_uri {u : Str} (h : WFUri u) : emptyOrComment u = .ok false := by
  obtain ⟨hne, hh, _, _⟩ := h
  cases u with
  | nil => exact absurd rfl hne
  | cons c cs =>
    have : c ≠ '#' := by intro e; apply hh; simp [e]
    simp [emptyOrComment, byteAt, this, bind, Except.bind, pure, Except.pure]

theorem getD_ite_nil'' (s : Str) : (if s = [] then none else some s : Option Str).getD [] = s := by
  by_cases h : s = [] <;> simp [h]

/-- EXT-X-STREAM-INF + URI line: `unmarshal` inverts `marshal` on every field. -/
theorem FrFloatOK_elim {f : F64} (h : FrFloatOK f) : parseFloat (F64.fmtFixed 3 f) = .ok f := by
  unfold FrFloatOK at h
  split at h
  · rename_i g hg; rw [hg, h]
  · exact absurd h id

theorem FrFloatOK_of_envelope (env : FloatEnvelope3) {f : F64} (h : WFFrameRate f) : FrFloatOK f := by
  obtain ⟨k, hk, hf, hfmt⟩ := fmtFixed3_of_WF env h
  unfold FrFloatOK
  rw [hfmt, hf, env.parse k hk]

theorem Variant.unmarshal_render {v : Variant} (h : WFVariant v) (hfl : OptAll v.frameRate FrFloatOK) :
    Variant.unmarshal (renderAttrs (variantAttrs v) ++ '\n' :: v.uri) = .ok v := by
  have hwf := WFAttrs_variantAttrs h
  have hnl := variantAttrs_no_nl h
  unfold Variant.unmarshal
  have huri := h.2.2.2.2.1
  rw [splitByte_append _ hnl, splitByte_not_mem huri.2.2.1]
  simp only [idx, List.getElem?_cons_zero, List.getElem?_cons_succ, bind, Except.bind]
  rw [parseAttrs_render _ hwf]
  simp only [emptyOrComment_uri huri, get_toMap]
  obtain ⟨bandwidth, codecs, uri, averageBandwidth, resolution, frameRate, video, audio, subtitles, closedCaptions⟩ := v
  obtain ⟨⟨hb0, hb1⟩, hab, hcne, hcs, huri, hres, hfr, hvi, hau, hsu, hcc⟩ := h
  simp only at hb0 hb1 hab hcne hcs huri hres hfr hvi hau hsu hcc hfl
  have hbw : parseUint 31 (formatInt bandwidth) = .ok bandwidth.toNat := parseUint_formatInt hb0 (by simpa using hb1)
  have hbw2 : (bandwidth.toNat : Int) = bandwidth := Int.toNat_of_nonneg hb0
  have hcod : splitByte ',' (joinByte ',' codecs) = codecs := splitByte_joinByte hcne (fun x hx => (hcs x hx).2)
  cases averageBandwidth <;> cases frameRate <;>
    simp [variantAttrs, lastVal_append, lastVal_cons, lastVal_nil, lastVal_optAttr, lastVal_optAttrO, AttrVal.raw,
      kBandwidth, kAverageBandwidth, kCodecs, kResolution, kFrameRate, kVideo, kAudio, kSubtitles, kClosedCaptions]
  · simp [hbw, hbw2, hcod, getD_ite_nil'', pure, Except.pure]
  · rename_i f
    have hpf : parseFloat (F64.fmtFixed 3 f) = .ok f := FrFloatOK_elim hfl
    simp [hbw, hbw2, hcod, hpf, getD_ite_nil'', pure, Except.pure]
  · rename_i a
    have ha : parseUint 31 (formatInt a) = .ok a.toNat := parseUint_formatInt hab.1 (by simpa using hab.2)
    have ha2 : (a.toNat : Int) = a := Int.toNat_of_nonneg hab.1
    simp [hbw, hbw2, hcod, ha, ha2, getD_ite_nil'', pure, Except.pure]
  · rename_i a f
    have hpf : parseFloat (F64.fmtFixed 3 f) = .ok f := FrFloatOK_elim hfl
    have ha : parseUint 31 (formatInt a) = .ok a.toNat := parseUint_formatInt hab.1 (by simpa using hab.2)
    have ha2 : (a.toNat : Int) = a := Int.toNat_of_nonneg hab.1
    simp [hbw, hbw2, hcod, ha, ha2, hpf, getD_ite_nil'', pure, Except.pure]


theorem durFloatCheck_elim {d q : Int} (h : durFloatCheck d q = true) :
    ∃ d' : Int, durFmt5 d = dec5 q ∧ IsQuant5 d q ∧ durUnmarshal (dec5 q) = .ok d' ∧ IsDecoded5 q d' ∧
      durFmt5 d' = dec5 q := by
  unfold durFloatCheck at h
  simp only [Bool.and_eq_true, beq_iff_eq, decide_eq_true_eq] at h
  obtain ⟨⟨h1, h2⟩, h3⟩ := h
  split at h3
  · rename_i d' hd'
    simp only [Bool.and_eq_true, beq_iff_eq, decide_eq_true_eq] at h3
    exact ⟨d', h1, h2, hd', h3.1, h3.2⟩
  · cases h3

/-- what `DurFloatOK` says -/
theorem DurFloatOK_elim {d : Int} (h : DurFloatOK d) :
    ∃ q d' : Int, durFmt5 d = dec5 q ∧ IsQuant5 d q ∧ durUnmarshal (dec5 q) = .ok d' ∧ IsDecoded5 q d' ∧
      durFmt5 d' = dec5 q := by
  rcases h with h | h
  · exact ⟨_, durFloatCheck_elim h⟩
  · exact ⟨_, durFloatCheck_elim h⟩

/-- the float envelope gives `DurFloatOK` for every legal TIME-OFFSET -/
theorem DurFloatOK_of_envelope (env : FloatEnvelope) {t : Start} (h : WFStart t) : DurFloatOK t.timeOffset := by
  obtain ⟨h1, h2⟩ := h
  obtain ⟨q, hq1, hq2⟩ := env.fmt t.timeOffset (by simp [durBound]; omega) (by omega)
  have hq2' := hq2
  unfold IsQuant5 at hq2'
  obtain ⟨d', hd1, hd2⟩ := env.parse q (by simp [durBound]; omega)
  have hd2' := hd2
  unfold IsDecoded5 at hd2'
  obtain ⟨q', hq'1, hq'2⟩ := env.fmt d' (by simp [durBound]; omega) (by omega)
  unfold IsQuant5 at hq'2
  have hqq : q' = q := by omega
  have hcheck : durFloatCheck t.timeOffset q = true := by
    unfold durFloatCheck
    simp only [hq1, hd1, beq_self_eq_true, Bool.true_and, Bool.and_eq_true, decide_eq_true_eq, beq_iff_eq]
    exact ⟨hq2', hd2', by rw [hq'1, hqq]⟩
  have hcases : q = t.timeOffset / 10000 ∨ q = t.timeOffset / 10000 + 1 := by omega
  rcases hcases with e | e
  · left; rw [← e]; exact hcheck
  · right; rw [← e]; exact hcheck

theorem Start.unmarshal_render {t : Start} (h : WFStart t) (hfl : DurFloatOK t.timeOffset) :
    ∃ q d' : Int, Start.unmarshal (renderAttrs (startAttrs t)) = .ok { timeOffset := d' } ∧
      IsQuant5 t.timeOffset q ∧ IsDecoded5 q d' ∧ d' ≠ 0 ∧ durFmt5 t.timeOffset = dec5 q ∧ durFmt5 d' = dec5 q := by
  obtain ⟨q, d', hfmt, hq, hpar, hd, hfix⟩ := DurFloatOK_elim hfl
  have hne : d' ≠ 0 := by
    obtain ⟨h1, h2⟩ := h
    unfold IsQuant5 at hq
    unfold IsDecoded5 at hd
    omega
  refine ⟨q, d', ?_, hq, hd, hne, hfmt, hfix⟩
  have hwf : WFAttrs (startAttrs t) := by
    unfold startAttrs
    refine WFAttrs_cons (WFAttr_unquoted (by decide) ?_ ?_) WFAttrs_nil
    · rw [hfmt]; exact not_mem_decInt (by decide) (by decide) (by decide)
    · rw [hfmt]; exact decInt_head (by decide) (by decide) (by decide)
  unfold Start.unmarshal
  rw [parseAttrs_render _ hwf]
  simp only [bind, Except.bind, get_toMap]
  simp [startAttrs, lastVal_single, AttrVal.raw, hfmt, hpar, hne, pure, Except.pure]


/-! ## One line of a marshalled playlist through the `switch` -/

theorem sliceFrom_prefix (p x : Str) : sliceFrom (p ++ x) p.length = .ok x := by
  simp [sliceFrom]

theorem dispatch_nil : dispatch [] = none := by
  simp [dispatch, dispatchTable, hasPrefix, tagVersion, tagIndependentSegments, tagStart, tagStreamInf, tagMedia]

theorem dispatch_version (x : Str) : dispatch (tagVersion ++ x) = some (tagVersion, .version) := by
  simp [dispatch, dispatchTable, hasPrefix, tagVersion]

theorem dispatch_indep (x : Str) :
    dispatch (tagIndependentSegments ++ x) = some (tagIndependentSegments, .independentSegments) := by
  simp [dispatch, dispatchTable, hasPrefix, tagVersion, tagIndependentSegments]

theorem dispatch_start (x : Str) : dispatch (tagStart ++ x) = some (tagStart, .start) := by
  simp [dispatch, dispatchTable, hasPrefix, tagVersion, tagIndependentSegments, tagStart]

theorem dispatch_streamInf (x : Str) : dispatch (tagStreamInf ++ x) = some (tagStreamInf, .streamInf) := by
  simp [dispatch, dispatchTable, hasPrefix, tagVersion, tagIndependentSegments, tagStart, tagStreamInf]

theorem dispatch_media (x : Str) : dispatch (tagMedia ++ x) = some (tagMedia, .media) := by
  simp [dispatch, dispatchTable, hasPrefix, tagVersion, tagIndependentSegments, tagStart, tagStreamInf, tagMedia]

theorem tagStep_nil (m : Multivariant) : tagStep m [] = .ok m := by
  simp [tagStep, lineStep, dispatch_nil, Except.map]

theorem tagStep_version (m : Multivariant) {v : Int} (h0 : 0 ≤ v) (h1 : v ≤ 10) :
    tagStep m (tagVersion ++ formatInt v) = .ok { m with version := v } := by
  have hp : parseUint 31 (formatInt v) = .ok v.toNat := parseUint_formatInt h0 (by omega)
  have hv : (v.toNat : Int) = v := Int.toNat_of_nonneg h0
  have hle : ¬ v.toNat > maxSupportedVersion := by simp [maxSupportedVersion]; omega
  simp [tagStep, lineStep, dispatch_version, sliceFrom_prefix, hp, hle, hv, bind, Except.bind, Except.map, pure, Except.pure]

theorem tagStep_indep (m : Multivariant) :
    tagStep m tagIndependentSegments = .ok { m with independentSegments := true } := by
  have := dispatch_indep []
  simp only [List.append_nil] at this
  simp [tagStep, lineStep, this, Except.map]

theorem tagStep_start (m : Multivariant) {x : Str} {st : Start} (h : Start.unmarshal x = .ok st) :
    tagStep m (tagStart ++ x) = .ok { m with start := some st } := by
  simp [tagStep, lineStep, dispatch_start, sliceFrom_prefix, h, bind, Except.bind, Except.map, pure, Except.pure]

theorem tagStep_media (m : Multivariant) {x : Str} {r : Rendition} (h : Rendition.unmarshal x = .ok r) :
    tagStep m (tagMedia ++ x) = .ok { m with renditions := m.renditions ++ [r] } := by
  simp [tagStep, lineStep, dispatch_media, sliceFrom_prefix, h, bind, Except.bind, Except.map, pure, Except.pure]

theorem variantStep_ok (m : Multivariant) {x l2 : Str} {v : Variant} (h : Variant.unmarshal (x ++ '\n' :: l2) = .ok v) :
    variantStep m (tagStreamInf ++ x) l2 = .ok { m with variants := m.variants ++ [v] } := by
  simp [variantStep, sliceFrom_prefix, h, bind, Except.bind, pure, Except.pure]

theorem isStreamInf_nil : isStreamInf [] = false := by simp [isStreamInf, dispatch_nil]
theorem isStreamInf_version (x : Str) : isStreamInf (tagVersion ++ x) = false := by simp [isStreamInf, dispatch_version]
theorem isStreamInf_indep (x : Str) : isStreamInf (tagIndependentSegments ++ x) = false := by simp [isStreamInf, dispatch_indep]
theorem isStreamInf_start (x : Str) : isStreamInf (tagStart ++ x) = false := by simp [isStreamInf, dispatch_start]
theorem isStreamInf_media (x : Str) : isStreamInf (tagMedia ++ x) = false := by simp [isStreamInf, dispatch_media]
theorem isStreamInf_streamInf (x : Str) : isStreamInf (tagStreamInf ++ x) = true := by simp [isStreamInf, dispatch_streamInf]

theorem runLines_cons_tag {m : Multivariant} {l : Str} (ls : List Str) (h : isStreamInf l = false) :
    runLines m (l :: ls) = (tagStep m l).bind (fun m' => runLines m' ls) := by
  cases ls with
  | nil =>
    simp only [runLines, h, Bool.false_eq_true, if_false]
    cases tagStep m l <;> simp [Except.bind, runLines]
  | cons l2 ls' => simp [runLines, h]

theorem runLines_cons_variant {m : Multivariant} {l : Str} (l2 : Str) (ls : List Str) (h : isStreamInf l = true) :
    runLines m (l :: l2 :: ls) = (variantStep m l l2).bind (fun m' => runLines m' ls) := by
  simp [runLines, h]


/-! ## Texts as lists of lines -/

/-- a line without line-break characters -/
def CleanLine (l : Str) : Prop := '\n' ∉ l ∧ '\r' ∉ l

theorem unlines_nil : unlines [] = [] := rfl

theorem unlines_cons (l : Str) (ls : List Str) : unlines (l :: ls) = l ++ '\n' :: unlines ls := by
  simp [unlines]

theorem unlines_append (as bs : List Str) : unlines (as ++ bs) = unlines as ++ unlines bs := by
  simp [unlines]

theorem CleanLine.getLast {l : Str} (h : CleanLine l) : l.getLast? ≠ some '\r' :=
  fun e => h.2 (List.mem_of_getLast? e)

theorem textLines_ne_nil {s : Str} (h : s ≠ []) :
    textLines s = (readLineSpec s).1 :: textLines (readLineSpec s).2 := by
  cases s with
  | nil => exact absurd rfl h
  | cons c cs => exact textLines_cons c cs

theorem textLines_unlines {ls : List Str} (h : ∀ l ∈ ls, CleanLine l) : textLines (unlines ls) = ls := by
  induction ls with
  | nil => simp [unlines_nil, textLines_nil]
  | cons l r ih =>
    have hl := h l (by simp)
    rw [unlines_cons, textLines_ne_nil (by simp), readLineSpec_line _ hl.1 hl.getLast]
    simp only
    rw [ih (fun x hx => h x (by simp [hx]))]


theorem renditions_flatten (rs : List Rendition) :
    (rs.map Rendition.marshal).flatten = unlines (rs.map (fun r => tagMedia ++ renderAttrs (renditionAttrs r))) := by
  induction rs with
  | nil => rfl
  | cons r rs ih =>
    simp only [List.map_cons, List.flatten_cons, unlines_cons, ih, Rendition.marshal_eq]
    simp

theorem variants_flatten (vs : List Variant) :
    (vs.map Variant.marshal).flatten =
      unlines (vs.map (fun v => [tagStreamInf ++ renderAttrs (variantAttrs v), v.uri])).flatten := by
  induction vs with
  | nil => rfl
  | cons v vs ih =>
    simp only [List.map_cons, List.flatten_cons, unlines_append, unlines_cons, unlines_nil, ih, Variant.marshal_eq]
    simp

/-- `Multivariant.Marshal` writes exactly the lines `marshalLines`, each terminated by LF. -/
theorem Multivariant.marshal_eq_unlines (p : Multivariant) : p.marshal = unlines (marshalLines p) := by
  unfold Multivariant.marshal marshalLines
  simp only [unlines_append, unlines_cons, unlines_nil, renditions_flatten, variants_flatten]
  cases p.independentSegments <;> cases p.start <;> by_cases hr : p.renditions.length = 0 <;>
    simp [hr, unlines_cons, unlines_nil, Start.marshal_eq, headerLit, tagVersion, tagIndependentSegments]


/-! ## The lines of a marshalled well-formed playlist contain no line-break characters -/

theorem renditionAttrs_free {r : Rendition} (h : WFRendition r) {c : Char}
    (hk : ∀ k ∈ renditionKeys, c ∉ k) (ht : ∀ t ∈ renditionTypes, c ∉ t) (hy : c ∉ yes)
    (hs : ∀ s : Str, QuotedOK s → c ∉ s) : AllAttrs (AttrFree c) (renditionAttrs r) := by
  obtain ⟨htm, ⟨_, hg⟩, ⟨_, hn⟩, hl, hc, hu, hi, _⟩ := h
  unfold renditionAttrs
  refine AllAttrs_append (AllAttrs_append (AllAttrs_append (AllAttrs_append (AllAttrs_append (AllAttrs_append
    (AllAttrs_append (AllAttrs_append ?_ ?_) ?_) ?_) ?_) ?_) ?_) ?_) ?_
  · exact AllAttrs_cons ⟨hk _ (by simp [renditionKeys]), ht _ htm⟩
      (AllAttrs_cons ⟨hk _ (by simp [renditionKeys]), hs _ hg⟩ AllAttrs_nil)
  · exact AllAttrs_optAttr (fun _ => ⟨hk _ (by simp [renditionKeys]), hs _ hl⟩)
  · exact AllAttrs_optAttr (fun _ => ⟨hk _ (by simp [renditionKeys]), hs _ hn⟩)
  · exact AllAttrs_optAttr (fun _ => ⟨hk _ (by simp [renditionKeys]), hy⟩)
  · exact AllAttrs_optAttr (fun _ => ⟨hk _ (by simp [renditionKeys]), hy⟩)
  · exact AllAttrs_optAttr (fun _ => ⟨hk _ (by simp [renditionKeys]), hy⟩)
  · exact AllAttrs_optAttrO (OptAll_imp hc (fun x hx => ⟨hk _ (by simp [renditionKeys]), hs _ hx⟩))
  · exact AllAttrs_optAttrO (OptAll_imp hu (fun x hx => ⟨hk _ (by simp [renditionKeys]), hs _ hx⟩))
  · exact AllAttrs_optAttrO (OptAll_imp hi (fun x hx => ⟨hk _ (by simp [renditionKeys]), hs _ hx⟩))

instance (l : Str) : Decidable (CleanLine l) := by unfold CleanLine; exact inferInstance

theorem clean_append {a b : Str} (ha : CleanLine a) (hb : CleanLine b) : CleanLine (a ++ b) := by
  unfold CleanLine at *
  simp only [List.mem_append, not_or]
  exact ⟨⟨ha.1, hb.1⟩, ⟨ha.2, hb.2⟩⟩

theorem clean_rendition_line {r : Rendition} (h : WFRendition r) :
    CleanLine (tagMedia ++ renderAttrs (renditionAttrs r)) := by
  refine clean_append (by decide) ⟨?_, ?_⟩
  · exact not_mem_renderAttrs (by decide) (by decide) (by decide)
      (renditionAttrs_free h (by decide) (by decide) (by decide) (fun s hs => hs.2.1))
  · exact not_mem_renderAttrs (by decide) (by decide) (by decide)
      (renditionAttrs_free h (by decide) (by decide) (by decide) (fun s hs => hs.2.2))

theorem clean_variant_line {v : Variant} (h : WFVariant v) :
    CleanLine (tagStreamInf ++ renderAttrs (variantAttrs v)) :=
  clean_append (by decide) ⟨variantAttrs_no_nl h, variantAttrs_no_cr h⟩

theorem clean_uri {v : Variant} (h : WFVariant v) : CleanLine v.uri := ⟨h.2.2.2.2.1.2.2.1, h.2.2.2.2.1.2.2.2⟩

theorem clean_version_line {v : Int} (h : 0 ≤ v) : CleanLine (tagVersion ++ formatInt v) := by
  refine clean_append (by decide) ?_
  rw [formatInt_nonneg h]
  exact ⟨not_mem_natToDigits (by decide), not_mem_natToDigits (by decide)⟩

theorem clean_start_line (t : Start) : CleanLine (tagStart ++ renderAttrs (startAttrs t)) := by
  have hfree : ∀ c : Char, isDigit c = false → c ∉ floatTextChars → c ∉ kTimeOffset →
      AllAttrs (AttrFree c) (startAttrs t) := by
    intro c h1 h2 h4
    unfold startAttrs
    refine AllAttrs_cons ⟨h4, ?_⟩ AllAttrs_nil
    simp only [AttrVal.raw]
    exact not_mem_durFmt5 h1 h2
  refine clean_append (by decide) ⟨?_, ?_⟩
  · exact not_mem_renderAttrs (by decide) (by decide) (by decide) (hfree _ (by decide) (by decide) (by decide))
  · exact not_mem_renderAttrs (by decide) (by decide) (by decide) (hfree _ (by decide) (by decide) (by decide))

def AllClean (ls : List Str) : Prop := ∀ l ∈ ls, CleanLine l

theorem AllClean_append {as bs : List Str} (ha : AllClean as) (hb : AllClean bs) : AllClean (as ++ bs) := by
  intro l h
  rcases List.mem_append.mp h with h | h
  · exact ha l h
  · exact hb l h

theorem AllClean_nil : AllClean [] := by intro l h; cases h

theorem AllClean_cons {l : Str} {ls : List Str} (h : CleanLine l) (hs : AllClean ls) : AllClean (l :: ls) := by
  intro x hx
  rcases List.mem_cons.mp hx with hx | hx
  · subst hx; exact h
  · exact hs x hx

theorem AllClean_map {α} {xs : List α} {f : α → Str} (h : ∀ x ∈ xs, CleanLine (f x)) : AllClean (xs.map f) := by
  intro l hl
  obtain ⟨x, hx, rfl⟩ := List.mem_map.mp hl
  exact h x hx

theorem AllClean_flatMap2 {α} {xs : List α} {f g : α → Str} (h : ∀ x ∈ xs, CleanLine (f x) ∧ CleanLine (g x)) :
    AllClean (xs.map (fun x => [f x, g x])).flatten := by
  induction xs with
  | nil => exact AllClean_nil
  | cons x r ih =>
    simp only [List.map_cons, List.flatten_cons]
    have hx := h x (by simp)
    exact AllClean_append (AllClean_cons hx.1 (AllClean_cons hx.2 AllClean_nil)) (ih (fun y hy => h y (by simp [hy])))

theorem clean_marshalLines {p : Multivariant} (h : WFMultivariant p) :
    AllClean (marshalLines p) := by
  obtain ⟨⟨hv0, hv1⟩, hst, hne, hvs, hrs⟩ := h
  unfold marshalLines
  refine AllClean_append (AllClean_append (AllClean_append (AllClean_append (AllClean_append ?_ ?_) ?_) ?_) ?_) ?_
  · exact AllClean_cons (by decide) (AllClean_cons (clean_version_line hv0) AllClean_nil)
  · split
    · exact AllClean_cons (by decide) AllClean_nil
    · exact AllClean_nil
  · split
    · rename_i st hs
      rw [hs] at hst
      exact AllClean_cons (clean_start_line st) AllClean_nil
    · exact AllClean_nil
  · split
    · exact AllClean_cons (by decide) (AllClean_map (fun r hr => clean_rendition_line (hrs r hr)))
    · exact AllClean_nil
  · exact AllClean_cons (by decide) AllClean_nil
  · exact AllClean_flatMap2 (fun v hv => ⟨clean_variant_line (hvs v hv), clean_uri (hvs v hv)⟩)


/-! ## The round trip -/

theorem runLines_variants (vs : List Variant) (h : ∀ v ∈ vs, WFVariant v)
    (hfl : ∀ v ∈ vs, OptAll v.frameRate FrFloatOK) (m : Multivariant) :
    runLines m (vs.map (fun v => [tagStreamInf ++ renderAttrs (variantAttrs v), v.uri])).flatten =
      .ok { m with variants := m.variants ++ vs } := by
  induction vs generalizing m with
  | nil => simp [runLines]
  | cons v r ih =>
    simp only [List.map_cons, List.flatten_cons, List.cons_append, List.nil_append]
    rw [runLines_cons_variant _ _ (isStreamInf_streamInf _),
      variantStep_ok m (Variant.unmarshal_render (h v (by simp)) (hfl v (by simp)))]
    simp only [Except.bind]
    rw [ih (fun x hx => h x (by simp [hx])) (fun x hx => hfl x (by simp [hx]))]
    simp

theorem runLines_renditions (rs : List Rendition) (h : ∀ r ∈ rs, WFRendition r) (m : Multivariant) (rest : List Str) :
    runLines m (rs.map (fun r => tagMedia ++ renderAttrs (renditionAttrs r)) ++ rest) =
      runLines { m with renditions := m.renditions ++ rs } rest := by
  induction rs generalizing m with
  | nil => simp
  | cons r rs ih =>
    simp only [List.map_cons, List.cons_append]
    rw [runLines_cons_tag _ (isStreamInf_media _), tagStep_media m (Rendition.unmarshal_render (h r (by simp)))]
    simp only [Except.bind]
    rw [ih (fun x hx => h x (by simp [hx]))]
    simp

theorem skipHeader_marshal (p : Multivariant) :
    skipHeader p.marshal = .ok (unlines (marshalLines p).tail) := by
  rw [Multivariant.marshal_eq_unlines]
  unfold marshalLines
  simp only [List.cons_append, List.tail_cons, unlines_cons]
  unfold skipHeader
  rw [readLine_eq, readLineSpec_line _ (by decide) (by decide)]
  simp [bind, Except.bind, pure, Except.pure]

/-- `Unmarshal (Marshal p)` for a well-formed `p`: every field comes back; the only change is the
    EXT-X-START offset, rounded to the text resolution. -/
theorem unmarshal_marshal {p : Multivariant} (h : WFMultivariant p) (hfl : FloatOK p) :
    ∃ st' : Option Start, Multivariant.unmarshal p.marshal = .ok { p with start := st' } ∧ StartQuant p.start st' ∧
      (Option.map Start.marshal st' = Option.map Start.marshal p.start) := by
  have hclean := clean_marshalLines h
  obtain ⟨⟨hv0, hv1⟩, hst, hne, hvs, hrs⟩ := h
  obtain ⟨hfs, hfv⟩ := hfl
  obtain ⟨version, indep, start, variants, renditions⟩ := p
  simp only at hv0 hv1 hst hne hvs hrs hfs hfv
  have htail : ∀ l ∈ (marshalLines ⟨version, indep, start, variants, renditions⟩).tail, CleanLine l :=
    fun l hl => hclean l (List.mem_of_mem_tail hl)
  unfold Multivariant.unmarshal
  rw [skipHeader_marshal]
  simp only [bind, Except.bind]
  rw [unmarshalLoop_eq_runLines _ _ _ (Nat.le_refl _), textLines_unlines htail]
  -- the rendition block and everything after it
  have hblock : ∀ m : Multivariant,
      runLines m ((if renditions.length ≠ 0 then
          [] :: renditions.map (fun r => tagMedia ++ renderAttrs (renditionAttrs r)) else []) ++
        ([] :: (variants.map (fun v => [tagStreamInf ++ renderAttrs (variantAttrs v), v.uri])).flatten)) =
      .ok { m with renditions := m.renditions ++ renditions, variants := m.variants ++ variants } := by
    intro m
    have hv := fun m' => runLines_variants variants hvs hfv m'
    by_cases hr : renditions.length = 0
    · have : renditions = [] := List.length_eq_zero_iff.mp hr
      subst this
      simp only [List.length_nil, ne_eq, not_true_eq_false, if_false, List.nil_append, List.cons_append]
      rw [runLines_cons_tag _ isStreamInf_nil, tagStep_nil]
      simp only [Except.bind]
      rw [hv]; simp
    · simp only [ne_eq, hr, not_false_eq_true, if_true, List.cons_append, List.nil_append]
      rw [runLines_cons_tag _ isStreamInf_nil, tagStep_nil]
      simp only [Except.bind]
      rw [runLines_renditions _ hrs, runLines_cons_tag _ isStreamInf_nil, tagStep_nil]
      simp only [Except.bind]
      rw [hv]
  unfold marshalLines
  simp only [List.cons_append, List.nil_append, List.tail_cons, List.append_assoc]
  rw [runLines_cons_tag _ (isStreamInf_version _), tagStep_version _ hv0 hv1]
  simp only [Except.bind]
  cases start with
  | none =>
    refine ⟨none, ?_, trivial, rfl⟩
    cases indep
    · simp only [Bool.false_eq_true, if_false, List.nil_append]
      rw [hblock]; simp [hne, pure, Except.pure]
    · simp only [if_true, List.cons_append, List.nil_append]
      rw [runLines_cons_tag _ (by simpa using isStreamInf_indep []), tagStep_indep]
      simp only [Except.bind]
      rw [hblock]; simp [hne, pure, Except.pure]
  | some st =>
    obtain ⟨q, d', hun, hq, hd, hd0, hfmt, hfix⟩ := Start.unmarshal_render hst hfs
    refine ⟨some { timeOffset := d' }, ?_, ⟨q, hq, hd⟩, ?_⟩
    · cases indep
      · simp only [Bool.false_eq_true, if_false, List.nil_append, List.cons_append]
        rw [runLines_cons_tag _ (isStreamInf_start _), tagStep_start _ hun]
        simp only [Except.bind]
        rw [hblock]; simp [hne, pure, Except.pure]
      · simp only [if_true, List.cons_append, List.nil_append]
        rw [runLines_cons_tag _ (by simpa using isStreamInf_indep []), tagStep_indep]
        simp only [Except.bind]
        rw [runLines_cons_tag _ (isStreamInf_start _), tagStep_start _ hun]
        simp only [Except.bind]
        rw [hblock]; simp [hne, pure, Except.pure]
    · -- Marshal is a fixpoint: the decoded offset prints as the same text
      simp only [Option.map, Start.marshal]
      rw [hfix, hfmt]


/-! ## Panic freedom (C15) -/

/-- `r` is not the panic outcome -/
def NP {α} (r : Res α) : Prop := r ≠ .error .panic

theorem NP_ok {α} (a : α) : NP (.ok a : Res α) := by simp [NP]

theorem NP_bind {α β} {x : Res α} {f : α → Res β} (hx : NP x) (hf : ∀ a, x = .ok a → NP (f a)) : NP (x >>= f) := by
  cases x with
  | error e => simpa [NP, bind, Except.bind] using hx
  | ok a => simpa [bind, Except.bind] using hf a rfl

theorem NP_of_err {α} {x : Res α} (h : ∀ e, x = .error e → e ≠ .panic) : NP x := by
  intro hx; exact h _ hx rfl

theorem NP_parseAttrs (v : Str) : NP (parseAttrs v) := parseAttrs_noPanic v

theorem NP_parseUint (b : Nat) (s : Str) : NP (parseUint b s) :=
  NP_of_err (fun e he => by rw [parseUint_err he]; simp)

theorem NP_parseFloat (s : Str) : NP (parseFloat s) :=
  NP_of_err (fun e he => by rw [parseFloat_err he]; simp)

theorem NP_durUnmarshal (s : Str) : NP (durUnmarshal s) :=
  NP_of_err (fun e he => by rw [durUnmarshal_err he]; simp)

theorem NP_start (v : Str) : NP (Start.unmarshal v) := by
  unfold Start.unmarshal
  refine NP_bind (NP_parseAttrs v) (fun attrs _ => ?_)
  refine NP_bind ?_ (fun off _ => ?_)
  · split
    · exact NP_durUnmarshal _
    · exact NP_ok _
  · split
    · simp [NP]
    · exact NP_ok _

theorem NP_rendition (v : Str) : NP (Rendition.unmarshal v) := by
  unfold Rendition.unmarshal
  refine NP_bind (NP_parseAttrs v) (fun attrs _ => ?_)
  refine NP_bind ?_ (fun type _ => ?_)
  · split
    · split
      · exact NP_ok _
      · simp [NP]
    · exact NP_ok _
  · simp only
    repeat' split
    all_goals first | exact NP_ok _ | simp [NP]

theorem idx_zero_splitByte (c : Char) (v : Str) : ∃ l, idx (splitByte c v) 0 = .ok l := by
  cases h : splitByte c v with
  | nil => exact absurd h (splitByte_ne_nil c v)
  | cons l ls => exact ⟨l, by simp [idx]⟩

theorem idx_one_splitByte (c : Char) (a b : Str) : ∃ l, idx (splitByte c (a ++ c :: b)) 1 = .ok l := by
  have := splitByte_length_ge_two c a b
  cases h : splitByte c (a ++ c :: b) with
  | nil => rw [h] at this; simp at this
  | cons l ls =>
    cases ls with
    | nil => rw [h] at this; simp at this
    | cons l2 ls' => exact ⟨l2, by simp [idx]⟩

theorem NP_emptyOrComment (l : Str) : NP (emptyOrComment l) := by
  unfold emptyOrComment
  cases l with
  | nil => simp [NP, pure, Except.pure]
  | cons c cs => simp [NP, byteAt, bind, Except.bind, pure, Except.pure]

/-- `lines[1]` exists because the caller joined two lines with "\n" -/
theorem NP_variant (a b : Str) : NP (Variant.unmarshal (a ++ '\n' :: b)) := by
  unfold Variant.unmarshal
  obtain ⟨l0, h0⟩ := idx_zero_splitByte '\n' (a ++ '\n' :: b)
  obtain ⟨l1, h1⟩ := idx_one_splitByte '\n' a b
  simp only [h0, h1]
  refine NP_bind (NP_ok _) (fun _ _ => ?_)
  refine NP_bind (NP_parseAttrs _) (fun attrs _ => ?_)
  refine NP_bind ?_ (fun bw _ => ?_)
  · split
    · exact NP_bind (NP_parseUint _ _) (fun _ _ => NP_ok _)
    · exact NP_ok _
  refine NP_bind ?_ (fun ab _ => ?_)
  · split
    · exact NP_bind (NP_parseUint _ _) (fun _ _ => NP_ok _)
    · exact NP_ok _
  refine NP_bind ?_ (fun fr _ => ?_)
  · split
    · exact NP_bind (NP_parseFloat _) (fun _ _ => NP_ok _)
    · exact NP_ok _
  refine NP_bind (NP_ok _) (fun _ _ => ?_)
  refine NP_bind (NP_emptyOrComment _) (fun bad _ => ?_)
  split
  · simp [NP]
  · exact NP_ok _

theorem wrapIn_ne_panic {ctx : String} {e : Err} (h : e ≠ .panic) : e.wrapIn ctx ≠ .panic := by
  cases e <;> simp_all [Err.wrapIn]

theorem NP_sliceFrom_prefix {p l : Str} (h : hasPrefix p l = true) : ∃ x, sliceFrom l p.length = .ok x := by
  have := hasPrefix_length h
  exact ⟨l.drop p.length, by simp [sliceFrom, this]⟩

theorem NP_variantStep (m : Multivariant) {l : Str} (l2 : Str) (h : isStreamInf l = true) : NP (variantStep m l l2) := by
  unfold isStreamInf at h
  split at h
  · rename_i p hd
    have hp := dispatch_streamInf_prefix hd
    subst hp
    obtain ⟨x, hx⟩ := NP_sliceFrom_prefix (dispatch_some hd).2
    unfold variantStep
    rw [hx]
    simp only [bind, Except.bind]
    have := NP_variant x l2
    cases hv : Variant.unmarshal (x ++ '\n' :: l2) with
    | error e =>
      simp only
      intro he
      have hne : e ≠ .panic := by intro e'; apply this; rw [hv, e']
      exact wrapIn_ne_panic hne (Except.error.inj he)
    | ok v => exact NP_ok _
  · cases h

theorem NP_tagStep (m : Multivariant) {l : Str} (h : isStreamInf l = false) : NP (tagStep m l) := by
  unfold tagStep lineStep
  cases hd : dispatch l with
  | none => simp [NP, Except.map]
  | some pt =>
    obtain ⟨p, t⟩ := pt
    obtain ⟨x, hx⟩ := NP_sliceFrom_prefix (dispatch_some hd).2
    cases t with
    | streamInf => simp [isStreamInf, hd] at h
    | independentSegments => simp [NP, Except.map]
    | version =>
      simp only [hx, bind, Except.bind]
      cases hp : parseUint 31 x with
      | error e => rw [parseUint_err hp]; simp [NP, Except.map]
      | ok n =>
        simp only
        split <;> simp [NP, Except.map, pure, Except.pure]
    | start =>
      simp only [hx, bind, Except.bind]
      have := NP_start x
      cases hs : Start.unmarshal x with
      | error e =>
        simp only [Except.map]
        intro he
        have hne : e ≠ .panic := by intro e'; apply this; rw [hs, e']
        exact hne (Except.error.inj he)
      | ok st => simp [NP, Except.map, pure, Except.pure]
    | media =>
      simp only [hx, bind, Except.bind]
      have := NP_rendition x
      cases hs : Rendition.unmarshal x with
      | error e =>
        simp only [Except.map]
        intro he
        have hne : e ≠ .panic := by intro e'; apply this; rw [hs, e']
        exact wrapIn_ne_panic hne (Except.error.inj he)
      | ok r => simp [NP, Except.map, pure, Except.pure]

theorem NP_runLines (n : Nat) : ∀ (m : Multivariant) (ls : List Str), ls.length ≤ n → NP (runLines m ls) := by
  induction n with
  | zero =>
    intro m ls h
    have : ls = [] := by cases ls with | nil => rfl | cons _ _ => simp at h
    subst this; exact NP_ok _
  | succ n ih =>
    intro m ls h
    match ls with
    | [] => exact NP_ok _
    | [l] =>
      simp only [runLines]
      split
      · rename_i hs; exact NP_variantStep m [] hs
      · rename_i hs; exact NP_tagStep m (by simpa using hs)
    | l :: l2 :: ls' =>
      simp only [runLines]
      split
      · rename_i hs
        have := NP_variantStep m l2 hs
        cases hv : variantStep m l l2 with
        | error e => simp only [Except.bind]; rw [hv] at this; exact this
        | ok m' => simp only [Except.bind]; exact ih m' ls' (by simp at h; omega)
      · rename_i hs
        have := NP_tagStep m (l := l) (by simpa using hs)
        cases hv : tagStep m l with
        | error e => simp only [Except.bind]; rw [hv] at this; exact this
        | ok m' => simp only [Except.bind]; exact ih m' (l2 :: ls') (by simp at h ⊢; omega)

/-- `Multivariant.Unmarshal` never panics, whatever the input. -/
theorem unmarshal_noPanic (s : Str) : Multivariant.unmarshal s ≠ .error .panic := by
  unfold Multivariant.unmarshal skipHeader
  rw [readLine_eq]
  simp only [bind, Except.bind]
  split
  · rename_i e he
    split at he
    · cases he; simp
    · cases he
  · rename_i s' hs
    rw [unmarshalLoop_eq_runLines _ _ _ (Nat.le_refl _)]
    have := NP_runLines _ {} (textLines s') (Nat.le_refl _)
    cases hr : runLines {} (textLines s') with
    | error e => simp only; rw [hr] at this; exact this
    | ok m =>
      simp only
      split <;> simp [pure, Except.pure]


/-! ## Structure of successfully decoded values (C15) -/

theorem bind_eq_ok {α β} {x : Res α} {f : α → Res β} {b : β} (h : (x >>= f) = .ok b) :
    ∃ a, x = .ok a ∧ f a = .ok b := by
  cases x with
  | error e => simp [bind, Except.bind] at h
  | ok a => exact ⟨a, rfl, by simpa [bind, Except.bind] using h⟩

theorem Start.unmarshal_ok {v : Str} {t : Start} (h : Start.unmarshal v = .ok t) : t.timeOffset ≠ 0 := by
  unfold Start.unmarshal at h
  obtain ⟨attrs, _, h⟩ := bind_eq_ok h
  obtain ⟨off, _, h⟩ := bind_eq_ok h
  split at h
  · cases h
  · rename_i hne
    simp [pure, Except.pure] at h
    rw [← h]; exact hne

theorem emptyOrComment_false {l : Str} (h : emptyOrComment l = .ok false) : l ≠ [] ∧ l.head? ≠ some '#' := by
  cases l with
  | nil => simp [emptyOrComment, pure, Except.pure] at h
  | cons c cs =>
    simp [emptyOrComment, byteAt, bind, Except.bind, pure, Except.pure] at h
    simp [h]

theorem Variant.unmarshal_ok {va : Str} {v : Variant} (h : Variant.unmarshal va = .ok v) :
    v.uri ≠ [] ∧ v.uri.head? ≠ some '#' := by
  unfold Variant.unmarshal at h
  obtain ⟨l0, _, h⟩ := bind_eq_ok h
  obtain ⟨attrs, _, h⟩ := bind_eq_ok h
  obtain ⟨bw, _, h⟩ := bind_eq_ok h
  obtain ⟨ab, _, h⟩ := bind_eq_ok h
  obtain ⟨fr, _, h⟩ := bind_eq_ok h
  obtain ⟨l1, _, h⟩ := bind_eq_ok h
  obtain ⟨bad, hbad, h⟩ := bind_eq_ok h
  cases bad with
  | true => simp at h
  | false =>
    simp [pure, Except.pure] at h
    rw [← h]
    exact emptyOrComment_false hbad

/-- the validation rules of `MultivariantRendition.unmarshal` -/
def RenditionOK (r : Rendition) : Prop :=
  r.type ∈ renditionTypes ∧ r.groupID ≠ [] ∧
  (r.type = typeClosedCaptions → r.uri = none ∧ r.inStreamID ≠ none) ∧
  (r.type = typeSubtitles → r.uri ≠ none) ∧
  (r.type ≠ typeClosedCaptions → r.inStreamID = none) ∧
  (r.channels ≠ none → r.type = typeAudio)

theorem Rendition.unmarshal_ok {x : Str} {r : Rendition} (h : Rendition.unmarshal x = .ok r) : RenditionOK r := by
  unfold Rendition.unmarshal at h
  obtain ⟨attrs, _, h⟩ := bind_eq_ok h
  obtain ⟨type, htype, h⟩ := bind_eq_ok h
  simp only at h
  split at h
  · cases h
  rename_i hne
  split at h
  · cases h
  rename_i hg
  split at h
  · cases h
  rename_i h1
  split at h
  · cases h
  rename_i h2
  split at h
  · cases h
  rename_i h3
  split at h
  · cases h
  rename_i h4
  split at h
  · cases h
  rename_i h5
  simp [pure, Except.pure] at h
  have hmem : type ∈ renditionTypes := by
    split at htype
    · split at htype
      · rename_i hc; simp [pure, Except.pure] at htype; rw [← htype]; simpa using hc
      · cases htype
    · simp [pure, Except.pure] at htype; exact absurd (htype.symm) (by intro e; exact hne e.symm)
  rw [← h]
  refine ⟨hmem, hg, ?_, ?_, ?_, ?_⟩
  · intro hcc
    have hcc' : type = typeClosedCaptions := hcc
    constructor
    · show attrs.get kURI = none
      cases hu : attrs.get kURI with
      | none => rfl
      | some u => exact absurd ⟨hcc', by simp [hu]⟩ h1
    · show attrs.get kInstreamID ≠ none
      intro hi
      exact h3 ⟨hcc', by simp [hi]⟩
  · intro hs
    have hs' : type = typeSubtitles := hs
    show attrs.get kURI ≠ none
    intro hu
    exact h2 ⟨hs', by simp [hu]⟩
  · intro hncc
    have hncc' : type ≠ typeClosedCaptions := hncc
    show attrs.get kInstreamID = none
    cases hi : attrs.get kInstreamID with
    | none => rfl
    | some i => exact absurd ⟨hncc', by simp [hi]⟩ h4
  · intro hc
    have hc' : attrs.get kChannels ≠ none := hc
    show type = typeAudio
    cases hch : attrs.get kChannels with
    | none => exact absurd hch hc'
    | some c =>
      by_cases ha : type = typeAudio
      · exact ha
      · exact absurd ⟨by simp [hch], ha⟩ h5


/-- what every value built by the decoder loop satisfies -/
def GoodM (m : Multivariant) : Prop :=
  (0 ≤ m.version ∧ m.version ≤ 10) ∧ OptAll m.start (fun t => t.timeOffset ≠ 0) ∧
  (∀ v ∈ m.variants, v.uri ≠ [] ∧ v.uri.head? ≠ some '#') ∧ (∀ r ∈ m.renditions, RenditionOK r)

theorem GoodM_empty : GoodM {} := by
  refine ⟨by decide, trivial, ?_, ?_⟩ <;> intro x hx <;> cases hx

theorem map_eq_ok {α β} {x : Res α} {f : α → β} {b : β} (h : x.map f = .ok b) : ∃ a, x = .ok a ∧ f a = b := by
  cases x with
  | error e => simp [Except.map] at h
  | ok a => exact ⟨a, rfl, by simpa [Except.map] using h⟩

theorem GoodM_tagStep {m m' : Multivariant} {l : Str} (hg : GoodM m) (h : tagStep m l = .ok m') : GoodM m' := by
  obtain ⟨hv, hs, hvs, hrs⟩ := hg
  unfold tagStep at h
  obtain ⟨pr, hls, hm'⟩ := map_eq_ok h
  subst hm'
  unfold lineStep at hls
  cases hd : dispatch l with
  | none => rw [hd] at hls; cases hls; exact ⟨hv, hs, hvs, hrs⟩
  | some pt =>
    obtain ⟨p, t⟩ := pt
    rw [hd] at hls
    cases t with
    | independentSegments => cases hls; exact ⟨hv, hs, hvs, hrs⟩
    | version =>
      simp only at hls
      obtain ⟨x, _, hls⟩ := bind_eq_ok hls
      obtain ⟨n, _, hls⟩ := bind_eq_ok hls
      split at hls
      · cases hls
      · rename_i hle
        simp [pure, Except.pure] at hls
        rw [← hls]
        refine ⟨?_, hs, hvs, hrs⟩
        simp only [maxSupportedVersion] at hle
        simp only
        omega
    | start =>
      simp only at hls
      obtain ⟨x, _, hls⟩ := bind_eq_ok hls
      obtain ⟨st, hst, hls⟩ := bind_eq_ok hls
      simp [pure, Except.pure] at hls
      rw [← hls]
      exact ⟨hv, Start.unmarshal_ok hst, hvs, hrs⟩
    | streamInf =>
      simp only at hls
      obtain ⟨x, _, hls⟩ := bind_eq_ok hls
      obtain ⟨pr2, _, hls⟩ := bind_eq_ok hls
      split at hls
      · cases hls
      · rename_i v hvok
        simp [pure, Except.pure] at hls
        rw [← hls]
        refine ⟨hv, hs, ?_, hrs⟩
        intro y hy
        simp only [List.mem_append, List.mem_singleton] at hy
        rcases hy with hy | hy
        · exact hvs y hy
        · rw [hy]; exact Variant.unmarshal_ok hvok
    | media =>
      simp only at hls
      obtain ⟨x, _, hls⟩ := bind_eq_ok hls
      split at hls
      · cases hls
      · rename_i r hrok
        simp [pure, Except.pure] at hls
        rw [← hls]
        refine ⟨hv, hs, hvs, ?_⟩
        intro y hy
        simp only [List.mem_append, List.mem_singleton] at hy
        rcases hy with hy | hy
        · exact hrs y hy
        · rw [hy]; exact Rendition.unmarshal_ok hrok

theorem GoodM_variantStep {m m' : Multivariant} {l l2 : Str} (hg : GoodM m) (h : variantStep m l l2 = .ok m') :
    GoodM m' ∧ m'.variants ≠ [] := by
  obtain ⟨hv, hs, hvs, hrs⟩ := hg
  unfold variantStep at h
  obtain ⟨x, _, h⟩ := bind_eq_ok h
  split at h
  · cases h
  · rename_i v hvok
    simp [pure, Except.pure] at h
    rw [← h]
    refine ⟨⟨hv, hs, ?_, hrs⟩, by simp⟩
    intro y hy
    simp only [List.mem_append, List.mem_singleton] at hy
    rcases hy with hy | hy
    · exact hvs y hy
    · rw [hy]; exact Variant.unmarshal_ok hvok

theorem GoodM_runLines (n : Nat) : ∀ (m m' : Multivariant) (ls : List Str), ls.length ≤ n → GoodM m →
    runLines m ls = .ok m' → GoodM m' := by
  induction n with
  | zero =>
    intro m m' ls h hg hr
    have : ls = [] := by cases ls with | nil => rfl | cons _ _ => simp at h
    subst this; simp [runLines] at hr; rw [← hr]; exact hg
  | succ n ih =>
    intro m m' ls h hg hr
    match ls with
    | [] => simp [runLines] at hr; rw [← hr]; exact hg
    | [l] =>
      simp only [runLines] at hr
      split at hr
      · exact (GoodM_variantStep hg hr).1
      · exact GoodM_tagStep hg hr
    | l :: l2 :: ls' =>
      simp only [runLines] at hr
      split at hr
      · cases hv : variantStep m l l2 with
        | error e => rw [hv] at hr; simp [Except.bind] at hr
        | ok m1 =>
          rw [hv] at hr; simp only [Except.bind] at hr
          exact ih m1 m' ls' (by simp at h; omega) (GoodM_variantStep hg hv).1 hr
      · cases hv : tagStep m l with
        | error e => rw [hv] at hr; simp [Except.bind] at hr
        | ok m1 =>
          rw [hv] at hr; simp only [Except.bind] at hr
          exact ih m1 m' (l2 :: ls') (by simp at h ⊢; omega) (GoodM_tagStep hg hv) hr

/-- C15: what callers may rely on after a successful `Multivariant.Unmarshal`. -/
theorem unmarshal_ok_structure {s : Str} {p : Multivariant} (h : Multivariant.unmarshal s = .ok p) :
    p.variants ≠ [] ∧ GoodM p := by
  unfold Multivariant.unmarshal at h
  obtain ⟨s', _, h⟩ := bind_eq_ok h
  obtain ⟨m, hm, h⟩ := bind_eq_ok h
  split at h
  · cases h
  · rename_i hlen
    simp [pure, Except.pure] at h
    subst h
    rw [unmarshalLoop_eq_runLines _ _ _ (Nat.le_refl _)] at hm
    exact ⟨by intro e; apply hlen; simp [e], GoodM_runLines _ _ _ _ (Nat.le_refl _) GoodM_empty hm⟩


/-! ## findType -/

/-- the case of `findType`'s switch a newline-terminated line selects -/
def kindOfLine (l : Str) : Option Kind :=
  (findTypeTable.find? fun pk => hasPrefix pk.1 (l ++ ['\n'])).map (·.2)

theorem findType_no_newline {s : Str} (h : '\n' ∉ s) : findType s = .error .eof := by
  rw [findType]
  split
  · rfl
  · rename_i i hi
    rw [indexByte_none_of_not_mem h] at hi; cases hi

theorem findType_line {l : Str} (rest : Str) (h : '\n' ∉ l) :
    findType (l ++ '\n' :: rest) =
      match kindOfLine l with
      | some k => .ok k
      | none => findType rest := by
  rw [findType]
  have hi := indexByte_append_of_not_mem rest h
  split
  · rename_i hn; rw [hi] at hn; cases hn
  · rename_i i hi'
    rw [hi] at hi'
    have : i = l.length := (Option.some.inj hi').symm
    subst this
    have e1 : List.take (l.length + 1) (l ++ '\n' :: rest) = l ++ ['\n'] := by
      rw [show l ++ '\n' :: rest = (l ++ ['\n']) ++ rest by simp]
      rw [List.take_append_of_le_length (by simp)]
      exact List.take_of_length_le (by simp)
    have e2 : List.drop (l.length + 1) (l ++ '\n' :: rest) = rest := by
      rw [show l ++ '\n' :: rest = (l ++ ['\n']) ++ rest by simp]
      rw [List.drop_append_of_le_length (by simp)]
      rw [List.drop_of_length_le (by simp)]; rfl
    simp only [e1, e2, kindOfLine]
    cases List.find? (fun pk => hasPrefix pk.fst (l ++ ['\n'])) findTypeTable <;> simp

/-- The rule `findType` implements: the first newline-terminated line that starts with
    `#EXT-X-STREAM-INF:` or `#EXTINF:` decides. -/
theorem findType_first {pre : List Str} {l0 : Str} (rest : Str) {k : Kind}
    (hpre : ∀ l ∈ pre, '\n' ∉ l ∧ kindOfLine l = none) (h0 : '\n' ∉ l0) (hk : kindOfLine l0 = some k) :
    findType (unlines pre ++ (l0 ++ '\n' :: rest)) = .ok k := by
  induction pre with
  | nil => simp only [unlines_nil, List.nil_append]; rw [findType_line _ h0, hk]
  | cons l r ih =>
    have hl := hpre l (by simp)
    rw [unlines_cons, List.append_assoc, List.cons_append, findType_line _ hl.1, hl.2]
    exact ih (fun x hx => hpre x (by simp [hx]))

/-- … and without such a line the answer is `io.EOF`. -/
theorem findType_none {pre : List Str} {tail : Str}
    (hpre : ∀ l ∈ pre, '\n' ∉ l ∧ kindOfLine l = none) (ht : '\n' ∉ tail) :
    findType (unlines pre ++ tail) = .error .eof := by
  induction pre with
  | nil => simp only [unlines_nil, List.nil_append]; exact findType_no_newline ht
  | cons l r ih =>
    have hl := hpre l (by simp)
    rw [unlines_cons, List.append_assoc, List.cons_append, findType_line _ hl.1, hl.2]
    exact ih (fun x hx => hpre x (by simp [hx]))

theorem kindOfLine_nil : kindOfLine [] = none := by
  simp [kindOfLine, findTypeTable, hasPrefix, tagStreamInf, tagExtinf]
theorem kindOfLine_header : kindOfLine headerLit = none := by
  simp [kindOfLine, findTypeTable, hasPrefix, tagStreamInf, tagExtinf, headerLit]
theorem kindOfLine_version (x : Str) : kindOfLine (tagVersion ++ x) = none := by
  simp [kindOfLine, findTypeTable, hasPrefix, tagStreamInf, tagExtinf, tagVersion]
theorem kindOfLine_indep : kindOfLine tagIndependentSegments = none := by
  simp [kindOfLine, findTypeTable, hasPrefix, tagStreamInf, tagExtinf, tagIndependentSegments]
theorem kindOfLine_start (x : Str) : kindOfLine (tagStart ++ x) = none := by
  simp [kindOfLine, findTypeTable, hasPrefix, tagStreamInf, tagExtinf, tagStart]
theorem kindOfLine_media (x : Str) : kindOfLine (tagMedia ++ x) = none := by
  simp [kindOfLine, findTypeTable, hasPrefix, tagStreamInf, tagExtinf, tagMedia]
theorem kindOfLine_streamInf (x : Str) : kindOfLine (tagStreamInf ++ x) = some .multivariant := by
  simp [kindOfLine, findTypeTable, hasPrefix, tagStreamInf]


/-- the lines `Marshal` writes before the first EXT-X-STREAM-INF -/
def preambleLines (m : Multivariant) : List Str :=
  [headerLit, tagVersion ++ formatInt m.version]
  ++ (if m.independentSegments then [tagIndependentSegments] else [])
  ++ (match m.start with
      | some st => [tagStart ++ renderAttrs (startAttrs st)]
      | none => [])
  ++ (if m.renditions.length ≠ 0 then [] :: m.renditions.map (fun r => tagMedia ++ renderAttrs (renditionAttrs r)) else [])
  ++ [[]]

theorem marshalLines_eq (m : Multivariant) :
    marshalLines m = preambleLines m ++
      (m.variants.map (fun v => [tagStreamInf ++ renderAttrs (variantAttrs v), v.uri])).flatten := rfl

theorem preamble_no_kind (m : Multivariant) : ∀ l ∈ preambleLines m, kindOfLine l = none := by
  intro l hl
  unfold preambleLines at hl
  simp only [List.mem_append, List.mem_cons, List.mem_map] at hl
  rcases hl with (((hl | hl) | hl) | hl) | hl
  · rcases hl with hl | hl | hl
    · rw [hl]; exact kindOfLine_header
    · rw [hl]; exact kindOfLine_version _
    · cases hl
  · split at hl
    · simp at hl; rw [hl]; exact kindOfLine_indep
    · cases hl
  · split at hl
    · simp at hl; rw [hl]; exact kindOfLine_start _
    · cases hl
  · split at hl
    · simp only [List.mem_cons, List.mem_map] at hl
      rcases hl with hl | ⟨r, _, hl⟩
      · rw [hl]; exact kindOfLine_nil
      · rw [← hl]; exact kindOfLine_media _
    · cases hl
  · rcases hl with hl | hl
    · rw [hl]; exact kindOfLine_nil
    · cases hl

/-- C14 `kind`: `playlist.Unmarshal` recognises a marshalled multivariant playlist. -/
theorem findType_marshal {p : Multivariant} (h : WFMultivariant p) : findType p.marshal = .ok .multivariant := by
  have hclean := clean_marshalLines h
  obtain ⟨_, _, hne, hvs, _⟩ := h
  rw [Multivariant.marshal_eq_unlines, marshalLines_eq]
  rw [marshalLines_eq] at hclean
  cases hv : p.variants with
  | nil => exact absurd hv hne
  | cons v vs =>
    rw [hv] at hclean
    simp only [List.map_cons, List.flatten_cons, List.cons_append, List.nil_append, unlines_append, unlines_cons]
    have hvl : CleanLine (tagStreamInf ++ renderAttrs (variantAttrs v)) :=
      hclean _ (by simp)
    exact findType_first _
      (fun l hl => ⟨(hclean l (by simp [hl])).1, preamble_no_kind p l hl⟩) hvl.1 (kindOfLine_streamInf _)


/-! ## Syntactic variants: unknown lines -/

theorem isStreamInf_of_dispatch_none {u : Str} (h : dispatch u = none) : isStreamInf u = false := by
  simp [isStreamInf, h]

theorem tagStep_unknown (m : Multivariant) {u : Str} (h : dispatch u = none) : tagStep m u = .ok m := by
  simp [tagStep, lineStep, h, Except.map]

/-- Lines the decoder does not know are skipped, wherever they are inserted (except between an
    EXT-X-STREAM-INF line and its URI line). -/
theorem runLines_padUnknown {ls ls' : List Str} (h : PadUnknown ls ls') : ∀ m, runLines m ls' = runLines m ls := by
  induction h with
  | nil => intro m; rfl
  | unknown hu _ ih =>
    intro m
    rw [runLines_cons_tag _ (isStreamInf_of_dispatch_none hu), tagStep_unknown m hu]
    simp only [Except.bind]
    exact ih m
  | keep hl _ ih =>
    intro m
    rw [runLines_cons_tag _ hl, runLines_cons_tag _ hl]
    cases tagStep m _ with
    | error e => rfl
    | ok m' => simp only [Except.bind]; exact ih m'
  | keep2 hl _ ih =>
    intro m
    rw [runLines_cons_variant _ _ hl, runLines_cons_variant _ _ hl]
    cases variantStep m _ _ with
    | error e => rfl
    | ok m' => simp only [Except.bind]; exact ih m'
  | keepLast hl => intro m; rfl

/-! ## Syntactic variants: CRLF line ends -/

theorem toCRLF_of_no_nl {s : Str} (h : '\n' ∉ s) : toCRLF s = s := by
  induction s with
  | nil => rfl
  | cons c cs ih =>
    have hc : c ≠ '\n' := by intro e; apply h; simp [e]
    have hcs : '\n' ∉ cs := by intro e; apply h; simp [e]
    simp [toCRLF, hc, ih hcs]

theorem toCRLF_line {l : Str} (rest : Str) (h : '\n' ∉ l) :
    toCRLF (l ++ '\n' :: rest) = l ++ '\r' :: '\n' :: toCRLF rest := by
  induction l with
  | nil => simp [toCRLF]
  | cons c cs ih =>
    have hc : c ≠ '\n' := by intro e; apply h; simp [e]
    have hcs : '\n' ∉ cs := by intro e; apply h; simp [e]
    simp [toCRLF, hc, ih hcs]

/-- every text is an unterminated line, or a first line followed by LF and the rest -/
theorem line_decomp (s : Str) : '\n' ∉ s ∨ ∃ l rest, s = l ++ '\n' :: rest ∧ '\n' ∉ l := by
  cases h : indexByte '\n' s with
  | none => exact Or.inl (indexByte_none_spec h)
  | some i => exact Or.inr ⟨_, _, (indexByte_some_spec h).1, (indexByte_some_spec h).2⟩

theorem readLineSpec_toCRLF {s : Str} (h : '\r' ∉ s) :
    readLineSpec (toCRLF s) = ((readLineSpec s).1, toCRLF (readLineSpec s).2) := by
  rcases line_decomp s with hn | ⟨l, rest, hs, hl⟩
  · rw [toCRLF_of_no_nl hn, readLineSpec_last hn]; rfl
  · subst hs
    have hlr : '\r' ∉ l := fun e => h (by simp [e])
    rw [toCRLF_line _ hl, readLineSpec_crlf _ hl,
      readLineSpec_line _ hl (fun e => hlr (List.mem_of_getLast? e))]

theorem toCRLF_eq_nil {s : Str} : toCRLF s = [] ↔ s = [] := by
  cases s with
  | nil => simp [toCRLF]
  | cons c cs => simp only [toCRLF]; split <;> simp

theorem textLines_toCRLF (n : Nat) : ∀ s : Str, s.length ≤ n → '\r' ∉ s → textLines (toCRLF s) = textLines s := by
  induction n with
  | zero =>
    intro s hs _
    have : s = [] := by cases s with | nil => rfl | cons _ _ => simp at hs
    subst this; rfl
  | succ n ih =>
    intro s hs hr
    cases hs0 : s with
    | nil => rfl
    | cons c cs =>
      have hne : s ≠ [] := by rw [hs0]; simp
      have hne' : toCRLF s ≠ [] := fun e => hne (toCRLF_eq_nil.mp e)
      rw [← hs0, textLines_ne_nil hne', textLines_ne_nil hne, readLineSpec_toCRLF hr]
      simp only
      have hlt := readLineSpec_snd_lt hne
      have hsub : '\r' ∉ (readLineSpec s).2 := by
        rcases line_decomp s with hn | ⟨l, rest, hs', hl⟩
        · rw [readLineSpec_last hn]; simp
        · rw [hs']
          have hr' := hr
          rw [hs'] at hr'
          have hlr : '\r' ∉ l := fun e => hr' (by simp [e])
          rw [readLineSpec_line _ hl (fun e => hlr (List.mem_of_getLast? e))]
          exact fun e => hr' (by simp [e])
      rw [ih _ (by omega) hsub]

/-- `Multivariant.Unmarshal` in terms of the line view -/
def postCheck (m : Multivariant) : Res Multivariant :=
  if m.variants.length = 0 then .error (.cls "novariants") else .ok m

theorem unmarshal_eq_lines (s : Str) :
    Multivariant.unmarshal s =
      if (readLineSpec s).1 ≠ headerLit then .error .hdr
      else (runLines {} (textLines (readLineSpec s).2)).bind postCheck := by
  unfold Multivariant.unmarshal skipHeader
  rw [readLine_eq]
  simp only [bind, Except.bind, pure, Except.pure]
  by_cases hh : (readLineSpec s).1 ≠ headerLit
  · simp [hh]
  · simp only [hh, if_false]
    rw [unmarshalLoop_eq_runLines _ _ _ (Nat.le_refl _)]
    cases runLines {} (textLines (readLineSpec s).2) <;> simp [postCheck]

theorem no_cr_rest {s : Str} (h : '\r' ∉ s) : '\r' ∉ (readLineSpec s).2 := by
  rcases line_decomp s with hn | ⟨l, rest, hs', hl⟩
  · rw [readLineSpec_last hn]; simp
  · subst hs'
    have hlr : '\r' ∉ l := fun e => h (by simp [e])
    rw [readLineSpec_line _ hl (fun e => hlr (List.mem_of_getLast? e))]
    exact fun e => h (by simp [e])

/-- CRLF line ends decode to the same value (or the same error). -/
theorem unmarshal_toCRLF {s : Str} (h : '\r' ∉ s) : Multivariant.unmarshal (toCRLF s) = Multivariant.unmarshal s := by
  rw [unmarshal_eq_lines, unmarshal_eq_lines, readLineSpec_toCRLF h]
  simp only
  rw [textLines_toCRLF _ _ (Nat.le_refl _) (no_cr_rest h)]

/-- Unknown lines after the header line decode to the same value (or the same error). -/
theorem unmarshal_padUnknown {s s' : Str} (hh : (readLineSpec s').1 = (readLineSpec s).1)
    (hp : PadUnknown (textLines (readLineSpec s).2) (textLines (readLineSpec s').2)) :
    Multivariant.unmarshal s' = Multivariant.unmarshal s := by
  rw [unmarshal_eq_lines, unmarshal_eq_lines, hh, runLines_padUnknown hp]


/-! ## Syntactic variants: missing trailing newline -/

theorem bind_ok_id {α} (x : Res α) : x.bind (fun a => .ok a) = x := by cases x <;> rfl

theorem runLines_snoc_blank (n : Nat) : ∀ (m : Multivariant) (ls : List Str), ls.length ≤ n →
    runLines m (ls ++ [[]]) = runLines m ls := by
  induction n with
  | zero =>
    intro m ls h
    have : ls = [] := by cases ls with | nil => rfl | cons _ _ => simp at h
    subst this
    simp [runLines, isStreamInf_nil, tagStep_nil]
  | succ n ih =>
    intro m ls h
    match ls with
    | [] => simp [runLines, isStreamInf_nil, tagStep_nil]
    | [l] =>
      simp only [List.cons_append, List.nil_append, runLines]
      split
      · exact bind_ok_id _
      · simp only [isStreamInf_nil, Bool.false_eq_true, if_false, tagStep_nil]
        exact bind_ok_id _
    | l :: l2 :: ls' =>
      simp only [List.cons_append, runLines]
      split
      · cases variantStep m l l2 with
        | error e => rfl
        | ok m' => simp only [Except.bind]; exact ih m' ls' (by simp at h; omega)
      · cases tagStep m l with
        | error e => rfl
        | ok m' =>
          simp only [Except.bind]
          have := ih m' (l2 :: ls') (by simp at h ⊢; omega)
          simpa using this

theorem textLines_snoc_nl (n : Nat) : ∀ s : Str, s.length ≤ n → '\r' ∉ s →
    textLines (s ++ ['\n']) = textLines s ∨ textLines (s ++ ['\n']) = textLines s ++ [[]] := by
  induction n with
  | zero =>
    intro s hs _
    have : s = [] := by cases s with | nil => rfl | cons _ _ => simp at hs
    subst this
    right
    rw [List.nil_append, textLines_ne_nil (by simp), textLines_nil]
    simp [readLineSpec, indexByte, textLines_nil]
  | succ n ih =>
    intro s hs hr
    by_cases hs0 : s = []
    · subst hs0
      right
      rw [List.nil_append, textLines_ne_nil (by simp), textLines_nil]
      simp [readLineSpec, indexByte, textLines_nil]
    · rcases line_decomp s with hn | ⟨l, rest, hs', hl⟩
      · left
        have hlast : s.getLast? ≠ some '\r' := fun e => hr (List.mem_of_getLast? e)
        rw [textLines_ne_nil (by simp), textLines_ne_nil hs0]
        have := readLineSpec_line [] hn hlast
        rw [this, readLineSpec_last hn]
      · subst hs'
        have hlr : '\r' ∉ l := fun e => hr (by simp [e])
        have hrr : '\r' ∉ rest := fun e => hr (by simp [e])
        have hlast : l.getLast? ≠ some '\r' := fun e => hlr (List.mem_of_getLast? e)
        have e1 : (l ++ '\n' :: rest) ++ ['\n'] = l ++ '\n' :: (rest ++ ['\n']) := by simp
        rw [e1, textLines_ne_nil (by simp), textLines_ne_nil (s := l ++ '\n' :: rest) (by simp),
          readLineSpec_line _ hl hlast, readLineSpec_line _ hl hlast]
        simp only
        rcases ih rest (by simp at hs; omega) hrr with h | h
        · left; rw [h]
        · right; rw [h]; simp

theorem readLineSpec_snoc_nl {s : Str} (hr : '\r' ∉ s) :
    (readLineSpec (s ++ ['\n'])).1 = (readLineSpec s).1 ∧
      ((readLineSpec (s ++ ['\n'])).2 = (readLineSpec s).2 ∨
       (readLineSpec (s ++ ['\n'])).2 = (readLineSpec s).2 ++ ['\n']) := by
  rcases line_decomp s with hn | ⟨l, rest, hs', hl⟩
  · have hlast : s.getLast? ≠ some '\r' := fun e => hr (List.mem_of_getLast? e)
    rw [readLineSpec_line [] hn hlast, readLineSpec_last hn]
    exact ⟨rfl, Or.inl rfl⟩
  · subst hs'
    have hlr : '\r' ∉ l := fun e => hr (by simp [e])
    have hlast : l.getLast? ≠ some '\r' := fun e => hlr (List.mem_of_getLast? e)
    have e1 : (l ++ '\n' :: rest) ++ ['\n'] = l ++ '\n' :: (rest ++ ['\n']) := by simp
    rw [e1, readLineSpec_line _ hl hlast, readLineSpec_line _ hl hlast]
    exact ⟨rfl, Or.inr rfl⟩

/-- A missing (or an extra) trailing newline decodes to the same value (or the same error). -/
theorem unmarshal_snoc_nl {s : Str} (hr : '\r' ∉ s) :
    Multivariant.unmarshal (s ++ ['\n']) = Multivariant.unmarshal s := by
  rw [unmarshal_eq_lines, unmarshal_eq_lines]
  obtain ⟨h1, h2⟩ := readLineSpec_snoc_nl hr
  rw [h1]
  rcases h2 with h2 | h2
  · rw [h2]
  · rw [h2]
    rcases textLines_snoc_nl _ _ (Nat.le_refl _) (no_cr_rest hr) with h | h
    · rw [h]
    · rw [h, runLines_snoc_blank _ _ _ (Nat.le_refl _)]


/-! ## Syntactic variants: attribute order, unknown attributes -/

/-- each tag's decoder looks at its own keys only -/
theorem Rendition.unmarshal_congr {x y : Str} {m1 m2 : AttrMap} (h1 : parseAttrs x = .ok m1) (h2 : parseAttrs y = .ok m2)
    (h : ∀ k ∈ renditionKeys, m1.get k = m2.get k) : Rendition.unmarshal x = Rendition.unmarshal y := by
  unfold Rendition.unmarshal
  rw [h1, h2]
  simp only [bind, Except.bind]
  rw [h kType (by simp [renditionKeys]), h kGroupID (by simp [renditionKeys]), h kLanguage (by simp [renditionKeys]),
    h kName (by simp [renditionKeys]), h kDefault (by simp [renditionKeys]), h kAutoselect (by simp [renditionKeys]),
    h kForced (by simp [renditionKeys]), h kChannels (by simp [renditionKeys]), h kURI (by simp [renditionKeys]),
    h kInstreamID (by simp [renditionKeys])]

theorem Start.unmarshal_congr {x y : Str} {m1 m2 : AttrMap} (h1 : parseAttrs x = .ok m1) (h2 : parseAttrs y = .ok m2)
    (h : ∀ k ∈ startKeys, m1.get k = m2.get k) : Start.unmarshal x = Start.unmarshal y := by
  unfold Start.unmarshal
  rw [h1, h2]
  simp only [bind, Except.bind]
  rw [h kTimeOffset (by simp [startKeys])]

theorem Variant.unmarshal_congr {x y u : Str} {m1 m2 : AttrMap} (hx : '\n' ∉ x) (hy : '\n' ∉ y)
    (h1 : parseAttrs x = .ok m1) (h2 : parseAttrs y = .ok m2)
    (h : ∀ k ∈ variantKeys, m1.get k = m2.get k) :
    Variant.unmarshal (x ++ '\n' :: u) = Variant.unmarshal (y ++ '\n' :: u) := by
  unfold Variant.unmarshal
  rw [splitByte_append _ hx, splitByte_append _ hy]
  simp only [idx, List.getElem?_cons_zero, List.getElem?_cons_succ, bind, Except.bind]
  rw [h1, h2]
  simp only
  rw [h kBandwidth (by simp [variantKeys]), h kAverageBandwidth (by simp [variantKeys]), h kCodecs (by simp [variantKeys]),
    h kResolution (by simp [variantKeys]), h kFrameRate (by simp [variantKeys]), h kVideo (by simp [variantKeys]),
    h kAudio (by simp [variantKeys]), h kSubtitles (by simp [variantKeys]), h kClosedCaptions (by simp [variantKeys])]

/-- reordering the attributes and adding attributes with other keys does not change what a key maps to -/
theorem lastVal_perm_unknown {as bs us : List Attr} {keys : List Str} (hp : bs.Perm (as ++ us))
    (hn : (bs.map (·.1)).Nodup) (hu : ∀ u ∈ us, u.1 ∉ keys) {k : Str} (hk : k ∈ keys) :
    lastVal k bs = lastVal k as := by
  have h1 : lastVal k bs = lastVal k (as ++ us) := by
    rw [← get_toMap, ← get_toMap]; exact toMap_perm hp hn k
  have h2 : lastVal k us = none := by
    apply lastVal_not_mem
    intro hm
    obtain ⟨u, hu', hk'⟩ := List.mem_map.mp hm
    exact hu u hu' (by rw [hk']; exact hk)
  rw [h1, lastVal_append, h2]; rfl

/-- EXT-X-MEDIA decodes to the same value whatever the order of its attributes and whatever
    unknown attributes are added. -/
theorem Rendition.unmarshal_attr_variant {as bs us : List Attr} (ha : WFAttrs as) (hb : WFAttrs bs)
    (hp : bs.Perm (as ++ us)) (hn : (bs.map (·.1)).Nodup) (hu : ∀ u ∈ us, u.1 ∉ renditionKeys) :
    Rendition.unmarshal (renderAttrs bs) = Rendition.unmarshal (renderAttrs as) :=
  Rendition.unmarshal_congr (parseAttrs_render _ hb) (parseAttrs_render _ ha)
    (fun k hk => by rw [get_toMap, get_toMap]; exact lastVal_perm_unknown hp hn hu hk)

theorem Start.unmarshal_attr_variant {as bs us : List Attr} (ha : WFAttrs as) (hb : WFAttrs bs)
    (hp : bs.Perm (as ++ us)) (hn : (bs.map (·.1)).Nodup) (hu : ∀ u ∈ us, u.1 ∉ startKeys) :
    Start.unmarshal (renderAttrs bs) = Start.unmarshal (renderAttrs as) :=
  Start.unmarshal_congr (parseAttrs_render _ hb) (parseAttrs_render _ ha)
    (fun k hk => by rw [get_toMap, get_toMap]; exact lastVal_perm_unknown hp hn hu hk)

theorem Variant.unmarshal_attr_variant {as bs us : List Attr} {uri : Str} (ha : WFAttrs as) (hb : WFAttrs bs)
    (hax : '\n' ∉ renderAttrs as) (hbx : '\n' ∉ renderAttrs bs)
    (hp : bs.Perm (as ++ us)) (hn : (bs.map (·.1)).Nodup) (hu : ∀ u ∈ us, u.1 ∉ variantKeys) :
    Variant.unmarshal (renderAttrs bs ++ '\n' :: uri) = Variant.unmarshal (renderAttrs as ++ '\n' :: uri) :=
  Variant.unmarshal_congr hbx hax (parseAttrs_render _ hb) (parseAttrs_render _ ha)
    (fun k hk => by rw [get_toMap, get_toMap]; exact lastVal_perm_unknown hp hn hu hk)


theorem findType_err (n : Nat) : ∀ (s : Str), s.length ≤ n → ∀ e, findType s = .error e → e = .eof := by
  induction n with
  | zero =>
    intro s hs e h
    have : s = [] := by cases s with | nil => rfl | cons _ _ => simp at hs
    subst this
    rw [findType_no_newline (by simp)] at h
    cases h; rfl
  | succ n ih =>
    intro s hs e h
    rcases line_decomp s with hn | ⟨l, rest, hs', hl⟩
    · rw [findType_no_newline hn] at h; cases h; rfl
    · subst hs'
      rw [findType_line _ hl] at h
      split at h
      · cases h
      · exact ih rest (by simp at hs; omega) e h

/-! ## From the float envelope to `FloatOK` -/

theorem FloatOK_of_envelope (env : FloatEnvelope) (env3 : FloatEnvelope3) {p : Multivariant} (h : WFMultivariant p) :
    FloatOK p := by
  obtain ⟨_, hst, _, hvs, _⟩ := h
  constructor
  · exact OptAll_imp hst (fun t ht => DurFloatOK_of_envelope env ht)
  · intro v hv
    exact OptAll_imp (hvs v hv).2.2.2.2.2.2.1 (fun f hf => FrFloatOK_of_envelope env3 hf)

/-- FRAME-RATE needs no envelope: `FormatFloat(f,'f',3)` prints `round(f·1000)/1000` by definition,
    and `ParseFloat` of that text is by definition the binary64 nearest to it — which a well-formed
    frame rate is. -/
theorem FrFloatOK_of_WF {f : F64} (h : WFFrameRate f) : FrFloatOK f := by
  unfold WFFrameRate at h
  cases f with
  | nan => simp [F64.toMilli] at h
  | inf n => simp [F64.toMilli] at h
  | fin n m e =>
    cases n with
    | true => simp [F64.toMilli] at h
    | false =>
      simp only [F64.toMilli] at h
      obtain ⟨hk, hf⟩ := h
      generalize hkdef : (if 2 * (F64.magNum m e * 1000 % F64.magDen e) > F64.magDen e ∨
          2 * (F64.magNum m e * 1000 % F64.magDen e) = F64.magDen e ∧ F64.magNum m e * 1000 / F64.magDen e % 2 = 1
          then F64.magNum m e * 1000 / F64.magDen e + 1 else F64.magNum m e * 1000 / F64.magDen e) = k at hk hf
      have hfmt : F64.fmtFixed 3 (.fin false m e) = F64.decFixed 3 k := by
        unfold F64.fmtFixed
        simp only [Bool.false_eq_true, if_false, List.nil_append]
        rw [← hkdef]
      unfold FrFloatOK
      rw [hfmt, parseFloat_decFixed (by decide) (by decide)]
      have hr : F64.roundRat false k (10 ^ 3) = .fin false m e := by
        rw [hf]; rfl
      rw [hr]

theorem FloatOK_of_start {p : Multivariant} (h : WFMultivariant p)
    (hs : OptAll p.start (fun t => DurFloatOK t.timeOffset)) : FloatOK p := by
  refine ⟨hs, ?_⟩
  intro v hv
  exact OptAll_imp (h.2.2.2.1 v hv).2.2.2.2.2.2.1 (fun f hf => FrFloatOK_of_WF hf)

theorem FloatOK_of_nofloat {p : Multivariant} (hs : p.start = none) (hv : ∀ v ∈ p.variants, v.frameRate = none) :
    FloatOK p := by
  constructor
  · rw [hs]; trivial
  · intro v h; rw [hv v h]; trivial

end Hls.Playlist
