import Hls.Playlist.Multi
import Hls.Playlist.PrimLemmas
import Hls.Playlist.Grammar
/-
  Specification-level vocabulary for the multivariant playlist theorems (C14 / C15):
    * the attribute list each `marshal` emits (`startAttrs`, `variantAttrs`, `renditionAttrs`),
    * the line view of a text (`textLines`) and the line-level reading of the decoder (`runLines`),
    * the documented field requirements as explicit decidable predicates (`WFMultivariant`),
    * the quantisation relation of the round trip (`StartQuant`),
    * syntactic variants of a text (`toCRLF`, `PadUnknown`).
  Nothing here is used by the driver; everything here is used in theorem statements.
-/
set_option linter.unusedVariables false

namespace Hls.Playlist

/-! ## What each marshal emits, as an attribute list -/

def optAttr (b : Bool) (a : Attr) : List Attr := if b then [a] else []

def optAttrO {α} (o : Option α) (f : α → Attr) : List Attr :=
  match o with
  | some x => [f x]
  | none => []

def startAttrs (t : Start) : List Attr := [(kTimeOffset, .unquoted (durFmt5 t.timeOffset))]

def variantAttrs (v : Variant) : List Attr :=
  [(kBandwidth, .unquoted (formatInt v.bandwidth))]
  ++ optAttrO v.averageBandwidth (fun a => (kAverageBandwidth, .unquoted (formatInt a)))
  ++ [(kCodecs, .quoted (joinByte ',' v.codecs))]
  ++ optAttr (v.resolution ≠ []) (kResolution, .unquoted v.resolution)
  ++ optAttrO v.frameRate (fun f => (kFrameRate, .unquoted (F64.fmtFixed 3 f)))
  ++ optAttr (v.video ≠ []) (kVideo, .quoted v.video)
  ++ optAttr (v.audio ≠ []) (kAudio, .quoted v.audio)
  ++ optAttr (v.subtitles ≠ []) (kSubtitles, .quoted v.subtitles)
  ++ optAttr (v.closedCaptions ≠ []) (kClosedCaptions, .quoted v.closedCaptions)

def renditionAttrs (r : Rendition) : List Attr :=
  [(kType, .unquoted r.type), (kGroupID, .quoted r.groupID)]
  ++ optAttr (r.language ≠ []) (kLanguage, .quoted r.language)
  ++ optAttr (r.name ≠ []) (kName, .quoted r.name)
  ++ optAttr r.autoselect (kAutoselect, .unquoted yes)
  ++ optAttr r.default (kDefault, .unquoted yes)
  ++ optAttr r.forced (kForced, .unquoted yes)
  ++ optAttrO r.channels (fun c => (kChannels, .quoted c))
  ++ optAttrO r.uri (fun u => (kURI, .quoted u))
  ++ optAttrO r.inStreamID (fun i => (kInstreamID, .quoted i))

/-! ## Lines -/

/-- `ls` joined with a newline after every line -/
def unlines (ls : List Str) : Str := (ls.map (· ++ ['\n'])).flatten

theorem readLineSpec_snd_lt {s : Str} (h : s ≠ []) : (readLineSpec s).2.length < s.length := by
  unfold readLineSpec
  cases hi : indexByte '\n' s with
  | none => simpa using List.length_pos_iff.mpr h
  | some i =>
    have := indexByte_lt hi
    simp; omega

/-- The lines of a text as the decoder loop sees them: repeated `ReadLine` until the input
    is empty (each newline-terminated line loses one trailing CR; an unterminated tail is the
    last line, unchanged). -/
def textLines (s : Str) : List Str :=
  match s with
  | [] => []
  | c :: cs => (readLineSpec (c :: cs)).1 :: textLines (readLineSpec (c :: cs)).2
termination_by s.length
decreasing_by exact readLineSpec_snd_lt (by simp)

/-- the lines `Multivariant.Marshal` writes -/
def marshalLines (m : Multivariant) : List Str :=
  [headerLit, tagVersion ++ formatInt m.version]
  ++ (if m.independentSegments then [tagIndependentSegments] else [])
  ++ (match m.start with
      | some st => [tagStart ++ renderAttrs (startAttrs st)]
      | none => [])
  ++ (if m.renditions.length ≠ 0 then [] :: m.renditions.map (fun r => tagMedia ++ renderAttrs (renditionAttrs r)) else [])
  ++ [[]]
  ++ (m.variants.map (fun v => [tagStreamInf ++ renderAttrs (variantAttrs v), v.uri])).flatten

/-! ## The decoder loop, read line by line -/

def isStreamInf (line : Str) : Bool :=
  match dispatch line with
  | some (_, .streamInf) => true
  | _ => false

/-- the EXT-X-STREAM-INF case of the `switch`, given the following line -/
def variantStep (m : Multivariant) (line line2 : Str) : Res Multivariant := do
  let l ← sliceFrom line tagStreamInf.length
  match Variant.unmarshal (l ++ '\n' :: line2) with
  | .error e => .error (e.wrapIn "variant")
  | .ok v => return { m with variants := m.variants ++ [v] }

/-- every other case of the `switch` (they do not touch the rest of the input) -/
def tagStep (m : Multivariant) (line : Str) : Res Multivariant :=
  (lineStep m line []).map (·.1)

/-- `Multivariant.Unmarshal`'s loop over a list of lines -/
def runLines : Multivariant → List Str → Res Multivariant
  | m, [] => .ok m
  | m, [l] => if isStreamInf l then variantStep m l [] else tagStep m l
  | m, l :: l2 :: ls =>
    if isStreamInf l then (variantStep m l l2).bind (fun m' => runLines m' ls)
    else (tagStep m l).bind (fun m' => runLines m' (l2 :: ls))

/-! ## The documented field requirements (DESIGN Appendix C), explicit and decidable -/

/-- `∀ x, o = some x → P x`, in a form `Decidable` can see through -/
def OptAll {α} (o : Option α) (P : α → Prop) : Prop :=
  match o with
  | some x => P x
  | none => True

instance {α} (o : Option α) (P : α → Prop) [∀ x, Decidable (P x)] : Decidable (OptAll o P) := by
  unfold OptAll; cases o <;> exact inferInstance

/-- a string that can be carried by a quoted-string -/
def QuotedOK (s : Str) : Prop := '"' ∉ s ∧ '\n' ∉ s ∧ '\r' ∉ s

instance (s : Str) : Decidable (QuotedOK s) := by unfold QuotedOK; exact inferInstance

/-- TIME-OFFSET is required (non-zero after rounding to the 10 µs of the text form) and within
    the range of the float envelope (one text unit below its 10^15 ns, so that the decoded
    value is inside the envelope too) -/
def WFStart (t : Start) : Prop := 5000 < t.timeOffset.natAbs ∧ t.timeOffset.natAbs ≤ 999999999990000

instance (t : Start) : Decidable (WFStart t) := by unfold WFStart; exact inferInstance

/-- a URI line: non-empty, not a comment / tag, one line -/
def WFUri (u : Str) : Prop := u ≠ [] ∧ u.head? ≠ some '#' ∧ '\n' ∉ u ∧ '\r' ∉ u

instance (u : Str) : Decidable (WFUri u) := by unfold WFUri; exact inferInstance

/-- round(f · 1000) for a finite non-negative `f` -/
def F64.toMilli : F64 → Option Nat
  | .fin false m e =>
    let num := F64.magNum m e * 1000
    let den := F64.magDen e
    let q := num / den
    let r := num % den
    some (if 2 * r > den ∨ (2 * r = den ∧ q % 2 = 1) then q + 1 else q)
  | _ => none

/-- FRAME-RATE is carried with 3 decimals: `f` is the binary64 nearest to `k/1000`, `k ≤ 10^12` -/
def WFFrameRate (f : F64) : Prop :=
  match F64.toMilli f with
  | some k => k ≤ 1000000000000 ∧ f = f64OfMilli k
  | none => False

instance (f : F64) : Decidable (WFFrameRate f) := by
  unfold WFFrameRate; cases F64.toMilli f <;> exact inferInstance

/-- an unquoted attribute value that is passed through verbatim (RESOLUTION) -/
def UnquotedOK (s : Str) : Prop := ',' ∉ s ∧ '\n' ∉ s ∧ '\r' ∉ s ∧ s.head? ≠ some '"'

instance (s : Str) : Decidable (UnquotedOK s) := by unfold UnquotedOK; exact inferInstance

def WFVariant (v : Variant) : Prop :=
  (0 ≤ v.bandwidth ∧ v.bandwidth < 2 ^ 31) ∧
  OptAll v.averageBandwidth (fun a => 0 ≤ a ∧ a < 2 ^ 31) ∧
  v.codecs ≠ [] ∧ (∀ c ∈ v.codecs, QuotedOK c ∧ ',' ∉ c) ∧
  WFUri v.uri ∧
  UnquotedOK v.resolution ∧
  OptAll v.frameRate WFFrameRate ∧
  QuotedOK v.video ∧ QuotedOK v.audio ∧ QuotedOK v.subtitles ∧ QuotedOK v.closedCaptions

instance (v : Variant) : Decidable (WFVariant v) := by unfold WFVariant; exact inferInstance

def WFRendition (r : Rendition) : Prop :=
  r.type ∈ renditionTypes ∧
  (r.groupID ≠ [] ∧ QuotedOK r.groupID) ∧
  (r.name ≠ [] ∧ QuotedOK r.name) ∧
  QuotedOK r.language ∧
  OptAll r.channels QuotedOK ∧ OptAll r.uri QuotedOK ∧ OptAll r.inStreamID QuotedOK ∧
  -- URI: forbidden for CLOSED-CAPTIONS, required for SUBTITLES
  (r.type = typeClosedCaptions → r.uri = none) ∧
  (r.type = typeSubtitles → r.uri ≠ none) ∧
  -- INSTREAM-ID iff CLOSED-CAPTIONS
  (r.type = typeClosedCaptions ↔ r.inStreamID ≠ none) ∧
  -- CHANNELS for AUDIO only
  (r.channels ≠ none → r.type = typeAudio)

instance (r : Rendition) : Decidable (WFRendition r) := by unfold WFRendition; exact inferInstance

def WFMultivariant (p : Multivariant) : Prop :=
  (0 ≤ p.version ∧ p.version ≤ 10) ∧
  OptAll p.start WFStart ∧
  p.variants ≠ [] ∧ (∀ v ∈ p.variants, WFVariant v) ∧
  (∀ r ∈ p.renditions, WFRendition r)

instance (p : Multivariant) : Decidable (WFMultivariant p) := by unfold WFMultivariant; exact inferInstance

/-! ## The float envelope, instantiated at the float fields of one value

  `FloatEnvelope` / `FloatEnvelope3` (Prim.lean) claim the following for EVERY duration / frame rate
  in range.  For one given value it is a finite computation on the soft float, hence decidable. -/

/-- `q` is a correct text quantum for the duration `d`, and the text decodes back within the envelope
    and prints as the same text again -/
def durFloatCheck (d q : Int) : Bool :=
  durFmt5 d == dec5 q && decide ((q * 10000 - d).natAbs ≤ 5000) &&
  (match durUnmarshal (dec5 q) with
   | .ok d' => decide ((d' - q * 10000).natAbs ≤ 1) && durFmt5 d' == dec5 q
   | .error _ => false)

/-- the envelope holds at the duration `d` (the two candidates are the neighbours of `d / 10 µs`) -/
def DurFloatOK (d : Int) : Prop :=
  durFloatCheck d (d / 10000) = true ∨ durFloatCheck d (d / 10000 + 1) = true

instance (d : Int) : Decidable (DurFloatOK d) := by unfold DurFloatOK; exact inferInstance

/-- the envelope holds at the frame rate `f`: its 3-decimal text parses back to `f` -/
def FrFloatOK (f : F64) : Prop :=
  match parseFloat (F64.fmtFixed 3 f) with
  | .ok g => g = f
  | .error _ => False

instance (f : F64) : Decidable (FrFloatOK f) := by
  unfold FrFloatOK; cases parseFloat (F64.fmtFixed 3 f) <;> exact inferInstance

def FloatOK (p : Multivariant) : Prop :=
  OptAll p.start (fun t => DurFloatOK t.timeOffset) ∧ ∀ v ∈ p.variants, OptAll v.frameRate FrFloatOK

instance (p : Multivariant) : Decidable (FloatOK p) := by unfold FloatOK; exact inferInstance

/-- the EXT-X-START part of `FloatOK` (the FRAME-RATE part is a theorem, `FrFloatOK_of_WF`) -/
def StartFloatOK (p : Multivariant) : Prop := OptAll p.start (fun t => DurFloatOK t.timeOffset)

instance (p : Multivariant) : Decidable (StartFloatOK p) := by unfold StartFloatOK; exact inferInstance

/-- attribute values the library passes through verbatim have the RFC's lexical class
    (RESOLUTION is a decimal-resolution) -/
def LexicalOK (p : Multivariant) : Prop :=
  ∀ v ∈ p.variants, v.resolution ≠ [] → Grammar.isResolution v.resolution = true

instance (p : Multivariant) : Decidable (LexicalOK p) := by unfold LexicalOK; exact inferInstance

/-! ## Quantisation of the round trip -/

/-- TIME-OFFSET comes back rounded to the 10 µs of the text form (either neighbour at an exact
    tie), give or take the 1 ns of `ParseFloat * 1e9` -/
def StartQuant (a b : Option Start) : Prop :=
  match a, b with
  | none, none => True
  | some x, some y => ∃ q : Int, IsQuant5 x.timeOffset q ∧ IsDecoded5 q y.timeOffset
  | _, _ => False

/-! ## Syntactic variants -/

/-- every LF becomes CR LF -/
def toCRLF : Str → Str
  | [] => []
  | c :: cs => if c = '\n' then '\r' :: '\n' :: toCRLF cs else c :: toCRLF cs

/-- `PadUnknown ls ls'`: `ls'` is `ls` with lines the decoder does not know (unknown tags,
    comments, blank lines) inserted anywhere except between an EXT-X-STREAM-INF line and its
    URI line. -/
inductive PadUnknown : List Str → List Str → Prop
  | nil : PadUnknown [] []
  | unknown {u : Str} {ls ls' : List Str} : dispatch u = none → PadUnknown ls ls' → PadUnknown ls (u :: ls')
  | keep {l : Str} {ls ls' : List Str} : isStreamInf l = false → PadUnknown ls ls' → PadUnknown (l :: ls) (l :: ls')
  | keep2 {l l2 : Str} {ls ls' : List Str} : isStreamInf l = true → PadUnknown ls ls' →
      PadUnknown (l :: l2 :: ls) (l :: l2 :: ls')
  | keepLast {l : Str} : isStreamInf l = true → PadUnknown [l] [l]

end Hls.Playlist
