import Hls.Playlist.PrimLemmas
/-!
  Numerical analysis of the soft float `F64` (Prim.lean): `roundRat` returns a value within half a
  unit in the last place of the exact quotient, small integers are exact, and from there the float
  envelope `FloatEnvelope` of durations (`durFmt5` / `durUnmarshal`).  Core Lean only; everything is
  integer arithmetic on the fixed-point view `sv f = |f| · 2^1100`.
-/
set_option linter.unusedVariables false
set_option linter.unusedSimpArgs false
set_option exponentiation.threshold 3000
set_option maxRecDepth 8000

namespace Hls.Playlist
namespace F64

/-- scale of the fixed-point view of a binary64: every finite value times `2^K` is a natural number -/
def K : Nat := 1100

/-- `|f| · 2^K` -/
def sv : F64 → Nat
  | .fin _ m e => m * 2 ^ (e + 1100).toNat
  | _ => 0

/-- rounding to nearest of `n'/d'` -/
theorem round_half (n' d' : Nat) (hd : 0 < d') :
    let q := n' / d'
    let r := n' % d'
    let q1 := if 2 * r > d' ∨ (2 * r = d' ∧ q % 2 = 1) then q + 1 else q
    2 * (q1 * d') ≤ 2 * n' + d' ∧ 2 * n' ≤ 2 * (q1 * d') + d' := by
  intro q r q1
  have hdm : d' * q + r = n' := Nat.div_add_mod n' d'
  have hr : r < d' := Nat.mod_lt _ hd
  have hc : q * d' = d' * q := Nat.mul_comm _ _
  by_cases h : 2 * r > d' ∨ (2 * r = d' ∧ q % 2 = 1)
  · have hq1 : q1 = q + 1 := by simp only [q1, h, if_true]
    rw [hq1, Nat.add_mul, Nat.one_mul, hc]
    constructor
    · rcases h with h | h <;> omega
    · omega
  · have hq1 : q1 = q := by simp only [q1, h, if_false]
    rw [hq1, hc]
    constructor
    · omega
    · have : ¬ (2 * r > d') := fun h' => h (Or.inl h')
      omega

/-! ### `roundRat` in a form that is convenient to reason about -/

/-- ⌊log₂(num/den)⌋ as `roundRat` computes it -/
def rrFl (num den : Nat) : Int :=
  let d : Int := (Nat.log2 num : Int) - (Nat.log2 den : Int)
  let ge : Bool := if d ≥ 0 then num ≥ den * 2 ^ d.toNat else num * 2 ^ (-d).toNat ≥ den
  if ge then d else d - 1

/-- the exponent of the result before renormalisation -/
def rrE (num den : Nat) : Int := max (rrFl num den - 52) minExp

/-- round half even of `n'/d'` -/
def rhe (n' d' : Nat) : Nat :=
  if 2 * (n' % d') > d' ∨ (2 * (n' % d') = d' ∧ n' / d' % 2 = 1) then n' / d' + 1 else n' / d'

theorem roundRat_eq (neg : Bool) {num den : Nat} (hn : num ≠ 0) (hd : den ≠ 0) :
    roundRat neg num den =
      if rhe (num * 2 ^ (-(rrE num den)).toNat) (den * 2 ^ (rrE num den).toNat) = 2 ^ 53 then
        (if rrE num den + 1 > maxExp then .inf neg else .fin neg (2 ^ 52) (rrE num den + 1))
      else (if rrE num den > maxExp then .inf neg
            else .fin neg (rhe (num * 2 ^ (-(rrE num den)).toNat) (den * 2 ^ (rrE num den).toNat)) (rrE num den)) := by
  unfold roundRat
  rw [if_neg (by simp [hn, hd])]
  extract_lets ln ld d ge fl e n' d' q r q1
  have he : e = rrE num den := rfl
  have hn' : n' = num * 2 ^ (-e).toNat := by
    by_cases h : e ≥ 0
    · have h1 : (-e).toNat = 0 := by omega
      simp only [n', h, if_true, h1, Nat.pow_zero, Nat.mul_one]
    · simp only [n', h, if_false]
  have hd' : d' = den * 2 ^ e.toNat := by
    by_cases h : e ≥ 0
    · simp only [d', h, if_true]
    · have h1 : e.toNat = 0 := by omega
      simp only [d', h, if_false, h1, Nat.pow_zero, Nat.mul_one]
  have hq1 : q1 = rhe (num * 2 ^ (-e).toNat) (den * 2 ^ e.toNat) := by
    simp only [q1, q, r, rhe, hn', hd']
  rw [← he, ← hq1]
  by_cases h53 : q1 = 2 ^ 53
  · simp only [h53, if_true]
  · simp only [h53, if_false]

theorem exp_lt_of_mul {a u v : Nat} (h : a * 2 ^ u < a * 2 ^ v) : u < v := by
  have := Nat.lt_of_mul_lt_mul_left h
  exact (Nat.pow_lt_pow_iff_right (by decide)).mp this

theorem two_pow_pos (n : Nat) : 0 < 2 ^ n := Nat.pos_of_ne_zero (by simp)

/-- `rrFl` is ⌊log₂(num/den)⌋: bounds from bounds on the quotient -/
theorem rrFl_bounds {num den s t : Nat} (hn : 0 < num) (hd : 0 < den)
    (hlow : den * 2 ^ s ≤ num * 2 ^ 1100) (hup : num * 2 ^ 1100 < den * 2 ^ t) :
    (s : Int) ≤ rrFl num den + 1100 ∧ rrFl num den + 1100 + 1 ≤ t := by
  unfold rrFl
  simp only
  have hln1 : 2 ^ num.log2 ≤ num := Nat.log2_self_le (by omega)
  have hln2 : num < 2 ^ (num.log2 + 1) := Nat.lt_log2_self
  have hld1 : 2 ^ den.log2 ≤ den := Nat.log2_self_le (by omega)
  have hld2 : den < 2 ^ (den.log2 + 1) := Nat.lt_log2_self
  generalize num.log2 = ln at *
  generalize den.log2 = ld at *
  -- (N1) s + ld ≤ ln + K
  have N1 : s + ld < ln + 1 + 1100 := by
    have h1 : 2 ^ ld * 2 ^ s ≤ den * 2 ^ s := Nat.mul_le_mul_right _ hld1
    have h2 : num * 2 ^ 1100 < 2 ^ (ln + 1) * 2 ^ 1100 := Nat.mul_lt_mul_of_lt_of_le hln2 (Nat.le_refl _) (two_pow_pos _)
    have h3 : 2 ^ ld * 2 ^ s < 2 ^ (ln + 1) * 2 ^ 1100 := Nat.lt_of_le_of_lt (Nat.le_trans h1 hlow) h2
    rw [← Nat.pow_add, ← Nat.pow_add] at h3
    have := (Nat.pow_lt_pow_iff_right (by decide)).mp h3
    omega
  -- (N2) ln + K ≤ t + ld
  have N2 : ln + 1100 < ld + 1 + t := by
    have h1 : 2 ^ ln * 2 ^ 1100 ≤ num * 2 ^ 1100 := Nat.mul_le_mul_right _ hln1
    have h2 : den * 2 ^ t < 2 ^ (ld + 1) * 2 ^ t := Nat.mul_lt_mul_of_lt_of_le hld2 (Nat.le_refl _) (two_pow_pos _)
    have h3 : 2 ^ ln * 2 ^ 1100 < 2 ^ (ld + 1) * 2 ^ t := Nat.lt_of_le_of_lt h1 (Nat.lt_trans hup h2)
    rw [← Nat.pow_add, ← Nat.pow_add] at h3
    have := (Nat.pow_lt_pow_iff_right (by decide)).mp h3
    omega
  by_cases hdge : (ln : Int) - (ld : Int) ≥ 0
  · -- ln ≥ ld
    have hle : ld ≤ ln := by omega
    have hdn : ((ln : Int) - (ld : Int)).toNat = ln - ld := by omega
    simp only [hdge, if_true, hdn]
    by_cases hge : num ≥ den * 2 ^ (ln - ld)
    · simp only [hge, decide_true, if_true]
      -- G1
      have h1 : den * 2 ^ (ln - ld) * 2 ^ 1100 ≤ num * 2 ^ 1100 := Nat.mul_le_mul_right _ hge
      have h2 : den * 2 ^ (ln - ld + 1100) < den * 2 ^ t := by
        rw [Nat.pow_add, ← Nat.mul_assoc]; exact Nat.lt_of_le_of_lt h1 hup
      have := exp_lt_of_mul h2
      omega
    · simp only [hge, decide_false, Bool.false_eq_true, if_false]
      have hlt : num < den * 2 ^ (ln - ld) := by omega
      have h1 : num * 2 ^ 1100 < den * 2 ^ (ln - ld) * 2 ^ 1100 :=
        Nat.mul_lt_mul_of_lt_of_le hlt (Nat.le_refl _) (two_pow_pos _)
      have h2 : den * 2 ^ s < den * 2 ^ (ln - ld + 1100) := by
        rw [Nat.pow_add, ← Nat.mul_assoc]; exact Nat.lt_of_le_of_lt hlow h1
      have := exp_lt_of_mul h2
      omega
  · have hlt : ln < ld := by omega
    have hdm : (-((ln : Int) - (ld : Int))).toNat = ld - ln := by omega
    simp only [hdge, if_false, hdm]
    by_cases hge : num * 2 ^ (ld - ln) ≥ den
    · simp only [hge, decide_true, if_true]
      -- num·2^K < den·2^t ≤ num·2^dm·2^t
      have h1 : den * 2 ^ t ≤ num * 2 ^ (ld - ln) * 2 ^ t := Nat.mul_le_mul_right _ hge
      have h2 : num * 2 ^ 1100 < num * 2 ^ (ld - ln + t) := by
        rw [Nat.pow_add, ← Nat.mul_assoc]; exact Nat.lt_of_lt_of_le hup h1
      have := exp_lt_of_mul h2
      omega
    · simp only [hge, decide_false, Bool.false_eq_true, if_false]
      have hlt2 : num * 2 ^ (ld - ln) < den := by omega
      have h1 : num * 2 ^ (ld - ln) * 2 ^ s < den * 2 ^ s :=
        Nat.mul_lt_mul_of_lt_of_le hlt2 (Nat.le_refl _) (two_pow_pos _)
      have h2 : num * 2 ^ (ld - ln + s) < num * 2 ^ 1100 := by
        rw [Nat.pow_add, ← Nat.mul_assoc]; exact Nat.lt_of_lt_of_le h1 hlow
      have := exp_lt_of_mul h2
      omega

theorem rhe_spec (n' d' : Nat) (hd : 0 < d') :
    2 * (rhe n' d' * d') ≤ 2 * n' + d' ∧ 2 * n' ≤ 2 * (rhe n' d' * d') + d' := round_half n' d' hd

/-- The value `roundRat` returns, in the fixed-point view: within half a unit of the last place of
    the exact quotient, for quotients in `[2^(s-K), 2^(t-K))` well inside the normal range. -/
theorem roundRat_spec (neg : Bool) {num den s t : Nat} (hn : 0 < num) (hd : 0 < den)
    (hlow : den * 2 ^ s ≤ num * 2 ^ 1100) (hup : num * 2 ^ 1100 < den * 2 ^ t) (hs : 78 ≤ s) (ht : t ≤ 2000) :
    ∃ (m : Nat) (e : Int), roundRat neg num den = .fin neg m e ∧ 0 ≤ e + 1100 ∧
      (s : Int) ≤ e + 1152 ∧ e + 1152 ≤ t ∧
      2 * (m * 2 ^ (e + 1100).toNat * den) ≤ 2 * (num * 2 ^ 1100) + den * 2 ^ (t - 53) ∧
      2 * (num * 2 ^ 1100) ≤ 2 * (m * 2 ^ (e + 1100).toNat * den) + den * 2 ^ (t - 53) := by
  obtain ⟨hfl1, hfl2⟩ := rrFl_bounds hn hd hlow hup
  have hE : rrE num den = rrFl num den - 52 := by
    unfold rrE minExp; omega
  rw [roundRat_eq neg (by omega) (by omega), hE]
  generalize hfl : rrFl num den = fl at *
  -- e := fl - 52
  have he0 : 0 ≤ fl - 52 + 1100 := by omega
  have hW : (fl - 52 + 1100).toNat ≤ t - 53 := by omega
  have hWle : 2 ^ (fl - 52 + 1100).toNat ≤ 2 ^ (t - 53) := Nat.pow_le_pow_right (by decide) hW
  have hd'pos : 0 < den * 2 ^ (fl - 52).toNat := Nat.mul_pos hd (two_pow_pos _)
  obtain ⟨hr1, hr2⟩ := rhe_spec (num * 2 ^ (-(fl - 52)).toNat) (den * 2 ^ (fl - 52).toNat) hd'pos
  generalize hq1 : rhe (num * 2 ^ (-(fl - 52)).toNat) (den * 2 ^ (fl - 52).toNat) = q1 at *
  -- the two inequalities for q1 * W
  have key : 2 * (q1 * 2 ^ (fl - 52 + 1100).toNat * den) ≤ 2 * (num * 2 ^ 1100) + den * 2 ^ (fl - 52 + 1100).toNat ∧
      2 * (num * 2 ^ 1100) ≤ 2 * (q1 * 2 ^ (fl - 52 + 1100).toNat * den) + den * 2 ^ (fl - 52 + 1100).toNat := by
    by_cases hpos : fl - 52 ≥ 0
    · -- P = 1, Q = 2^e, W = Q * 2^K
      have hP : (-(fl - 52)).toNat = 0 := by omega
      have hWQ : (fl - 52 + 1100).toNat = (fl - 52).toNat + 1100 := by omega
      rw [hP, Nat.pow_zero, Nat.mul_one] at hr1 hr2
      rw [hWQ, Nat.pow_add]
      generalize 2 ^ (fl - 52).toNat = Q at *
      generalize 2 ^ 1100 = T at *
      have a1 := Nat.mul_le_mul_right T hr1
      have a2 := Nat.mul_le_mul_right T hr2
      constructor
      · calc 2 * (q1 * (Q * T) * den) = 2 * (q1 * (den * Q)) * T := by ac_rfl
          _ ≤ (2 * num + den * Q) * T := a1
          _ = 2 * (num * T) + den * (Q * T) := by rw [Nat.add_mul]; ac_rfl
      · calc 2 * (num * T) = 2 * num * T := by ac_rfl
          _ ≤ (2 * (q1 * (den * Q)) + den * Q) * T := a2
          _ = 2 * (q1 * (Q * T) * den) + den * (Q * T) := by rw [Nat.add_mul]; ac_rfl
    · -- Q = 1, P = 2^(-e), P * W = 2^K
      have hQ : (fl - 52).toNat = 0 := by omega
      have hPW : (-(fl - 52)).toNat + (fl - 52 + 1100).toNat = 1100 := by omega
      rw [hQ, Nat.pow_zero, Nat.mul_one] at hr1 hr2
      have hT : 2 ^ 1100 = 2 ^ (-(fl - 52)).toNat * 2 ^ (fl - 52 + 1100).toNat := by rw [← Nat.pow_add, hPW]
      rw [hT]
      generalize 2 ^ (-(fl - 52)).toNat = P at *
      generalize 2 ^ (fl - 52 + 1100).toNat = W at *
      have a1 := Nat.mul_le_mul_right W hr1
      have a2 := Nat.mul_le_mul_right W hr2
      constructor
      · calc 2 * (q1 * W * den) = 2 * (q1 * den) * W := by ac_rfl
          _ ≤ (2 * (num * P) + den) * W := a1
          _ = 2 * (num * (P * W)) + den * W := by rw [Nat.add_mul]; ac_rfl
      · calc 2 * (num * (P * W)) = 2 * (num * P) * W := by ac_rfl
          _ ≤ (2 * (q1 * den) + den) * W := a2
          _ = 2 * (q1 * W * den) + den * W := by rw [Nat.add_mul]; ac_rfl
  have hden : den * 2 ^ (fl - 52 + 1100).toNat ≤ den * 2 ^ (t - 53) := Nat.mul_le_mul_left _ hWle
  by_cases h53 : q1 = 2 ^ 53
  · simp only [h53, if_true]
    have hmax : ¬ (fl - 52 + 1 > maxExp) := by unfold maxExp; omega
    rw [if_neg hmax]
    refine ⟨2 ^ 52, fl - 52 + 1, rfl, by omega, by omega, by omega, ?_, ?_⟩
    · have e1 : (fl - 52 + 1 + 1100).toNat = (fl - 52 + 1100).toNat + 1 := by omega
      have e2 : 2 ^ 52 * 2 ^ ((fl - 52 + 1100).toNat + 1) = q1 * 2 ^ (fl - 52 + 1100).toNat := by
        rw [h53, Nat.pow_succ]
        calc 2 ^ 52 * (2 ^ (fl - 52 + 1100).toNat * 2) = (2 ^ 52 * 2) * 2 ^ (fl - 52 + 1100).toNat := by ac_rfl
          _ = 2 ^ 53 * 2 ^ (fl - 52 + 1100).toNat := by rfl
      rw [e1, e2]; omega
    · have e1 : (fl - 52 + 1 + 1100).toNat = (fl - 52 + 1100).toNat + 1 := by omega
      have e2 : 2 ^ 52 * 2 ^ ((fl - 52 + 1100).toNat + 1) = q1 * 2 ^ (fl - 52 + 1100).toNat := by
        rw [h53, Nat.pow_succ]
        calc 2 ^ 52 * (2 ^ (fl - 52 + 1100).toNat * 2) = (2 ^ 52 * 2) * 2 ^ (fl - 52 + 1100).toNat := by ac_rfl
          _ = 2 ^ 53 * 2 ^ (fl - 52 + 1100).toNat := by rfl
      rw [e1, e2]; omega
  · simp only [h53, if_false]
    have hmax : ¬ (fl - 52 > maxExp) := by unfold maxExp; omega
    rw [if_neg hmax]
    exact ⟨q1, fl - 52, rfl, by omega, by omega, by omega, by omega, by omega⟩

end F64
namespace F64

theorem rhe_one (n : Nat) : rhe n 1 = n := by
  unfold rhe
  simp [Nat.mod_one]

/-- integers below 2^53 are exactly representable: `float64(n)` has the value `n` -/
theorem roundRat_int_exact (neg : Bool) {n : Nat} (h0 : 0 < n) (h53 : n < 2 ^ 53) :
    ∃ (m : Nat) (e : Int), roundRat neg n 1 = .fin neg m e ∧ 0 ≤ e + 1100 ∧ e ≤ 1 ∧
      m * 2 ^ (e + 1100).toNat = n * 2 ^ 1100 := by
  have hlow : 1 * 2 ^ 1100 ≤ n * 2 ^ 1100 := Nat.mul_le_mul_right _ h0
  have hup : n * 2 ^ 1100 < 1 * 2 ^ 1153 := by
    have : n * 2 ^ 1100 < 2 ^ 53 * 2 ^ 1100 := Nat.mul_lt_mul_of_lt_of_le h53 (Nat.le_refl _) (two_pow_pos _)
    rw [← Nat.pow_add] at this
    simpa using this
  obtain ⟨hfl1, hfl2⟩ := rrFl_bounds h0 (by decide) hlow hup
  have hE : rrE n 1 = rrFl n 1 - 52 := by unfold rrE minExp; omega
  rw [roundRat_eq neg (by omega) (by decide), hE]
  generalize rrFl n 1 = fl at *
  have hQ : (fl - 52).toNat = 0 := by omega
  have hPW : (-(fl - 52)).toNat + (fl - 52 + 1100).toNat = 1100 := by omega
  simp only [hQ, Nat.pow_zero, Nat.mul_one, rhe_one]
  have hval : n * 2 ^ (-(fl - 52)).toNat * 2 ^ (fl - 52 + 1100).toNat = n * 2 ^ 1100 := by
    rw [Nat.mul_assoc, ← Nat.pow_add, hPW]
  by_cases h : n * 2 ^ (-(fl - 52)).toNat = 2 ^ 53
  · simp only [h, if_true]
    have hmax : ¬ (fl - 52 + 1 > maxExp) := by unfold maxExp; omega
    rw [if_neg hmax]
    refine ⟨2 ^ 52, fl - 52 + 1, rfl, by omega, by omega, ?_⟩
    have e1 : (fl - 52 + 1 + 1100).toNat = (fl - 52 + 1100).toNat + 1 := by omega
    rw [e1, Nat.pow_succ, ← hval, h]
    calc 2 ^ 52 * (2 ^ (fl - 52 + 1100).toNat * 2) = (2 ^ 52 * 2) * 2 ^ (fl - 52 + 1100).toNat := by ac_rfl
      _ = 2 ^ 53 * 2 ^ (fl - 52 + 1100).toNat := by rfl
  · simp only [h, if_false]
    have hmax : ¬ (fl - 52 > maxExp) := by unfold maxExp; omega
    rw [if_neg hmax]
    exact ⟨_, fl - 52, rfl, by omega, by omega, hval⟩

/-- `magNum m e / magDen e` is the value `m · 2^e` -/
theorem mag_sv (m : Nat) {e : Int} (he : 0 ≤ e + 1100) :
    magNum m e * 2 ^ 1100 = m * 2 ^ (e + 1100).toNat * magDen e := by
  unfold magNum magDen
  by_cases h : e ≥ 0
  · have : (e + 1100).toNat = e.toNat + 1100 := by omega
    simp only [h, if_true, this, Nat.pow_add, Nat.mul_one]
    ac_rfl
  · have : (e + 1100).toNat + (-e).toNat = 1100 := by omega
    simp only [h, if_false]
    rw [Nat.mul_assoc, ← Nat.pow_add, this]

theorem magDen_pos (e : Int) : 0 < magDen e := by
  unfold magDen; split
  · decide
  · exact two_pow_pos _

end F64
namespace F64

/-- `roundRat` of `(m·2^e · a) / b`, in the fixed-point view `X = m · 2^(e+K)` -/
theorem roundRat_scaled_spec (neg : Bool) {m a b s t : Nat} {e : Int} (he : 0 ≤ e + 1100)
    (ha : 0 < a) (hb : 0 < b)
    (hlow : b * 2 ^ s ≤ m * 2 ^ (e + 1100).toNat * a) (hup : m * 2 ^ (e + 1100).toNat * a < b * 2 ^ t)
    (hs : 78 ≤ s) (ht : t ≤ 2000) :
    ∃ (m' : Nat) (e' : Int), roundRat neg (magNum m e * a) (magDen e * b) = .fin neg m' e' ∧ 0 ≤ e' + 1100 ∧
      (s : Int) ≤ e' + 1152 ∧ e' + 1152 ≤ t ∧
      2 * (m' * 2 ^ (e' + 1100).toNat * b) ≤ 2 * (m * 2 ^ (e + 1100).toNat * a) + b * 2 ^ (t - 53) ∧
      2 * (m * 2 ^ (e + 1100).toNat * a) ≤ 2 * (m' * 2 ^ (e' + 1100).toNat * b) + b * 2 ^ (t - 53) := by
  have hmag := mag_sv m he
  have hdpos := magDen_pos e
  generalize hX : m * 2 ^ (e + 1100).toNat = X at *
  generalize magDen e = D at *
  generalize hN : magNum m e = Nn at *
  -- Nn * 2^K = X * D
  have hXpos : 0 < X * a := by
    have : 0 < b * 2 ^ s := Nat.mul_pos hb (two_pow_pos _)
    omega
  have hNpos : 0 < Nn * a := by
    have hXp : 0 < X := Nat.pos_of_mul_pos_right hXpos
    have : 0 < Nn * 2 ^ 1100 := by rw [hmag]; exact Nat.mul_pos hXp hdpos
    have : 0 < Nn := Nat.pos_of_mul_pos_right this
    exact Nat.mul_pos this ha
  have e1 : Nn * a * 2 ^ 1100 = X * a * D := by
    calc Nn * a * 2 ^ 1100 = Nn * 2 ^ 1100 * a := by ac_rfl
      _ = X * D * a := by rw [hmag]
      _ = X * a * D := by ac_rfl
  have hl : D * b * 2 ^ s ≤ Nn * a * 2 ^ 1100 := by
    rw [e1]
    calc D * b * 2 ^ s = b * 2 ^ s * D := by ac_rfl
      _ ≤ X * a * D := Nat.mul_le_mul_right _ hlow
  have hu : Nn * a * 2 ^ 1100 < D * b * 2 ^ t := by
    rw [e1]
    calc X * a * D < b * 2 ^ t * D := Nat.mul_lt_mul_of_lt_of_le hup (Nat.le_refl _) hdpos
      _ = D * b * 2 ^ t := by ac_rfl
  obtain ⟨m', e', hr, h0, h1, h2, h3, h4⟩ := roundRat_spec neg hNpos (Nat.mul_pos hdpos hb) hl hu hs ht
  refine ⟨m', e', hr, h0, h1, h2, ?_, ?_⟩
  · -- cancel D
    rw [e1] at h3
    have : (2 * (m' * 2 ^ (e' + 1100).toNat * b)) * D ≤ (2 * (X * a) + b * 2 ^ (t - 53)) * D := by
      calc (2 * (m' * 2 ^ (e' + 1100).toNat * b)) * D = 2 * (m' * 2 ^ (e' + 1100).toNat * (D * b)) := by ac_rfl
        _ ≤ 2 * (X * a * D) + D * b * 2 ^ (t - 53) := h3
        _ = (2 * (X * a) + b * 2 ^ (t - 53)) * D := by rw [Nat.add_mul]; ac_rfl
    exact Nat.le_of_mul_le_mul_right this hdpos
  · rw [e1] at h4
    have : (2 * (X * a)) * D ≤ (2 * (m' * 2 ^ (e' + 1100).toNat * b) + b * 2 ^ (t - 53)) * D := by
      calc (2 * (X * a)) * D = 2 * (X * a * D) := by ac_rfl
        _ ≤ 2 * (m' * 2 ^ (e' + 1100).toNat * (D * b)) + D * b * 2 ^ (t - 53) := h4
        _ = (2 * (m' * 2 ^ (e' + 1100).toNat * b) + b * 2 ^ (t - 53)) * D := by rw [Nat.add_mul]; ac_rfl
    exact Nat.le_of_mul_le_mul_right this hdpos

end F64
namespace F64

/-- `float64(i)` for |i| < 2^53: exact -/
theorem ofInt_spec (i : Int) (h : i.natAbs < 2 ^ 53) :
    ∃ (m : Nat) (e : Int), ofInt i = .fin (decide (i < 0)) m e ∧ 0 ≤ e + 1100 ∧
      m * 2 ^ (e + 1100).toNat = i.natAbs * 2 ^ 1100 := by
  unfold ofInt
  by_cases h0 : i.natAbs = 0
  · refine ⟨0, minExp, ?_, by unfold minExp; omega, by simp [h0]⟩
    simp [roundRat, h0]
  · obtain ⟨m, e, hr, he, _, hv⟩ := roundRat_int_exact (decide (i < 0)) (Nat.pos_of_ne_zero h0) h
    exact ⟨m, e, hr, he, hv⟩

/-- `a / float64(k)` in the fixed-point view -/
theorem divNat_spec {n : Bool} {m k s t : Nat} {e : Int} (he : 0 ≤ e + 1100) (hk : 0 < k)
    (hlow : k * 2 ^ s ≤ m * 2 ^ (e + 1100).toNat) (hup : m * 2 ^ (e + 1100).toNat < k * 2 ^ t)
    (hs : 78 ≤ s) (ht : t ≤ 2000) :
    ∃ (m' : Nat) (e' : Int), divNat (.fin n m e) k = .fin n m' e' ∧ 0 ≤ e' + 1100 ∧
      2 * (m' * 2 ^ (e' + 1100).toNat * k) ≤ 2 * (m * 2 ^ (e + 1100).toNat) + k * 2 ^ (t - 53) ∧
      2 * (m * 2 ^ (e + 1100).toNat) ≤ 2 * (m' * 2 ^ (e' + 1100).toNat * k) + k * 2 ^ (t - 53) := by
  have := roundRat_scaled_spec n (m := m) (a := 1) (b := k) (e := e) he (by decide) hk
    (by simpa using hlow) (by simpa using hup) hs ht
  obtain ⟨m', e', hr, h0, _, _, h3, h4⟩ := this
  refine ⟨m', e', ?_, h0, by simpa using h3, by simpa using h4⟩
  unfold divNat
  simpa using hr

/-- `a * float64(k)` in the fixed-point view -/
theorem mulNat_spec {n : Bool} {m k s t : Nat} {e : Int} (he : 0 ≤ e + 1100) (hk : 0 < k)
    (hlow : 2 ^ s ≤ m * 2 ^ (e + 1100).toNat * k) (hup : m * 2 ^ (e + 1100).toNat * k < 2 ^ t)
    (hs : 78 ≤ s) (ht : t ≤ 2000) :
    ∃ (m' : Nat) (e' : Int), mulNat (.fin n m e) k = .fin n m' e' ∧ 0 ≤ e' + 1100 ∧
      2 * (m' * 2 ^ (e' + 1100).toNat) ≤ 2 * (m * 2 ^ (e + 1100).toNat * k) + 2 ^ (t - 53) ∧
      2 * (m * 2 ^ (e + 1100).toNat * k) ≤ 2 * (m' * 2 ^ (e' + 1100).toNat) + 2 ^ (t - 53) := by
  have := roundRat_scaled_spec n (m := m) (a := k) (b := 1) (e := e) he hk (by decide)
    (by simpa using hlow) (by simpa using hup) hs ht
  obtain ⟨m', e', hr, h0, _, _, h3, h4⟩ := this
  refine ⟨m', e', ?_, h0, by simpa using h3, by simpa using h4⟩
  unfold mulNat
  simpa using hr

end F64
namespace F64

/-- `a + b` for two values of the same sign (a zero operand may carry any sign flag) -/
theorem add_spec {n n1 n2 : Bool} {m1 m2 s t : Nat} {e1 e2 : Int} (h1 : 0 ≤ e1 + 1100) (h2 : 0 ≤ e2 + 1100)
    (hn1 : m1 = 0 ∨ n1 = n) (hn2 : m2 = 0 ∨ n2 = n)
    (hlow : 2 ^ s ≤ m1 * 2 ^ (e1 + 1100).toNat + m2 * 2 ^ (e2 + 1100).toNat)
    (hup : m1 * 2 ^ (e1 + 1100).toNat + m2 * 2 ^ (e2 + 1100).toNat < 2 ^ t)
    (hs : 78 ≤ s) (ht : t ≤ 2000) :
    ∃ (m' : Nat) (e' : Int), add (.fin n1 m1 e1) (.fin n2 m2 e2) = .fin n m' e' ∧ 0 ≤ e' + 1100 ∧
      2 * (m' * 2 ^ (e' + 1100).toNat) ≤ 2 * (m1 * 2 ^ (e1 + 1100).toNat + m2 * 2 ^ (e2 + 1100).toNat) + 2 ^ (t - 53) ∧
      2 * (m1 * 2 ^ (e1 + 1100).toNat + m2 * 2 ^ (e2 + 1100).toNat) ≤ 2 * (m' * 2 ^ (e' + 1100).toNat) + 2 ^ (t - 53) := by
  unfold add
  simp only
  generalize he : min e1 e2 = e
  have hle1 : e ≤ e1 := by omega
  have hle2 : e ≤ e2 := by omega
  have he0 : 0 ≤ e + 1100 := by omega
  -- the aligned mantissas
  have hx1 : m1 * 2 ^ (e1 - e).toNat * 2 ^ (e + 1100).toNat = m1 * 2 ^ (e1 + 1100).toNat := by
    rw [Nat.mul_assoc, ← Nat.pow_add]; congr 2; omega
  have hx2 : m2 * 2 ^ (e2 - e).toNat * 2 ^ (e + 1100).toNat = m2 * 2 ^ (e2 + 1100).toNat := by
    rw [Nat.mul_assoc, ← Nat.pow_add]; congr 2; omega
  generalize ha1 : m1 * 2 ^ (e1 - e).toNat = a1 at *
  generalize ha2 : m2 * 2 ^ (e2 - e).toNat = a2 at *
  have hsum : (a1 + a2) * 2 ^ (e + 1100).toNat = m1 * 2 ^ (e1 + 1100).toNat + m2 * 2 ^ (e2 + 1100).toNat := by
    rw [Nat.add_mul, hx1, hx2]
  have hpos : 0 < a1 + a2 := by
    have : 0 < (a1 + a2) * 2 ^ (e + 1100).toNat := by
      rw [hsum]; exact Nat.lt_of_lt_of_le (two_pow_pos s) hlow
    exact Nat.pos_of_mul_pos_right this
  -- the signed sum
  have hs1 : (if n1 = true then -(a1 : Int) else (a1 : Int)) = if n = true then -(a1 : Int) else (a1 : Int) := by
    rcases hn1 with h | h
    · have : a1 = 0 := by rw [← ha1, h]; simp
      simp [this]
    · rw [h]
  have hs2 : (if n2 = true then -(a2 : Int) else (a2 : Int)) = if n = true then -(a2 : Int) else (a2 : Int) := by
    rcases hn2 with h | h
    · have : a2 = 0 := by rw [← ha2, h]; simp
      simp [this]
    · rw [h]
  rw [hs1, hs2]
  have hS : ((if n = true then -(a1 : Int) else (a1 : Int)) + (if n = true then -(a2 : Int) else (a2 : Int))) =
      if n = true then -((a1 + a2 : Nat) : Int) else ((a1 + a2 : Nat) : Int) := by
    cases n <;> simp <;> omega
  rw [hS]
  have hne : ¬ ((if n = true then -((a1 + a2 : Nat) : Int) else ((a1 + a2 : Nat) : Int)) = 0) := by
    cases n <;> simp <;> omega
  have hlt : decide ((if n = true then -((a1 + a2 : Nat) : Int) else ((a1 + a2 : Nat) : Int)) < 0) = n := by
    cases n <;> simp <;> omega
  have habs : (if n = true then -((a1 + a2 : Nat) : Int) else ((a1 + a2 : Nat) : Int)).natAbs = a1 + a2 := by
    cases n <;> simp <;> omega
  rw [if_neg hne, hlt, habs]
  have := roundRat_scaled_spec n (m := a1 + a2) (a := 1) (b := 1) (e := e) he0 (by decide) (by decide)
    (by rw [hsum]; simpa using hlow) (by rw [hsum]; simpa using hup) hs ht
  obtain ⟨m', e', hr, h0, _, _, h3, h4⟩ := this
  rw [hsum] at h3 h4
  refine ⟨m', e', by simpa using hr, h0, by simpa using h3, by simpa using h4⟩

end F64
namespace F64

/-- `FormatFloat(f, 'f', p)`: the digits are `round(|f| · 10^p)` -/
theorem fmtFixed_spec (p : Nat) (n : Bool) (m : Nat) {e : Int} (he : 0 ≤ e + 1100) :
    ∃ N : Nat, fmtFixed p (.fin n m e) = (if n then c!"-" else []) ++ decFixed p N ∧
      2 * (N * 2 ^ 1100) ≤ 2 * (m * 2 ^ (e + 1100).toNat * 10 ^ p) + 2 ^ 1100 ∧
      2 * (m * 2 ^ (e + 1100).toNat * 10 ^ p) ≤ 2 * (N * 2 ^ 1100) + 2 ^ 1100 := by
  have hmag := mag_sv m he
  have hdpos := magDen_pos e
  obtain ⟨hr1, hr2⟩ := rhe_spec (magNum m e * 10 ^ p) (magDen e) hdpos
  refine ⟨rhe (magNum m e * 10 ^ p) (magDen e), ?_, ?_, ?_⟩
  · unfold fmtFixed rhe; rfl
  · generalize rhe (magNum m e * 10 ^ p) (magDen e) = N at *
    generalize m * 2 ^ (e + 1100).toNat = X at *
    generalize magDen e = D at *
    generalize magNum m e = Nn at *
    generalize 2 ^ 1100 = T at *
    generalize 10 ^ p = P at *
    have : (2 * (N * T)) * D ≤ (2 * (X * P) + T) * D := by
      calc (2 * (N * T)) * D = 2 * (N * D) * T := by ac_rfl
        _ ≤ (2 * (Nn * P) + D) * T := Nat.mul_le_mul_right _ hr1
        _ = 2 * (Nn * T * P) + D * T := by rw [Nat.add_mul]; ac_rfl
        _ = 2 * (X * D * P) + D * T := by rw [hmag]
        _ = (2 * (X * P) + T) * D := by rw [Nat.add_mul]; ac_rfl
    exact Nat.le_of_mul_le_mul_right this hdpos
  · generalize rhe (magNum m e * 10 ^ p) (magDen e) = N at *
    generalize m * 2 ^ (e + 1100).toNat = X at *
    generalize magDen e = D at *
    generalize magNum m e = Nn at *
    generalize 2 ^ 1100 = T at *
    generalize 10 ^ p = P at *
    have : (2 * (X * P)) * D ≤ (2 * (N * T) + T) * D := by
      calc (2 * (X * P)) * D = 2 * (X * D * P) := by ac_rfl
        _ = 2 * (Nn * T * P) := by rw [hmag]
        _ = 2 * (Nn * P) * T := by ac_rfl
        _ ≤ (2 * (N * D) + D) * T := Nat.mul_le_mul_right _ hr2
        _ = (2 * (N * T) + T) * D := by rw [Nat.add_mul, Nat.add_mul]; ac_rfl
    exact Nat.le_of_mul_le_mul_right this hdpos

/-- `int64(f)` truncates -/
theorem toInt64_spec (n : Bool) (m : Nat) {e : Int} (he : 0 ≤ e + 1100)
    (hsmall : m * 2 ^ (e + 1100).toNat < 2 ^ 63 * 2 ^ 1100) :
    ∃ v : Nat, toInt64 (.fin n m e) = (if n then -(v : Int) else (v : Int)) ∧
      v * 2 ^ 1100 ≤ m * 2 ^ (e + 1100).toNat ∧ m * 2 ^ (e + 1100).toNat < (v + 1) * 2 ^ 1100 := by
  have hmag := mag_sv m he
  have hdpos := magDen_pos e
  have hdiv1 : magNum m e / magDen e * magDen e ≤ magNum m e := Nat.div_mul_le_self _ _
  have hdiv2 : magNum m e < magDen e * (magNum m e / magDen e + 1) := Nat.lt_mul_div_succ _ hdpos
  generalize hv : magNum m e / magDen e = v at *
  generalize hX : m * 2 ^ (e + 1100).toNat = X at *
  generalize hD : magDen e = D at *
  generalize hN : magNum m e = Nn at *
  have b1 : v * 2 ^ 1100 ≤ X := by
    have : (v * 2 ^ 1100) * D ≤ X * D := by
      calc (v * 2 ^ 1100) * D = v * D * 2 ^ 1100 := by ac_rfl
        _ ≤ Nn * 2 ^ 1100 := Nat.mul_le_mul_right _ hdiv1
        _ = X * D := hmag
    exact Nat.le_of_mul_le_mul_right this hdpos
  have b2 : X < (v + 1) * 2 ^ 1100 := by
    have : X * D < ((v + 1) * 2 ^ 1100) * D := by
      calc X * D = Nn * 2 ^ 1100 := hmag.symm
        _ < D * (v + 1) * 2 ^ 1100 := Nat.mul_lt_mul_of_lt_of_le hdiv2 (Nat.le_refl _) (two_pow_pos _)
        _ = ((v + 1) * 2 ^ 1100) * D := by ac_rfl
    exact Nat.lt_of_mul_lt_mul_right this
  have hv63 : v < 2 ^ 63 := by
    have : v * 2 ^ 1100 < 2 ^ 63 * 2 ^ 1100 := Nat.lt_of_le_of_lt b1 hsmall
    exact Nat.lt_of_mul_lt_mul_right this
  refine ⟨v, ?_, b1, b2⟩
  unfold toInt64
  simp only [hN, hD, hv]
  cases n with
  | true =>
    have : v ≤ 2 ^ 63 := Nat.le_of_lt hv63
    simp [this]
  | false => simp [hv63]

end F64
open F64

theorem tdiv_tmod_natAbs (d : Int) :
    d.tdiv 1000000000 = (if d < 0 then -((d.natAbs / 1000000000 : Nat) : Int) else ((d.natAbs / 1000000000 : Nat) : Int)) ∧
    d.tmod 1000000000 = (if d < 0 then -((d.natAbs % 1000000000 : Nat) : Int) else ((d.natAbs % 1000000000 : Nat) : Int)) := by
  by_cases h : d < 0
  · have hd : d = -((d.natAbs : Nat) : Int) := by omega
    simp only [h, if_true]
    constructor
    · conv => lhs; rw [hd]
      rw [Int.neg_tdiv, Int.ofNat_tdiv]; rfl
    · conv => lhs; rw [hd]
      rw [Int.neg_tmod, Int.ofNat_tmod]; rfl
  · have hd : d = ((d.natAbs : Nat) : Int) := by omega
    simp only [h, if_false]
    constructor
    · conv => lhs; rw [hd]
      rw [Int.ofNat_tdiv]; rfl
    · conv => lhs; rw [hd]
      rw [Int.ofNat_tmod]; rfl

theorem pow_mul_eq_zero {m k : Nat} (h : m * 2 ^ k = 0) : m = 0 := by
  rcases Nat.mul_eq_zero.mp h with h | h
  · exact h
  · exact absurd h (Nat.ne_of_gt (two_pow_pos k))

/-- `Duration(d).Seconds()` in the fixed-point view -/
theorem secondsF_spec (d : Int) (hD : 0 < d.natAbs) (hmax : d.natAbs ≤ 1000000000000000) :
    ∃ (m : Nat) (e : Int) (svB : Nat), secondsF d = .fin (decide (d < 0)) m e ∧ 0 ≤ e + 1100 ∧
      2 * (svB * 1000000000) ≤ 2 * (d.natAbs % 1000000000 * 2 ^ 1100) + 1000000000 * 2 ^ 1047 ∧
      2 * (d.natAbs % 1000000000 * 2 ^ 1100) ≤ 2 * (svB * 1000000000) + 1000000000 * 2 ^ 1047 ∧
      2 * (m * 2 ^ (e + 1100).toNat) ≤ 2 * (d.natAbs / 1000000000 * 2 ^ 1100 + svB) + 2 ^ 1068 ∧
      2 * (d.natAbs / 1000000000 * 2 ^ 1100 + svB) ≤ 2 * (m * 2 ^ (e + 1100).toNat) + 2 ^ 1068 := by
  obtain ⟨htd, htm⟩ := tdiv_tmod_natAbs d
  unfold secondsF
  simp only [htd, htm]
  generalize hSEC : d.natAbs / 1000000000 = SEC
  generalize hNS : d.natAbs % 1000000000 = NS
  have hNSlt : NS < 1000000000 := by rw [← hNS]; exact Nat.mod_lt _ (by decide)
  have hSECle : SEC ≤ 1000000 := by rw [← hSEC]; omega
  have hDeq : d.natAbs = 1000000000 * SEC + NS := by rw [← hSEC, ← hNS]; exact (Nat.div_add_mod _ _).symm
  -- A = float64(sec)
  have hAabs : (if d < 0 then -(SEC : Int) else (SEC : Int)).natAbs = SEC := by split <;> omega
  obtain ⟨mA, eA, hA, heA, hvA⟩ := ofInt_spec (if d < 0 then -(SEC : Int) else (SEC : Int))
    (by rw [hAabs]; omega)
  rw [hAabs] at hvA
  -- float64(nsec)
  have hBabs : (if d < 0 then -(NS : Int) else (NS : Int)).natAbs = NS := by split <;> omega
  obtain ⟨mN, eN, hN, heN, hvN⟩ := ofInt_spec (if d < 0 then -(NS : Int) else (NS : Int))
    (by rw [hBabs]; omega)
  rw [hBabs] at hvN
  rw [hA, hN]
  -- B = float64(nsec) / 1e9
  have hB : ∃ (nB : Bool) (mB : Nat) (eB : Int),
      divNat (.fin (decide ((if d < 0 then -(NS : Int) else (NS : Int)) < 0)) mN eN) 1000000000 = .fin nB mB eB ∧
      0 ≤ eB + 1100 ∧ (mB = 0 ∨ nB = decide (d < 0)) ∧
      2 * (mB * 2 ^ (eB + 1100).toNat * 1000000000) ≤ 2 * (NS * 2 ^ 1100) + 1000000000 * 2 ^ 1047 ∧
      2 * (NS * 2 ^ 1100) ≤ 2 * (mB * 2 ^ (eB + 1100).toNat * 1000000000) + 1000000000 * 2 ^ 1047 := by
    by_cases hns0 : NS = 0
    · subst hns0
      have hm0 : mN = 0 := pow_mul_eq_zero (by simpa using hvN)
      subst hm0
      refine ⟨decide ((if d < 0 then -((0 : Nat) : Int) else ((0 : Nat) : Int)) < 0), 0, minExp, ?_,
        by unfold minExp; omega, Or.inl rfl, by simp, by simp⟩
      simp [divNat, magNum, roundRat]
    · have hsign : decide ((if d < 0 then -(NS : Int) else (NS : Int)) < 0) = decide (d < 0) := by
        by_cases h : d < 0 <;> simp [h] <;> omega
      have hlow : 1000000000 * 2 ^ 1070 ≤ mN * 2 ^ (eN + 1100).toNat := by rw [hvN]; omega
      have hup : mN * 2 ^ (eN + 1100).toNat < 1000000000 * 2 ^ 1100 := by rw [hvN]; omega
      obtain ⟨mB, eB, hr, h0, h3, h4⟩ := divNat_spec (n := decide ((if d < 0 then -(NS : Int) else (NS : Int)) < 0))
        heN (by decide) hlow hup (by decide) (by decide)
      rw [hvN] at h3 h4
      exact ⟨_, mB, eB, hr, h0, Or.inr hsign, h3, h4⟩
  obtain ⟨nB, mB, eB, hBeq, heB, hsB, hB3, hB4⟩ := hB
  rw [hBeq]
  -- S = A + B
  have hsA : mA = 0 ∨ decide ((if d < 0 then -(SEC : Int) else (SEC : Int)) < 0) = decide (d < 0) := by
    by_cases hs0 : SEC = 0
    · left; subst hs0; exact pow_mul_eq_zero (by simpa using hvA)
    · right; by_cases h : d < 0 <;> simp [h] <;> omega
  generalize hXB : mB * 2 ^ (eB + 1100).toNat = XB at *
  have hlowS : 2 ^ 1069 ≤ mA * 2 ^ (eA + 1100).toNat + XB := by
    rw [hvA]
    by_cases hs0 : SEC = 0
    · have : 1 ≤ NS := by omega
      omega
    · have : 1 ≤ SEC := by omega
      omega
  have hupS : mA * 2 ^ (eA + 1100).toNat + XB < 2 ^ 1121 := by
    rw [hvA]; omega
  obtain ⟨mS, eS, hS, heS, hS3, hS4⟩ := add_spec (n := decide (d < 0)) heA heB hsA hsB
    (by rw [hXB]; exact hlowS) (by rw [hXB]; exact hupS) (by decide) (by decide)
  rw [hXB, hvA] at hS3 hS4
  exact ⟨mS, eS, XB, hS, heS, hB3, hB4, hS3, hS4⟩

open F64

theorem durFmt5_zero : durFmt5 0 = dec5 0 := by
  have h : secondsF 0 = .fin false 0 minExp := by rfl
  unfold durFmt5
  rw [h]
  obtain ⟨N, hN, h1, h2⟩ := fmtFixed_spec 5 false 0 (e := minExp) (by unfold minExp; omega)
  rw [hN]
  have : N = 0 := by
    simp only [Nat.zero_mul, Nat.mul_zero, Nat.zero_add] at h1
    have hT : 0 < 2 ^ 1100 := two_pow_pos _
    omega
  subst this
  simp [dec5, decInt]

/-- the `fmt` half of the float envelope -/
theorem durFmt5_envelope (d : Int) (hmax : d.natAbs ≤ 1000000000000000) (hneg : -5000 ≤ d → 0 ≤ d) :
    ∃ q : Int, durFmt5 d = dec5 q ∧ IsQuant5 d q := by
  by_cases hd0 : d = 0
  · subst hd0; exact ⟨0, durFmt5_zero, by simp [IsQuant5]⟩
  · have hD : 0 < d.natAbs := by omega
    obtain ⟨m, e, svB, hS, he, hB1, hB2, hS1, hS2⟩ := secondsF_spec d hD hmax
    obtain ⟨N, hN, hN1, hN2⟩ := fmtFixed_spec 5 (decide (d < 0)) m he
    unfold durFmt5
    rw [hS, hN]
    have hDeq : d.natAbs = 1000000000 * (d.natAbs / 1000000000) + d.natAbs % 1000000000 :=
      (Nat.div_add_mod _ _).symm
    have hNSlt : d.natAbs % 1000000000 < 1000000000 := Nat.mod_lt _ (by decide)
    generalize d.natAbs / 1000000000 = SEC at *
    generalize d.natAbs % 1000000000 = NS at *
    generalize m * 2 ^ (e + 1100).toNat = svS at *
    have hq1 : N * 10000 ≤ d.natAbs + 5000 := by omega
    have hq2 : d.natAbs ≤ N * 10000 + 5000 := by omega
    by_cases hlt : d < 0
    · have hbig : 5000 < d.natAbs := by omega
      have hNpos : 0 < N := by omega
      refine ⟨-(N : Int), ?_, ?_⟩
      · have : (-(N : Int)) < 0 := by omega
        simp [dec5, decInt, hlt, this, hNpos]
      · unfold IsQuant5; omega
    · refine ⟨(N : Int), ?_, ?_⟩
      · have : ¬ ((N : Int) < 0) := by omega
        simp [dec5, decInt, hlt, this]
      · unfold IsQuant5; omega

open F64

theorem decFixed_head_digit (p N : Nat) : ∃ c cs, F64.decFixed p N = c :: cs ∧ isDigit c = true := by
  cases hs : F64.decFixed p N with
  | nil => unfold F64.decFixed at hs; simp at hs
  | cons c cs =>
    refine ⟨c, cs, rfl, ?_⟩
    have : c ∈ natToDigits (N / 10 ^ p) := by
      unfold F64.decFixed at hs
      cases hd : natToDigits (N / 10 ^ p) with
      | nil => exact absurd hd (natToDigits_ne_nil _)
      | cons d ds => rw [hd] at hs; simp at hs; rw [← hs.1]; simp
    exact natToDigits_isDigit this

theorem floatSpecial_minus_digit {c : Char} (cs : Str) (h : isDigit c = true) : floatSpecial ('-' :: c :: cs) = none := by
  have hi : c ≠ 'i' := digit_ne h (by decide)
  have hI : c ≠ 'I' := digit_ne h (by decide)
  simp only [floatSpecial, floatSpecialInf, commonPrefixLenIgnoreCase]
  have hAZ : ¬ ('A' ≤ c ∧ c ≤ 'Z') := by
    intro hh
    unfold isDigit at h
    simp only [decide_eq_true_eq] at h
    have h1 : c.toNat ≤ 57 := h.2
    have h2 : 65 ≤ c.toNat := hh.1
    omega
  simp [hAZ, hi]

/-- `readFloat` on `-` followed by a fixed-point decimal text -/
theorem readFloat_neg_decFixed {p N : Nat} (hp : 1 ≤ p) :
    ∃ nd : Nat, readFloat ('-' :: F64.decFixed p N) = some (scaleDec true N nd (-(p : Int)), []) := by
  obtain ⟨st, hscan, hm, hdp, hdot, hdig, hund⟩ := rfScan_decFixed (N := N) hp
  refine ⟨st.nd, ?_⟩
  have hchars : ∀ c ∈ F64.decFixed p N, isDigit c = true ∨ c = '.' := fun c hc => decFixed_chars hc
  obtain ⟨c, cs, hs, hc⟩ := decFixed_head_digit p N
  rw [hs] at hscan hchars ⊢
  unfold readFloat
  simp only
  split
  · rename_i x y r hx
    injection hx with hx1 hx2
    have hxc : isDigit x = true ∨ x = '.' := hchars x (by rw [hx2]; simp)
    simp only [lowerByte_digit_or_dot hxc, if_false, hscan, hdig, not_true_eq_false, hdot, if_true,
      Bool.false_eq_true, hund, false_or, false_and, hm, hdp]
  · simp only [hscan, hdig, not_true_eq_false, if_false, hdot, if_true,
      Bool.false_eq_true, hund, false_or, false_and, hm, hdp]

open F64

theorem parseFloat_neg_decFixed {p N : Nat} (hp : 1 ≤ p) (hp2 : p ≤ 330) :
    parseFloat ('-' :: F64.decFixed p N) =
      match F64.roundRat true N (10 ^ p) with
      | .inf _ => .error .num
      | f => .ok f := by
  obtain ⟨nd, hrf⟩ := readFloat_neg_decFixed (N := N) hp
  obtain ⟨c, cs, hs, hc⟩ := decFixed_head_digit p N
  unfold parseFloat
  have hspec : floatSpecial ('-' :: F64.decFixed p N) = none := by rw [hs]; exact floatSpecial_minus_digit cs hc
  have hsc : scaleDec true N nd (-(p : Int)) = F64.roundRat true N (10 ^ p) := by
    unfold scaleDec
    by_cases h0 : N = 0
    · subst h0; simp [F64.roundRat]
    · have h1 : ¬ (-(p : Int) > 310) := by omega
      have h2 : ¬ (-(p : Int) + (nd : Int) < -330) := by omega
      have h3 : ¬ (-(p : Int) ≥ 0) := by omega
      simp only [h0, if_false, h1, h2, h3]
      simp
  rw [hspec, hrf, hsc]
  simp only
  cases F64.roundRat true N (10 ^ p) <;> rfl

/-- the `parse` half of the float envelope -/
theorem durUnmarshal_envelope (q : Int) (hq : (q * 10000).natAbs ≤ 1000000000000000 + 5000) :
    ∃ d' : Int, durUnmarshal (dec5 q) = .ok d' ∧ IsDecoded5 q d' := by
  unfold durUnmarshal dec5 decInt
  have hQ : q.natAbs ≤ 100000000000 := by omega
  -- the parsed float
  have hparse : parseFloat ((if q < 0 then c!"-" else []) ++ F64.decFixed 5 q.natAbs) =
      match F64.roundRat (decide (q < 0)) q.natAbs (10 ^ 5) with
      | .inf _ => .error .num
      | f => .ok f := by
    by_cases h : q < 0
    · simp only [h, if_true, List.cons_append, List.nil_append, decide_true]
      exact parseFloat_neg_decFixed (by decide) (by decide)
    · simp only [h, if_false, List.nil_append, decide_false]
      exact parseFloat_decFixed (by decide) (by decide)
  rw [hparse]
  have h105 : (10 : Nat) ^ 5 = 100000 := by decide
  rw [h105]
  by_cases hq0 : q = 0
  · subst hq0
    refine ⟨0, ?_, by simp [IsDecoded5]⟩
    rfl
  · have hQpos : 0 < q.natAbs := by omega
    have hlow : 100000 * 2 ^ 1083 ≤ q.natAbs * 2 ^ 1100 := by clear hparse h105 hq; omega
    have hup : q.natAbs * 2 ^ 1100 < 100000 * 2 ^ 1120 := by clear hparse h105 hq; omega
    obtain ⟨mF, eF, hF, heF, _, _, hF1, hF2⟩ := roundRat_spec (decide (q < 0)) (den := 100000) hQpos (by decide) hlow hup (by decide) (by decide)
    rw [hF]
    simp only [bind, Except.bind, pure, Except.pure]
    generalize hXF : mF * 2 ^ (eF + 1100).toNat = XF at *
    have hF1' : 2 * (XF * 100000) ≤ 2 * (q.natAbs * 2 ^ 1100) + 100000 * 2 ^ 1067 := hF1
    have hF2' : 2 * (q.natAbs * 2 ^ 1100) ≤ 2 * (XF * 100000) + 100000 * 2 ^ 1067 := hF2
    clear hF1 hF2
    have hlowP : 2 ^ 1113 ≤ XF * 1000000000 := by omega
    have hupP : XF * 1000000000 < 2 ^ 1150 := by
      clear hparse h105 hq hF hlow hup hlowP heF hF2'
      omega
    obtain ⟨mP, eP, hP, heP, hP1, hP2⟩ := mulNat_spec (n := decide (q < 0)) (k := 1000000000) (s := 1113) (t := 1150) heF (by decide)
      (by rw [hXF]; exact hlowP) (by rw [hXF]; exact hupP) (by decide) (by decide)
    rw [hP]
    rw [hXF] at hP1 hP2
    have hP1' : 2 * (mP * 2 ^ (eP + 1100).toNat) ≤ 2 * (XF * 1000000000) + 2 ^ 1097 := hP1
    have hP2' : 2 * (XF * 1000000000) ≤ 2 * (mP * 2 ^ (eP + 1100).toNat) + 2 ^ 1097 := hP2
    clear hP1 hP2
    generalize hXP : mP * 2 ^ (eP + 1100).toNat = XP at *
    have hsmall : XP < 2 ^ 63 * 2 ^ 1100 := by omega
    obtain ⟨v, hv, hv1, hv2⟩ := toInt64_spec (decide (q < 0)) mP heP (by rw [hXP]; exact hsmall)
    rw [hXP] at hv1 hv2
    refine ⟨_, by rw [hv], ?_⟩
    unfold IsDecoded5
    by_cases h : q < 0
    · simp only [h, decide_true, if_true]
      omega
    · simp only [h, decide_false, Bool.false_eq_true, if_false]
      omega

open F64

/-- The float envelope of DESIGN §2 holds for the soft-float model of `strconv` / float64:
    a duration prints as a nearest multiple of 10 µs, and that text parses back to within 1 ns. -/
theorem floatEnvelope : FloatEnvelope :=
  ⟨fun d h1 h2 => durFmt5_envelope d (by simpa [durBound] using h1) h2,
   fun q hq => durUnmarshal_envelope q (by simpa [durBound] using hq)⟩

/-- FRAME-RATE: the binary64 nearest to `k/1000` prints as `k/1000` and parses back to itself. -/
theorem floatEnvelope3 : FloatEnvelope3 := by
  constructor
  · intro k hk
    unfold f64OfMilli
    by_cases hk0 : k = 0
    · subst hk0
      have : roundRat false 0 1000 = .fin false 0 minExp := by simp [roundRat]
      rw [this]
      obtain ⟨N, hN, h1, h2⟩ := fmtFixed_spec 3 false 0 (e := minExp) (by unfold minExp; omega)
      rw [hN]
      have : N = 0 := by
        simp only [Nat.zero_mul, Nat.mul_zero, Nat.zero_add] at h1
        have hT : 0 < 2 ^ 1100 := two_pow_pos _
        omega
      subst this
      simp [decInt]
    · have hkpos : 0 < k := by omega
      have hlow : 1000 * 2 ^ 1090 ≤ k * 2 ^ 1100 := by omega
      have hup : k * 2 ^ 1100 < 1000 * 2 ^ 1130 := by omega
      obtain ⟨m, e, hF, he, _, _, hF1, hF2⟩ := roundRat_spec false (den := 1000) hkpos (by decide) hlow hup (by decide) (by decide)
      rw [hF]
      obtain ⟨N, hN, hN1, hN2⟩ := fmtFixed_spec 3 false m he
      rw [hN]
      generalize m * 2 ^ (e + 1100).toNat = X at *
      have hF1' : 2 * (X * 1000) ≤ 2 * (k * 2 ^ 1100) + 1000 * 2 ^ 1077 := hF1
      have hF2' : 2 * (k * 2 ^ 1100) ≤ 2 * (X * 1000) + 1000 * 2 ^ 1077 := hF2
      have hN1' : 2 * (N * 2 ^ 1100) ≤ 2 * (X * 1000) + 2 ^ 1100 := hN1
      have hN2' : 2 * (X * 1000) ≤ 2 * (N * 2 ^ 1100) + 2 ^ 1100 := hN2
      have : N = k := by
        clear hF hN hF1 hF2 hN1 hN2 hlow hup
        omega
      subst this
      simp [decInt]
  · intro k hk
    have h : parseFloat (decInt 3 (k : Int)) = parseFloat (F64.decFixed 3 k) := by
      have : ¬ ((k : Int) < 0) := by omega
      simp [decInt, this]
    rw [h, parseFloat_decFixed (by decide) (by decide)]
    unfold f64OfMilli
    have h1000 : (10 : Nat) ^ 3 = 1000 := by decide
    rw [h1000]
    by_cases hk0 : k = 0
    · subst hk0; simp [roundRat]
    · have hkpos : 0 < k := by omega
      have hlow : 1000 * 2 ^ 1090 ≤ k * 2 ^ 1100 := by omega
      have hup : k * 2 ^ 1100 < 1000 * 2 ^ 1130 := by omega
      obtain ⟨m, e, hF, _⟩ := roundRat_spec false (den := 1000) hkpos (by decide) hlow hup (by decide) (by decide)
      rw [hF]

end Hls.Playlist
