import Hls.Playlist.MediaModel
/-!
# Lemmas about the primitives and the decoder of the media playlist model
(used by `Hls/Props/C14.lean` and `Hls/Props/C15.lean`).

Part 1: pure forms of the panic-carrying primitives (`cut`, `readLine`), totality
(no `panic`, no exhausted fuel) of every decoder function.
-/
namespace Hls.Playlist.MP

/-! ## `Res` -/

def Res.NoPanic {α} (r : Res α) : Prop := r ≠ .panic

theorem Res.noPanic_ok {α} (a : α) : (Res.ok a).NoPanic := by simp [Res.NoPanic]
theorem Res.noPanic_err {α} : (Res.err : Res α).NoPanic := by simp [Res.NoPanic]

theorem Res.NoPanic.bind {α β} {r : Res α} {f : α → Res β} (h1 : r.NoPanic)
    (h2 : ∀ a, r = .ok a → (f a).NoPanic) : (r >>= f).NoPanic := by
  cases r with
  | ok a => exact h2 a rfl
  | err => simp [Res.NoPanic]
  | panic => exact absurd rfl h1

theorem Res.noPanic_ofOption {α} (o : Option α) : (Res.ofOption o).NoPanic := by
  cases o <;> simp [Res.ofOption, Res.NoPanic]

theorem Res.bind_eq_ok {α β} {r : Res α} {f : α → Res β} {b : β} (h : (r >>= f) = .ok b) :
    ∃ a, r = .ok a ∧ f a = .ok b := by
  cases r with
  | ok a => exact ⟨a, rfl, h⟩
  | err => simp at h
  | panic => simp at h

/-! ## slicing -/

theorem sliceTo_ok {s : Str} {n : Nat} (h : n ≤ s.length) : sliceTo s n = .ok (s.take n) := by
  simp [sliceTo, h]

theorem sliceFrom_ok {s : Str} {n : Nat} (h : n ≤ s.length) : sliceFrom s n = .ok (s.drop n) := by
  simp [sliceFrom, h]

theorem indexByte_lt {c : Char} : ∀ {v : Str} {i : Nat}, indexByte c v = some i → i < v.length
  | [], i, h => by simp [indexByte] at h
  | x :: xs, i, h => by
    simp only [indexByte] at h
    split at h
    · cases h; simp
    · cases hi : indexByte c xs with
      | none => simp [hi] at h
      | some j =>
        simp [hi] at h
        have := indexByte_lt hi
        subst h; simp; omega

/-- pure form of `cut` -/
def cutP (c : Char) (v : Str) : Option (Str × Str) :=
  (indexByte c v).map fun i => (v.take i, v.drop (i + 1))

theorem cut_eq (c : Char) (v : Str) : cut c v = .ok (cutP c v) := by
  unfold cut cutP
  cases h : indexByte c v with
  | none => rfl
  | some i =>
    have := indexByte_lt h
    have h1 : i ≤ v.length := by omega
    have h2 : i + 1 ≤ v.length := by omega
    simp [sliceTo, sliceFrom, h1, h2]

theorem cutP_length {c : Char} {v a r : Str} (h : cutP c v = some (a, r)) : r.length < v.length := by
  unfold cutP at h
  cases hi : indexByte c v with
  | none => simp [hi] at h
  | some i =>
    have := indexByte_lt hi
    simp [hi] at h
    rw [← h.2]; simp; omega

/-- pure form of `readLine` -/
def readLineP (s : Str) : Str × Str :=
  match cutP '\n' s with
  | none => (s, [])
  | some (line, remaining) =>
    if line.getLast? = some '\r' then (line.take (line.length - 1), remaining) else (line, remaining)

theorem readLine_eq (s : Str) : readLine s = .ok (readLineP s) := by
  unfold readLine readLineP
  rw [cut_eq]
  simp only [Res.ok_bind]
  cases h : cutP '\n' s with
  | none => rfl
  | some p =>
    obtain ⟨line, rem⟩ := p
    simp only
    split
    · simp [sliceTo]
    · rfl

theorem readLineP_nil : readLineP [] = ([], []) := by
  simp [readLineP, cutP, indexByte]

theorem readLineP_length {s : Str} (h : s ≠ []) : (readLineP s).2.length < s.length := by
  unfold readLineP
  cases hc : cutP '\n' s with
  | none =>
    cases s with
    | nil => exact absurd rfl h
    | cons => simp
  | some p =>
    obtain ⟨line, rem⟩ := p
    have := cutP_length hc
    simp only
    split <;> simpa using this

theorem hasPrefix_length : ∀ {s p : Str}, hasPrefix s p = true → p.length ≤ s.length
  | _, [], _ => by simp
  | [], _ :: _, h => by simp [hasPrefix] at h
  | a :: s, b :: p, h => by
    simp [hasPrefix] at h
    have := hasPrefix_length h.2
    simp; omega

/-! ## attribute tokenizer: totality -/

theorem attrsLoop_noPanic : ∀ (fuel : Nat) (v : Str) (a : Attrs), v.length < fuel → (attrsLoop fuel v a).NoPanic
  | 0, v, a, h => by omega
  | fuel + 1, v, a, h => by
    unfold attrsLoop
    split
    · exact Res.noPanic_ok _
    · rw [cut_eq]
      simp only [Res.ok_bind]
      cases hc : cutP '=' v with
      | none => exact Res.noPanic_err
      | some p =>
        obtain ⟨key, v1⟩ := p
        have hl := cutP_length hc
        simp only
        split
        · -- quoted
          rename_i rest
          rw [sliceFrom_ok (by simp)]
          simp only [Res.ok_bind, cut_eq, List.drop_succ_cons, List.drop_zero]
          cases hq : cutP '"' rest with
          | none => exact Res.noPanic_err
          | some q =>
            obtain ⟨val, v2⟩ := q
            have hl2 := cutP_length hq
            simp only
            split
            · apply attrsLoop_noPanic; simp at hl ⊢; omega
            · rename_i d rest2
              split
              · exact Res.noPanic_err
              · rw [sliceFrom_ok (by simp)]
                simp only [Res.ok_bind]
                apply attrsLoop_noPanic
                simp at hl hl2 ⊢; omega
        · rw [cut_eq]
          simp only [Res.ok_bind]
          cases hq : cutP ',' v1 with
          | none => exact Res.noPanic_ok _
          | some q =>
            obtain ⟨val, v2⟩ := q
            have hl2 := cutP_length hq
            simp only
            apply attrsLoop_noPanic
            omega

theorem parseAttrs_noPanic (v : Str) : (parseAttrs v).NoPanic :=
  attrsLoop_noPanic _ _ _ (by simp)


/-! ## per-tag decoders: totality -/

theorem rangeAttrs_noPanic {α} {f : α → Str → Str → Res α} (hf : ∀ t k v, (f t k v).NoPanic) :
    ∀ (attrs : Attrs) (init : α), (rangeAttrs attrs init f).NoPanic
  | [], init => by simp [rangeAttrs, Res.NoPanic]
  | kv :: rest, init => by
    simp only [rangeAttrs, List.foldlM_cons]
    exact Res.NoPanic.bind (hf _ _ _) (fun a _ => rangeAttrs_noPanic hf rest a)

theorem byteRange_unmarshal_noPanic (v : Str) : (ByteRange.unmarshal v).NoPanic := by
  unfold ByteRange.unmarshal
  rw [cut_eq]
  simp only [Res.ok_bind]
  cases cutP '@' v with
  | none =>
    simp only
    exact Res.NoPanic.bind (Res.noPanic_ofOption _) (fun _ _ => Res.noPanic_ok _)
  | some p =>
    obtain ⟨a, r⟩ := p
    simp only
    exact Res.NoPanic.bind (Res.noPanic_ofOption _) (fun _ _ =>
      Res.NoPanic.bind (Res.noPanic_ofOption _) (fun _ _ => Res.noPanic_ok _))

section
variable (C : Codec)

theorem durUnmarshal_noPanic (v : Str) : (durUnmarshal C v).NoPanic := Res.noPanic_ofOption _

/-- a decoder of the shape `attrs ← parseAttrs v; t ← rangeAttrs attrs init set; check t` -/
theorem attrDecoder_noPanic {α β} {set : α → Str → Str → Res α} (hset : ∀ t k v, (set t k v).NoPanic)
    (init : α) (fin : α → Res β) (hfin : ∀ t, (fin t).NoPanic) (v : Str) :
    (do let attrs ← parseAttrs v; let t ← rangeAttrs attrs init set; fin t).NoPanic :=
  Res.NoPanic.bind (parseAttrs_noPanic v) (fun attrs _ =>
    Res.NoPanic.bind (rangeAttrs_noPanic hset attrs init) (fun t _ => hfin t))

theorem Start.set_noPanic (t : Int) (k v : Str) : (Start.set C t k v).NoPanic := by
  unfold Start.set; split
  · exact durUnmarshal_noPanic C v
  · exact Res.noPanic_ok _

theorem Start.unmarshal_noPanic (v : Str) : (Start.unmarshal C v).NoPanic := by
  unfold Start.unmarshal
  apply attrDecoder_noPanic (Start.set_noPanic C)
  intro t; split
  · exact Res.noPanic_err
  · exact Res.noPanic_ok _

theorem ServerControl.set_noPanic (t : ServerControl) (k v : Str) : (ServerControl.set C t k v).NoPanic := by
  unfold ServerControl.set
  split
  · exact Res.noPanic_ok _
  · split
    · exact Res.NoPanic.bind (durUnmarshal_noPanic C v) (fun _ _ => Res.noPanic_ok _)
    · split
      · exact Res.NoPanic.bind (durUnmarshal_noPanic C v) (fun _ _ => Res.noPanic_ok _)
      · exact Res.noPanic_ok _

theorem ServerControl.unmarshal_noPanic (v : Str) : (ServerControl.unmarshal C v).NoPanic := by
  unfold ServerControl.unmarshal
  exact Res.NoPanic.bind (parseAttrs_noPanic v) (fun attrs _ => rangeAttrs_noPanic (ServerControl.set_noPanic C) attrs _)

theorem PartInf.set_noPanic (t : Int) (k v : Str) : (PartInf.set C t k v).NoPanic := by
  unfold PartInf.set; split
  · exact durUnmarshal_noPanic C v
  · exact Res.noPanic_ok _

theorem PartInf.unmarshal_noPanic (v : Str) : (PartInf.unmarshal C v).NoPanic := by
  unfold PartInf.unmarshal
  apply attrDecoder_noPanic (PartInf.set_noPanic C)
  intro t; split
  · exact Res.noPanic_err
  · exact Res.noPanic_ok _

theorem Part.set_noPanic (p : Part) (k v : Str) : (Part.set C p k v).NoPanic := by
  unfold Part.set
  split
  · exact Res.NoPanic.bind (durUnmarshal_noPanic C v) (fun _ _ => Res.noPanic_ok _)
  · split
    · exact Res.noPanic_ok _
    · split
      · exact Res.noPanic_ok _
      · split
        · exact Res.NoPanic.bind (byteRange_unmarshal_noPanic v) (fun _ _ => Res.noPanic_ok _)
        · split <;> exact Res.noPanic_ok _

theorem Part.unmarshal_noPanic (v : Str) : (Part.unmarshal C v).NoPanic := by
  unfold Part.unmarshal
  apply attrDecoder_noPanic (Part.set_noPanic C)
  intro t; split
  · exact Res.noPanic_err
  · split
    · exact Res.noPanic_err
    · exact Res.noPanic_ok _

end

theorem MapTag.set_noPanic (t : MapTag) (k v : Str) : (MapTag.set t k v).NoPanic := by
  unfold MapTag.set
  split
  · exact Res.noPanic_ok _
  · split
    · exact Res.NoPanic.bind (byteRange_unmarshal_noPanic v) (fun _ _ => Res.noPanic_ok _)
    · exact Res.noPanic_ok _

theorem MapTag.unmarshal_noPanic (v : Str) : (MapTag.unmarshal v).NoPanic := by
  unfold MapTag.unmarshal
  apply attrDecoder_noPanic MapTag.set_noPanic
  intro t; split
  · exact Res.noPanic_err
  · exact Res.noPanic_ok _

theorem Key.set_noPanic (t : Key) (k v : Str) : (Key.set t k v).NoPanic := by
  unfold Key.set
  split
  · split
    · exact Res.noPanic_err
    · exact Res.noPanic_ok _
  · split
    · exact Res.noPanic_ok _
    · split
      · exact Res.noPanic_ok _
      · split
        · exact Res.noPanic_ok _
        · split <;> exact Res.noPanic_ok _

theorem Key.unmarshal_noPanic (v : Str) : (Key.unmarshal v).NoPanic := by
  unfold Key.unmarshal
  apply attrDecoder_noPanic Key.set_noPanic
  intro t; split
  · exact Res.noPanic_err
  · exact Res.noPanic_ok _

theorem Skip.set_noPanic (t : Int × Bool) (k v : Str) : (Skip.set t k v).NoPanic := by
  unfold Skip.set
  split
  · exact Res.NoPanic.bind (Res.noPanic_ofOption _) (fun _ _ => Res.noPanic_ok _)
  · exact Res.noPanic_ok _

theorem Skip.unmarshal_noPanic (v : Str) : (Skip.unmarshal v).NoPanic := by
  unfold Skip.unmarshal
  apply attrDecoder_noPanic Skip.set_noPanic
  intro t; split
  · exact Res.noPanic_err
  · exact Res.noPanic_ok _

theorem PreloadHint.set_noPanic (t : PreloadHint × Bool) (k v : Str) : (PreloadHint.set t k v).NoPanic := by
  unfold PreloadHint.set
  split
  · split
    · exact Res.noPanic_err
    · exact Res.noPanic_ok _
  · split
    · exact Res.noPanic_ok _
    · split
      · exact Res.NoPanic.bind (Res.noPanic_ofOption _) (fun _ _ => Res.noPanic_ok _)
      · split
        · exact Res.NoPanic.bind (Res.noPanic_ofOption _) (fun _ _ => Res.noPanic_ok _)
        · exact Res.noPanic_ok _

theorem PreloadHint.unmarshal_noPanic (v : Str) : (PreloadHint.unmarshal v).NoPanic := by
  unfold PreloadHint.unmarshal
  apply attrDecoder_noPanic PreloadHint.set_noPanic
  intro t; split
  · exact Res.noPanic_err
  · split
    · exact Res.noPanic_err
    · exact Res.noPanic_ok _


/-! ## the dispatch chain and the line loop: totality -/

/-- whatever case of a table fires, its literal is not longer than the line
(for `uriLine` cases the literal is empty) -/
theorem classify_lit_length : ∀ (tbl : List (Tag × MatchKind × Str)) (line : Str) (tag : Tag) (lit : Str),
    (∀ t k l, (t, k, l) ∈ tbl → k = .uriLine → l = []) →
    classify tbl line = some (tag, lit) → lit.length ≤ line.length
  | [], _, _, _, _, h => by simp [classify] at h
  | (t, k, l) :: rest, line, tag, lit, hu, h => by
    simp only [classify] at h
    split at h
    · rename_i hm
      simp at h
      obtain ⟨_, rfl⟩ := h
      cases k with
      | pfx => exact hasPrefix_length (by simpa [lineMatches] using hm)
      | eq =>
        simp [lineMatches] at hm
        simp [hm]
      | uriLine =>
        have := hu t .uriLine l (by simp) rfl
        simp [this]
    · exact classify_lit_length rest line tag lit (fun t' k' l' hmem => hu t' k' l' (by simp [hmem])) h

theorem dispatch_uriLine_lit : ∀ t k l, (t, k, l) ∈ dispatch → k = MatchKind.uriLine → l = [] := by
  intro t k l hmem hk
  subst hk
  simp [dispatch] at hmem
  exact hmem.2

theorem splitN2_eq (c : Char) (s : Str) :
    splitN2 c s = .ok (match cutP c s with | none => [s] | some (a, r) => [a, r]) := by
  unfold splitN2
  rw [cut_eq]
  simp only [Res.ok_bind]
  cases cutP c s with
  | none => rfl
  | some p => obtain ⟨a, r⟩ := p; rfl

theorem parseInt31_noPanic (line : Str) : (parseInt31 line).NoPanic :=
  Res.NoPanic.bind (Res.noPanic_ofOption _) (fun _ _ => Res.noPanic_ok _)

section
variable (C : Codec)

theorem handle_noPanic (st : St) (tag : Tag) (lit line : Str) (hl : lit.length ≤ line.length) :
    (handle C st tag lit line).NoPanic := by
  have hs : sliceFrom line lit.length = .ok (line.drop lit.length) := sliceFrom_ok hl
  cases tag <;> simp only [handle, hs, Res.ok_bind]
  case version =>
    refine Res.NoPanic.bind (parseInt31_noPanic _) (fun v _ => ?_)
    split
    · exact Res.noPanic_err
    · exact Res.noPanic_ok _
  case independentSegments => exact Res.noPanic_ok _
  case start => exact Res.NoPanic.bind (Start.unmarshal_noPanic C _) (fun _ _ => Res.noPanic_ok _)
  case allowCache => exact Res.noPanic_ok _
  case targetDuration =>
    split
    · rename_i i hi
      have := indexByte_lt hi
      rw [sliceTo_ok (by omega)]
      simp only [Res.ok_bind]
      exact Res.NoPanic.bind (parseInt31_noPanic _) (fun _ _ => Res.noPanic_ok _)
    · simp only [Res.pure_eq, Res.ok_bind]
      exact Res.NoPanic.bind (parseInt31_noPanic _) (fun _ _ => Res.noPanic_ok _)
  case serverControl => exact Res.NoPanic.bind (ServerControl.unmarshal_noPanic C _) (fun _ _ => Res.noPanic_ok _)
  case partInf => exact Res.NoPanic.bind (PartInf.unmarshal_noPanic C _) (fun _ _ => Res.noPanic_ok _)
  case mediaSequence => exact Res.NoPanic.bind (parseInt31_noPanic _) (fun _ _ => Res.noPanic_ok _)
  case discontinuitySequence => exact Res.NoPanic.bind (parseInt31_noPanic _) (fun _ _ => Res.noPanic_ok _)
  case playlistType =>
    split
    · exact Res.noPanic_err
    · exact Res.noPanic_ok _
  case map => exact Res.NoPanic.bind (MapTag.unmarshal_noPanic _) (fun _ _ => Res.noPanic_ok _)
  case key => exact Res.NoPanic.bind (Key.unmarshal_noPanic _) (fun _ _ => Res.noPanic_ok _)
  case skip => exact Res.NoPanic.bind (Skip.unmarshal_noPanic _) (fun _ _ => Res.noPanic_ok _)
  case discontinuity => exact Res.noPanic_ok _
  case gap => exact Res.noPanic_ok _
  case programDateTime => exact Res.NoPanic.bind (Res.noPanic_ofOption _) (fun _ _ => Res.noPanic_ok _)
  case bitrate => exact Res.NoPanic.bind (parseInt31_noPanic _) (fun _ _ => Res.noPanic_ok _)
  case extinf =>
    rw [splitN2_eq]
    simp only [Res.ok_bind]
    cases cutP ',' (List.drop lit.length line) with
    | none => simp [Res.NoPanic]
    | some p =>
      obtain ⟨a, r⟩ := p
      simp only [List.length_cons, List.length_nil, idx]
      simp only [Nat.zero_add, Nat.reduceAdd, ne_eq, not_true_eq_false, ↓reduceIte,
        List.getElem?_cons_zero, List.getElem?_cons_succ, Res.ok_bind]
      exact Res.NoPanic.bind (durUnmarshal_noPanic C _) (fun _ _ => Res.noPanic_ok _)
  case byteRange => exact Res.NoPanic.bind (byteRange_unmarshal_noPanic _) (fun _ _ => Res.noPanic_ok _)
  case part => exact Res.NoPanic.bind (Part.unmarshal_noPanic C _) (fun _ _ => Res.noPanic_ok _)
  case uri =>
    refine Res.NoPanic.bind ?_ (fun _ _ => Res.noPanic_ok _)
    unfold Segment.validate
    split
    · exact Res.noPanic_err
    · split
      · exact Res.noPanic_err
      · exact Res.noPanic_ok _
  case preloadHint => exact Res.NoPanic.bind (PreloadHint.unmarshal_noPanic _) (fun _ _ => Res.noPanic_ok _)
  case endlist => exact Res.noPanic_ok _

theorem step_noPanic (st : St) (line : Str) : (step C st line).NoPanic := by
  unfold step
  cases h : classify dispatch line with
  | none => exact Res.noPanic_ok _
  | some p =>
    obtain ⟨tag, lit⟩ := p
    exact handle_noPanic C st tag lit line (classify_lit_length dispatch line tag lit dispatch_uriLine_lit h)

/-- the line loop never runs out of fuel and never panics -/
theorem loop_noPanic : ∀ (fuel : Nat) (st : St) (s : Str), s.length < fuel → (loop C fuel st s).NoPanic
  | 0, _, _, h => by omega
  | fuel + 1, st, s, h => by
    unfold loop
    rw [readLine_eq]
    simp only [Res.ok_bind]
    split
    · exact Res.noPanic_ok _
    · rename_i hne
      refine Res.NoPanic.bind (step_noPanic C st _) (fun st' _ => loop_noPanic fuel st' _ ?_)
      cases s with
      | nil => simp [readLineP_nil] at hne
      | cons x xs =>
        have := readLineP_length (s := x :: xs) (by simp)
        omega

theorem skipHeader_noPanic (s : Str) : (skipHeader s).NoPanic := by
  unfold skipHeader
  rw [readLine_eq]
  simp only [Res.ok_bind]
  split
  · exact Res.noPanic_err
  · exact Res.noPanic_ok _

theorem Media.unmarshal_noPanic (buf : Str) : (Media.unmarshal C buf).NoPanic := by
  unfold Media.unmarshal
  refine Res.NoPanic.bind (skipHeader_noPanic buf) (fun s _ => ?_)
  refine Res.NoPanic.bind (loop_noPanic C _ _ s (by simp)) (fun st _ => ?_)
  simp only
  split
  · exact Res.noPanic_err
  · split
    · exact Res.noPanic_err
    · exact Res.noPanic_ok _

end

end Hls.Playlist.MP
