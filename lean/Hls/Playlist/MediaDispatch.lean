import Hls.Playlist.MediaRoundTrip
/-!
# What `step` does on each kind of line (`Media.Unmarshal`'s `switch`, case by case)

For every tag literal `lit` of the dispatch chain and ARBITRARY rest `body`, `step st (lit ++ body)`
is the body of exactly that `case` (no earlier prefix of the chain matches).
-/
namespace Hls.Playlist.MP

theorem sliceFrom_append_left (a b : Str) : sliceFrom (a ++ b) a.length = .ok b := by
  simp [sliceFrom]

section
variable (C : Codec)

theorem step_version (st : St) (body : Str) :
    step C st (cs!"#EXT-X-VERSION:" ++ body) =
      (parseInt31 body >>= fun v =>
        if v > maxSupportedVersion then .err else pure { st with m := { st.m with version := v } }) := by
  have hc : classify dispatch (cs!"#EXT-X-VERSION:" ++ body) = some (.version, cs!"#EXT-X-VERSION:") := by
    simp [classify, dispatch, lineMatches, hasPrefix]
  simp only [step, hc, handle]
  rw [sliceFrom_append_left]
  rfl

theorem step_independentSegments (st : St) :
    step C st cs!"#EXT-X-INDEPENDENT-SEGMENTS" = .ok { st with m := { st.m with independentSegments := true } } := by
  have hc : classify dispatch cs!"#EXT-X-INDEPENDENT-SEGMENTS" = some (.independentSegments, cs!"#EXT-X-INDEPENDENT-SEGMENTS") := by
    decide
  simp only [step, hc, handle]
  rfl

theorem step_start (st : St) (body : Str) :
    step C st (cs!"#EXT-X-START:" ++ body) =
      (Start.unmarshal C body >>= fun t => pure { st with m := { st.m with start := some t } }) := by
  have hc : classify dispatch (cs!"#EXT-X-START:" ++ body) = some (.start, cs!"#EXT-X-START:") := by
    simp [classify, dispatch, lineMatches, hasPrefix]
  simp only [step, hc, handle]
  rw [sliceFrom_append_left]
  rfl

theorem step_allowCache (st : St) (body : Str) :
    step C st (cs!"#EXT-X-ALLOW-CACHE:" ++ body) =
      .ok { st with m := { st.m with allowCache := some (decide (body = yes)) } } := by
  have hc : classify dispatch (cs!"#EXT-X-ALLOW-CACHE:" ++ body) = some (.allowCache, cs!"#EXT-X-ALLOW-CACHE:") := by
    simp [classify, dispatch, lineMatches, hasPrefix]
  simp only [step, hc, handle]
  rw [sliceFrom_append_left]
  rfl

theorem step_targetDuration (st : St) (body : Str) (hdot : '.' ∉ body) :
    step C st (cs!"#EXT-X-TARGETDURATION:" ++ body) =
      (parseInt31 body >>= fun v => pure { st with m := { st.m with targetDuration := v } }) := by
  have hc : classify dispatch (cs!"#EXT-X-TARGETDURATION:" ++ body) = some (.targetDuration, cs!"#EXT-X-TARGETDURATION:") := by
    simp [classify, dispatch, lineMatches, hasPrefix]
  simp only [step, hc, handle]
  rw [sliceFrom_append_left]
  simp only [Res.ok_bind, indexByte_none hdot]
  rfl

theorem step_serverControl (st : St) (body : Str) :
    step C st (cs!"#EXT-X-SERVER-CONTROL:" ++ body) =
      (ServerControl.unmarshal C body >>= fun t => pure { st with m := { st.m with serverControl := some t } }) := by
  have hc : classify dispatch (cs!"#EXT-X-SERVER-CONTROL:" ++ body) = some (.serverControl, cs!"#EXT-X-SERVER-CONTROL:") := by
    simp [classify, dispatch, lineMatches, hasPrefix]
  simp only [step, hc, handle]
  rw [sliceFrom_append_left]
  rfl

theorem step_partInf (st : St) (body : Str) :
    step C st (cs!"#EXT-X-PART-INF:" ++ body) =
      (PartInf.unmarshal C body >>= fun t => pure { st with m := { st.m with partInf := some t } }) := by
  have hc : classify dispatch (cs!"#EXT-X-PART-INF:" ++ body) = some (.partInf, cs!"#EXT-X-PART-INF:") := by
    simp [classify, dispatch, lineMatches, hasPrefix]
  simp only [step, hc, handle]
  rw [sliceFrom_append_left]
  rfl

theorem step_mediaSequence (st : St) (body : Str) :
    step C st (cs!"#EXT-X-MEDIA-SEQUENCE:" ++ body) =
      (parseInt31 body >>= fun v => pure { st with m := { st.m with mediaSequence := v } }) := by
  have hc : classify dispatch (cs!"#EXT-X-MEDIA-SEQUENCE:" ++ body) = some (.mediaSequence, cs!"#EXT-X-MEDIA-SEQUENCE:") := by
    simp [classify, dispatch, lineMatches, hasPrefix]
  simp only [step, hc, handle]
  rw [sliceFrom_append_left]
  rfl

theorem step_discontinuitySequence (st : St) (body : Str) :
    step C st (cs!"#EXT-X-DISCONTINUITY-SEQUENCE:" ++ body) =
      (parseInt31 body >>= fun v => pure { st with m := { st.m with discontinuitySequence := some v } }) := by
  have hc : classify dispatch (cs!"#EXT-X-DISCONTINUITY-SEQUENCE:" ++ body) =
      some (.discontinuitySequence, cs!"#EXT-X-DISCONTINUITY-SEQUENCE:") := by
    simp [classify, dispatch, lineMatches, hasPrefix]
  simp only [step, hc, handle]
  rw [sliceFrom_append_left]
  rfl

theorem step_playlistType (st : St) (body : Str) :
    step C st (cs!"#EXT-X-PLAYLIST-TYPE:" ++ body) =
      (if body ≠ cs!"EVENT" ∧ body ≠ cs!"VOD" then .err
       else pure { st with m := { st.m with playlistType := some body } }) := by
  have hc : classify dispatch (cs!"#EXT-X-PLAYLIST-TYPE:" ++ body) = some (.playlistType, cs!"#EXT-X-PLAYLIST-TYPE:") := by
    simp [classify, dispatch, lineMatches, hasPrefix]
  simp only [step, hc, handle]
  rw [sliceFrom_append_left]
  rfl

theorem step_map (st : St) (body : Str) :
    step C st (cs!"#EXT-X-MAP:" ++ body) =
      (MapTag.unmarshal body >>= fun t => pure { st with m := { st.m with map := some t } }) := by
  have hc : classify dispatch (cs!"#EXT-X-MAP:" ++ body) = some (.map, cs!"#EXT-X-MAP:") := by
    simp [classify, dispatch, lineMatches, hasPrefix]
  simp only [step, hc, handle]
  rw [sliceFrom_append_left]
  rfl

theorem step_key (st : St) (body : Str) :
    step C st (cs!"#EXT-X-KEY:" ++ body) =
      (Key.unmarshal body >>= fun t => pure { st with curKey := some t }) := by
  have hc : classify dispatch (cs!"#EXT-X-KEY:" ++ body) = some (.key, cs!"#EXT-X-KEY:") := by
    simp [classify, dispatch, lineMatches, hasPrefix]
  simp only [step, hc, handle]
  rw [sliceFrom_append_left]
  rfl

theorem step_skip (st : St) (body : Str) :
    step C st (cs!"#EXT-X-SKIP:" ++ body) =
      (Skip.unmarshal body >>= fun t => pure { st with m := { st.m with skip := some t } }) := by
  have hc : classify dispatch (cs!"#EXT-X-SKIP:" ++ body) = some (.skip, cs!"#EXT-X-SKIP:") := by
    simp [classify, dispatch, lineMatches, hasPrefix]
  simp only [step, hc, handle]
  rw [sliceFrom_append_left]
  rfl

theorem step_discontinuity (st : St) :
    step C st cs!"#EXT-X-DISCONTINUITY" = .ok { st with cur := { st.cur with discontinuity := true } } := by
  have hc : classify dispatch cs!"#EXT-X-DISCONTINUITY" = some (.discontinuity, cs!"#EXT-X-DISCONTINUITY") := by decide
  simp only [step, hc, handle]
  rfl

theorem step_gap (st : St) :
    step C st cs!"#EXT-X-GAP" = .ok { st with cur := { st.cur with gap := true } } := by
  have hc : classify dispatch cs!"#EXT-X-GAP" = some (.gap, cs!"#EXT-X-GAP") := by decide
  simp only [step, hc, handle]
  rfl

theorem step_programDateTime (st : St) (body : Str) :
    step C st (cs!"#EXT-X-PROGRAM-DATE-TIME:" ++ body) =
      (Res.ofOption (C.parseTime body) >>= fun t => pure { st with cur := { st.cur with dateTime := some t } }) := by
  have hc : classify dispatch (cs!"#EXT-X-PROGRAM-DATE-TIME:" ++ body) =
      some (.programDateTime, cs!"#EXT-X-PROGRAM-DATE-TIME:") := by
    simp [classify, dispatch, lineMatches, hasPrefix]
  simp only [step, hc, handle]
  rw [sliceFrom_append_left]
  rfl

theorem step_bitrate (st : St) (body : Str) :
    step C st (cs!"#EXT-X-BITRATE:" ++ body) =
      (parseInt31 body >>= fun v => pure { st with cur := { st.cur with bitrate := some v } }) := by
  have hc : classify dispatch (cs!"#EXT-X-BITRATE:" ++ body) = some (.bitrate, cs!"#EXT-X-BITRATE:") := by
    simp [classify, dispatch, lineMatches, hasPrefix]
  simp only [step, hc, handle]
  rw [sliceFrom_append_left]
  rfl

/-- EXTINF with a duration text free of commas -/
theorem step_extinf (st : St) (dur title : Str) (hd : ',' ∉ dur) :
    step C st (cs!"#EXTINF:" ++ dur ++ ',' :: title) =
      (durUnmarshal C dur >>= fun d =>
        pure { st with cur := { st.cur with duration := d, title := trimSpace title, key := st.curKey } }) := by
  have hc : classify dispatch (cs!"#EXTINF:" ++ dur ++ ',' :: title) = some (.extinf, cs!"#EXTINF:") := by
    simp [classify, dispatch, lineMatches, hasPrefix]
  simp only [step, hc, handle]
  rw [List.append_assoc, sliceFrom_append_left]
  simp only [Res.ok_bind, splitN2_eq, cutP_append _ hd]
  simp [idx]

theorem step_byteRange (st : St) (body : Str) :
    step C st (cs!"#EXT-X-BYTERANGE:" ++ body) =
      (ByteRange.unmarshal body >>= fun br =>
        pure { st with cur := { st.cur with brLen := some br.length, brStart := br.start } }) := by
  have hc : classify dispatch (cs!"#EXT-X-BYTERANGE:" ++ body) = some (.byteRange, cs!"#EXT-X-BYTERANGE:") := by
    simp [classify, dispatch, lineMatches, hasPrefix]
  simp only [step, hc, handle]
  rw [sliceFrom_append_left]
  rfl

theorem step_part (st : St) (body : Str) :
    step C st (cs!"#EXT-X-PART:" ++ body) =
      (Part.unmarshal C body >>= fun p => pure { st with cur := { st.cur with parts := st.cur.parts ++ [p] } }) := by
  have hc : classify dispatch (cs!"#EXT-X-PART:" ++ body) = some (.part, cs!"#EXT-X-PART:") := by
    simp [classify, dispatch, lineMatches, hasPrefix]
  simp only [step, hc, handle]
  rw [sliceFrom_append_left]
  rfl

theorem step_uri (st : St) (c : Char) (rest : Str) (hc : c ≠ '#') :
    step C st (c :: rest) =
      (Segment.validate { st.cur with uri := c :: rest } >>= fun _ =>
        pure { st with m := { st.m with segments := st.m.segments ++ [{ st.cur with uri := c :: rest }] }, cur := {} }) := by
  have hcl : classify dispatch (c :: rest) = some (.uri, []) := by
    simp [classify, dispatch, lineMatches, hasPrefix, hc]
  simp only [step, hcl, handle]

theorem step_preloadHint (st : St) (body : Str) :
    step C st (cs!"#EXT-X-PRELOAD-HINT:" ++ body) =
      (PreloadHint.unmarshal body >>= fun t => pure { st with m := { st.m with preloadHint := some t } }) := by
  have hc : classify dispatch (cs!"#EXT-X-PRELOAD-HINT:" ++ body) = some (.preloadHint, cs!"#EXT-X-PRELOAD-HINT:") := by
    simp [classify, dispatch, lineMatches, hasPrefix]
  simp only [step, hc, handle]
  rw [sliceFrom_append_left]
  rfl

theorem step_endlist (st : St) :
    step C st cs!"#EXT-X-ENDLIST" = .ok { st with m := { st.m with endlist := true } } := by
  have hc : classify dispatch cs!"#EXT-X-ENDLIST" = some (.endlist, cs!"#EXT-X-ENDLIST") := by decide
  simp only [step, hc, handle]
  rfl

end
end Hls.Playlist.MP
