import Hls.Playlist.MediaPrim
/-!
# Media playlist — executable model of `pkg/playlist/media*.go`

One Lean function per Go function, statement by statement:

| Go | Lean |
|---|---|
| `MultivariantStart.unmarshal/marshal` (used as `MediaStart`) | `Start.unmarshal/marshal` |
| `MediaServerControl.unmarshal/marshal` | `ServerControl.unmarshal/marshal` (`marshalLegacy` = unchanged tree, F3) |
| `MediaPartInf`, `MediaMap`, `MediaKey`, `MediaSkip`, `MediaPart`, `MediaPreloadHint` | `PartInf.*`, `MapTag.*`, `Key.*`, `Skip.*`, `Part.*`, `PreloadHint.*` |
| `MediaSegment.validate/marshal` | `Segment.validate/marshal` |
| `Media.Unmarshal` | `Media.unmarshal` = `skipHeader`, `loop` (fuel) over `step` (first-match `dispatch` chain), post-checks |
| `Media.Marshal` | `Media.marshal` (fixed tree) / `Media.marshalLegacy` (unchanged tree: F1, F2, F3) |

Pointers: `*T` is `Option T`.  Go shares one `*MediaKey` between consecutive segments; values are
immutable after decoding, and `MediaKey.Equal` starts with pointer equality which implies
structural equality, so `Option Key` with structural equality is observationally the same.
Slices of pointers (`[]*MediaSegment`) are lists of values: `nil` entries (on which `Marshal`
would dereference nil) are not representable — a stated scoping of the value space.
-/
namespace Hls.Playlist.MP

/-! ## Values -/

structure Key where
  method : Str := []
  uri : Str := []
  iv : Str := []
  keyFormat : Str := []
  keyFormatVersions : Str := []
  deriving DecidableEq, Repr

structure Part where
  duration : Int := 0
  uri : Str := []
  independent : Bool := false
  brLen : Option Nat := none
  brStart : Option Nat := none
  gap : Bool := false
  deriving DecidableEq, Repr

structure Segment where
  duration : Int := 0
  title : Str := []
  uri : Str := []
  discontinuity : Bool := false
  gap : Bool := false
  dateTime : Option Time := none
  bitrate : Option Int := none
  key : Option Key := none
  brLen : Option Nat := none
  brStart : Option Nat := none
  parts : List Part := []
  deriving DecidableEq, Repr

structure ServerControl where
  canBlockReload : Bool := false
  partHoldBack : Option Int := none
  canSkipUntil : Option Int := none
  deriving DecidableEq, Repr

structure MapTag where
  uri : Str := []
  brLen : Option Nat := none
  brStart : Option Nat := none
  deriving DecidableEq, Repr

structure PreloadHint where
  uri : Str := []
  brStart : Nat := 0
  brLen : Option Nat := none
  deriving DecidableEq, Repr

/-- `playlist.Media`.  `start`, `partInf`, `skip` carry the single field of their tag type
(`TimeOffset`, `PartTarget`, `SkippedSegments`). -/
structure Media where
  version : Int := 0
  independentSegments : Bool := false
  start : Option Int := none
  allowCache : Option Bool := none
  targetDuration : Int := 0
  serverControl : Option ServerControl := none
  partInf : Option Int := none
  mediaSequence : Int := 0
  discontinuitySequence : Option Int := none
  playlistType : Option Str := none
  map : Option MapTag := none
  skip : Option Int := none
  segments : List Segment := []
  parts : List Part := []
  preloadHint : Option PreloadHint := none
  endlist : Bool := false
  deriving DecidableEq, Repr

def maxSupportedVersion : Int := 10

/-- `if o != nil { ret += f(*o) }` -/
def optList {α β} (o : Option α) (f : α → List β) : List β :=
  match o with
  | some a => f a
  | none => []

/-! ## Tag literals -/

def yes : Str := cs!"YES"

section
variable (C : Codec)

/-- `primitives.Duration.Unmarshal` -/
def durUnmarshal (v : Str) : Res Int := Res.ofOption (C.parseDur v)

/-- `range attrs { switch key … }` : every key is handled independently, in map order. -/
def rangeAttrs {α} (attrs : Attrs) (init : α) (f : α → Str → Str → Res α) : Res α :=
  attrs.foldlM (fun t kv => f t kv.1 kv.2) init

/-! ## EXT-X-START (`multivariant_start.go`) -/

def Start.set (t : Int) (key val : Str) : Res Int :=
  if key = cs!"TIME-OFFSET" then durUnmarshal C val else pure t

def Start.unmarshal (v : Str) : Res Int := do
  let attrs ← parseAttrs v
  let t ← rangeAttrs attrs 0 (Start.set C)
  if t = 0 then .err  -- TIME-OFFSET missing
  else pure t

def Start.marshal (t : Int) : Str :=
  cs!"#EXT-X-START:TIME-OFFSET=" ++ C.fmtDur t ++ ['\n']

/-! ## EXT-X-SERVER-CONTROL (`media_server_control.go`) -/

def ServerControl.set (t : ServerControl) (key val : Str) : Res ServerControl :=
  if key = cs!"CAN-BLOCK-RELOAD" then pure { t with canBlockReload := decide (val = yes) }
  else if key = cs!"PART-HOLD-BACK" then do
    let d ← durUnmarshal C val
    pure { t with partHoldBack := some d }
  else if key = cs!"CAN-SKIP-UNTIL" then do
    let d ← durUnmarshal C val
    pure { t with canSkipUntil := some d }
  else pure t

def ServerControl.unmarshal (v : Str) : Res ServerControl := do
  let attrs ← parseAttrs v
  rangeAttrs attrs {} (ServerControl.set C)

/-- the unchanged tree (F3): every optional attribute is prefixed with a comma -/
def ServerControl.marshalLegacy (t : ServerControl) : Str :=
  cs!"#EXT-X-SERVER-CONTROL:" ++
    (if t.canBlockReload then cs!"CAN-BLOCK-RELOAD=YES" else []) ++
    (optList t.partHoldBack fun d => cs!",PART-HOLD-BACK=" ++ C.fmtDur d) ++
    (optList t.canSkipUntil fun d => cs!",CAN-SKIP-UNTIL=" ++ C.fmtDur d) ++
    ['\n']

/-- `strings.Join(xs, ",")` -/
def joinComma : List Str → Str
  | [] => []
  | [x] => x
  | x :: rest => x ++ ',' :: joinComma rest

def ServerControl.attrTexts (t : ServerControl) : List Str :=
  (if t.canBlockReload then [cs!"CAN-BLOCK-RELOAD=YES"] else []) ++
    (optList t.partHoldBack fun d => [cs!"PART-HOLD-BACK=" ++ C.fmtDur d]) ++
    (optList t.canSkipUntil fun d => [cs!"CAN-SKIP-UNTIL=" ++ C.fmtDur d])

/-- the repaired tree (fix-F3): present attributes joined with commas -/
def ServerControl.marshal (t : ServerControl) : Str :=
  cs!"#EXT-X-SERVER-CONTROL:" ++ joinComma (ServerControl.attrTexts C t) ++ ['\n']

/-! ## EXT-X-PART-INF (`media_part_inf.go`) -/

def PartInf.set (t : Int) (key val : Str) : Res Int :=
  if key = cs!"PART-TARGET" then durUnmarshal C val else pure t

def PartInf.unmarshal (v : Str) : Res Int := do
  let attrs ← parseAttrs v
  let t ← rangeAttrs attrs 0 (PartInf.set C)
  if t = 0 then .err  -- PART-TARGET missing
  else pure t

def PartInf.marshal (t : Int) : Str :=
  cs!"#EXT-X-PART-INF:PART-TARGET=" ++ C.fmtDur t ++ ['\n']

end

/-! ## EXT-X-MAP (`media_map.go`) -/

def MapTag.set (t : MapTag) (key val : Str) : Res MapTag :=
  if key = cs!"URI" then pure { t with uri := val }
  else if key = cs!"BYTERANGE" then do
    let br ← ByteRange.unmarshal val
    pure { t with brLen := some br.length, brStart := br.start }
  else pure t

def MapTag.unmarshal (v : Str) : Res MapTag := do
  let attrs ← parseAttrs v
  let t ← rangeAttrs attrs {} MapTag.set
  if t.uri = [] then .err  -- URI not found
  else pure t

def MapTag.marshal (t : MapTag) : Str :=
  cs!"#EXT-X-MAP:URI=\"" ++ t.uri ++ ['"'] ++
    (optList t.brLen fun l => cs!",BYTERANGE=" ++ ByteRange.marshal { length := l, start := t.brStart }) ++
    ['\n']

/-! ## EXT-X-KEY (`media_key.go`) -/

def methodNone : Str := cs!"NONE"
def methodAES128 : Str := cs!"AES-128"
def methodSampleAES : Str := cs!"SAMPLE-AES"

def Key.set (t : Key) (key val : Str) : Res Key :=
  if key = cs!"METHOD" then
    if val ≠ methodNone ∧ val ≠ methodAES128 ∧ val ≠ methodSampleAES then .err  -- invalid method
    else pure { t with method := val }
  else if key = cs!"URI" then pure { t with uri := val }
  else if key = cs!"IV" then pure { t with iv := val }
  else if key = cs!"KEYFORMAT" then pure { t with keyFormat := val }
  else if key = cs!"KEYFORMATVERSIONS" then pure { t with keyFormatVersions := val }
  else pure t

def Key.unmarshal (v : Str) : Res Key := do
  let attrs ← parseAttrs v
  let t ← rangeAttrs attrs {} Key.set
  if (t.method = methodAES128 ∨ t.method = methodSampleAES) ∧ t.uri = [] then .err  -- URI is required
  else pure t

def Key.marshal (t : Key) : Str :=
  cs!"#EXT-X-KEY:METHOD=" ++ t.method ++
    (if t.method ≠ methodNone then
      cs!",URI=\"" ++ t.uri ++ ['"'] ++
        (if t.iv ≠ [] then cs!",IV=" ++ t.iv else []) ++
        (if t.keyFormat ≠ [] then cs!",KEYFORMAT=\"" ++ t.keyFormat ++ ['"'] else []) ++
        (if t.keyFormatVersions ≠ [] then cs!",KEYFORMATVERSIONS=\"" ++ t.keyFormatVersions ++ ['"'] else [])
     else []) ++
    ['\n']

/-! ## EXT-X-SKIP (`media_skip.go`) -/

/-- state of the loop: (`SkippedSegments`, `skipSegFound`) -/
def Skip.set (t : Int × Bool) (key val : Str) : Res (Int × Bool) :=
  if key = cs!"SKIPPED-SEGMENTS" then do
    let tmp ← Res.ofOption (parseUint 31 val)
    pure ((tmp : Int), true)
  else pure t

def Skip.unmarshal (v : Str) : Res Int := do
  let attrs ← parseAttrs v
  let t ← rangeAttrs attrs ((0 : Int), false) Skip.set
  if !t.2 then .err  -- SKIPPED-SEGMENTS missing
  else pure t.1

def Skip.marshal (t : Int) : Str :=
  cs!"#EXT-X-SKIP:SKIPPED-SEGMENTS=" ++ formatInt t ++ ['\n']

/-! ## EXT-X-PRELOAD-HINT (`media_preload_hint.go`) -/

/-- state of the loop: (hint, `typeRecv`) -/
def PreloadHint.set (t : PreloadHint × Bool) (key val : Str) : Res (PreloadHint × Bool) :=
  if key = cs!"TYPE" then
    if val ≠ cs!"PART" then .err  -- unsupported type
    else pure (t.1, true)
  else if key = cs!"URI" then pure ({ t.1 with uri := val }, t.2)
  else if key = cs!"BYTERANGE-START" then do
    let tmp ← Res.ofOption (parseUint 64 val)
    pure ({ t.1 with brStart := tmp }, t.2)
  else if key = cs!"BYTERANGE-LENGTH" then do
    let tmp ← Res.ofOption (parseUint 64 val)
    pure ({ t.1 with brLen := some tmp }, t.2)
  else pure t

def PreloadHint.unmarshal (v : Str) : Res PreloadHint := do
  let attrs ← parseAttrs v
  let t ← rangeAttrs attrs (({} : PreloadHint), false) PreloadHint.set
  if !t.2 then .err  -- TYPE is missing
  else if t.1.uri = [] then .err  -- URI is missing
  else pure t.1

def PreloadHint.marshal (t : PreloadHint) : Str :=
  cs!"#EXT-X-PRELOAD-HINT:TYPE=PART,URI=\"" ++ t.uri ++ ['"'] ++
    (if t.brStart ≠ 0 then cs!",BYTERANGE-START=" ++ formatNat t.brStart else []) ++
    (optList t.brLen fun l => cs!",BYTERANGE-LENGTH=" ++ formatNat l) ++
    ['\n']

section
variable (C : Codec)

/-! ## EXT-X-PART (`media_part.go`) -/

def Part.set (p : Part) (key val : Str) : Res Part :=
  if key = cs!"DURATION" then do
    let d ← durUnmarshal C val
    pure { p with duration := d }
  else if key = cs!"URI" then pure { p with uri := val }
  else if key = cs!"INDEPENDENT" then pure { p with independent := decide (val = yes) }
  else if key = cs!"BYTERANGE" then do
    let br ← ByteRange.unmarshal val
    pure { p with brLen := some br.length, brStart := br.start }
  else if key = cs!"GAP" then pure { p with gap := true }
  else pure p

def Part.unmarshal (v : Str) : Res Part := do
  let attrs ← parseAttrs v
  let p ← rangeAttrs attrs {} (Part.set C)
  if p.duration = 0 then .err  -- DURATION missing
  else if p.uri = [] then .err  -- URI missing
  else pure p

def Part.marshal (p : Part) : Str :=
  cs!"#EXT-X-PART:DURATION=" ++ C.fmtDur p.duration ++ cs!",URI=\"" ++ p.uri ++ ['"'] ++
    (if p.independent then cs!",INDEPENDENT=YES" else []) ++
    (optList p.brLen fun l => cs!",BYTERANGE=" ++ ByteRange.marshal { length := l, start := p.brStart }) ++
    (if p.gap then cs!",GAP=YES" else []) ++
    ['\n']

def marshalParts : List Part → Str
  | [] => []
  | p :: rest => Part.marshal C p ++ marshalParts rest

/-! ## Segments (`media_segment.go`) -/

def Segment.validate (s : Segment) : Res Unit :=
  if s.duration = 0 then .err  -- duration missing
  else if s.uri = [] then .err  -- URI missing
  else pure ()

def Segment.marshal (s : Segment) : Str :=
  (if s.discontinuity then cs!"#EXT-X-DISCONTINUITY\n" else []) ++
    (if s.gap then cs!"#EXT-X-GAP\n" else []) ++
    (optList s.dateTime fun t => cs!"#EXT-X-PROGRAM-DATE-TIME:" ++ C.fmtTime t ++ ['\n']) ++
    (optList s.bitrate fun v => cs!"#EXT-X-BITRATE:" ++ formatInt v ++ ['\n']) ++
    marshalParts C s.parts ++
    cs!"#EXTINF:" ++ C.fmtDur s.duration ++ [','] ++ s.title ++ ['\n'] ++
    (optList s.brLen fun l => cs!"#EXT-X-BYTERANGE:" ++ ByteRange.marshal { length := l, start := s.brStart } ++ ['\n']) ++
    s.uri ++ ['\n']

/-! ## `Media.Unmarshal` -/

inductive Tag where
  | version | independentSegments | start | allowCache | targetDuration | serverControl | partInf
  | mediaSequence | discontinuitySequence | playlistType | map | key | skip | discontinuity | gap
  | programDateTime | bitrate | extinf | byteRange | part | uri | preloadHint | endlist
  deriving DecidableEq, Repr

/-- how a `case` of the `switch` tests the line -/
inductive MatchKind where
  | pfx      -- `strings.HasPrefix(line, lit)`
  | eq       -- `line == lit`
  | uriLine  -- `len(line) != 0 && line[0] != '#'`
  deriving DecidableEq, Repr

/-- the `switch { case … }` chain of `Media.Unmarshal`, in source order (pinned against the
regenerated `Hls.Gen.PlaylistMedia.dispatch` in `MediaGenPins`). -/
def dispatch : List (Tag × MatchKind × Str) := [
  (.version, .pfx, cs!"#EXT-X-VERSION:"),
  (.independentSegments, .pfx, cs!"#EXT-X-INDEPENDENT-SEGMENTS"),
  (.start, .pfx, cs!"#EXT-X-START:"),
  (.allowCache, .pfx, cs!"#EXT-X-ALLOW-CACHE:"),
  (.targetDuration, .pfx, cs!"#EXT-X-TARGETDURATION:"),
  (.serverControl, .pfx, cs!"#EXT-X-SERVER-CONTROL:"),
  (.partInf, .pfx, cs!"#EXT-X-PART-INF:"),
  (.mediaSequence, .pfx, cs!"#EXT-X-MEDIA-SEQUENCE:"),
  (.discontinuitySequence, .pfx, cs!"#EXT-X-DISCONTINUITY-SEQUENCE:"),
  (.playlistType, .pfx, cs!"#EXT-X-PLAYLIST-TYPE:"),
  (.map, .pfx, cs!"#EXT-X-MAP:"),
  (.key, .pfx, cs!"#EXT-X-KEY:"),
  (.skip, .pfx, cs!"#EXT-X-SKIP:"),
  (.discontinuity, .eq, cs!"#EXT-X-DISCONTINUITY"),
  (.gap, .eq, cs!"#EXT-X-GAP"),
  (.programDateTime, .pfx, cs!"#EXT-X-PROGRAM-DATE-TIME:"),
  (.bitrate, .pfx, cs!"#EXT-X-BITRATE:"),
  (.extinf, .pfx, cs!"#EXTINF:"),
  (.byteRange, .pfx, cs!"#EXT-X-BYTERANGE:"),
  (.part, .pfx, cs!"#EXT-X-PART:"),
  (.uri, .uriLine, []),
  (.preloadHint, .pfx, cs!"#EXT-X-PRELOAD-HINT:"),
  (.endlist, .eq, cs!"#EXT-X-ENDLIST")]

def lineMatches (k : MatchKind) (lit line : Str) : Bool :=
  match k with
  | .pfx => hasPrefix line lit
  | .eq => line == lit
  | .uriLine => match line with
    | c :: _ => c != '#'
    | [] => false

/-- first matching case -/
def classify : List (Tag × MatchKind × Str) → Str → Option (Tag × Str)
  | [], _ => none
  | (t, k, lit) :: rest, line => if lineMatches k lit line then some (t, lit) else classify rest line

/-- local state of `Media.Unmarshal`: `m`, `curKey`, `curSegment` -/
structure St where
  m : Media := {}
  curKey : Option Key := none
  cur : Segment := {}
  deriving DecidableEq, Repr

/-- `strconv.ParseUint(line, 10, 31)` then `int(tmp)` -/
def parseInt31 (line : Str) : Res Int := do
  let tmp ← Res.ofOption (parseUint 31 line)
  pure (tmp : Int)

/-- the body of one `case`; `lit` is the literal of the case (`line = line[len(lit):]`). -/
def handle (st : St) (tag : Tag) (lit line : Str) : Res St :=
  match tag with
  | .version => do
    let line ← sliceFrom line lit.length
    let v ← parseInt31 line
    if v > maxSupportedVersion then .err  -- unsupported HLS version
    else pure { st with m := { st.m with version := v } }
  | .independentSegments => pure { st with m := { st.m with independentSegments := true } }
  | .start => do
    let line ← sliceFrom line lit.length
    let t ← Start.unmarshal C line
    pure { st with m := { st.m with start := some t } }
  | .allowCache => do
    let line ← sliceFrom line lit.length
    pure { st with m := { st.m with allowCache := some (decide (line = yes)) } }
  | .targetDuration => do
    let line ← sliceFrom line lit.length
    let line ← match indexByte '.' line with
      | some i => sliceTo line i
      | none => pure line
    let v ← parseInt31 line
    pure { st with m := { st.m with targetDuration := v } }
  | .serverControl => do
    let line ← sliceFrom line lit.length
    let t ← ServerControl.unmarshal C line
    pure { st with m := { st.m with serverControl := some t } }
  | .partInf => do
    let line ← sliceFrom line lit.length
    let t ← PartInf.unmarshal C line
    pure { st with m := { st.m with partInf := some t } }
  | .mediaSequence => do
    let line ← sliceFrom line lit.length
    let v ← parseInt31 line
    pure { st with m := { st.m with mediaSequence := v } }
  | .discontinuitySequence => do
    let line ← sliceFrom line lit.length
    let v ← parseInt31 line
    pure { st with m := { st.m with discontinuitySequence := some v } }
  | .playlistType => do
    let line ← sliceFrom line lit.length
    if line ≠ cs!"EVENT" ∧ line ≠ cs!"VOD" then .err  -- invalid playlist type
    else pure { st with m := { st.m with playlistType := some line } }
  | .map => do
    let line ← sliceFrom line lit.length
    let t ← MapTag.unmarshal line
    pure { st with m := { st.m with map := some t } }
  | .key => do
    let line ← sliceFrom line lit.length
    let t ← Key.unmarshal line
    pure { st with curKey := some t }
  | .skip => do
    let line ← sliceFrom line lit.length
    let t ← Skip.unmarshal line
    pure { st with m := { st.m with skip := some t } }
  | .discontinuity => pure { st with cur := { st.cur with discontinuity := true } }
  | .gap => pure { st with cur := { st.cur with gap := true } }
  | .programDateTime => do
    let line ← sliceFrom line lit.length
    let t ← Res.ofOption (C.parseTime line)
    pure { st with cur := { st.cur with dateTime := some t } }
  | .bitrate => do
    let line ← sliceFrom line lit.length
    let v ← parseInt31 line
    pure { st with cur := { st.cur with bitrate := some v } }
  | .extinf => do
    let line ← sliceFrom line lit.length
    let parts ← splitN2 ',' line
    if parts.length ≠ 2 then .err  -- invalid EXTINF
    else do
      let p0 ← idx parts 0
      let d ← durUnmarshal C p0
      let p1 ← idx parts 1
      pure { st with cur := { st.cur with duration := d, title := trimSpace p1, key := st.curKey } }
  | .byteRange => do
    let line ← sliceFrom line lit.length
    let br ← ByteRange.unmarshal line
    pure { st with cur := { st.cur with brLen := some br.length, brStart := br.start } }
  | .part => do
    let line ← sliceFrom line lit.length
    let p ← Part.unmarshal C line
    pure { st with cur := { st.cur with parts := st.cur.parts ++ [p] } }
  | .uri => do
    let cur := { st.cur with uri := line }
    Segment.validate cur
    pure { st with m := { st.m with segments := st.m.segments ++ [cur] }, cur := {} }
  | .preloadHint => do
    let line ← sliceFrom line lit.length
    let t ← PreloadHint.unmarshal line
    pure { st with m := { st.m with preloadHint := some t } }
  | .endlist => pure { st with m := { st.m with endlist := true } }

/-- one iteration of the `switch` -/
def step (st : St) (line : Str) : Res St :=
  match classify dispatch line with
  | none => pure st
  | some (tag, lit) => handle C st tag lit line

/-- the `for { line, s = ReadLine(s); if line == "" && s == "" { break }; switch … }` loop -/
def loop : Nat → St → Str → Res St
  | 0, _, _ => .panic  -- out of fuel: unreachable, see `loop_fuel`
  | fuel + 1, st, s => do
    let (line, s) ← readLine s
    if line = [] ∧ s = [] then pure st
    else do
      let st ← step C st line
      loop fuel st s

/-- `Media.Unmarshal` on a zero `Media` -/
def Media.unmarshal (buf : Str) : Res Media := do
  let s ← skipHeader buf
  let st ← loop C (s.length + 1) {} s
  let m := { st.m with parts := st.cur.parts }
  if m.targetDuration = 0 then .err  -- TARGETDURATION not set
  else if m.segments.length = 0 then .err  -- no segments found
  else pure m

/-! ## `Media.Marshal` -/

/-- the segment loop of `Media.Marshal` with its `prevKey` variable -/
def marshalSegments : Option Key → List Segment → Str
  | _, [] => []
  | prevKey, seg :: rest =>
    match seg.key with
    | some k =>
      if prevKey = none ∨ ¬ (some k = prevKey) then
        Key.marshal k ++ Segment.marshal C seg ++ marshalSegments (some k) rest
      else Segment.marshal C seg ++ marshalSegments prevKey rest
    | none => Segment.marshal C seg ++ marshalSegments prevKey rest

/-- which of the three defects of the unchanged tree are present -/
structure Legacy where
  f1 : Bool  -- EXT-X-START never emitted
  f2 : Bool  -- DISCONTINUITY-SEQUENCE written with the media sequence value
  f3 : Bool  -- SERVER-CONTROL: leading comma
  deriving DecidableEq, Repr

def Media.marshalGen (L : Legacy) (m : Media) : Str :=
  cs!"#EXTM3U\n" ++
    cs!"#EXT-X-VERSION:" ++ formatInt m.version ++ ['\n'] ++
    (if m.independentSegments then cs!"#EXT-X-INDEPENDENT-SEGMENTS\n" else []) ++
    (optList m.start fun t => if L.f1 then [] else Start.marshal C t) ++
    (optList m.allowCache fun v => cs!"#EXT-X-ALLOW-CACHE:" ++ (if v then cs!"YES" else cs!"NO") ++ ['\n']) ++
    cs!"#EXT-X-TARGETDURATION:" ++ formatInt m.targetDuration ++ ['\n'] ++
    (optList m.serverControl fun t => if L.f3 then ServerControl.marshalLegacy C t else ServerControl.marshal C t) ++
    (optList m.partInf fun t => PartInf.marshal C t) ++
    cs!"#EXT-X-MEDIA-SEQUENCE:" ++ formatInt m.mediaSequence ++ ['\n'] ++
    (optList m.discontinuitySequence fun v => cs!"#EXT-X-DISCONTINUITY-SEQUENCE:" ++
        formatInt (if L.f2 then m.mediaSequence else v) ++ ['\n']) ++
    (optList m.playlistType fun v => cs!"#EXT-X-PLAYLIST-TYPE:" ++ v ++ ['\n']) ++
    (optList m.map fun t => MapTag.marshal t) ++
    (optList m.skip fun t => Skip.marshal t) ++
    marshalSegments C none m.segments ++
    marshalParts C m.parts ++
    (optList m.preloadHint fun t => PreloadHint.marshal t) ++
    (if m.endlist then cs!"#EXT-X-ENDLIST\n" else [])

/-- `Media.Marshal` of the repaired tree (fix-F1, fix-F2, fix-F3 applied) -/
def Media.marshal (m : Media) : Str := Media.marshalGen C ⟨false, false, false⟩ m

/-- `Media.Marshal` of the unchanged tree -/
def Media.marshalLegacy (m : Media) : Str := Media.marshalGen C ⟨true, true, true⟩ m

end

end Hls.Playlist.MP
