import Hls.Playlist.MediaVariants
/-!
# `quantise p` reproduces `p` field by field (durations to the 10 µs text resolution, times to 1 ms)
-/
namespace Hls.Playlist.MP

/-- two durations that the 5-decimal text cannot tell apart: at most half a unit of 10 µs apart,
plus the one nanosecond `ParseFloat·1e9` may lose -/
def DurNear (a b : Int) : Prop := (a - b).natAbs ≤ 5001

def OptDurNear : Option Int → Option Int → Prop
  | some a, some b => DurNear a b
  | none, none => True
  | _, _ => False

/-- same instant at millisecond resolution, same zone -/
def TimeNear (a b : Time) : Prop := a.sec = b.sec ∧ a.nsec / 1000000 = b.nsec / 1000000 ∧ a.off = b.off

def OptTimeNear : Option Time → Option Time → Prop
  | some a, some b => TimeNear a b
  | none, none => True
  | _, _ => False

/-- element-wise relation of two lists of the same length -/
inductive Forall2 {α : Type} (R : α → α → Prop) : List α → List α → Prop
  | nil : Forall2 R [] []
  | cons {a b : α} {as bs : List α} : R a b → Forall2 R as bs → Forall2 R (a :: as) (b :: bs)

/-- every field of a part -/
def PartNear (a b : Part) : Prop :=
  DurNear a.duration b.duration ∧ a.uri = b.uri ∧ a.independent = b.independent ∧
  a.brLen = b.brLen ∧ a.brStart = b.brStart ∧ a.gap = b.gap

/-- every field of a segment -/
def SegmentNear (a b : Segment) : Prop :=
  DurNear a.duration b.duration ∧ a.title = b.title ∧ a.uri = b.uri ∧ a.discontinuity = b.discontinuity ∧
  a.gap = b.gap ∧ OptTimeNear a.dateTime b.dateTime ∧ a.bitrate = b.bitrate ∧ a.key = b.key ∧
  a.brLen = b.brLen ∧ a.brStart = b.brStart ∧ Forall2 PartNear a.parts b.parts

def ServerControlNear : Option ServerControl → Option ServerControl → Prop
  | some a, some b => a.canBlockReload = b.canBlockReload ∧ OptDurNear a.partHoldBack b.partHoldBack ∧
      OptDurNear a.canSkipUntil b.canSkipUntil
  | none, none => True
  | _, _ => False

/-- every field of `playlist.Media` -/
def MediaNear (a b : Media) : Prop :=
  a.version = b.version ∧ a.independentSegments = b.independentSegments ∧ OptDurNear a.start b.start ∧
  a.allowCache = b.allowCache ∧ a.targetDuration = b.targetDuration ∧
  ServerControlNear a.serverControl b.serverControl ∧ OptDurNear a.partInf b.partInf ∧
  a.mediaSequence = b.mediaSequence ∧ a.discontinuitySequence = b.discontinuitySequence ∧
  a.playlistType = b.playlistType ∧ a.map = b.map ∧ a.skip = b.skip ∧
  Forall2 SegmentNear a.segments b.segments ∧ Forall2 PartNear a.parts b.parts ∧
  a.preloadHint = b.preloadHint ∧ a.endlist = b.endlist

theorem forall₂_map_left {α : Type} {R : α → α → Prop} {f : α → α} : ∀ {l : List α}, (∀ x ∈ l, R (f x) x) →
    Forall2 R (l.map f) l
  | [], _ => Forall2.nil
  | x :: xs, h => Forall2.cons (h x (by simp)) (forall₂_map_left fun y hy => h y (by simp [hy]))

section
variable {C : Codec} (hC : C.Valid)
include hC

theorem requant_near {d : Int} (hd : DurDom d) : DurNear (C.requant d) d := by
  obtain ⟨q, n, _, h2, h3, h4, h5, h6⟩ := fmtDur_spec hC hd
  simp only [DurNear, Codec.requant, h2, Option.getD_some]
  split <;> omega

theorem Part.quantise_near {p : Part} (hw : wfPart p = true) : PartNear (Part.quantise C p) p := by
  simp only [wfPart, Bool.and_eq_true] at hw
  exact ⟨requant_near hC (natAbs_lt_of_posDur hw.1.1.1).1, rfl, rfl, rfl, rfl, rfl⟩

theorem Segment.quantise_near {s : Segment} (hw : wfSegment s = true) : SegmentNear (Segment.quantise C s) s := by
  simp only [wfSegment, Bool.and_eq_true, decide_eq_true_eq] at hw
  obtain ⟨⟨⟨⟨⟨⟨⟨⟨⟨⟨hd, _⟩, _⟩, _⟩, _⟩, _⟩, _⟩, _⟩, _⟩, _⟩, hp⟩ := hw
  refine ⟨requant_near hC (natAbs_lt_of_posDur hd).1, rfl, rfl, rfl, rfl, ?_, rfl, rfl, rfl, rfl, ?_⟩
  · simp only [Segment.quantise]
    cases s.dateTime with
    | none => trivial
    | some t =>
      show TimeNear (truncMs t) t
      refine ⟨rfl, ?_, rfl⟩
      simp only [truncMs]
      omega
  · exact forall₂_map_left fun p hp' => Part.quantise_near hC (List.all_eq_true.mp hp p hp')

theorem Media.quantise_near (p : Media) (hw : WFMedia p) : MediaNear (Media.quantise C p) p := by
  simp only [WFMedia, wfMedia, Bool.and_eq_true, decide_eq_true_eq] at hw
  obtain ⟨⟨⟨⟨⟨⟨⟨⟨⟨⟨⟨⟨⟨⟨⟨⟨_, _⟩, _⟩, _⟩, _⟩, _⟩, _⟩, hst⟩, hsc⟩, hpi⟩, _⟩, _⟩, _⟩, hsegs⟩, _⟩, hparts⟩, _⟩ := hw
  refine ⟨rfl, rfl, ?_, rfl, rfl, ?_, ?_, rfl, rfl, rfl, rfl, rfl, ?_, ?_, rfl, rfl⟩
  · simp only [Media.quantise]
    cases hs : p.start with
    | none => trivial
    | some t =>
      rw [hs] at hst
      exact requant_near hC (natAbs_lt_of_signedDur (by simpa using hst)).1
  · simp only [Media.quantise]
    cases hs : p.serverControl with
    | none => trivial
    | some t =>
      rw [hs] at hsc
      simp only [Option.all_some, Bool.and_eq_true] at hsc
      show (ServerControl.quantise C t).canBlockReload = t.canBlockReload ∧
        OptDurNear (ServerControl.quantise C t).partHoldBack t.partHoldBack ∧
        OptDurNear (ServerControl.quantise C t).canSkipUntil t.canSkipUntil
      refine ⟨rfl, ?_, ?_⟩ <;> simp only [ServerControl.quantise]
      · cases hp : t.partHoldBack with
        | none => trivial
        | some d =>
          rw [hp] at hsc
          exact requant_near hC (natAbs_lt_of_nnDur (by simpa using hsc.1))
      · cases hp : t.canSkipUntil with
        | none => trivial
        | some d =>
          rw [hp] at hsc
          exact requant_near hC (natAbs_lt_of_nnDur (by simpa using hsc.2))
  · simp only [Media.quantise]
    cases hs : p.partInf with
    | none => trivial
    | some t =>
      rw [hs] at hpi
      exact requant_near hC (natAbs_lt_of_posDur (by simpa using hpi)).1
  · exact forall₂_map_left fun s hs => Segment.quantise_near hC (List.all_eq_true.mp hsegs s hs)
  · exact forall₂_map_left fun q hq => Part.quantise_near hC (List.all_eq_true.mp hparts q hq)

end
end Hls.Playlist.MP
