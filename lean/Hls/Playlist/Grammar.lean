/-
  An INDEPENDENT strict recogniser for M3U8 playlists, written from RFC 8216 §4
  (it imports nothing from the model: no tokenizer, no tag table is shared with
  `Hls.Playlist.{Prim,Multi}`).  Its Go twin is go/cmd/corr/m3u_grammar.go; the two are
  cross-checked by the T2 stream (`gram` op).

  Table driven: a tag has a value form, for attribute lists a table
  attribute → allowed lexical classes / required, the kind of playlist it may appear in, a
  multiplicity and whether a URI line must follow.  Further tags (the media playlist's) are
  added by extending the table passed to `accepts`.

  What is checked (RFC 8216 §4.1, §4.2, §4.3.1.1, §4.3.1.2, §4.3.4, §4.3.5):
    * `#EXTM3U` is the first line; lines end in LF or CR LF; no other CR;
    * every line is blank, a URI line, a comment (`#` not followed by `EXT`) or a KNOWN tag;
    * a tag appears only in the kind of playlist it is defined for, `once`-tags at most once;
    * attribute lists: `NAME=value` pairs separated by commas, no white space, names in
      [A-Z0-9-], every name defined for the tag and at most once, required names present,
      every value of (one of) the lexical class(es) of its name: decimal-integer,
      hexadecimal-sequence, decimal-floating-point, signed-decimal-floating-point,
      quoted-string (no LF, CR, double quote), enumerated-string, decimal-resolution;
    * every URI line is preceded by the tag that announces it (EXT-X-STREAM-INF / EXTINF), and
      in a multivariant playlist EXT-X-STREAM-INF is immediately followed by its URI line.
-/
namespace Hls.Playlist.Grammar

open Lean in
/-- `g!"abc"` = `['a','b','c']` -/
macro:max "g!" s:str : term => do
  let elems ← s.getString.toList.toArray.mapM fun c => `($(Syntax.mkCharLit c))
  `([$elems,*])

abbrev Txt := List Char

inductive LexClass
  | decInt                          -- decimal-integer: 1*20 DIGIT
  | hexSeq                          -- hexadecimal-sequence
  | float                           -- decimal-floating-point (non-negative)
  | signedFloat                     -- signed-decimal-floating-point
  | quoted                          -- quoted-string
  | enum (vals : List Txt)          -- enumerated-string
  | resolution                      -- decimal-resolution
  deriving DecidableEq, Repr

inductive PKind
  | any | multivariant | media
  deriving DecidableEq, Repr

structure AttrSpec where
  name : Txt
  classes : List LexClass
  required : Bool := false

inductive Form
  | none                             -- `#TAG`
  | attrs (specs : List AttrSpec)    -- `#TAG:` attribute-list
  | int                              -- `#TAG:` decimal-integer
  | custom (check : Txt → Bool)      -- `#TAG:` value checked by `check`

structure TagSpec where
  name : Txt                         -- without the colon
  form : Form
  kind : PKind
  once : Bool := false               -- at most once per playlist
  uriFollows : Bool := false         -- the next line must be a URI line

def yesNo : List Txt := [g!"YES", g!"NO"]

/-- EXT-X-START (RFC 8216 §4.3.5.2) -/
def startSpecs : List AttrSpec :=
  [ { name := g!"TIME-OFFSET", classes := [.signedFloat], required := true },
    { name := g!"PRECISE", classes := [.enum yesNo] } ]

/-- EXT-X-MEDIA (§4.3.4.1) -/
def mediaSpecs : List AttrSpec :=
  [ { name := g!"TYPE", classes := [.enum [g!"AUDIO", g!"VIDEO", g!"SUBTITLES", g!"CLOSED-CAPTIONS"]], required := true },
    { name := g!"URI", classes := [.quoted] },
    { name := g!"GROUP-ID", classes := [.quoted], required := true },
    { name := g!"LANGUAGE", classes := [.quoted] },
    { name := g!"ASSOC-LANGUAGE", classes := [.quoted] },
    { name := g!"NAME", classes := [.quoted], required := true },
    { name := g!"DEFAULT", classes := [.enum yesNo] },
    { name := g!"AUTOSELECT", classes := [.enum yesNo] },
    { name := g!"FORCED", classes := [.enum yesNo] },
    { name := g!"INSTREAM-ID", classes := [.quoted] },
    { name := g!"CHARACTERISTICS", classes := [.quoted] },
    { name := g!"CHANNELS", classes := [.quoted] } ]

/-- EXT-X-STREAM-INF (§4.3.4.2) -/
def streamInfSpecs : List AttrSpec :=
  [ { name := g!"BANDWIDTH", classes := [.decInt], required := true },
    { name := g!"AVERAGE-BANDWIDTH", classes := [.decInt] },
    { name := g!"CODECS", classes := [.quoted] },
    { name := g!"RESOLUTION", classes := [.resolution] },
    { name := g!"FRAME-RATE", classes := [.float] },
    { name := g!"HDCP-LEVEL", classes := [.enum [g!"TYPE-0", g!"NONE"]] },
    { name := g!"AUDIO", classes := [.quoted] },
    { name := g!"VIDEO", classes := [.quoted] },
    { name := g!"SUBTITLES", classes := [.quoted] },
    { name := g!"CLOSED-CAPTIONS", classes := [.quoted, .enum [g!"NONE"]] } ]

/-- RFC 8216 §4.3.1.2, §4.3.5.1, §4.3.5.2, §4.3.4.1, §4.3.4.2 -/
def baseTags : List TagSpec :=
  [ { name := g!"#EXT-X-VERSION", form := .int, kind := .any, once := true },
    { name := g!"#EXT-X-INDEPENDENT-SEGMENTS", form := .none, kind := .any, once := true },
    { name := g!"#EXT-X-START", kind := .any, once := true, form := .attrs startSpecs },
    { name := g!"#EXT-X-MEDIA", kind := .multivariant, form := .attrs mediaSpecs },
    { name := g!"#EXT-X-STREAM-INF", kind := .multivariant, uriFollows := true, form := .attrs streamInfSpecs } ]

/-! ## Lexical classes -/

def isDig (c : Char) : Bool := '0' ≤ c ∧ c ≤ '9'

def isHexDig (c : Char) : Bool := isDig c || ('a' ≤ c ∧ c ≤ 'f') || ('A' ≤ c ∧ c ≤ 'F')

/-- the longest prefix whose characters satisfy `p`, and the rest -/
def spanP (p : Char → Bool) : Txt → Txt × Txt
  | [] => ([], [])
  | c :: cs => if p c then ((c :: (spanP p cs).1), (spanP p cs).2) else ([], c :: cs)

/-- `1*max DIGIT` -/
def digits (s : Txt) (max : Nat) : Bool := !s.isEmpty && decide (s.length ≤ max) && s.all isDig

/-- `1*DIGIT` -/
def digits1 (s : Txt) : Bool := !s.isEmpty && s.all isDig

/-- `1*DIGIT [ "." 1*DIGIT ]` -/
def isFloat (s : Txt) : Bool :=
  !(spanP isDig s).1.isEmpty &&
  match (spanP isDig s).2 with
  | [] => true
  | d :: b => d = '.' && digits1 b

def isSignedFloat (s : Txt) : Bool :=
  match s with
  | c :: r => if c = '-' then isFloat r else isFloat s
  | [] => false

def isHexSeq (s : Txt) : Bool :=
  match s with
  | z :: x :: r => z = '0' && (x = 'x' || x = 'X') && !r.isEmpty && r.all isHexDig
  | _ => false

def isResolution (s : Txt) : Bool :=
  digits (spanP isDig s).1 20 &&
  match (spanP isDig s).2 with
  | x :: b => x = 'x' && digits b 20
  | [] => false

def hasClass (v : Txt) (quoted : Bool) : LexClass → Bool
  | .quoted => quoted            -- the lexer has excluded LF, CR and `"` inside
  | .decInt => !quoted && digits v 20
  | .hexSeq => !quoted && isHexSeq v
  | .float => !quoted && isFloat v
  | .signedFloat => !quoted && isSignedFloat v
  | .enum vals => !quoted && vals.contains v
  | .resolution => !quoted && isResolution v

/-! ## Attribute lists -/

structure Pair where
  name : Txt
  value : Txt
  quoted : Bool
  deriving DecidableEq, Repr

def isNameChar (c : Char) : Bool := ('A' ≤ c ∧ c ≤ 'Z') || isDig c || c = '-'

/-- characters that may not occur in an unquoted value -/
def badUnquoted (c : Char) : Bool := c = '"' || c = ' ' || c = '\t' || c = '\n' || c = '\r'

def isLineBreak (c : Char) : Bool := c = '\n' || c = '\r'

/-- quoted-string after the opening quote -/
def lexQuoted (name r2 : Txt) : Option (Pair × Txt) :=
  match (spanP (fun c => c ≠ '"') r2).2 with
  | [] => none                                             -- unterminated
  | _ :: r4 =>
    if (spanP (fun c => c ≠ '"') r2).1.any isLineBreak then none
    else some ({ name := name, value := (spanP (fun c => c ≠ '"') r2).1, quoted := true }, r4)

/-- unquoted value: up to the next comma -/
def lexUnquoted (name s : Txt) : Option (Pair × Txt) :=
  if (spanP (fun c => c ≠ ',') s).1.isEmpty || (spanP (fun c => c ≠ ',') s).1.any badUnquoted then none
  else some ({ name := name, value := (spanP (fun c => c ≠ ',') s).1, quoted := false }, (spanP (fun c => c ≠ ',') s).2)

/-- the value after `=` -/
def lexValue (name r1 : Txt) : Option (Pair × Txt) :=
  match r1 with
  | [] => none
  | q :: r2 => if q = '"' then lexQuoted name r2 else lexUnquoted name (q :: r2)

/-- one `NAME=value`; returns the pair and what follows the value -/
def lexOne (s : Txt) : Option (Pair × Txt) :=
  if (spanP isNameChar s).1.isEmpty then none
  else
    match (spanP isNameChar s).2 with
    | [] => none
    | e :: r1 => if e = '=' then lexValue (spanP isNameChar s).1 r1 else none

/-- `attribute *( "," attribute )` — `fuel` bounds the number of attributes -/
def lexAttrs : Nat → Txt → Option (List Pair)
  | 0, _ => none
  | fuel + 1, s =>
    match lexOne s with
    | none => none
    | some (p, rest) =>
      match rest with
      | [] => some [p]
      | c :: rest' => if c ≠ ',' then none else (lexAttrs fuel rest').map (p :: ·)

def pairOK (specs : List AttrSpec) (p : Pair) : Bool :=
  match specs.find? (fun sp => sp.name = p.name) with
  | none => false
  | some sp => sp.classes.any (hasClass p.value p.quoted)

def attrsOK (specs : List AttrSpec) (value : Txt) : Bool :=
  match lexAttrs (value.length + 1) value with
  | none => false
  | some pairs =>
    pairs.all (pairOK specs) &&
    decide ((pairs.map (·.name)).Nodup) &&
    specs.all (fun sp => !sp.required || (pairs.map (·.name)).contains sp.name)

/-! ## Lines -/

/-- split at every LF -/
def splitLF : Txt → List Txt
  | [] => [[]]
  | c :: cs =>
    if c = '\n' then [] :: splitLF cs
    else match splitLF cs with
      | [] => [[c]]
      | l :: ls => (c :: l) :: ls

def stripCR (l : Txt) : Txt := if l.getLast? = some '\r' then l.dropLast else l

/-- the lines of a text: LF or CR LF terminated; the terminator of the last line is optional -/
def linesOf (text : Txt) : List Txt :=
  let raw := splitLF text
  let raw := if raw.getLast? = some [] then raw.dropLast else raw
  raw.map stripCR

structure St where
  seen : List Txt := []        -- `once` tags seen so far
  pending : Bool := false      -- a tag is waiting for its URI line

def hasPre (p l : Txt) : Bool := p.isPrefixOf l

/-- name and optional value of a tag line -/
def cutTag (line : Txt) : Txt × Option Txt :=
  match (spanP (fun c => c ≠ ':') line).2 with
  | [] => ((spanP (fun c => c ≠ ':') line).1, none)
  | _ :: v => ((spanP (fun c => c ≠ ':') line).1, some v)

def kindOK (t : PKind) (k : PKind) : Bool :=
  match t with
  | .any => true
  | _ => t = k

def formOK (f : Form) (value : Option Txt) : Bool :=
  match f, value with
  | .none, none => true
  | .int, some v => digits v 20
  | .attrs specs, some v => attrsOK specs v
  | .custom chk, some v => chk v
  | _, _ => false

/-- a tag line, split into name and optional value -/
def stepTag (tags : List TagSpec) (kind : PKind) (st : St) (name : Txt) (value : Option Txt) : Option St :=
  match tags.find? (fun t => t.name = name) with
  | none => none                                          -- unknown tag (also a second #EXTM3U)
  | some t =>
    if !kindOK t.kind kind then none
    else if t.once && st.seen.contains name then none
    else if !formOK t.form value then none
    else some { seen := if t.once then name :: st.seen else st.seen,
                pending := st.pending || t.uriFollows }

def stepLine (tags : List TagSpec) (kind : PKind) (st : St) (line : Txt) : Option St :=
  match line with
  | [] => some st                                           -- blank
  | c :: _ =>
    if c ≠ '#' then                                         -- URI line
      (if st.pending then some { st with pending := false } else none)
    else if !hasPre g!"#EXT" line then some st              -- comment
    else if st.pending && kind = .multivariant then none    -- EXT-X-STREAM-INF must be followed by its URI
    else stepTag tags kind st (cutTag line).1 (cutTag line).2

def run (tags : List TagSpec) (kind : PKind) : St → List Txt → Option St
  | st, [] => some st
  | st, l :: ls =>
    match stepLine tags kind st l with
    | none => none
    | some st' => run tags kind st' ls

/-- the playlist follows the grammar -/
def accepts (tags : List TagSpec) (kind : PKind) (text : Txt) : Bool :=
  match linesOf text with
  | [] => false
  | first :: rest =>
    first = g!"#EXTM3U" && rest.all (fun l => !l.contains '\r') &&
    match run tags kind {} rest with
    | some st => !st.pending
    | none => false

/-- the grammar of multivariant playlists -/
def acceptsMultivariant (text : Txt) : Bool := accepts baseTags .multivariant text

end Hls.Playlist.Grammar
