import Hls.Gen.PlaylistMedia
import Hls.Playlist.MediaModel
/-!
# T1 pins: the regenerated facts of `pkg/playlist/media*.go` equal the shape the model was written for

`Hls/Gen/PlaylistMedia.lean` is regenerated from the repository on every check run.  Every theorem
below is an obligation (`decide` over a finite regenerated table): a renamed / reordered tag, a
changed attribute key or marshal literal, a different field printed by a `FormatInt`, a missing
`x.marshal()` call in `Media.Marshal` make the corresponding obligation fail.
-/
namespace Hls.Playlist.MP.Pins
open Hls.Gen

def kindOf : MatchKind → PlaylistMedia.Kind
  | .pfx => .pfx
  | .eq => .eq
  | .uriLine => .uriLine

/-- which `case` bodies of the model start with `line = line[len(lit):]` -/
def slices : Tag → Bool
  | .independentSegments | .discontinuity | .gap | .uri | .endlist => false
  | _ => true

/-- the dispatch chain of the model IS the regenerated one: same tests, same literals, same order,
same cases that slice the literal off -/
theorem dispatch_pinned :
    PlaylistMedia.dispatch = dispatch.map (fun e => (kindOf e.2.1, e.2.2, slices e.1)) := by decide

def expectedAttrKeys : List (String × List (List Char)) := [
  ("MultivariantStart", [['T','I','M','E','-','O','F','F','S','E','T']]),
  ("MediaServerControl", [['C','A','N','-','B','L','O','C','K','-','R','E','L','O','A','D'], ['P','A','R','T','-','H','O','L','D','-','B','A','C','K'], ['C','A','N','-','S','K','I','P','-','U','N','T','I','L']]),
  ("MediaPartInf", [['P','A','R','T','-','T','A','R','G','E','T']]),
  ("MediaMap", [['U','R','I'], ['B','Y','T','E','R','A','N','G','E']]),
  ("MediaKey", [['M','E','T','H','O','D'], ['U','R','I'], ['I','V'], ['K','E','Y','F','O','R','M','A','T'], ['K','E','Y','F','O','R','M','A','T','V','E','R','S','I','O','N','S']]),
  ("MediaSkip", [['S','K','I','P','P','E','D','-','S','E','G','M','E','N','T','S']]),
  ("MediaPart", [['D','U','R','A','T','I','O','N'], ['U','R','I'], ['I','N','D','E','P','E','N','D','E','N','T'], ['B','Y','T','E','R','A','N','G','E'], ['G','A','P']]),
  ("MediaPreloadHint", [['T','Y','P','E'], ['U','R','I'], ['B','Y','T','E','R','A','N','G','E','-','S','T','A','R','T'], ['B','Y','T','E','R','A','N','G','E','-','L','E','N','G','T','H']])]

theorem attrKeys_pinned : PlaylistMedia.attrKeys = expectedAttrKeys := by decide

def expectedMarshalLits : List (String × List (List Char)) := [
  ("MultivariantStart", [['#','E','X','T','-','X','-','S','T','A','R','T',':','T','I','M','E','-','O','F','F','S','E','T','='], ['\n']]),
  ("MediaServerControl", [['C','A','N','-','B','L','O','C','K','-','R','E','L','O','A','D','=','Y','E','S'], ['P','A','R','T','-','H','O','L','D','-','B','A','C','K','='], ['C','A','N','-','S','K','I','P','-','U','N','T','I','L','='], ['#','E','X','T','-','X','-','S','E','R','V','E','R','-','C','O','N','T','R','O','L',':'], [','], ['\n']]),
  ("MediaPartInf", [['#','E','X','T','-','X','-','P','A','R','T','-','I','N','F',':','P','A','R','T','-','T','A','R','G','E','T','='], ['\n']]),
  ("MediaMap", [['#','E','X','T','-','X','-','M','A','P',':','U','R','I','=','"'], ['"'], [',','B','Y','T','E','R','A','N','G','E','='], ([] : List Char), ['\n']]),
  ("MediaKey", [['#','E','X','T','-','X','-','K','E','Y',':','M','E','T','H','O','D','='], [',','U','R','I','=','"'], ['"'], ([] : List Char), [',','I','V','='], ([] : List Char), [',','K','E','Y','F','O','R','M','A','T','=','"'], ['"'], ([] : List Char), [',','K','E','Y','F','O','R','M','A','T','V','E','R','S','I','O','N','S','=','"'], ['"'], ['\n']]),
  ("MediaSkip", [['#','E','X','T','-','X','-','S','K','I','P',':','S','K','I','P','P','E','D','-','S','E','G','M','E','N','T','S','='], ['\n']]),
  ("MediaPart", [['#','E','X','T','-','X','-','P','A','R','T',':','D','U','R','A','T','I','O','N','='], [',','U','R','I','=','"'], ['"'], [',','I','N','D','E','P','E','N','D','E','N','T','=','Y','E','S'], [',','B','Y','T','E','R','A','N','G','E','='], ([] : List Char), [',','G','A','P','=','Y','E','S'], ['\n']]),
  ("MediaPreloadHint", [['#','E','X','T','-','X','-','P','R','E','L','O','A','D','-','H','I','N','T',':','T','Y','P','E','=','P','A','R','T',',','U','R','I','=','"'], ['"'], [',','B','Y','T','E','R','A','N','G','E','-','S','T','A','R','T','='], [',','B','Y','T','E','R','A','N','G','E','-','L','E','N','G','T','H','='], ['\n']]),
  ("MediaSegment", [([] : List Char), ['#','E','X','T','-','X','-','D','I','S','C','O','N','T','I','N','U','I','T','Y','\n'], ['#','E','X','T','-','X','-','G','A','P','\n'], ['#','E','X','T','-','X','-','P','R','O','G','R','A','M','-','D','A','T','E','-','T','I','M','E',':'], ['\n'], ['#','E','X','T','-','X','-','B','I','T','R','A','T','E',':'], ['\n'], ['#','E','X','T','I','N','F',':'], [','], ['\n'], ['#','E','X','T','-','X','-','B','Y','T','E','R','A','N','G','E',':'], ['\n'], ['\n']])]

theorem marshalLits_pinned : PlaylistMedia.marshalLits = expectedMarshalLits := by decide

/-- `Media.Marshal` of the REPAIRED tree: EXT-X-START is emitted (fix-F1), EXT-X-DISCONTINUITY-SEQUENCE
prints `*m.DiscontinuitySequence` (fix-F2) -/
def expectedMediaMarshal : List PlaylistMedia.Ev := [
  .lit ['#','E','X','T','M','3','U','\n'],
  .lit ['#','E','X','T','-','X','-','V','E','R','S','I','O','N',':'],
  .fmtInt "m.Version",
  .lit ['\n'],
  .cond "m.IndependentSegments",
  .lit ['#','E','X','T','-','X','-','I','N','D','E','P','E','N','D','E','N','T','-','S','E','G','M','E','N','T','S','\n'],
  .cond "m.Start != nil",
  .call "m.Start",
  .cond "m.AllowCache != nil",
  .cond "*m.AllowCache",
  .lit ['Y','E','S'],
  .lit ['N','O'],
  .lit ['#','E','X','T','-','X','-','A','L','L','O','W','-','C','A','C','H','E',':'],
  .lit ['\n'],
  .lit ['#','E','X','T','-','X','-','T','A','R','G','E','T','D','U','R','A','T','I','O','N',':'],
  .fmtInt "m.TargetDuration",
  .lit ['\n'],
  .cond "m.ServerControl != nil",
  .call "m.ServerControl",
  .cond "m.PartInf != nil",
  .call "m.PartInf",
  .lit ['#','E','X','T','-','X','-','M','E','D','I','A','-','S','E','Q','U','E','N','C','E',':'],
  .fmtInt "m.MediaSequence",
  .lit ['\n'],
  .cond "m.DiscontinuitySequence != nil",
  .lit ['#','E','X','T','-','X','-','D','I','S','C','O','N','T','I','N','U','I','T','Y','-','S','E','Q','U','E','N','C','E',':'],
  .fmtInt "*m.DiscontinuitySequence",
  .lit ['\n'],
  .cond "m.PlaylistType != nil",
  .lit ['#','E','X','T','-','X','-','P','L','A','Y','L','I','S','T','-','T','Y','P','E',':'],
  .lit ['\n'],
  .cond "m.Map != nil",
  .call "m.Map",
  .cond "m.Skip != nil",
  .call "m.Skip",
  .cond "range m.Segments",
  .cond "seg.Key != nil && (prevKey == nil || !seg.Key.Equal(prevKey))",
  .call "seg.Key",
  .call "seg",
  .cond "range m.Parts",
  .call "part",
  .cond "m.PreloadHint != nil",
  .call "m.PreloadHint",
  .cond "m.Endlist",
  .lit ['#','E','X','T','-','X','-','E','N','D','L','I','S','T','\n']]

theorem mediaMarshal_pinned : PlaylistMedia.mediaMarshal = expectedMediaMarshal := by decide

theorem maxSupportedVersion_pinned : PlaylistMedia.maxSupportedVersion = maxSupportedVersion := by decide

theorem parseUintBits_pinned : PlaylistMedia.parseUintBits = [
  ("byterange.go", [64, 64, 64]),
  ("media.go", [31, 31, 31, 31, 31]),
  ("media_preload_hint.go", [64, 64]),
  ("media_skip.go", [31])] := by decide

theorem formatFloatArgs_pinned : PlaylistMedia.formatFloatArgs = [
  ("media_part.go", ["'f',5,64"]),
  ("media_part_inf.go", ["'f',5,64"]),
  ("media_segment.go", ["'f',5,64"]),
  ("media_server_control.go", ["'f',5,64", "'f',5,64"]),
  ("multivariant_start.go", ["'f',5,64"])] := by decide

theorem timeLayouts_pinned :
    PlaylistMedia.timeRFC3339Millis = cs!"2006-01-02T15:04:05.999Z07:00" ∧
    PlaylistMedia.timeISO8601Millis = cs!"2006-01-02T15:04:05.999Z0700" := by decide

/-! the model's per-tag decoders react to exactly the regenerated keys -/

def keysOf (ty : String) : List (List Char) :=
  match PlaylistMedia.attrKeys.find? (fun e => e.1 == ty) with
  | some e => e.2
  | none => []

theorem Key.set_unknown (t : Key) (k v : Str) (h : k ∉ keysOf "MediaKey") : Key.set t k v = .ok t := by
  have hk : keysOf "MediaKey" = [cs!"METHOD", cs!"URI", cs!"IV", cs!"KEYFORMAT", cs!"KEYFORMATVERSIONS"] := by decide
  rw [hk] at h
  simp only [List.mem_cons, List.mem_nil_iff, or_false, not_or] at h
  simp [Key.set, h]

theorem MapTag.set_unknown (t : MapTag) (k v : Str) (h : k ∉ keysOf "MediaMap") : MapTag.set t k v = .ok t := by
  have hk : keysOf "MediaMap" = [cs!"URI", cs!"BYTERANGE"] := by decide
  rw [hk] at h
  simp only [List.mem_cons, List.mem_nil_iff, or_false, not_or] at h
  simp [MapTag.set, h]

theorem Skip.set_unknown (t : Int × Bool) (k v : Str) (h : k ∉ keysOf "MediaSkip") : Skip.set t k v = .ok t := by
  have hk : keysOf "MediaSkip" = [cs!"SKIPPED-SEGMENTS"] := by decide
  rw [hk] at h
  simp only [List.mem_cons, List.mem_nil_iff, or_false] at h
  simp [Skip.set, h]

theorem PreloadHint.set_unknown (t : PreloadHint × Bool) (k v : Str) (h : k ∉ keysOf "MediaPreloadHint") :
    PreloadHint.set t k v = .ok t := by
  have hk : keysOf "MediaPreloadHint" = [cs!"TYPE", cs!"URI", cs!"BYTERANGE-START", cs!"BYTERANGE-LENGTH"] := by decide
  rw [hk] at h
  simp only [List.mem_cons, List.mem_nil_iff, or_false, not_or] at h
  simp [PreloadHint.set, h]

section
variable (C : Codec)

theorem Start.set_unknown (t : Int) (k v : Str) (h : k ∉ keysOf "MultivariantStart") : Start.set C t k v = .ok t := by
  have hk : keysOf "MultivariantStart" = [cs!"TIME-OFFSET"] := by decide
  rw [hk] at h
  simp only [List.mem_cons, List.mem_nil_iff, or_false] at h
  simp [Start.set, h]

theorem ServerControl.set_unknown (t : ServerControl) (k v : Str) (h : k ∉ keysOf "MediaServerControl") :
    ServerControl.set C t k v = .ok t := by
  have hk : keysOf "MediaServerControl" = [cs!"CAN-BLOCK-RELOAD", cs!"PART-HOLD-BACK", cs!"CAN-SKIP-UNTIL"] := by decide
  rw [hk] at h
  simp only [List.mem_cons, List.mem_nil_iff, or_false, not_or] at h
  simp [ServerControl.set, h]

theorem PartInf.set_unknown (t : Int) (k v : Str) (h : k ∉ keysOf "MediaPartInf") : PartInf.set C t k v = .ok t := by
  have hk : keysOf "MediaPartInf" = [cs!"PART-TARGET"] := by decide
  rw [hk] at h
  simp only [List.mem_cons, List.mem_nil_iff, or_false] at h
  simp [PartInf.set, h]

theorem Part.set_unknown (t : Part) (k v : Str) (h : k ∉ keysOf "MediaPart") : Part.set C t k v = .ok t := by
  have hk : keysOf "MediaPart" = [cs!"DURATION", cs!"URI", cs!"INDEPENDENT", cs!"BYTERANGE", cs!"GAP"] := by decide
  rw [hk] at h
  simp only [List.mem_cons, List.mem_nil_iff, or_false, not_or] at h
  simp [Part.set, h]

end

end Hls.Playlist.MP.Pins
