import Hls.Playlist.MediaLemmas
/-!
# Lexical round-trip lemmas (media playlist model)

`cutP` on concatenations, decimal integers, byte ranges, the attribute tokenizer on rendered
attribute lists, `readLine` / the line loop on clean lines.
-/
namespace Hls.Playlist.MP

instance : LawfulMonad Res := LawfulMonad.mk'
  (id_map := fun x => by cases x <;> rfl)
  (pure_bind := fun _ _ => rfl)
  (bind_assoc := fun x _ _ => by cases x <;> rfl)

/-! ## `indexByte` / `cutP` -/

theorem indexByte_append {c : Char} : ∀ {a : Str} (r : Str), c ∉ a → indexByte c (a ++ c :: r) = some a.length
  | [], r, _ => by simp [indexByte]
  | x :: xs, r, h => by
    have hx : x ≠ c := fun e => h (by simp [e])
    have hxs : c ∉ xs := fun e => h (by simp [e])
    simp [indexByte, hx, indexByte_append r hxs]

theorem indexByte_none {c : Char} : ∀ {a : Str}, c ∉ a → indexByte c a = none
  | [], _ => rfl
  | x :: xs, h => by
    have hx : x ≠ c := fun e => h (by simp [e])
    have hxs : c ∉ xs := fun e => h (by simp [e])
    simp [indexByte, hx, indexByte_none hxs]

theorem cutP_append {c : Char} {a : Str} (r : Str) (h : c ∉ a) : cutP c (a ++ c :: r) = some (a, r) := by
  simp [cutP, indexByte_append r h]

theorem cutP_none {c : Char} {a : Str} (h : c ∉ a) : cutP c a = none := by
  simp [cutP, indexByte_none h]

/-! ## decimal integers -/

theorem digitChar_isDigit (d : Nat) : isDigit (digitChar d) = true := by
  unfold digitChar
  split <;> decide

theorem digitVal_digitChar {d : Nat} (h : d < 10) : digitVal (digitChar d) = d := by
  have : d = 0 ∨ d = 1 ∨ d = 2 ∨ d = 3 ∨ d = 4 ∨ d = 5 ∨ d = 6 ∨ d = 7 ∨ d = 8 ∨ d = 9 := by omega
  rcases this with h | h | h | h | h | h | h | h | h | h <;> subst h <;> decide

theorem digitsValue_append (s t : Str) :
    digitsValue (s ++ t) = t.foldl (fun a c => a * 10 + digitVal c) (digitsValue s) := by
  simp [digitsValue, List.foldl_append]

theorem fmtNatAux_spec : ∀ (f n : Nat) (acc : Str), 0 < f → n < 10 ^ f →
    ∃ ds : Str, fmtNatAux f n acc = ds ++ acc ∧ ds ≠ [] ∧ ds.all isDigit = true ∧ digitsValue ds = n
  | 0, n, acc, hf, h => by omega
  | f + 1, n, acc, _, h => by
    unfold fmtNatAux
    split
    · rename_i hn
      exact ⟨[digitChar n], by simp, by simp, by simp [digitChar_isDigit], by simp [digitsValue, digitVal_digitChar hn]⟩
    · rename_i hn
      have hlt : n / 10 < 10 ^ f := by
        rw [Nat.pow_succ] at h
        omega
      have hf : 0 < f := by
        cases f with
        | zero => simp at hlt; omega
        | succ => omega
      obtain ⟨ds, h1, h2, h3, h4⟩ := fmtNatAux_spec f (n / 10) (digitChar (n % 10) :: acc) hf hlt
      refine ⟨ds ++ [digitChar (n % 10)], by simp [h1], by simp, ?_, ?_⟩
      · simp [List.all_append, h3, digitChar_isDigit]
      · rw [digitsValue_append, h4]
        simp [digitVal_digitChar (Nat.mod_lt n (by decide : 10 > 0))]
        omega

theorem formatNat_spec (n : Nat) :
    formatNat n ≠ [] ∧ (formatNat n).all isDigit = true ∧ digitsValue (formatNat n) = n := by
  have h : n < 10 ^ (n.log2 + 1) :=
    Nat.lt_of_lt_of_le Nat.lt_log2_self (Nat.pow_le_pow_left (by decide) _)
  obtain ⟨ds, h1, h2, h3, h4⟩ := fmtNatAux_spec (n.log2 + 1) n [] (by omega) h
  simp only [List.append_nil] at h1
  unfold formatNat
  rw [h1]
  exact ⟨h2, h3, h4⟩

theorem parseUint_formatNat {bits n : Nat} (h : n < 2 ^ bits) : parseUint bits (formatNat n) = some n := by
  obtain ⟨h1, h2, h3⟩ := formatNat_spec n
  simp [parseUint, h1, h2, h3, h]

theorem formatNat_mem_isDigit {n : Nat} {c : Char} (h : c ∈ formatNat n) : isDigit c = true :=
  List.all_eq_true.mp (formatNat_spec n).2.1 c h

theorem formatInt_nonneg {n : Int} (h : 0 ≤ n) : formatInt n = formatNat n.toNat := by
  unfold formatInt
  simp [Int.not_lt.mpr h]

theorem parseInt31_formatInt {n : Int} (h0 : 0 ≤ n) (h1 : n < 2 ^ 31) : parseInt31 (formatInt n) = .ok n := by
  unfold parseInt31
  rw [formatInt_nonneg h0, parseUint_formatNat (by omega)]
  simp [Int.toNat_of_nonneg h0]


/-! ## byte ranges -/

theorem at_not_mem_formatNat (n : Nat) : '@' ∉ formatNat n := fun h => by
  have := formatNat_mem_isDigit h
  exact absurd this (by decide)

theorem byteRange_roundtrip (r : ByteRange) (hl : r.length < 2 ^ 64) (hs : ∀ s, r.start = some s → s < 2 ^ 64) :
    ByteRange.unmarshal (ByteRange.marshal r) = .ok r := by
  obtain ⟨len, start⟩ := r
  unfold ByteRange.unmarshal ByteRange.marshal
  rw [cut_eq]
  cases start with
  | none =>
    simp only [List.append_nil, Res.ok_bind]
    rw [cutP_none (at_not_mem_formatNat len)]
    simp [parseUint_formatNat hl]
  | some st =>
    simp only [Res.ok_bind]
    rw [cutP_append _ (at_not_mem_formatNat len)]
    simp [parseUint_formatNat hl, parseUint_formatNat (hs st rfl)]

/-! ## attribute lists: the tokenizer on rendered lists -/

/-- an attribute value as it is written: quoted or not -/
inductive AV where
  | q (v : Str)
  | u (v : Str)

def AV.val : AV → Str
  | .q v => v
  | .u v => v

def renderAttr (kv : Str × AV) : Str :=
  match kv.2 with
  | .q v => kv.1 ++ '=' :: '"' :: (v ++ ['"'])
  | .u v => kv.1 ++ '=' :: v

def renderAttrs : List (Str × AV) → Str
  | [] => []
  | [a] => renderAttr a
  | a :: b :: rest => renderAttr a ++ ',' :: renderAttrs (b :: rest)

/-- what the text form needs from an attribute: no `=` in (and no blank before) the name, no `"`
inside a quoted value, no `,` inside and no `"` at the start of an unquoted value -/
def AttrOK (kv : Str × AV) : Prop :=
  '=' ∉ kv.1 ∧ trimLeftSpaces kv.1 = kv.1 ∧
    match kv.2 with
    | .q v => '"' ∉ v
    | .u v => ',' ∉ v ∧ v.head? ≠ some '"'

def setAll (acc : Attrs) (as : List (Str × AV)) : Attrs :=
  as.foldl (fun a kv => a.set kv.1 kv.2.val) acc

theorem attrsLoop_zero_len (fuel : Nat) (a : Attrs) : attrsLoop (fuel + 1) [] a = .ok a := by
  simp [attrsLoop]

/-- one unquoted attribute followed by `tail` (`[]` or `',' :: more`) -/
theorem attrsLoop_unquoted (fuel : Nat) (k v : Str) (acc : Attrs)
    (hk : '=' ∉ k) (ht : trimLeftSpaces k = k) (hv : ',' ∉ v) (hq : v.head? ≠ some '"') :
    attrsLoop (fuel + 1) (k ++ '=' :: v) acc = .ok (acc.set k v) ∧
    ∀ more, attrsLoop (fuel + 1) (k ++ '=' :: (v ++ ',' :: more)) acc = attrsLoop fuel more (acc.set k v) := by
  constructor
  · unfold attrsLoop
    simp only [List.length_append, List.length_cons]
    rw [if_neg (by omega), cut_eq, cutP_append _ hk]
    simp only [Res.ok_bind, ht]
    cases v with
    | nil => simp [cut_eq, cutP, indexByte]
    | cons c t =>
      have hc : c ≠ '"' := by simpa using hq
      split
      · rename_i heq; simp at heq; exact absurd heq.1 hc
      · rw [cut_eq, cutP_none hv]; rfl
  · intro more
    conv => lhs; unfold attrsLoop
    simp only [List.length_append, List.length_cons]
    rw [if_neg (by omega), cut_eq, cutP_append _ hk]
    simp only [Res.ok_bind, ht]
    cases v with
    | nil => simp [cut_eq, cutP, indexByte]
    | cons c t =>
      have hc : c ≠ '"' := by simpa using hq
      split
      · rename_i heq; simp at heq; exact absurd heq.1 hc
      · rw [cut_eq, cutP_append _ hv]; rfl

/-- one quoted attribute followed by nothing or by `',' :: more` -/
theorem attrsLoop_quoted (fuel : Nat) (k v : Str) (acc : Attrs)
    (hk : '=' ∉ k) (ht : trimLeftSpaces k = k) (hv : '"' ∉ v) :
    attrsLoop (fuel + 2) (k ++ '=' :: '"' :: (v ++ ['"'])) acc = .ok (acc.set k v) ∧
    ∀ more, attrsLoop (fuel + 1) (k ++ '=' :: '"' :: (v ++ '"' :: ',' :: more)) acc = attrsLoop fuel more (acc.set k v) := by
  constructor
  · unfold attrsLoop
    simp only [List.length_append, List.length_cons]
    rw [if_neg (by omega), cut_eq, cutP_append _ hk]
    simp only [Res.ok_bind, ht]
    rw [sliceFrom_ok (by simp)]
    simp only [Res.ok_bind, List.drop_succ_cons, List.drop_zero, cut_eq, cutP_append _ hv]
    exact attrsLoop_zero_len _ _
  · intro more
    conv => lhs; unfold attrsLoop
    simp only [List.length_append, List.length_cons]
    rw [if_neg (by omega), cut_eq, cutP_append _ hk]
    simp only [Res.ok_bind, ht]
    rw [sliceFrom_ok (by simp)]
    simp only [Res.ok_bind, List.drop_succ_cons, List.drop_zero, cut_eq, cutP_append _ hv]
    simp [sliceFrom]

theorem renderAttr_length_pos (a : Str × AV) : 0 < (renderAttr a).length := by
  obtain ⟨k, v⟩ := a
  cases v <;> simp [renderAttr] <;> omega

theorem attrsLoop_render : ∀ (as : List (Str × AV)) (fuel : Nat) (acc : Attrs),
    (∀ a ∈ as, AttrOK a) → (renderAttrs as).length < fuel →
    attrsLoop fuel (renderAttrs as) acc = .ok (setAll acc as)
  | [], fuel, acc, _, hf => by
    cases fuel with
    | zero => omega
    | succ f => simp [renderAttrs, attrsLoop, setAll]
  | [a], fuel, acc, hok, hf => by
    obtain ⟨k, v⟩ := a
    have h := hok (k, v) (by simp)
    obtain ⟨hk, ht, hv⟩ := h
    cases v with
    | q v =>
      simp only [renderAttrs, renderAttr] at hf ⊢
      obtain ⟨f, rfl⟩ : ∃ f, fuel = f + 2 := ⟨fuel - 2, by simp at hf; omega⟩
      simpa [setAll, AV.val] using (attrsLoop_quoted f k v acc hk ht hv).1
    | u v =>
      simp only [renderAttrs, renderAttr] at hf ⊢
      obtain ⟨f, rfl⟩ : ∃ f, fuel = f + 1 := ⟨fuel - 1, by omega⟩
      simpa [setAll, AV.val] using (attrsLoop_unquoted f k v acc hk ht hv.1 hv.2).1
  | a :: b :: rest, fuel, acc, hok, hf => by
    obtain ⟨k, v⟩ := a
    have h := hok (k, v) (by simp)
    obtain ⟨hk, ht, hv⟩ := h
    have hrest : ∀ a ∈ b :: rest, AttrOK a := fun a ha => hok a (by simp [ha])
    obtain ⟨f, rfl⟩ : ∃ f, fuel = f + 1 := ⟨fuel - 1, by omega⟩
    cases v with
    | q v =>
      simp only [renderAttrs, renderAttr] at hf ⊢
      have := (attrsLoop_quoted f k v acc hk ht hv).2 (renderAttrs (b :: rest))
      simp only [List.append_assoc, List.cons_append, List.nil_append] at this ⊢
      rw [this]
      rw [attrsLoop_render (b :: rest) f _ hrest (by simp at hf; omega)]
      simp [setAll, AV.val]
    | u v =>
      simp only [renderAttrs, renderAttr] at hf ⊢
      have := (attrsLoop_unquoted f k v acc hk ht hv.1 hv.2).2 (renderAttrs (b :: rest))
      simp only [List.append_assoc, List.cons_append] at this ⊢
      rw [this]
      rw [attrsLoop_render (b :: rest) f _ hrest (by simp at hf; omega)]
      simp [setAll, AV.val]

/-- `c14_attrs_roundtrip` for this slice: the tokenizer recovers a rendered attribute list -/
theorem parseAttrs_render (as : List (Str × AV)) (hok : ∀ a ∈ as, AttrOK a) :
    parseAttrs (renderAttrs as) = .ok (setAll [] as) := by
  unfold parseAttrs
  exact attrsLoop_render as _ [] hok (by omega)


/-! ## lines -/

/-- a line as `ReadLine` returns it unchanged: no LF inside, no CR at the end -/
def Clean (l : Str) : Prop := '\n' ∉ l ∧ l.getLast? ≠ some '\r'

/-- every line followed by LF (what `Marshal` produces) -/
def unlines : List Str → Str
  | [] => []
  | l :: ls => l ++ '\n' :: unlines ls

theorem readLineP_clean {l : Str} (hl : Clean l) (rest : Str) : readLineP (l ++ '\n' :: rest) = (l, rest) := by
  unfold readLineP
  rw [cutP_append _ hl.1]
  simp [hl.2]

theorem readLineP_last {l : Str} (hl : Clean l) : readLineP l = (l, []) := by
  unfold readLineP
  rw [cutP_none hl.1]

theorem classify_nil : classify dispatch [] = none := by decide

section
variable (C : Codec)

theorem step_nil (st : St) : step C st [] = .ok st := by
  simp [step, classify_nil]

/-- the tail of `Media.Unmarshal` after the loop -/
def finish (st : St) : Res Media :=
  let m := { st.m with parts := st.cur.parts }
  if m.targetDuration = 0 then .err
  else if m.segments.length = 0 then .err
  else pure m

theorem loop_unlines : ∀ (ls : List Str) (fuel : Nat) (st : St), (∀ l ∈ ls, Clean l) →
    (unlines ls).length < fuel → loop C fuel st (unlines ls) = ls.foldlM (step C) st
  | [], fuel, st, _, hf => by
    cases fuel with
    | zero => omega
    | succ f => simp [unlines, loop, readLine_eq, readLineP_nil]
  | l :: ls, fuel, st, hc, hf => by
    cases fuel with
    | zero => omega
    | succ f =>
      have hl := hc l (by simp)
      have hrest : ∀ l' ∈ ls, Clean l' := fun l' h => hc l' (by simp [h])
      simp only [unlines] at hf ⊢
      unfold loop
      rw [readLine_eq, readLineP_clean hl]
      simp only [Res.ok_bind, List.foldlM_cons]
      split
      · rename_i h
        obtain ⟨h1, h2⟩ := h
        subst h1
        have : ls = [] := by
          cases ls with
          | nil => rfl
          | cons a b => simp [unlines] at h2
        subst this
        simp [step_nil]
      · have hf' : (unlines ls).length < f := by simp at hf; omega
        simp only [loop_unlines ls f _ hrest hf']

theorem Media.unmarshal_unlines (ls : List Str) (hc : ∀ l ∈ ls, Clean l) :
    Media.unmarshal C (unlines (cs!"#EXTM3U" :: ls)) = (ls.foldlM (step C) {} >>= finish) := by
  unfold Media.unmarshal skipHeader
  have h0 : Clean cs!"#EXTM3U" := by constructor <;> decide
  simp only [unlines]
  rw [readLine_eq, readLineP_clean h0]
  simp only [Res.ok_bind, ne_eq, not_true_eq_false, ↓reduceIte, Res.pure_eq]
  rw [loop_unlines C ls _ _ hc (by omega)]
  rfl

end

end Hls.Playlist.MP
