import Hls.Playlist.MediaGrammarMain
import Hls.Playlist.MediaTime
/-!
# The Go time layout produces date-times of the strict grammar (`TimeGrammatical`)
-/
namespace Hls.Playlist.MG
open Hls.Playlist.MP

theorem twoDigits_pad2 {n lo hi : Nat} (h : n < 100) (hlo : lo ≤ n) (hhi : n ≤ hi) : twoDigits (padNat 2 n) lo hi = true := by
  obtain ⟨a, c, e, da, dc, v⟩ := pad2_cases h
  rw [e]
  simp [twoDigits, da, dc, v, hlo, hhi]

/-- the zone suffix is `Z` or `±hh:mm` with hh ≤ 23, mm ≤ 59 -/
theorem zone_ok (off : Int) (h60 : off % 60 = 0) (hlo : -86400 < off) (hhi : off < 86400) :
    zoneText off = ['Z'] ∨ ∃ sg a c d e, zoneText off = [sg, a, c, ':', d, e] ∧ (sg = '+' ∨ sg = '-') ∧
      twoDigits [a, c] 0 23 = true ∧ twoDigits [d, e] 0 59 = true := by
  unfold zoneText
  by_cases h0 : off = 0
  · exact Or.inl (by simp [h0])
  · right
    simp only [h0, ↓reduceIte]
    obtain ⟨k, hk⟩ : ∃ k, off = 60 * k := ⟨off / 60, by omega⟩
    have htd : off.tdiv 60 = k := by
      rw [hk]
      exact Int.mul_tdiv_cancel_left k (by decide)
    rw [htd]
    have key : ∀ (sg : Char) (n : Nat), n < 1440 → (sg = '+' ∨ sg = '-') →
        ∃ sg' a c d e, sg :: (padNat 2 (n / 60) ++ ':' :: padNat 2 (n % 60)) = [sg', a, c, ':', d, e] ∧ (sg' = '+' ∨ sg' = '-') ∧
          twoDigits [a, c] 0 23 = true ∧ twoDigits [d, e] 0 59 = true := by
      intro sg n hn hsg
      obtain ⟨a, c, e1, _, _, _⟩ := pad2_cases (n := n / 60) (by omega)
      obtain ⟨d, e, e2, _, _, _⟩ := pad2_cases (n := n % 60) (by omega)
      have t1 := twoDigits_pad2 (n := n / 60) (lo := 0) (hi := 23) (by omega) (by omega) (by omega)
      have t2 := twoDigits_pad2 (n := n % 60) (lo := 0) (hi := 59) (by omega) (by omega) (by omega)
      rw [e1] at t1
      rw [e2] at t2
      exact ⟨sg, a, c, d, e, by simp [e1, e2], hsg, t1, t2⟩
    by_cases hneg : k < 0
    · obtain ⟨n, hn⟩ : ∃ n : Nat, (n : Int) = -k := ⟨(-k).toNat, by omega⟩
      have hk' : k = -(n : Int) := by omega
      subst hk'
      have hlt : -(n : Int) < 0 := hneg
      simp only [hlt, ↓reduceIte, Int.neg_neg]
      have e1 : ((n : Int) / 60) = ((n / 60 : Nat) : Int) := by omega
      have e2 : ((n : Int) % 60) = ((n % 60 : Nat) : Int) := by omega
      rw [e1, e2, appendInt_nonneg (by omega), appendInt_nonneg (by omega)]
      simp only [Int.toNat_natCast]
      exact key '-' n (by omega) (Or.inr rfl)
    · obtain ⟨n, hn⟩ : ∃ n : Nat, (n : Int) = k := ⟨k.toNat, by omega⟩
      subst hn
      simp only [hneg, ↓reduceIte]
      have e1 : ((n : Int) / 60) = ((n / 60 : Nat) : Int) := by omega
      have e2 : ((n : Int) % 60) = ((n % 60 : Nat) : Int) := by omega
      rw [e1, e2, appendInt_nonneg (by omega), appendInt_nonneg (by omega)]
      simp only [Int.toNat_natCast]
      exact key '+' n (by omega) (Or.inl rfl)

/-- fraction + zone as the grammar wants them -/
theorem tail_ok (nsec : Nat) (hn : nsec < 1000000000) (off : Int) (h60 : off % 60 = 0) (hlo : -86400 < off) (hhi : off < 86400) :
    dtZoneOK (dtFracRest (fracText nsec ++ zoneText off)) = true := by
  obtain ⟨hdig, _, hnil, _⟩ := frac_table (nsec / 1000000) (by omega)
  obtain ⟨z, zs, hzt, hz0, hz1, _⟩ := zoneText_head off
  have hzone := zone_ok off h60 hlo hhi
  have hfinal : dtZoneOK (some (zoneText off)) = true := by
    rcases hzone with h | ⟨sg, a, c, d, e, h, hsg, t1, t2⟩
    · rw [h]; rfl
    · rw [h]
      rcases hsg with rfl | rfl <;> simp [dtZoneOK, t1, t2]
  have hnofrac : dtFracRest (zoneText off) = some (zoneText off) := by
    rw [hzt]
    unfold dtFracRest
    split
    · rename_i f heq
      simp at heq
      exact absurd heq.1 hz1
    · rfl
  unfold fracText
  by_cases h0 : nsec = 0
  · simp only [h0, ↓reduceIte, List.nil_append, hnofrac, hfinal]
  · simp only [h0, ↓reduceIte]
    by_cases hd : trimTrailingZeros (padNat 3 (nsec / 1000000)) = []
    · simp only [hd, ↓reduceIte, List.nil_append, hnofrac, hfinal]
    · simp only [hd, ↓reduceIte, List.cons_append]
      generalize trimTrailingZeros (padNat 3 (nsec / 1000000)) = ds at hdig hd
      have htw : List.takeWhile isDigit (ds ++ zoneText off) = ds := by
        rw [hzt]
        exact takeWhile_append_stop ds z zs hdig hz0
      simp only [dtFracRest, htw, hd, ↓reduceIte, List.drop_left, hfinal]

/-- `Time.Format` with the layout of `media.go` writes a date-time of the strict grammar -/
theorem go_timeGrammatical : ∀ t, wfTime t = true → isDateTime (goFormatTime t) = true := by
  intro t hw
  have hw' := hw
  simp only [wfTime, Bool.and_eq_true, decide_eq_true_eq] at hw'
  obtain ⟨⟨⟨⟨⟨h60, hlo⟩, hhi⟩, hy0⟩, hy1⟩, hns⟩ := hw'
  obtain ⟨rem, hrem⟩ : ∃ r, r = (t.sec + t.off) % 86400 := ⟨_, rfl⟩
  have hremb : 0 ≤ rem ∧ rem < 86400 := by omega
  have hdb : -719528 ≤ (t.sec + t.off) / 86400 ∧ (t.sec + t.off) / 86400 ≤ 2932896 := by omega
  obtain ⟨cy0, cy1, cm0, cm1, cd0, cd1⟩ := civil_valid _ hdb.1 hdb.2
  rw [goFormatTime_eq, ← hrem]
  generalize civilFromDays ((t.sec + t.off) / 86400) = c at cy0 cy1 cm0 cm1 cd0 cd1
  obtain ⟨y, m, d⟩ := c
  simp only at cy0 cy1 cm0 cm1 cd0 cd1
  obtain ⟨yn, rfl⟩ : ∃ n : Nat, y = n := ⟨y.toNat, by omega⟩
  obtain ⟨mn, rfl⟩ : ∃ n : Nat, m = n := ⟨m.toNat, by omega⟩
  obtain ⟨dn, rfl⟩ : ∃ n : Nat, d = n := ⟨d.toNat, by omega⟩
  obtain ⟨hh, hhh⟩ : ∃ n : Nat, rem / 3600 = n := ⟨(rem / 3600).toNat, by omega⟩
  obtain ⟨mi, hmi⟩ : ∃ n : Nat, rem % 3600 / 60 = n := ⟨(rem % 3600 / 60).toNat, by omega⟩
  obtain ⟨ss, hss⟩ : ∃ n : Nat, rem % 60 = n := ⟨(rem % 60).toNat, by omega⟩
  have hd31 : (dn : Int) ≤ 31 := by
    have : daysIn (mn : Int) (yn : Int) ≤ 31 := by
      unfold daysIn
      split
      · split <;> decide
      · split <;> decide
    omega
  simp only [hhh, hmi, hss, appendInt_nonneg (Int.natCast_nonneg _), Int.toNat_natCast]
  obtain ⟨y1, y2, y3, y4, ey, dy1, dy2, dy3, dy4, _⟩ := pad4_cases (n := yn) (by omega)
  obtain ⟨m1, m2, em, _, _, _⟩ := pad2_cases (n := mn) (by omega)
  obtain ⟨d1, d2, ed, _, _, _⟩ := pad2_cases (n := dn) (by omega)
  obtain ⟨h1, h2, eh, _, _, _⟩ := pad2_cases (n := hh) (by omega)
  obtain ⟨i1, i2, ei, _, _, _⟩ := pad2_cases (n := mi) (by omega)
  obtain ⟨s1, s2, es, _, _, _⟩ := pad2_cases (n := ss) (by omega)
  have tm := twoDigits_pad2 (n := mn) (lo := 1) (hi := 12) (by omega) (by omega) (by omega)
  have td := twoDigits_pad2 (n := dn) (lo := 1) (hi := 31) (by omega) (by omega) (by omega)
  have th := twoDigits_pad2 (n := hh) (lo := 0) (hi := 23) (by omega) (by omega) (by omega)
  have ti := twoDigits_pad2 (n := mi) (lo := 0) (hi := 59) (by omega) (by omega) (by omega)
  have ts := twoDigits_pad2 (n := ss) (lo := 0) (hi := 60) (by omega) (by omega) (by omega)
  rw [em] at tm; rw [ed] at td; rw [eh] at th; rw [ei] at ti; rw [es] at ts
  rw [ey, em, ed, eh, ei, es]
  have hy : allDigits [y1, y2, y3, y4] = true := by simp [allDigits, dy1, dy2, dy3, dy4]
  have htail := tail_ok t.nsec hns t.off h60 hlo hhi
  simp only [List.cons_append, List.nil_append, isDateTime, hy, tm, td, th, ti, ts, Bool.and_self, Bool.true_and]
  exact htail

theorem go_TimeGrammatical (D : Codec) : TimeGrammatical D.withGoTime := go_timeGrammatical

end Hls.Playlist.MG
