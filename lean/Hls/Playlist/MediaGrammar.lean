import Hls.Playlist.MediaPrim
/-!
# A strict recogniser of MEDIA playlists (RFC 8216 §4, draft-pantos-hls-rfc8216bis)

Independent of the decoder model: it shares only `Str` and the digit predicates with
`MediaPrim`.  The Go twin is `go/cmd/corr/playlist_grammar.go`; the `playlist` stream
cross-checks the two on every text (field `g=` of `unm`).

Strict means: `#EXTM3U` first; only known media-playlist tags; every tag where and as often as
it is allowed; attribute lists without blanks, every attribute known for its tag, at most once,
with a value of the lexical class the RFC prescribes, required attributes present; every URI
line preceded by exactly one `EXTINF`.

`lenientByteRange`: RFC 8216 §4.3.2.5 / 8216bis §4.4.4.9 make `BYTERANGE` of `EXT-X-MAP` /
`EXT-X-PART` a quoted-string; the lenient dialect also accepts the unquoted `n[@o]` form the
library emits (finding F17).
-/
namespace Hls.Playlist.MG
open Hls.Playlist.MP

/-- `strings.Split(s, c)` -/
def splitOn (c : Char) : Str → List Str
  | [] => [[]]
  | x :: xs =>
    if x = c then [] :: splitOn c xs
    else match splitOn c xs with
      | l :: ls => (x :: l) :: ls
      | [] => [[x]]

def allDigits (s : Str) : Bool := s ≠ [] && s.all isDigit

def isDecInt (s : Str) : Bool := allDigits s && s.length ≤ 20

/-- before / after the first `c` -/
def cutAt (c : Char) : Str → Option (Str × Str)
  | [] => none
  | x :: xs => if x = c then some ([], xs) else (cutAt c xs).map fun p => (x :: p.1, p.2)

def isFloat (s : Str) : Bool :=
  match cutAt '.' s with
  | none => allDigits s
  | some (a, r) => allDigits a && allDigits r

def isSignedFloat (s : Str) : Bool :=
  match s with
  | '-' :: t => isFloat t
  | _ => isFloat s

def isRange (s : Str) : Bool :=
  match cutAt '@' s with
  | none => isDecInt s
  | some (a, r) => isDecInt a && isDecInt r

def noQuoteCRLF (s : Str) : Bool := s.all fun c => c ≠ '"' && c ≠ '\r' && c ≠ '\n'

/-- `"…"`; returns the content -/
def quotedContent (s : Str) : Option Str :=
  match s with
  | '"' :: t =>
    match t.reverse with
    | '"' :: r => if noQuoteCRLF r then some r.reverse else none
    | _ => none
  | _ => none

def isQuoted (s : Str) : Bool := (quotedContent s).isSome

def isHexDigit (c : Char) : Bool := isDigit c || ('a' ≤ c && c ≤ 'f') || ('A' ≤ c && c ≤ 'F')

def isHexSeq (s : Str) : Bool :=
  match s with
  | '0' :: x :: d :: rest => (x = 'x' || x = 'X') && (d :: rest).all isHexDigit
  | _ => false

def isAttrName (s : Str) : Bool :=
  s ≠ [] && s.all fun c => ('A' ≤ c && c ≤ 'Z') || isDigit c || c = '-'

def twoDigits (s : Str) (lo hi : Nat) : Bool :=
  match s with
  | [a, c] => isDigit a && isDigit c && lo ≤ digitVal a * 10 + digitVal c && digitVal a * 10 + digitVal c ≤ hi
  | _ => false

/-- optional fraction `.f+`; returns what follows it (`none`: a dot without digits) -/
def dtFracRest (r : Str) : Option Str :=
  match r with
  | '.' :: f =>
    let ds := f.takeWhile isDigit
    if ds = [] then none else some (f.drop ds.length)
  | _ => some r

/-- `Z`, `±hh:mm` or `±hhmm` with hh ≤ 23, mm ≤ 59 -/
def dtZoneOK (r : Option Str) : Bool :=
  match r with
  | none => false
  | some ['Z'] => true
  | some [sg, a, c, ':', d, e] => (sg = '+' || sg = '-') && twoDigits [a, c] 0 23 && twoDigits [d, e] 0 59
  | some [sg, a, c, d, e] => (sg = '+' || sg = '-') && twoDigits [a, c] 0 23 && twoDigits [d, e] 0 59
  | _ => false

/-- `YYYY-MM-DDThh:mm:ss[.f+](Z|±hh:mm|±hhmm)` -/
def isDateTime (s : Str) : Bool :=
  match s with
  | y1 :: y2 :: y3 :: y4 :: '-' :: m1 :: m2 :: '-' :: d1 :: d2 :: 'T' :: h1 :: h2 :: ':' :: i1 :: i2 :: ':' :: s1 :: s2 :: r =>
    allDigits [y1, y2, y3, y4] && twoDigits [m1, m2] 1 12 && twoDigits [d1, d2] 1 31 && twoDigits [h1, h2] 0 23 &&
    twoDigits [i1, i2] 0 59 && twoDigits [s1, s2] 0 60 && dtZoneOK (dtFracRest r)
  | _ => false

inductive Lex where
  | int | hex | float | signedFloat | quoted | quotedRange
  | enum (vals : List Str)
  deriving Repr

structure AttrSpec where
  name : Str
  lex : Lex
  required : Bool := false

inductive ATag where
  | start | serverControl | partInf | map | key | skip | part | preloadHint
  deriving DecidableEq, Repr

def attrTable : ATag → List AttrSpec
  | .start => [⟨cs!"TIME-OFFSET", .signedFloat, true⟩, ⟨cs!"PRECISE", .enum [cs!"YES", cs!"NO"], false⟩]
  | .serverControl => [⟨cs!"CAN-SKIP-UNTIL", .float, false⟩, ⟨cs!"CAN-SKIP-DATERANGES", .enum [cs!"YES"], false⟩,
      ⟨cs!"HOLD-BACK", .float, false⟩, ⟨cs!"PART-HOLD-BACK", .float, false⟩, ⟨cs!"CAN-BLOCK-RELOAD", .enum [cs!"YES"], false⟩]
  | .partInf => [⟨cs!"PART-TARGET", .float, true⟩]
  | .map => [⟨cs!"URI", .quoted, true⟩, ⟨cs!"BYTERANGE", .quotedRange, false⟩]
  | .key => [⟨cs!"METHOD", .enum [cs!"NONE", cs!"AES-128", cs!"SAMPLE-AES"], true⟩, ⟨cs!"URI", .quoted, false⟩,
      ⟨cs!"IV", .hex, false⟩, ⟨cs!"KEYFORMAT", .quoted, false⟩, ⟨cs!"KEYFORMATVERSIONS", .quoted, false⟩]
  | .skip => [⟨cs!"SKIPPED-SEGMENTS", .int, true⟩, ⟨cs!"RECENTLY-REMOVED-DATERANGES", .quoted, false⟩]
  | .part => [⟨cs!"URI", .quoted, true⟩, ⟨cs!"DURATION", .float, true⟩, ⟨cs!"INDEPENDENT", .enum [cs!"YES"], false⟩,
      ⟨cs!"BYTERANGE", .quotedRange, false⟩, ⟨cs!"GAP", .enum [cs!"YES"], false⟩]
  | .preloadHint => [⟨cs!"TYPE", .enum [cs!"PART", cs!"MAP"], true⟩, ⟨cs!"URI", .quoted, true⟩,
      ⟨cs!"BYTERANGE-START", .int, false⟩, ⟨cs!"BYTERANGE-LENGTH", .int, false⟩]

def lexOK (lenient : Bool) (l : Lex) (v : Str) : Bool :=
  match l with
  | .int => isDecInt v
  | .hex => isHexSeq v
  | .float => isFloat v
  | .signedFloat => isSignedFloat v
  | .quoted => isQuoted v
  | .quotedRange =>
    (match quotedContent v with
     | some c => isRange c
     | none => false) || (lenient && isRange v)
  | .enum vals => vals.contains v

/-- split at commas outside quoted strings; `none` = unterminated quote -/
def splitItems : Str → Bool → Str → Option (List Str)
  | [], inq, cur => if inq then none else some [cur.reverse]
  | c :: rest, inq, cur =>
    if c = '"' then splitItems rest (!inq) (c :: cur)
    else if c = ',' && !inq then (splitItems rest false []).map (cur.reverse :: ·)
    else splitItems rest inq (c :: cur)

def checkItems (lenient : Bool) (spec : List AttrSpec) : List Str → List (Str × Str) → Option (List (Str × Str))
  | [], seen => some seen
  | it :: rest, seen =>
    match cutAt '=' it with
    | none => none
    | some (name, val) =>
      if !isAttrName name then none
      else match spec.find? (fun a => a.name == name) with
        | none => none
        | some a =>
          if seen.any (fun p => p.1 == name) then none
          else if !lexOK lenient a.lex val then none
          else checkItems lenient spec rest (seen ++ [(name, val)])

def checkAttrs (lenient : Bool) (tag : ATag) (body : Str) : Bool :=
  if body = [] then tag = .serverControl
  else
    match splitItems body false [] with
    | none => false
    | some items =>
      match checkItems lenient (attrTable tag) items [] with
      | none => false
      | some seen =>
        (attrTable tag).all (fun a => !a.required || seen.any (fun p => p.1 == a.name)) &&
        (if tag = .key then
          (if seen.any (fun p => p.1 == cs!"METHOD" && p.2 == cs!"NONE") then seen.length = 1
           else seen.any (fun p => p.1 == cs!"URI"))
         else true)

structure GSt where
  once : List Str := []
  segments : Nat := 0
  sawDisc : Bool := false
  extinf : Bool := false
  byterange : Bool := false
  gap : Bool := false
  disc : Bool := false
  pdt : Bool := false
  bitrate : Bool := false
  deriving Repr

def GSt.mark (st : GSt) (name : Str) : Option GSt :=
  if st.once.contains name then none else some { st with once := name :: st.once }

def hasPfx (l p : Str) : Bool := p.isPrefixOf l

def containsSub (l sub : Str) : Bool :=
  match l with
  | [] => sub = []
  | _ :: t => hasPfx l sub || containsSub t sub

/-- one line after the first -/
def lineStep (lenient : Bool) (st : GSt) (l : Str) : Option GSt :=
  match l with
  | [] => some st
  | c :: _ =>
    if c ≠ '#' then
      if !st.extinf then none
      else some { st with segments := st.segments + 1, extinf := false, byterange := false, gap := false,
                          disc := false, pdt := false, bitrate := false }
    else if !hasPfx l (cs!"#EXT") then some st
    else
      let (name, val, hasVal) : Str × Str × Bool := match cutAt ':' l with
        | some (n, v) => (n, v, true)
        | none => (l, [], false)
      if name = cs!"#EXTM3U" then none
      else if name = cs!"#EXT-X-VERSION" ∨ name = cs!"#EXT-X-TARGETDURATION" ∨ name = cs!"#EXT-X-MEDIA-SEQUENCE" ∨
          name = cs!"#EXT-X-DISCONTINUITY-SEQUENCE" then do
        let st ← st.mark name
        if !hasVal || !isDecInt val then none
        else if name = cs!"#EXT-X-MEDIA-SEQUENCE" ∧ st.segments > 0 then none
        else if name = cs!"#EXT-X-DISCONTINUITY-SEQUENCE" ∧ (st.segments > 0 ∨ st.sawDisc) then none
        else some st
      else if name = cs!"#EXT-X-INDEPENDENT-SEGMENTS" ∨ name = cs!"#EXT-X-ENDLIST" then do
        let st ← st.mark name
        if hasVal then none else some st
      else if name = cs!"#EXT-X-ALLOW-CACHE" then do
        let st ← st.mark name
        if val = cs!"YES" ∨ val = cs!"NO" then some st else none
      else if name = cs!"#EXT-X-PLAYLIST-TYPE" then do
        let st ← st.mark name
        if val = cs!"EVENT" ∨ val = cs!"VOD" then some st else none
      else if name = cs!"#EXT-X-START" then do
        let st ← st.mark name
        if hasVal && checkAttrs lenient .start val then some st else none
      else if name = cs!"#EXT-X-SERVER-CONTROL" then do
        let st ← st.mark name
        if hasVal && checkAttrs lenient .serverControl val then some st else none
      else if name = cs!"#EXT-X-PART-INF" then do
        let st ← st.mark name
        if hasVal && checkAttrs lenient .partInf val then some st else none
      else if name = cs!"#EXT-X-SKIP" then do
        let st ← st.mark name
        if hasVal && checkAttrs lenient .skip val && st.segments = 0 then some st else none
      else if name = cs!"#EXT-X-MAP" then
        if hasVal && checkAttrs lenient .map val then some st else none
      else if name = cs!"#EXT-X-KEY" then
        if hasVal && checkAttrs lenient .key val then some st else none
      else if name = cs!"#EXT-X-PART" then
        if hasVal && checkAttrs lenient .part val then some st else none
      else if name = cs!"#EXT-X-PRELOAD-HINT" then
        if hasVal && checkAttrs lenient .preloadHint val then
          st.mark (name ++ (if containsSub val (cs!"TYPE=PART") then cs!" PART" else cs!" MAP"))
        else none
      else if name = cs!"#EXT-X-DISCONTINUITY" then
        if hasVal || st.disc then none else some { st with disc := true, sawDisc := true }
      else if name = cs!"#EXT-X-GAP" then
        if hasVal || st.gap then none else some { st with gap := true }
      else if name = cs!"#EXT-X-PROGRAM-DATE-TIME" then
        if st.pdt || !isDateTime val then none else some { st with pdt := true }
      else if name = cs!"#EXT-X-BITRATE" then
        if st.bitrate || !hasVal || !isDecInt val then none else some { st with bitrate := true }
      else if name = cs!"#EXTINF" then
        if st.extinf then none
        else match cutAt ',' val with
          | some (d, _) => if hasVal && isFloat d then some { st with extinf := true } else none
          | none => none
      else if name = cs!"#EXT-X-BYTERANGE" then
        if st.byterange || !hasVal || !isRange val then none else some { st with byterange := true }
      else none

def stripCR (l : Str) : Str :=
  match l.reverse with
  | '\r' :: r => r.reverse
  | _ => l

def foldLines (lenient : Bool) : GSt → List Str → Option GSt
  | st, [] => some st
  | st, l :: rest =>
    match lineStep lenient st l with
    | none => none
    | some st => foldLines lenient st rest

/-- the recogniser -/
def accepts (lenient : Bool) (text : Str) : Bool :=
  let lines := splitOn '\n' text
  let lines := match lines.reverse with
    | [] :: r => r.reverse
    | _ => lines
  let lines := lines.map stripCR
  if lines.any (fun l => l.contains '\r') then false
  else
    match lines with
    | first :: rest =>
      if first ≠ cs!"#EXTM3U" then false
      else match foldLines lenient {} rest with
        | none => false
        | some st => st.once.contains (cs!"#EXT-X-TARGETDURATION") && !(st.extinf || st.byterange || st.gap)
    | [] => false

end Hls.Playlist.MG
