/-
  Lexical primitives of gohlslib/pkg/playlist, as an executable model on
  `List Char` (one `Char` per Go byte; the drivers map byte b ↦ `Char.ofNat b`).
  Core Lean only.

  Mirrors, statement by statement:
    pkg/playlist/primitives/read_line.go   ReadLine
    pkg/playlist/primitives/header.go      SkipHeader
    pkg/playlist/primitives/attributes.go  Attributes.Unmarshal   (the tokenizer)
    pkg/playlist/primitives/byterange.go   ByteRange.{Unmarshal,Marshal}
    pkg/playlist/primitives/duration.go    Duration.Unmarshal
  and the parts of the Go standard library these (and the tag files) call:
    strings.IndexByte / HasPrefix / TrimLeft(" ") / Split(one-byte separator)
    strconv.ParseUint(s, 10, bits) / FormatInt / FormatUint
    strconv.ParseFloat(s, 64) / FormatFloat(x, 'f', prec, 64)
    time.Duration.Seconds(), float64 → int64 conversion (amd64 semantics)

  Every Go slicing / indexing operation that can panic is an explicit checked
  operation (`sliceTo`, `sliceFrom`, `byteAt`, `idx`) whose failure is the outcome
  `Err.panic`; the theorems of C15 show this outcome is unreachable.

  Binary floating point is modelled EXACTLY by a soft-float `F64` (sign, integer
  mantissa, binary exponent) with correctly rounded (nearest-even) operations, all
  in integer arithmetic.  The "exact integer functions with an error envelope" of
  DESIGN §2 are `quant5`/`dec5`; the relation between the two levels is the
  proposition `FloatEnvelope` (see the end of this file).
-/
set_option linter.unusedVariables false

namespace Hls.Playlist

open Lean in
/-- `c!"abc"` is the explicit character list `['a','b','c']` (so that `simp`/`decide`
    never have to evaluate `String.toList`). -/
macro:max "c!" s:str : term => do
  let elems ← s.getString.toList.toArray.mapM fun c => `($(Syntax.mkCharLit c))
  `([$elems,*])

abbrev Str := List Char

/-- Error classes (canonical form of a Go `error`), plus the `panic` outcome. -/
inductive Err
  | panic                          -- Go run-time panic (index / slice out of range)
  | num                            -- *strconv.NumError (syntax or range)
  | attrKey                        -- "key not found"
  | attrQuote                      -- "value end delimiter not found"
  | attrDelim                      -- "delimiter not found"
  | hdr                            -- "M3U8 header is missing"
  | eof                            -- io.EOF (findType)
  | cls (name : String)            -- any other fmt.Errorf, by class name
  | wrap (ctx : String) (e : Err)  -- fmt.Errorf("<ctx>: %w", e)
  deriving DecidableEq, Repr

abbrev Res := Except Err

def Err.isPanic : Err → Bool
  | .panic => true
  | _ => false

/-- `fmt.Errorf("ctx: %w", err)` — a panic is not an error value and is never wrapped. -/
def Err.wrapIn (ctx : String) : Err → Err
  | .panic => .panic
  | e => .wrap ctx e

def Err.toString : Err → String
  | .panic => "panic"
  | .num => "num"
  | .attrKey => "attr-key"
  | .attrQuote => "attr-quote"
  | .attrDelim => "attr-delim"
  | .hdr => "hdr"
  | .eof => "eof"
  | .cls n => n
  | .wrap c e => c ++ ":" ++ e.toString

/-- `r` did not panic. -/
def NoPanic {α} (r : Res α) : Prop := ∀ e, r = .error e → e ≠ .panic

/-! ## Go string operations -/

/-- `strings.IndexByte(v, c)` (`none` = -1). -/
def indexByte (c : Char) : Str → Option Nat
  | [] => none
  | x :: xs => if x = c then some 0 else (indexByte c xs).map (· + 1)

theorem indexByte_lt {c : Char} {v : Str} {i : Nat} (h : indexByte c v = some i) : i < v.length := by
  induction v generalizing i with
  | nil => simp [indexByte] at h
  | cons x xs ih =>
    simp only [indexByte] at h
    split at h
    · cases h; simp
    · cases hx : indexByte c xs with
      | none => simp [hx] at h
      | some j =>
        simp [hx] at h
        have := ih hx
        subst h; simp; omega

/-- `v[:i]` -/
def sliceTo (v : Str) (i : Nat) : Res Str :=
  if i ≤ v.length then .ok (v.take i) else .error .panic

/-- `v[i:]` -/
def sliceFrom (v : Str) (i : Nat) : Res Str :=
  if i ≤ v.length then .ok (v.drop i) else .error .panic

/-- `v[i]` -/
def byteAt (v : Str) (i : Nat) : Res Char :=
  match v[i]? with
  | some c => .ok c
  | none => .error .panic

/-- `l[i]` on a slice of strings -/
def idx {α} (l : List α) (i : Nat) : Res α :=
  match l[i]? with
  | some c => .ok c
  | none => .error .panic

/-- `strings.HasPrefix(v, p)` -/
def hasPrefix (p v : Str) : Bool := p.isPrefixOf v

/-- `strings.TrimLeft(v, " ")` -/
def trimLeftSpaces (v : Str) : Str := v.dropWhile (· = ' ')

/-- `strings.Split(v, string(c))` for a one-byte separator (never returns `[]`). -/
def splitByte (c : Char) : Str → List Str
  | [] => [[]]
  | x :: xs =>
    if x = c then [] :: splitByte c xs
    else match splitByte c xs with
      | [] => [[x]]              -- unreachable
      | l :: ls => (x :: l) :: ls

/-- `strings.Join(l, string(c))` -/
def joinByte (c : Char) : List Str → Str
  | [] => []
  | [a] => a
  | a :: b :: r => a ++ c :: joinByte c (b :: r)

/-! ## ReadLine / SkipHeader -/

/-- `primitives.ReadLine` -/
def readLine (s : Str) : Res (Str × Str) :=
  match indexByte '\n' s with
  | none => .ok (s, [])
  | some i => do
    let line ← sliceTo s i
    let remaining ← sliceFrom s (i + 1)
    if line.length ≠ 0 then
      let last ← byteAt line (line.length - 1)
      if last = '\r' then
        let line' ← sliceTo line (line.length - 1)
        return (line', remaining)
      else return (line, remaining)
    else return (line, remaining)

def headerLit : Str := c!"#EXTM3U"

/-- `primitives.SkipHeader` -/
def skipHeader (s : Str) : Res Str := do
  let (line, s) ← readLine s
  if line ≠ headerLit then .error .hdr else return s

/-! `ReadLine` without the checked operations, and what the loop needs to terminate. -/

def readLineSpec (s : Str) : Str × Str :=
  match indexByte '\n' s with
  | none => (s, [])
  | some i =>
    let line := s.take i
    (if line.getLast? = some '\r' then line.dropLast else line, s.drop (i + 1))

theorem readLine_eq (s : Str) : readLine s = .ok (readLineSpec s) := by
  unfold readLine readLineSpec
  cases h : indexByte '\n' s with
  | none => rfl
  | some i =>
    have hlt := indexByte_lt h
    have h1 : i ≤ s.length := by omega
    have h2 : i + 1 ≤ s.length := by omega
    simp only [sliceTo, sliceFrom, h1, h2, if_true, bind, Except.bind, pure, Except.pure]
    generalize s.take i = line
    cases hl : line.getLast? with
    | none =>
      have : line = [] := by simpa using hl
      subst this; simp
    | some c =>
      have hne : line ≠ [] := by intro h0; subst h0; simp at hl
      have hlen : line.length ≠ 0 := by simpa using hne
      have hget : line[line.length - 1]? = some c := by
        rw [List.getLast?_eq_getElem?] at hl; exact hl
      simp only [hlen, ne_eq, not_false_eq_true, if_true, byteAt, hget]
      by_cases hc : c = '\r'
      · subst hc
        have : line.length - 1 ≤ line.length := by omega
        simp [this, List.dropLast_eq_take]
      · simp [hc]

theorem readLineSpec_snd_le (s : Str) : (readLineSpec s).2.length ≤ s.length := by
  unfold readLineSpec
  cases h : indexByte '\n' s with
  | none => simp
  | some i => simp

theorem readLineSpec_shrinks {s : Str} (h : ¬ ((readLineSpec s).1 = [] ∧ (readLineSpec s).2 = [])) :
    (readLineSpec s).2.length < s.length := by
  unfold readLineSpec at h ⊢
  cases hi : indexByte '\n' s with
  | none =>
    simp [hi] at h
    simp
    exact List.length_pos_iff.mpr h
  | some i =>
    have := indexByte_lt hi
    simp; omega

/-! ## Decimal integers -/

def isDigit (c : Char) : Bool := '0' ≤ c ∧ c ≤ '9'

def digitVal (c : Char) : Nat := c.toNat - 48

def digitChar (d : Nat) : Char := Char.ofNat (48 + d)

/-- value of a digit string, most significant first -/
def digitsToNat (cs : Str) : Nat := cs.foldl (fun a c => 10 * a + digitVal c) 0

/-- decimal digits of `n`, most significant first (`fuel` ≥ number of digits). -/
def natDigitsAux : Nat → Nat → Str → Str
  | 0, _, acc => acc
  | fuel + 1, n, acc =>
    if n < 10 then digitChar n :: acc
    else natDigitsAux fuel (n / 10) (digitChar (n % 10) :: acc)

/-- `strconv.FormatUint(n, 10)` -/
def natToDigits (n : Nat) : Str := natDigitsAux (n + 1) n []

/-- `strconv.ParseUint(s, 10, bits)`: non-empty, decimal digits only, value < 2^bits. -/
def parseUint (bits : Nat) (s : Str) : Res Nat :=
  match s with
  | [] => .error .num
  | _ =>
    if s.all isDigit then
      let n := digitsToNat s
      if n < 2 ^ bits then .ok n else .error .num
    else .error .num

/-- `strconv.FormatInt(i, 10)` -/
def formatInt (i : Int) : Str :=
  if i < 0 then '-' :: natToDigits i.natAbs else natToDigits i.natAbs

/-! ## ByteRange -/

structure ByteRange where
  length : Nat
  start : Option Nat
  deriving DecidableEq, Repr

/-- `ByteRange.Unmarshal` -/
def ByteRange.unmarshal (v : Str) : Res ByteRange :=
  match indexByte '@' v with
  | some i => do
    let str1 ← sliceTo v i
    let str2 ← sliceFrom v (i + 1)
    let length ← parseUint 64 str1
    let start ← parseUint 64 str2
    return { length := length, start := some start }
  | none => do
    let length ← parseUint 64 v
    return { length := length, start := none }

/-- `ByteRange.Marshal` -/
def ByteRange.marshal (b : ByteRange) : Str :=
  let ret := natToDigits b.length
  match b.start with
  | some s => ret ++ c!"@" ++ natToDigits s
  | none => ret

/-! ## Attribute lists (`primitives.Attributes`) -/

/-- A Go `map[string]string`: association list with distinct keys. -/
abbrev AttrMap := List (Str × Str)

/-- `m[k] = v` -/
def AttrMap.insert : AttrMap → Str → Str → AttrMap
  | [], k, v => [(k, v)]
  | (k', v') :: m, k, v => if k' = k then (k, v) :: m else (k', v') :: AttrMap.insert m k v

/-- `v, ok := m[k]` -/
def AttrMap.get (m : AttrMap) (k : Str) : Option Str := List.lookup k m

/-- `i := strings.IndexByte(v, c); if i >= 0 { a, b = v[:i], v[i+1:] }` -/
def cut (c : Char) (v : Str) : Res (Option (Str × Str)) :=
  match indexByte c v with
  | none => .ok none
  | some i => do
    let a ← sliceTo v i
    let b ← sliceFrom v (i + 1)
    return some (a, b)

/-- `len(v) != 0 && v[0] == c` -/
def startsWithByte (c : Char) (v : Str) : Res Bool :=
  if v.length ≠ 0 then do return decide ((← byteAt v 0) = c) else pure false

/-- One iteration of the `for` loop of `Attributes.Unmarshal` on a NON-EMPTY `v`.
    Result: the updated map and `some rest` (continue with `rest`) or `none` (`break`). -/
def attrStep (v : Str) (m : AttrMap) : Res (AttrMap × Option Str) := do
  -- read key
  match ← cut '=' v with
  | none => .error .attrKey
  | some (key, v) =>
    let key := trimLeftSpaces key
    -- read value
    if ← startsWithByte '"' v then
      let v ← sliceFrom v 1
      match ← cut '"' v with
      | none => .error .attrQuote
      | some (val, v) =>
        let m := m.insert key val
        if v.length ≠ 0 then
          if (← byteAt v 0) ≠ ',' then .error .attrDelim
          else return (m, some (← sliceFrom v 1))
        else return (m, some v)
    else
      match ← cut ',' v with
      | some (val, v) => return (m.insert key val, some v)
      | none => return (m.insert key v, none)

/-! The same step without the checked operations (what it computes when nothing
    panics — and nothing ever does, `attrStep_eq`). -/

def cutSpec (c : Char) (v : Str) : Option (Str × Str) :=
  match indexByte c v with
  | none => none
  | some i => some (v.take i, v.drop (i + 1))

def attrUnquoted (key v : Str) (m : AttrMap) : Res (AttrMap × Option Str) :=
  match cutSpec ',' v with
  | some (val, v') => .ok (m.insert key val, some v')
  | none => .ok (m.insert key v, none)

def attrQuoted (key v : Str) (m : AttrMap) : Res (AttrMap × Option Str) :=
  match cutSpec '"' v with
  | none => .error .attrQuote
  | some (val, v') =>
    match v' with
    | [] => .ok (m.insert key val, some [])
    | d :: v'' => if d ≠ ',' then .error .attrDelim else .ok (m.insert key val, some v'')

def attrStepSpec (v : Str) (m : AttrMap) : Res (AttrMap × Option Str) :=
  match cutSpec '=' v with
  | none => .error .attrKey
  | some (key, v1) =>
    match v1 with
    | [] => attrUnquoted (trimLeftSpaces key) [] m
    | q :: v2 => if q = '"' then attrQuoted (trimLeftSpaces key) v2 m else attrUnquoted (trimLeftSpaces key) (q :: v2) m

theorem cut_eq (c : Char) (v : Str) : cut c v = .ok (cutSpec c v) := by
  unfold cut cutSpec
  cases h : indexByte c v with
  | none => rfl
  | some i =>
    have := indexByte_lt h
    have h1 : i ≤ v.length := by omega
    have h2 : i + 1 ≤ v.length := by omega
    simp [sliceTo, sliceFrom, h1, h2, bind, Except.bind, pure, Except.pure]

theorem cutSpec_shrinks {c : Char} {v a b : Str} (h : cutSpec c v = some (a, b)) : b.length < v.length := by
  unfold cutSpec at h
  cases hi : indexByte c v with
  | none => simp [hi] at h
  | some i =>
    have := indexByte_lt hi
    simp [hi] at h
    rw [← h.2]; simp; omega

theorem attrStep_eq (v : Str) (m : AttrMap) : attrStep v m = attrStepSpec v m := by
  unfold attrStep attrStepSpec
  simp only [cut_eq, bind, Except.bind]
  cases cutSpec '=' v with
  | none => rfl
  | some kv =>
    obtain ⟨key, v1⟩ := kv
    cases v1 with
    | nil => simp [startsWithByte, attrUnquoted, pure, Except.pure]
    | cons q v2 =>
      by_cases hq : q = '"'
      · subst hq
        simp [startsWithByte, byteAt, sliceFrom, attrQuoted, bind, Except.bind, pure, Except.pure]
        cases cutSpec '"' v2 with
        | none => rfl
        | some p =>
          obtain ⟨val, v3⟩ := p
          cases v3 with
          | nil => simp
          | cons d v4 => by_cases hd : d = ',' <;> simp [hd]
      · simp [startsWithByte, byteAt, hq, attrUnquoted, bind, Except.bind, pure, Except.pure]

/-- Every iteration that continues consumes at least one byte: the loop cannot spin. -/
theorem attrStep_shrinks {v : Str} {m m' : AttrMap} {rest : Str}
    (h : attrStep v m = .ok (m', some rest)) : rest.length < v.length := by
  rw [attrStep_eq] at h
  unfold attrStepSpec at h
  cases hc : cutSpec '=' v with
  | none => simp [hc] at h
  | some kv =>
    obtain ⟨key, v1⟩ := kv
    have h1 := cutSpec_shrinks hc
    simp only [hc] at h
    have hU : ∀ w : Str, attrUnquoted (trimLeftSpaces key) w m = .ok (m', some rest) → rest.length < w.length := by
      intro w hw
      unfold attrUnquoted at hw
      cases hc2 : cutSpec ',' w with
      | none => simp [hc2] at hw
      | some p =>
        obtain ⟨val, w'⟩ := p
        simp [hc2] at hw
        have := cutSpec_shrinks hc2
        rw [← hw.2]; exact this
    cases v1 with
    | nil => have := hU [] h; simp at this
    | cons q v2 =>
      simp only at h
      split at h
      · unfold attrQuoted at h
        cases hc2 : cutSpec '"' v2 with
        | none => simp [hc2] at h
        | some p =>
          obtain ⟨val, v3⟩ := p
          have h2 := cutSpec_shrinks hc2
          simp only [hc2] at h
          cases v3 with
          | nil => simp at h; rw [h.2]; simp at h1; simp; omega
          | cons d v4 =>
            simp only at h
            split at h
            · cases h
            · simp at h; rw [← h.2]; simp at h1 h2; omega
      · have := hU _ h
        omega

/-- The `for` loop of `Attributes.Unmarshal`.  Defined by well-founded recursion on
    the length of the remaining input: the termination proof (`attrStep_shrinks`) is
    the "never busy-loops" argument of C15. -/
def parseAttrsLoop (v : Str) (m : AttrMap) : Res AttrMap :=
  match v with
  | [] => .ok m                                  -- `if len(v) == 0 { break }`
  | c :: cs =>
    match _hstep : attrStep (c :: cs) m with
    | .error e => .error e
    | .ok (m', none) => .ok m'
    | .ok (m', some rest) => parseAttrsLoop rest m'
termination_by v.length
decreasing_by exact attrStep_shrinks _hstep

/-- `Attributes.Unmarshal` (`*a = make(Attributes)` then the loop). -/
def parseAttrs (v : Str) : Res AttrMap := parseAttrsLoop v []

/-! ## Soft float: exact model of IEEE-754 binary64 -/

/-- A binary64 value. `fin neg m e` is (-1)^neg · m · 2^e in canonical form:
    `m < 2^53`, `-1074 ≤ e ≤ 971`, and `2^52 ≤ m` unless `e = -1074` (subnormals and
    zero, the latter as `m = 0`, `e = -1074`). -/
inductive F64
  | nan
  | inf (neg : Bool)
  | fin (neg : Bool) (m : Nat) (e : Int)
  deriving DecidableEq, Repr

namespace F64

def minExp : Int := -1074
def maxExp : Int := 971

/-- Nearest-even rounding of the non-negative rational `num/den` (`den > 0`) to binary64. -/
def roundRat (neg : Bool) (num den : Nat) : F64 :=
  if num = 0 ∨ den = 0 then .fin neg 0 minExp
  else
    let ln : Int := Nat.log2 num
    let ld : Int := Nat.log2 den
    let d := ln - ld
    -- fl = ⌊log2 (num/den)⌋ ∈ {d-1, d}
    let ge : Bool := if d ≥ 0 then num ≥ den * 2 ^ d.toNat else num * 2 ^ (-d).toNat ≥ den
    let fl : Int := if ge then d else d - 1
    let e : Int := max (fl - 52) minExp
    let n' : Nat := if e ≥ 0 then num else num * 2 ^ (-e).toNat
    let d' : Nat := if e ≥ 0 then den * 2 ^ e.toNat else den
    let q := n' / d'
    let r := n' % d'
    let q1 := if 2 * r > d' ∨ (2 * r = d' ∧ q % 2 = 1) then q + 1 else q
    let (q2, e2) := if q1 = 2 ^ 53 then (2 ^ 52, e + 1) else (q1, e)
    if e2 > maxExp then .inf neg else .fin neg q2 e2

/-- `float64(i)` for an integer -/
def ofInt (i : Int) : F64 := roundRat (i < 0) i.natAbs 1

def isNeg : F64 → Bool
  | .nan => false
  | .inf n => n
  | .fin n _ _ => n

/-- magnitude of a finite value as a fraction -/
def magNum (m : Nat) (e : Int) : Nat := if e ≥ 0 then m * 2 ^ e.toNat else m
def magDen (e : Int) : Nat := if e ≥ 0 then 1 else 2 ^ (-e).toNat

/-- `a * float64(k)` for a positive integer constant `k` that is exactly representable. -/
def mulNat (a : F64) (k : Nat) : F64 :=
  match a with
  | .nan => .nan
  | .inf n => .inf n
  | .fin n m e => roundRat n (magNum m e * k) (magDen e)

/-- `a / float64(k)` for a positive integer constant `k` that is exactly representable. -/
def divNat (a : F64) (k : Nat) : F64 :=
  match a with
  | .nan => .nan
  | .inf n => .inf n
  | .fin n m e => roundRat n (magNum m e) (magDen e * k)

/-- `a + b` (round to nearest even). -/
def add (a b : F64) : F64 :=
  match a, b with
  | .nan, _ => .nan
  | _, .nan => .nan
  | .inf n1, .inf n2 => if n1 = n2 then .inf n1 else .nan
  | .inf n1, _ => .inf n1
  | _, .inf n2 => .inf n2
  | .fin n1 m1 e1, .fin n2 m2 e2 =>
    let e := min e1 e2
    let a1 : Int := (m1 * 2 ^ (e1 - e).toNat : Nat)
    let a2 : Int := (m2 * 2 ^ (e2 - e).toNat : Nat)
    let s : Int := (if n1 then -a1 else a1) + (if n2 then -a2 else a2)
    if s = 0 then .fin (n1 && n2) 0 minExp
    else roundRat (s < 0) (magNum s.natAbs e) (magDen e)

/-- `int64(f)`: truncation; out of range / NaN give `math.MinInt64` (amd64 `CVTTSD2SQ`). -/
def toInt64 : F64 → Int
  | .nan => -(2 ^ 63)
  | .inf _ => -(2 ^ 63)
  | .fin n m e =>
    let v : Nat := magNum m e / magDen e
    if n then (if v ≤ 2 ^ 63 then -(v : Int) else -(2 ^ 63))
    else (if v < 2 ^ 63 then (v : Int) else -(2 ^ 63))

def padLeft (n : Nat) (s : Str) : Str := List.replicate (n - s.length) '0' ++ s

/-- decimal text of `N · 10^-prec` with exactly `prec ≥ 1` fractional digits -/
def decFixed (prec : Nat) (N : Nat) : Str :=
  natToDigits (N / 10 ^ prec) ++ '.' :: padLeft prec (natToDigits (N % 10 ^ prec))

/-- `strconv.FormatFloat(f, 'f', prec, 64)` for `prec ≥ 1` (exact decimal expansion,
    round half to even — `bigFtoa`). -/
def fmtFixed (prec : Nat) : F64 → Str
  | .nan => c!"NaN"
  | .inf false => c!"+Inf"
  | .inf true => c!"-Inf"
  | .fin n m e =>
    let num := magNum m e * 10 ^ prec
    let den := magDen e
    let q := num / den
    let r := num % den
    let N := if 2 * r > den ∨ (2 * r = den ∧ q % 2 = 1) then q + 1 else q
    (if n then c!"-" else []) ++ decFixed prec N

/-- IEEE bit pattern (canonical observation of a float64; NaN = `math.NaN()`). -/
def bits : F64 → Nat
  | .nan => 0x7FF8000000000001
  | .inf n => (if n then 2 ^ 63 else 0) + 0x7FF0000000000000
  | .fin n m e =>
    (if n then 2 ^ 63 else 0) +
      (if m < 2 ^ 52 then m else (e + 1075).toNat * 2 ^ 52 + (m - 2 ^ 52))

/-- inverse of `bits` -/
def ofBits (b : Nat) : F64 :=
  let n : Bool := b / 2 ^ 63 % 2 = 1
  let ex : Nat := b / 2 ^ 52 % 2 ^ 11
  let fr : Nat := b % 2 ^ 52
  if ex = 2047 then (if fr = 0 then .inf n else .nan)
  else if ex = 0 then .fin n fr minExp
  else .fin n (2 ^ 52 + fr) ((ex : Int) - 1075)

end F64

/-! ### `strconv.ParseFloat(s, 64)` -/

/-- `lower(c)`: `c | 0x20` -/
def lowerByte (c : Char) : Nat := c.toNat ||| 0x20

/-- `commonPrefixLenIgnoreCase(s, prefix)` (prefix lower-case) -/
def commonPrefixLenIgnoreCase : Str → Str → Nat
  | c :: s, p :: ps =>
    let c' := if 'A' ≤ c ∧ c ≤ 'Z' then Char.ofNat (c.toNat + 32) else c
    if c' ≠ p then 0 else 1 + commonPrefixLenIgnoreCase s ps
  | _, _ => 0

/-- the `inf` / `infinity` arm of `special` -/
def floatSpecialInf (neg : Bool) (nsign : Nat) (s : Str) : Option (F64 × Nat) :=
  let n := commonPrefixLenIgnoreCase s c!"infinity"
  let n := if 3 < n ∧ n < 8 then 3 else n
  if n = 3 ∨ n = 8 then some (.inf neg, nsign + n) else none

/-- `special(s)`: `some (value, consumed length)` -/
def floatSpecial (s : Str) : Option (F64 × Nat) :=
  match s with
  | [] => none
  | '+' :: s' => floatSpecialInf false 1 s'
  | '-' :: s' => floatSpecialInf true 1 s'
  | 'i' :: _ => floatSpecialInf false 0 s
  | 'I' :: _ => floatSpecialInf false 0 s
  | 'n' :: _ => if commonPrefixLenIgnoreCase s c!"nan" = 3 then some (.nan, 3) else none
  | 'N' :: _ => if commonPrefixLenIgnoreCase s c!"nan" = 3 then some (.nan, 3) else none
  | _ => none

/-- state of the mantissa scan of `readFloat` (mantissa kept at full precision) -/
structure RFState where
  mant : Nat := 0
  nd : Nat := 0
  dp : Int := 0
  sawdot : Bool := false
  sawdigits : Bool := false
  underscores : Bool := false

/-- the `loop:` of `readFloat`; returns the final state and the unconsumed rest -/
def rfScan (hex : Bool) : Str → RFState → RFState × Str
  | [], st => (st, [])
  | c :: cs, st =>
    if c = '_' then rfScan hex cs { st with underscores := true }
    else if c = '.' then
      if st.sawdot then (st, c :: cs)
      else rfScan hex cs { st with sawdot := true, dp := st.nd }
    else if isDigit c then
      if c = '0' ∧ st.nd = 0 then rfScan hex cs { st with sawdigits := true, dp := st.dp - 1 }
      else rfScan hex cs { st with sawdigits := true, nd := st.nd + 1,
                                   mant := st.mant * (if hex then 16 else 10) + digitVal c }
    else if hex ∧ 97 ≤ lowerByte c ∧ lowerByte c ≤ 102 then
      rfScan hex cs { st with sawdigits := true, nd := st.nd + 1, mant := st.mant * 16 + (lowerByte c - 97 + 10) }
    else (st, c :: cs)

/-- the exponent digit loop of `readFloat` (value saturates once ≥ 10000) -/
def rfExpDigits : Str → Nat → Bool → Nat × Bool × Str
  | [], e, u => (e, u, [])
  | c :: cs, e, u =>
    if c = '_' then rfExpDigits cs e true
    else if isDigit c then rfExpDigits cs (if e < 10000 then e * 10 + digitVal c else e) u
    else (e, u, c :: cs)

/-- the main loop of `underscoreOK` -/
def underscoreGo (hex : Bool) : Str → Char → Bool
  | [], saw => saw ≠ '_'
  | c :: cs, saw =>
    if isDigit c ∨ (hex ∧ 97 ≤ lowerByte c ∧ lowerByte c ≤ 102) then underscoreGo hex cs '0'
    else if c = '_' then (if saw ≠ '0' then false else underscoreGo hex cs '_')
    else if saw = '_' then false
    else underscoreGo hex cs '!'

/-- `underscoreOK(s)` -/
def underscoreOK (s : Str) : Bool :=
  let s := match s with
    | '-' :: r => r
    | '+' :: r => r
    | _ => s
  let (hex, saw0, s) : Bool × Char × Str := match s with
    | '0' :: c :: r =>
      if lowerByte c = 98 ∨ lowerByte c = 111 ∨ lowerByte c = 120 then (lowerByte c = 120, '0', r) else (false, '^', s)
    | _ => (false, '^', s)
  underscoreGo hex s saw0

/-- `10^k` or `2^k` scaling of an exact mantissa, rounded once. Large exponents are cut
    short (the result is ±Inf / ±0 long before `10^k` would have to be computed). -/
def scaleDec (neg : Bool) (mant : Nat) (nd : Nat) (x : Int) : F64 :=
  if mant = 0 then .fin neg 0 F64.minExp
  else if x > 310 then .inf neg
  else if x + nd < -330 then .fin neg 0 F64.minExp
  else if x ≥ 0 then F64.roundRat neg (mant * 10 ^ x.toNat) 1
  else F64.roundRat neg mant (10 ^ (-x).toNat)

def scaleBin (neg : Bool) (mant : Nat) (x : Int) : F64 :=
  if mant = 0 then .fin neg 0 F64.minExp
  else if x > 1100 then .inf neg
  else if x + (Nat.log2 mant + 1 : Nat) < -1080 then .fin neg 0 F64.minExp
  else if x ≥ 0 then F64.roundRat neg (mant * 2 ^ x.toNat) 1
  else F64.roundRat neg mant (2 ^ (-x).toNat)

/-- `readFloat` followed by the conversion: `none` = syntax error; otherwise the
    correctly rounded value and the rest of the input that was not consumed. -/
def readFloat (s : Str) : Option (F64 × Str) :=
  let (neg, s1) := match s with
    | '+' :: r => (false, r)
    | '-' :: r => (true, r)
    | _ => (false, s)
  match s with
  | [] => none
  | _ =>
  let (hex, s2) := match s1 with
    | '0' :: x :: y :: r => if lowerByte x = 120 then (true, y :: r) else (false, s1)
    | _ => (false, s1)
  let (st, rest) := rfScan hex s2 {}
  if ¬ st.sawdigits then none
  else
    let dp : Int := if st.sawdot then st.dp else st.nd
    let dp := if hex then dp * 4 else dp
    let ndBits : Int := if hex then st.nd * 4 else st.nd
    let expChar : Nat := if hex then 112 else 101
    -- optional exponent
    let expPart : Option (Int × Bool × Str) :=
      match rest with
      | c :: r =>
        if lowerByte c = expChar then
          match r with
          | [] => none
          | _ =>
            let (esign, r1) : Int × Str := match r with
              | '+' :: t => (1, t)
              | '-' :: t => (-1, t)
              | _ => (1, r)
            match r1 with
            | [] => none
            | d :: _ =>
              if ¬ isDigit d then none
              else
                let (e, u, r2) := rfExpDigits r1 0 false
                some (dp + (e : Int) * esign, u, r2)
        else if hex then none else some (dp, false, rest)
      | [] => if hex then none else some (dp, false, rest)
    match expPart with
    | none => none
    | some (dp, u2, rest) =>
      let consumed := s.take (s.length - rest.length)
      if (st.underscores ∨ u2) ∧ ¬ underscoreOK consumed then none
      else
        let x := dp - ndBits
        some (if hex then scaleBin neg st.mant x else scaleDec neg st.mant st.nd x, rest)

/-- `strconv.ParseFloat(s, 64)`: overflow to ±Inf is `ErrRange`, trailing bytes are `ErrSyntax`. -/
def parseFloat (s : Str) : Res F64 :=
  match floatSpecial s with
  | some (f, n) => if n = s.length then .ok f else .error .num
  | none =>
    match readFloat s with
    | none => .error .num
    | some (f, rest) =>
      match rest with
      | [] => (match f with
               | .inf _ => .error .num
               | f => .ok f)
      | _ => .error .num

/-! ## Durations -/

/-- `time.Duration(d).Seconds()`: `float64(sec) + float64(nsec)/1e9` -/
def secondsF (d : Int) : F64 :=
  let sec := d.tdiv 1000000000
  let nsec := d.tmod 1000000000
  F64.add (F64.ofInt sec) (F64.divNat (F64.ofInt nsec) 1000000000)

/-- `strconv.FormatFloat(time.Duration(d).Seconds(), 'f', 5, 64)` — the text form of
    every duration attribute (EXTINF, PART DURATION, TIME-OFFSET, PART-TARGET, …). -/
def durFmt5 (d : Int) : Str := F64.fmtFixed 5 (secondsF d)

/-- `primitives.Duration.Unmarshal`: `time.Duration(ParseFloat(val) * float64(time.Second))` -/
def durUnmarshal (val : Str) : Res Int := do
  let tmp ← parseFloat val
  return F64.toInt64 (F64.mulNat tmp 1000000000)

/-! ## The exact-integer level (DESIGN §2) and the float envelope -/

/-- decimal text of `q · 10^-prec` for an integer `q` (sign, integer part, `prec` digits) -/
def decInt (prec : Nat) (q : Int) : Str :=
  (if q < 0 then c!"-" else []) ++ F64.decFixed prec q.natAbs

/-- text of a duration of `q` units of 10 µs -/
def dec5 (q : Int) : Str := decInt 5 q

/-- `q` (units of 10 µs) is a legal rounding of `ns`: nearest, either neighbour at a tie. -/
def IsQuant5 (ns q : Int) : Prop := (q * 10000 - ns).natAbs ≤ 5000

/-- `d'` is a legal decoding of the text `dec5 q`: exact, or off by the 1 ns that the
    binary product `ParseFloat(text) * 1e9` may lose before truncation. -/
def IsDecoded5 (q d' : Int) : Prop := (d' - q * 10000).natAbs ≤ 1

/-- Range in which the envelope is claimed: |d| ≤ 10^15 ns (≈ 11.5 days). -/
def durBound : Int := 1000000000000000

/-- The float envelope of DESIGN §2, as a proposition about the soft-float functions
    above (validated by the T2 stream on boundary-heavy generators; PROVED in
    `Hls/Playlist/FloatLemmas.lean`: `floatEnvelope`, `floatEnvelope3`).
    * `fmt`: formatting a duration prints a nearest multiple of 10 µs (ties either way),
      in canonical `dec5` form (durations in [-5000 ns, -1 ns] print as "-0.00000" and are
      excluded: they have no canonical form);
    * `parse`: parsing such a text gives the exact value or 1 ns less in magnitude. -/
structure FloatEnvelope : Prop where
  fmt : ∀ d : Int, d.natAbs ≤ durBound.natAbs → (-5000 ≤ d → 0 ≤ d) →
    ∃ q : Int, durFmt5 d = dec5 q ∧ IsQuant5 d q
  parse : ∀ q : Int, (q * 10000).natAbs ≤ durBound.natAbs + 5000 →
    ∃ d' : Int, durUnmarshal (dec5 q) = .ok d' ∧ IsDecoded5 q d'

/-- `FRAME-RATE`: the binary64 nearest to `k/1000`. -/
def f64OfMilli (k : Nat) : F64 := F64.roundRat false k 1000

/-- Envelope for `FormatFloat(x,'f',3)` / `ParseFloat` on values with 3 decimals. -/
structure FloatEnvelope3 : Prop where
  fmt : ∀ k : Nat, k ≤ 1000000000000 → F64.fmtFixed 3 (f64OfMilli k) = decInt 3 k
  parse : ∀ k : Nat, k ≤ 1000000000000 → parseFloat (decInt 3 k) = .ok (f64OfMilli k)

end Hls.Playlist
