/-
  Lexical primitives used by the MEDIA playlist model (`Hls/Playlist/MediaModel.lean`).

  Go strings are byte strings.  A Go `string` is modelled as `Str = List Char` where every
  `Char` stands for one byte (code points 0..255; the driver converts).  Every function
  below mirrors one Go function of `pkg/playlist/primitives` or one trusted library call
  (`strconv`, `strings`, `time`) that the playlist code uses.

  * Operations that can panic in Go (slicing with a computed index, indexing a slice) are
    explicit: `sliceFrom`, `sliceTo`, `idx` return `Res.panic` when Go would panic.
    Loops carry a fuel argument; running out of fuel is reported as `panic` as well, so that
    "never panics" also says "never busy-loops".
  * `strconv.ParseFloat` / `FormatFloat`, float64 arithmetic and `time.Parse` / `Time.Format`
    are given EXECUTABLE exact models here (`F64`, `Dur.ieee…`, `GoTime…`) which the driver uses
    (tie T2 validates them against the real code), while the theorems of C14 quantify over
    an abstract `Codec` constrained by `Codec.Valid` (error envelope of DESIGN §2).
-/
namespace Hls.Playlist.MP

abbrev Str := List Char

open Lean in
/-- `cs!"abc"` is the character list `['a', 'b', 'c']`, expanded at elaboration time (so that
proofs see explicit `List.cons` terms and never have to evaluate `String.toList`). -/
macro:max "cs!" s:str : term => do
  let cs := s.getString.toList
  let elems : Array (TSyntax `term) := (cs.map fun c => (⟨Syntax.mkCharLit c⟩ : TSyntax `term)).toArray
  `(([$elems,*] : List Char))

/-! ## Outcome monad -/

inductive Res (α : Type) where
  | ok (a : α)
  | err
  | panic
  deriving DecidableEq, Repr

namespace Res
@[inline] def bind {α β} (r : Res α) (f : α → Res β) : Res β :=
  match r with
  | .ok a => f a
  | .err => .err
  | .panic => .panic

instance : Monad Res where
  pure := Res.ok
  bind := Res.bind

@[simp] theorem pure_eq {α} (a : α) : (pure a : Res α) = .ok a := rfl
@[simp] theorem ok_bind {α β} (a : α) (f : α → Res β) : (Res.ok a >>= f) = f a := rfl
@[simp] theorem err_bind {α β} (f : α → Res β) : ((Res.err : Res α) >>= f) = .err := rfl
@[simp] theorem panic_bind {α β} (f : α → Res β) : ((Res.panic : Res α) >>= f) = .panic := rfl

/-- `none` = the Go function returned an error. -/
def ofOption {α} : Option α → Res α
  | some a => .ok a
  | none => .err

@[simp] theorem ofOption_some {α} (a : α) : ofOption (some a) = .ok a := rfl
@[simp] theorem ofOption_none {α} : ofOption (none : Option α) = .err := rfl
end Res

/-! ## Byte-string operations (Go built-ins and package `strings`) -/

/-- Go `s[n:]` -/
def sliceFrom (s : Str) (n : Nat) : Res Str :=
  if n ≤ s.length then .ok (s.drop n) else .panic

/-- Go `s[:n]` -/
def sliceTo (s : Str) (n : Nat) : Res Str :=
  if n ≤ s.length then .ok (s.take n) else .panic

/-- Go `xs[i]` -/
def idx {α} (xs : List α) (i : Nat) : Res α :=
  match xs[i]? with
  | some x => .ok x
  | none => .panic

/-- `strings.IndexByte`; `none` stands for `-1`. -/
def indexByte (c : Char) : Str → Option Nat
  | [] => none
  | x :: xs => if x = c then some 0 else (indexByte c xs).map (· + 1)

/-- `strings.HasPrefix s p` -/
def hasPrefix : Str → Str → Bool
  | _, [] => true
  | [], _ :: _ => false
  | a :: s, b :: p => a == b && hasPrefix s p

/-- `strings.TrimLeft(s, " ")` -/
def trimLeftSpaces : Str → Str
  | ' ' :: s => trimLeftSpaces s
  | s => s

/-- `i := strings.IndexByte(v, c)` followed by `v[:i], v[i+1:]` (the idiom used by `ReadLine`,
the attribute tokenizer and `ByteRange.Unmarshal`).  `ok none` ⇔ `i < 0`. -/
def cut (c : Char) (v : Str) : Res (Option (Str × Str)) :=
  match indexByte c v with
  | none => .ok none
  | some i => do
    let a ← sliceTo v i
    let b ← sliceFrom v (i + 1)
    pure (some (a, b))

/-- `primitives.ReadLine` -/
def readLine (s : Str) : Res (Str × Str) := do
  match ← cut '\n' s with
  | none => pure (s, [])
  | some (line, remaining) =>
    -- `len(line) != 0 && line[len(line)-1] == '\r'`
    if line.getLast? = some '\r' then do
      let line ← sliceTo line (line.length - 1)
      pure (line, remaining)
    else
      pure (line, remaining)

/-- `primitives.SkipHeader` -/
def skipHeader (s : Str) : Res Str := do
  let (line, s) ← readLine s
  if line ≠ cs!"#EXTM3U" then .err else pure s

/-! ### `strings.TrimSpace`
Unicode aware: ASCII `\t \n \v \f \r ' '` plus the UTF-8 encodings of U+0085, U+00A0, U+1680,
U+2000–U+200A, U+2028, U+2029, U+202F, U+205F, U+3000.  `utf8.DecodeRune` /
`DecodeLastRune` return exactly these runes for exactly these byte sequences (they are the
shortest encodings), anything else decodes to a non-space rune or to `RuneError`. -/

def isAsciiSpace (c : Char) : Bool :=
  c = '\t' || c = '\n' || c = Char.ofNat 11 || c = Char.ofNat 12 || c = '\r' || c = ' '

def byte (n : Nat) : Char := Char.ofNat n

/-- number of leading bytes that form one white-space rune (0 = the first rune is not a space) -/
def spacePrefixLen : Str → Nat
  | [] => 0
  | c :: rest =>
    if isAsciiSpace c then 1
    else if c = byte 0xC2 then
      match rest with
      | d :: _ => if d = byte 0x85 || d = byte 0xA0 then 2 else 0
      | [] => 0
    else if c = byte 0xE1 then
      match rest with
      | d :: e :: _ => if d = byte 0x9A && e = byte 0x80 then 3 else 0
      | _ => 0
    else if c = byte 0xE2 then
      match rest with
      | d :: e :: _ =>
        if d = byte 0x80 && ((0x80 ≤ e.toNat && e.toNat ≤ 0x8A) || e = byte 0xA8 || e = byte 0xA9 || e = byte 0xAF) then 3
        else if d = byte 0x81 && e = byte 0x9F then 3 else 0
      | _ => 0
    else if c = byte 0xE3 then
      match rest with
      | d :: e :: _ => if d = byte 0x80 && e = byte 0x80 then 3 else 0
      | _ => 0
    else 0

/-- same, looking at the END of the string (argument is the reversed string) -/
def spaceSuffixLen : Str → Nat
  | [] => 0
  | c :: rest =>
    if c.toNat < 0x80 then (if isAsciiSpace c then 1 else 0)
    else
      match rest with
      | d :: rest2 =>
        if d = byte 0xC2 && (c = byte 0x85 || c = byte 0xA0) then 2
        else
          match rest2 with
          | e :: _ => if spacePrefixLen [e, d, c] = 3 then 3 else 0
          | [] => 0
      | [] => 0

def trimSpaceLeft : Nat → Str → Str
  | 0, s => s
  | f + 1, s =>
    match spacePrefixLen s with
    | 0 => s
    | n => trimSpaceLeft f (s.drop n)

def trimSpaceRightRev : Nat → Str → Str
  | 0, s => s
  | f + 1, s =>
    match spaceSuffixLen s with
    | 0 => s
    | n => trimSpaceRightRev f (s.drop n)

/-- `strings.TrimSpace` -/
def trimSpace (s : Str) : Str :=
  let l := trimSpaceLeft s.length s
  (trimSpaceRightRev l.length l.reverse).reverse

/-- `strings.SplitN(s, ",", 2)`: one or two pieces. -/
def splitN2 (c : Char) (s : Str) : Res (List Str) := do
  match ← cut c s with
  | none => pure [s]
  | some (a, r) => pure [a, r]

/-! ## Decimal integers (`strconv.FormatInt/FormatUint/ParseUint`) -/

def digitChar : Nat → Char
  | 0 => '0' | 1 => '1' | 2 => '2' | 3 => '3' | 4 => '4'
  | 5 => '5' | 6 => '6' | 7 => '7' | 8 => '8' | _ => '9'

def isDigit (c : Char) : Bool := '0' ≤ c && c ≤ '9'

def digitVal (c : Char) : Nat := c.toNat - 48

def fmtNatAux : Nat → Nat → Str → Str
  | 0, _, acc => acc
  | f + 1, n, acc =>
    if n < 10 then digitChar n :: acc else fmtNatAux f (n / 10) (digitChar (n % 10) :: acc)

/-- `strconv.FormatUint(n, 10)` -/
def formatNat (n : Nat) : Str := fmtNatAux (n.log2 + 1) n []

/-- `strconv.FormatInt(n, 10)` -/
def formatInt (n : Int) : Str :=
  if n < 0 then '-' :: formatNat n.natAbs else formatNat n.toNat

def digitsValue (s : Str) : Nat := s.foldl (fun a c => a * 10 + digitVal c) 0

/-- `strconv.ParseUint(s, 10, bits)`: non-empty, digits only, value `< 2^bits`. -/
def parseUint (bits : Nat) (s : Str) : Option Nat :=
  if s = [] then none
  else if s.all isDigit then
    let n := digitsValue s
    if n < 2 ^ bits then some n else none
  else none

/-- zero-padded decimal of width `w` (more digits if the value does not fit) -/
def padNat (w : Nat) (n : Nat) : Str :=
  let d := formatNat n
  List.replicate (w - d.length) '0' ++ d

/-! ## Attribute lists (`primitives.Attributes.Unmarshal`) -/

abbrev Attrs := List (Str × Str)

/-- Go map assignment `a[key] = val` (insertion order kept; the order is irrelevant for the
per-tag decoders, see `MediaLemmas`). -/
def Attrs.set (a : Attrs) (k v : Str) : Attrs :=
  if a.any (fun kv => kv.1 == k) then a.map (fun kv => if kv.1 == k then (k, v) else kv)
  else a ++ [(k, v)]

def Attrs.get (a : Attrs) (k : Str) : Option Str :=
  (a.find? (fun kv => kv.1 == k)).map (·.2)

def attrsLoop : Nat → Str → Attrs → Res Attrs
  | 0, _, _ => .panic   -- out of fuel: unreachable, see `attrsLoop_fuel`
  | fuel + 1, v, a =>
    if v.length = 0 then .ok a
    else do
      -- read key
      match ← cut '=' v with
      | none => .err  -- key not found
      | some (key, v) =>
        let key := trimLeftSpaces key
        -- read value
        match v with
        | '"' :: _ => do
          let v ← sliceFrom v 1
          match ← cut '"' v with
          | none => .err -- value end delimiter not found
          | some (val, v) =>
            let a := a.set key val
            match v with
            | [] => attrsLoop fuel v a
            | c :: _ =>
              if c ≠ ',' then .err -- delimiter not found
              else do
                let v ← sliceFrom v 1
                attrsLoop fuel v a
        | _ => do
          match ← cut ',' v with
          | some (val, v) => attrsLoop fuel v (a.set key val)
          | none => .ok (a.set key v)

/-- `Attributes.Unmarshal` -/
def parseAttrs (v : Str) : Res Attrs := attrsLoop (v.length + 1) v []

/-! ## Byte ranges (`primitives.ByteRange`) -/

structure ByteRange where
  length : Nat
  start : Option Nat
  deriving DecidableEq, Repr

/-- `ByteRange.Unmarshal` -/
def ByteRange.unmarshal (v : Str) : Res ByteRange := do
  match ← cut '@' v with
  | some (str1, str2) =>
    let length ← Res.ofOption (parseUint 64 str1)
    let start ← Res.ofOption (parseUint 64 str2)
    pure { length := length, start := some start }
  | none =>
    let length ← Res.ofOption (parseUint 64 v)
    pure { length := length, start := none }

/-- `ByteRange.Marshal` -/
def ByteRange.marshal (r : ByteRange) : Str :=
  formatNat r.length ++ (match r.start with | some s => '@' :: formatNat s | none => [])

/-! ## float64, exactly (executable reference for `strconv` + float arithmetic)

A finite double is `(-1)^neg · m · 2^e`.  `roundRat` rounds a non-negative rational to the
nearest double, ties to even, with the subnormal range and overflow to infinity of IEEE 754
binary64. -/

inductive F64 where
  | fin (neg : Bool) (m : Nat) (e : Int)
  | inf (neg : Bool)
  | nan
  deriving Repr, DecidableEq

def roundHalfEven (num den : Nat) : Nat :=
  let q := num / den
  let r := num % den
  if 2 * r < den then q
  else if 2 * r > den then q + 1
  else if q % 2 = 0 then q else q + 1

/-- `⌊log2 (num/den)⌋` for `num, den > 0` -/
def floorLog2Rat (num den : Nat) : Int :=
  let k : Int := (num.log2 : Int) - (den.log2 : Int)
  let ge : Bool := if k ≥ 0 then decide (num ≥ den * 2 ^ k.toNat) else decide (num * 2 ^ (-k).toNat ≥ den)
  if ge then k else k - 1

def roundRat (neg : Bool) (num den : Nat) : F64 :=
  if num = 0 then .fin neg 0 0
  else
    let fl := floorLog2Rat num den
    let e : Int := max (fl - 52) (-1074)
    let q := if e ≥ 0 then roundHalfEven num (den * 2 ^ e.toNat) else roundHalfEven (num * 2 ^ (-e).toNat) den
    if (q.log2 : Int) + e ≥ 1024 then .inf neg else .fin neg q e

/-- `x * k` for a positive integer constant `k` that is itself a double (here 1e9) -/
def F64.mulNat : F64 → Nat → F64
  | .fin neg m e, k => if e ≥ 0 then roundRat neg (m * k * 2 ^ e.toNat) 1 else roundRat neg (m * k) (2 ^ (-e).toNat)
  | .inf neg, _ => .inf neg
  | .nan, _ => .nan

def minInt64 : Int := -(2 ^ 63)

/-- Go `int64(f)` on amd64 (`CVTTSD2SQ`): truncation toward zero; NaN, ±Inf and values outside
the int64 range give the "integer indefinite" value `-2^63` (the Go spec leaves this case
implementation-defined; this is what the architecture the checks run on does). -/
def F64.toInt64 : F64 → Int
  | .fin neg m e =>
    let mag : Nat := if e ≥ 0 then m * 2 ^ e.toNat else m / 2 ^ (-e).toNat
    if neg then (if mag ≤ 2 ^ 63 then -(mag : Int) else minInt64)
    else (if mag < 2 ^ 63 then (mag : Int) else minInt64)
  | _ => minInt64

/-! ### `strconv.ParseFloat(s, 64)` -/

def lowerAscii (c : Char) : Char := if 'A' ≤ c ∧ c ≤ 'Z' then Char.ofNat (c.toNat + 32) else c

/-- `lower(c) == x` of strconv (`c | 0x20`) for a lower-case letter `x` -/
def isLetter (c x : Char) : Bool := c = x || c.toNat + 32 = x.toNat

def isHexLetter (c : Char) : Bool := ('a' ≤ c && c ≤ 'f') || ('A' ≤ c && c ≤ 'F')
def hexLetterVal (c : Char) : Nat := if 'a' ≤ c then c.toNat - 87 else c.toNat - 55

/-- `special`: `[+-]inf`, `[+-]infinity`, `nan` (case-insensitive); the whole string must match
(otherwise `ParseFloat` reports a syntax error because input is left over). `some none` = the
string starts like a special value but has trailing bytes ⇒ syntax error. -/
def parseSpecial (s : Str) : Option (Option F64) :=
  let body (neg : Bool) (t : Str) : Option (Option F64) :=
    let l := t.map lowerAscii
    let n := (List.zip l cs!"infinity").takeWhile (fun p => p.1 = p.2) |>.length
    let n := if 3 < n ∧ n < 8 then 3 else n
    if n = 3 ∨ n = 8 then (if t.length = n then some (some (.inf neg)) else some none) else none
  match s with
  | '+' :: t => body false t
  | '-' :: t => body true t
  | 'i' :: _ => body false s
  | 'I' :: _ => body false s
  | c :: _ =>
    if c = 'n' ∨ c = 'N' then
      let l := s.map lowerAscii
      if hasPrefix l cs!"nan" then (if s.length = 3 then some (some .nan) else some none) else none
    else none
  | [] => none

structure RFState where
  mant : Nat := 0
  nd : Nat := 0
  dp : Int := 0
  sawdot : Bool := false
  sawdigits : Bool := false
  underscores : Bool := false

/-- the mantissa loop of `readFloat`; returns the state and the unread rest -/
def rfMant (hex : Bool) : Str → RFState → RFState × Str
  | [], st => (st, [])
  | c :: rest, st =>
    if c = '_' then rfMant hex rest { st with underscores := true }
    else if c = '.' then
      if st.sawdot then (st, c :: rest)
      else rfMant hex rest { st with sawdot := true, dp := st.nd }
    else if isDigit c then
      if c = '0' ∧ st.nd = 0 then rfMant hex rest { st with sawdigits := true, dp := st.dp - 1 }
      else rfMant hex rest { st with sawdigits := true, nd := st.nd + 1,
                                      mant := st.mant * (if hex then 16 else 10) + digitVal c }
    else if hex ∧ isHexLetter c then
      rfMant hex rest { st with sawdigits := true, nd := st.nd + 1, mant := st.mant * 16 + hexLetterVal c }
    else (st, c :: rest)

/-- exponent digits (with `_`), saturating as in Go (`if e < 10000`) -/
def rfExpDigits : Str → Nat → Bool → Nat × Bool × Str
  | [], e, u => (e, u, [])
  | c :: rest, e, u =>
    if c = '_' then rfExpDigits rest e true
    else if isDigit c then rfExpDigits rest (if e < 10000 then e * 10 + digitVal c else e) u
    else (e, u, c :: rest)

/-- `underscoreOK` -/
def underscoreOK (s : Str) : Bool :=
  let s := match s with
    | '-' :: t => t
    | '+' :: t => t
    | _ => s
  let (hex, saw0, s) : Bool × Char × Str := match s with
    | '0' :: x :: t =>
      if isLetter x 'b' || isLetter x 'o' || isLetter x 'x' then (isLetter x 'x', '0', t) else (false, '^', s)
    | _ => (false, '^', s)
  let rec go (hex : Bool) : Str → Char → Bool
    | [], saw => saw ≠ '_'
    | c :: rest, saw =>
      if isDigit c || (hex && isHexLetter c) then go hex rest '0'
      else if c = '_' then (if saw ≠ '0' then false else go hex rest '_')
      else if saw = '_' then false
      else go hex rest '!'
  go hex s saw0

def numDecDigits (n : Nat) : Nat := (formatNat n).length

/-- exact decimal `mant · 10^x` to double; `none` = overflow (`ErrRange`) -/
def decToF64 (neg : Bool) (mant : Nat) (x : Int) : Option F64 :=
  if mant = 0 then some (.fin neg 0 0)
  else
    let mag : Int := x + numDecDigits mant
    if mag > 400 then none
    else if mag < -400 then some (.fin neg 0 0)
    else
      let r := if x ≥ 0 then roundRat neg (mant * 10 ^ x.toNat) 1 else roundRat neg mant (10 ^ (-x).toNat)
      match r with
      | .inf _ => none
      | r => some r

/-- exact `mant · 2^y` to double; `none` = overflow -/
def binToF64 (neg : Bool) (mant : Nat) (y : Int) : Option F64 :=
  if mant = 0 then some (.fin neg 0 0)
  else
    let mag : Int := y + mant.log2
    if mag > 1100 then none
    else if mag < -1200 then some (.fin neg 0 0)
    else
      let r := if y ≥ 0 then roundRat neg (mant * 2 ^ y.toNat) 1 else roundRat neg mant (2 ^ (-y).toNat)
      match r with
      | .inf _ => none
      | r => some r

/-- `strconv.ParseFloat(s, 64)`; `none` = error (syntax or range). -/
def parseFloat (s : Str) : Option F64 :=
  match parseSpecial s with
  | some r => r
  | none =>
    -- readFloat
    match s with
    | [] => none
    | _ =>
      let (neg, t) : Bool × Str := match s with
        | '+' :: t => (false, t)
        | '-' :: t => (true, t)
        | _ => (false, s)
      -- `i+2 < len(s) && s[i] == '0' && lower(s[i+1]) == 'x'`
      let (hex, t) : Bool × Str := match t with
        | '0' :: x :: y :: r => if isLetter x 'x' then (true, y :: r) else (false, t)
        | _ => (false, t)
      let (st, rest) := rfMant hex t {}
      if !st.sawdigits then none
      else
        let dp : Int := if st.sawdot then st.dp else st.nd
        -- value = 0.d1…d_nd · base^dp ; in bits for hex
        let dpS : Int := if hex then dp * 4 else dp
        let ndS : Int := if hex then (st.nd : Int) * 4 else st.nd
        let expChar : Char := if hex then 'p' else 'e'
        let fin (dpS : Int) (u : Bool) (rest : Str) : Option F64 :=
          if rest ≠ [] then none   -- ParseFloat: n != len(s)
          else if u && !underscoreOK s then none
          else if hex then binToF64 neg st.mant (dpS - ndS) else decToF64 neg st.mant (dpS - ndS)
        match rest with
        | c :: r1 =>
          if isLetter c expChar then
            match r1 with
            | [] => none
            | _ =>
              let (esign, r2) : Int × Str := match r1 with
                | '+' :: r => (1, r)
                | '-' :: r => (-1, r)
                | _ => (1, r1)
              match r2 with
              | d :: _ =>
                if !isDigit d then none
                else
                  let (e, u, r3) := rfExpDigits r2 0 st.underscores
                  fin (dpS + (e : Int) * esign) u r3
              | [] => none
          else if hex then none
          else fin dpS st.underscores rest
        | [] => if hex then none else fin dpS st.underscores []

/-- `primitives.Duration.Unmarshal` with exact IEEE semantics:
`time.Duration(ParseFloat(val) * float64(time.Second))` -/
def ieeeParseDur (s : Str) : Option Int :=
  (parseFloat s).map fun f => (f.mulNat 1000000000).toInt64

/-- `Duration.Seconds()`: `float64(d / Second) + float64(d % Second) / 1e9` -/
def ieeeSeconds (d : Int) : F64 :=
  let neg := decide (d < 0)
  let a := d.natAbs
  let sec := a / 1000000000
  let nsec := a % 1000000000
  match roundRat neg nsec 1000000000 with
  | .fin _ m e =>
    if e ≥ 0 then roundRat neg (sec + m * 2 ^ e.toNat) 1
    else roundRat neg (sec * 2 ^ (-e).toNat + m) (2 ^ (-e).toNat)
  | r => r

/-- `strconv.FormatFloat(f, 'f', 5, 64)` for a finite `f`: exact value, rounded half-even to 5
decimals. -/
def fmtFixed5 : F64 → Str
  | .fin neg m e =>
    let n : Nat := if e ≥ 0 then m * 2 ^ e.toNat * 100000 else roundHalfEven (m * 100000) (2 ^ (-e).toNat)
    (if neg then ['-'] else []) ++ formatNat (n / 100000) ++ '.' :: padNat 5 (n % 100000)
  | .inf neg => (if neg then cs!"-Inf" else cs!"+Inf")
  | .nan => cs!"NaN"

/-- `strconv.FormatFloat(d.Seconds(), 'f', 5, 64)` -/
def ieeeFmtDur (d : Int) : Str := fmtFixed5 (ieeeSeconds d)

/-! ## `time.Time` with the two layouts of `media.go`

A time is an instant (`sec` + `nsec` since the Unix epoch) and a zone offset in seconds. -/

structure Time where
  sec : Int
  nsec : Nat
  off : Int
  deriving DecidableEq, Repr

def isLeap (y : Int) : Bool := y % 4 = 0 && (y % 100 ≠ 0 || y % 400 = 0)

def daysIn (m : Int) (y : Int) : Int :=
  if m = 2 then (if isLeap y then 29 else 28)
  else if m = 4 ∨ m = 6 ∨ m = 9 ∨ m = 11 then 30 else 31

/-- days since 1970-01-01 of a proleptic Gregorian date -/
def daysFromCivil (y m d : Int) : Int :=
  let y' := if m ≤ 2 then y - 1 else y
  let era := y' / 400
  let yoe := y' - era * 400
  let mp := if m > 2 then m - 3 else m + 9
  let doy := (153 * mp + 2) / 5 + d - 1
  let doe := yoe * 365 + yoe / 4 - yoe / 100 + doy
  era * 146097 + doe - 719468

/-- proleptic Gregorian date of a day number (days since 1970-01-01), March-based eras as in
`daysFromCivil`: 400-year era, century (capped at 3), 4-year cycle, year (capped at 3) — the leap
day is the last day of its cycle, century and era, which is what the caps express -/
def civilFromDays (z : Int) : Int × Int × Int :=
  let z := z + 719468
  let era := z / 146097
  let r := z - era * 146097
  let n100 := min (r / 36524) 3
  let r1 := r - n100 * 36524
  let n4 := r1 / 1461
  let r2 := r1 - n4 * 1461
  let n1 := min (r2 / 365) 3
  let doy := r2 - n1 * 365
  let yoe := n100 * 100 + n4 * 4 + n1
  let y := yoe + era * 400
  let mp := (5 * doy + 2) / 153
  let d := doy - (153 * mp + 2) / 5 + 1
  let m := if mp < 10 then mp + 3 else mp - 9
  (if m ≤ 2 then y + 1 else y, m, d)

/-- `appendInt(b, x, width)` of package time -/
def appendInt (x : Int) (w : Nat) : Str :=
  if x < 0 then '-' :: padNat w x.natAbs else padNat w x.toNat

def trimTrailingZeros (s : Str) : Str := (s.reverse.dropWhile (· = '0')).reverse

/-- `t.Format("2006-01-02T15:04:05.999Z07:00")` -/
def goFormatTime (t : Time) : Str :=
  let loc := t.sec + t.off
  let days := loc / 86400
  let rem := loc % 86400
  let (y, m, d) := civilFromDays days
  let frac : Str :=
    if t.nsec = 0 then []
    else
      let digits := trimTrailingZeros (padNat 3 (t.nsec / 1000000))
      if digits = [] then [] else '.' :: digits
  let zone : Str :=
    if t.off = 0 then ['Z']
    else
      let z := t.off.tdiv 60
      let (sg, z) := if z < 0 then ('-', -z) else ('+', z)
      sg :: appendInt (z / 60) 2 ++ ':' :: appendInt (z % 60) 2
  appendInt y 4 ++ '-' :: appendInt m 2 ++ '-' :: appendInt d 2 ++ 'T' :: appendInt (rem / 3600) 2 ++
    ':' :: appendInt (rem % 3600 / 60) 2 ++ ':' :: appendInt (rem % 60) 2 ++ frac ++ zone

/-- `getnum(s, fixed)` -/
def getnum (fixed : Bool) : Str → Option (Nat × Str)
  | a :: c :: rest =>
    if !isDigit a then none
    else if !isDigit c then (if fixed then none else some (digitVal a, c :: rest))
    else some (digitVal a * 10 + digitVal c, rest)
  | [a] => if !isDigit a then none else if fixed then none else some (digitVal a, [])
  | [] => none

def skipChar (c : Char) : Str → Option Str
  | x :: rest => if x = c then some rest else none
  | [] => none

/-- `2006-01-02`: four-digit year, two-digit month (range-checked while parsing), two-digit day
(validated against the month at the end) -/
def parseDate (v : Str) : Option ((Nat × Nat × Nat) × Str) := do
  let (y, v) ← match v with
    | a :: b1 :: c :: d :: rest =>
      if isDigit a && isDigit b1 && isDigit c && isDigit d then some (digitsValue [a, b1, c, d], rest) else none
    | _ => none
  let v ← skipChar '-' v
  let (mo, v) ← getnum true v
  if mo = 0 ∨ 12 < mo then none
  let v ← skipChar '-' v
  let (day, v) ← getnum true v
  some ((y, mo, day), v)

/-- `15:04:05`: one or two digit hour, two-digit minute and second, each range-checked -/
def parseClock (v : Str) : Option ((Nat × Nat × Nat) × Str) := do
  let (hh, v) ← getnum false v
  if 24 ≤ hh then none
  let v ← skipChar ':' v
  let (mi, v) ← getnum true v
  if 60 ≤ mi then none
  let v ← skipChar ':' v
  let (ss, v) ← getnum true v
  if 60 ≤ ss then none
  some ((hh, mi, ss), v)

/-- `.999` (`stdFracSecond9`): `.` or `,` followed by at least one digit; every digit is consumed,
the first nine count -/
def parseFrac (v : Str) : Nat × Str :=
  match v with
  | p :: d :: rest =>
    if (p = '.' ∨ p = ',') ∧ isDigit d then
      let digits := (d :: rest).takeWhile isDigit
      let used := digits.take 9
      (digitsValue used * 10 ^ (9 - used.length), (d :: rest).drop digits.length)
    else (0, v)
  | _ => (0, v)

/-- `Z07:00` (`colon`) / `Z0700`: `Z`, or sign and two-digit hour (≤ 24) and minute (≤ 60) -/
def parseZone (colon : Bool) (v : Str) : Option (Int × Str) :=
  match v with
  | 'Z' :: rest => some ((0 : Int), rest)
  | _ =>
    if colon then
      match v with
      | sg :: h1 :: h2 :: c :: m1 :: m2 :: rest =>
        if c ≠ ':' then none
        else do
          let (hr, _) ← getnum true [h1, h2]
          let (mm, _) ← getnum true [m1, m2]
          if hr > 24 ∨ mm > 60 then none
          let o : Int := ((hr * 60 + mm) * 60 : Nat)
          if sg = '+' then some (o, rest) else if sg = '-' then some (-o, rest) else none
      | _ => none
    else
      match v with
      | sg :: h1 :: h2 :: m1 :: m2 :: rest => do
        let (hr, _) ← getnum true [h1, h2]
        let (mm, _) ← getnum true [m1, m2]
        if hr > 24 ∨ mm > 60 then none
        let o : Int := ((hr * 60 + mm) * 60 : Nat)
        if sg = '+' then some (o, rest) else if sg = '-' then some (-o, rest) else none
      | _ => none

/-- `time.Parse` for `2006-01-02T15:04:05.999Z07:00` (`colon = true`) and `…Z0700`. -/
def goParseLayout (colon : Bool) (v : Str) : Option Time := do
  let ((y, mo, day), v) ← parseDate v
  let v ← skipChar 'T' v
  let ((hh, mi, ss), v) ← parseClock v
  let (nsec, v) := parseFrac v
  let (off, v) ← parseZone colon v
  if v ≠ [] then none  -- extra text
  if day < 1 ∨ (day : Int) > daysIn mo y then none
  let secs : Int := daysFromCivil y mo day * 86400 + (hh * 3600 + mi * 60 + ss : Nat) - off
  some { sec := secs, nsec := nsec, off := off }

/-- `parseTime` of media.go -/
def goParseTime (v : Str) : Option Time :=
  match goParseLayout true v with
  | some t => some t
  | none => goParseLayout false v

/-! ## The codec the model is parameterised by -/

/-- Text forms of durations and times.  The playlist model takes a `Codec`; the driver runs it
with `Codec.go` (exact IEEE / Go layout semantics above); the theorems of C14 hold for every
codec satisfying `Codec.Valid` (`MediaLemmas`), those of C15 for every codec. -/
structure Codec where
  fmtDur : Int → Str
  parseDur : Str → Option Int
  fmtTime : Time → Str
  parseTime : Str → Option Time

def Codec.go : Codec where
  fmtDur := ieeeFmtDur
  parseDur := ieeeParseDur
  fmtTime := goFormatTime
  parseTime := goParseTime

end Hls.Playlist.MP
