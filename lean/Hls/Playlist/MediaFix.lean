import Hls.Playlist.MediaClean
/-!
# `marshal (quantise p) = marshal p` (Marshal is a fixpoint on its own output)
-/
namespace Hls.Playlist.MP

section
variable {C : Codec} (hC : C.Valid)
include hC

/-- re-encoding a decoded duration gives the same text (non-negative durations, or signed ones
that are not rounded to zero) -/
theorem fmtDur_requant {d : Int} (hd : DurDom d) (hm : d.natAbs + 5000 < durMax.toNat) :
    C.fmtDur (C.requant d) = C.fmtDur d := by
  obtain ⟨q, n, h1, h2, h3, h4, h5, h6⟩ := fmtDur_spec hC hd
  have hmax : durMax.toNat = 1000000000000000 := by decide
  have hreq : C.requant d = (if d < 0 then -(n : Int) else n) := by simp [Codec.requant, h2]
  have hn : (C.requant d).natAbs = n := by
    rw [hreq]; split <;> omega
  have hnpos : d < 0 → 0 < n := by
    intro hneg
    have := hd.2 hneg
    omega
  have hd' : DurDom (C.requant d) := by
    refine ⟨by omega, ?_⟩
    intro hneg
    rw [hn]
    rw [hreq] at hneg
    by_cases hdn : d < 0
    · have := hd.2 hdn
      omega
    · simp [hdn] at hneg
      omega
  obtain ⟨q', h1', h2', h3'⟩ := hC.fmt_dur (C.requant d) hd'
  rw [hn] at h2' h3'
  have hq : q' = q := by omega
  have hsign : decide (C.requant d < 0) = decide (d < 0) := by
    rw [hreq]
    by_cases hneg : d < 0
    · have := hnpos hneg
      simp [hneg]; omega
    · simp [hneg]
  rw [h1', h1, hq, hsign]

theorem Part.line_quantise {p : Part} (hw : wfPart p = true) : Part.line C (Part.quantise C p) = Part.line C p := by
  simp only [wfPart, Bool.and_eq_true] at hw
  have hd := natAbs_lt_of_posDur hw.1.1.1
  simp only [Part.line, Part.attrs, Part.quantise, fmtDur_requant hC hd.1 (margin_of_posDur hw.1.1.1)]
  all_goals rfl

theorem partLines_quantise {ps : List Part} (hw : ps.all wfPart = true) :
    partLines C (ps.map (Part.quantise C)) = partLines C ps := by
  simp only [partLines, List.map_map]
  apply List.map_congr_left
  intro p hp
  exact Part.line_quantise hC (List.all_eq_true.mp hw p hp)

theorem Segment.lines_quantise {s : Segment} (hw : wfSegment s = true) :
    Segment.lines C (Segment.quantise C s) = Segment.lines C s := by
  simp only [wfSegment, Bool.and_eq_true, decide_eq_true_eq] at hw
  obtain ⟨⟨⟨⟨⟨⟨⟨⟨⟨⟨hd, _⟩, _⟩, _⟩, _⟩, _⟩, _⟩, _⟩, hdt⟩, _⟩, hp⟩ := hw
  have hd' := natAbs_lt_of_posDur hd
  have hpdt : optLine (s.dateTime.map truncMs) (pdtLine C) = optLine s.dateTime (pdtLine C) := by
    cases hdte : s.dateTime with
    | none => rfl
    | some t =>
      rw [hdte] at hdt
      simp only [Option.all_some] at hdt
      simp only [Option.map_some, optLine, pdtLine, hC.time_trunc t hdt]
  simp only [Segment.lines, Segment.quantise, extinfLine, fmtDur_requant hC hd'.1 (margin_of_posDur hd),
    partLines_quantise hC hp, hpdt]
  all_goals rfl

theorem segmentsLines_quantise : ∀ {segs : List Segment} (prev : Option Key), segs.all wfSegment = true →
    segmentsLines C prev (segs.map (Segment.quantise C)) = segmentsLines C prev segs
  | [], _, _ => rfl
  | s :: rest, prev, hw => by
    simp only [List.all_cons, Bool.and_eq_true] at hw
    have hk : (Segment.quantise C s).key = s.key := rfl
    simp only [List.map_cons, segmentsLines, hk, Segment.lines_quantise hC hw.1]
    cases s.key with
    | none => simp only [segmentsLines_quantise prev hw.2]
    | some k =>
      simp only
      split
      · simp only [segmentsLines_quantise (some k) hw.2]
      · simp only [segmentsLines_quantise prev hw.2]

theorem Media.lines_quantise (p : Media) (hw : WFMedia p) : Media.lines C (Media.quantise C p) = Media.lines C p := by
  simp only [WFMedia, wfMedia, Bool.and_eq_true, decide_eq_true_eq] at hw
  obtain ⟨⟨⟨⟨⟨⟨⟨⟨⟨⟨⟨⟨⟨⟨⟨⟨_, _⟩, _⟩, _⟩, _⟩, _⟩, _⟩, hst⟩, hsc⟩, hpi⟩, _⟩, _⟩, _⟩, hsegs⟩, _⟩, hparts⟩, _⟩ := hw
  have h1 : optLine (p.start.map C.requant) (startLine C) = optLine p.start (startLine C) := by
    cases hs : p.start with
    | none => rfl
    | some t =>
      rw [hs] at hst
      have hst' : signedDur t = true := by simpa using hst
      have hd := natAbs_lt_of_signedDur hst'
      simp only [Option.map_some, optLine, startLine, fmtDur_requant hC hd.1 (margin_of_signedDur hst')]
  have h2 : optLine (p.partInf.map C.requant) (partInfLine C) = optLine p.partInf (partInfLine C) := by
    cases hs : p.partInf with
    | none => rfl
    | some t =>
      rw [hs] at hpi
      have hpi' : posDur t = true := by simpa using hpi
      have hd := natAbs_lt_of_posDur hpi'
      simp only [Option.map_some, optLine, partInfLine, fmtDur_requant hC hd.1 (margin_of_posDur hpi')]
  have h3 : optLine (p.serverControl.map (ServerControl.quantise C)) (serverControlLine C) =
      optLine p.serverControl (serverControlLine C) := by
    cases hs : p.serverControl with
    | none => rfl
    | some t =>
      rw [hs] at hsc
      simp only [Option.all_some, Bool.and_eq_true] at hsc
      obtain ⟨cbr, phb, csu⟩ := t
      have hnn : ∀ d : Int, nnDur d = true → C.fmtDur (C.requant d) = C.fmtDur d := fun d hd =>
        fmtDur_requant hC (natAbs_lt_of_nnDur hd) (margin_of_nnDur hd)
      simp only [Option.map_some, optLine, serverControlLine, ServerControl.attrs, ServerControl.quantise]
      cases phb <;> cases csu <;> simp_all
  simp only [Media.lines, Media.headerLines, Media.tailLines, Media.quantise, h1, h2, h3,
    segmentsLines_quantise hC none hsegs, partLines_quantise hC hparts]
  all_goals rfl

/-- C14, second clause, for the media playlist -/
theorem Media.marshal_quantise (p : Media) (hw : WFMedia p) :
    Media.marshal C (Media.quantise C p) = Media.marshal C p := by
  rw [Media.marshal_eq, Media.marshal_eq, Media.lines_quantise hC p hw]

end
end Hls.Playlist.MP
