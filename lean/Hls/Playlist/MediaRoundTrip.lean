import Hls.Playlist.MediaLex
import Hls.Playlist.MediaWF
/-!
# Round trip `unmarshal (marshal p) = ok (quantise p)` for well-formed media playlists
(lemmas for `Hls/Props/C14.lean`)
-/
namespace Hls.Playlist.MP

/-! ## character classes -/

theorem not_mem_of_all {P : Char → Bool} {s : Str} {x : Char} (h : s.all P = true) (hx : P x = false) : x ∉ s :=
  fun hm => by
    have := List.all_eq_true.mp h x hm
    simp [hx] at this

theorem head_ne_of_all {P : Char → Bool} {s : Str} {x : Char} (h : s.all P = true) (hx : P x = false) :
    s.head? ≠ some x := by
  cases s with
  | nil => simp
  | cons c t =>
    simp only [List.head?_cons, ne_eq, Option.some.injEq]
    intro e; subst e
    simp [hx] at h

theorem getLast_ne_of_all {P : Char → Bool} {s : Str} {x : Char} (h : s.all P = true) (hx : P x = false) :
    s.getLast? ≠ some x := by
  intro e
  have : x ∈ s := List.mem_of_getLast? e
  exact not_mem_of_all h hx this

def durChar (c : Char) : Bool := c = '-' || isDigit c || c = '.'

theorem padNat_all_digits (w n : Nat) : (padNat w n).all isDigit = true := by
  unfold padNat
  simp only [List.all_append, Bool.and_eq_true]
  refine ⟨?_, (formatNat_spec n).2.1⟩
  simp only [List.all_replicate]
  simp
  exact Or.inr (by decide)

theorem decText_chars (neg : Bool) (q : Nat) : (decText neg q).all durChar = true := by
  unfold decText
  have h1 : (formatNat (q / 100000)).all durChar = true :=
    List.all_eq_true.mpr fun c hc => by
      have := formatNat_mem_isDigit hc
      simp [durChar, this]
  have h2 : (padNat 5 (q % 100000)).all durChar = true :=
    List.all_eq_true.mpr fun c hc => by
      have := List.all_eq_true.mp (padNat_all_digits 5 (q % 100000)) c hc
      simp [durChar, this]
  cases neg <;> simp [List.all_append, h1, h2, durChar]

theorem decText_ne_nil (neg : Bool) (q : Nat) : decText neg q ≠ [] := by
  unfold decText
  simp

/-! ## what `Codec.Valid` gives for one duration -/

section
variable {C : Codec} (hC : C.Valid)
include hC

theorem fmtDur_spec {d : Int} (hd : DurDom d) :
    ∃ (q n : Nat), C.fmtDur d = decText (decide (d < 0)) q ∧
      C.parseDur (C.fmtDur d) = some (if d < 0 then -(n : Int) else n) ∧
      q * 10000 ≤ d.natAbs + 5000 ∧ d.natAbs ≤ q * 10000 + 5000 ∧ n ≤ q * 10000 + 1 ∧ q * 10000 ≤ n + 1 := by
  obtain ⟨q, h1, h2, h3⟩ := hC.fmt_dur d hd
  have hmx : durMax.toNat = 1000000000000000 := by decide
  have hq : q ≤ 100000000000 := by
    have := hd.1
    omega
  have hq0 : decide (d < 0) = true → 0 < q := by
    intro hneg
    have := hd.2 (by simpa using hneg)
    omega
  obtain ⟨n, h4, h5, h6⟩ := hC.parse_dur (decide (d < 0)) q hq hq0
  refine ⟨q, n, h1, ?_, h2, h3, h5, h6⟩
  rw [h1, h4]
  by_cases hneg : d < 0 <;> simp [hneg]

theorem durUnmarshal_fmt {d : Int} (hd : DurDom d) :
    durUnmarshal C (C.fmtDur d) = .ok (C.requant d) := by
  obtain ⟨q, n, _, h2, _⟩ := fmtDur_spec hC hd
  simp [durUnmarshal, Codec.requant, h2]

theorem fmtDur_chars {d : Int} (hd : DurDom d) : (C.fmtDur d).all durChar = true := by
  obtain ⟨q, n, h1, _⟩ := fmtDur_spec hC hd
  rw [h1]; exact decText_chars _ _

theorem requant_ne_zero {d : Int} (hd : DurDom d) (h5 : 5000 < d.natAbs) : C.requant d ≠ 0 := by
  obtain ⟨q, n, _, h2, h3, h4, h5', h6⟩ := fmtDur_spec hC hd
  simp only [Codec.requant, h2, Option.getD_some]
  have hn : 0 < n := by omega
  split <;> omega

end

theorem natAbs_lt_of_posDur {d : Int} (h : posDur d = true) : DurDom d ∧ 5000 < d.natAbs := by
  simp only [posDur, Bool.and_eq_true, decide_eq_true_eq] at h
  have : durMax.toNat = 1000000000000000 := by decide
  have : durMax = 1000000000000000 := by decide
  refine ⟨⟨by omega, fun _ => by omega⟩, by omega⟩

theorem natAbs_lt_of_nnDur {d : Int} (h : nnDur d = true) : DurDom d := by
  simp only [nnDur, Bool.and_eq_true, decide_eq_true_eq] at h
  have : durMax.toNat = 1000000000000000 := by decide
  have : durMax = 1000000000000000 := by decide
  exact ⟨by omega, fun _ => by omega⟩

theorem natAbs_lt_of_signedDur {d : Int} (h : signedDur d = true) : DurDom d ∧ 5000 < d.natAbs := by
  simp only [signedDur, Bool.and_eq_true, decide_eq_true_eq] at h
  exact ⟨⟨by omega, fun _ => h.1⟩, h.1⟩

theorem margin_of_posDur {d : Int} (h : posDur d = true) : d.natAbs + 5000 < durMax.toNat := by
  simp only [posDur, Bool.and_eq_true, decide_eq_true_eq] at h
  have : durMax.toNat = 1000000000000000 := by decide
  have : durMax = 1000000000000000 := by decide
  omega

theorem margin_of_nnDur {d : Int} (h : nnDur d = true) : d.natAbs + 5000 < durMax.toNat := by
  simp only [nnDur, Bool.and_eq_true, decide_eq_true_eq] at h
  have : durMax.toNat = 1000000000000000 := by decide
  have : durMax = 1000000000000000 := by decide
  omega

theorem margin_of_signedDur {d : Int} (h : signedDur d = true) : d.natAbs + 5000 < durMax.toNat := by
  simp only [signedDur, Bool.and_eq_true, decide_eq_true_eq] at h
  exact h.2

/-! ## rendered attribute lists of the tags -/

def brChar (c : Char) : Bool := isDigit c || c = '@'

theorem byteRange_marshal_chars (r : ByteRange) : (ByteRange.marshal r).all brChar = true := by
  unfold ByteRange.marshal
  have hd : ∀ n, (formatNat n).all brChar = true := fun n =>
    List.all_eq_true.mpr fun c hc => by simp [brChar, formatNat_mem_isDigit hc]
  cases r.start <;> simp [List.all_append, hd, brChar]

def optBr (len start : Option Nat) : List (Str × AV) :=
  match len with
  | some l => [(cs!"BYTERANGE", AV.u (ByteRange.marshal { length := l, start := start }))]
  | none => []

theorem attrOK_unquoted_of_all {P : Char → Bool} (k v : Str) (hk : '=' ∉ k) (ht : trimLeftSpaces k = k)
    (h : v.all P = true) (h1 : P ',' = false) (h2 : P '"' = false) : AttrOK (k, AV.u v) :=
  ⟨hk, ht, not_mem_of_all h h1, head_ne_of_all h h2⟩

theorem quotedOK_not_mem {s : Str} (h : quotedOK s = true) : '"' ∉ s := fun hm => by
  have := List.all_eq_true.mp h '"' hm
  simp at this


theorem brOK_none {brs : Option Nat} (hb : brOK none brs = true) : brs = none := by
  simp [brOK] at hb
  exact hb.2

theorem byteRange_rt_of_brOK {l : Nat} {brs : Option Nat} (hb : brOK (some l) brs = true) :
    ByteRange.unmarshal (ByteRange.marshal { length := l, start := brs }) = .ok { length := l, start := brs } := by
  apply byteRange_roundtrip
  · simp [brOK, u64] at hb
    exact hb.1
  · intro s hs
    simp at hs
    subst hs
    simp [brOK, u64] at hb
    exact hb.2

theorem optBr_ok (len start : Option Nat) : ∀ a ∈ optBr len start, AttrOK a := by
  intro a ha
  cases len with
  | none => simp [optBr] at ha
  | some l =>
    simp [optBr] at ha
    subst ha
    exact attrOK_unquoted_of_all _ _ (by decide) (by decide) (byteRange_marshal_chars _) (by decide) (by decide)

theorem formatNat_attrOK (k : Str) (n : Nat) (hk : '=' ∉ k) (ht : trimLeftSpaces k = k) : AttrOK (k, AV.u (formatNat n)) :=
  attrOK_unquoted_of_all k _ hk ht (formatNat_spec n).2.1 (by decide) (by decide)

/-! ### EXT-X-PART -/

def Part.attrs (C : Codec) (p : Part) : List (Str × AV) :=
  [(cs!"DURATION", AV.u (C.fmtDur p.duration)), (cs!"URI", AV.q p.uri)] ++
  (if p.independent then [(cs!"INDEPENDENT", AV.u cs!"YES")] else []) ++
  optBr p.brLen p.brStart ++
  (if p.gap then [(cs!"GAP", AV.u cs!"YES")] else [])

theorem Part.marshal_shape (C : Codec) (p : Part) :
    Part.marshal C p = cs!"#EXT-X-PART:" ++ renderAttrs (Part.attrs C p) ++ ['\n'] := by
  obtain ⟨d, uri, ind, brl, brs, gap⟩ := p
  cases ind <;> cases brl <;> cases gap <;>
    simp [Part.marshal, Part.attrs, optBr, optList, renderAttrs, renderAttr]

theorem Part.attrs_ok {C : Codec} (hC : C.Valid) {p : Part} (hw : wfPart p = true) : ∀ a ∈ Part.attrs C p, AttrOK a := by
  simp only [wfPart, Bool.and_eq_true] at hw
  obtain ⟨⟨⟨hd, hu⟩, hq⟩, hb⟩ := hw
  intro a ha
  simp only [Part.attrs, List.mem_append, List.mem_cons, List.mem_nil_iff, or_false] at ha
  rcases ha with (((rfl | rfl) | ha) | ha) | ha
  · exact attrOK_unquoted_of_all _ _ (by decide) (by decide) (fmtDur_chars hC (natAbs_lt_of_posDur hd).1) (by decide) (by decide)
  · exact ⟨by simp, by simp [trimLeftSpaces], quotedOK_not_mem hq⟩
  · split at ha
    · simp at ha; subst ha; exact ⟨by decide, by decide, by decide, by decide⟩
    · simp at ha
  · exact optBr_ok _ _ a ha
  · split at ha
    · simp at ha; subst ha; exact ⟨by decide, by decide, by decide, by decide⟩
    · simp at ha

theorem Part.roundtrip {C : Codec} (hC : C.Valid) {p : Part} (hw : wfPart p = true) :
    Part.unmarshal C (renderAttrs (Part.attrs C p)) = .ok (Part.quantise C p) := by
  unfold Part.unmarshal
  rw [parseAttrs_render _ (Part.attrs_ok hC hw)]
  simp only [wfPart, Bool.and_eq_true] at hw
  obtain ⟨⟨⟨hd, hu⟩, hq⟩, hb⟩ := hw
  have hdur := durUnmarshal_fmt hC (natAbs_lt_of_posDur hd).1
  have hnz := requant_ne_zero hC (natAbs_lt_of_posDur hd).1 (natAbs_lt_of_posDur hd).2
  obtain ⟨d, uri, ind, brl, brs, gap⟩ := p
  simp only at hdur hnz hu hb
  have hu' : uri ≠ [] := by simpa using hu
  cases brl with
  | none =>
    have := brOK_none hb
    subst this
    cases ind <;> cases gap <;>
      simp [Part.attrs, optBr, setAll, Attrs.set, rangeAttrs, Part.set, AV.val, hdur, hnz, hu', Part.quantise, yes]
  | some l =>
    have hbr := byteRange_rt_of_brOK hb
    cases ind <;> cases gap <;>
      simp [Part.attrs, optBr, setAll, Attrs.set, rangeAttrs, Part.set, AV.val, hdur, hnz, hu', hbr, Part.quantise, yes]

/-! ### EXT-X-START, EXT-X-PART-INF -/

theorem Start.marshal_shape (C : Codec) (t : Int) :
    Start.marshal C t = cs!"#EXT-X-START:" ++ renderAttrs [(cs!"TIME-OFFSET", AV.u (C.fmtDur t))] ++ ['\n'] := by
  simp [Start.marshal, renderAttrs, renderAttr]

theorem Start.roundtrip {C : Codec} (hC : C.Valid) {t : Int} (hw : signedDur t = true) :
    Start.unmarshal C (renderAttrs [(cs!"TIME-OFFSET", AV.u (C.fmtDur t))]) = .ok (C.requant t) := by
  have hd := natAbs_lt_of_signedDur hw
  unfold Start.unmarshal
  rw [parseAttrs_render _ (by
    intro a ha; simp at ha; subst ha
    exact attrOK_unquoted_of_all _ _ (by decide) (by decide) (fmtDur_chars hC hd.1) (by decide) (by decide))]
  simp [setAll, Attrs.set, rangeAttrs, Start.set, AV.val, durUnmarshal_fmt hC hd.1, requant_ne_zero hC hd.1 hd.2]

theorem PartInf.marshal_shape (C : Codec) (t : Int) :
    PartInf.marshal C t = cs!"#EXT-X-PART-INF:" ++ renderAttrs [(cs!"PART-TARGET", AV.u (C.fmtDur t))] ++ ['\n'] := by
  simp [PartInf.marshal, renderAttrs, renderAttr]

theorem PartInf.roundtrip {C : Codec} (hC : C.Valid) {t : Int} (hw : posDur t = true) :
    PartInf.unmarshal C (renderAttrs [(cs!"PART-TARGET", AV.u (C.fmtDur t))]) = .ok (C.requant t) := by
  have hd := natAbs_lt_of_posDur hw
  unfold PartInf.unmarshal
  rw [parseAttrs_render _ (by
    intro a ha; simp at ha; subst ha
    exact attrOK_unquoted_of_all _ _ (by decide) (by decide) (fmtDur_chars hC hd.1) (by decide) (by decide))]
  simp [setAll, Attrs.set, rangeAttrs, PartInf.set, AV.val, durUnmarshal_fmt hC hd.1, requant_ne_zero hC hd.1 hd.2]

/-! ### EXT-X-SERVER-CONTROL (repaired tree) -/

def ServerControl.attrs (C : Codec) (t : ServerControl) : List (Str × AV) :=
  (if t.canBlockReload then [(cs!"CAN-BLOCK-RELOAD", AV.u cs!"YES")] else []) ++
  (match t.partHoldBack with | some d => [(cs!"PART-HOLD-BACK", AV.u (C.fmtDur d))] | none => []) ++
  (match t.canSkipUntil with | some d => [(cs!"CAN-SKIP-UNTIL", AV.u (C.fmtDur d))] | none => [])

theorem ServerControl.marshal_shape (C : Codec) (t : ServerControl) :
    ServerControl.marshal C t = cs!"#EXT-X-SERVER-CONTROL:" ++ renderAttrs (ServerControl.attrs C t) ++ ['\n'] := by
  obtain ⟨cbr, phb, csu⟩ := t
  cases cbr <;> cases phb <;> cases csu <;>
    simp [ServerControl.marshal, ServerControl.attrTexts, ServerControl.attrs, optList, joinComma, renderAttrs, renderAttr]

theorem ServerControl.roundtrip {C : Codec} (hC : C.Valid) {t : ServerControl}
    (hw : (t.partHoldBack.all nnDur && t.canSkipUntil.all nnDur) = true) :
    ServerControl.unmarshal C (renderAttrs (ServerControl.attrs C t)) = .ok (ServerControl.quantise C t) := by
  obtain ⟨cbr, phb, csu⟩ := t
  simp only [Bool.and_eq_true] at hw
  unfold ServerControl.unmarshal
  have hyes : AttrOK (cs!"CAN-BLOCK-RELOAD", AV.u cs!"YES") := ⟨by decide, by decide, by decide, by decide⟩
  have hdurOK : ∀ (k : Str) (d : Int), '=' ∉ k → trimLeftSpaces k = k → nnDur d = true → AttrOK (k, AV.u (C.fmtDur d)) :=
    fun k d hk ht hd => attrOK_unquoted_of_all _ _ hk ht (fmtDur_chars hC (natAbs_lt_of_nnDur hd)) (by decide) (by decide)
  have hdu : ∀ d : Int, nnDur d = true → durUnmarshal C (C.fmtDur d) = .ok (C.requant d) :=
    fun d hd => durUnmarshal_fmt hC (natAbs_lt_of_nnDur hd)
  rw [parseAttrs_render]
  · cases cbr <;> cases phb <;> cases csu <;>
      simp_all [ServerControl.attrs, setAll, Attrs.set, rangeAttrs, ServerControl.set, AV.val,
        ServerControl.quantise, yes]
  · intro a ha
    cases cbr <;> cases phb <;> cases csu <;> simp [ServerControl.attrs] at ha
    all_goals
      simp at hw
      rcases ha with rfl | rfl | rfl <;> first
        | exact hyes
        | exact hdurOK _ _ (by decide) (by decide) (by simp_all)


/-! ### EXT-X-MAP -/

def MapTag.attrs (t : MapTag) : List (Str × AV) :=
  [(cs!"URI", AV.q t.uri)] ++ optBr t.brLen t.brStart

theorem MapTag.marshal_shape (t : MapTag) :
    MapTag.marshal t = cs!"#EXT-X-MAP:" ++ renderAttrs (MapTag.attrs t) ++ ['\n'] := by
  obtain ⟨uri, brl, brs⟩ := t
  cases brl <;> simp [MapTag.marshal, MapTag.attrs, optBr, optList, renderAttrs, renderAttr]

theorem MapTag.roundtrip {t : MapTag} (hw : (t.uri != [] && quotedOK t.uri && brOK t.brLen t.brStart) = true) :
    MapTag.unmarshal (renderAttrs (MapTag.attrs t)) = .ok t := by
  simp only [Bool.and_eq_true] at hw
  obtain ⟨⟨hu, hq⟩, hb⟩ := hw
  unfold MapTag.unmarshal
  rw [parseAttrs_render]
  · obtain ⟨uri, brl, brs⟩ := t
    simp only at hu hq hb
    have hu' : uri ≠ [] := by simpa using hu
    cases brl with
    | none =>
      have := brOK_none hb
      subst this
      simp [MapTag.attrs, optBr, setAll, Attrs.set, rangeAttrs, MapTag.set, AV.val, hu']
    | some l =>
      have hbr := byteRange_rt_of_brOK hb
      simp [MapTag.attrs, optBr, setAll, Attrs.set, rangeAttrs, MapTag.set, AV.val, hu', hbr]
  · intro a ha
    simp only [MapTag.attrs, List.mem_append, List.mem_cons, List.mem_nil_iff, or_false] at ha
    rcases ha with rfl | ha
    · exact ⟨by simp, by simp [trimLeftSpaces], quotedOK_not_mem hq⟩
    · exact optBr_ok _ _ a ha

/-! ### EXT-X-SKIP -/

theorem Skip.marshal_shape (t : Int) :
    Skip.marshal t = cs!"#EXT-X-SKIP:" ++ renderAttrs [(cs!"SKIPPED-SEGMENTS", AV.u (formatInt t))] ++ ['\n'] := by
  simp [Skip.marshal, renderAttrs, renderAttr]

theorem int31_bounds {v : Int} (h : int31 v = true) : 0 ≤ v ∧ v < 2 ^ 31 := by
  simp [int31] at h
  constructor <;> omega

theorem Skip.roundtrip {t : Int} (hw : int31 t = true) :
    Skip.unmarshal (renderAttrs [(cs!"SKIPPED-SEGMENTS", AV.u (formatInt t))]) = .ok t := by
  obtain ⟨h0, h1⟩ := int31_bounds hw
  unfold Skip.unmarshal
  rw [parseAttrs_render _ (by
    intro a ha; simp at ha; subst ha
    rw [formatInt_nonneg h0]
    exact formatNat_attrOK _ _ (by decide) (by decide))]
  rw [formatInt_nonneg h0]
  simp [setAll, Attrs.set, rangeAttrs, Skip.set, AV.val, parseUint_formatNat (show t.toNat < 2 ^ 31 by omega),
    Int.toNat_of_nonneg h0]

/-! ### EXT-X-PRELOAD-HINT -/

def PreloadHint.attrs (t : PreloadHint) : List (Str × AV) :=
  [(cs!"TYPE", AV.u cs!"PART"), (cs!"URI", AV.q t.uri)] ++
  (if t.brStart ≠ 0 then [(cs!"BYTERANGE-START", AV.u (formatNat t.brStart))] else []) ++
  (match t.brLen with | some l => [(cs!"BYTERANGE-LENGTH", AV.u (formatNat l))] | none => [])

theorem PreloadHint.marshal_shape (t : PreloadHint) :
    PreloadHint.marshal t = cs!"#EXT-X-PRELOAD-HINT:" ++ renderAttrs (PreloadHint.attrs t) ++ ['\n'] := by
  obtain ⟨uri, brs, brl⟩ := t
  by_cases h0 : brs = 0 <;> cases brl <;>
    simp [PreloadHint.marshal, PreloadHint.attrs, optList, renderAttrs, renderAttr, h0]

theorem PreloadHint.roundtrip {t : PreloadHint}
    (hw : (t.uri != [] && quotedOK t.uri && u64 t.brStart && t.brLen.all u64) = true) :
    PreloadHint.unmarshal (renderAttrs (PreloadHint.attrs t)) = .ok t := by
  simp only [Bool.and_eq_true] at hw
  obtain ⟨⟨⟨hu, hq⟩, hs⟩, hl⟩ := hw
  unfold PreloadHint.unmarshal
  rw [parseAttrs_render]
  · obtain ⟨uri, brs, brl⟩ := t
    simp only at hu hq hs hl
    have hu' : uri ≠ [] := by simpa using hu
    have hs' : parseUint 64 (formatNat brs) = some brs := parseUint_formatNat (by simpa [u64] using hs)
    by_cases h0 : brs = 0
    · subst h0
      cases brl with
      | none => simp [PreloadHint.attrs, setAll, Attrs.set, rangeAttrs, PreloadHint.set, AV.val, hu']
      | some l =>
        have hl' : parseUint 64 (formatNat l) = some l := parseUint_formatNat (by simpa [u64] using hl)
        simp [PreloadHint.attrs, setAll, Attrs.set, rangeAttrs, PreloadHint.set, AV.val, hu', hl']
    · cases brl with
      | none => simp [PreloadHint.attrs, setAll, Attrs.set, rangeAttrs, PreloadHint.set, AV.val, hu', h0, hs']
      | some l =>
        have hl' : parseUint 64 (formatNat l) = some l := parseUint_formatNat (by simpa [u64] using hl)
        simp [PreloadHint.attrs, setAll, Attrs.set, rangeAttrs, PreloadHint.set, AV.val, hu', h0, hs', hl']
  · intro a ha
    simp only [PreloadHint.attrs, List.mem_append, List.mem_cons, List.mem_nil_iff, or_false] at ha
    rcases ha with ((rfl | rfl) | ha) | ha
    · exact ⟨by decide, by decide, by decide, by decide⟩
    · exact ⟨by simp, by simp [trimLeftSpaces], quotedOK_not_mem hq⟩
    · split at ha
      · simp at ha; subst ha; exact formatNat_attrOK _ _ (by decide) (by decide)
      · simp at ha
    · split at ha
      · simp at ha; subst ha; exact formatNat_attrOK _ _ (by decide) (by decide)
      · simp at ha

/-! ### EXT-X-KEY -/

def Key.attrs (k : Key) : List (Str × AV) :=
  [(cs!"METHOD", AV.u k.method)] ++
  (if k.method ≠ methodNone then
    [(cs!"URI", AV.q k.uri)] ++
    (if k.iv ≠ [] then [(cs!"IV", AV.u k.iv)] else []) ++
    (if k.keyFormat ≠ [] then [(cs!"KEYFORMAT", AV.q k.keyFormat)] else []) ++
    (if k.keyFormatVersions ≠ [] then [(cs!"KEYFORMATVERSIONS", AV.q k.keyFormatVersions)] else [])
   else [])

theorem Key.marshal_shape (k : Key) :
    Key.marshal k = cs!"#EXT-X-KEY:" ++ renderAttrs (Key.attrs k) ++ ['\n'] := by
  obtain ⟨m, uri, iv, kf, kfv⟩ := k
  by_cases hm : m = methodNone <;> by_cases h1 : iv = [] <;> by_cases h2 : kf = [] <;> by_cases h3 : kfv = [] <;>
    simp [Key.marshal, Key.attrs, renderAttrs, renderAttr, hm, h1, h2, h3]

def hexChar (c : Char) : Bool := isHexDigitC c || c = 'x' || c = 'X'

theorem isHexSeq_chars {s : Str} (h : isHexSeq s = true) : s.all hexChar = true := by
  unfold isHexSeq at h
  split at h
  · rename_i x d rest
    simp only [Bool.and_eq_true, Bool.or_eq_true, decide_eq_true_eq] at h
    obtain ⟨hx, hr⟩ := h
    have h0 : hexChar '0' = true := by decide
    have hx' : hexChar x = true := by rcases hx with rfl | rfl <;> decide
    have hr' : (d :: rest).all hexChar = true :=
      List.all_eq_true.mpr fun c hc => by
        have := List.all_eq_true.mp hr c hc
        simp [hexChar, this]
    simp only [List.all_cons, Bool.and_eq_true] at hr' ⊢
    exact ⟨h0, hx', hr'⟩
  · simp at h

theorem Key.roundtrip {k : Key} (hw : wfKey k = true) : Key.unmarshal (renderAttrs (Key.attrs k)) = .ok k := by
  obtain ⟨m, uri, iv, kf, kfv⟩ := k
  unfold wfKey at hw
  unfold Key.unmarshal
  by_cases hm : m = methodNone
  · simp only [hm, ↓reduceIte, Bool.and_eq_true, decide_eq_true_eq] at hw
    obtain ⟨⟨⟨rfl, rfl⟩, rfl⟩, rfl⟩ := hw
    subst hm
    rw [parseAttrs_render _ (by
      intro a ha
      simp [Key.attrs] at ha
      subst ha
      exact ⟨by decide, by decide, by decide, by decide⟩)]
    simp [Key.attrs, setAll, Attrs.set, rangeAttrs, Key.set, AV.val, methodNone, methodAES128, methodSampleAES]
  · simp only [hm, ↓reduceIte, Bool.and_eq_true, Bool.or_eq_true, decide_eq_true_eq] at hw
    obtain ⟨⟨⟨⟨⟨hmm, hu⟩, hq⟩, hiv⟩, hkf⟩, hkfv⟩ := hw
    have hu' : uri ≠ [] := by simpa using hu
    have hmOK : AttrOK (cs!"METHOD", AV.u m) := by
      rcases hmm with rfl | rfl <;> exact ⟨by decide, by decide, by decide, by decide⟩
    have hivOK : iv ≠ [] → AttrOK (cs!"IV", AV.u iv) := fun hne => by
      rcases hiv with h | h
      · exact absurd h hne
      · exact attrOK_unquoted_of_all _ _ (by decide) (by decide) (isHexSeq_chars h) (by decide) (by decide)
    rw [parseAttrs_render]
    · rcases hmm with rfl | rfl <;> by_cases h1 : iv = [] <;> by_cases h2 : kf = [] <;> by_cases h3 : kfv = [] <;>
        simp [Key.attrs, setAll, Attrs.set, rangeAttrs, Key.set, AV.val, methodNone, methodAES128, methodSampleAES,
          h1, h2, h3, hu']
    · intro a ha
      simp only [Key.attrs, hm, ne_eq, not_false_eq_true, ↓reduceIte, List.mem_append, List.mem_cons,
        List.mem_nil_iff, or_false] at ha
      rcases ha with rfl | (((rfl | ha) | ha) | ha)
      · exact hmOK
      · exact ⟨by simp, by simp [trimLeftSpaces], quotedOK_not_mem hq⟩
      · split at ha
        · rename_i hne
          simp at ha; subst ha; exact hivOK hne
        · simp at ha
      · split at ha
        · simp at ha; subst ha; exact ⟨by simp, by simp [trimLeftSpaces], quotedOK_not_mem hkf⟩
        · simp at ha
      · split at ha
        · simp at ha; subst ha; exact ⟨by simp, by simp [trimLeftSpaces], quotedOK_not_mem hkfv⟩
        · simp at ha

end Hls.Playlist.MP
