import Hls.Playlist.MediaNear
/-!
# Attribute order does not matter

Go iterates the attribute map in random order; the model folds over it in insertion order.  This
file proves that every per-tag decoder gives the same result for EVERY order (`rangeAttrs_perm`,
from the pairwise commutation of the `set` functions), and hence that a tag whose attributes are
written in a different order decodes to the same value (`decode_render_perm`).
-/
namespace Hls.Playlist.MP

/-- handling two different keys in either order gives the same result -/
def Commutes {α} (f : α → Str → Str → Res α) : Prop :=
  ∀ t k1 v1 k2 v2, k1 ≠ k2 → (f t k1 v1 >>= fun t' => f t' k2 v2) = (f t k2 v2 >>= fun t' => f t' k1 v1)

theorem rangeAttrs_perm {α} {f : α → Str → Str → Res α} (hf : Commutes f) {a b : Attrs} (hp : a.Perm b) :
    (a.map (·.1)).Nodup → ∀ init, rangeAttrs a init f = rangeAttrs b init f := by
  induction hp with
  | nil => intro _ _; rfl
  | cons x _ ih =>
    intro hnd init
    simp only [List.map_cons, List.nodup_cons] at hnd
    simp only [rangeAttrs, List.foldlM_cons]
    cases f init x.1 x.2 with
    | ok t => simp only [Res.ok_bind]; exact ih hnd.2 t
    | err => rfl
    | panic => rfl
  | swap x y l =>
    intro hnd init
    simp only [List.map_cons, List.nodup_cons, List.mem_cons, not_or] at hnd
    have hne : y.1 ≠ x.1 := hnd.1.1
    simp only [rangeAttrs, List.foldlM_cons]
    have := hf init y.1 y.2 x.1 x.2 hne
    have e1 : (f init y.1 y.2 >>= fun t => f t x.1 x.2 >>= fun t' => List.foldlM (fun t kv => f t kv.1 kv.2) t' l) =
        ((f init y.1 y.2 >>= fun t => f t x.1 x.2) >>= fun t' => List.foldlM (fun t kv => f t kv.1 kv.2) t' l) := by
      cases f init y.1 y.2 <;> rfl
    have e2 : (f init x.1 x.2 >>= fun t => f t y.1 y.2 >>= fun t' => List.foldlM (fun t kv => f t kv.1 kv.2) t' l) =
        ((f init x.1 x.2 >>= fun t => f t y.1 y.2) >>= fun t' => List.foldlM (fun t kv => f t kv.1 kv.2) t' l) := by
      cases f init x.1 x.2 <;> rfl
    rw [e1, e2, this]
  | trans h1 _ ih1 ih2 =>
    intro hnd init
    have hnd2 := (h1.map (·.1)).nodup_iff.mp hnd
    rw [ih1 hnd init, ih2 hnd2 init]

theorem key5 (k c1 c2 c3 c4 c5 : Str) :
    k = c1 ∨ k = c2 ∨ k = c3 ∨ k = c4 ∨ k = c5 ∨ (k ≠ c1 ∧ k ≠ c2 ∧ k ≠ c3 ∧ k ≠ c4 ∧ k ≠ c5) := by
  by_cases h1 : k = c1
  · exact Or.inl h1
  by_cases h2 : k = c2
  · exact Or.inr (Or.inl h2)
  by_cases h3 : k = c3
  · exact Or.inr (Or.inr (Or.inl h3))
  by_cases h4 : k = c4
  · exact Or.inr (Or.inr (Or.inr (Or.inl h4)))
  by_cases h5 : k = c5
  · exact Or.inr (Or.inr (Or.inr (Or.inr (Or.inl h5))))
  exact Or.inr (Or.inr (Or.inr (Or.inr (Or.inr ⟨h1, h2, h3, h4, h5⟩))))

theorem Key.set_commutes : Commutes Key.set := by
  intro t k1 v1 k2 v2 hne
  rcases key5 k1 cs!"METHOD" cs!"URI" cs!"IV" cs!"KEYFORMAT" cs!"KEYFORMATVERSIONS" with
    rfl | rfl | rfl | rfl | rfl | ⟨a1, a2, a3, a4, a5⟩ <;>
  rcases key5 k2 cs!"METHOD" cs!"URI" cs!"IV" cs!"KEYFORMAT" cs!"KEYFORMATVERSIONS" with
    rfl | rfl | rfl | rfl | rfl | ⟨b1, b2, b3, b4, b5⟩ <;>
  first
    | exact absurd rfl hne
    | (simp only [Key.set]; simp (config := {decide := true}) [*]; try (split <;> simp))

theorem MapTag.set_commutes : Commutes MapTag.set := by
  intro t k1 v1 k2 v2 hne
  rcases key5 k1 cs!"URI" cs!"BYTERANGE" cs!"URI" cs!"URI" cs!"URI" with rfl | rfl | rfl | rfl | rfl | ⟨a1, a2, _, _, _⟩ <;>
  rcases key5 k2 cs!"URI" cs!"BYTERANGE" cs!"URI" cs!"URI" cs!"URI" with rfl | rfl | rfl | rfl | rfl | ⟨b1, b2, _, _, _⟩ <;>
  first
    | exact absurd rfl hne
    | (simp only [MapTag.set]; simp (config := {decide := true}) [*]
       try (have m1 := byteRange_unmarshal_noPanic v1
            have m2 := byteRange_unmarshal_noPanic v2
            cases g1 : ByteRange.unmarshal v1 <;> cases g2 : ByteRange.unmarshal v2 <;> simp_all [Res.NoPanic]))

theorem Skip.set_commutes : Commutes Skip.set := by
  intro t k1 v1 k2 v2 hne
  by_cases a : k1 = cs!"SKIPPED-SEGMENTS" <;> by_cases b : k2 = cs!"SKIPPED-SEGMENTS"
  · exact absurd (a.trans b.symm) hne
  · simp only [Skip.set, a, b, ↓reduceIte]
    cases Res.ofOption (parseUint 31 v1) <;> rfl
  · simp only [Skip.set, a, b, ↓reduceIte]
    cases Res.ofOption (parseUint 31 v2) <;> rfl
  · simp [Skip.set, a, b]

theorem PreloadHint.set_commutes : Commutes PreloadHint.set := by
  intro t k1 v1 k2 v2 hne
  rcases key5 k1 cs!"TYPE" cs!"URI" cs!"BYTERANGE-START" cs!"BYTERANGE-LENGTH" cs!"TYPE" with
    rfl | rfl | rfl | rfl | rfl | ⟨a1, a2, a3, a4, _⟩ <;>
  rcases key5 k2 cs!"TYPE" cs!"URI" cs!"BYTERANGE-START" cs!"BYTERANGE-LENGTH" cs!"TYPE" with
    rfl | rfl | rfl | rfl | rfl | ⟨b1, b2, b3, b4, _⟩ <;>
  first
    | exact absurd rfl hne
    | (simp only [PreloadHint.set]; simp (config := {decide := true}) [*]
       try (split <;> simp)
       try (have n1 := Res.noPanic_ofOption (parseUint 64 v1)
            have n2 := Res.noPanic_ofOption (parseUint 64 v2)
            cases h1 : Res.ofOption (parseUint 64 v1) <;> cases h2 : Res.ofOption (parseUint 64 v2) <;>
              simp_all [Res.NoPanic]))

section
variable (C : Codec)

theorem Start.set_commutes : Commutes (Start.set C) := by
  intro t k1 v1 k2 v2 hne
  by_cases a : k1 = cs!"TIME-OFFSET" <;> by_cases b : k2 = cs!"TIME-OFFSET"
  · exact absurd (a.trans b.symm) hne
  · simp only [Start.set, a, b, ↓reduceIte]
    cases durUnmarshal C v1 <;> rfl
  · simp only [Start.set, a, b, ↓reduceIte]
    cases durUnmarshal C v2 <;> rfl
  · simp [Start.set, a, b]

theorem PartInf.set_commutes : Commutes (PartInf.set C) := by
  intro t k1 v1 k2 v2 hne
  by_cases a : k1 = cs!"PART-TARGET" <;> by_cases b : k2 = cs!"PART-TARGET"
  · exact absurd (a.trans b.symm) hne
  · simp only [PartInf.set, a, b, ↓reduceIte]
    cases durUnmarshal C v1 <;> rfl
  · simp only [PartInf.set, a, b, ↓reduceIte]
    cases durUnmarshal C v2 <;> rfl
  · simp [PartInf.set, a, b]

theorem ServerControl.set_commutes : Commutes (ServerControl.set C) := by
  intro t k1 v1 k2 v2 hne
  rcases key5 k1 cs!"CAN-BLOCK-RELOAD" cs!"PART-HOLD-BACK" cs!"CAN-SKIP-UNTIL" cs!"CAN-BLOCK-RELOAD" cs!"CAN-BLOCK-RELOAD" with
    rfl | rfl | rfl | rfl | rfl | ⟨a1, a2, a3, _, _⟩ <;>
  rcases key5 k2 cs!"CAN-BLOCK-RELOAD" cs!"PART-HOLD-BACK" cs!"CAN-SKIP-UNTIL" cs!"CAN-BLOCK-RELOAD" cs!"CAN-BLOCK-RELOAD" with
    rfl | rfl | rfl | rfl | rfl | ⟨b1, b2, b3, _, _⟩ <;>
  first
    | exact absurd rfl hne
    | (simp only [ServerControl.set]; simp (config := {decide := true}) [*]
       try (have n1 := durUnmarshal_noPanic C v1
            have n2 := durUnmarshal_noPanic C v2
            cases h1 : durUnmarshal C v1 <;> cases h2 : durUnmarshal C v2 <;> simp_all [Res.NoPanic]))

theorem Part.set_commutes : Commutes (Part.set C) := by
  intro t k1 v1 k2 v2 hne
  rcases key5 k1 cs!"DURATION" cs!"URI" cs!"INDEPENDENT" cs!"BYTERANGE" cs!"GAP" with
    rfl | rfl | rfl | rfl | rfl | ⟨a1, a2, a3, a4, a5⟩ <;>
  rcases key5 k2 cs!"DURATION" cs!"URI" cs!"INDEPENDENT" cs!"BYTERANGE" cs!"GAP" with
    rfl | rfl | rfl | rfl | rfl | ⟨b1, b2, b3, b4, b5⟩ <;>
  first
    | exact absurd rfl hne
    | (simp only [Part.set]; simp (config := {decide := true}) [*]
       try (have n1 := durUnmarshal_noPanic C v1
            have n2 := durUnmarshal_noPanic C v2
            have m1 := byteRange_unmarshal_noPanic v1
            have m2 := byteRange_unmarshal_noPanic v2
            cases h1 : durUnmarshal C v1 <;> cases h2 : durUnmarshal C v2 <;>
              cases g1 : ByteRange.unmarshal v1 <;> cases g2 : ByteRange.unmarshal v2 <;> simp_all [Res.NoPanic]))

end

/-! ## the attribute map has distinct keys -/

theorem Attrs.set_keys_nodup (a : Attrs) (k v : Str) (h : (a.map (·.1)).Nodup) : ((a.set k v).map (·.1)).Nodup := by
  unfold Attrs.set
  split
  · have : (a.map (fun kv => if kv.1 == k then (k, v) else kv)).map (·.1) = a.map (·.1) := by
      simp only [List.map_map]
      apply List.map_congr_left
      intro kv _
      simp only [Function.comp]
      split
      · rename_i he; exact (by simpa using he : kv.1 = k).symm
      · rfl
    rw [this]; exact h
  · rename_i hany
    simp only [List.map_append, List.map_cons, List.map_nil]
    apply List.nodup_append.mpr
    refine ⟨h, by simp, ?_⟩
    intro x hx y hy
    simp at hy
    subst hy
    intro e
    subst e
    apply hany
    simp only [List.mem_map] at hx
    obtain ⟨kv, hkv, rfl⟩ := hx
    exact List.any_eq_true.mpr ⟨kv, hkv, by simp⟩

theorem attrsLoop_nodup : ∀ (fuel : Nat) (v : Str) (a r : Attrs), (a.map (·.1)).Nodup → attrsLoop fuel v a = .ok r →
    (r.map (·.1)).Nodup
  | 0, _, _, _, _, h => by simp [attrsLoop] at h
  | fuel + 1, v, a, r, hnd, h => by
    unfold attrsLoop at h
    split at h
    · simp at h; subst h; exact hnd
    · rw [cut_eq] at h
      simp only [Res.ok_bind] at h
      split at h
      · simp at h
      · rename_i key v1 _
        split at h
        · rename_i rest
          rw [sliceFrom_ok (by simp)] at h
          simp only [Res.ok_bind, cut_eq] at h
          split at h
          · simp at h
          · rename_i val v2 _
            split at h
            · exact attrsLoop_nodup fuel _ _ r (Attrs.set_keys_nodup a _ _ hnd) h
            · split at h
              · simp at h
              · obtain ⟨_, _, h⟩ := Res.bind_eq_ok h
                exact attrsLoop_nodup fuel _ _ r (Attrs.set_keys_nodup a _ _ hnd) h
        · rw [cut_eq] at h
          simp only [Res.ok_bind] at h
          split at h
          · exact attrsLoop_nodup fuel _ _ r (Attrs.set_keys_nodup a _ _ hnd) h
          · simp at h; subst h; exact Attrs.set_keys_nodup a _ _ hnd

/-- the keys of a parsed attribute list are distinct (it is a map) -/
theorem parseAttrs_nodup {v : Str} {r : Attrs} (h : parseAttrs v = .ok r) : (r.map (·.1)).Nodup :=
  attrsLoop_nodup _ v [] r (by simp) h

/-- every order of iterating the parsed attribute map gives the same result, for every tag decoder -/
theorem rangeAttrs_order {α} {f : α → Str → Str → Res α} (hf : Commutes f) {v : Str} {attrs attrs' : Attrs}
    (h : parseAttrs v = .ok attrs) (hp : attrs.Perm attrs') (init : α) :
    rangeAttrs attrs init f = rangeAttrs attrs' init f :=
  rangeAttrs_perm hf hp (parseAttrs_nodup h) init


/-! ## a tag written with its attributes in another order -/

theorem setAll_append_nodup : ∀ (as : List (Str × AV)) (acc : Attrs), (as.map (·.1)).Nodup →
    (∀ a ∈ as, ∀ p ∈ acc, p.1 ≠ a.1) → setAll acc as = acc ++ as.map (fun a => (a.1, a.2.val))
  | [], acc, _, _ => by simp [setAll]
  | a :: rest, acc, hnd, hdis => by
    simp only [List.map_cons, List.nodup_cons] at hnd
    have hany : acc.any (fun kv => kv.1 == a.1) = false := by
      apply Bool.eq_false_iff.mpr
      intro h
      obtain ⟨p, hp, he⟩ := List.any_eq_true.mp h
      exact hdis a (by simp) p hp (by simpa using he)
    have hset : acc.set a.1 a.2.val = acc ++ [(a.1, a.2.val)] := by simp [Attrs.set, hany]
    have := setAll_append_nodup rest (acc ++ [(a.1, a.2.val)]) hnd.2 (by
      intro x hx p hp
      simp only [List.mem_append, List.mem_singleton] at hp
      rcases hp with hp | rfl
      · exact hdis x (by simp [hx]) p hp
      · intro e
        exact hnd.1 (by simp only [List.mem_map]; exact ⟨x, hx, e.symm⟩))
    simp only [setAll, List.foldl_cons, hset] at this ⊢
    rw [this]
    simp

/-- the shape shared by all tag decoders -/
def decodeWith {α β} (set : α → Str → Str → Res α) (init : α) (fin : α → Res β) (v : Str) : Res β := do
  let attrs ← parseAttrs v
  let t ← rangeAttrs attrs init set
  fin t

/-- writing the attributes of a tag in a different order does not change what it decodes to -/
theorem decode_render_perm {α β} {set : α → Str → Str → Res α} (hset : Commutes set) (init : α) (fin : α → Res β)
    {as as' : List (Str × AV)} (hp : as.Perm as') (hok : ∀ a ∈ as, AttrOK a) (hnd : (as.map (·.1)).Nodup) :
    decodeWith set init fin (renderAttrs as') = decodeWith set init fin (renderAttrs as) := by
  have hok' : ∀ a ∈ as', AttrOK a := fun a ha => hok a (hp.mem_iff.mpr ha)
  have hnd' : (as'.map (·.1)).Nodup := (hp.map (·.1)).nodup_iff.mp hnd
  unfold decodeWith
  rw [parseAttrs_render as hok, parseAttrs_render as' hok', setAll_append_nodup as [] hnd (by simp),
    setAll_append_nodup as' [] hnd' (by simp)]
  simp only [List.nil_append, Res.ok_bind]
  have hperm : (as'.map (fun a => (a.1, a.2.val))).Perm (as.map (fun a => (a.1, a.2.val))) := (hp.map _).symm
  have hk : ((as'.map (fun a => (a.1, a.2.val))).map (·.1)).Nodup := by
    have e : (as'.map (fun a => (a.1, a.2.val))).map (·.1) = as'.map (·.1) := by
      simp only [List.map_map]
      rfl
    rw [e]; exact hnd'
  rw [rangeAttrs_perm hset hperm hk init]

end Hls.Playlist.MP
