import Hls.Playlist.MediaLemmas
/-!
# Structure of successfully decoded media playlists (C15, second clause)

`Media.unmarshal C buf = ok m → Structured m`, for every codec `C`.
-/
namespace Hls.Playlist.MP

def PartOK (p : Part) : Prop := p.duration ≠ 0 ∧ p.uri ≠ []

def SegOK (s : Segment) : Prop := s.duration ≠ 0 ∧ s.uri ≠ [] ∧ ∀ p ∈ s.parts, PartOK p

/-- what callers index into without checking (property text of C15) -/
structure Structured (m : Media) : Prop where
  hasSegment : m.segments ≠ []
  segs : ∀ s ∈ m.segments, SegOK s
  target : m.targetDuration ≠ 0
  parts : ∀ p ∈ m.parts, PartOK p
  partInf : ∀ t, m.partInf = some t → t ≠ 0
  map : ∀ t, m.map = some t → t.uri ≠ []
  hint : ∀ t, m.preloadHint = some t → t.uri ≠ []
  start : ∀ t, m.start = some t → t ≠ 0

structure St.Inv (st : St) : Prop where
  segs : ∀ s ∈ st.m.segments, SegOK s
  curParts : ∀ p ∈ st.cur.parts, PartOK p
  partInf : ∀ t, st.m.partInf = some t → t ≠ 0
  map : ∀ t, st.m.map = some t → t.uri ≠ []
  hint : ∀ t, st.m.preloadHint = some t → t.uri ≠ []
  start : ∀ t, st.m.start = some t → t ≠ 0

theorem St.inv_init : St.Inv {} := by
  constructor <;> simp

section
variable (C : Codec)

theorem Start.unmarshal_ok {v : Str} {t : Int} (h : Start.unmarshal C v = .ok t) : t ≠ 0 := by
  unfold Start.unmarshal at h
  obtain ⟨attrs, _, h⟩ := Res.bind_eq_ok h
  obtain ⟨t', _, h⟩ := Res.bind_eq_ok h
  split at h
  · simp at h
  · simp at h; subst h; assumption

theorem PartInf.unmarshal_ok {v : Str} {t : Int} (h : PartInf.unmarshal C v = .ok t) : t ≠ 0 := by
  unfold PartInf.unmarshal at h
  obtain ⟨attrs, _, h⟩ := Res.bind_eq_ok h
  obtain ⟨t', _, h⟩ := Res.bind_eq_ok h
  split at h
  · simp at h
  · simp at h; subst h; assumption

theorem Part.unmarshal_ok {v : Str} {p : Part} (h : Part.unmarshal C v = .ok p) : PartOK p := by
  unfold Part.unmarshal at h
  obtain ⟨attrs, _, h⟩ := Res.bind_eq_ok h
  obtain ⟨t', _, h⟩ := Res.bind_eq_ok h
  split at h
  · simp at h
  · split at h
    · simp at h
    · simp at h; subst h; exact ⟨by assumption, by assumption⟩

end

theorem MapTag.unmarshal_ok {v : Str} {t : MapTag} (h : MapTag.unmarshal v = .ok t) : t.uri ≠ [] := by
  unfold MapTag.unmarshal at h
  obtain ⟨attrs, _, h⟩ := Res.bind_eq_ok h
  obtain ⟨t', _, h⟩ := Res.bind_eq_ok h
  split at h
  · simp at h
  · simp at h; subst h; assumption

theorem PreloadHint.unmarshal_ok {v : Str} {t : PreloadHint} (h : PreloadHint.unmarshal v = .ok t) : t.uri ≠ [] := by
  unfold PreloadHint.unmarshal at h
  obtain ⟨attrs, _, h⟩ := Res.bind_eq_ok h
  obtain ⟨t', _, h⟩ := Res.bind_eq_ok h
  split at h
  · simp at h
  · split at h
    · simp at h
    · simp at h; subst h; assumption

section
variable (C : Codec)

theorem handle_inv {st st' : St} {tag : Tag} {lit line : Str} (hi : st.Inv)
    (h : handle C st tag lit line = .ok st') : st'.Inv := by
  cases tag <;> simp only [handle] at h
  case version =>
    obtain ⟨_, _, h⟩ := Res.bind_eq_ok h
    obtain ⟨_, _, h⟩ := Res.bind_eq_ok h
    split at h
    · simp at h
    · simp at h; subst h; exact ⟨hi.segs, hi.curParts, hi.partInf, hi.map, hi.hint, hi.start⟩
  case independentSegments =>
    simp at h; subst h; exact ⟨hi.segs, hi.curParts, hi.partInf, hi.map, hi.hint, hi.start⟩
  case start =>
    obtain ⟨_, _, h⟩ := Res.bind_eq_ok h
    obtain ⟨t, ht, h⟩ := Res.bind_eq_ok h
    simp at h; subst h
    exact ⟨hi.segs, hi.curParts, hi.partInf, hi.map, hi.hint,
      fun t' ht' => by simp at ht'; subst ht'; exact Start.unmarshal_ok C ht⟩
  case allowCache =>
    obtain ⟨_, _, h⟩ := Res.bind_eq_ok h
    simp at h; subst h; exact ⟨hi.segs, hi.curParts, hi.partInf, hi.map, hi.hint, hi.start⟩
  case targetDuration =>
    obtain ⟨_, _, h⟩ := Res.bind_eq_ok h
    split at h
    all_goals
      obtain ⟨_, _, h⟩ := Res.bind_eq_ok h
      obtain ⟨_, _, h⟩ := Res.bind_eq_ok h
      simp at h; subst h; exact ⟨hi.segs, hi.curParts, hi.partInf, hi.map, hi.hint, hi.start⟩
  case serverControl =>
    obtain ⟨_, _, h⟩ := Res.bind_eq_ok h
    obtain ⟨_, _, h⟩ := Res.bind_eq_ok h
    simp at h; subst h; exact ⟨hi.segs, hi.curParts, hi.partInf, hi.map, hi.hint, hi.start⟩
  case partInf =>
    obtain ⟨_, _, h⟩ := Res.bind_eq_ok h
    obtain ⟨t, ht, h⟩ := Res.bind_eq_ok h
    simp at h; subst h
    exact ⟨hi.segs, hi.curParts, fun t' ht' => by simp at ht'; subst ht'; exact PartInf.unmarshal_ok C ht,
      hi.map, hi.hint, hi.start⟩
  case mediaSequence =>
    obtain ⟨_, _, h⟩ := Res.bind_eq_ok h
    obtain ⟨_, _, h⟩ := Res.bind_eq_ok h
    simp at h; subst h; exact ⟨hi.segs, hi.curParts, hi.partInf, hi.map, hi.hint, hi.start⟩
  case discontinuitySequence =>
    obtain ⟨_, _, h⟩ := Res.bind_eq_ok h
    obtain ⟨_, _, h⟩ := Res.bind_eq_ok h
    simp at h; subst h; exact ⟨hi.segs, hi.curParts, hi.partInf, hi.map, hi.hint, hi.start⟩
  case playlistType =>
    obtain ⟨_, _, h⟩ := Res.bind_eq_ok h
    split at h
    · simp at h
    · simp at h; subst h; exact ⟨hi.segs, hi.curParts, hi.partInf, hi.map, hi.hint, hi.start⟩
  case map =>
    obtain ⟨_, _, h⟩ := Res.bind_eq_ok h
    obtain ⟨t, ht, h⟩ := Res.bind_eq_ok h
    simp at h; subst h
    exact ⟨hi.segs, hi.curParts, hi.partInf, fun t' ht' => by simp at ht'; subst ht'; exact MapTag.unmarshal_ok ht,
      hi.hint, hi.start⟩
  case key =>
    obtain ⟨_, _, h⟩ := Res.bind_eq_ok h
    obtain ⟨_, _, h⟩ := Res.bind_eq_ok h
    simp at h; subst h; exact ⟨hi.segs, hi.curParts, hi.partInf, hi.map, hi.hint, hi.start⟩
  case skip =>
    obtain ⟨_, _, h⟩ := Res.bind_eq_ok h
    obtain ⟨_, _, h⟩ := Res.bind_eq_ok h
    simp at h; subst h; exact ⟨hi.segs, hi.curParts, hi.partInf, hi.map, hi.hint, hi.start⟩
  case discontinuity =>
    simp at h; subst h; exact ⟨hi.segs, hi.curParts, hi.partInf, hi.map, hi.hint, hi.start⟩
  case gap =>
    simp at h; subst h; exact ⟨hi.segs, hi.curParts, hi.partInf, hi.map, hi.hint, hi.start⟩
  case programDateTime =>
    obtain ⟨_, _, h⟩ := Res.bind_eq_ok h
    obtain ⟨_, _, h⟩ := Res.bind_eq_ok h
    simp at h; subst h; exact ⟨hi.segs, hi.curParts, hi.partInf, hi.map, hi.hint, hi.start⟩
  case bitrate =>
    obtain ⟨_, _, h⟩ := Res.bind_eq_ok h
    obtain ⟨_, _, h⟩ := Res.bind_eq_ok h
    simp at h; subst h; exact ⟨hi.segs, hi.curParts, hi.partInf, hi.map, hi.hint, hi.start⟩
  case extinf =>
    obtain ⟨_, _, h⟩ := Res.bind_eq_ok h
    obtain ⟨_, _, h⟩ := Res.bind_eq_ok h
    split at h
    · simp at h
    · obtain ⟨_, _, h⟩ := Res.bind_eq_ok h
      obtain ⟨_, _, h⟩ := Res.bind_eq_ok h
      obtain ⟨_, _, h⟩ := Res.bind_eq_ok h
      simp at h; subst h; exact ⟨hi.segs, hi.curParts, hi.partInf, hi.map, hi.hint, hi.start⟩
  case byteRange =>
    obtain ⟨_, _, h⟩ := Res.bind_eq_ok h
    obtain ⟨_, _, h⟩ := Res.bind_eq_ok h
    simp at h; subst h; exact ⟨hi.segs, hi.curParts, hi.partInf, hi.map, hi.hint, hi.start⟩
  case part =>
    obtain ⟨_, _, h⟩ := Res.bind_eq_ok h
    obtain ⟨p, hp, h⟩ := Res.bind_eq_ok h
    simp at h; subst h
    refine ⟨hi.segs, ?_, hi.partInf, hi.map, hi.hint, hi.start⟩
    intro q hq
    simp at hq
    rcases hq with hq | hq
    · exact hi.curParts q hq
    · subst hq; exact Part.unmarshal_ok C hp
  case uri =>
    obtain ⟨_, hv, h⟩ := Res.bind_eq_ok h
    simp at h; subst h
    refine ⟨?_, by simp, hi.partInf, hi.map, hi.hint, hi.start⟩
    intro s hs
    simp at hs
    rcases hs with hs | hs
    · exact hi.segs s hs
    · subst hs
      unfold Segment.validate at hv
      split at hv
      · simp at hv
      · split at hv
        · simp at hv
        · rename_i h1 h2
          exact ⟨h1, h2, hi.curParts⟩
  case preloadHint =>
    obtain ⟨_, _, h⟩ := Res.bind_eq_ok h
    obtain ⟨t, ht, h⟩ := Res.bind_eq_ok h
    simp at h; subst h
    exact ⟨hi.segs, hi.curParts, hi.partInf, hi.map,
      fun t' ht' => by simp at ht'; subst ht'; exact PreloadHint.unmarshal_ok ht, hi.start⟩
  case endlist =>
    simp at h; subst h; exact ⟨hi.segs, hi.curParts, hi.partInf, hi.map, hi.hint, hi.start⟩

theorem step_inv {st st' : St} {line : Str} (hi : st.Inv) (h : step C st line = .ok st') : st'.Inv := by
  unfold step at h
  split at h
  · simp at h; subst h; exact hi
  · exact handle_inv C hi h

theorem loop_inv : ∀ (fuel : Nat) {st st' : St} {s : Str}, st.Inv → loop C fuel st s = .ok st' → st'.Inv
  | 0, _, _, _, _, h => by simp [loop] at h
  | fuel + 1, st, st', s, hi, h => by
    unfold loop at h
    rw [readLine_eq] at h
    simp only [Res.ok_bind] at h
    split at h
    · simp at h; subst h; exact hi
    · obtain ⟨st1, h1, h⟩ := Res.bind_eq_ok h
      exact loop_inv fuel (step_inv C hi h1) h

theorem Media.unmarshal_structured {buf : Str} {m : Media} (h : Media.unmarshal C buf = .ok m) : Structured m := by
  unfold Media.unmarshal at h
  obtain ⟨s, _, h⟩ := Res.bind_eq_ok h
  obtain ⟨st, hst, h⟩ := Res.bind_eq_ok h
  have hi := loop_inv C _ St.inv_init hst
  simp only at h
  split at h
  · simp at h
  · split at h
    · simp at h
    · rename_i ht hs
      simp at h; subst h
      exact ⟨by intro hn; simp at hn hs; exact hs hn, hi.segs, ht, hi.curParts, hi.partInf, hi.map, hi.hint, hi.start⟩

end

end Hls.Playlist.MP
