import Hls.Playlist.MediaModel
/-!
# Well-formed media playlist values, the codec envelope, quantisation

`WFMedia` is the set of "documented field requirements" of C14 made explicit and decidable.
Every clause is needed by the text format itself (negative examples: `Hls/Props/C14.lean`).
`Codec.Valid` is the error envelope (DESIGN §2) under which the theorems of C14 are proved;
the driver's `Codec.go` is validated against the real `strconv` / `time` by tie T2.
-/
namespace Hls.Playlist.MP

/-! ## the envelope of the float / time text forms -/

/-- durations above this lose nanosecond accuracy in `float64` seconds (≈ 11.5 days) -/
def durMax : Int := 1000000000000000

/-- the durations whose text form is canonical: magnitude ≤ 10^15 ns, and a negative one is not
rounded to `-0.00000` -/
def DurDom (d : Int) : Prop := d.natAbs ≤ durMax.toNat ∧ (d < 0 → 5000 < d.natAbs)

/-- the text `FormatFloat(·,'f',5,64)` produces for sign `neg` and `q` units of 10 µs -/
def decText (neg : Bool) (q : Nat) : Str :=
  (if neg then ['-'] else []) ++ formatNat (q / 100000) ++ '.' :: padNat 5 (q % 100000)

/-- truncation to the millisecond (`.999` layout) -/
def truncMs (t : Time) : Time := { t with nsec := t.nsec / 1000000 * 1000000 }

/-- a time whose RFC 3339 text is unambiguous: four-digit year in its zone, zone offset a whole
number of minutes below 24 h -/
def wfTime (t : Time) : Bool :=
  decide (t.off % 60 = 0) && decide (-86400 < t.off) && decide (t.off < 86400) &&
  decide (-62167219200 ≤ t.sec + t.off) && decide (t.sec + t.off < 253402300800) && decide (t.nsec < 1000000000)

def timeChar (c : Char) : Bool :=
  isDigit c || c = '-' || c = ':' || c = 'T' || c = 'Z' || c = '+' || c = '.'

structure Codec.Valid (C : Codec) : Prop where
  /-- `FormatFloat(d.Seconds(),'f',5,64)`: the sign and the nearest multiple of 10 µs
  (a decimal tie may be rounded either way) -/
  fmt_dur : ∀ d : Int, DurDom d →
    ∃ q : Nat, C.fmtDur d = decText (decide (d < 0)) q ∧ q * 10000 ≤ d.natAbs + 5000 ∧ d.natAbs ≤ q * 10000 + 5000
  /-- `time.Duration(ParseFloat(text) * 1e9)`: within one nanosecond of the exact value (the real
  code is exact or one short; the envelope proved for the soft-float model is two-sided) -/
  parse_dur : ∀ (neg : Bool) (q : Nat), q ≤ 100000000000 → (neg = true → 0 < q) →
    ∃ n : Nat, C.parseDur (decText neg q) = some (if neg then -(n : Int) else n) ∧ n ≤ q * 10000 + 1 ∧ q * 10000 ≤ n + 1
  /-- RFC 3339 text of a well-formed time parses back to the same instant and zone at 1 ms -/
  time_rt : ∀ t, wfTime t = true → C.parseTime (C.fmtTime t) = some (truncMs t)
  time_trunc : ∀ t, wfTime t = true → C.fmtTime (truncMs t) = C.fmtTime t
  time_chars : ∀ t, wfTime t = true → (C.fmtTime t).all timeChar = true

/-- what a duration becomes after one encode/decode -/
def Codec.requant (C : Codec) (d : Int) : Int := (C.parseDur (C.fmtDur d)).getD 0

/-! ## quantisation of a whole value -/

section
variable (C : Codec)

def Part.quantise (p : Part) : Part := { p with duration := C.requant p.duration }

def Segment.quantise (s : Segment) : Segment :=
  { s with duration := C.requant s.duration, dateTime := s.dateTime.map truncMs,
           parts := s.parts.map (Part.quantise C) }

def ServerControl.quantise (t : ServerControl) : ServerControl :=
  { t with partHoldBack := t.partHoldBack.map C.requant, canSkipUntil := t.canSkipUntil.map C.requant }

/-- `quantise` rounds durations to the 10 µs text resolution (through the codec) and times to
1 ms; every other field is untouched. -/
def Media.quantise (m : Media) : Media :=
  { m with start := m.start.map C.requant,
           serverControl := m.serverControl.map (ServerControl.quantise C),
           partInf := m.partInf.map C.requant,
           segments := m.segments.map (Segment.quantise C),
           parts := m.parts.map (Part.quantise C) }

end

/-! ## `WFMedia` -/

def int31 (v : Int) : Bool := decide (0 ≤ v) && decide (v < 2147483648)
def u64 (v : Nat) : Bool := decide (v < 18446744073709551616)

/-- legal content of a quoted-string -/
def quotedOK (s : Str) : Bool := s.all fun c => c != '"' && c != '\n' && c != '\r'
/-- legal content of a free-text line -/
def lineOK (s : Str) : Bool := s.all fun c => c != '\n' && c != '\r'

/-- a duration that survives the 5-decimal text as a non-zero value -/
def posDur (d : Int) : Bool := decide (5000 < d) && decide (d + 5000 < durMax)
/-- a non-negative duration -/
def nnDur (d : Int) : Bool := decide (0 ≤ d) && decide (d + 5000 < durMax)
/-- a signed non-zero duration (EXT-X-START) -/
def signedDur (d : Int) : Bool := decide (5000 < d.natAbs) && decide (d.natAbs + 5000 < durMax.toNat)

/-- `n[@o]`: an offset needs a length -/
def brOK (len start : Option Nat) : Bool :=
  len.all u64 && start.all u64 && (start.isNone || len.isSome)

def isHexDigitC (c : Char) : Bool := isDigit c || ('a' ≤ c && c ≤ 'f') || ('A' ≤ c && c ≤ 'F')

/-- hexadecimal-sequence -/
def isHexSeq (s : Str) : Bool :=
  match s with
  | '0' :: x :: d :: rest => (x = 'x' || x = 'X') && (d :: rest).all isHexDigitC
  | _ => false

def wfPart (p : Part) : Bool :=
  posDur p.duration && p.uri != [] && quotedOK p.uri && brOK p.brLen p.brStart

def wfKey (k : Key) : Bool :=
  if k.method = methodNone then k.uri = [] && k.iv = [] && k.keyFormat = [] && k.keyFormatVersions = []
  else (k.method = methodAES128 || k.method = methodSampleAES) && k.uri != [] && quotedOK k.uri &&
    (k.iv = [] || isHexSeq k.iv) && quotedOK k.keyFormat && quotedOK k.keyFormatVersions

def wfSegment (s : Segment) : Bool :=
  posDur s.duration && s.uri != [] && s.uri.head? != some '#' && lineOK s.uri &&
  s.title = trimSpace s.title && lineOK s.title && s.bitrate.all int31 && brOK s.brLen s.brStart &&
  s.dateTime.all wfTime && s.key.all wfKey && s.parts.all wfPart

/-- key persistence: EXT-X-KEY applies until replaced, so once a segment carries a key no later
segment can be key-less (`METHOD=NONE` says "not encrypted") -/
def keyPersist : Bool → List Segment → Bool
  | _, [] => true
  | keyed, s :: rest =>
    match s.key with
    | some _ => keyPersist true rest
    | none => !keyed && keyPersist false rest

def wfMedia (m : Media) : Bool :=
  decide (0 ≤ m.version) && decide (m.version ≤ maxSupportedVersion) &&
  int31 m.targetDuration && decide (m.targetDuration ≠ 0) && int31 m.mediaSequence &&
  m.discontinuitySequence.all int31 && m.skip.all int31 && m.start.all signedDur &&
  m.serverControl.all (fun t => t.partHoldBack.all nnDur && t.canSkipUntil.all nnDur) &&
  m.partInf.all posDur &&
  m.playlistType.all (fun v => v = cs!"EVENT" || v = cs!"VOD") &&
  m.map.all (fun t => t.uri != [] && quotedOK t.uri && brOK t.brLen t.brStart) &&
  m.segments != [] && m.segments.all wfSegment && keyPersist false m.segments &&
  m.parts.all wfPart &&
  m.preloadHint.all (fun t => t.uri != [] && quotedOK t.uri && u64 t.brStart && t.brLen.all u64)

/-- the documented field requirements of `playlist.Media` -/
def WFMedia (m : Media) : Prop := wfMedia m = true

instance (m : Media) : Decidable (WFMedia m) := inferInstanceAs (Decidable (wfMedia m = true))

end Hls.Playlist.MP
