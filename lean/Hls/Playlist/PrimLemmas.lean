import Hls.Playlist.Prim
/-!
  Lemmas about the lexical primitives (`Hls/Playlist/Prim.lean`): the attribute-list
  tokenizer inverts `renderAttrs`, decimal integers round-trip, `ReadLine` on
  well-formed lines, panic-freedom of every checked operation.
-/
set_option linter.unusedVariables false
set_option linter.unusedSimpArgs false

namespace Hls.Playlist

theorem indexByte_append_of_not_mem {c : Char} {a : Str} (b : Str) (h : c ∉ a) :
    indexByte c (a ++ c :: b) = some a.length := by
  induction a with
  | nil => simp [indexByte]
  | cons x xs ih =>
    have hx : x ≠ c := by intro e; apply h; simp [e]
    have hxs : c ∉ xs := by intro e; apply h; simp [e]
    simp [indexByte, hx, ih hxs]

theorem indexByte_none_of_not_mem {c : Char} {a : Str} (h : c ∉ a) : indexByte c a = none := by
  induction a with
  | nil => simp [indexByte]
  | cons x xs ih =>
    have hx : x ≠ c := by intro e; apply h; simp [e]
    have hxs : c ∉ xs := by intro e; apply h; simp [e]
    simp [indexByte, hx, ih hxs]

theorem cutSpec_append {c : Char} {a : Str} (b : Str) (h : c ∉ a) : cutSpec c (a ++ c :: b) = some (a, b) := by
  simp [cutSpec, indexByte_append_of_not_mem b h]

theorem cutSpec_none {c : Char} {a : Str} (h : c ∉ a) : cutSpec c a = none := by
  simp [cutSpec, indexByte_none_of_not_mem h]

theorem parseAttrsLoop_nil (m : AttrMap) : parseAttrsLoop [] m = .ok m := by
  rw [parseAttrsLoop]

theorem parseAttrsLoop_cons (c : Char) (cs : Str) (m : AttrMap) :
    parseAttrsLoop (c :: cs) m =
      match attrStepSpec (c :: cs) m with
      | .error e => .error e
      | .ok (m', none) => .ok m'
      | .ok (m', some rest) => parseAttrsLoop rest m' := by
  rw [parseAttrsLoop]
  split <;> rename_i h <;> rw [attrStep_eq] at h <;> simp [h]


/-! ## Rendering attribute lists (the syntax `Attributes.Unmarshal` inverts) -/

inductive AttrVal
  | quoted (s : Str)
  | unquoted (s : Str)
  deriving DecidableEq, Repr

/-- the string the decoder stores for a value -/
def AttrVal.raw : AttrVal → Str
  | .quoted s => s
  | .unquoted s => s

def AttrVal.render : AttrVal → Str
  | .quoted s => '"' :: s ++ ['"']
  | .unquoted s => s

abbrev Attr := Str × AttrVal

def renderAttr (a : Attr) : Str := a.1 ++ '=' :: a.2.render

/-- attributes joined by commas -/
def renderAttrs : List Attr → Str
  | [] => []
  | [a] => renderAttr a
  | a :: b :: r => renderAttr a ++ ',' :: renderAttrs (b :: r)

/-- What the tokenizer needs of one attribute to read it back:
    the key has no `=` and no leading space (keys are `TrimLeft " "`-ed); a quoted value
    has no `"`; an unquoted value has no `,` and does not start with `"`. -/
def WFAttr (a : Attr) : Prop :=
  '=' ∉ a.1 ∧ a.1.head? ≠ some ' ' ∧
  match a.2 with
  | .quoted s => '"' ∉ s
  | .unquoted s => ',' ∉ s ∧ s.head? ≠ some '"'

instance (a : Attr) : Decidable (WFAttr a) := by
  unfold WFAttr
  cases a.2 <;> exact inferInstance

def WFAttrs (as : List Attr) : Prop := ∀ a ∈ as, WFAttr a

instance (as : List Attr) : Decidable (WFAttrs as) := by unfold WFAttrs; exact inferInstance

/-- the Go map after inserting the attributes in text order (duplicate key: last wins) -/
def toMap (as : List Attr) : AttrMap := as.foldl (fun m a => m.insert a.1 a.2.raw) []

theorem trimLeftSpaces_id {k : Str} (h : k.head? ≠ some ' ') : trimLeftSpaces k = k := by
  cases k with
  | nil => rfl
  | cons x xs =>
    have : x ≠ ' ' := by intro e; apply h; simp [e]
    simp [trimLeftSpaces, List.dropWhile, this]

theorem renderAttrs_cons_cons (a b : Attr) (r : List Attr) :
    renderAttrs (a :: b :: r) = renderAttr a ++ ',' :: renderAttrs (b :: r) := rfl

/-- one tokenizer step on an attribute that is followed by `,` and more text -/
theorem attrStepSpec_render_more {a : Attr} (h : WFAttr a) (rest : Str) (m : AttrMap) :
    attrStepSpec (renderAttr a ++ ',' :: rest) m = .ok (m.insert a.1 a.2.raw, some rest) := by
  obtain ⟨k, v⟩ := a
  obtain ⟨hk, hs, hv⟩ := h
  simp only at hk hs hv
  cases v with
  | quoted s =>
    simp only at hv
    simp only [renderAttr, AttrVal.render, attrStepSpec, List.append_assoc, List.cons_append, cutSpec_append _ hk,
      trimLeftSpaces_id hs, attrQuoted, AttrVal.raw, if_true]
    rw [show s ++ ('"' :: ([] ++ ',' :: rest)) = s ++ '"' :: (',' :: rest) by simp]
    simp [cutSpec_append _ hv]
  | unquoted s =>
    simp only at hv
    simp only [renderAttr, AttrVal.render, attrStepSpec, List.append_assoc, List.cons_append, cutSpec_append _ hk,
      trimLeftSpaces_id hs, AttrVal.raw]
    cases s with
    | nil => simp [attrUnquoted, cutSpec, indexByte]
    | cons q s' =>
      have hq : q ≠ '"' := by intro e; apply hv.2; simp [e]
      simp only [List.cons_append, hq, if_false, attrUnquoted]
      have := cutSpec_append (c := ',') (a := q :: s') rest hv.1
      simp only [List.cons_append] at this
      simp [this]

/-- one tokenizer step on the last attribute of the text -/
theorem attrStepSpec_render_last {a : Attr} (h : WFAttr a) (m : AttrMap) :
    attrStepSpec (renderAttr a) m =
      .ok (m.insert a.1 a.2.raw, match a.2 with | .quoted _ => some [] | .unquoted _ => none) := by
  obtain ⟨k, v⟩ := a
  obtain ⟨hk, hs, hv⟩ := h
  simp only at hk hs hv
  cases v with
  | quoted s =>
    simp only at hv
    simp only [renderAttr, AttrVal.render, attrStepSpec, cutSpec_append _ hk,
      trimLeftSpaces_id hs, attrQuoted, AttrVal.raw, if_true]
    simp [cutSpec_append _ hv]
  | unquoted s =>
    simp only at hv
    simp only [renderAttr, AttrVal.render, attrStepSpec, cutSpec_append _ hk,
      trimLeftSpaces_id hs, AttrVal.raw]
    cases s with
    | nil => simp [attrUnquoted, cutSpec, indexByte]
    | cons q s' =>
      have hq : q ≠ '"' := by intro e; apply hv.2; simp [e]
      simp only [hq, if_false, attrUnquoted]
      simp [cutSpec_none hv.1]

theorem renderAttr_ne_nil (a : Attr) : renderAttr a ≠ [] := by
  simp [renderAttr]

theorem parseAttrsLoop_render (as : List Attr) (h : WFAttrs as) (m : AttrMap) :
    parseAttrsLoop (renderAttrs as) m = .ok (as.foldl (fun m a => m.insert a.1 a.2.raw) m) := by
  induction as generalizing m with
  | nil => simp [renderAttrs, parseAttrsLoop_nil]
  | cons a r ih =>
    have ha : WFAttr a := h a (by simp)
    have hr : WFAttrs r := fun x hx => h x (by simp [hx])
    cases r with
    | nil =>
      simp only [renderAttrs, List.foldl]
      cases hra : renderAttr a with
      | nil => exact absurd hra (renderAttr_ne_nil a)
      | cons c cs =>
        rw [parseAttrsLoop_cons, ← hra, attrStepSpec_render_last ha]
        cases a.2 <;> simp [parseAttrsLoop_nil]
    | cons b r' =>
      rw [renderAttrs_cons_cons]
      cases hra : renderAttr a with
      | nil => exact absurd hra (renderAttr_ne_nil a)
      | cons c cs =>
        rw [List.cons_append, parseAttrsLoop_cons, ← List.cons_append, ← hra, attrStepSpec_render_more ha]
        simp only [List.foldl]
        exact ih hr _

/-- C14 `attrs_roundtrip`: the tokenizer inverts the rendering. -/
theorem parseAttrs_render (as : List Attr) (h : WFAttrs as) : parseAttrs (renderAttrs as) = .ok (toMap as) :=
  parseAttrsLoop_render as h []

/-! ## The map: lookups, last-wins, order-insensitivity -/

theorem AttrMap.get_nil (k : Str) : AttrMap.get [] k = none := rfl

theorem AttrMap.get_cons (k k' v' : Str) (m : AttrMap) :
    AttrMap.get ((k', v') :: m) k = if k = k' then some v' else AttrMap.get m k := by
  unfold AttrMap.get
  by_cases h : k = k'
  · subst h; simp [List.lookup]
  · have : (k == k') = false := by simpa using h
    simp [List.lookup, this, h]

theorem AttrMap.get_insert (m : AttrMap) (k v k' : Str) :
    (m.insert k v).get k' = if k' = k then some v else m.get k' := by
  induction m with
  | nil => simp [AttrMap.insert, AttrMap.get_cons, AttrMap.get_nil]
  | cons x m ih =>
    obtain ⟨k0, v0⟩ := x
    simp only [AttrMap.insert]
    by_cases h0 : k0 = k
    · subst h0
      simp only [if_true, AttrMap.get_cons]
      by_cases h1 : k' = k0 <;> simp [h1]
    · simp only [h0, if_false, AttrMap.get_cons, ih]
      by_cases h1 : k' = k0
      · subst h1
        have : ¬ k' = k := h0
        simp [this]
      · simp [h1]

/-- value of the LAST attribute with key `k` -/
def lastVal (k : Str) (as : List Attr) : Option Str :=
  as.foldl (fun acc a => if a.1 = k then some a.2.raw else acc) none

theorem get_foldl_insert (as : List Attr) (m : AttrMap) (k : Str) :
    (as.foldl (fun m a => m.insert a.1 a.2.raw) m).get k =
      as.foldl (fun acc a => if a.1 = k then some a.2.raw else acc) (m.get k) := by
  induction as generalizing m with
  | nil => rfl
  | cons a r ih =>
    simp only [List.foldl]
    rw [ih, AttrMap.get_insert]
    by_cases h : k = a.1
    · subst h; simp
    · have : ¬ a.1 = k := fun e => h e.symm
      simp [h, this]

/-- duplicate key: last wins -/
theorem get_toMap (as : List Attr) (k : Str) : (toMap as).get k = lastVal k as := by
  unfold toMap lastVal
  rw [get_foldl_insert]; rfl

theorem foldl_lastVal_not_mem {k : Str} {as : List Attr} (h : k ∉ as.map (·.1)) (acc : Option Str) :
    as.foldl (fun acc a => if a.1 = k then some a.2.raw else acc) acc = acc := by
  induction as generalizing acc with
  | nil => rfl
  | cons a r ih =>
    have h1 : ¬ a.1 = k := by intro e; apply h; simp [e]
    have h2 : k ∉ r.map (·.1) := by intro e; apply h; simp at e ⊢; exact Or.inr e
    simp only [List.foldl, h1, if_false]
    exact ih h2 acc

theorem foldl_lastVal_mem {a : Attr} {as : List Attr} (hn : (as.map (·.1)).Nodup) (ha : a ∈ as) (acc : Option Str) :
    as.foldl (fun acc x => if x.1 = a.1 then some x.2.raw else acc) acc = some a.2.raw := by
  induction as generalizing acc with
  | nil => cases ha
  | cons x r ih =>
    simp only [List.map_cons, List.nodup_cons] at hn
    simp only [List.foldl]
    rcases List.mem_cons.mp ha with e | hr
    · subst e
      simp only [if_true]
      exact foldl_lastVal_not_mem hn.1 _
    · exact ih hn.2 hr _

theorem lastVal_not_mem {k : Str} {as : List Attr} (h : k ∉ as.map (·.1)) : lastVal k as = none :=
  foldl_lastVal_not_mem h none

theorem lastVal_mem {a : Attr} {as : List Attr} (hn : (as.map (·.1)).Nodup) (ha : a ∈ as) :
    lastVal a.1 as = some a.2.raw :=
  foldl_lastVal_mem hn ha none

/-- C14 `attrs_perm`: with distinct keys the decoded map does not depend on the order of the attributes. -/
theorem toMap_perm {as bs : List Attr} (hp : as.Perm bs) (hn : (as.map (·.1)).Nodup) (k : Str) :
    (toMap as).get k = (toMap bs).get k := by
  rw [get_toMap, get_toMap]
  have hnb : (bs.map (·.1)).Nodup := (hp.map (·.1)).nodup_iff.mp hn
  by_cases hk : k ∈ as.map (·.1)
  · obtain ⟨a, ha, rfl⟩ := List.mem_map.mp hk
    rw [lastVal_mem hn ha, lastVal_mem hnb (hp.mem_iff.mp ha)]
  · have hkb : k ∉ bs.map (·.1) := fun e => hk ((hp.map (·.1)).mem_iff.mpr e)
    rw [lastVal_not_mem hk, lastVal_not_mem hkb]

/-! ## Decimal integers -/

theorem digitVal_digitChar : ∀ d, d < 10 → digitVal (digitChar d) = d := by decide
theorem isDigit_digitChar : ∀ d, d < 10 → isDigit (digitChar d) = true := by decide

theorem natDigitsAux_fuel (f1 f2 n : Nat) (acc : Str) (h1 : n < f1) (h2 : n < f2) :
    natDigitsAux f1 n acc = natDigitsAux f2 n acc := by
  induction f1 generalizing f2 n acc with
  | zero => omega
  | succ f1 ih =>
    cases f2 with
    | zero => omega
    | succ f2 =>
      simp only [natDigitsAux]
      split
      · rfl
      · apply ih <;> omega

theorem natDigitsAux_acc (f n : Nat) (acc : Str) (h : n < f) :
    natDigitsAux f n acc = natDigitsAux f n [] ++ acc := by
  induction f generalizing n acc with
  | zero => omega
  | succ f ih =>
    simp only [natDigitsAux]
    split
    · simp
    · rw [ih (n / 10) (digitChar (n % 10) :: acc) (by omega), ih (n / 10) [digitChar (n % 10)] (by omega)]
      simp

theorem natToDigits_lt {n : Nat} (h : n < 10) : natToDigits n = [digitChar n] := by
  simp [natToDigits, natDigitsAux, h]

theorem natToDigits_ge {n : Nat} (h : ¬ n < 10) : natToDigits n = natToDigits (n / 10) ++ [digitChar (n % 10)] := by
  have e1 : natToDigits n = natDigitsAux n (n / 10) [digitChar (n % 10)] := by
    simp [natToDigits, natDigitsAux, h]
  have e2 : natToDigits (n / 10) = natDigitsAux (n / 10 + 1) (n / 10) [] := rfl
  rw [e1, e2, natDigitsAux_acc _ _ _ (by omega)]
  rw [natDigitsAux_fuel n (n / 10 + 1) (n / 10) [] (by omega) (by omega)]

theorem digitsToNat_append_single (xs : Str) (c : Char) : digitsToNat (xs ++ [c]) = 10 * digitsToNat xs + digitVal c := by
  simp [digitsToNat, List.foldl_append]

theorem digitsToNat_natToDigits (n : Nat) : digitsToNat (natToDigits n) = n := by
  induction n using Nat.strongRecOn with
  | _ n ih =>
    by_cases h : n < 10
    · rw [natToDigits_lt h]; simp [digitsToNat, digitVal_digitChar n h]
    · rw [natToDigits_ge h, digitsToNat_append_single, ih (n / 10) (by omega), digitVal_digitChar _ (Nat.mod_lt _ (by omega))]
      omega

theorem natToDigits_all_digit (n : Nat) : (natToDigits n).all isDigit = true := by
  induction n using Nat.strongRecOn with
  | _ n ih =>
    by_cases h : n < 10
    · rw [natToDigits_lt h]; simp [isDigit_digitChar n h]
    · rw [natToDigits_ge h]
      simp [ih (n / 10) (by omega), isDigit_digitChar _ (Nat.mod_lt n (by omega : 0 < 10))]

theorem natToDigits_ne_nil (n : Nat) : natToDigits n ≠ [] := by
  by_cases h : n < 10
  · rw [natToDigits_lt h]; simp
  · rw [natToDigits_ge h]; simp

theorem parseUint_natToDigits {bits n : Nat} (h : n < 2 ^ bits) : parseUint bits (natToDigits n) = .ok n := by
  unfold parseUint
  cases hd : natToDigits n with
  | nil => exact absurd hd (natToDigits_ne_nil n)
  | cons c cs =>
    simp only
    rw [← hd, natToDigits_all_digit, digitsToNat_natToDigits]
    simp [h]

theorem formatInt_ofNat (n : Nat) : formatInt (n : Int) = natToDigits n := by
  simp [formatInt]


/-! ## More on `IndexByte`, `ReadLine` on well-formed lines -/

theorem indexByte_some_spec {c : Char} {v : Str} {i : Nat} (h : indexByte c v = some i) :
    v = v.take i ++ c :: v.drop (i + 1) ∧ c ∉ v.take i := by
  induction v generalizing i with
  | nil => simp [indexByte] at h
  | cons x xs ih =>
    simp only [indexByte] at h
    by_cases hx : x = c
    · subst hx; simp at h; subst h; simp
    · simp only [hx, if_false] at h
      cases hj : indexByte c xs with
      | none => simp [hj] at h
      | some j =>
        simp [hj] at h
        subst h
        have := ih hj
        constructor
        · rw [List.take_succ_cons, List.drop_succ_cons, List.cons_append, ← this.1]
        · rw [List.take_succ_cons]
          intro hm
          rcases List.mem_cons.mp hm with e | e
          · exact hx e.symm
          · exact this.2 e

theorem indexByte_none_spec {c : Char} {v : Str} (h : indexByte c v = none) : c ∉ v := by
  induction v with
  | nil => simp
  | cons x xs ih =>
    simp only [indexByte] at h
    by_cases hx : x = c
    · simp [hx] at h
    · simp only [hx, if_false] at h
      cases hj : indexByte c xs with
      | none =>
        simp only [List.mem_cons, not_or]
        exact ⟨fun e => hx e.symm, ih hj⟩
      | some j => simp [hj] at h

theorem readLineSpec_line {l : Str} (rest : Str) (h1 : '\n' ∉ l) (h2 : l.getLast? ≠ some '\r') :
    readLineSpec (l ++ '\n' :: rest) = (l, rest) := by
  simp [readLineSpec, indexByte_append_of_not_mem rest h1, h2]

theorem readLineSpec_crlf {l : Str} (rest : Str) (h1 : '\n' ∉ l) :
    readLineSpec (l ++ '\r' :: '\n' :: rest) = (l, rest) := by
  have h : '\n' ∉ l ++ ['\r'] := by simp [h1]
  have := indexByte_append_of_not_mem rest h
  simp only [List.append_assoc, List.cons_append, List.nil_append] at this
  have e1 : List.take (l.length + 1) (l ++ '\r' :: '\n' :: rest) = l ++ ['\r'] := by
    rw [show l ++ '\r' :: '\n' :: rest = (l ++ ['\r']) ++ '\n' :: rest by simp]
    rw [List.take_append_of_le_length (by simp)]
    exact List.take_of_length_le (by simp)
  have e2 : List.drop (l.length + 1 + 1) (l ++ '\r' :: '\n' :: rest) = rest := by
    rw [show l ++ '\r' :: '\n' :: rest = (l ++ ['\r', '\n']) ++ rest by simp]
    rw [List.drop_append_of_le_length (by simp)]
    rw [List.drop_of_length_le (by simp)]; rfl
  simp only [readLineSpec, this, List.length_append, List.length_cons, List.length_nil, e1, e2]
  simp

theorem readLineSpec_last {l : Str} (h1 : '\n' ∉ l) : readLineSpec l = (l, []) := by
  simp [readLineSpec, indexByte_none_of_not_mem h1]

theorem not_mem_dropLast {c : Char} {l : Str} (h : c ∉ l) : c ∉ l.dropLast :=
  fun e => h (List.dropLast_subset l e)

theorem readLineSpec_fst_no_nl (s : Str) : '\n' ∉ (readLineSpec s).1 := by
  unfold readLineSpec
  cases h : indexByte '\n' s with
  | none => exact indexByte_none_spec h
  | some i =>
    have := (indexByte_some_spec h).2
    simp only
    split
    · exact not_mem_dropLast this
    · exact this


/-! ## `strings.Split` / `strings.Join` with a one-byte separator -/

theorem splitByte_ne_nil (c : Char) (v : Str) : splitByte c v ≠ [] := by
  induction v with
  | nil => simp [splitByte]
  | cons x xs ih =>
    simp only [splitByte]
    split
    · simp
    · split
      · simp
      · simp

theorem splitByte_not_mem {c : Char} {a : Str} (h : c ∉ a) : splitByte c a = [a] := by
  induction a with
  | nil => rfl
  | cons x xs ih =>
    have hx : x ≠ c := by intro e; apply h; simp [e]
    have hxs : c ∉ xs := by intro e; apply h; simp [e]
    simp [splitByte, hx, ih hxs]

theorem splitByte_append {c : Char} {a : Str} (b : Str) (h : c ∉ a) :
    splitByte c (a ++ c :: b) = a :: splitByte c b := by
  induction a with
  | nil => simp [splitByte]
  | cons x xs ih =>
    have hx : x ≠ c := by intro e; apply h; simp [e]
    have hxs : c ∉ xs := by intro e; apply h; simp [e]
    simp [splitByte, hx, ih hxs]

theorem splitByte_joinByte {c : Char} {cs : List Str} (hne : cs ≠ []) (h : ∀ x ∈ cs, c ∉ x) :
    splitByte c (joinByte c cs) = cs := by
  induction cs with
  | nil => exact absurd rfl hne
  | cons a r ih =>
    cases r with
    | nil => simp [joinByte, splitByte_not_mem (h a (by simp))]
    | cons b r' =>
      simp only [joinByte]
      rw [splitByte_append _ (h a (by simp)), ih (by simp) (fun x hx => h x (by simp [hx]))]

theorem splitByte_length_ge_two (c : Char) (a b : Str) : 2 ≤ (splitByte c (a ++ c :: b)).length := by
  induction a with
  | nil =>
    simp only [List.nil_append, splitByte, if_true, List.length_cons]
    have := splitByte_ne_nil c b
    cases hs : splitByte c b with
    | nil => exact absurd hs this
    | cons _ _ => simp
  | cons x xs ih =>
    simp only [List.cons_append, splitByte]
    split
    · have := splitByte_ne_nil c (xs ++ c :: b)
      cases hs : splitByte c (xs ++ c :: b) with
      | nil => exact absurd hs this
      | cons _ _ => simp
    · split
      · rename_i hnil; rw [hnil] at ih; simp at ih
      · rename_i l ls hcons; rw [hcons] at ih; simpa using ih

theorem joinByte_no_mem {c d : Char} {cs : List Str} (hd : d ≠ c) (h : ∀ x ∈ cs, d ∉ x) : d ∉ joinByte c cs := by
  induction cs with
  | nil => simp [joinByte]
  | cons a r ih =>
    cases r with
    | nil => simpa [joinByte] using h a (by simp)
    | cons b r' =>
      simp only [joinByte, List.mem_append, List.mem_cons, not_or]
      exact ⟨h a (by simp), hd, ih (fun x hx => h x (by simp [hx]))⟩

/-! ## Panic freedom of the tokenizer -/

theorem attrStepSpec_err {v : Str} {m : AttrMap} {e : Err} (h : attrStepSpec v m = .error e) : e ≠ .panic := by
  unfold attrStepSpec at h
  split at h
  · cases h; simp
  · split at h
    · unfold attrUnquoted at h
      split at h <;> cases h
    · split at h
      · unfold attrQuoted at h
        split at h
        · cases h; simp
        · split at h
          · cases h
          · split at h
            · cases h; simp
            · cases h
      · unfold attrUnquoted at h
        split at h <;> cases h

theorem parseAttrsLoop_noPanic (n : Nat) : ∀ (v : Str) (m : AttrMap), v.length ≤ n → parseAttrsLoop v m ≠ .error .panic := by
  induction n with
  | zero =>
    intro v m hv
    have : v = [] := by cases v with | nil => rfl | cons _ _ => simp at hv
    subst this; rw [parseAttrsLoop_nil]; simp
  | succ n ih =>
    intro v m hv
    cases v with
    | nil => rw [parseAttrsLoop_nil]; simp
    | cons c cs =>
      rw [parseAttrsLoop_cons]
      split
      · rename_i e he
        intro h; cases h
        exact attrStepSpec_err he rfl
      · simp
      · rename_i m' rest he
        have hs : attrStep (c :: cs) m = .ok (m', some rest) := by rw [attrStep_eq]; exact he
        have := attrStep_shrinks hs
        exact ih rest m' (by simp at hv this ⊢; omega)

theorem parseAttrs_noPanic (v : Str) : parseAttrs v ≠ .error .panic :=
  parseAttrsLoop_noPanic v.length v [] (Nat.le_refl _)

theorem parseUint_err {bits : Nat} {s : Str} {e : Err} (h : parseUint bits s = .error e) : e = .num := by
  unfold parseUint at h
  split at h
  · cases h; rfl
  · split at h
    · simp only at h
      split at h <;> cases h; rfl
    · cases h; rfl

theorem parseFloat_err {s : Str} {e : Err} (h : parseFloat s = .error e) : e = .num := by
  unfold parseFloat at h
  split at h
  · split at h <;> cases h; rfl
  · split at h
    · cases h; rfl
    · split at h
      · split at h <;> cases h; rfl
      · cases h; rfl

theorem durUnmarshal_err {s : Str} {e : Err} (h : durUnmarshal s = .error e) : e = .num := by
  unfold durUnmarshal at h
  simp only [bind, Except.bind] at h
  split at h
  · cases h; rename_i he; exact parseFloat_err he
  · cases h


/-! ## Characters of the numeric texts -/

theorem digit_ne {c d : Char} (h : isDigit c = true) (hd : isDigit d = false) : c ≠ d := by
  intro e; subst e; simp [h] at hd

theorem natToDigits_isDigit {n : Nat} {c : Char} (h : c ∈ natToDigits n) : isDigit c = true :=
  List.all_eq_true.mp (natToDigits_all_digit n) c h

theorem not_mem_natToDigits {n : Nat} {d : Char} (hd : isDigit d = false) : d ∉ natToDigits n :=
  fun h => digit_ne (natToDigits_isDigit h) hd rfl

theorem natToDigits_head {n : Nat} {d : Char} (hd : isDigit d = false) : (natToDigits n).head? ≠ some d := by
  intro h
  have : d ∈ natToDigits n := List.mem_of_mem_head? (by rw [h]; rfl)
  exact not_mem_natToDigits hd this

theorem natToDigits_getLast {n : Nat} {d : Char} (hd : isDigit d = false) : (natToDigits n).getLast? ≠ some d := by
  intro h
  have : d ∈ natToDigits n := List.mem_of_getLast? h
  exact not_mem_natToDigits hd this

theorem formatInt_nonneg {i : Int} (h : 0 ≤ i) : formatInt i = natToDigits i.toNat := by
  unfold formatInt
  have : ¬ i < 0 := by omega
  simp only [this, if_false]
  congr 1
  omega

theorem parseUint_formatInt {bits : Nat} {i : Int} (h0 : 0 ≤ i) (h1 : i < 2 ^ bits) :
    parseUint bits (formatInt i) = .ok i.toNat := by
  rw [formatInt_nonneg h0]
  apply parseUint_natToDigits
  have : (i.toNat : Int) = i := Int.toNat_of_nonneg h0
  have h2 : ((2 ^ bits : Nat) : Int) = 2 ^ bits := by simp
  omega

/-- every character of a fixed-point decimal is a digit or the point -/
theorem decFixed_chars {p N : Nat} {c : Char} (h : c ∈ F64.decFixed p N) : isDigit c = true ∨ c = '.' := by
  unfold F64.decFixed F64.padLeft at h
  simp only [List.mem_append, List.mem_cons, List.mem_replicate] at h
  rcases h with h | h | h | h
  · exact Or.inl (natToDigits_isDigit h)
  · exact Or.inr h
  · rw [h.2]; exact Or.inl (by decide)
  · exact Or.inl (natToDigits_isDigit h)

theorem decInt_chars {p : Nat} {q : Int} {c : Char} (h : c ∈ decInt p q) : isDigit c = true ∨ c = '.' ∨ c = '-' := by
  unfold decInt at h
  rcases List.mem_append.mp h with h | h
  · split at h
    · simp at h; exact Or.inr (Or.inr h)
    · cases h
  · rcases decFixed_chars h with h | h
    · exact Or.inl h
    · exact Or.inr (Or.inl h)

/-- a character that is not a digit, `.` or `-` does not occur in a decimal text -/
theorem not_mem_decInt {p : Nat} {q : Int} {d : Char} (h1 : isDigit d = false) (h2 : d ≠ '.') (h3 : d ≠ '-') :
    d ∉ decInt p q := by
  intro h
  rcases decInt_chars h with h | h | h
  · simp [h] at h1
  · exact h2 h
  · exact h3 h

theorem decInt_head {p : Nat} {q : Int} {d : Char} (h1 : isDigit d = false) (h2 : d ≠ '.') (h3 : d ≠ '-') :
    (decInt p q).head? ≠ some d := by
  intro h
  exact not_mem_decInt h1 h2 h3 (List.mem_of_mem_head? (by rw [h]; rfl))

theorem decInt_getLast {p : Nat} {q : Int} {d : Char} (h1 : isDigit d = false) (h2 : d ≠ '.') (h3 : d ≠ '-') :
    (decInt p q).getLast? ≠ some d := by
  intro h
  exact not_mem_decInt h1 h2 h3 (List.mem_of_getLast? h)


/-- the characters `FormatFloat(_, 'f', prec)` can produce -/
def floatTextChars : Str := c!"NaN+Inf-."

theorem fmtFixed_chars {p : Nat} {f : F64} {c : Char} (h : c ∈ F64.fmtFixed p f) :
    isDigit c = true ∨ c ∈ floatTextChars := by
  unfold F64.fmtFixed at h
  split at h
  · right; simp [floatTextChars] at h ⊢; rcases h with h | h | h <;> simp [h]
  · right; simp [floatTextChars] at h ⊢; rcases h with h | h | h | h <;> simp [h]
  · right; simp [floatTextChars] at h ⊢; rcases h with h | h | h | h <;> simp [h]
  · simp only at h
    rcases List.mem_append.mp h with h | h
    · split at h
      · right; simp [floatTextChars] at h ⊢; simp [h]
      · cases h
    · rcases decFixed_chars h with h | h
      · exact Or.inl h
      · right; simp [floatTextChars, h]

theorem not_mem_fmtFixed {p : Nat} {f : F64} {d : Char} (h1 : isDigit d = false) (h2 : d ∉ floatTextChars) :
    d ∉ F64.fmtFixed p f := by
  intro h
  rcases fmtFixed_chars h with h | h
  · simp [h] at h1
  · exact h2 h

theorem fmtFixed_head {p : Nat} {f : F64} {d : Char} (h1 : isDigit d = false) (h2 : d ∉ floatTextChars) :
    (F64.fmtFixed p f).head? ≠ some d := by
  intro h
  exact not_mem_fmtFixed h1 h2 (List.mem_of_mem_head? (by rw [h]; rfl))

theorem not_mem_durFmt5 {d : Int} {c : Char} (h1 : isDigit c = false) (h2 : c ∉ floatTextChars) : c ∉ durFmt5 d :=
  not_mem_fmtFixed h1 h2


/-! ## `ParseFloat` on fixed-point decimal texts (syntactic part; no numerics) -/

/-- one digit of the mantissa scan of `readFloat` -/
def digitStep (st : RFState) (c : Char) : RFState :=
  if c = '0' ∧ st.nd = 0 then { st with sawdigits := true, dp := st.dp - 1 }
  else { st with sawdigits := true, nd := st.nd + 1, mant := st.mant * 10 + digitVal c }

theorem isDigit_not_special {c : Char} (h : isDigit c = true) : c ≠ '_' ∧ c ≠ '.' := 
  ⟨digit_ne h (by decide), digit_ne h (by decide)⟩

theorem rfScan_digits (ds rest : Str) (st : RFState) (h : ∀ c ∈ ds, isDigit c = true) :
    rfScan false (ds ++ rest) st = rfScan false rest (ds.foldl digitStep st) := by
  induction ds generalizing st with
  | nil => rfl
  | cons c cs ih =>
    have hc := h c (by simp)
    obtain ⟨h1, h2⟩ := isDigit_not_special hc
    simp only [List.cons_append, rfScan, h1, h2, if_false, hc, if_true, List.foldl]
    by_cases hz : c = '0' ∧ st.nd = 0
    · simp only [hz, and_self, if_true]
      rw [ih _ (fun d hd => h d (by simp [hd]))]
      simp [digitStep, hz]
    · simp only [hz, if_false]
      rw [ih _ (fun d hd => h d (by simp [hd]))]
      simp [digitStep, hz]

/-- the invariant "no digit counted yet ⇒ mantissa still 0" -/
def RFInv (st : RFState) : Prop := st.nd = 0 → st.mant = 0

theorem digitStep_inv {st : RFState} (c : Char) (h : RFInv st) : RFInv (digitStep st c) := by
  unfold digitStep RFInv at *
  split
  · simpa using h
  · simp

theorem digitStep_mant {st : RFState} (c : Char) (h : RFInv st) :
    (digitStep st c).mant = st.mant * 10 + digitVal c := by
  unfold digitStep
  split
  · rename_i hz
    have : digitVal c = 0 := by rw [hz.1]; decide
    simp [h hz.2, this]
  · rfl

theorem digitStep_dpnd (st : RFState) (c : Char) :
    (digitStep st c).dp - (digitStep st c).nd = st.dp - st.nd - 1 := by
  unfold digitStep
  split
  · simp; omega
  · simp; omega

theorem digitStep_flags (st : RFState) (c : Char) :
    (digitStep st c).sawdot = st.sawdot ∧ (digitStep st c).underscores = st.underscores ∧ (digitStep st c).sawdigits = true := by
  unfold digitStep
  split <;> simp

theorem foldl_digitStep (ds : Str) (st : RFState) (h : RFInv st) :
    RFInv (ds.foldl digitStep st) ∧
    (ds.foldl digitStep st).mant = ds.foldl (fun a c => 10 * a + digitVal c) st.mant ∧
    (ds.foldl digitStep st).dp - (ds.foldl digitStep st).nd = st.dp - st.nd - ds.length ∧
    (ds.foldl digitStep st).sawdot = st.sawdot ∧ (ds.foldl digitStep st).underscores = st.underscores ∧
    (ds ≠ [] → (ds.foldl digitStep st).sawdigits = true) := by
  induction ds generalizing st with
  | nil => simp [h]
  | cons c cs ih =>
    simp only [List.foldl]
    obtain ⟨i1, i2, i3, i4, i5, i6⟩ := ih (digitStep st c) (digitStep_inv c h)
    refine ⟨i1, ?_, ?_, ?_, ?_, ?_⟩
    · rw [i2, digitStep_mant c h]; congr 1; omega
    · rw [i3, digitStep_dpnd]; simp; omega
    · rw [i4, (digitStep_flags st c).1]
    · rw [i5, (digitStep_flags st c).2.1]
    · intro _
      cases cs with
      | nil => simp [(digitStep_flags st c).2.2]
      | cons d ds' => exact i6 (by simp)


theorem floatSpecial_digit {c : Char} (cs : Str) (h : isDigit c = true) : floatSpecial (c :: cs) = none := by
  unfold floatSpecial
  split
  · rfl
  · rename_i s' heq; injection heq with h1 _; subst h1; simp [isDigit] at h
  · rename_i s' heq; injection heq with h1 _; subst h1; simp [isDigit] at h
  · rename_i s' heq; injection heq with h1 _; subst h1; simp [isDigit] at h
  · rename_i s' heq; injection heq with h1 _; subst h1; simp [isDigit] at h
  · rename_i s' heq; injection heq with h1 _; subst h1; simp [isDigit] at h
  · rename_i s' heq; injection heq with h1 _; subst h1; simp [isDigit] at h
  · rfl

theorem digitsToNat_eq_foldl (ds : Str) : digitsToNat ds = ds.foldl (fun a c => 10 * a + digitVal c) 0 := rfl

theorem foldl_digits_append (xs ys : Str) (a : Nat) :
    (xs ++ ys).foldl (fun a c => 10 * a + digitVal c) a = ys.foldl (fun a c => 10 * a + digitVal c) (xs.foldl (fun a c => 10 * a + digitVal c) a) :=
  List.foldl_append

theorem foldl_digits_acc (ds : Str) (a : Nat) :
    ds.foldl (fun a c => 10 * a + digitVal c) a = a * 10 ^ ds.length + digitsToNat ds := by
  induction ds generalizing a with
  | nil => simp [digitsToNat]
  | cons c cs ih =>
    simp only [List.foldl, List.length_cons, digitsToNat]
    rw [ih (10 * a + digitVal c), ih (10 * 0 + digitVal c)]
    simp only [digitsToNat, Nat.mul_zero, Nat.zero_add, Nat.pow_succ]
    rw [Nat.add_mul, Nat.add_assoc]
    congr 1
    rw [Nat.mul_comm 10 a, Nat.mul_assoc, Nat.mul_comm 10]

theorem digitsToNat_replicate_zero (n : Nat) (ds : Str) : digitsToNat (List.replicate n '0' ++ ds) = digitsToNat ds := by
  induction n with
  | zero => rfl
  | succ n ih =>
    rw [List.replicate_succ, List.cons_append]
    unfold digitsToNat at *
    simp only [List.foldl]
    have : 10 * 0 + digitVal '0' = 0 := by decide
    rw [this]; exact ih

theorem natToDigits_length (k : Nat) : ∀ n, n < 10 ^ (k + 1) → (natToDigits n).length ≤ k + 1 := by
  induction k with
  | zero =>
    intro n hn
    have : n < 10 := by simpa using hn
    rw [natToDigits_lt this]; simp
  | succ k ih =>
    intro n hn
    by_cases h : n < 10
    · rw [natToDigits_lt h]; simp
    · rw [natToDigits_ge h]
      have : n / 10 < 10 ^ (k + 1) := by
        rw [Nat.div_lt_iff_lt_mul (by decide)]
        calc n < 10 ^ (k + 1 + 1) := hn
          _ = 10 ^ (k + 1) * 10 := by rw [Nat.pow_succ]
      have := ih (n / 10) this
      simp; omega

theorem padLeft_length {p n : Nat} (h : n < 10 ^ p) (hp : 1 ≤ p) : (F64.padLeft p (natToDigits n)).length = p := by
  unfold F64.padLeft
  have := natToDigits_length (p - 1) n (by rw [Nat.sub_add_cancel hp]; exact h)
  rw [Nat.sub_add_cancel hp] at this
  simp; omega

theorem padLeft_val (p n : Nat) : digitsToNat (F64.padLeft p (natToDigits n)) = n := by
  unfold F64.padLeft
  rw [digitsToNat_replicate_zero, digitsToNat_natToDigits]

theorem padLeft_isDigit {p n : Nat} {c : Char} (h : c ∈ F64.padLeft p (natToDigits n)) : isDigit c = true := by
  unfold F64.padLeft at h
  rcases List.mem_append.mp h with h | h
  · rw [(List.mem_replicate.mp h).2]; decide
  · exact natToDigits_isDigit h

/-- the mantissa scan of `readFloat` on a fixed-point decimal text -/
theorem rfScan_decFixed {p N : Nat} (hp : 1 ≤ p) :
    ∃ st : RFState, rfScan false (F64.decFixed p N) {} = (st, []) ∧ st.mant = N ∧ st.dp - st.nd = -(p : Int) ∧
      st.sawdot = true ∧ st.sawdigits = true ∧ st.underscores = false := by
  unfold F64.decFixed
  have hb : N % 10 ^ p < 10 ^ p := Nat.mod_lt _ (Nat.pos_of_ne_zero (by simp))
  rw [rfScan_digits _ _ _ (fun c hc => natToDigits_isDigit hc)]
  obtain ⟨i1, i2, i3, i4, i5, i6⟩ := foldl_digitStep (natToDigits (N / 10 ^ p)) {} (by intro _; rfl)
  generalize hst1 : (natToDigits (N / 10 ^ p)).foldl digitStep {} = st1 at *
  have hdot : st1.sawdot = false := by rw [i4]
  simp only [rfScan, show ('.' : Char) ≠ '_' by decide, if_false, if_true, hdot, Bool.false_eq_true]
  have e : F64.padLeft p (natToDigits (N % 10 ^ p)) = F64.padLeft p (natToDigits (N % 10 ^ p)) ++ [] := by simp
  rw [e, rfScan_digits _ _ _ (fun c hc => padLeft_isDigit hc)]
  have hinv2 : RFInv { st1 with sawdot := true, dp := st1.nd } := i1
  obtain ⟨j1, j2, j3, j4, j5, j6⟩ := foldl_digitStep (F64.padLeft p (natToDigits (N % 10 ^ p)))
    { st1 with sawdot := true, dp := st1.nd } hinv2
  refine ⟨_, rfl, ?_, ?_, ?_, ?_, ?_⟩
  · rw [j2]
    simp only
    rw [i2, foldl_digits_acc, foldl_digits_acc, padLeft_val, padLeft_length hb hp]
    simp only [Nat.zero_mul, Nat.zero_add, digitsToNat_natToDigits]
    exact Nat.div_add_mod' N (10 ^ p)
  · rw [j3, padLeft_length hb hp]; simp
  · rw [j4]
  · apply j6
    intro e0
    have := padLeft_length hb hp
    rw [e0] at this
    simp at this
    omega
  · rw [j5]; simp only; rw [i5]


theorem lowerByte_digit_or_dot {x : Char} (h : isDigit x = true ∨ x = '.') : lowerByte x ≠ 120 := by
  rcases h with h | h
  · -- digits are 48..57, | 0x20 gives 48..57
    unfold isDigit at h
    simp only [decide_eq_true_eq] at h
    have h1 : 48 ≤ x.toNat := by
      have := h.1; exact this
    have h2 : x.toNat ≤ 57 := by
      have := h.2; exact this
    unfold lowerByte
    intro e
    have : x.toNat ||| 32 < 64 := by
      apply Nat.or_lt_two_pow (n := 6) <;> omega
    omega
  · subst h; decide

/-- `readFloat` on a text that starts with a digit, contains digits and one point only -/
theorem readFloat_decFixed {p N : Nat} (hp : 1 ≤ p) :
    ∃ nd : Nat, readFloat (F64.decFixed p N) = some (scaleDec false N nd (-(p : Int)), []) := by
  obtain ⟨st, hscan, hm, hdp, hdot, hdig, hund⟩ := rfScan_decFixed (N := N) hp
  refine ⟨st.nd, ?_⟩
  have hchars : ∀ c ∈ F64.decFixed p N, isDigit c = true ∨ c = '.' := fun c hc => decFixed_chars hc
  cases hs : F64.decFixed p N with
  | nil => unfold F64.decFixed at hs; simp at hs
  | cons c cs =>
    rw [hs] at hscan hchars
    have hc : isDigit c = true := by
      have : c ∈ natToDigits (N / 10 ^ p) := by
        unfold F64.decFixed at hs
        cases hd : natToDigits (N / 10 ^ p) with
        | nil => exact absurd hd (natToDigits_ne_nil _)
        | cons d ds => rw [hd] at hs; simp at hs; rw [← hs.1]; simp
      exact natToDigits_isDigit this
    have hplus : c ≠ '+' := digit_ne hc (by decide)
    have hminus : c ≠ '-' := digit_ne hc (by decide)
    unfold readFloat
    split
    rename_i pr neg s1 heq
    split at heq
    · rename_i r h1; injection h1 with h1 _; exact absurd h1 hplus
    · rename_i r h1; injection h1 with h1 _; exact absurd h1 hminus
    · injection heq with hneg hs1
      subst hneg; subst hs1
      simp only
      split
      · rename_i x y r hx
        injection hx with hx1 hx2
        have hxc : isDigit x = true ∨ x = '.' := hchars x (by rw [hx2]; simp)
        simp only [lowerByte_digit_or_dot hxc, if_false, hscan, hdig, not_true_eq_false, hdot, if_true,
          Bool.false_eq_true, hund, false_or, false_and, hm, hdp]
      · simp only [hscan, hdig, not_true_eq_false, if_false, hdot, if_true,
          Bool.false_eq_true, hund, false_or, false_and, hm, hdp]


theorem scaleDec_neg_exp {N nd p : Nat} (hp : 1 ≤ p) (hp2 : p ≤ 330) :
    scaleDec false N nd (-(p : Int)) = F64.roundRat false N (10 ^ p) := by
  unfold scaleDec
  by_cases h0 : N = 0
  · subst h0; simp [F64.roundRat]
  · have h1 : ¬ (-(p : Int) > 310) := by omega
    have h2 : ¬ (-(p : Int) + (nd : Int) < -330) := by omega
    have h3 : ¬ (-(p : Int) ≥ 0) := by omega
    simp only [h0, if_false, h1, h2, h3]
    simp

/-- `ParseFloat` of a fixed-point decimal text `N · 10^-p` is the binary64 nearest to that number
    (overflow to ±Inf is `ErrRange`).  Purely syntactic: no property of the rounding is used. -/
theorem parseFloat_decFixed {p N : Nat} (hp : 1 ≤ p) (hp2 : p ≤ 330) :
    parseFloat (F64.decFixed p N) =
      match F64.roundRat false N (10 ^ p) with
      | .inf _ => .error .num
      | f => .ok f := by
  obtain ⟨nd, hrf⟩ := readFloat_decFixed (N := N) hp
  unfold parseFloat
  have hspec : floatSpecial (F64.decFixed p N) = none := by
    cases hs : F64.decFixed p N with
    | nil => unfold F64.decFixed at hs; simp at hs
    | cons c cs =>
      have hc : isDigit c = true := by
        have : c ∈ natToDigits (N / 10 ^ p) := by
          unfold F64.decFixed at hs
          cases hd : natToDigits (N / 10 ^ p) with
          | nil => exact absurd hd (natToDigits_ne_nil _)
          | cons d ds => rw [hd] at hs; simp at hs; rw [← hs.1]; simp
        exact natToDigits_isDigit this
      exact floatSpecial_digit cs hc
  rw [hspec, hrf, scaleDec_neg_exp hp hp2]
  simp only
  cases F64.roundRat false N (10 ^ p) <;> rfl


end Hls.Playlist
