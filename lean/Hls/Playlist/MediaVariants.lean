import Hls.Playlist.MediaExact
/-!
# Syntactic variants decode to the same value (C14, last clause; line level)

For ANY list of clean lines (in particular the lines of `marshal p`): LF vs CRLF line ends, a
missing final line terminator, and lines the dispatch chain ignores (unknown tags, comments,
blank lines) inserted anywhere do not change the result of `Media.unmarshal`.
-/
namespace Hls.Playlist.MP

/-- every line followed by CR LF -/
def unlinesCRLF : List Str → Str
  | [] => []
  | l :: ls => l ++ '\r' :: '\n' :: unlinesCRLF ls

/-- lines separated by LF, no terminator after the last one -/
def joinLF : List Str → Str
  | [] => []
  | [l] => l
  | l :: ls => l ++ '\n' :: joinLF ls

theorem readLineP_crlf {l : Str} (hl : Clean l) (rest : Str) : readLineP (l ++ '\r' :: '\n' :: rest) = (l, rest) := by
  unfold readLineP
  have hn : '\n' ∉ l ++ ['\r'] := by
    simp only [List.mem_append, List.mem_singleton, not_or]
    exact ⟨hl.1, by decide⟩
  have : l ++ '\r' :: '\n' :: rest = (l ++ ['\r']) ++ '\n' :: rest := by simp
  rw [this, cutP_append _ hn]
  simp

section
variable (C : Codec)

theorem loop_unlinesCRLF : ∀ (ls : List Str) (fuel : Nat) (st : St), (∀ l ∈ ls, Clean l) →
    (unlinesCRLF ls).length < fuel → loop C fuel st (unlinesCRLF ls) = ls.foldlM (step C) st
  | [], fuel, st, _, hf => by
    cases fuel with
    | zero => omega
    | succ f => simp [unlinesCRLF, loop, readLine_eq, readLineP_nil]
  | l :: ls, fuel, st, hc, hf => by
    cases fuel with
    | zero => omega
    | succ f =>
      have hl := hc l (by simp)
      have hrest : ∀ l' ∈ ls, Clean l' := fun l' h => hc l' (by simp [h])
      simp only [unlinesCRLF] at hf ⊢
      unfold loop
      rw [readLine_eq, readLineP_crlf hl]
      simp only [Res.ok_bind, List.foldlM_cons]
      split
      · rename_i h
        obtain ⟨h1, h2⟩ := h
        subst h1
        have : ls = [] := by
          cases ls with
          | nil => rfl
          | cons a b => simp [unlinesCRLF] at h2
        subst this
        simp [step_nil]
      · have hf' : (unlinesCRLF ls).length < f := by simp at hf; omega
        simp only [loop_unlinesCRLF ls f _ hrest hf']

theorem loop_joinLF : ∀ (ls : List Str) (fuel : Nat) (st : St), (∀ l ∈ ls, Clean l) →
    (joinLF ls).length + 1 < fuel → loop C fuel st (joinLF ls) = ls.foldlM (step C) st
  | [], fuel, st, _, hf => by
    cases fuel with
    | zero => omega
    | succ f => simp [joinLF, loop, readLine_eq, readLineP_nil]
  | [l], fuel, st, hc, hf => by
    have hl := hc l (by simp)
    obtain ⟨f, rfl⟩ : ∃ f, fuel = f + 2 := ⟨fuel - 2, by omega⟩
    simp only [joinLF]
    unfold loop
    rw [readLine_eq, readLineP_last hl]
    simp only [Res.ok_bind, List.foldlM_cons, List.foldlM_nil]
    split
    · rename_i h
      rw [h.1]
      simp [step_nil]
    · unfold loop
      simp [readLine_eq, readLineP_nil]
  | l :: l2 :: ls, fuel, st, hc, hf => by
    cases fuel with
    | zero => omega
    | succ f =>
      have hl := hc l (by simp)
      have hrest : ∀ l' ∈ l2 :: ls, Clean l' := fun l' h => hc l' (by simp [h])
      simp only [joinLF] at hf ⊢
      unfold loop
      rw [readLine_eq, readLineP_clean hl]
      simp only [Res.ok_bind, List.foldlM_cons]
      split
      · rename_i h
        obtain ⟨h1, h2⟩ := h
        subst h1
        -- the rest is empty only if it is the single empty line
        have hl2 : l2 = [] ∧ ls = [] := by
          cases ls with
          | nil => simp [joinLF] at h2; exact ⟨h2, rfl⟩
          | cons a b => simp [joinLF] at h2
        obtain ⟨rfl, rfl⟩ := hl2
        simp [step_nil]
      · have hf' : (joinLF (l2 :: ls)).length + 1 < f := by simp at hf; omega
        have := loop_joinLF (l2 :: ls) f
        simp only [List.foldlM_cons] at this
        simp only [this _ hrest hf']

theorem Media.unmarshal_unlinesCRLF (ls : List Str) (hc : ∀ l ∈ ls, Clean l) :
    Media.unmarshal C (unlinesCRLF (cs!"#EXTM3U" :: ls)) = (ls.foldlM (step C) {} >>= finish) := by
  unfold Media.unmarshal skipHeader
  have h0 : Clean cs!"#EXTM3U" := by constructor <;> decide
  simp only [unlinesCRLF]
  rw [readLine_eq, readLineP_crlf h0]
  simp only [Res.ok_bind, ne_eq, not_true_eq_false, ↓reduceIte, Res.pure_eq]
  rw [loop_unlinesCRLF C ls _ _ hc (by omega)]
  rfl

theorem Media.unmarshal_joinLF (l : Str) (ls : List Str) (hc : ∀ x ∈ l :: ls, Clean x) :
    Media.unmarshal C (joinLF (cs!"#EXTM3U" :: l :: ls)) = ((l :: ls).foldlM (step C) {} >>= finish) := by
  unfold Media.unmarshal skipHeader
  have h0 : Clean cs!"#EXTM3U" := by constructor <;> decide
  simp only [joinLF]
  rw [readLine_eq, readLineP_clean h0]
  simp only [Res.ok_bind, ne_eq, not_true_eq_false, ↓reduceIte, Res.pure_eq]
  -- `Media.unmarshal` gives `length + 1` units of fuel; one more than `loop_joinLF` asks for is not
  -- available, so run the generic lemma on the fuel-independent form
  have hfuel : ∀ (s : Str) (st : St) (f1 f2 : Nat), s.length < f1 → s.length < f2 → loop C f1 st s = loop C f2 st s := by
    intro s
    induction hn : s.length using Nat.strongRecOn generalizing s with
    | _ n ih =>
      intro st f1 f2 h1 h2
      cases f1 with
      | zero => omega
      | succ f1 =>
        cases f2 with
        | zero => omega
        | succ f2 =>
          unfold loop
          rw [readLine_eq]
          simp only [Res.ok_bind]
          split
          · rfl
          · rename_i hne
            have hs : s ≠ [] := by
              intro e; subst e; simp [readLineP_nil] at hne
            have hlt := readLineP_length hs
            cases hstep : step C st (readLineP s).1 with
            | ok st' =>
              simp only [Res.ok_bind]
              exact ih _ (by omega) _ rfl st' f1 f2 (by omega) (by omega)
            | err => rfl
            | panic => rfl
  rw [hfuel _ _ _ ((joinLF (l :: ls)).length + 2) (by omega) (by omega)]
  rw [loop_joinLF C (l :: ls) _ _ hc (by omega)]
  rfl

/-! ## lines that the dispatch chain ignores -/

/-- a line no `case` of the `switch` matches: unknown tags, comments, blank lines -/
def Ignorable (u : Str) : Prop := classify dispatch u = none

instance (u : Str) : Decidable (Ignorable u) := inferInstanceAs (Decidable (classify dispatch u = none))

theorem step_ignorable (st : St) {u : Str} (h : Ignorable u) : step C st u = .ok st := by
  unfold Ignorable at h
  simp [step, h]

/-- `b` is `a` with ignorable lines inserted anywhere -/
inductive Padded : List Str → List Str → Prop
  | nil : Padded [] []
  | keep (l : Str) {a b : List Str} : Padded a b → Padded (l :: a) (l :: b)
  | ins {u : Str} {a b : List Str} : Ignorable u → Padded a b → Padded a (u :: b)

theorem foldlM_padded {a b : List Str} (h : Padded a b) : ∀ st : St, b.foldlM (step C) st = a.foldlM (step C) st := by
  induction h with
  | nil => intro st; rfl
  | keep l _ ih =>
    intro st
    simp only [List.foldlM_cons]
    cases step C st l with
    | ok st' => simp only [Res.ok_bind]; exact ih st'
    | err => rfl
    | panic => rfl
  | ins hu _ ih =>
    intro st
    simp only [List.foldlM_cons, step_ignorable C st hu, Res.ok_bind]
    exact ih st

end
end Hls.Playlist.MP
