import Hls.Playlist.MediaGrammarAttrs
/-!
# The strict grammar accepts what `Media.marshal` writes — line level
-/
namespace Hls.Playlist.MG
open Hls.Playlist.MP

/-! ## `lineStep` on each kind of line -/

theorem mark_ok (st : GSt) (name : Str) (h : name ∉ st.once) : st.mark name = some { st with once := name :: st.once } := by
  have : st.once.contains name = false := by
    apply Bool.eq_false_iff.mpr
    intro hc
    exact h (List.contains_iff_mem.mp hc)
  simp [GSt.mark, h]

theorem ls_intTag (st : GSt) (name body : Str) (lit : Str)
    (hstep : lineStep L st (lit ++ body) = ((st.mark name).bind fun st => if isDecInt body then some st else none))
    (hn : name ∉ st.once) (hb : isDecInt body = true) :
    lineStep L st (lit ++ body) = some { st with once := name :: st.once } := by
  rw [hstep, mark_ok st name hn]
  simp [hb]

theorem ls_version (st : GSt) (body : Str) :
    lineStep L st (cs!"#EXT-X-VERSION:" ++ body) =
      ((st.mark cs!"#EXT-X-VERSION").bind fun st => if isDecInt body then some st else none) := by
  simp [lineStep, hasPfx, cutAt]
  cases st.mark cs!"#EXT-X-VERSION" <;> cases isDecInt body <;> simp

theorem ls_targetDuration (st : GSt) (body : Str) :
    lineStep L st (cs!"#EXT-X-TARGETDURATION:" ++ body) =
      ((st.mark cs!"#EXT-X-TARGETDURATION").bind fun st => if isDecInt body then some st else none) := by
  simp [lineStep, hasPfx, cutAt]
  cases st.mark cs!"#EXT-X-TARGETDURATION" <;> cases isDecInt body <;> simp

theorem ls_mediaSequence (st : GSt) (body : Str) (hs : st.segments = 0) :
    lineStep L st (cs!"#EXT-X-MEDIA-SEQUENCE:" ++ body) =
      ((st.mark cs!"#EXT-X-MEDIA-SEQUENCE").bind fun st => if isDecInt body then some st else none) := by
  simp [lineStep, hasPfx, cutAt]
  cases hm : st.mark cs!"#EXT-X-MEDIA-SEQUENCE" with
  | none => simp
  | some st' =>
    have : st'.segments = 0 := by
      simp only [GSt.mark] at hm
      split at hm
      · simp at hm
      · simp at hm; rw [← hm]; exact hs
    cases isDecInt body <;> simp [this]

theorem ls_discontinuitySequence (st : GSt) (body : Str) (hs : st.segments = 0) (hd : st.sawDisc = false) :
    lineStep L st (cs!"#EXT-X-DISCONTINUITY-SEQUENCE:" ++ body) =
      ((st.mark cs!"#EXT-X-DISCONTINUITY-SEQUENCE").bind fun st => if isDecInt body then some st else none) := by
  simp [lineStep, hasPfx, cutAt]
  cases hm : st.mark cs!"#EXT-X-DISCONTINUITY-SEQUENCE" with
  | none => simp
  | some st' =>
    have : st'.segments = 0 ∧ st'.sawDisc = false := by
      simp only [GSt.mark] at hm
      split at hm
      · simp at hm
      · simp at hm; rw [← hm]; exact ⟨hs, hd⟩
    cases isDecInt body <;> simp [this.1, this.2]

theorem ls_independent (st : GSt) :
    lineStep L st cs!"#EXT-X-INDEPENDENT-SEGMENTS" = st.mark cs!"#EXT-X-INDEPENDENT-SEGMENTS" := by
  simp [lineStep, hasPfx, cutAt]

theorem ls_endlist (st : GSt) : lineStep L st cs!"#EXT-X-ENDLIST" = st.mark cs!"#EXT-X-ENDLIST" := by
  simp [lineStep, hasPfx, cutAt]

theorem ls_allowCache (st : GSt) (v : Bool) :
    lineStep L st (cs!"#EXT-X-ALLOW-CACHE:" ++ (if v then cs!"YES" else cs!"NO")) = st.mark cs!"#EXT-X-ALLOW-CACHE" := by
  cases v <;> simp [lineStep, hasPfx, cutAt] <;> cases st.mark cs!"#EXT-X-ALLOW-CACHE" <;> simp

theorem ls_playlistType (st : GSt) (v : Str) (hv : v = cs!"EVENT" ∨ v = cs!"VOD") :
    lineStep L st (cs!"#EXT-X-PLAYLIST-TYPE:" ++ v) = st.mark cs!"#EXT-X-PLAYLIST-TYPE" := by
  rcases hv with rfl | rfl <;> simp [lineStep, hasPfx, cutAt] <;> cases st.mark cs!"#EXT-X-PLAYLIST-TYPE" <;> simp

theorem ls_start (st : GSt) (body : Str) (hb : checkAttrs L .start body = true) :
    lineStep L st (cs!"#EXT-X-START:" ++ body) = st.mark cs!"#EXT-X-START" := by
  simp [lineStep, hasPfx, cutAt, hb]

theorem ls_serverControl (st : GSt) (body : Str) (hb : checkAttrs L .serverControl body = true) :
    lineStep L st (cs!"#EXT-X-SERVER-CONTROL:" ++ body) = st.mark cs!"#EXT-X-SERVER-CONTROL" := by
  simp [lineStep, hasPfx, cutAt, hb]

theorem ls_partInf (st : GSt) (body : Str) (hb : checkAttrs L .partInf body = true) :
    lineStep L st (cs!"#EXT-X-PART-INF:" ++ body) = st.mark cs!"#EXT-X-PART-INF" := by
  simp [lineStep, hasPfx, cutAt, hb]

theorem ls_skip (st : GSt) (body : Str) (hb : checkAttrs L .skip body = true) (hs : st.segments = 0) :
    lineStep L st (cs!"#EXT-X-SKIP:" ++ body) = st.mark cs!"#EXT-X-SKIP" := by
  simp [lineStep, hasPfx, cutAt, hb]
  cases hm : st.mark cs!"#EXT-X-SKIP" with
  | none => simp
  | some st' =>
    have : st'.segments = 0 := by
      simp only [GSt.mark] at hm
      split at hm
      · simp at hm
      · simp at hm; rw [← hm]; exact hs
    simp [this]

theorem ls_map (st : GSt) (body : Str) (hb : checkAttrs L .map body = true) :
    lineStep L st (cs!"#EXT-X-MAP:" ++ body) = some st := by
  simp [lineStep, hasPfx, cutAt, hb]

theorem ls_key (st : GSt) (body : Str) (hb : checkAttrs L .key body = true) :
    lineStep L st (cs!"#EXT-X-KEY:" ++ body) = some st := by
  simp [lineStep, hasPfx, cutAt, hb]

theorem ls_part (st : GSt) (body : Str) (hb : checkAttrs L .part body = true) :
    lineStep L st (cs!"#EXT-X-PART:" ++ body) = some st := by
  simp [lineStep, hasPfx, cutAt, hb]

theorem ls_hint (st : GSt) (body : Str) (hb : checkAttrs L .preloadHint body = true)
    (ht : containsSub body cs!"TYPE=PART" = true) :
    lineStep L st (cs!"#EXT-X-PRELOAD-HINT:" ++ body) = st.mark cs!"#EXT-X-PRELOAD-HINT PART" := by
  simp [lineStep, hasPfx, cutAt, hb, ht]

theorem ls_disc (st : GSt) (h : st.disc = false) :
    lineStep L st cs!"#EXT-X-DISCONTINUITY" = some { st with disc := true, sawDisc := true } := by
  simp [lineStep, hasPfx, cutAt, h]

theorem ls_gap (st : GSt) (h : st.gap = false) : lineStep L st cs!"#EXT-X-GAP" = some { st with gap := true } := by
  simp [lineStep, hasPfx, cutAt, h]

theorem ls_pdt (st : GSt) (body : Str) (h : st.pdt = false) (hb : isDateTime body = true) :
    lineStep L st (cs!"#EXT-X-PROGRAM-DATE-TIME:" ++ body) = some { st with pdt := true } := by
  simp [lineStep, hasPfx, cutAt, h, hb]

theorem ls_bitrate (st : GSt) (body : Str) (h : st.bitrate = false) (hb : isDecInt body = true) :
    lineStep L st (cs!"#EXT-X-BITRATE:" ++ body) = some { st with bitrate := true } := by
  simp [lineStep, hasPfx, cutAt, h, hb]

theorem ls_extinf (st : GSt) (dur title : Str) (h : st.extinf = false) (hc : ',' ∉ dur) (hd : isFloat dur = true) :
    lineStep L st (cs!"#EXTINF:" ++ dur ++ ',' :: title) = some { st with extinf := true } := by
  simp [lineStep, hasPfx, cutAt, h, cutAt_append _ hc, hd]

theorem ls_byteRange (st : GSt) (body : Str) (h : st.byterange = false) (hb : isRange body = true) :
    lineStep L st (cs!"#EXT-X-BYTERANGE:" ++ body) = some { st with byterange := true } := by
  simp [lineStep, hasPfx, cutAt, h, hb]

theorem ls_uri (st : GSt) (c : Char) (rest : Str) (hc : c ≠ '#') (he : st.extinf = true) :
    lineStep L st (c :: rest) =
      some { st with segments := st.segments + 1, extinf := false, byterange := false, gap := false,
                     disc := false, pdt := false, bitrate := false } := by
  simp [lineStep, hc, he]

/-! ## folds -/

theorem foldLines_append (st : GSt) (a b : List Str) :
    foldLines L st (a ++ b) = (foldLines L st a).bind fun st' => foldLines L st' b := by
  induction a generalizing st with
  | nil => simp [foldLines]
  | cons l rest ih =>
    simp only [List.cons_append, foldLines]
    cases lineStep L st l with
    | none => simp
    | some st' => simp [ih]

theorem foldLines_single (st : GSt) (l : Str) : foldLines L st [l] = lineStep L st l := by
  simp only [foldLines]
  cases lineStep L st l <;> simp [foldLines]


/-! ## header -/

/-- explicit grammar state -/
def G (O : List Str) (n : Nat) (sd e b g d p r : Bool) : GSt :=
  { once := O, segments := n, sawDisc := sd, extinf := e, byterange := b, gap := g, disc := d, pdt := p, bitrate := r }

/-- state while the header tags are read -/
def H (O : List Str) : GSt := G O 0 false false false false false false false

def Sub (O S : List Str) : Prop := ∀ n ∈ O, n ∈ S

def optName {α} (o : Option α) (n : Str) : List Str :=
  match o with
  | some _ => [n]
  | none => []

def flagName (b : Bool) (n : Str) : List Str := if b then [n] else []

theorem H_mark (O : List Str) (name : Str) (h : name ∉ O) : (H O).mark name = some (H (name :: O)) := by
  rw [mark_ok _ _ (by simpa [H, G] using h)]
  rfl

theorem g_line (l name : Str) (O S : List Str) (hsub : Sub O S) (hn : name ∉ S)
    (hstep : lineStep L (H O) l = (H O).mark name) :
    foldLines L (H O) [l] = some (H (name :: O)) ∧ Sub (name :: O) (name :: S) := by
  refine ⟨?_, ?_⟩
  · rw [foldLines_single, hstep, H_mark O name (fun h => hn (hsub _ h))]
  · intro n hmem
    simp only [List.mem_cons] at hmem ⊢
    rcases hmem with h | h
    · exact Or.inl h
    · exact Or.inr (hsub n h)

theorem g_opt {α} (o : Option α) (f : α → Str) (name : Str) (O S : List Str) (hsub : Sub O S) (hn : name ∉ S)
    (hstep : ∀ a, o = some a → lineStep L (H O) (f a) = (H O).mark name) :
    foldLines L (H O) (optLine o f) = some (H (optName o name ++ O)) ∧ Sub (optName o name ++ O) (name :: S) := by
  cases o with
  | none =>
    refine ⟨by simp [optLine, optName, foldLines], ?_⟩
    intro n hmem
    simp only [optName, List.nil_append] at hmem
    exact List.mem_cons_of_mem _ (hsub n hmem)
  | some a =>
    have := g_line (f a) name O S hsub hn (hstep a rfl)
    simpa [optLine, optName] using this

theorem g_flag (b : Bool) (l name : Str) (O S : List Str) (hsub : Sub O S) (hn : name ∉ S)
    (hstep : lineStep L (H O) l = (H O).mark name) :
    foldLines L (H O) (flagLine b l) = some (H (flagName b name ++ O)) ∧ Sub (flagName b name ++ O) (name :: S) := by
  cases b with
  | false =>
    refine ⟨by simp [flagLine, flagName, foldLines], ?_⟩
    intro n hmem
    simp only [flagName, Bool.false_eq_true, ↓reduceIte, List.nil_append] at hmem
    exact List.mem_cons_of_mem _ (hsub n hmem)
  | true =>
    have := g_line l name O S hsub hn hstep
    simpa [flagLine, flagName] using this

theorem bind_mark_int (st : GSt) (name body : Str) (hb : isDecInt body = true) :
    ((st.mark name).bind fun st => if isDecInt body then some st else none) = st.mark name := by
  cases st.mark name <;> simp [hb]

/-- the tag names marked while the header is read, most recent first -/
def hOnce (p : Media) : List Str :=
  optName p.skip cs!"#EXT-X-SKIP" ++ (optName p.playlistType cs!"#EXT-X-PLAYLIST-TYPE" ++
  (optName p.discontinuitySequence cs!"#EXT-X-DISCONTINUITY-SEQUENCE" ++ (cs!"#EXT-X-MEDIA-SEQUENCE" ::
  (optName p.partInf cs!"#EXT-X-PART-INF" ++ (optName p.serverControl cs!"#EXT-X-SERVER-CONTROL" ++
  (cs!"#EXT-X-TARGETDURATION" :: (optName p.allowCache cs!"#EXT-X-ALLOW-CACHE" ++ (optName p.start cs!"#EXT-X-START" ++
  (flagName p.independentSegments cs!"#EXT-X-INDEPENDENT-SEGMENTS" ++ [cs!"#EXT-X-VERSION"])))))))))

def headerNames : List Str :=
  [cs!"#EXT-X-SKIP", cs!"#EXT-X-PLAYLIST-TYPE", cs!"#EXT-X-DISCONTINUITY-SEQUENCE", cs!"#EXT-X-MEDIA-SEQUENCE",
   cs!"#EXT-X-PART-INF", cs!"#EXT-X-SERVER-CONTROL", cs!"#EXT-X-TARGETDURATION", cs!"#EXT-X-ALLOW-CACHE", cs!"#EXT-X-START",
   cs!"#EXT-X-INDEPENDENT-SEGMENTS", cs!"#EXT-X-VERSION"]

/-- no BYTERANGE attribute on EXT-X-MAP / EXT-X-PART (the library writes them unquoted: F17) -/
def partsNoBr (ps : List Part) : Prop := ∀ q ∈ ps, q.brLen = none

def NoAttrByteRange (p : Media) : Prop :=
  (∀ t, p.map = some t → t.brLen = none) ∧ (∀ s ∈ p.segments, partsNoBr s.parts) ∧ partsNoBr p.parts

section
variable {C : Codec} (hC : C.Valid) (L : Bool)
include hC

theorem grammar_header (p : Media) (hw : WFMedia p) (hL : L = true ∨ ∀ t, p.map = some t → t.brLen = none) :
    foldLines L (H []) (Media.headerLines C p) = some (H (hOnce p)) ∧ Sub (hOnce p) headerNames ∧
      cs!"#EXT-X-TARGETDURATION" ∈ hOnce p := by
  simp only [WFMedia, wfMedia, Bool.and_eq_true, decide_eq_true_eq] at hw
  obtain ⟨⟨⟨⟨⟨⟨⟨⟨⟨⟨⟨⟨⟨⟨⟨⟨hv0, hv1⟩, htd⟩, htd0⟩, hms⟩, hds⟩, hsk⟩, hst⟩, hsc⟩, hpi⟩, hpt⟩, hmap⟩, _⟩, _⟩, _⟩, _⟩, _⟩ := hw
  have hver : int31 p.version = true := by
    have : maxSupportedVersion = 10 := rfl
    simp [int31]; omega
  -- 1 VERSION
  obtain ⟨c1, s1⟩ := g_line (L := L) (cs!"#EXT-X-VERSION:" ++ formatInt p.version) cs!"#EXT-X-VERSION" [] [] (fun _ h => by simp at h)
    (by simp) (by rw [ls_version, bind_mark_int _ _ _ (isDecInt_formatInt hver)])
  -- 2 INDEPENDENT-SEGMENTS
  obtain ⟨c2, s2⟩ := g_flag (L := L) p.independentSegments cs!"#EXT-X-INDEPENDENT-SEGMENTS" cs!"#EXT-X-INDEPENDENT-SEGMENTS" _ _ s1
    (by decide) (ls_independent _)
  -- 3 START
  obtain ⟨c3, s3⟩ := g_opt (L := L) p.start (startLine C) cs!"#EXT-X-START" _ _ s2 (by decide) (by
    intro t ht
    rw [ht] at hst
    exact ls_start _ _ (Start.grammar hC L (by simpa using hst)))
  -- 4 ALLOW-CACHE
  obtain ⟨c4, s4⟩ := g_opt (L := L) p.allowCache (fun v => cs!"#EXT-X-ALLOW-CACHE:" ++ (if v then cs!"YES" else cs!"NO"))
    cs!"#EXT-X-ALLOW-CACHE" _ _ s3 (by decide) (fun v _ => ls_allowCache _ v)
  -- 5 TARGETDURATION
  obtain ⟨c5, s5⟩ := g_line (L := L) (cs!"#EXT-X-TARGETDURATION:" ++ formatInt p.targetDuration) cs!"#EXT-X-TARGETDURATION" _ _ s4
    (by decide) (by rw [ls_targetDuration, bind_mark_int _ _ _ (isDecInt_formatInt htd)])
  -- 6 SERVER-CONTROL
  obtain ⟨c6, s6⟩ := g_opt (L := L) p.serverControl (serverControlLine C) cs!"#EXT-X-SERVER-CONTROL" _ _ s5 (by decide) (by
    intro t ht
    rw [ht] at hsc
    exact ls_serverControl _ _ (ServerControl.grammar hC L (by simpa using hsc)))
  -- 7 PART-INF
  obtain ⟨c7, s7⟩ := g_opt (L := L) p.partInf (partInfLine C) cs!"#EXT-X-PART-INF" _ _ s6 (by decide) (by
    intro t ht
    rw [ht] at hpi
    exact ls_partInf _ _ (PartInf.grammar hC L (by simpa using hpi)))
  -- 8 MEDIA-SEQUENCE
  obtain ⟨c8, s8⟩ := g_line (L := L) (cs!"#EXT-X-MEDIA-SEQUENCE:" ++ formatInt p.mediaSequence) cs!"#EXT-X-MEDIA-SEQUENCE" _ _ s7
    (by decide) (by rw [ls_mediaSequence _ _ rfl, bind_mark_int _ _ _ (isDecInt_formatInt hms)])
  -- 9 DISCONTINUITY-SEQUENCE
  obtain ⟨c9, s9⟩ := g_opt (L := L) p.discontinuitySequence (fun v => cs!"#EXT-X-DISCONTINUITY-SEQUENCE:" ++ formatInt v)
    cs!"#EXT-X-DISCONTINUITY-SEQUENCE" _ _ s8 (by decide) (by
    intro v hv
    rw [hv] at hds
    rw [ls_discontinuitySequence _ _ rfl rfl, bind_mark_int _ _ _ (isDecInt_formatInt (by simpa using hds))])
  -- 10 PLAYLIST-TYPE
  obtain ⟨c10, s10⟩ := g_opt (L := L) p.playlistType (fun v => cs!"#EXT-X-PLAYLIST-TYPE:" ++ v) cs!"#EXT-X-PLAYLIST-TYPE" _ _ s9
    (by decide) (by
    intro v hv
    rw [hv] at hpt
    exact ls_playlistType _ v (by simpa using hpt))
  -- 11 MAP (not marked)
  have c11 : ∀ O, foldLines L (H O) (optLine p.map mapLine) = some (H O) := by
    intro O
    cases hm : p.map with
    | none => simp [optLine, foldLines]
    | some t =>
      rw [hm] at hmap
      simp only [optLine, foldLines_single, mapLine]
      exact ls_map _ _ (MapTag.grammar L (by simpa using hmap) (hL.imp id (fun h => h t hm)))
  -- 12 SKIP
  obtain ⟨c12, s12⟩ := g_opt (L := L) p.skip skipLine cs!"#EXT-X-SKIP" _ _ s10 (by decide) (by
    intro v hv
    rw [hv] at hsk
    exact ls_skip _ _ (Skip.grammar L (by simpa using hsk)) rfl)
  refine ⟨?_, ?_, ?_⟩
  · simp only [Media.headerLines, foldLines_append, c1, c2, c3, c4, c5, c6, c7, c8, c9, c10, c11, c12, Option.bind_some,
      List.append_nil]
    rfl
  · intro n hn
    exact s12 n (by simpa [hOnce] using hn)
  · simp [hOnce]

end

/-! ## segments and tail -/

/-- the codec's time text is an ISO 8601 / RFC 3339 date-time in the sense of the grammar
(true of Go's `Time.Format("2006-01-02T15:04:05.999Z07:00")` for years 0000–9999; tie T2 checks
every real output with the Go twin of `isDateTime`) -/
def TimeGrammatical (C : Codec) : Prop := ∀ t, wfTime t = true → isDateTime (C.fmtTime t) = true

theorem G_mark (O : List Str) (n : Nat) (sd e b g d p r : Bool) (name : Str) (h : name ∉ O) :
    (G O n sd e b g d p r).mark name = some (G (name :: O) n sd e b g d p r) := by
  rw [mark_ok _ _ (by simpa [G] using h)]
  rfl

theorem c_disc (x : Bool) (O : List Str) (n : Nat) (sd e b g p r : Bool) :
    foldLines L (G O n sd e b g false p r) (flagLine x cs!"#EXT-X-DISCONTINUITY") = some (G O n (x || sd) e b g x p r) := by
  cases x with
  | false => simp [flagLine, foldLines]
  | true =>
    simp only [flagLine, ↓reduceIte, foldLines_single]
    rw [ls_disc _ rfl]
    rfl

theorem c_gap (x : Bool) (O : List Str) (n : Nat) (sd e b d p r : Bool) :
    foldLines L (G O n sd e b false d p r) (flagLine x cs!"#EXT-X-GAP") = some (G O n sd e b x d p r) := by
  cases x with
  | false => simp [flagLine, foldLines]
  | true =>
    simp only [flagLine, ↓reduceIte, foldLines_single]
    rw [ls_gap _ rfl]
    rfl

theorem c_bitrate (o : Option Int) (hw : o.all int31 = true) (O : List Str) (n : Nat) (sd e b g d p : Bool) :
    foldLines L (G O n sd e b g d p false) (optLine o bitrateLine) = some (G O n sd e b g d p o.isSome) := by
  cases o with
  | none => simp [optLine, foldLines]
  | some v =>
    simp only [optLine, foldLines_single, bitrateLine]
    rw [ls_bitrate _ _ rfl (isDecInt_formatInt (by simpa using hw))]
    rfl

theorem c_byteRange (len start : Option Nat) (hw : brOK len start = true) (O : List Str) (n : Nat) (sd e g d p r : Bool) :
    foldLines L (G O n sd e false g d p r) (optLine len (byteRangeLine start)) = some (G O n sd e len.isSome g d p r) := by
  cases len with
  | none => simp [optLine, foldLines]
  | some l =>
    simp only [optLine, foldLines_single, byteRangeLine]
    rw [ls_byteRange _ _ rfl (isRange_of_brOK hw)]
    rfl

section
variable {C : Codec} (hC : C.Valid) (L : Bool)
include hC

theorem c_pdt (hT : TimeGrammatical C) (o : Option Time) (hw : o.all wfTime = true) (O : List Str) (n : Nat)
    (sd e b g d r : Bool) :
    foldLines L (G O n sd e b g d false r) (optLine o (pdtLine C)) = some (G O n sd e b g d o.isSome r) := by
  cases o with
  | none => simp [optLine, foldLines]
  | some t =>
    simp only [optLine, foldLines_single, pdtLine]
    rw [ls_pdt _ _ rfl (hT t (by simpa using hw))]
    rfl

theorem c_parts : ∀ (ps : List Part) (st : GSt), ps.all wfPart = true → (L = true ∨ partsNoBr ps) →
    foldLines L st (partLines C ps) = some st
  | [], st, _, _ => by simp [partLines, foldLines]
  | p :: rest, st, hw, hL => by
    simp only [List.all_cons, Bool.and_eq_true] at hw
    have hLr : L = true ∨ partsNoBr rest := hL.imp id (fun h q hq => h q (by simp [hq]))
    have hLp : L = true ∨ p.brLen = none := hL.imp id (fun h => h p (by simp))
    have := c_parts rest st hw.2 hLr
    simp only [partLines] at this
    simp only [partLines, List.map_cons, foldLines, Part.line, ls_part _ _ (Part.grammar hC L hw.1 hLp), this]

theorem c_extinf (s : Segment) (hd : posDur s.duration = true) (O : List Str) (n : Nat) (sd b g d p r : Bool) :
    foldLines L (G O n sd false b g d p r) [extinfLine C s] = some (G O n sd true b g d p r) := by
  have hb := natAbs_lt_of_posDur hd
  simp only [foldLines_single, extinfLine]
  rw [ls_extinf _ _ _ rfl (not_mem_of_all (fmtDur_chars hC hb.1) (by decide)) (isFloat_fmtDur hC hb.1 (posDur_nonneg hd))]
  rfl

theorem grammar_segment (hT : TimeGrammatical C) (s : Segment) (hw : wfSegment s = true) (hL : L = true ∨ partsNoBr s.parts)
    (O : List Str) (n : Nat) (sd : Bool) :
    foldLines L (G O n sd false false false false false false) (Segment.lines C s) =
      some (G O (n + 1) (s.discontinuity || sd) false false false false false false) := by
  simp only [wfSegment, Bool.and_eq_true, decide_eq_true_eq] at hw
  obtain ⟨⟨⟨⟨⟨⟨⟨⟨⟨⟨hd, hu⟩, hh⟩, hl⟩, ht⟩, htl⟩, hbr⟩, hb⟩, hdt⟩, hk⟩, hp⟩ := hw
  obtain ⟨c, rest, huri, hc⟩ : ∃ c rest, s.uri = c :: rest ∧ c ≠ '#' := by
    cases hs : s.uri with
    | nil => simp [hs] at hu
    | cons c rest =>
      refine ⟨c, rest, rfl, ?_⟩
      intro e
      subst e
      simp [hs] at hh
  have huriStep : ∀ (b g d p r : Bool), foldLines L (G O n (s.discontinuity || sd) true b g d p r) [s.uri] =
      some (G O (n + 1) (s.discontinuity || sd) false false false false false false) := by
    intro b g d p r
    rw [huri, foldLines_single, ls_uri _ c rest hc rfl]
    rfl
  simp only [Segment.lines, foldLines_append, c_disc, c_gap, c_pdt hC L hT _ hdt, c_bitrate _ hbr, c_parts hC L _ _ hp hL,
    c_extinf hC L s hd, c_byteRange _ _ hb, huriStep, Option.bind_some]

theorem grammar_segments (hT : TimeGrammatical C) : ∀ (segs : List Segment) (prev : Option Key) (O : List Str) (n : Nat)
    (sd : Bool), segs.all wfSegment = true → (L = true ∨ ∀ s ∈ segs, partsNoBr s.parts) →
    ∃ sd', foldLines L (G O n sd false false false false false false) (segmentsLines C prev segs) =
      some (G O (n + segs.length) sd' false false false false false false)
  | [], _, O, n, sd, _, _ => ⟨sd, by simp [segmentsLines, foldLines]⟩
  | s :: rest, prev, O, n, sd, hw, hL => by
    simp only [List.all_cons, Bool.and_eq_true] at hw
    obtain ⟨hws, hwr⟩ := hw
    have hLs : L = true ∨ partsNoBr s.parts := hL.imp id (fun h => h s (by simp))
    have hLr : L = true ∨ ∀ s' ∈ rest, partsNoBr s'.parts := hL.imp id (fun h s' hs' => h s' (by simp [hs']))
    have hseg := grammar_segment hC L hT s hws hLs O n sd
    have hlen : n + (s :: rest).length = n + 1 + rest.length := by simp; omega
    rw [hlen]
    cases hkey : s.key with
    | none =>
      obtain ⟨sd', h⟩ := grammar_segments hT rest prev O (n + 1) (s.discontinuity || sd) hwr hLr
      exact ⟨sd', by simp only [segmentsLines, hkey, foldLines_append, hseg, Option.bind_some, h]⟩
    | some k =>
      have hwk : wfKey k = true := by
        simp only [wfSegment, Bool.and_eq_true, hkey, Option.all_some] at hws
        exact hws.1.2
      have hkl : ∀ st, lineStep L st (keyLine k) = some st := fun st => ls_key st _ (Key.grammar L hwk)
      simp only [segmentsLines, hkey]
      split
      · obtain ⟨sd', h⟩ := grammar_segments hT rest (some k) O (n + 1) (s.discontinuity || sd) hwr hLr
        exact ⟨sd', by simp only [foldLines, hkl, foldLines_append, hseg, Option.bind_some, h]⟩
      · obtain ⟨sd', h⟩ := grammar_segments hT rest prev O (n + 1) (s.discontinuity || sd) hwr hLr
        exact ⟨sd', by simp only [foldLines_append, hseg, Option.bind_some, h]⟩

omit L in
theorem containsSub_hint (t : PreloadHint) : containsSub (renderAttrs (PreloadHint.attrs t)) cs!"TYPE=PART" = true := by
  obtain ⟨uri, brs, brl⟩ := t
  by_cases h0 : brs = 0 <;> cases brl <;>
    simp [PreloadHint.attrs, renderAttrs, renderAttr, containsSub, hasPfx, h0]

/-- **the strict grammar (lenient byte-range dialect) accepts every marshaled well-formed playlist** -/
theorem grammar_accepts (hT : TimeGrammatical C) (p : Media) (hw : WFMedia p) (hL : L = true ∨ NoAttrByteRange p) :
    accepts L (Media.marshal C p) = true := by
  have hnc := noCRLF_lines hC p hw
  obtain ⟨hhdr, hsub, htd⟩ := grammar_header hC L p hw (hL.imp id (fun h => h.1))
  simp only [WFMedia, wfMedia, Bool.and_eq_true, decide_eq_true_eq] at hw
  obtain ⟨⟨⟨⟨⟨⟨⟨⟨⟨⟨⟨⟨⟨⟨⟨⟨_, _⟩, _⟩, _⟩, _⟩, _⟩, _⟩, _⟩, _⟩, _⟩, _⟩, _⟩, _⟩, hsegs⟩, _⟩, hparts⟩, hhint⟩ := hw
  -- the fold over all lines
  obtain ⟨sd', hsegf⟩ := grammar_segments hC L hT p.segments none (hOnce p) 0 false hsegs (hL.imp id (fun h => h.2.1))
  have hfold : ∃ O, foldLines L {} (Media.lines C p) =
      some (G O (0 + p.segments.length) sd' false false false false false false) ∧ cs!"#EXT-X-TARGETDURATION" ∈ O := by
    have h0 : ({} : GSt) = H [] := rfl
    have hH : H (hOnce p) = G (hOnce p) 0 false false false false false false false := rfl
    simp only [Media.lines, Media.tailLines, foldLines_append, h0, hhdr, Option.bind_some, hH, hsegf,
      c_parts hC L _ _ hparts (hL.imp id (fun h => h.2.2))]
    -- preload hint
    cases hph : p.preloadHint with
    | none =>
      simp only [optLine, foldLines, Option.bind_some]
      cases p.endlist with
      | false => exact ⟨hOnce p, by simp [flagLine, foldLines], htd⟩
      | true =>
        refine ⟨cs!"#EXT-X-ENDLIST" :: hOnce p, ?_, List.mem_cons_of_mem _ htd⟩
        simp only [flagLine, ↓reduceIte, foldLines_single, ls_endlist]
        exact G_mark _ _ _ _ _ _ _ _ _ _ (fun h => absurd (hsub _ h) (by decide))
    | some t =>
      rw [hph] at hhint
      have hstep : lineStep L (G (hOnce p) (0 + p.segments.length) sd' false false false false false false) (hintLine t) =
          some (G (cs!"#EXT-X-PRELOAD-HINT PART" :: hOnce p) (0 + p.segments.length) sd' false false false false false false) := by
        rw [hintLine, ls_hint _ _ (PreloadHint.grammar L (by simpa using hhint)) (containsSub_hint hC t)]
        exact G_mark _ _ _ _ _ _ _ _ _ _ (fun h => absurd (hsub _ h) (by decide))
      simp only [optLine, foldLines_single, hstep, Option.bind_some]
      cases p.endlist with
      | false =>
        exact ⟨cs!"#EXT-X-PRELOAD-HINT PART" :: hOnce p, by simp [flagLine, foldLines], List.mem_cons_of_mem _ htd⟩
      | true =>
        refine ⟨cs!"#EXT-X-ENDLIST" :: cs!"#EXT-X-PRELOAD-HINT PART" :: hOnce p, ?_,
          List.mem_cons_of_mem _ (List.mem_cons_of_mem _ htd)⟩
        simp only [flagLine, ↓reduceIte, foldLines_single, ls_endlist]
        refine G_mark _ _ _ _ _ _ _ _ _ _ (fun h => ?_)
        simp only [List.mem_cons] at h
        rcases h with h | h
        · exact absurd h (by decide)
        · exact absurd (hsub _ h) (by decide)
  obtain ⟨O, hf, hO⟩ := hfold
  -- the text is the lines
  rw [Media.marshal_eq]
  unfold accepts
  have hnl : ∀ l ∈ cs!"#EXTM3U" :: Media.lines C p, '\n' ∉ l := by
    intro l hl
    simp only [List.mem_cons] at hl
    rcases hl with rfl | hl
    · decide
    · exact (clean_of_noCRLF (hnc l hl)).1
  rw [splitOn_unlines _ hnl]
  have hrev : ((cs!"#EXTM3U" :: Media.lines C p) ++ [[]]).reverse = [] :: (cs!"#EXTM3U" :: Media.lines C p).reverse := by
    simp
  simp only [hrev, List.reverse_reverse]
  have hstrip : ∀ l ∈ Media.lines C p, stripCR l = l := by
    intro l hl
    have hc := (clean_of_noCRLF (hnc l hl)).2
    unfold stripCR
    split
    · rename_i r heq
      have : l.getLast? = some '\r' := by
        rw [List.getLast?_eq_head?_reverse, heq]
        rfl
      exact absurd this hc
    · rfl
  have hmap : (cs!"#EXTM3U" :: Media.lines C p).map stripCR = cs!"#EXTM3U" :: Media.lines C p := by
    simp only [List.map_cons]
    congr 1
    exact (List.map_congr_left hstrip).trans (List.map_id _)
  rw [hmap]
  have hany : (cs!"#EXTM3U" :: Media.lines C p).any (fun l => l.contains '\r') = false := by
    apply Bool.eq_false_iff.mpr
    intro h
    obtain ⟨l, hl, hc⟩ := List.any_eq_true.mp h
    have hm : '\r' ∈ l := List.contains_iff_mem.mp hc
    simp only [List.mem_cons] at hl
    rcases hl with rfl | hl
    · exact absurd hm (by decide)
    · exact not_mem_of_all (hnc l hl) (by decide) hm
  simp only [hany, Bool.false_eq_true, ↓reduceIte, ne_eq, not_true_eq_false, hf]
  simp [G]
  exact hO

end

/-! ## the satisfiability witness is grammatical as well -/

theorem takeWhile_append_stop {P : Char → Bool} : ∀ (ds : Str) (x : Char) (r : Str), ds.all P = true → P x = false →
    (ds ++ x :: r).takeWhile P = ds
  | [], x, r, _, hx => by simp [List.takeWhile, hx]
  | d :: ds, x, r, h, hx => by
    simp only [List.all_cons, Bool.and_eq_true] at h
    simp [List.takeWhile, h.1, takeWhile_append_stop ds x r h.2 hx]

theorem exact_timeGrammatical : TimeGrammatical Codec.exact := by
  intro t hw
  simp only [wfTime, Bool.and_eq_true, decide_eq_true_eq] at hw
  obtain ⟨⟨⟨⟨⟨h1, h2⟩, h3⟩, h4⟩, h5⟩, h6⟩ := hw
  obtain ⟨a1, a2, _⟩ := padNat_spec (w := 13) (n := (t.sec + 1000000000000).toNat) (by decide) (by omega)
  obtain ⟨b1, b2, _⟩ := padNat_spec (w := 3) (n := t.nsec / 1000000) (by decide) (by omega)
  obtain ⟨c1, c2, _⟩ := padNat_spec (w := 7) (n := (t.off + 1000000).toNat) (by decide) (by omega)
  show isDateTime (exactFmtTime t) = true
  have hds : (padNat 13 (t.sec + 1000000000000).toNat ++ padNat 3 (t.nsec / 1000000) ++ padNat 7 (t.off + 1000000).toNat).all isDigit = true := by
    simp [List.all_append, a2, b2, c2]
  have hne : padNat 13 (t.sec + 1000000000000).toNat ++ padNat 3 (t.nsec / 1000000) ++ padNat 7 (t.off + 1000000).toNat ≠ [] := by
    intro e
    have := congrArg List.length e
    simp [a1, b1, c1] at this
  have hshape : exactFmtTime t = exactTimePrefix ++ ((padNat 13 (t.sec + 1000000000000).toNat ++ padNat 3 (t.nsec / 1000000) ++
      padNat 7 (t.off + 1000000).toNat) ++ 'Z' :: []) := by
    simp [exactFmtTime]
  rw [hshape]
  generalize padNat 13 (t.sec + 1000000000000).toNat ++ padNat 3 (t.nsec / 1000000) ++ padNat 7 (t.off + 1000000).toNat = ds at hds hne
  have htw := takeWhile_append_stop ds 'Z' [] hds (by decide)
  simp only [exactTimePrefix, List.cons_append, List.nil_append, isDateTime]
  simp [allDigits, twoDigits, isDigit, digitVal, dtFracRest, dtZoneOK, htw, hne]

end Hls.Playlist.MG
