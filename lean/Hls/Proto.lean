/-
  Line-protocol helpers shared by the model drivers (core Lean only, no proofs).
-/
namespace Hls.Proto

def hexDigit (n : Nat) : Char :=
  if n < 10 then Char.ofNat (48 + n) else Char.ofNat (87 + n)

def hexOfBytes (bs : List Nat) : String :=
  String.ofList (bs.flatMap fun b => [hexDigit (b / 16 % 16), hexDigit (b % 16)])

def hexVal (c : Char) : Option Nat :=
  if '0' ≤ c ∧ c ≤ '9' then some (c.toNat - 48)
  else if 'a' ≤ c ∧ c ≤ 'f' then some (c.toNat - 87)
  else if 'A' ≤ c ∧ c ≤ 'F' then some (c.toNat - 55)
  else none

def bytesOfHexAux : List Char → List Nat → Option (List Nat)
  | [], acc => some acc.reverse
  | [_], _ => none
  | a :: b :: rest, acc =>
    match hexVal a, hexVal b with
    | some x, some y => bytesOfHexAux rest ((16 * x + y) :: acc)
    | _, _ => none

/-- "-" denotes the empty byte string. -/
def bytesOfHex (s : String) : Option (List Nat) :=
  if s = "-" then some [] else bytesOfHexAux s.toList []

def hexOrDash (bs : List Nat) : String := if bs.isEmpty then "-" else hexOfBytes bs

def words (line : String) : List String :=
  (line.splitOn " ").filter (· ≠ "")

def stripEOL (line : String) : String :=
  String.ofList (line.toList.filter fun c => c ≠ '\n' ∧ c ≠ '\r')

/-- `k=v` lookup in a word list. -/
def kv (ws : List String) (key : String) : Option String :=
  ws.findSome? fun w =>
    match w.splitOn "=" with
    | k :: v :: rest => if k = key then some (String.intercalate "=" (v :: rest)) else none
    | _ => none

def kvNat (ws : List String) (key : String) : Option Nat := (kv ws key).bind String.toNat?
def kvInt (ws : List String) (key : String) : Option Int := (kv ws key).bind String.toInt?

def natList (s : String) : Option (List Nat) :=
  if s = "-" then some [] else (s.splitOn ",").mapM String.toNat?

/-- Generic driver loop: read stdin line by line, thread a state, print outputs. -/
partial def loop {σ} (h : IO.FS.Stream) (out : IO.FS.Stream) (step : σ → String → σ × List String) (s : σ) : IO Unit := do
  let line ← h.getLine
  if line.isEmpty then
    out.flush
    return ()
  let (s', outs) := step s (stripEOL line)
  for o in outs do out.putStrLn o
  loop h out step s'

def runDriver {σ} (step : σ → String → σ × List String) (init : σ) : IO Unit := do
  let stdin ← IO.getStdin
  let stdout ← IO.getStdout
  loop stdin stdout step init

end Hls.Proto
