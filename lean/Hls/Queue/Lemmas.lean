import Hls.Queue.Model
/-
  Helper lemmas for C20: the inductive invariant of the queue machine and its
  preservation by every step (`inv_step`), for every schedule and any number of pushes.
  Property theorems are in `Hls/Props/C20.lean`.
-/
namespace Hls.Queue

/-! ### small list facts -/

theorem segLen_le_length (q : List Item) : segLen q ≤ q.length := by
  unfold segLen; exact List.length_filter_le _ _

theorem segLen_append_seg (q : List Item) (k : Nat) : segLen (q ++ [.seg k]) = segLen q + 1 := by
  simp [segLen, List.filter_append, List.filter_cons, Item.isSeg]

theorem segLen_append_eos (q : List Item) : segLen (q ++ [.eos]) = segLen q := by
  simp [segLen, List.filter_append, Item.isSeg]

theorem segLen_cons_le (x : Item) (q : List Item) : segLen q ≤ segLen (x :: q) := by
  unfold segLen
  cases x <;> simp [List.filter_cons, Item.isSeg]

theorem segLen_cons_seg (k : Nat) (q : List Item) : segLen (.seg k :: q) = segLen q + 1 := by
  simp [segLen, List.filter_cons, Item.isSeg]

/-- the canonical push history: segments 0 … k-1 in order, then possibly the nil marker -/
def history (k : Nat) (eos : Bool) : List Item :=
  (List.range k).map Item.seg ++ (if eos then [Item.eos] else [])

theorem history_succ (k : Nat) : history (k + 1) false = history k false ++ [.seg k] := by
  simp [history, List.range_succ]

theorem history_eos (k : Nat) : history k true = history k false ++ [.eos] := by
  simp [history]

theorem eos_mem_history {k : Nat} {e : Bool} : Item.eos ∈ history k e → e = true := by
  cases e <;> simp [history]

theorem history_nodup (k : Nat) (e : Bool) : (history k e).Nodup := by
  unfold history
  have h1 : ((List.range k).map Item.seg).Nodup := by
    exact List.Pairwise.map Item.seg (fun a b (h : a ≠ b) hab => h (Item.seg.inj hab)) List.nodup_range
  cases e
  · simpa using h1
  · rw [List.nodup_append]
    refine ⟨h1, by simp, ?_⟩
    intro a ha b hb
    simp at hb
    subst hb
    simp at ha
    obtain ⟨_, _, rfl⟩ := ha
    simp

/-! ### the invariant -/

structure Inv (pr : Params) (s : Cfg) : Prop where
  /-- the mutex owner is exactly the thread whose pc is inside a critical section -/
  ownerP : s.owner = some Tid.P ↔ s.ppc.holds
  ownerC : s.owner = some Tid.C ↔ s.cpc.holds
  fifo : s.pulled ++ s.queue = s.pushed
  shape : s.pushed = history s.nextId s.eosDone
  capP : s.pCap ≤ s.pullGen
  capC : s.cCap ≤ s.pushGen
  /-- the argument of the push in progress -/
  item : (s.ppc = .pushLock ∨ s.ppc = .pushCheckEmpty ∨ s.ppc = .pushAppend) →
         s.pItem = .seg s.nextId ∨ s.pItem = .eos
  wasEmpty : s.ppc = .pushAppend → (s.pWasEmpty = true ↔ s.queue = [])
  cEmpty : (s.cpc = .pullCapture ∨ s.cpc = .pullUnlockLoop) → s.queue = []
  cPop : s.cpc = .pullPop → s.queue ≠ []
  noPanic : s.cpc ≠ .panicked
  /-- consumer: no lost wake-up (the close may still be pending inside push's critical section) -/
  cNoLost : s.cpc = .pullRecv → s.queue ≠ [] →
            s.cCap < s.pushGen ∨ (s.ppc = .pushSignal ∧ s.pWasEmpty = true)
  pBig : (s.ppc = .waitCapture ∨ s.ppc = .waitUnlockLoop) → pr.n < s.queue.length
  /-- producer: no lost wake-up — only for the FIXED program -/
  pNoLost : pr.variant = .fixed → s.ppc = .waitRecv → s.queue.length ≤ pr.n →
            s.pCap < s.pullGen ∨ s.cpc = .pullSignal
  noRead : pr.variant = .fixed → s.ppc ≠ .waitRead
  /-- look-ahead bound (traditional mode): at most `n` queued SEGMENTS while the producer may
      download / is about to append a segment, at most `n + 1` at any time -/
  boundLo : pr.mode = .traditional →
            (s.ppc = .download ∨ s.ppc = .waitUnlockExit ∨
             ((s.ppc = .pushLock ∨ s.ppc = .pushCheckEmpty ∨ s.ppc = .pushAppend) ∧ s.pItem ≠ .eos)) →
            segLen s.queue ≤ pr.n
  boundHi : pr.mode = .traditional → segLen s.queue ≤ pr.n + 1
  lenSeg : s.queue.length ≤ segLen s.queue + (if s.eosDone then 1 else 0)
  /-- end-of-stream bookkeeping -/
  eosP : s.eosDone = true →
         ((s.ppc = .pushSignal ∨ s.ppc = .pushUnlock) ∧ s.pItem = .eos) ∨ s.ppc = .eosWait ∨ s.ppc = .done
  eosP' : (s.ppc = .pushSignal ∨ s.ppc = .pushUnlock) → s.pItem = .eos → s.eosDone = true
  eosW : s.ppc = .eosWait → s.eosDone = true
  eosC : Item.eos ∈ s.pulled →
         ((s.cpc = .pullSignal ∨ s.cpc = .pullUnlockExit ∨ s.cpc = .process) ∧ s.cCur = some .eos)
         ∨ s.cpc = .eosWait ∨ s.cpc = .done
  curPulled : ∀ x, s.cCur = some x → x ∈ s.pulled
  eosCW : s.cpc = .eosWait → s.cCur = some .eos
  doneP : s.ppc = .done → s.cancelled = true
  doneC : s.cpc = .done → s.cancelled = true
  /-- `runLowLatency` has no back-pressure: its producer is never inside `waitUntilSizeIsBelow`
      (its end-of-stream marker, fix-F28, is covered by `shape` / `eosP` like the traditional one) -/
  llNoWait : pr.mode = .lowLatency → ¬ s.ppc.inWaitAny

theorem inv_init (pr : Params) : Inv pr init := by
  constructor <;> simp [init, PPc.holds, CPc.holds, PPc.inWaitAny, history, segLen]

/-- `Inv` as one conjunction (so that a single `simp_all` can process all clauses at once). -/
theorem inv_iff (pr : Params) (s : Cfg) : Inv pr s ↔
  ((s.owner = some Tid.P ↔ s.ppc.holds) ∧
  (s.owner = some Tid.C ↔ s.cpc.holds) ∧
  (s.pulled ++ s.queue = s.pushed) ∧
  (s.pushed = history s.nextId s.eosDone) ∧
  (s.pCap ≤ s.pullGen) ∧
  (s.cCap ≤ s.pushGen) ∧
  ((s.ppc = .pushLock ∨ s.ppc = .pushCheckEmpty ∨ s.ppc = .pushAppend) →
         s.pItem = .seg s.nextId ∨ s.pItem = .eos) ∧
  (s.ppc = .pushAppend → (s.pWasEmpty = true ↔ s.queue = [])) ∧
  ((s.cpc = .pullCapture ∨ s.cpc = .pullUnlockLoop) → s.queue = []) ∧
  (s.cpc = .pullPop → s.queue ≠ []) ∧
  (s.cpc ≠ .panicked) ∧
  (s.cpc = .pullRecv → s.queue ≠ [] →
            s.cCap < s.pushGen ∨ (s.ppc = .pushSignal ∧ s.pWasEmpty = true)) ∧
  ((s.ppc = .waitCapture ∨ s.ppc = .waitUnlockLoop) → pr.n < s.queue.length) ∧
  (pr.variant = .fixed → s.ppc = .waitRecv → s.queue.length ≤ pr.n →
            s.pCap < s.pullGen ∨ s.cpc = .pullSignal) ∧
  (pr.variant = .fixed → s.ppc ≠ .waitRead) ∧
  (pr.mode = .traditional →
            (s.ppc = .download ∨ s.ppc = .waitUnlockExit ∨
             ((s.ppc = .pushLock ∨ s.ppc = .pushCheckEmpty ∨ s.ppc = .pushAppend) ∧ s.pItem ≠ .eos)) →
            segLen s.queue ≤ pr.n) ∧
  (pr.mode = .traditional → segLen s.queue ≤ pr.n + 1) ∧
  (s.queue.length ≤ segLen s.queue + (if s.eosDone then 1 else 0)) ∧
  (s.eosDone = true →
         ((s.ppc = .pushSignal ∨ s.ppc = .pushUnlock) ∧ s.pItem = .eos) ∨ s.ppc = .eosWait ∨ s.ppc = .done) ∧
  ((s.ppc = .pushSignal ∨ s.ppc = .pushUnlock) → s.pItem = .eos → s.eosDone = true) ∧
  (s.ppc = .eosWait → s.eosDone = true) ∧
  (Item.eos ∈ s.pulled →
         ((s.cpc = .pullSignal ∨ s.cpc = .pullUnlockExit ∨ s.cpc = .process) ∧ s.cCur = some .eos)
         ∨ s.cpc = .eosWait ∨ s.cpc = .done) ∧
  (∀ x, s.cCur = some x → x ∈ s.pulled) ∧
  (s.cpc = .eosWait → s.cCur = some .eos) ∧
  (s.ppc = .done → s.cancelled = true) ∧
  (s.cpc = .done → s.cancelled = true) ∧
  (pr.mode = .lowLatency → ¬ s.ppc.inWaitAny)) := by
  constructor
  · intro h
    exact ⟨h.1, h.2, h.3, h.4, h.5, h.6, h.7, h.8, h.9, h.10, h.11, h.12, h.13, h.14, h.15, h.16, h.17, h.18, h.19, h.20, h.21, h.22, h.23, h.24, h.25, h.26, h.27⟩
  · intro ⟨h1,h2,h3,h4,h5,h6,h7,h8,h9,h10,h11,h12,h13,h14,h15,h16,h17,h18,h19,h20,h21,h22,h23,h24,h25,h26,h27⟩
    exact ⟨h1,h2,h3,h4,h5,h6,h7,h8,h9,h10,h11,h12,h13,h14,h15,h16,h17,h18,h19,h20,h21,h22,h23,h24,h25,h26,h27⟩

/-- finishing tactic: rewrite the goal to the conjunction, let `simp_all` use the simplified
    hypotheses, close linear-arithmetic leftovers with `omega` -/
macro "qfin" : tactic => `(tactic| (rw [inv_iff]; simp_all [PPc.holds, CPc.holds, PPc.inWaitAny] <;> (try and_intros) <;> try omega))

theorem inv_pStep {pr : Params} {s s' : Cfg} (h : Inv pr s) (hs : pStep pr s = some s') : Inv pr s' := by
  rw [inv_iff] at h
  obtain ⟨h1,h2,h3,h4,h5,h6,h7,h8,h9,h10,h11,h12,h13,h14,h15,h16,h17,h18,h19,h20,h21,h22,h23,h24,h25,h26,h27⟩ := h
  unfold pStep at hs
  cases hp : s.ppc <;> simp only [hp] at hs
  case download =>
    split at hs <;> (simp at hs; subst hs; qfin)
  case pushLock =>
    split at hs
    · simp at hs; subst hs; qfin
    · simp at hs
  case pushCheckEmpty =>
    simp at hs; subst hs; qfin
  case pushAppend =>
    simp at hs; subst hs
    have h3' : ∀ x, s.pulled ++ (s.queue ++ [x]) = s.pushed ++ [x] := by
      intro x; rw [← List.append_assoc, h3]
    rcases h7 (by simp [hp]) with hi | hi
    · rw [inv_iff]
      simp_all [PPc.holds, CPc.holds, PPc.inWaitAny, history_succ, segLen_append_seg]
      and_intros <;> first | omega | (intro h; by_cases hq : s.queue = [] <;> simp_all) | skip
    · rw [inv_iff]
      simp_all [PPc.holds, CPc.holds, PPc.inWaitAny, history_eos, segLen_append_eos]
      and_intros <;> first | omega | (intro h; by_cases hq : s.queue = [] <;> simp_all) | skip
  case pushSignal =>
    simp at hs; subst hs
    cases hw : s.pWasEmpty <;> qfin
  case pushUnlock =>
    simp at hs; subst hs
    cases hi : s.pItem <;> qfin
  case afterPush =>
    split at hs <;> (simp at hs; subst hs; qfin)
  case waitLock =>
    split at hs
    · simp at hs; subst hs; qfin
    · simp at hs
  case waitCheck =>
    split at hs
    · split at hs <;> (simp at hs; subst hs; qfin)
    · simp at hs; subst hs
      have := segLen_le_length s.queue
      qfin
  case waitCapture =>
    simp at hs; subst hs; qfin
  case waitUnlockLoop =>
    split at hs <;> (simp at hs; subst hs; qfin)
  case waitRead =>
    simp at hs; subst hs; qfin
  case waitRecv =>
    split at hs
    · simp at hs; subst hs; qfin
    · simp at hs
  case waitRelock =>
    split at hs
    · simp at hs; subst hs; qfin
    · simp at hs
  case waitUnlockExit =>
    simp at hs; subst hs; qfin
  case eosWait => simp at hs
  case done => simp at hs

theorem inv_pLast {pr : Params} {s s' : Cfg} (h : Inv pr s) (hs : pLastStep pr s = some s') : Inv pr s' := by
  rw [inv_iff] at h
  obtain ⟨h1,h2,h3,h4,h5,h6,h7,h8,h9,h10,h11,h12,h13,h14,h15,h16,h17,h18,h19,h20,h21,h22,h23,h24,h25,h26,h27⟩ := h
  unfold pLastStep at hs
  split at hs
  · simp at hs; subst hs; qfin
  · simp at hs

theorem inv_pCancel {pr : Params} {s s' : Cfg} (h : Inv pr s) (hs : pCancelStep s = some s') : Inv pr s' := by
  rw [inv_iff] at h
  obtain ⟨h1,h2,h3,h4,h5,h6,h7,h8,h9,h10,h11,h12,h13,h14,h15,h16,h17,h18,h19,h20,h21,h22,h23,h24,h25,h26,h27⟩ := h
  unfold pCancelStep at hs
  split at hs
  · split at hs
    · simp at hs; subst hs; qfin
    · simp at hs
  · split at hs
    · simp at hs; subst hs; qfin
    · simp at hs
  · simp at hs

theorem inv_cCancel {pr : Params} {s s' : Cfg} (h : Inv pr s) (hs : cCancelStep s = some s') : Inv pr s' := by
  rw [inv_iff] at h
  obtain ⟨h1,h2,h3,h4,h5,h6,h7,h8,h9,h10,h11,h12,h13,h14,h15,h16,h17,h18,h19,h20,h21,h22,h23,h24,h25,h26,h27⟩ := h
  unfold cCancelStep at hs
  split at hs
  · split at hs
    · simp at hs; subst hs; qfin
    · simp at hs
  · split at hs
    · simp at hs; subst hs; qfin
    · simp at hs
  · simp at hs

theorem inv_cancel {pr : Params} {s s' : Cfg} (h : Inv pr s) (hs : cancelStep s = some s') : Inv pr s' := by
  rw [inv_iff] at h
  obtain ⟨h1,h2,h3,h4,h5,h6,h7,h8,h9,h10,h11,h12,h13,h14,h15,h16,h17,h18,h19,h20,h21,h22,h23,h24,h25,h26,h27⟩ := h
  unfold cancelStep at hs
  split at hs
  · simp at hs
  · simp at hs; subst hs; qfin

theorem inv_cStep {pr : Params} {s s' : Cfg} (h : Inv pr s) (hs : cStep s = some s') : Inv pr s' := by
  rw [inv_iff] at h
  obtain ⟨h1,h2,h3,h4,h5,h6,h7,h8,h9,h10,h11,h12,h13,h14,h15,h16,h17,h18,h19,h20,h21,h22,h23,h24,h25,h26,h27⟩ := h
  unfold cStep at hs
  cases hc : s.cpc <;> simp only [hc] at hs
  case pullLock =>
    split at hs
    · simp at hs; subst hs; qfin
    · simp at hs
  case pullCheck =>
    split at hs <;> (simp at hs; subst hs; qfin)
  case pullCapture =>
    simp at hs; subst hs; qfin
  case pullUnlockLoop =>
    simp at hs; subst hs; qfin
  case pullRecv =>
    split at hs
    · simp at hs; subst hs; qfin
    · simp at hs
  case pullRelock =>
    split at hs
    · simp at hs; subst hs; qfin
    · simp at hs
  case pullPop =>
    split at hs
    · simp at hs; subst hs; qfin
    · rename_i x rest hq
      simp at hs; subst hs
      cases x with
      | seg k =>
        have := segLen_cons_seg k rest
        rw [inv_iff]
        cases hm : pr.mode <;> cases he : s.eosDone <;>
          (simp_all [PPc.holds, CPc.holds, PPc.inWaitAny] <;> (try and_intros) <;> first | omega | (intros; omega))
      | eos =>
        have he : s.eosDone = true := eos_mem_history (k := s.nextId) (by rw [← h4, ← h3, hq]; simp)
        have : segLen (Item.eos :: rest) = segLen rest := by simp [segLen, Item.isSeg]
        rw [inv_iff]
        cases hm : pr.mode <;>
          (simp_all [PPc.holds, CPc.holds, PPc.inWaitAny] <;> (try and_intros) <;> first | omega | (intros; omega))
  case pullSignal =>
    simp at hs; subst hs; qfin
  case pullUnlockExit =>
    simp at hs; subst hs; qfin
  case process =>
    split at hs <;> (simp at hs; subst hs; qfin)
  case eosWait => simp at hs
  case done => simp at hs
  case panicked => simp at hs

/-- The invariant is preserved by every step of every thread: it holds under all schedules. -/
theorem inv_step {pr : Params} {s s' : Cfg} (h : Inv pr s) (hs : Step pr s s') : Inv pr s' := by
  obtain ⟨l, hl⟩ := hs
  cases l <;> simp only [next] at hl
  · exact inv_pStep h hl
  · exact inv_pLast h hl
  · exact inv_pCancel h hl
  · exact inv_cStep h hl
  · exact inv_cCancel h hl
  · exact inv_cancel h hl

theorem inv_reachable {pr : Params} {s : Cfg} (h : Reachable pr s) : Inv pr s := by
  induction h with
  | init => exact inv_init pr
  | step _ hs ih => exact inv_step ih hs

/-! ### progress (fixed program) -/

theorem owner_none_of_not_holds {pr : Params} {s : Cfg} (h : Inv pr s) (hP : ¬ s.ppc.holds) (hC : ¬ s.cpc.holds) :
    s.owner = none := by
  cases ho : s.owner with
  | none => rfl
  | some t =>
    cases t
    · exact absurd (h.ownerP.mp ho) hP
    · exact absurd (h.ownerC.mp ho) hC

/-- In the FIXED program some producer/consumer step is enabled unless both threads are at rest. -/
theorem progress_of_inv {pr : Params} {s : Cfg} (hfix : pr.variant = .fixed) (h : Inv pr s) :
    (pStep pr s).isSome ∨ (pCancelStep s).isSome ∨ (cStep s).isSome ∨ (cCancelStep s).isSome ∨
    (s.ppc.atRest ∧ s.cpc.atRest) := by
  by_cases hP : s.ppc.holds
  · left
    unfold PPc.holds at hP
    unfold pStep
    rcases hP with hp | hp | hp | hp | hp | hp | hp | hp <;> simp only [hp, hfix] <;> (try split) <;> simp
  by_cases hC : s.cpc.holds
  · right; right; left
    unfold CPc.holds at hC
    unfold cStep
    rcases hC with hc | hc | hc | hc | hc | hc <;> simp only [hc] <;> (try split) <;> simp
  have ho := owner_none_of_not_holds h hP hC
  -- facts about the consumer when it does not hold the mutex
  have hcons : (cStep s).isSome ∨ s.cpc = .pullRecv ∨ s.cpc = .eosWait ∨ s.cpc = .done := by
    cases hc : s.cpc <;> simp [hc, CPc.holds] at hC
    case pullLock => left; simp [cStep, hc, ho]
    case pullRecv => simp
    case pullRelock => left; simp [cStep, hc, ho]
    case process => left; simp only [cStep, hc]; split <;> simp
    case eosWait => simp
    case done => simp
    case panicked => exact absurd hc h.noPanic
  -- the consumer parked with a non-empty queue and the producer outside push: enabled
  have hwake : s.cpc = .pullRecv → s.queue ≠ [] → s.ppc ≠ .pushSignal → (cStep s).isSome := by
    intro hc hq hp
    rcases h.cNoLost hc hq with hlt | ⟨hp', _⟩
    · simp [cStep, hc, hlt]
    · exact absurd hp' hp
  -- eos pulled ⇒ producer is past push(nil)
  have heosC : s.cpc = .eosWait → s.eosDone = true := by
    intro hc
    have h1 := h.curPulled _ (h.eosCW hc)
    have h2 : Item.eos ∈ s.pushed := by rw [← h.fifo]; exact List.mem_append_left _ h1
    rw [h.shape] at h2
    exact eos_mem_history h2
  cases hp : s.ppc <;> simp [hp, PPc.holds] at hP
  case download => left; simp [pStep, hp]; split <;> simp
  case pushLock => left; simp [pStep, hp, ho]
  case afterPush => left; simp [pStep, hp]; split <;> simp
  case waitLock => left; simp [pStep, hp, ho]
  case waitRead => exact absurd hp (h.noRead hfix)
  case waitRelock => left; simp [pStep, hp, ho]
  case waitRecv =>
    by_cases hlt : s.pCap < s.pullGen
    · left; simp [pStep, hp, hlt]
    by_cases hcan : s.cancelled = true
    · right; left; simp [pCancelStep, hp, hcan]
    right; right
    rcases hcons with he | hc | hc | hc
    · left; exact he
    · left
      have hlen : pr.n < s.queue.length := by
        apply Nat.lt_of_not_le
        intro hle
        rcases h.pNoLost hfix hp hle with h1 | h1
        · exact hlt h1
        · simp [hc] at h1
      have hq : s.queue ≠ [] := by intro hq; simp [hq] at hlen
      exact hwake hc hq (by simp [hp])
    · have := h.eosP (heosC hc)
      simp [hp] at this
    · exact absurd (h.doneC hc) hcan
  case eosWait =>
    rcases hcons with he | hc | hc | hc
    · right; right; left; exact he
    · right; right; left
      have hd := h.eosW hp
      have h2 : Item.eos ∈ s.pulled ++ s.queue := by
        rw [h.fifo, h.shape, hd]; simp [history]
      rcases List.mem_append.mp h2 with h3 | h3
      · have := h.eosC h3
        simp [hc] at this
      · exact hwake hc (List.ne_nil_of_mem h3) (by simp [hp])
    · right; right; right; right; simp [PPc.atRest, CPc.atRest, hc]
    · right; right; right; right; simp [PPc.atRest, CPc.atRest, hc]
  case done =>
    have hcan := h.doneP hp
    rcases hcons with he | hc | hc | hc
    · right; right; left; exact he
    · right; right; right; left; simp [cCancelStep, hc, hcan]
    · right; right; right; right; simp [PPc.atRest, CPc.atRest, hc]
    · right; right; right; right; simp [PPc.atRest, CPc.atRest, hc]

end Hls.Queue
