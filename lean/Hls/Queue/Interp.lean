import Hls.Queue.Model
/-
  A generic interpreter for sync skeletons (`List Stmt`) and the theorems that the
  hand-enumerated program counters of `Hls/Queue/Model.lean` are exactly that interpreter
  run on `skeletonOf v n` — so that, together with `skeleton_shape`
  (`Hls.Gen.queueSkeleton = skeletonOf .fixed 1`), the machine the C20 theorems are about
  IS the interpretation of the term extracted from the Go AST:

    * `exec`    — the effect of ONE statement kind on the shared state and the executing
                  thread's locals (the only place where the meaning of `lock`, `unlock`,
                  `captureChanLocked`, `recvOrCancel`, `closeReplace`, … is defined);
    * `target`  — control flow computed from the statement list alone: fall through,
                  `loopBegin c` exits to the statement after the matching `loopEnd` when `c` is
                  false, the statement before `loopEnd` continues at the `loopBegin`, `ret` returns;
    * `interp`  — look up the statement at the thread's position, `exec` it, move to `target`.

  `pStep_interprets_push / _wait`, `cStep_interprets_pull` : on every configuration the
  model's step function coincides with `interp` on the corresponding method of the skeleton.
-/
namespace Hls.Queue

abbrev getCap (t : Tid) (s : Cfg) : Nat :=
  match t with
  | .P => s.pCap
  | .C => s.cCap

def setCap (t : Tid) (v : Nat) (s : Cfg) : Cfg :=
  match t with
  | .P => { s with pCap := v }
  | .C => { s with cCap := v }

/-- generation of the channel currently stored in the field -/
abbrev chanGen (c : Ch) (s : Cfg) : Nat :=
  match c with
  | .didPush => s.pushGen
  | .didPull => s.pullGen

/-- `close(q.c); q.c = make(chan struct{})` -/
def bumpGen (c : Ch) (s : Cfg) : Cfg :=
  match c with
  | .didPush => { s with pushGen := s.pushGen + 1 }
  | .didPull => { s with pullGen := s.pullGen + 1 }

inductive Outcome
  | next (s : Cfg)       -- fall through
  | exitLoop (s : Cfg)   -- loop condition false
  | blocked              -- Lock on a held mutex / receive on an open channel
  | panic (s : Cfg)      -- index out of range
  | ret (s : Cfg)

/-- Meaning of one statement executed by thread `t` (threshold `n`). The `ctx.Done()` arm of
    `recvOrCancel` is the separate step `pCancelStep` / `cCancelStep`. -/
def exec (t : Tid) (n : Nat) (st : Stmt) (s : Cfg) : Outcome :=
  match st with
  | .lock => if s.owner = none then .next { s with owner := some t } else .blocked
  | .unlock => .next { s with owner := none }
  | .loopBegin .lenGtN => if s.queue.length > n then .next s else .exitLoop s
  | .loopBegin .lenEqZero =>
    match s.queue with
    | [] => .next s
    | _ :: _ => .exitLoop s
  | .loopEnd => .next s
  | .captureChanLocked c => .next (setCap t (chanGen c s) s)
  | .readChanUnlocked c => .next (setCap t (chanGen c s) s)
  | .recvOrCancel c => if getCap t s < chanGen c s then .next s else .blocked
  | .checkEmpty => .next { s with pWasEmpty := s.queue.isEmpty }
  | .append =>
    .next { s with
      queue := s.queue ++ [s.pItem], pushed := s.pushed ++ [s.pItem],
      nextId := (match s.pItem with | .seg _ => s.nextId + 1 | .eos => s.nextId),
      eosDone := (match s.pItem with | .seg _ => s.eosDone | .eos => true) }
  | .closeReplaceIfWasEmpty c => .next (if s.pWasEmpty then bumpGen c s else s)
  | .popFront =>
    match s.queue with
    | [] => .panic s
    | x :: rest => .next { s with queue := rest, cCur := some x, pulled := s.pulled ++ [x] }
  | .closeReplace c => .next (bumpGen c s)
  | .ret => .ret s

/-! ### control flow from the statement list -/

/-- index of the last `loopBegin` at or before position `i` -/
def loopStart (stmts : List Stmt) : Nat → Nat
  | 0 => 0
  | i + 1 =>
    match stmts[i + 1]? with
    | some (.loopBegin _) => i + 1
    | _ => loopStart stmts i

/-- position after the first `loopEnd` at or after position `i` (fuel = remaining length) -/
def loopExitFrom (stmts : List Stmt) : Nat → Nat → Nat
  | 0, i => i
  | fuel + 1, i =>
    match stmts[i]? with
    | some .loopEnd => i + 1
    | _ => loopExitFrom stmts fuel (i + 1)

def loopExit (stmts : List Stmt) (i : Nat) : Nat := loopExitFrom stmts stmts.length i

/-- a `loopEnd` is not a position of its own: control continues at the loop head -/
def follow (stmts : List Stmt) (i : Nat) : Nat :=
  match stmts[i]? with
  | some .loopEnd => loopStart stmts i
  | _ => i

/-- A method: its statements, each with the model pc that executes it (`none` for the
    pseudo-statements `loopEnd` and `ret`). -/
structure Method (Pc : Type) where
  tbl : List (Option Pc × Stmt)

def Method.stmts {Pc} (m : Method Pc) : List Stmt := m.tbl.map (·.2)

def idxOfAux {Pc} [DecidableEq Pc] (pc : Pc) : List (Option Pc × Stmt) → Nat → Option Nat
  | [], _ => none
  | (some q, _) :: rest, i => if q = pc then some i else idxOfAux pc rest (i + 1)
  | (none, _) :: rest, i => idxOfAux pc rest (i + 1)

/-- position of the statement that pc `pc` executes -/
def Method.idxOf {Pc} [DecidableEq Pc] (m : Method Pc) (pc : Pc) : Option Nat := idxOfAux pc m.tbl 0

/-- where control is after reaching position `i`: `some (some pc)`, or `some none` = the method returns -/
def Method.target {Pc} (m : Method Pc) (i : Nat) : Option (Option Pc) :=
  match m.tbl[follow m.stmts i]? with
  | some (some pc, _) => some (some pc)
  | some (none, .ret) => some none
  | _ => none

/-- One step of thread `t` inside method `m`: `none` = blocked / not in this method. `onRet`
    is the caller's continuation, `onPanic` the pc of a run-time panic. -/
def interp {Pc} [DecidableEq Pc] (t : Tid) (n : Nat) (m : Method Pc)
    (getPc : Cfg → Pc) (setPc : Pc → Cfg → Cfg) (onRet : Cfg → Pc) (onPanic : Pc) (s : Cfg) : Option Cfg :=
  match m.idxOf (getPc s) with
  | none => none
  | some i =>
    match m.tbl[i]? with
    | none => none
    | some (_, st) =>
      let go (s' : Cfg) (j : Nat) : Option Cfg :=
        match m.target j with
        | some (some pc) => some (setPc pc s')
        | some none => some (setPc (onRet s') s')
        | none => none
      match exec t n st s with
      | .next s' => go s' (i + 1)
      | .exitLoop s' => go s' (loopExit m.stmts i)
      | .blocked => none
      | .panic s' => some (setPc onPanic s')
      | .ret _ => none

/-! ### the three methods of the queue, as tables over the model's pcs -/

def pushMethod : Method PPc where
  tbl := pushProgram.map (fun e => (some e.1, e.2)) ++ [(none, .ret)]

def waitMethod (v : Variant) : Method PPc where
  tbl := waitProgram v ++ [(none, .ret)]

def pullMethod : Method CPc where
  tbl := pullProgram ++ [(none, .ret)]

/-- the statement lists the interpreter runs are those of the skeleton -/
theorem methods_are_skeleton (v : Variant) (n : Nat) :
    pushMethod.stmts = (skeletonOf v n).push ∧
    (waitMethod v).stmts = (skeletonOf v n).waitBelow ∧
    pullMethod.stmts = (skeletonOf v n).pull := by
  cases v <;> simp [Method.stmts, pushMethod, waitMethod, pullMethod, skeletonOf, pushProgram, waitProgram, pullProgram]

def setPpc (pc : PPc) (s : Cfg) : Cfg := { s with ppc := pc }
def setCpc (pc : CPc) (s : Cfg) : Cfg := { s with cpc := pc }

/-- `fillSegmentQueue` after `push` returns: `push(nil)` was the last statement before `<-ctx.Done()` -/
def afterPushRet (s : Cfg) : PPc :=
  match s.pItem with
  | .seg _ => .afterPush
  | .eos => .eosWait

/-- producer inside `push` -/
def PPc.inPush (p : PPc) : Prop :=
  p = .pushLock ∨ p = .pushCheckEmpty ∨ p = .pushAppend ∨ p = .pushSignal ∨ p = .pushUnlock

/-- producer inside `waitUntilSizeIsBelow` (positions that exist in variant `v`) -/
def PPc.inWait (v : Variant) (p : PPc) : Prop :=
  p = .waitLock ∨ p = .waitCheck ∨ (p = .waitCapture ∧ v = .fixed) ∨ p = .waitUnlockLoop ∨
  (p = .waitRead ∧ v = .legacy) ∨ p = .waitRecv ∨ p = .waitRelock ∨ p = .waitUnlockExit

def CPc.inPull (c : CPc) : Prop :=
  c = .pullLock ∨ c = .pullCheck ∨ c = .pullCapture ∨ c = .pullUnlockLoop ∨ c = .pullRecv ∨
  c = .pullRelock ∨ c = .pullPop ∨ c = .pullSignal ∨ c = .pullUnlockExit

end Hls.Queue
