import Hls.Queue.Skeleton
/-
  Small-step interleaving model of gohlslib's client download pipeline
  (client_segment_queue.go + the producer loop of client_stream_downloader.go +
  the consumer loop of client_stream_processor_{fmp4,mpegts}.go).  Core Lean only.

  ONE producer, ONE consumer, ONE canceller.

  Shared state      : the queue, the mutex owner, the two broadcast channels `didPush` /
                      `didPull` as GENERATION NUMBERS: the channel currently stored in
                      `q.didPush` is generation `pushGen`; "close(q.didPush); q.didPush =
                      make(chan struct{})" marks generation `pushGen` closed and bumps it, so
                      generation `g` is closed  iff  `g < pushGen`  (same for `didPull`);
                      the context's `cancelled` flag.
  Per-thread state  : a program counter that follows the real statement order of
                      push / waitUntilSizeIsBelow / pull (one pc per statement: Lock, reads
                      under the lock, Unlock, channel capture, blocking receive-or-ctx.Done,
                      re-Lock, …) and the Go locals (`queueWasEmpty`, the captured channel, `seg`).
  Ghost state       : `pushed`, `pulled` (histories), `nextId`, `eosDone`.

  The program is parameterised by
    * `Variant` — WHERE `waitUntilSizeIsBelow` reads `q.didPull`:
        `legacy` : inside the `select`, i.e. AFTER `q.mutex.Unlock()`   (upstream code, defect F12)
        `fixed`  : `didPull := q.didPull` BEFORE `q.mutex.Unlock()`     (like `pull` does)
      The variant is not chosen by hand: `variantOf` recognises it from the sync skeleton
      that `go/cmd/extract` regenerates from the Go AST (`Hls.Gen.queueSkeleton`).
    * `Mode` — `runTraditional` (push; waitUntilSizeIsBelow n; …) or `runLowLatency` (push; …)
    * `n`    — the constant `runTraditional` passes to `waitUntilSizeIsBelow` (extracted: 1).

  Trusted: Go's semantics of sync.Mutex, close/receive on channels, select (any ready
  arm may be taken), context cancellation; http requests return an error once their
  context is cancelled (the `download` step).
-/
namespace Hls.Queue

inductive Variant | legacy | fixed
  deriving DecidableEq, Repr

inductive Mode | traditional | lowLatency
  deriving DecidableEq, Repr

structure Params where
  variant : Variant
  mode    : Mode
  n       : Nat
  deriving DecidableEq, Repr

/-- A queue entry: a downloaded segment (identified by its download index) or the `nil`
    end-of-stream marker that `fillSegmentQueue` pushes after the last ENDLIST segment. -/
inductive Item | seg (id : Nat) | eos
  deriving DecidableEq, Repr

def Item.isSeg : Item → Bool
  | .seg _ => true
  | .eos => false

/-- number of downloaded segments in a queue (the `nil` marker is not a segment) -/
def segLen (q : List Item) : Nat := (q.filter Item.isSeg).length

inductive Tid | P | C
  deriving DecidableEq, Repr

/-- Producer program counter. Each value names the statement ABOUT TO BE executed. -/
inductive PPc
  | download        -- fillSegmentQueue: downloadPlaylist / downloadSegment(ctx, …)   (outside the queue; fails once cancelled)
  -- push(seg)
  | pushLock        -- q.mutex.Lock()
  | pushCheckEmpty  -- queueWasEmpty := (len(q.queue) == 0)
  | pushAppend      -- q.queue = append(q.queue, seg)
  | pushSignal      -- if queueWasEmpty { close(q.didPush); q.didPush = make(chan struct{}) }
  | pushUnlock      -- q.mutex.Unlock()
  | afterPush       -- fillSegmentQueue: `if pl.Endlist && last { push(nil); <-ctx.Done() }` / loop of runLowLatency
  -- waitUntilSizeIsBelow(ctx, n)
  | waitLock        -- q.mutex.Lock()
  | waitCheck       -- for len(q.queue) > n {
  | waitCapture     --     didPull := q.didPull            (fixed variant only)
  | waitUnlockLoop  --     q.mutex.Unlock()
  | waitRead        --     … evaluate `q.didPull` of `case <-q.didPull`   (legacy variant only: AFTER the Unlock)
  | waitRecv        --     select { case <-didPull: ; case <-ctx.Done(): return false }
  | waitRelock      --     q.mutex.Lock() }
  | waitUnlockExit  -- q.mutex.Unlock(); return true
  | eosWait         -- <-ctx.Done()  after push(nil)
  | done
  deriving DecidableEq, Repr

/-- Consumer program counter. -/
inductive CPc
  -- pull(ctx)
  | pullLock        -- q.mutex.Lock()
  | pullCheck       -- for len(q.queue) == 0 {
  | pullCapture     --     didPush := q.didPush
  | pullUnlockLoop  --     q.mutex.Unlock()
  | pullRecv        --     select { case <-didPush: ; case <-ctx.Done(): return nil, false }
  | pullRelock      --     q.mutex.Lock() }
  | pullPop         -- seg, q.queue = q.queue[0], q.queue[1:]
  | pullSignal      -- close(q.didPull); q.didPull = make(chan struct{})
  | pullUnlockExit  -- q.mutex.Unlock(); return seg, true
  | process         -- processSegment(ctx, seg)
  | eosWait         -- seg == nil: setEnded(); <-ctx.Done()
  | done
  | panicked        -- q.queue[0] on an empty slice (shown unreachable)
  deriving DecidableEq, Repr

/-- pcs at which the thread holds `q.mutex` -/
def PPc.holds (p : PPc) : Prop :=
  p = .pushCheckEmpty ∨ p = .pushAppend ∨ p = .pushSignal ∨ p = .pushUnlock ∨
  p = .waitCheck ∨ p = .waitCapture ∨ p = .waitUnlockLoop ∨ p = .waitUnlockExit

instance (p : PPc) : Decidable p.holds := by unfold PPc.holds; infer_instance

def CPc.holds (c : CPc) : Prop :=
  c = .pullCheck ∨ c = .pullCapture ∨ c = .pullUnlockLoop ∨ c = .pullPop ∨ c = .pullSignal ∨
  c = .pullUnlockExit

instance (c : CPc) : Decidable c.holds := by unfold CPc.holds; infer_instance

/-- pcs inside `waitUntilSizeIsBelow` (either variant) -/
def PPc.inWaitAny (p : PPc) : Prop :=
  p = .waitLock ∨ p = .waitCheck ∨ p = .waitCapture ∨ p = .waitUnlockLoop ∨ p = .waitRead ∨
  p = .waitRecv ∨ p = .waitRelock ∨ p = .waitUnlockExit

instance (p : PPc) : Decidable p.inWaitAny := by unfold PPc.inWaitAny; infer_instance

/-- "at rest": returned, or in the final `<-ctx.Done()` after the end-of-stream marker. -/
def PPc.atRest (p : PPc) : Prop := p = .eosWait ∨ p = .done

instance (p : PPc) : Decidable p.atRest := by unfold PPc.atRest; infer_instance

def CPc.atRest (c : CPc) : Prop := c = .eosWait ∨ c = .done

instance (c : CPc) : Decidable c.atRest := by unfold CPc.atRest; infer_instance

structure Cfg where
  -- shared
  queue     : List Item := []
  owner     : Option Tid := none
  pushGen   : Nat := 0
  pullGen   : Nat := 0
  cancelled : Bool := false
  -- producer
  ppc       : PPc := .download
  pItem     : Item := .seg 0        -- argument of the current push
  pWasEmpty : Bool := false         -- local `queueWasEmpty`
  pCap      : Nat := 0              -- generation of the channel waitUntilSizeIsBelow waits on
  nextId    : Nat := 0              -- ghost: number of segments pushed so far
  eosDone   : Bool := false         -- ghost: nil marker pushed
  -- consumer
  cpc       : CPc := .pullLock
  cCap      : Nat := 0              -- local `didPush`
  cCur      : Option Item := none   -- local `seg` (last value pull returned)
  -- ghost histories
  pushed    : List Item := []
  pulled    : List Item := []
  deriving DecidableEq, Repr

def init : Cfg := {}

/-- Thread-step labels. `p`/`c` = the thread's next statement (at a `select`: the channel
    arm); `pLast` = at `afterPush`, take the ENDLIST-last branch (push nil); `pCancel` /
    `cCancel` = at a `select` / `<-ctx.Done()`, take the ctx.Done() arm; `cancel` = Close. -/
inductive Label | p | pLast | pCancel | c | cCancel | cancel
  deriving DecidableEq, Repr

def Label.all : List Label := [.p, .pLast, .pCancel, .c, .cCancel, .cancel]

/-- one producer statement -/
def pStep (pr : Params) (s : Cfg) : Option Cfg :=
  match s.ppc with
  | .download =>
    if s.cancelled then some { s with ppc := .done }
    else some { s with ppc := .pushLock, pItem := .seg s.nextId }
  | .pushLock =>
    if s.owner = none then some { s with owner := some .P, ppc := .pushCheckEmpty } else none
  | .pushCheckEmpty => some { s with pWasEmpty := s.queue.isEmpty, ppc := .pushAppend }
  | .pushAppend =>
    some { s with
      queue := s.queue ++ [s.pItem], pushed := s.pushed ++ [s.pItem],
      nextId := (match s.pItem with | .seg _ => s.nextId + 1 | .eos => s.nextId),
      eosDone := (match s.pItem with | .seg _ => s.eosDone | .eos => true),
      ppc := .pushSignal }
  | .pushSignal =>
    some { s with pushGen := (if s.pWasEmpty then s.pushGen + 1 else s.pushGen), ppc := .pushUnlock }
  | .pushUnlock =>
    some { s with owner := none, ppc := (match s.pItem with | .seg _ => .afterPush | .eos => .eosWait) }
  | .afterPush =>
    match pr.mode with
    | .traditional => some { s with ppc := .waitLock }
    | .lowLatency => some { s with ppc := .download }
  | .waitLock =>
    if s.owner = none then some { s with owner := some .P, ppc := .waitCheck } else none
  | .waitCheck =>
    if s.queue.length > pr.n then
      match pr.variant with
      | .fixed => some { s with ppc := .waitCapture }
      | .legacy => some { s with ppc := .waitUnlockLoop }
    else some { s with ppc := .waitUnlockExit }
  | .waitCapture => some { s with pCap := s.pullGen, ppc := .waitUnlockLoop }
  | .waitUnlockLoop =>
    match pr.variant with
    | .fixed => some { s with owner := none, ppc := .waitRecv }
    | .legacy => some { s with owner := none, ppc := .waitRead }
  | .waitRead => some { s with pCap := s.pullGen, ppc := .waitRecv }
  | .waitRecv => if s.pCap < s.pullGen then some { s with ppc := .waitRelock } else none
  | .waitRelock =>
    if s.owner = none then some { s with owner := some .P, ppc := .waitCheck } else none
  | .waitUnlockExit => some { s with owner := none, ppc := .download }
  | .eosWait => none
  | .done => none

/-- The end-of-stream branch: `push(nil)` follows the push of the last segment.
    `fillSegmentQueue`: `if pl.Endlist && pl.Segments[len-1] == seg { push(nil); <-ctx.Done() }`;
    `runLowLatency` (fix-F28): after the push of the last part the reloaded playlist has ENDLIST and
    no preload hint: `if pl.PreloadHint == nil { if pl.Endlist { push(nil); <-ctx.Done() } … }`.
    (The playlist reload between the two pushes is a `download`: it can only fail — the `p` step
    from `afterPush` — or succeed; taking this branch is the case in which it succeeded.) -/
def pLastStep (_pr : Params) (s : Cfg) : Option Cfg :=
  match s.ppc with
  | .afterPush => some { s with ppc := .pushLock, pItem := .eos }
  | _ => none

/-- the `ctx.Done()` arm of the producer's blocking statements -/
def pCancelStep (s : Cfg) : Option Cfg :=
  match s.ppc with
  | .waitRecv => if s.cancelled then some { s with ppc := .done } else none
  | .eosWait => if s.cancelled then some { s with ppc := .done } else none
  | _ => none

/-- one consumer statement -/
def cStep (s : Cfg) : Option Cfg :=
  match s.cpc with
  | .pullLock =>
    if s.owner = none then some { s with owner := some .C, cpc := .pullCheck } else none
  | .pullCheck =>
    match s.queue with
    | [] => some { s with cpc := .pullCapture }
    | _ :: _ => some { s with cpc := .pullPop }
  | .pullCapture => some { s with cCap := s.pushGen, cpc := .pullUnlockLoop }
  | .pullUnlockLoop => some { s with owner := none, cpc := .pullRecv }
  | .pullRecv => if s.cCap < s.pushGen then some { s with cpc := .pullRelock } else none
  | .pullRelock =>
    if s.owner = none then some { s with owner := some .C, cpc := .pullCheck } else none
  | .pullPop =>
    match s.queue with
    | [] => some { s with cpc := .panicked }
    | x :: rest => some { s with queue := rest, cCur := some x, pulled := s.pulled ++ [x], cpc := .pullSignal }
  | .pullSignal => some { s with pullGen := s.pullGen + 1, cpc := .pullUnlockExit }
  | .pullUnlockExit => some { s with owner := none, cpc := .process }
  | .process =>
    match s.cCur with
    | some .eos => some { s with cpc := .eosWait }
    | _ => some { s with cpc := .pullLock }
  | .eosWait => none
  | .done => none
  | .panicked => none

def cCancelStep (s : Cfg) : Option Cfg :=
  match s.cpc with
  | .pullRecv => if s.cancelled then some { s with cpc := .done } else none
  | .eosWait => if s.cancelled then some { s with cpc := .done } else none
  | _ => none

def cancelStep (s : Cfg) : Option Cfg :=
  if s.cancelled then none else some { s with cancelled := true }

/-- executable transition function: `none` = the labelled step is not enabled -/
def next (pr : Params) (l : Label) (s : Cfg) : Option Cfg :=
  match l with
  | .p => pStep pr s
  | .pLast => pLastStep pr s
  | .pCancel => pCancelStep s
  | .c => cStep s
  | .cCancel => cCancelStep s
  | .cancel => cancelStep s

def enabled (pr : Params) (s : Cfg) : List Label :=
  Label.all.filter fun l => (next pr l s).isSome

/-- the small-step relation: any enabled thread step, i.e. every schedule -/
def Step (pr : Params) (s s' : Cfg) : Prop := ∃ l, next pr l s = some s'

inductive Reachable (pr : Params) : Cfg → Prop
  | init : Reachable pr init
  | step {s s'} : Reachable pr s → Step pr s s' → Reachable pr s'

/-- replay a schedule (`none` as soon as a step is not enabled) -/
def run (pr : Params) : Cfg → List Label → Option Cfg
  | s, [] => some s
  | s, l :: ls =>
    match next pr l s with
    | some s' => run pr s' ls
    | none => none

theorem reachable_of_run {pr : Params} {s s' : Cfg} (hs : Reachable pr s) :
    ∀ {ls : List Label}, run pr s ls = some s' → Reachable pr s' := by
  intro ls
  induction ls generalizing s with
  | nil => intro h; simp [run] at h; exact h ▸ hs
  | cons l ls ih =>
    intro h
    simp only [run] at h
    cases hn : next pr l s with
    | none => simp [hn] at h
    | some s1 => simp [hn] at h; exact ih (Reachable.step hs ⟨l, hn⟩) h

/-! ## Tie to the extracted skeleton

`PPc.stmt` / `CPc.stmt` give, for every pc of the three queue methods, the `Stmt` the
extractor emits for the statement that pc executes; `skeletonOf v` lists them in pc order.
`skeleton_shape` (Hls/Props/C20.lean) states `Hls.Gen.queueSkeleton = skeletonOf .fixed`. -/

def pushProgram : List (PPc × Stmt) :=
  [(.pushLock, .lock), (.pushCheckEmpty, .checkEmpty), (.pushAppend, .append),
   (.pushSignal, .closeReplaceIfWasEmpty .didPush), (.pushUnlock, .unlock)]

def waitProgram : Variant → List (Option PPc × Stmt)
  | .fixed =>
    [(some .waitLock, .lock), (some .waitCheck, .loopBegin .lenGtN),
     (some .waitCapture, .captureChanLocked .didPull), (some .waitUnlockLoop, .unlock),
     (some .waitRecv, .recvOrCancel .didPull), (some .waitRelock, .lock), (none, .loopEnd),
     (some .waitUnlockExit, .unlock)]
  | .legacy =>
    [(some .waitLock, .lock), (some .waitCheck, .loopBegin .lenGtN),
     (some .waitUnlockLoop, .unlock), (some .waitRead, .readChanUnlocked .didPull),
     (some .waitRecv, .recvOrCancel .didPull), (some .waitRelock, .lock), (none, .loopEnd),
     (some .waitUnlockExit, .unlock)]

def pullProgram : List (Option CPc × Stmt) :=
  [(some .pullLock, .lock), (some .pullCheck, .loopBegin .lenEqZero),
   (some .pullCapture, .captureChanLocked .didPush), (some .pullUnlockLoop, .unlock),
   (some .pullRecv, .recvOrCancel .didPush), (some .pullRelock, .lock), (none, .loopEnd),
   (some .pullPop, .popFront), (some .pullSignal, .closeReplace .didPull),
   (some .pullUnlockExit, .unlock)]

/-- The skeleton the model's programs correspond to, for threshold constant `n`. -/
def skeletonOf (v : Variant) (n : Nat) : Skel where
  push := pushProgram.map (·.2) ++ [.ret]
  waitBelow := (waitProgram v).map (·.2) ++ [.ret]
  pull := pullProgram.map (·.2) ++ [.ret]
  runTraditional := [.loopBegin, .callFill, .callWaitBelow n, .download, .loopEnd]
  fillSegmentQueue := [.download, .callPush, .ifLastBegin, .callPushNil, .ctxWait, .ret, .ifEnd, .ret]
  runLowLatency := [.loopBegin, .download, .callPush, .download,
                    .ifNoHintBegin, .ifLastBegin, .callPushNil, .ctxWait, .ret, .ifEnd, .ret, .ifEnd, .loopEnd]
  processorLoop := [.loopBegin, .callPull, .callProcess, .loopEnd]
  processNil := [.ifNilBegin, .ctxWait, .ret, .ifEnd]

/-- the constant `runTraditional` passes to `waitUntilSizeIsBelow` -/
def Skel.waitArg (sk : Skel) : Option Nat :=
  sk.runTraditional.findSome? fun | .callWaitBelow n => some n | _ => none

/-- Recognise which variant of the program a regenerated skeleton is. -/
def variantOf (sk : Skel) : Option Variant :=
  match sk.waitArg with
  | none => none
  | some n =>
    if sk = skeletonOf .fixed n then some .fixed
    else if sk = skeletonOf .legacy n then some .legacy
    else none

def paramsOf (sk : Skel) (m : Mode) : Option Params :=
  match variantOf sk, sk.waitArg with
  | some v, some n => some { variant := v, mode := m, n := n }
  | _, _ => none

/-! ## Macro steps for the correspondence driver

The real code is instrumented with `verifYield` points only at the positions below
(`stopP` / `stopC`); between two of them a goroutine runs uninterrupted. One op line of
the T2 stream (`P`, `P last`, `C`, `X`) therefore is: run that thread's statements until
it reaches the next yield position, returns, or blocks. At a `select` the channel arm has
priority (the harness delivers the cancellation to a thread only when it is parked). -/

def stopP (v : Variant) : PPc → Bool
  | .download | .pushLock | .pushSignal | .afterPush | .waitLock | .waitRelock | .eosWait | .done => true
  | .waitRead => true                  -- legacy: yield point `queue.waitbelow.afterunlock`
  | .waitRecv => v == .fixed           -- fixed: the same yield point sits directly before the select
  | _ => false

def stopC : CPc → Bool
  | .pullLock | .pullRecv | .pullRelock | .pullSignal | .process | .eosWait | .done | .panicked => true
  | _ => false

/-- producer micro-step with select priority: channel arm, else ctx.Done() arm -/
def pMicro (pr : Params) (s : Cfg) : Option Cfg :=
  match pStep pr s with
  | some s' => some s'
  | none => pCancelStep s

def cMicro (s : Cfg) : Option Cfg :=
  match cStep s with
  | some s' => some s'
  | none => cCancelStep s

/-- returns (state, blocked?) -/
def pMacroLoop (pr : Params) : Nat → Cfg → Cfg × Bool
  | 0, s => (s, true)
  | fuel + 1, s =>
    match pMicro pr s with
    | none => (s, true)
    | some s' => if stopP pr.variant s'.ppc then (s', false) else pMacroLoop pr fuel s'

def cMacroLoop : Nat → Cfg → Cfg × Bool
  | 0, s => (s, true)
  | fuel + 1, s =>
    match cMicro s with
    | none => (s, true)
    | some s' => if stopC s'.cpc then (s', false) else cMacroLoop fuel s'

inductive Op | p | pLast | c | x
  deriving DecidableEq, Repr

/-- one op line of the T2 stream; result flag `true` = the thread ended the op blocked -/
def macroStep (pr : Params) (o : Op) (s : Cfg) : Cfg × Bool :=
  match o with
  | .p => pMacroLoop pr 16 s
  | .pLast =>
    match pLastStep pr s with
    | some s' => (s', false)           -- `pushLock` is a yield position
    | none => pMacroLoop pr 16 s         -- not at the branch point: behaves like `P`
  | .c => cMacroLoop 16 s
  | .x => match cancelStep s with
    | some s' => (s', false)
    | none => (s, false)

def PPc.name : PPc → String
  | .download => "download" | .pushLock => "push.lock" | .pushCheckEmpty => "push.checkempty"
  | .pushAppend => "push.append" | .pushSignal => "push.signal" | .pushUnlock => "push.unlock"
  | .afterPush => "afterpush" | .waitLock => "wait.lock" | .waitCheck => "wait.check"
  | .waitCapture => "wait.capture" | .waitUnlockLoop => "wait.unlock"
  | .waitRead => "wait.select" | .waitRecv => "wait.select" | .waitRelock => "wait.relock"
  | .waitUnlockExit => "wait.unlockexit" | .eosWait => "eoswait" | .done => "done"

def CPc.name : CPc → String
  | .pullLock => "pull.lock" | .pullCheck => "pull.check" | .pullCapture => "pull.capture"
  | .pullUnlockLoop => "pull.unlock" | .pullRecv => "pull.select" | .pullRelock => "pull.relock"
  | .pullPop => "pull.pop" | .pullSignal => "pull.signal" | .pullUnlockExit => "pull.unlockexit"
  | .process => "process" | .eosWait => "eoswait" | .done => "done" | .panicked => "panicked"

end Hls.Queue
