import Hls.Queue.Interp
/-
  Helper lemmas for C20: the model's step functions coincide with the generic skeleton
  interpreter (`Hls/Queue/Interp.lean`) on the three methods of the queue.
-/
namespace Hls.Queue

theorem ite_lt_of_le {a b : Nat} (h : b ≤ a) {α : Sort _} (x y : α) : (if a < b then x else y) = y :=
  if_neg (Nat.not_lt.mpr h)

macro "interp_simp" hp:ident : tactic => `(tactic|
  simp [pStep, cStep, interp, $hp:ident, pushMethod, pushProgram, waitMethod, waitProgram, pullMethod, pullProgram,
    Method.idxOf, Method.target, Method.stmts, follow, loopExit, loopExitFrom, loopStart, exec, setPpc, setCpc,
    afterPushRet, idxOfAux, setCap, getCap, chanGen, bumpGen])

theorem pStep_interprets_push (pr : Params) (s : Cfg) (h : s.ppc.inPush) :
    pStep pr s = interp .P pr.n pushMethod (·.ppc) setPpc afterPushRet .done s := by
  unfold PPc.inPush at h
  rcases h with hp | hp | hp | hp | hp <;> interp_simp hp <;> (try split) <;> (try simp_all) <;> (try split) <;> (try simp_all [ite_lt_of_le])

theorem pStep_interprets_wait (pr : Params) (s : Cfg) (h : s.ppc.inWait pr.variant) :
    pStep pr s = interp .P pr.n (waitMethod pr.variant) (·.ppc) setPpc (fun _ => .download) .done s := by
  unfold PPc.inWait at h
  cases hv : pr.variant <;> simp [hv] at h <;>
  rcases h with hp | hp | hp | hp | hp | hp | hp <;> interp_simp hp <;> (try split) <;> (try simp_all) <;> (try split) <;> (try simp_all [ite_lt_of_le])

theorem cStep_interprets_pull (s : Cfg) (h : s.cpc.inPull) :
    cStep s = interp .C 0 pullMethod (·.cpc) setCpc (fun _ => .process) .panicked s := by
  unfold CPc.inPull at h
  rcases h with hp | hp | hp | hp | hp | hp | hp | hp | hp <;> interp_simp hp <;> (try split) <;> (try simp_all) <;> (try split) <;> (try simp_all [ite_lt_of_le])

end Hls.Queue
