/-
  Sync-skeleton datatype of the client segment queue (DESIGN.md Appendix A.2, queue part).

  `go/cmd/extract/gen_queue.go` walks the Go AST of `clientSegmentQueue.{push,pull,
  waitUntilSizeIsBelow}` and of their callers and emits a value of `Skel`
  (`Hls/Gen/QueueSkeleton.lean`, regenerated on every run).  Types only; no logic here.
-/
namespace Hls.Queue

/-- The two broadcast channels of `clientSegmentQueue`. -/
inductive Ch | didPush | didPull
  deriving DecidableEq, Repr

/-- Loop conditions (evaluated while holding `q.mutex`). -/
inductive LoopCond
  | lenGtN      -- `len(q.queue) > n`
  | lenEqZero   -- `len(q.queue) == 0`
  deriving DecidableEq, Repr

/-- Synchronisation-relevant statements, in source order. Every statement that touches
    `q.queue` / closes a channel is only emitted when the extractor saw it lexically
    between `q.mutex.Lock()` and `q.mutex.Unlock()` (otherwise extraction aborts); for the
    reads of the channel variables both placements are representable, because that is
    exactly what the proofs depend on. -/
inductive Stmt
  | lock | unlock
  | loopBegin (c : LoopCond) | loopEnd
  | captureChanLocked (c : Ch)    -- `x := q.c` (or `<-q.c` evaluated) while holding the mutex
  | readChanUnlocked (c : Ch)     -- `q.c` evaluated WITHOUT holding the mutex
  | recvOrCancel (c : Ch)         -- `select { case <-c: ; case <-ctx.Done(): return … }`
  | checkEmpty                    -- `queueWasEmpty := len(q.queue) == 0`
  | append                        -- `q.queue = append(q.queue, seg)`
  | closeReplaceIfWasEmpty (c : Ch)  -- `if queueWasEmpty { close(q.c); q.c = make(chan struct{}) }`
  | popFront                      -- `seg, q.queue = q.queue[0], q.queue[1:]`
  | closeReplace (c : Ch)         -- `close(q.c); q.c = make(chan struct{})`
  | ret
  deriving DecidableEq, Repr

/-- Queue-relevant statements of the callers (`runTraditional`, `fillSegmentQueue`,
    `runLowLatency`, the two processors), in source order. -/
inductive CallStmt
  | loopBegin | loopEnd
  | download                 -- an HTTP download taking `ctx` (returns on error)
  | callFill                 -- `d.fillSegmentQueue(ctx, pl)` (returns on error)
  | callPush                 -- `d.segmentQueue.push(&segmentData{…})`
  | callWaitBelow (n : Nat)  -- `ok := d.segmentQueue.waitUntilSizeIsBelow(ctx, n); if !ok { return }`
  | ifLastBegin | ifEnd      -- `if pl.Endlist && pl.Segments[len-1] == seg {`
  | callPushNil              -- `d.segmentQueue.push(nil)`
  | ctxWait                  -- `<-ctx.Done()`
  | callPull                 -- `seg, ok := p.segmentQueue.pull(ctx); if !ok { return }`
  | callProcess              -- `p.processSegment(ctx, seg)` (returns on error)
  | ifNilBegin               -- `if seg == nil {`
  | ifNoHintBegin            -- `if pl.PreloadHint == nil {`  (runLowLatency, after the playlist reload; fix-F28)
  | ret
  deriving DecidableEq, Repr

structure Skel where
  push            : List Stmt
  waitBelow       : List Stmt
  pull            : List Stmt
  runTraditional  : List CallStmt
  fillSegmentQueue : List CallStmt
  runLowLatency   : List CallStmt
  processorLoop   : List CallStmt    -- identical in the fMP4 and MPEG-TS processors (checked by the extractor)
  processNil      : List CallStmt    -- head of `processSegment` (identical in both)
  deriving DecidableEq, Repr

end Hls.Queue
