import Hls.Race.Lockset
import Hls.Gen.Accesses
/-
  C08 — the PHASE MAP of the muxer's shared state.  HAND-WRITTEN, part of the trusted base.

  For every data field of the tracked structs (the constructors of the REGENERATED enumeration
  `Hls.Gen.AccField`; a field added to or removed from the Go source makes this file stop compiling)
  it states which discipline protects the field.  The table `Hls.Gen.accesses` is then CHECKED
  against these claims row by row (`Hls.Props.C08.c08_rows_ok`, by `decide`).

  What is checked and what is trusted:
    checked  — every write is where the policy allows a write (function, role, lock held), every
               handler read holds the lock the policy names, no handler writes anything;
    trusted  — for `published fns` / `ownerWritesOrOpen _ fns`: that the functions `fns` only ever
               act on an object that handlers cannot reach yet, and that handlers reach such objects
               only after publication.  Each such line below carries its justification.
  There is no alias analysis: "field f of some object of that type".

  Publication points (all inside the critical section of `Muxer.rotateParts` / `rotateSegments`, see
  `Hls.Gen.pathTableCalls`: every writer-role call of registerPath/unregisterPath holds M):
    part     — `part.segment.parts = append(…, part)` + `registerPath(part.path, …)` in muxerStream.rotateParts,
               after `part.finalize` returned;
    segment  — `s.segments = append(s.segments, segment)` + `registerPath(segment.getPath(), …)` in
               muxerStream.rotateSegments, after `segment.finalize` returned (which finalizes its file);
    file     — a storage.File is published with its segment; a storage.Part with its muxerPart (fMP4) or
               with its segment (MPEG-TS);
    stream   — "has content": `len(s.segments) ≥ 1` (`≥ 2` for the fMP4 variant), true only after the
               first locked rotation.
-/
namespace Hls.Race
open Hls.Gen

def phasePolicy : AccField → Policy AccFn
  /- ── codec parameters (objects supplied by the user in Track.Codec; the muxer updates them) ── -/
  -- read by the multivariant handler (populateMultivariantPlaylist, codecparams.Marshal) under M, so a
  -- writer must hold M as well: muxerSegmenter.write* take `s.mutex` (= &m.mutex) around the assignments
  -- since fix-F14a; before it they did not (finding F14a, `legacyKnownRaces`).
  | .AV1_SequenceHeader | .H264_SPS | .H265_SPS
  | .VP9_Width | .VP9_Height | .VP9_Profile | .VP9_BitDepth => .ownerWrites .M
  -- never read by a handler (only by the writer itself: write*, codecs.ToFMP4 inside the rotation)
  | .H264_PPS | .H265_PPS | .H265_VPS | .VP9_ChromaSubsampling | .VP9_ColorRange => .producerOnly
  | .MPEG4Audio_Config | .Opus_ChannelCount => .initOnly
  /- ── Muxer ── -/
  | .Muxer_closed => .ownerWrites .M
  | .Muxer_Directory | .Muxer_OnEncodeError | .Muxer_PartMinDuration | .Muxer_SegmentCount
  | .Muxer_SegmentMaxSize | .Muxer_SegmentMinDuration | .Muxer_Tracks | .Muxer_Variant
  | .Muxer_leadingStream | .Muxer_mtracks | .Muxer_mtracksByTrack | .Muxer_prefix | .Muxer_segmenter
  | .Muxer_server | .Muxer_storageFactory | .Muxer_streams => .initOnly
  | .Track_ClockRate | .Track_Codec | .Track_IsDefault | .Track_Language | .Track_Name => .initOnly
  /- ── muxerStream ── -/
  -- the mutable state every handler looks at: guarded by M (handlers read, rotations write)
  | .muxerStream_closed            -- stored by muxerStream.close, which Muxer.Close calls under M since 51db1fe (before: F5)
  | .muxerStream_initFilePresent | .muxerStream_nextPartID | .muxerStream_nextSegmentID
  | .muxerStream_partTargetDuration | .muxerStream_segmentDeleteCount | .muxerStream_segments
  | .muxerStream_targetDuration => .ownerWrites .M
  -- nextSegment: guarded by M, plus ONE write outside M, in muxerStream.createFirstSegment.
  -- Justification: createFirstSegment runs only while `nextSegment == nil` (the callers' test), i.e. before
  -- the first rotation, when `segments` is empty; handlers read `nextSegment` only in hasPart and
  -- generateMediaPlaylistFMP4, both evaluated only after `hasContent()` returned true under M
  -- (`s.hasContent() && (… s.hasPart(…) …)`, short-circuit), i.e. after the first rotation's critical
  -- section, which is ordered after createFirstSegment on the writer.  object = the stream, published = hasContent.
  | .muxerStream_nextSegment => .ownerWritesOrOpen .M [.muxerStream_createFirstSegment]
  -- the open part is never looked at by a handler
  | .muxerStream_nextPart => .producerOnly
  | .muxerStream_generateMediaPlaylist | .muxerStream_id | .muxerStream_isDefault | .muxerStream_isLeading
  | .muxerStream_isRendition | .muxerStream_language | .muxerStream_mpegtsSwitchableWriter
  | .muxerStream_mpegtsWriter | .muxerStream_name | .muxerStream_onEncodeError | .muxerStream_prefix
  | .muxerStream_segmentCount | .muxerStream_segmentMaxSize | .muxerStream_server
  | .muxerStream_storageFactory | .muxerStream_tracks | .muxerStream_variant => .initOnly
  /- ── muxerServer ── -/
  | .muxerServer_pathHandlers => .ownerWrites .S
  /- ── muxerSegmenter, muxerTrack: the writer's private bookkeeping ── -/
  | .muxerSegmenter_fmp4AdjustedPartDuration | .muxerSegmenter_fmp4FreezeAdjustedPartDuration
  | .muxerSegmenter_fmp4SampleDurations | .muxerSegmenter_pendingParamsChange => .producerOnly
  | .muxerSegmenter_parent | .muxerSegmenter_partMinDuration | .muxerSegmenter_segmentMinDuration
  | .muxerSegmenter_variant => .initOnly
  | .muxerTrack_firstRandomAccessReceived | .muxerTrack_fmp4NextSample | .muxerTrack_fmp4Samples
  | .muxerTrack_fmp4StartDTS | .muxerTrack_h264DTSExtractor | .muxerTrack_h265DTSExtractor => .producerOnly
  | .muxerTrack_Track | .muxerTrack_isLeading | .muxerTrack_mpegtsTrack | .muxerTrack_stream
  | .muxerTrack_variant => .initOnly
  /- ── muxerPart: private to the writer while it is `stream.nextPart`, immutable once published ── -/
  -- set in the allocating literal only
  | .muxerPart_id | .muxerPart_prefix | .muxerPart_segment | .muxerPart_segmentMaxSize | .muxerPart_startDTS
  | .muxerPart_storage | .muxerPart_streamID | .muxerPart_streamTracks => .published []
  -- initialize(): called right after the literal, on the fresh object (createFirstSegment, rotateParts, rotateSegments)
  | .muxerPart_path => .published [.muxerPart_initialize]
  -- writeSample(): only call site is `track.stream.nextPart.writeSample` (fmp4WriteSample) — the open part
  | .muxerPart_isIndependent => .published [.muxerPart_writeSample]
  -- finalize(): called on `part := s.nextPart` in rotateParts BEFORE the append/registerPath, and on
  -- `s.nextPart` in muxerStream.close — the open part
  | .muxerPart_endDTS => .published [.muxerPart_finalize]
  /- ── muxerSegmentFMP4: private while it is `stream.nextSegment`, except `parts` ── -/
  | .muxerSegmentFMP4_fromForcedRotation | .muxerSegmentFMP4_id | .muxerSegmentFMP4_prefix
  | .muxerSegmentFMP4_startDTS | .muxerSegmentFMP4_startNTP | .muxerSegmentFMP4_storageFactory
  | .muxerSegmentFMP4_streamID => .published []
  | .muxerSegmentFMP4_path | .muxerSegmentFMP4_storage => .published [.muxerSegmentFMP4_initialize]
  -- finalize(): on `segment := s.nextSegment` in rotateSegments before the append, and on `s.nextSegment` in close
  | .muxerSegmentFMP4_endDTS => .published [.muxerSegmentFMP4_finalize]
  -- handlers DO read the parts of the open segment (`s.nextSegment.(*muxerSegmentFMP4).parts`): guarded by M
  | .muxerSegmentFMP4_parts => .ownerWrites .M
  | .muxerSegmentFMP4_size => .producerOnly
  /- ── muxerSegmentMPEGTS ── -/
  | .muxerSegmentMPEGTS_id | .muxerSegmentMPEGTS_mpegtsWriter | .muxerSegmentMPEGTS_prefix
  | .muxerSegmentMPEGTS_segmentMaxSize | .muxerSegmentMPEGTS_startDTS | .muxerSegmentMPEGTS_startNTP
  | .muxerSegmentMPEGTS_storageFactory | .muxerSegmentMPEGTS_streamID => .published []
  | .muxerSegmentMPEGTS_path | .muxerSegmentMPEGTS_storage => .published [.muxerSegmentMPEGTS_initialize]
  -- writeH264 / writeMPEG4Audio: only call sites are `track.stream.nextSegment.(*muxerSegmentMPEGTS).write…` — the open segment
  | .muxerSegmentMPEGTS_endDTS =>
      .published [.muxerSegmentMPEGTS_finalize, .muxerSegmentMPEGTS_writeH264, .muxerSegmentMPEGTS_writeMPEG4Audio]
  | .muxerSegmentMPEGTS_audioAUCount | .muxerSegmentMPEGTS_bw | .muxerSegmentMPEGTS_size
  | .muxerSegmentMPEGTS_storagePart => .producerOnly
  | .muxerGap_duration | .muxerGap_id => .published []   -- id: added by the F7 repair, same life cycle as duration
  /- ── pkg/storage, RAM ── -/
  -- Finalize(): called by segment.finalize on the open segment's file; the file's Reader/Size are reached by
  -- handlers only through a published segment
  | .fileRAM_finalized | .fileRAM_finalSize => .published [.fileRAM_Finalize]
  -- NewPart(): on the open segment's file (createFirstSegment, rotateParts, rotateSegments, muxerSegmentMPEGTS.initialize)
  | .fileRAM_parts => .published [.fileRAM_NewPart]
  -- Writer(): hands out &p.buffer; it is called by muxerPart.finalize (fMP4; the bytes are written by
  -- part.Marshal inside that call, before publication) and by muxerSegmentMPEGTS.initialize (the bufio.Writer
  -- is flushed and dropped in finalize, before publication).  After publication the buffer is only read.
  | .partRAM_buffer => .published [.partRAM_Writer]
  /- ── pkg/storage, disk ── -/
  | .fileDisk_fpath => .published []
  | .fileDisk_f | .fileDisk_finalSize => .published [.fileDisk_Finalize]
  | .fileDisk_parts => .producerOnly
  | .partDisk_offset | .partDisk_s => .published []
  -- A partDisk is published with its muxerPart while its FILE is still open: fileDisk.Finalize (under M, or
  -- from Close without it) later drops `buffer` and fileDisk.NewPart / Finalize set `size`, while a part
  -- handler (which does not take M) may be inside partDisk.Reader.  So these two need a lock of their own:
  -- F = fileDisk.mutex (introduced by fix-F14b).  Before the fix: finding F14b (`legacyKnownRaces`).
  | .partDisk_buffer | .partDisk_size => .ownerWrites .F

/-- `&x.f` that only creates a read-only alias: `DateTime: &seg.startNTP` is stored in a
    playlist.MediaSegment that is marshalled (read) by `pl.Marshal()` at the end of the same function,
    inside the same critical section, and then dropped. -/
def phaseAddrReadOnly : List (AccFn × AccField) :=
  [(.muxerStream_generateMediaPlaylistFMP4, .muxerSegmentFMP4_startNTP),
   (.muxerStream_generateMediaPlaylistMPEGTS, .muxerSegmentMPEGTS_startNTP)]

def phaseMap : Discipline AccFn AccField := { policy := phasePolicy, addrReadOnly := phaseAddrReadOnly }

/-- A named row that does not follow the discipline (a genuine data race). -/
structure KnownRace where
  tag   : String
  fn    : AccFn
  field : AccField

/-- Rows excepted from the theorems of `Hls.Props.C08`: NONE — F5, F14a and F14b are repaired, the theorems are
    about the full regenerated table. (A future finding that is not repaired would be named here.) -/
def knownRaces : List KnownRace := []

/-- The data races of the tree BEFORE the repairs (51db1fe for F5, fix-F14a, fix-F14b), kept as documentation and
    as a test of the discipline's detection power (`Hls.Props.C08.c08_legacy_rows_rejected`). -/
def legacyKnownRaces : List KnownRace := [
  -- F5: muxerStream.close stored `closed` outside the muxer mutex (handlers read it under M)
  ⟨"F5-stream-closed-race", .muxerStream_close, .muxerStream_closed⟩,
  -- F14a: Write* stored new codec parameters outside the muxer mutex (the multivariant handler reads them under M)
  ⟨"F14a-codec-params-race", .muxerSegmenter_writeAV1, .AV1_SequenceHeader⟩,
  ⟨"F14a-codec-params-race", .muxerSegmenter_writeH264, .H264_SPS⟩,
  ⟨"F14a-codec-params-race", .muxerSegmenter_writeH265, .H265_SPS⟩,
  ⟨"F14a-codec-params-race", .muxerSegmenter_writeVP9, .VP9_Width⟩,
  ⟨"F14a-codec-params-race", .muxerSegmenter_writeVP9, .VP9_Height⟩,
  ⟨"F14a-codec-params-race", .muxerSegmenter_writeVP9, .VP9_Profile⟩,
  ⟨"F14a-codec-params-race", .muxerSegmenter_writeVP9, .VP9_BitDepth⟩,
  -- F14b: fileDisk.Finalize / NewPart wrote a published part's buffer / size, partDisk.Reader read them, no common lock
  ⟨"F14b-partdisk-buffer-race", .fileDisk_Finalize, .partDisk_buffer⟩,
  ⟨"F14b-partdisk-buffer-race", .partDisk_Reader, .partDisk_buffer⟩,
  ⟨"F14b-partdisk-buffer-race", .fileDisk_Finalize, .partDisk_size⟩,
  ⟨"F14b-partdisk-buffer-race", .fileDisk_NewPart, .partDisk_size⟩,
  ⟨"F14b-partdisk-buffer-race", .partDisk_Reader, .partDisk_size⟩
]

/-- The undisciplined rows of the access table as it was extracted from the tree before the repairs
    (7987e8e: function, field, kind, locks held — none —, role): a frozen excerpt, NOT regenerated. -/
def legacyRows : List (Access AccFn AccField) := [
  ⟨.muxerStream_close, .muxerStream_closed, .w, [], .close⟩,
  ⟨.muxerSegmenter_writeAV1, .AV1_SequenceHeader, .w, [], .writer⟩,
  ⟨.muxerSegmenter_writeH264, .H264_SPS, .w, [], .writer⟩,
  ⟨.muxerSegmenter_writeH265, .H265_SPS, .w, [], .writer⟩,
  ⟨.muxerSegmenter_writeVP9, .VP9_Width, .w, [], .writer⟩,
  ⟨.muxerSegmenter_writeVP9, .VP9_Height, .w, [], .writer⟩,
  ⟨.muxerSegmenter_writeVP9, .VP9_Profile, .w, [], .writer⟩,
  ⟨.muxerSegmenter_writeVP9, .VP9_BitDepth, .w, [], .writer⟩,
  ⟨.fileDisk_Finalize, .partDisk_buffer, .w, [(.M, .excl)], .writer⟩,
  ⟨.fileDisk_Finalize, .partDisk_buffer, .w, [], .close⟩,
  ⟨.fileDisk_Finalize, .partDisk_size, .w, [(.M, .excl)], .writer⟩,
  ⟨.fileDisk_Finalize, .partDisk_size, .w, [], .close⟩,
  ⟨.fileDisk_NewPart, .partDisk_size, .w, [], .writer⟩,
  ⟨.partDisk_Reader, .partDisk_buffer, .r, [], .handler⟩,
  ⟨.partDisk_Reader, .partDisk_size, .r, [], .handler⟩
]

def isKnownRace (a : Access AccFn AccField) : Bool :=
  knownRaces.any fun k => k.fn == a.fn && k.field == a.field

def isLegacyKnownRace (a : Access AccFn AccField) : Bool :=
  legacyKnownRaces.any fun k => k.fn == a.fn && k.field == a.field

/-- the regenerated table minus the known races (= the full table while `knownRaces = []`) -/
def checkedAccesses : List (Access AccFn AccField) := accesses.filter (fun a => !isKnownRace a)

/-- rows of a table that do not follow the discipline (for reports; `[]` on the regenerated table) -/
def undisciplinedRows (tbl : List (Access AccFn AccField)) : List (Access AccFn AccField) :=
  tbl.filter (fun a => !rowOK phaseMap a)

end Hls.Race
