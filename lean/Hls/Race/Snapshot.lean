import Hls.Muxer.Model
import Hls.Race.PhaseMap
/-
  C08 — snapshot atomicity: the tiny interleaving machine of ONE writer and any number of requesters
  over the FROZEN sequential model `Hls.Muxer`.

  * the writer's step is one `Hls.Muxer.write` (the unit of the sequential model; the state changes a
    handler can observe happen inside `Muxer.rotateParts` / `rotateSegments`, i.e. under the muxer mutex);
  * a requester's step is ATOMIC: it evaluates one of the functions the handlers compute
    (`mediaPlaylist`, `reqDecision`, `get`) on the current state and appends the answer to the log.
    Atomicity is not assumed out of thin air: the step constructor demands `HandlersLocked`, the fact —
    established on the regenerated access table, `Hls.Props.C08.c08_handlers_locked` — that every handler
    access to a field which the writer mutates under the muxer mutex M holds M (so a handler's critical
    section and a rotation exclude each other), and that every other field a handler reads is immutable
    once the handler can reach it (`published` / `initOnly` policies of the phase map, race freedom of
    which is `c08_race_free`).
-/
namespace Hls.Race.Snapshot
open Hls.Muxer Hls.Race Hls.Gen

/-- The table fact that makes a handler's evaluation one atomic step: every relevant handler row on a
    field guarded by a lock holds that lock. -/
def HandlersLocked (tbl : List (Access AccFn AccField)) : Prop :=
  ∀ a ∈ tbl, a.relevant = true → a.isHandler = true → ∀ l,
    ((∃ fns, phaseMap.policy a.field = .ownerWritesOrOpen l fns) ∨ phaseMap.policy a.field = .ownerWrites l) →
    a.holds l = true

/-- what a requester asks for (already parsed: unparsable `_HLS_msn` is answered 400 before any lock is taken) -/
inductive Req
  | media (stream : Nat) (delta : Bool)
  | decision (stream : Nat) (msn part : Option Nat) (skip : Bool)
  | get (k : PathKey)

inductive Resp
  | playlist (p : Playlist)
  | decision (d : ReqDecision)
  | body (b : Body)

/-- what the handler computes from ONE muxer state -/
def answer (st : State) : Req → Resp
  | .media si d => .playlist (mediaPlaylist st si d)
  | .decision si m p s => .decision (reqDecision st si m p s)
  | .get k => .body (get st k)

structure LogEntry where
  requester : Nat
  req       : Req
  resp      : Resp
  at_       : Nat      -- number of writer steps completed when the response was computed

structure Conf where
  st      : State
  pending : List WriteOp     -- the writer's remaining calls
  done    : Nat              -- writer steps completed
  log     : List LogEntry

inductive Step (tbl : List (Access AccFn AccField)) : Conf → Conf → Prop
  | writer (c : Conf) (op : WriteOp) (ops : List WriteOp) (h : c.pending = op :: ops) :
      Step tbl c { c with st := (write c.st op).1, pending := ops, done := c.done + 1 }
  | handler (c : Conf) (r : Nat) (q : Req) (locked : HandlersLocked tbl) :
      Step tbl c { c with log := c.log ++ [{ requester := r, req := q, resp := answer c.st q, at_ := c.done }] }

inductive Reach (tbl : List (Access AccFn AccField)) (st0 : State) (ops : List WriteOp) : Conf → Prop
  | init : Reach tbl st0 ops { st := st0, pending := ops, done := 0, log := [] }
  | step {c c' : Conf} : Reach tbl st0 ops c → Step tbl c c' → Reach tbl st0 ops c'

theorem run_append (st : State) (l : List WriteOp) (op : WriteOp) :
    run st (l ++ [op]) = (write (run st l) op).1 := by
  induction l generalizing st with
  | nil => simp [run]
  | cons a l ih => simp [run, ih]

theorem run_append' (st : State) (l₁ l₂ : List WriteOp) : run st (l₁ ++ l₂) = run (run st l₁) l₂ := by
  induction l₁ generalizing st with
  | nil => simp [run]
  | cons a l ih => simp [run, ih]

/-- the state a configuration is in, as a state of the writer's SEQUENTIAL run -/
def stateAt (st0 : State) (ops : List WriteOp) (n : Nat) : State := run st0 (ops.take n)

theorem reach_inv {tbl st0 ops c} (h : Reach tbl st0 ops c) :
    c.st = stateAt st0 ops c.done ∧ c.pending = ops.drop c.done ∧ c.done ≤ ops.length ∧
    (∀ e ∈ c.log, e.resp = answer (stateAt st0 ops e.at_) e.req ∧ e.at_ ≤ c.done) ∧
    c.log.Pairwise (fun e₁ e₂ => e₁.at_ ≤ e₂.at_) := by
  induction h with
  | init => simp [stateAt, run]
  | @step c c' _ hs ih =>
    obtain ⟨h1, h2, h3, h4, h5⟩ := ih
    cases hs with
    | writer op ops' hp =>
      have hd : ops.drop c.done = op :: ops' := h2 ▸ hp
      have hlt : c.done < ops.length := by
        apply Nat.lt_of_not_le; intro hge
        rw [List.drop_of_length_le hge] at hd; cases hd
      have hget : ops[c.done] = op := by
        have := List.getElem_cons_drop (h := hlt)
        rw [hd] at this
        exact (List.cons.inj this).1
      refine ⟨?_, ?_, hlt, ?_, h5⟩
      · show (write c.st op).1 = stateAt st0 ops (c.done + 1)
        simp only [stateAt]
        rw [List.take_succ_eq_append_getElem hlt, hget, run_append, ← stateAt, ← h1]
      · show ops' = ops.drop (c.done + 1)
        have := List.drop_add_one_eq_tail_drop (l := ops) (i := c.done)
        rw [this, hd]; rfl
      · intro e he
        exact ⟨(h4 e he).1, Nat.le_succ_of_le (h4 e he).2⟩
    | handler r q _ =>
      refine ⟨h1, h2, h3, ?_, ?_⟩
      · intro e he
        rcases List.mem_append.mp he with he | he
        · exact h4 e he
        · simp only [List.mem_singleton] at he
          subst he
          exact ⟨by simp [h1], Nat.le_refl _⟩
      · show List.Pairwise _ (c.log ++ [_])
        rw [List.pairwise_append]
        refine ⟨h5, List.pairwise_singleton _ _, ?_⟩
        intro a ha b hb
        simp only [List.mem_singleton] at hb
        subst hb
        exact (h4 a ha).2

end Hls.Race.Snapshot
