import Hls.Muxer.Model
/-
  C08 (no panic) — invariants of the FROZEN sequential model `Hls.Muxer` that make the Go operations
  a handler performs safe on every reachable state:

    * `m.streams[0]`                                   needs  streams ≠ []
    * `s.nextSegment.(*muxerSegmentFMP4)` in hasPart / generateMediaPlaylistFMP4 (evaluated only under
      hasContent)                                      needs  segments ≠ [] → nextSegment ≠ nil
    * `s.nextSegmentID - uint64(len(s.segments)-1)`    wraps around only when there are no segments:
                                                       len(segments) ≤ nextSegmentID

  `Pres st st'` = the step keeps the configuration and preserves the invariant.  Core Lean only.
-/
namespace Hls.Race.SeqInv
open Hls.Muxer

def sOK (v : Variant) (s : StreamSt) : Prop :=
  (s.segments ≠ [] → s.nextSegment.isSome = true) ∧ s.segments.length ≤ s.nextSegmentID ∧
  (v = .ll → 7 ≤ s.nextSegmentID)

def Inv (st : State) : Prop := st.streams ≠ [] ∧ ∀ s ∈ st.streams, sOK st.cfg.variant s

def Pres (st st' : State) : Prop := st'.cfg = st.cfg ∧ (Inv st → Inv st')

theorem Pres.refl (st : State) : Pres st st := ⟨rfl, id⟩

theorem Pres.trans {a b c : State} (h₁ : Pres a b) (h₂ : Pres b c) : Pres a c :=
  ⟨h₂.1.trans h₁.1, fun h => h₂.2 (h₁.2 h)⟩

/-- a step that touches neither the streams nor the configuration -/
theorem Pres.of_eq {st st' : State} (hs : st'.streams = st.streams) (hc : st'.cfg = st.cfg) : Pres st st' :=
  ⟨hc, fun h => by unfold Inv at *; rw [hs, hc]; exact h⟩

theorem Pres.ite {st a b : State} {c : Prop} [Decidable c] (ha : Pres st a) (hb : Pres st b) :
    Pres st (if c then a else b) := by
  split <;> assumption

theorem stream_eq_of_streams_eq {st st' : State} (h : st'.streams = st.streams) (si : Nat) :
    st'.stream si = st.stream si := by
  simp [State.stream, h]

theorem stream_mem {st : State} {si : Nat} (h : si < st.streams.length) : st.stream si ∈ st.streams := by
  simp only [State.stream, List.getD_eq_getElem?_getD, List.getElem?_eq_getElem h, Option.getD_some]
  exact List.getElem_mem h

theorem setStream_oob {st : State} {si : Nat} (h : ¬ si < st.streams.length) (s : StreamSt) :
    st.setStream si s = st := by
  simp only [State.setStream]
  rw [List.set_eq_of_length_le (Nat.le_of_not_lt h)]

/-- replacing stream `si` by a stream that is OK (given that the old one was) -/
theorem Pres.setStream {st : State} {si : Nat} {s' : StreamSt}
    (h : sOK st.cfg.variant (st.stream si) → sOK st.cfg.variant s') : Pres st (st.setStream si s') := by
  by_cases hlt : si < st.streams.length
  · refine ⟨rfl, fun hi => ?_⟩
    have hold := hi.2 _ (stream_mem hlt)
    refine ⟨?_, ?_⟩
    · intro he
      have : (st.streams.set si s').length = 0 := by simp only [State.setStream] at he; rw [he]; rfl
      rw [List.length_set] at this
      exact hi.1 (List.eq_nil_of_length_eq_zero this)
    · intro s hs
      rcases List.mem_or_eq_of_mem_set hs with hs | hs
      · exact hi.2 s hs
      · subst hs; exact h hold
  · rw [setStream_oob hlt]; exact Pres.refl st

theorem Pres.foldl {α : Type} (f : State → α → State) (l : List α) (st : State)
    (h : ∀ st a, Pres st (f st a)) : Pres st (l.foldl f st) := by
  induction l generalizing st with
  | nil => exact Pres.refl st
  | cons a l ih => exact (h st a).trans (ih (f st a))

/-! ### the primitive steps of the model -/

theorem pres_setTrack (st : State) (i : Nat) (t : TrackSt) : Pres st (st.setTrack i t) :=
  Pres.of_eq rfl rfl

theorem pres_createFirstSegmentStream (st : State) (si : Nat) (d n : Int) :
    Pres st (createFirstSegmentStream st si d n) := by
  unfold createFirstSegmentStream
  refine Pres.trans (b := st.setStream si _) (Pres.setStream ?_) (Pres.of_eq rfl rfl)
  intro h
  split <;> exact ⟨fun _ => rfl, h.2.1, h.2.2⟩

theorem pres_createFirstSegment (st : State) (d n : Int) : Pres st (createFirstSegment st d n) := by
  unfold createFirstSegment
  exact Pres.foldl _ _ _ (fun st si => pres_createFirstSegmentStream st si d n)

theorem finalizePart_fst (st : State) (si : Nat) (p : Part) (e : Int) :
    (finalizePart st si p e).1.streams = st.streams ∧ (finalizePart st si p e).1.cfg = st.cfg := by
  unfold finalizePart
  simp only
  generalize ((st.stream si).tracks.zipIdx) = l
  suffices h : ∀ (acc : State × List PartTrack),
      (l.foldl (fun (acc : State × List PartTrack) (ti : Nat × Nat) =>
          match acc with
          | (st, c) =>
            let t := st.track ti.1
            match t.samples with
            | [] => (st, c)
            | smp => (st.setTrack ti.1 { t with samples := [] },
                      c ++ [{ id := 1 + ti.2, baseTime := t.startDTS, samples := smp }])) acc).1.streams = acc.1.streams ∧
      (l.foldl (fun (acc : State × List PartTrack) (ti : Nat × Nat) =>
          match acc with
          | (st, c) =>
            let t := st.track ti.1
            match t.samples with
            | [] => (st, c)
            | smp => (st.setTrack ti.1 { t with samples := [] },
                      c ++ [{ id := 1 + ti.2, baseTime := t.startDTS, samples := smp }])) acc).1.cfg = acc.1.cfg by
    exact h (st, [])
  induction l with
  | nil => intro acc; exact ⟨rfl, rfl⟩
  | cons a l ih =>
    intro acc
    simp only [List.foldl_cons]
    obtain ⟨s0, c0⟩ := acc
    have := ih (match (s0.track a.1).samples with
      | [] => (s0, c0)
      | smp => (s0.setTrack a.1 { s0.track a.1 with samples := [] },
                c0 ++ [{ id := 1 + a.2, baseTime := (s0.track a.1).startDTS, samples := smp }]))
    refine ⟨this.1.trans ?_, this.2.trans ?_⟩ <;> split <;> rfl


theorem pres_finalizePart (st : State) (si : Nat) (p : Part) (e : Int) : Pres st (finalizePart st si p e).1 :=
  Pres.of_eq (finalizePart_fst st si p e).1 (finalizePart_fst st si p e).2

theorem pres_rotatePartsStream (st : State) (si : Nat) (d : Int) (cn : Bool) :
    Pres st (rotatePartsStream st si d cn) := by
  unfold rotatePartsStream
  simp only
  split
  · rename_i part seg hp hs
    have hf := finalizePart_fst st si part d
    have hstream := stream_eq_of_streams_eq hf.1 si
    refine (pres_finalizePart st si part d).trans ?_
    refine Pres.trans (b := (finalizePart st si part d).1.setStream si _) (Pres.setStream ?_) (Pres.of_eq rfl rfl)
    intro h
    rw [hstream] at h
    rw [hstream]
    repeat' split
    all_goals exact ⟨fun _ => rfl, h.2.1, h.2.2⟩
  · exact Pres.refl st

/-! ### rotateSegmentsStream, restated with its window slide and target-duration update as named functions
    (`rotateSegmentsStream_eq` — by `rfl` — ties the restatement to the frozen model) -/

def slideWindow (si cnt : Nat) (s : StreamSt) (files : List PathKey) (segments : List Entry)
    (paths : List (PathKey × Handler)) : List Entry × List (PathKey × Handler) × List PathKey × Nat :=
  if segments.length > cnt then
    match segments with
    | .seg old :: rest =>
      let paths := old.parts.foldl (fun ps p => unregPath ps (.part si p.id)) paths
      let paths := unregPath paths (.seg si old.id)
      (rest, paths, files.filter (· ≠ .seg si old.id), s.deleteCount + 1)
    | .gap _ :: rest => (rest, paths, files, s.deleteCount + 1)
    | [] => (segments, paths, files, s.deleteCount)
  else (segments, paths, files, s.deleteCount)

def withTargetDur (s : StreamSt) : StreamSt × Nat :=
  if s.isLeading then
    let td := targetDuration s.segments
    if s.targetDur = 0 then ({ s with targetDur := td }, 0)
    else if td > s.targetDur then ({ s with targetDur := td }, 1)
    else (s, 0)
  else (s, 0)

def rotateSegmentsStream' (st : State) (si : Nat) (nextDTS nextNTP : Int) (force : Bool) : State :=
  let st := if st.cfg.variant ≠ .mpegts then rotatePartsStream st si nextDTS false else st
  let s := st.stream si
  match s.nextSegment with
  | none => st
  | some seg =>
    let nextSegmentID := s.nextSegmentID + 1
    let seg := { seg with endDTS := nextDTS }
    let segments :=
      if st.cfg.variant = .ll ∧ s.segments.isEmpty then gaps seg.duration else s.segments
    let segments := segments ++ [.seg seg]
    let h : Handler := if st.cfg.variant = .mpegts then .segTS seg.tsUnits else .segFMP4 seg.stored
    let paths := regPath st.paths (.seg si seg.id) h
    let (segments, paths, files, deleteCount) := slideWindow si st.cfg.segmentCount s st.files segments paths
    let (paths, initPresent) :=
      if st.cfg.variant ≠ .mpegts ∧ (!s.initPresent || seg.forced) then
        (regPath paths (.init si) (.init (s.tracks.map fun t => (st.track t).params)), true)
      else (paths, s.initPresent)
    let newSeg : Seg := { id := nextSegmentID, startDTS := nextDTS, startNTP := nextNTP,
                          forced := if st.cfg.variant = .mpegts then false else force }
    let nextPart : Option Part :=
      if st.cfg.variant = .mpegts then none else some { id := s.nextPartID, startDTS := nextDTS }
    let s := { s with nextSegmentID := nextSegmentID, segments := segments, deleteCount := deleteCount,
                      initPresent := initPresent, nextSegment := some newSeg, nextPart := nextPart }
    let (s, enc) := withTargetDur s
    { (st.setStream si s) with paths := paths, files := files ++ [.seg si newSeg.id], encErrs := st.encErrs + enc }

theorem rotateSegmentsStream_eq (st : State) (si : Nat) (d n : Int) (force : Bool) :
    rotateSegmentsStream st si d n force = rotateSegmentsStream' st si d n force := rfl

theorem slideWindow_len (si cnt : Nat) (s : StreamSt) (files : List PathKey) (segments : List Entry)
    (paths : List (PathKey × Handler)) : (slideWindow si cnt s files segments paths).1.length ≤ segments.length := by
  unfold slideWindow
  split
  · split <;> simp
  · simp

theorem withTargetDur_fst (s : StreamSt) :
    (withTargetDur s).1.segments = s.segments ∧ (withTargetDur s).1.nextSegment = s.nextSegment ∧
    (withTargetDur s).1.nextSegmentID = s.nextSegmentID := by
  unfold withTargetDur
  simp only
  repeat' split
  all_goals exact ⟨rfl, rfl, rfl⟩

theorem gaps_length (d : Int) : (gaps d).length = 7 := by simp [gaps, llGapCount]

theorem pres_rotateSegmentsStream (st : State) (si : Nat) (d n : Int) (force : Bool) :
    Pres st (rotateSegmentsStream st si d n force) := by
  rw [rotateSegmentsStream_eq]
  unfold rotateSegmentsStream'
  extract_lets st1 s nid newSeg nextPart
  have h1 : Pres st st1 := Pres.ite (pres_rotatePartsStream st si d false) (Pres.refl st)
  refine h1.trans ?_
  split
  · exact Pres.refl _
  · rename_i seg hseg
    extract_lets seg' segs0 segs1 hd paths0
    generalize hw : slideWindow si st1.cfg.segmentCount s st1.files segs1 paths0 = w
    obtain ⟨segs2, paths1, files1, dc⟩ := w
    have hlen : segs2.length ≤ segs1.length := by
      have := slideWindow_len si st1.cfg.segmentCount s st1.files segs1 paths0
      rw [hw] at this; exact this
    simp only
    refine Pres.trans (b := st1.setStream si _) (Pres.setStream ?_) (Pres.of_eq rfl rfl)
    intro hok
    refine ⟨fun _ => ?_, ?_, ?_⟩
    · rw [(withTargetDur_fst _).2.1]; rfl
    · rw [(withTargetDur_fst _).1, (withTargetDur_fst _).2.2]
      show segs2.length ≤ s.nextSegmentID + 1
      refine Nat.le_trans hlen ?_
      show (segs0 ++ [Entry.seg seg']).length ≤ _
      rw [List.length_append, List.length_singleton]
      apply Nat.succ_le_succ
      show (if st1.cfg.variant = Variant.ll ∧ s.segments.isEmpty = true then gaps seg'.duration else s.segments).length ≤ _
      split
      · rename_i hc; rw [gaps_length]; exact hok.2.2 hc.1
      · exact hok.2.1
    · intro hv
      rw [(withTargetDur_fst _).2.2]
      exact Nat.le_succ_of_le (hok.2.2 hv)

/-- changing only the target durations of a stream -/
theorem pres_setDurs (st : State) (si : Nat) (td ptd : Int) :
    Pres st (st.setStream si { (st.stream si) with targetDur := td, partTargetDur := ptd }) :=
  Pres.setStream (fun h => ⟨h.1, h.2.1, h.2.2⟩)

theorem pres_rotateParts (st : State) (d : Int) : Pres st (rotateParts st d) := by
  unfold rotateParts
  simp only
  refine (pres_rotatePartsStream st _ d true).trans (Pres.foldl _ _ _ ?_)
  intro st' si
  split
  · exact Pres.refl _
  · refine (pres_rotatePartsStream st' si d true).trans (Pres.setStream (fun h => ⟨h.1, h.2.1, h.2.2⟩))

theorem pres_rotateSegments (st : State) (d n : Int) (f : Bool) : Pres st (rotateSegments st d n f) := by
  unfold rotateSegments
  simp only
  refine (pres_rotateSegmentsStream st _ d n f).trans (Pres.foldl _ _ _ ?_)
  intro st' si
  split
  · exact Pres.refl _
  · refine (pres_rotateSegmentsStream st' si d n f).trans (Pres.setStream (fun h => ⟨h.1, h.2.1, h.2.2⟩))

theorem pres_adjustPartDuration (st : State) (sd : Int) : Pres st (adjustPartDuration st sd) := by
  unfold adjustPartDuration
  repeat' split
  all_goals first | exact Pres.refl _ | exact Pres.of_eq rfl rfl

theorem pres_partWriteSample (st : State) (ti : Nat) (smp : Sample) : Pres st (partWriteSample st ti smp).1 := by
  unfold partWriteSample
  simp only
  split
  · rename_i seg part hs hp
    split
    · exact Pres.refl _
    · refine Pres.trans ?_ (Pres.setStream (fun h => ?_))
      · exact pres_setTrack st ti _
      · exact ⟨fun _ => rfl, h.2.1, h.2.2⟩
  · exact Pres.refl _

theorem pres_tsWrite (st : State) (u : TsUnit) (size : Nat) (e : Option Int) (c : Bool) :
    Pres st (tsWrite st u size e c).1 := by
  unfold tsWrite
  simp only
  split
  · exact Pres.refl _
  · split
    · exact Pres.refl _
    · exact Pres.setStream (fun h => ⟨fun _ => rfl, h.2.1, h.2.2⟩)

theorem pres_paramsStep (st : State) (ti par : Nat) (ra : Bool) : Pres st (paramsStep st ti par ra).1 := by
  unfold paramsStep
  simp only
  repeat' split
  all_goals first | exact Pres.refl _ | exact Pres.of_eq rfl rfl

theorem pres_fmp4Write_tail {st stC : State} (h4 : Pres st stC) (c₁ c₂ : Prop) [Decidable c₁] [Decidable c₂]
    (ch : Bool) (nd ntp : Int) :
    Pres st (if c₁ then
        (let st := rotateSegments stC nd ntp ch
         let st := if ch then { st with freeze := false, durs := [] } else { st with freeze := true }
         (st, WriteRes.ok))
      else if c₂ then (rotateParts stC nd, WriteRes.ok) else (stC, WriteRes.ok)).fst := by
  split
  · refine (h4.trans (pres_rotateSegments stC nd ntp ch)).trans ?_
    show Pres _ (if ch = true then _ else _)
    split <;> exact Pres.of_eq rfl rfl
  · split
    · exact h4.trans (pres_rotateParts stC nd)
    · exact h4

theorem pres_fmp4Write (st : State) (ti : Nat) (ra ch : Bool) (smp : Sample) :
    Pres st (fmp4Write st ti ra ch smp).1 := by
  unfold fmp4Write
  extract_lets rate smp' t st1 si lead hasSeg nd
  have h1 : Pres st st1 := pres_setTrack st ti _
  split
  · exact Pres.refl _
  · split
    · exact h1
    · rename_i old hold
      extract_lets duration old' stA stB
      split
      · exact h1
      ·
        have hA : Pres st1 stA := Pres.ite (pres_createFirstSegment st1 _ _) (Pres.refl _)
        have hB : Pres stA stB := Pres.ite (pres_adjustPartDuration stA _) (Pres.refl _)
        have hC := pres_partWriteSample stB ti old'
        have h3 := (h1.trans hA).trans hB
        generalize partWriteSample stB ti old' = pw at hC
        obtain ⟨stC, res⟩ := pw
        have h4 : Pres st stC := h3.trans hC
        cases res with
        | err => exact h4
        | ok =>
          simp only
          split
          · exact h4
          · exact pres_fmp4Write_tail h4 _ _ ch nd smp'.ntp

theorem pres_fmp4WriteMany (st : State) (ti : Nat) (l : List Sample) : Pres st (fmp4WriteMany st ti l).1 := by
  induction l generalizing st with
  | nil => exact Pres.refl _
  | cons a l ih =>
    unfold fmp4WriteMany
    have h := pres_fmp4Write st ti true false a
    generalize fmp4Write st ti true false a = r at h
    obtain ⟨st', res⟩ := r
    cases res with
    | err => exact h
    | ok => exact h.trans (ih st')
theorem Pres.ite_fst {st : State} {c : Prop} [Decidable c] {a b : State × WriteRes}
    (ha : Pres st a.1) (hb : Pres st b.1) : Pres st (if c then a else b).1 := by
  split <;> assumption

theorem pres_setPending (st : State) (b : Bool) : Pres st { st with pending := b } := Pres.of_eq rfl rfl

macro "pres_step" : tactic => `(tactic| first
  | with_reducible exact Pres.refl _
  | assumption
  | with_reducible refine Pres.trans ?_ (pres_tsWrite _ _ _ _ _)
  | with_reducible refine Pres.trans ?_ (pres_fmp4Write _ _ _ _ _)
  | with_reducible refine Pres.trans ?_ (pres_fmp4WriteMany _ _ _)
  | with_reducible refine Pres.trans ?_ (pres_setTrack _ _ _)
  | with_reducible refine Pres.trans ?_ (pres_createFirstSegment _ _ _)
  | with_reducible refine Pres.trans ?_ (pres_rotateSegments _ _ _ _)
  | with_reducible refine Pres.ite_fst ?_ ?_
  | with_reducible refine Pres.ite ?_ ?_
  | split)

theorem pres_write (st : State) (op : WriteOp) : Pres st (write st op).1 := by
  unfold write
  simp only
  split
  · refine Pres.ite_fst ?_ ?_
    · show Pres st (if _ then _ else _)
      split
      · exact Pres.of_eq rfl rfl
      · exact Pres.refl _
    · have hp := pres_paramsStep st op.track op.par op.ra
      generalize paramsStep st op.track op.par op.ra = ps at hp
      obtain ⟨stP, changed⟩ := ps
      simp only at hp ⊢
      repeat' pres_step
  all_goals
    first
    | (have hp := pres_paramsStep st op.track op.par op.ra
       generalize paramsStep st op.track op.par op.ra = ps at hp
       obtain ⟨stP, changed⟩ := ps
       simp only at hp ⊢
       repeat' pres_step)
    | (repeat' pres_step)

theorem pres_run (st : State) (ops : List WriteOp) : Pres st (run st ops) := by
  induction ops generalizing st with
  | nil => exact Pres.refl _
  | cons op ops ih => exact (pres_write st op).trans (ih _)

/-- `Muxer.Start` establishes the invariant. -/
theorem inv_start {cfg : Cfg} {st0 : State} (h : start cfg = .ok st0) : Inv st0 := by
  unfold start at h
  extract_lets cfg' e1 minCount nid lead streams paths0 paths at h
  clear_value e1 paths minCount
  split at h
  · cases h
  · rename_i hne
    split at h
    · cases h
    · split at h
      · cases h
      · cases h
        have hnid : cfg'.variant = Variant.ll → 7 ≤ nid := by
          intro hv; show 7 ≤ (if cfg'.variant = Variant.ll then 7 else 0); rw [if_pos hv]; exact Nat.le_refl 7
        refine ⟨?_, ?_⟩
        · show streams ≠ []
          show (match cfg'.variant with
            | Variant.mpegts => [({ tracks := List.range cfg'.tracks.length, isLeading := true, nextSegmentID := nid } : StreamSt)]
            | _ => List.map (fun i => ({ tracks := [i], isLeading := decide (i = lead), nextSegmentID := nid } : StreamSt))
                (List.range cfg'.tracks.length)) ≠ []
          split
          · simp
          · intro he
            have hl := congrArg List.length he
            simp only [List.length_map, List.length_range, List.length_nil] at hl
            have : cfg'.tracks = [] := List.eq_nil_of_length_eq_zero hl
            simp [this] at hne
        · intro s hs
          have hs' : s ∈ (match cfg'.variant with
            | Variant.mpegts => [({ tracks := List.range cfg'.tracks.length, isLeading := true, nextSegmentID := nid } : StreamSt)]
            | _ => List.map (fun i => ({ tracks := [i], isLeading := decide (i = lead), nextSegmentID := nid } : StreamSt))
                (List.range cfg'.tracks.length)) := hs
          split at hs'
          · simp only [List.mem_singleton] at hs'
            subst hs'
            exact ⟨fun hc => absurd rfl hc, Nat.zero_le _, hnid⟩
          · simp only [List.mem_map] at hs'
            obtain ⟨i, _, rfl⟩ := hs'
            exact ⟨fun hc => absurd rfl hc, Nat.zero_le _, hnid⟩

/-- every state of the writer's sequential run satisfies the invariant -/
theorem inv_run {cfg : Cfg} {st0 : State} (h : start cfg = .ok st0) (ops : List WriteOp) : Inv (run st0 ops) :=
  (pres_run st0 ops).2 (inv_start h)

theorem sOK_stream {st : State} (hi : Inv st) (si : Nat) :
    ((st.stream si).segments ≠ [] → (st.stream si).nextSegment.isSome = true) ∧
    (st.stream si).segments.length ≤ (st.stream si).nextSegmentID := by
  by_cases hlt : si < st.streams.length
  · have := hi.2 _ (stream_mem hlt)
    exact ⟨this.1, this.2.1⟩
  · have : st.stream si = { tracks := [], isLeading := false, nextSegmentID := 0 } := by
      simp only [State.stream, List.getD_eq_getElem?_getD]
      rw [List.getElem?_eq_none (Nat.le_of_not_lt hlt)]; rfl
    rw [this]
    exact ⟨fun hc => absurd rfl hc, Nat.le_refl 0⟩

end Hls.Race.SeqInv
