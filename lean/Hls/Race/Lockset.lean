/-
  C08 — race freedom as a lockset-with-publication discipline (generic part).

  * `Access`      one row of the regenerated table `Hls.Gen.accesses` (tie T1, go/cmd/extract/gen_accesses.go)
  * `Policy`      what the hand-written PHASE MAP (Hls/Race/PhaseMap.lean, trusted) claims about a field
  * `rowOK`       the per-row check (linear in the table; this is what `decide` evaluates)
  * `disciplined` the pairwise statement: every conflicting pair of accesses is SAFE
                  (shares a lock in conflicting modes, or is separated by a publication phase)
  * `rowsOK_disciplined`   rowOK for every row ⇒ disciplined
  * `lockset_sound`        in an abstract interleaving machine (threads, mutexes/RW-locks held by at most
                           one writer, objects that are published once), a disciplined table admits no
                           reachable state in which two different threads have conflicting accesses to the
                           same field of the same object enabled — i.e. no data race.
  Core Lean only.
-/
namespace Hls.Race

inductive Role | init | writer | handler | close
  deriving DecidableEq, Repr

/-- `addr` = the address of the field is taken (treated as a write unless the phase map lists the
    place as a read-only alias); `lit` = the field is initialised in the composite literal that
    allocates the object (the object is not reachable by anybody else yet). -/
inductive Kind | r | w | addr | lit
  deriving DecidableEq, Repr

/-- `M` the muxer mutex, `S` the path table's RWMutex, `F` a disk file's mutex (fix-F14b). -/
inductive Lock | M | S | F
  deriving DecidableEq, Repr

inductive Mode | shared | excl
  deriving DecidableEq, Repr

structure Access (Fn Field : Type) where
  fn    : Fn
  field : Field
  kind  : Kind
  locks : List (Lock × Mode)
  role  : Role
  deriving DecidableEq, Repr

/-- What the phase map says about one field. -/
inductive Policy (Fn : Type)
  /-- written only before `Start` returns (and in allocation literals) -/
  | initOnly
  /-- never touched by a handler: private to the goroutine that calls `Write*` and finally `Close` -/
  | producerOnly
  /-- written only by the producer, holding `l` exclusively; handlers only read, holding `l`;
      the producer may read its own writes without the lock -/
  | ownerWrites (l : Lock)
  /-- written (by the producer, in one of `openFns`) only while the object is not yet reachable by
      handlers; never written after publication; handlers reach published objects only -/
  | published (openFns : List Fn)
  /-- `ownerWrites l`, except that the producer may also write without the lock in `openFns`, which run
      only before the object is published (handlers read the field of published objects only) -/
  | ownerWritesOrOpen (l : Lock) (openFns : List Fn)

structure Discipline (Fn Field : Type) where
  policy       : Field → Policy Fn
  /-- places where `&x.f` only creates a read-only alias that does not outlive the critical section -/
  addrReadOnly : List (Fn × Field)

set_option linter.unusedSectionVars false
variable {Fn Field : Type} [DecidableEq Fn] [DecidableEq Field]

def Access.holds (a : Access Fn Field) (l : Lock) : Bool := a.locks.any (fun p => p.1 == l)
def Access.holdsExcl (a : Access Fn Field) (l : Lock) : Bool := a.locks.contains (l, .excl)
def Access.isHandler (a : Access Fn Field) : Bool := a.role == .handler

/-- rows that take part in the analysis: `Start` happens before every other call (usage assumption),
    allocation literals touch objects nobody else can reach -/
def Access.relevant (a : Access Fn Field) : Bool := a.role != .init && a.kind != .lit

def isWrite (d : Discipline Fn Field) (a : Access Fn Field) : Bool :=
  a.kind == .w || (a.kind == .addr && !d.addrReadOnly.contains (a.fn, a.field))

/-- the access is justified by "the object is still private to the producer" -/
def openAccess (d : Discipline Fn Field) (a : Access Fn Field) : Bool :=
  !a.isHandler && isWrite d a &&
  match d.policy a.field with
  | .published fns => fns.contains a.fn
  | .ownerWritesOrOpen l fns => !a.holdsExcl l && fns.contains a.fn
  | _ => false

/-- the access is a handler's access to a field with a publication phase -/
def pubAccess (d : Discipline Fn Field) (a : Access Fn Field) : Bool :=
  a.isHandler &&
  match d.policy a.field with
  | .published _ => true
  | .ownerWritesOrOpen _ _ => true
  | _ => false

/-- The per-row check. -/
def rowOK (d : Discipline Fn Field) (a : Access Fn Field) : Bool :=
  !a.relevant ||
  match d.policy a.field with
  | .initOnly => !isWrite d a
  | .producerOnly => !a.isHandler
  | .ownerWrites l =>
      if a.isHandler then !isWrite d a && a.holds l else !isWrite d a || a.holdsExcl l
  | .published fns => !isWrite d a || (!a.isHandler && fns.contains a.fn)
  | .ownerWritesOrOpen l fns =>
      if a.isHandler then !isWrite d a && a.holds l
      else !isWrite d a || a.holdsExcl l || fns.contains a.fn

/-- two roles that can run at the same time: any number of handler goroutines, one producer
    goroutine (`Write*` … `Close` are calls of one goroutine, in this order) -/
def concurrentRoles (r₁ r₂ : Role) : Bool := r₁ == .handler || r₂ == .handler

def conflict (d : Discipline Fn Field) (a b : Access Fn Field) : Bool :=
  a.relevant && b.relevant && a.field == b.field && (isWrite d a || isWrite d b) &&
  concurrentRoles a.role b.role

/-- a common lock, held exclusively by at least one side -/
def shareLock (a b : Access Fn Field) : Bool :=
  a.locks.any (fun p => p.2 == .excl && b.holds p.1) || b.locks.any (fun p => p.2 == .excl && a.holds p.1)

def phaseSeparated (d : Discipline Fn Field) (a b : Access Fn Field) : Bool :=
  (openAccess d a && pubAccess d b) || (pubAccess d a && openAccess d b)

def safe (d : Discipline Fn Field) (a b : Access Fn Field) : Bool := shareLock a b || phaseSeparated d a b

/-- every conflicting pair of rows is SAFE -/
def disciplined (d : Discipline Fn Field) (tbl : List (Access Fn Field)) : Bool :=
  tbl.all fun a => tbl.all fun b => !conflict d a b || safe d a b

/-! ## rowOK ⇒ disciplined -/

theorem holdsExcl_shareLock_left {a b : Access Fn Field} {l : Lock}
    (ha : a.holdsExcl l = true) (hb : b.holds l = true) : shareLock a b = true := by
  unfold shareLock
  apply Bool.or_eq_true_iff.mpr; left
  rw [List.any_eq_true]
  refine ⟨(l, .excl), ?_, ?_⟩
  · simpa [Access.holdsExcl] using ha
  · simp [hb]

theorem shareLock_comm (a b : Access Fn Field) : shareLock a b = shareLock b a := by
  unfold shareLock; exact Bool.or_comm _ _

theorem phaseSeparated_comm (d : Discipline Fn Field) (a b : Access Fn Field) :
    phaseSeparated d a b = phaseSeparated d b a := by
  unfold phaseSeparated
  rw [Bool.or_comm, Bool.and_comm (pubAccess d a), Bool.and_comm (openAccess d a)]

theorem safe_comm (d : Discipline Fn Field) (a b : Access Fn Field) : safe d a b = safe d b a := by
  unfold safe; rw [shareLock_comm, phaseSeparated_comm]

/-- the core case: `a` is a handler row, `b` is the writing row -/
theorem safe_of_rowOK_handler_write {d : Discipline Fn Field} {a b : Access Fn Field}
    (ha : rowOK d a = true) (hb : rowOK d b = true) (hra : a.relevant = true) (hrb : b.relevant = true)
    (hf : a.field = b.field) (hah : a.isHandler = true) (hbw : isWrite d b = true) :
    safe d a b = true := by
  unfold rowOK at ha hb
  simp only [hra, hrb, Bool.not_true, Bool.false_or] at ha hb
  rw [hf] at ha
  unfold safe
  cases hp : d.policy b.field with
  | initOnly => simp [hp, hbw] at hb
  | producerOnly => simp [hp, hah] at ha
  | ownerWrites l =>
    simp only [hp, hah, if_true, Bool.and_eq_true] at ha
    by_cases hbh : b.isHandler = true
    · simp [hp, hbh, hbw] at hb
    · simp only [hp, hbh, hbw, Bool.not_true, Bool.false_or] at hb
      have hbh' : b.isHandler = false := by simpa using hbh
      rw [shareLock_comm, holdsExcl_shareLock_left (by simpa [hbh'] using hb) ha.2]; rfl
  | published fns =>
    simp only [hp, hbw, Bool.not_true, Bool.false_or, Bool.and_eq_true] at hb
    have hbh : b.isHandler = false := by simpa using hb.1
    have h1 : pubAccess d a = true := by simp [pubAccess, hah, hf, hp]
    have hfn : b.fn ∈ fns := by simpa using hb.2
    have h2 : openAccess d b = true := by simp [openAccess, hbh, hbw, hp, hfn]
    simp [phaseSeparated, h1, h2]
  | ownerWritesOrOpen l fns =>
    simp only [hp, hah, if_true, Bool.and_eq_true] at ha
    by_cases hbh : b.isHandler = true
    · simp [hp, hbh, hbw] at hb
    · have hbh' : b.isHandler = false := by simpa using hbh
      simp only [hp, hbh', hbw, Bool.not_true, Bool.false_or] at hb
      by_cases hx : b.holdsExcl l = true
      · rw [shareLock_comm, holdsExcl_shareLock_left hx ha.2]; rfl
      · have hx' : b.holdsExcl l = false := by simpa using hx
        have hfn : b.fn ∈ fns := by simpa [hx', hbh'] using hb
        have h1 : pubAccess d a = true := by simp [pubAccess, hah, hf, hp]
        have h2 : openAccess d b = true := by simp [openAccess, hbh', hbw, hp, hx', hfn]
        simp [phaseSeparated, h1, h2]

/-- a relevant handler row that writes is never `rowOK` -/
theorem handler_write_not_rowOK {d : Discipline Fn Field} {a : Access Fn Field}
    (hra : a.relevant = true) (hah : a.isHandler = true) (haw : isWrite d a = true) : rowOK d a = false := by
  unfold rowOK
  cases hp : d.policy a.field <;> simp [hra, hah, haw]

theorem safe_of_rowOK {d : Discipline Fn Field} {a b : Access Fn Field}
    (ha : rowOK d a = true) (hb : rowOK d b = true) (hc : conflict d a b = true) : safe d a b = true := by
  unfold conflict at hc
  simp only [Bool.and_eq_true, Bool.or_eq_true, beq_iff_eq] at hc
  obtain ⟨⟨⟨⟨hra, hrb⟩, hf⟩, hw⟩, hcr⟩ := hc
  unfold concurrentRoles at hcr
  simp only [Bool.or_eq_true, beq_iff_eq] at hcr
  have hA : a.role = .handler → a.isHandler = true := fun h => by simp [Access.isHandler, h]
  have hB : b.role = .handler → b.isHandler = true := fun h => by simp [Access.isHandler, h]
  -- a handler never writes (rowOK), so the write is on the other side
  rcases hcr with h | h
  · have hah := hA h
    rcases hw with haw | hbw
    · rw [handler_write_not_rowOK hra hah haw] at ha; cases ha
    · exact safe_of_rowOK_handler_write ha hb hra hrb hf hah hbw
  · have hbh := hB h
    rcases hw with haw | hbw
    · rw [safe_comm]; exact safe_of_rowOK_handler_write hb ha hrb hra hf.symm hbh haw
    · rw [handler_write_not_rowOK hrb hbh hbw] at hb; cases hb

/-- The linear check implies the pairwise statement. -/
theorem rowsOK_disciplined (d : Discipline Fn Field) (tbl : List (Access Fn Field))
    (h : tbl.all (rowOK d) = true) : disciplined d tbl = true := by
  unfold disciplined
  rw [List.all_eq_true] at h ⊢
  intro a ha
  rw [List.all_eq_true]
  intro b hb
  cases hc : conflict d a b with
  | false => rfl
  | true => simpa using safe_of_rowOK (h a ha) (h b hb) hc

/-! ## The abstract interleaving machine -/

abbrev Tid := Nat
abbrev Obj := Nat

/-- Synchronisation state: which thread holds which lock in which mode, which objects are published.
    Data values are not modelled — a data race is a property of the synchronisation state. -/
structure St where
  held : List (Tid × Lock × Mode)
  pub  : Obj → Bool

def St.init : St := { held := [], pub := fun _ => false }

/-- thread 0 is the producer (the `Write*`/`Close` goroutine), every other thread is a handler -/
def threadOK (t : Tid) (r : Role) : Prop :=
  (r = .handler ∧ t ≠ 0) ∨ ((r = .writer ∨ r = .close) ∧ t = 0)

/-- Thread `t` may perform access `a` on object `o` in state `σ`:
    it holds every lock the table says is held there (meaning of the table's lock column),
    a handler reaches an object with a publication phase only once it is published, and a producer
    access justified by "still private" happens only before publication (meaning of the phase map). -/
def canDo (d : Discipline Fn Field) (tbl : List (Access Fn Field)) (σ : St) (t : Tid)
    (a : Access Fn Field) (o : Obj) : Prop :=
  a ∈ tbl ∧ a.relevant = true ∧ threadOK t a.role ∧
  (∀ p ∈ a.locks, (t, p.1, p.2) ∈ σ.held) ∧
  (pubAccess d a = true → σ.pub o = true) ∧
  (openAccess d a = true → σ.pub o = false)

inductive Step : St → St → Prop
  /-- exclusive acquisition: nobody holds the lock -/
  | lock (σ : St) (t : Tid) (l : Lock) (h : ∀ e ∈ σ.held, e.2.1 ≠ l) :
      Step σ { σ with held := (t, l, .excl) :: σ.held }
  /-- shared acquisition (RWMutex.RLock): nobody holds the lock exclusively -/
  | rlock (σ : St) (t : Tid) (l : Lock) (h : ∀ e ∈ σ.held, e.2.1 = l → e.2.2 ≠ .excl) :
      Step σ { σ with held := (t, l, .shared) :: σ.held }
  | unlock (σ : St) (t : Tid) (l : Lock) (m : Mode) :
      Step σ { σ with held := σ.held.erase (t, l, m) }
  /-- publication is one-way -/
  | publish (σ : St) (o : Obj) :
      Step σ { σ with pub := fun x => if x = o then true else σ.pub x }
  /-- an access changes no synchronisation state -/
  | access (σ : St) : Step σ σ

inductive Reachable : St → Prop
  | init : Reachable St.init
  | step {σ σ' : St} : Reachable σ → Step σ σ' → Reachable σ'

/-- a lock held exclusively is held by one thread only -/
def LockInv (σ : St) : Prop :=
  ∀ t₁ t₂ l m, (t₁, l, Mode.excl) ∈ σ.held → (t₂, l, m) ∈ σ.held → t₁ = t₂

theorem lockInv_reachable {σ : St} (h : Reachable σ) : LockInv σ := by
  induction h with
  | init => intro _ _ _ _ h; cases h
  | step _ hs ih =>
    cases hs with
    | lock t l hfree =>
      intro t₁ t₂ l' m h₁ h₂
      simp only [List.mem_cons] at h₁ h₂
      rcases h₁ with h₁ | h₁ <;> rcases h₂ with h₂ | h₂
      · cases h₁; cases h₂; rfl
      · cases h₁; exact absurd rfl (hfree _ h₂)
      · cases h₂; exact absurd rfl (hfree _ h₁)
      · exact ih _ _ _ _ h₁ h₂
    | rlock t l hfree =>
      intro t₁ t₂ l' m h₁ h₂
      simp only [List.mem_cons] at h₁ h₂
      rcases h₁ with h₁ | h₁ <;> rcases h₂ with h₂ | h₂
      · cases h₁
      · cases h₁
      · cases h₂; exact absurd rfl (hfree _ h₁ rfl)
      · exact ih _ _ _ _ h₁ h₂
    | unlock t l m =>
      intro t₁ t₂ l' m' h₁ h₂
      exact ih _ _ _ _ (List.mem_of_mem_erase h₁) (List.mem_of_mem_erase h₂)
    | publish o => exact ih
    | access => exact ih

/-- **lockset_sound.** If every conflicting pair of rows of the table is SAFE, then in no reachable
    state do two different threads have conflicting accesses (same field of the same object, at least
    one a write) enabled at the same time. -/
theorem lockset_sound (d : Discipline Fn Field) (tbl : List (Access Fn Field))
    (hd : disciplined d tbl = true) {σ : St} (hr : Reachable σ)
    {t₁ t₂ : Tid} {a b : Access Fn Field} {o : Obj}
    (h₁ : canDo d tbl σ t₁ a o) (h₂ : canDo d tbl σ t₂ b o) (hne : t₁ ≠ t₂)
    (hf : a.field = b.field) (hw : isWrite d a = true ∨ isWrite d b = true) : False := by
  obtain ⟨ha, hra, hta, hla, hpa, hoa⟩ := h₁
  obtain ⟨hb, hrb, htb, hlb, hpb, hob⟩ := h₂
  have hcr : concurrentRoles a.role b.role = true := by
    unfold concurrentRoles
    rcases hta with ⟨h, _⟩ | ⟨_, h0⟩
    · simp [h]
    · rcases htb with ⟨h, _⟩ | ⟨_, h0'⟩
      · simp [h]
      · exact absurd (h0.trans h0'.symm) hne
  have hc : conflict d a b = true := by
    unfold conflict
    simp only [Bool.and_eq_true, Bool.or_eq_true, beq_iff_eq]
    exact ⟨⟨⟨⟨hra, hrb⟩, hf⟩, hw⟩, hcr⟩
  have hs : safe d a b = true := by
    unfold disciplined at hd
    rw [List.all_eq_true] at hd
    have := hd a ha
    rw [List.all_eq_true] at this
    simpa [hc] using this b hb
  have hinv := lockInv_reachable hr
  unfold safe at hs
  rcases Bool.or_eq_true_iff.mp hs with hs | hs
  · unfold shareLock at hs
    rcases Bool.or_eq_true_iff.mp hs with hs | hs
    · obtain ⟨p, hp, hq⟩ := List.any_eq_true.mp hs
      simp only [Bool.and_eq_true, beq_iff_eq] at hq
      obtain ⟨q, hq1, hq2⟩ := List.any_eq_true.mp hq.2
      have e1 := hla p hp
      have e2 := hlb q hq1
      have : q.1 = p.1 := by simpa using hq2
      rw [hq.1] at e1; rw [this] at e2
      exact hne (hinv _ _ _ _ e1 e2)
    · obtain ⟨p, hp, hq⟩ := List.any_eq_true.mp hs
      simp only [Bool.and_eq_true, beq_iff_eq] at hq
      obtain ⟨q, hq1, hq2⟩ := List.any_eq_true.mp hq.2
      have e1 := hlb p hp
      have e2 := hla q hq1
      have : q.1 = p.1 := by simpa using hq2
      rw [hq.1] at e1; rw [this] at e2
      exact hne (hinv _ _ _ _ e1 e2).symm
  · unfold phaseSeparated at hs
    rcases Bool.or_eq_true_iff.mp hs with hs | hs
    · simp only [Bool.and_eq_true] at hs
      have := hoa hs.1; rw [hpb hs.2] at this; cases this
    · simp only [Bool.and_eq_true] at hs
      have := hob hs.2; rw [hpa hs.1] at this; cases this

/-- What the snapshot argument needs from the table: under `ownerWrites l` / `ownerWritesOrOpen l _`
    every handler access to the field holds `l`. -/
theorem handler_holds_of_rowOK {d : Discipline Fn Field} {a : Access Fn Field} {l : Lock}
    (h : rowOK d a = true) (hr : a.relevant = true) (hh : a.isHandler = true)
    (hp : (∃ fns, d.policy a.field = .ownerWritesOrOpen l fns) ∨ d.policy a.field = .ownerWrites l) :
    a.holds l = true := by
  unfold rowOK at h
  rcases hp with ⟨fns, hp⟩ | hp <;> simp [hr, hp, hh] at h <;> exact h.2

end Hls.Race
