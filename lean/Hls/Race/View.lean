import Hls.Muxer.Model
import Hls.Race.Snapshot
/-
  C08 — what a handler can observe of a muxer state (the "handler view"), and the fact that the model's
  UNLOCKED steps (everything `Write*` does outside `Muxer.rotateParts` / `rotateSegments`: track bookkeeping,
  `muxerPart.writeSample`, MPEG-TS `writeH264/writeMPEG4Audio`, `fmp4AdjustPartDuration`, parameter-set
  bookkeeping) do not change it.  Together with `c08_handlers_locked` (handlers evaluate under M) this is
  why treating one model `write` as the writer's atomic step loses nothing a requester could see: between
  two rotations every state has the same view.  Core Lean only.
-/
namespace Hls.Race.View
open Hls.Muxer Hls.Race.Snapshot

/-- the part of a stream a handler reads -/
structure SView where
  segments      : List Entry
  openParts     : List Part       -- `s.nextSegment.(*muxerSegmentFMP4).parts`
  nextSegmentID : Nat
  nextPartID    : Nat
  deleteCount   : Nat
  targetDur     : Int
  partTargetDur : Int

def openPartsOf (s : StreamSt) : List Part :=
  match s.nextSegment with
  | some g => g.parts
  | none => []

def sview (s : StreamSt) : SView :=
  { segments := s.segments, openParts := openPartsOf s, nextSegmentID := s.nextSegmentID,
    nextPartID := s.nextPartID, deleteCount := s.deleteCount, targetDur := s.targetDur,
    partTargetDur := s.partTargetDur }

/-- the handler view of a state: variant, path table, per-stream views -/
def view (st : State) : Variant × List (PathKey × Handler) × List SView :=
  (st.cfg.variant, st.paths, st.streams.map sview)

theorem sview_stream {st st' : State} (h : view st = view st') (si : Nat) :
    sview (st.stream si) = sview (st'.stream si) := by
  have hs : st.streams.map sview = st'.streams.map sview := by
    have := congrArg (fun v => v.2.2) h; exact this
  have hget : ∀ (l : List StreamSt) (d : StreamSt), sview (l.getD si d) = (l.map sview).getD si (sview d) := by
    intro l d
    simp only [List.getD_eq_getElem?_getD, List.getElem?_map]
    cases l[si]? <;> rfl
  simp only [State.stream]
  rw [hget, hget, hs]

/-- `mediaPlaylist`, restated on the view -/
theorem mediaPlaylist_congr {st st' : State} (h : view st = view st') (si : Nat) (d : Bool) :
    mediaPlaylist st si d = mediaPlaylist st' si d := by
  have hv : st.cfg.variant = st'.cfg.variant := congrArg (fun v => v.1) h
  have hs := sview_stream h si
  have e1 : (st.stream si).segments = (st'.stream si).segments := congrArg SView.segments hs
  have e2 : openPartsOf (st.stream si) = openPartsOf (st'.stream si) := congrArg SView.openParts hs
  have e4 : (st.stream si).nextPartID = (st'.stream si).nextPartID := congrArg SView.nextPartID hs
  have e5 : (st.stream si).deleteCount = (st'.stream si).deleteCount := congrArg SView.deleteCount hs
  have e6 : (st.stream si).targetDur = (st'.stream si).targetDur := congrArg SView.targetDur hs
  have e7 : (st.stream si).partTargetDur = (st'.stream si).partTargetDur := congrArg SView.partTargetDur hs
  unfold mediaPlaylist
  simp only [hv, e1, e4, e5, e6, e7]
  unfold openPartsOf at e2
  cases hn : (st.stream si).nextSegment <;> cases hn' : (st'.stream si).nextSegment <;>
    simp only [hn, hn'] at e2 ⊢
  · rw [← e2]; rfl
  · rw [e2]; rfl
  · rw [e2]

theorem hasPart_congr {s s' : StreamSt} (h : sview s = sview s') (m p : Nat) : s.hasPart m p = s'.hasPart m p := by
  have e1 : s.segments = s'.segments := congrArg SView.segments h
  have e2 : openPartsOf s = openPartsOf s' := congrArg SView.openParts h
  have e3 : s.nextSegmentID = s'.nextSegmentID := congrArg SView.nextSegmentID h
  have e2' : s.openPartCount = s'.openPartCount := by
    have : ∀ t : StreamSt, t.openPartCount = (openPartsOf t).length := by
      intro t; unfold StreamSt.openPartCount openPartsOf; cases t.nextSegment <;> rfl
    rw [this, this, e2]
  unfold StreamSt.hasPart
  rw [e1, e3, e2']

theorem reqDecision_congr {st st' : State} (h : view st = view st') (si : Nat) (m p : Option Nat) (sk : Bool) :
    reqDecision st si m p sk = reqDecision st' si m p sk := by
  have hv : st.cfg.variant = st'.cfg.variant := congrArg (fun v => v.1) h
  have hs := sview_stream h si
  have e1 : (st.stream si).segments = (st'.stream si).segments := congrArg SView.segments hs
  have e3 : (st.stream si).nextSegmentID = (st'.stream si).nextSegmentID := congrArg SView.nextSegmentID hs
  have hc : ∀ v, (st.stream si).hasContent v = (st'.stream si).hasContent v := by
    intro v; unfold StreamSt.hasContent; rw [e1]
  have hp : ∀ a b, (st.stream si).hasPart a b = (st'.stream si).hasPart a b := fun a b => hasPart_congr hs a b
  unfold reqDecision
  simp only [hv, e1, e3, hc, hp]

theorem get_congr {st st' : State} (h : view st = view st') (k : PathKey) : Hls.Muxer.get st k = Hls.Muxer.get st' k := by
  have hp : st.paths = st'.paths := congrArg (fun v => v.2.1) h
  have hn : ∀ si, (st.stream si).nextPartID = (st'.stream si).nextPartID :=
    fun si => congrArg SView.nextPartID (sview_stream h si)
  unfold Hls.Muxer.get
  simp only [hp, hn]

/-- **Every answer a handler computes depends on the view only.** -/
theorem answer_congr {st st' : State} (h : view st = view st') (q : Req) : answer st q = answer st' q := by
  cases q with
  | media si d => simp only [answer, mediaPlaylist_congr h]
  | decision si m p s => simp only [answer, reqDecision_congr h]
  | get k => simp only [answer, get_congr h]


/-! ### the unlocked steps of the model leave the view unchanged -/

theorem view_of_eq {st st' : State} (hc : st'.cfg = st.cfg) (hp : st'.paths = st.paths)
    (hs : st'.streams = st.streams) : view st' = view st := by
  unfold view; rw [hc, hp, hs]

theorem view_setStream {st : State} {si : Nat} {s' : StreamSt} (h : sview s' = sview (st.stream si)) :
    view (st.setStream si s') = view st := by
  unfold view
  simp only [State.setStream]
  congr 2
  rw [List.map_set, h]
  by_cases hlt : si < st.streams.length
  · have : st.stream si = st.streams[si] := by
      simp only [State.stream, List.getD_eq_getElem?_getD, List.getElem?_eq_getElem hlt, Option.getD_some]
    rw [this]
    apply List.ext_getElem
    · simp
    · intro i h1 h2
      by_cases hi : si = i
      · subst hi; simp
      · simp [List.getElem_set_ne hi]
  · rw [List.set_eq_of_length_le]
    simp only [List.length_map]
    exact Nat.le_of_not_lt hlt

theorem view_setTrack (st : State) (i : Nat) (t : TrackSt) : view (st.setTrack i t) = view st := rfl

theorem view_adjustPartDuration (st : State) (d : Int) : view (adjustPartDuration st d) = view st := by
  unfold adjustPartDuration
  repeat' split
  all_goals rfl

theorem view_paramsStep (st : State) (ti par : Nat) (ra : Bool) : view (paramsStep st ti par ra).1 = view st := by
  unfold paramsStep
  simp only
  repeat' split
  all_goals rfl

theorem view_partWriteSample (st : State) (ti : Nat) (smp : Sample) :
    view (partWriteSample st ti smp).1 = view st := by
  unfold partWriteSample
  simp only
  split
  · rename_i seg part hs hp
    split
    · rfl
    · refine (view_setStream (st := st.setTrack ti _) ?_).trans (view_setTrack st ti _)
      show sview _ = sview (st.stream (st.streamOf ti))
      simp only [sview, openPartsOf, hs]
  · rfl

theorem view_tsWrite (st : State) (u : TsUnit) (size : Nat) (e : Option Int) (c : Bool) :
    view (tsWrite st u size e c).1 = view st := by
  unfold tsWrite
  simp only
  split
  · rfl
  · rename_i seg hs
    split
    · rfl
    · refine view_setStream ?_
      simp only [sview, openPartsOf, hs]
      repeat' split
      all_goals rfl

theorem stream_setStream_ne {st : State} {j si : Nat} (h : j ≠ si) (s : StreamSt) :
    (st.setStream j s).stream si = st.stream si := by
  simp only [State.stream, State.setStream, List.getD_eq_getElem?_getD, List.getElem?_set_ne h]

theorem view_createFirstSegmentStream (st : State) (si : Nat) (d n : Int)
    (h : (st.stream si).nextSegment = none) : view (createFirstSegmentStream st si d n) = view st := by
  unfold createFirstSegmentStream
  simp only
  refine (view_of_eq (st := st.setStream si _) rfl rfl rfl).trans (view_setStream ?_)
  split <;> simp only [sview, openPartsOf, h]

theorem stream_createFirstSegmentStream_ne (st : State) {j si : Nat} (h : j ≠ si) (d n : Int) :
    (createFirstSegmentStream st j d n).stream si = st.stream si := by
  unfold createFirstSegmentStream
  simp only
  exact stream_setStream_ne h _

/-- `createFirstSegment` runs when no stream has an open segment yet: every stream gets a fresh open
    segment without parts, which a handler cannot tell from "none". -/
theorem view_createFirstSegment (st : State) (d n : Int)
    (h : ∀ si, (st.stream si).nextSegment = none) : view (createFirstSegment st d n) = view st := by
  unfold createFirstSegment
  generalize hl : List.range st.streams.length = l
  have hnd : l.Nodup := hl ▸ List.nodup_range
  have h' : ∀ si ∈ l, (st.stream si).nextSegment = none := fun si _ => h si
  clear hl h
  induction l generalizing st with
  | nil => rfl
  | cons a l ih =>
    simp only [List.foldl_cons]
    have hnd' := List.nodup_cons.mp hnd
    rw [ih (createFirstSegmentStream st a d n) hnd'.2 ?_]
    · exact view_createFirstSegmentStream st a d n (h' a (List.mem_cons_self ..))
    · intro si hsi
      have hne : a ≠ si := fun e => hnd'.1 (e ▸ hsi)
      rw [stream_createFirstSegmentStream_ne st hne]
      exact h' si (List.mem_cons_of_mem _ hsi)

end Hls.Race.View
